#!/bin/bash
# usage: tools/seed_detect.sh <seed-id>[:<check>[,<check>...]] ...   runs the quick tier of the given checks (default: the seed's property) against HEAD+seed
cd "$(dirname "$0")/.."
mkdir -p work/seedlogs
for arg in "$@"; do
  id=${arg%%:*}; checks=${arg#*:}; [ "$checks" = "$arg" ] && checks=$(jq -r .property seeded/$id/meta.json)
  for c in ${checks//,/ }; do
    tools/mutrun.sh seeded/$id/patch.diff $c --tier quick > work/seedlogs/$id.$c.detect.log 2>&1
    echo "$id $c rc=$? $(grep -m4 'signature:' work/seedlogs/$id.$c.detect.log | sed 's/ *signature: //' | tr '\n' '|' | cut -c1-260)"
  done
done
