#!/usr/bin/env python3
"""Rewrites sections 8.2 and 8.3 of DESIGN.md (fix commits, known findings) from git log and known_findings.json."""
import json, subprocess, re, os
root = os.path.dirname(os.path.dirname(os.path.abspath(__file__)))
p = os.path.join(root, 'DESIGN.md')
s = open(p).read()
fixes = subprocess.run("git -C /repo log --reverse --format='%h|%s' 91db560..HEAD", shell=True, capture_output=True, text=True).stdout.strip().split('\n')
rows = ['| %s | %s |' % (l.split('|', 1)[0], l.split('|', 1)[1][5:].replace('|', '\\|')) for l in fixes if l.split('|', 1)[1].startswith('fix:')]
known = [k for k in json.load(open(os.path.join(root, 'known_findings.json'))) if k['status'] == 'known']
seen = set(); krows = []
for k in known:
    key = (k['property'], k['what'])
    if key in seen: continue
    seen.add(key)
    sigs = [x['signature'] for x in known if (x['property'], x['what']) == key]
    krows.append('| %s | `%s` | %s |' % (k['property'], '`, `'.join(sigs), k['what'].replace('|', '\\|')))
a = s.index('### 8.2 Genuine defects repaired')
b = s.index('### 8.3 Genuine defects recorded')
c = s.index('Other observations that are *not* judged')
sec82 = '''### 8.2 Genuine defects repaired (`fix:` commits in /repo, oldest first)

Each was first observed as a violation of a check on the pinned tree (or on the tree with earlier fixes), reproduced by
hand, repaired by a minimal patch, and the unedited repository suite passes after every commit. %d commits:

| commit | defect |
|---|---|
%s

''' % (len(rows), '\n'.join(rows))
sec83 = '''### 8.3 Genuine defects recorded as known findings (not repaired)

| property | signature(s) | why it is not repaired |
|---|---|---|
%s

''' % '\n'.join(krows)
s = s[:a] + sec82 + sec83 + s[c:]
open(p, 'w').write(s)
print(len(rows), 'fixes,', len(krows), 'known')
