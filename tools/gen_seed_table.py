#!/usr/bin/env python3
"""Rewrites section 8.5 of DESIGN.md from seeded/*/meta.json."""
import json, glob, os, re
root = os.path.dirname(os.path.dirname(os.path.abspath(__file__)))
rows = []
for f in sorted(glob.glob(os.path.join(root, 'seeded', '*', 'meta.json'))):
    m = json.load(open(f))
    sid = os.path.basename(os.path.dirname(f))
    det = m.get('detected_by') or 'NOT DETECTED'
    rows.append('| %s | %s | %s | %s | %s |' % (sid, m['property'], m['needs'].replace('|', '\\|'), det, (m.get('detection_note') or '').replace('|', '\\|')))
text = '''### 8.5 Seeded changes: which checks catch which changes

Each change was written by a fresh sub-agent that saw only the property text and a scratch worktree of the
repository (nothing from /verif). Every kept change compiles, passes the unedited repository suite, and comes with a
demonstration that fails with the change and passes without it; all of that was re-confirmed in a scratch worktree
(`tools/confirm_seed.sh`). Detection was measured with `tools/mutrun.sh` (HEAD + patch in a scratch worktree, quick
tier unless stated). Where the first version of a check missed a change, the check's workload was extended (never
its oracle loosened) and the note says what was added.

| seed | property | what it needs to manifest | detected by | note |
|---|---|---|---|---|
%s
''' % '\n'.join(rows)
p = os.path.join(root, 'DESIGN.md')
s = open(p).read()
i = s.find('### 8.5 Seeded changes')
if i >= 0:
    s = s[:i]
s = s.rstrip('\n') + '\n\n' + text
open(p, 'w').write(s)
print(len(rows), 'seeds')
