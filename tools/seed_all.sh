#!/bin/bash
# usage: tools/seed_all.sh <seed-id>...   confirms each seed and runs the quick tier of its property's check against it
cd "$(dirname "$0")/.."
mkdir -p work/seedlogs
for id in "$@"; do
  d=seeded/$id
  prop=$(jq -r .property $d/meta.json)
  tools/confirm_seed.sh $d > work/seedlogs/$id.confirm.log 2>&1
  crc=$?
  KEEP_REPLAY=$PWD/work/seedlogs/$id.replay tools/mutrun.sh $d/patch.diff $prop --tier quick > work/seedlogs/$id.detect.log 2>&1
  drc=$?
  echo "$id confirm_rc=$crc detect_rc=$drc $(grep -c '^VIOLATION' work/seedlogs/$id.detect.log) violations: $(grep -m3 'signature:' work/seedlogs/$id.detect.log | tr '\n' ' ')"
done
