#!/bin/bash
# usage: tools/mutrun.sh <patch.diff> <Cnn> [vcheck args...]
# Runs a check against a scratch copy of /repo (HEAD + patch) without touching /repo,
# /verif/evidence or /verif/replay. Exit code is the check's exit code.
set -u
patch=$(readlink -f "$1"); shift
cd "$(dirname "$0")/.." || exit 2
export GOFLAGS=-mod=mod GOPROXY=off GOTOOLCHAIN=auto
tag=mut$$
scratch=/tmp/mutrepo-$tag
root=/tmp/mutroot-$tag
trap 'git -C /repo worktree remove --force "$scratch" 2>/dev/null; rm -rf "$scratch" "$root" go.$tag.mod go.$tag.sum bin/vcheck-$tag' EXIT
git -C /repo worktree add -q --detach "$scratch" HEAD || exit 2
git -C "$scratch" apply "$patch" || { echo "patch does not apply"; exit 2; }
sed "s#=> /repo#=> $scratch#" go.mod > go.$tag.mod
cp go.sum go.$tag.sum
go build -modfile=go.$tag.mod -tags verif -o bin/vcheck-$tag ./cmd/vcheck || { echo "build failed"; exit 2; }
mkdir -p "$root"
cp known_findings.json "$root"/
VERIF_ROOT="$root" VERIF_REPO="$scratch" ./bin/vcheck-$tag "$@"
rc=$?
if [ -d "$root/replay" ] && [ -n "${KEEP_REPLAY:-}" ]; then rm -rf "$KEEP_REPLAY"; cp -r "$root/replay" "$KEEP_REPLAY"; fi
exit $rc
