#!/bin/bash
# usage: tools/confirm_seed.sh seeded/<id> [--skip-suite]
# Confirms a seeded change in a scratch worktree of /repo: demo passes on the clean tree, patch applies and
# builds, demo fails with the patch, the full unedited test suite still passes with the patch.
set -u
d=$(readlink -f "$1")
skip=${2:-}
export GOFLAGS=-mod=mod GOPROXY=off GOTOOLCHAIN=auto
wt=/tmp/seedconf-$$
trap 'git -C /repo worktree remove --force "$wt" 2>/dev/null; rm -rf "$wt"' EXIT
git -C /repo worktree add -q --detach "$wt" HEAD || exit 2
place() { jq -r '.demo_files | to_entries[] | "\(.key) \(.value)"' "$d/meta.json" | while read f dest; do cp "$d/$f" "$wt/$dest/$f"; done; }
unplace() { jq -r '.demo_files | to_entries[] | "\(.key) \(.value)"' "$d/meta.json" | while read f dest; do rm -f "$wt/$dest/$f"; done; }
cmd=$(jq -r .demo_cmd "$d/meta.json")
cd "$wt"
place
echo "== demo on clean tree: $cmd"
if bash -c "$cmd" > "$wt/.clean.log" 2>&1; then echo "   PASS (expected)"; else echo "   FAIL (unexpected)"; tail -20 "$wt/.clean.log"; exit 1; fi
unplace
git apply "$d/patch.diff" || { echo "patch does not apply"; exit 1; }
go build ./... || { echo "does not build"; exit 1; }
place
echo "== demo with patch"
if bash -c "$cmd" > "$wt/.patched.log" 2>&1; then echo "   PASS (unexpected: the demo does not detect the change)"; exit 1; else echo "   FAIL (expected)"; grep -E "^\s+--- FAIL|FAIL:" "$wt/.patched.log" | head -5; fi
unplace
if [ "$skip" != "--skip-suite" ]; then
  echo "== full suite with patch"
  if go test -count=1 ./... > "$wt/.suite.log" 2>&1; then echo "   PASS (expected)"; else echo "   FAIL (unexpected)"; grep -v "^ok\|no test files" "$wt/.suite.log" | head -20; exit 1; fi
fi
echo "CONFIRMED $d"
