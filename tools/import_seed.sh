#!/bin/bash
# usage: tools/import_seed.sh <Cnn> <letter>   imports /tmp/mut/<Cnn>/_seed/<letter> (needs seed.json) as seeded/<Cnn>-<letter>
cd "$(dirname "$0")/.."
p=$1; v=$2; src=/tmp/mut/$p/_seed/$v; id=$p-$v
[ -f $src/seed.json ] || { echo "no seed.json in $src"; exit 1; }
mkdir -p seeded/$id
cp $src/patch.diff seeded/$id/; cp $src/NOTES.md seeded/$id/ 2>/dev/null
jq -r '.demo_files | keys[]' $src/seed.json | while read f; do cp "$src/$f" seeded/$id/; done
jq --arg p "$p" '{property:$p, needs:.needs, demo_cmd:.demo_cmd, demo_files:.demo_files, confirmed:null, detected_by:null}' $src/seed.json > seeded/$id/meta.json
echo imported $id
