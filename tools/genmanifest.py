#!/usr/bin/env python3
"""Regenerates MANIFEST.json from tools/manifest_src.json (claimed checks) + properties.jsonl."""
import json, os, subprocess
root = os.path.dirname(os.path.dirname(os.path.abspath(__file__)))
src = json.load(open(os.path.join(root, 'tools', 'manifest_src.json')))
import glob
src['checks'] = {os.path.basename(f)[:-5]: json.load(open(f)) for f in glob.glob(os.path.join(root,'tools','manifest.d','C*.json'))}
props = [json.loads(l) for l in open(os.path.join(root, 'properties.jsonl'))]
checks = []
na = []
for p in props:
    pid = p['id']
    c = src['checks'].get(pid)
    if pid in src.get('pending', {}):
        na.append({'property_id': pid, 'reason': src['pending'][pid]})
        continue
    if not c:
        na.append({'property_id': pid, 'reason': src['not_applicable'].get(pid, 'check not built yet in this round; planned design in DESIGN.md section 4')})
        continue
    checks.append({
        'property_id': pid,
        'quick_cmd': './run.sh %s --tier quick' % pid,
        'thorough_cmd': './run.sh %s --tier thorough' % pid,
        'evidence_file': '/verif/evidence/%s.json' % pid,
        'replay_cmd_template': './run.sh replay {path}',
        'engine': 'vcheck',
        'level_claimed': {'category': c.get('category', 'exploration'), 'text': c['text'], 'design_ref': 'DESIGN.md section 4, ' + pid},
        'level_note': c['note'],
        'technique': c['technique'],
    })
man = {
    'version': 1,
    'setup_cmd': './setup.sh',
    'hooks': {
        'guard': 'verif',
        'enable': 'go build -tags verif (run.sh builds bin/vcheck with the tag against /repo through a replace directive; C23 builds cmd/textmapper with -race -tags verif)',
        'baseline_off_cmd': 'cd /repo && GOFLAGS=-mod=mod GOPROXY=off GOTOOLCHAIN=auto go test -mod=mod -json -vet=off -count=1 -timeout 25m ./...',
        'source_commits': src['hook_commits'],
        'add_only': True,
    },
    'engines': [{'name': 'vcheck', 'path': '/verif/cmd/vcheck', 'serves_properties': [c['property_id'] for c in checks],
                 'kind_free_text': 'runtime monitoring: journaled child processes run the real code on generated workloads; reference-model oracles, hook invariants, offline trace checkers, Go race detector'}],
    'checks': checks,
    'notes': src.get('notes', ''),
    'not_applicable': na,
}
json.dump(man, open(os.path.join(root, 'MANIFEST.json'), 'w'), indent=1)
print('checks:', len(checks), 'not claimed:', len(na))
