// vgen compiles and generates grammar files in-process and prints, for every
// grammar, the sequence of Writer.Write calls as "<grammar>\t<index>\t<filename>\t<sha256>".
// It is the standalone twin of the helper mode of vcheck (checks/genhelper.go) used
// by C17/C18, and a debugging aid (-o dir writes the files to dir/<grammar>/).
//
//	vgen [-o dir] [-rep n] grammar.tm...
package main

import (
	"flag"
	"fmt"
	"os"

	"verif/internal/genrun"
)

func main() {
	out := flag.String("o", "", "write generated files below this directory")
	rep := flag.Int("rep", 1, "generate every grammar this many times (round robin over the grammars)")
	flag.Parse()
	if err := genrun.Transcript(os.Stdout, flag.Args(), *rep, *out); err != nil {
		fmt.Fprintln(os.Stderr, err)
		os.Exit(2)
	}
}
