// vdebug: compile+generate a grammar, build it and run inputs; prints traces.
// usage: vdebug grammar.tm entry mode text...   (package name is taken from the file: must be w/<name>)
package main

import (
	"encoding/json"
	"fmt"
	"os"
	"regexp"
	"strconv"

	"verif/internal/genrun"
)

func main() {
	b, err := os.ReadFile(os.Args[1])
	if err != nil {
		panic(err)
	}
	m := regexp.MustCompile(`package = "w/(\w+)"`).FindSubmatch(b)
	name := string(m[1])
	pkg, cerr, gerr := genrun.Generate(name, string(b))
	if cerr != nil || gerr != nil {
		fmt.Println("compile error:", cerr, "gen error:", gerr)
		os.Exit(1)
	}
	dir, _ := os.MkdirTemp("", "vdebug")
	if os.Getenv("KEEP") == "" {
		defer os.RemoveAll(dir)
	} else {
		fmt.Println("dir:", dir)
	}
	if err := genrun.WriteModule(dir, []*genrun.Pkg{pkg}); err != nil {
		panic(err)
	}
	bin, out, err := genrun.Build(dir, false, "")
	if err != nil {
		fmt.Println(out)
		os.Exit(1)
	}
	entry, _ := strconv.Atoi(os.Args[2])
	var jobs []genrun.Job
	for i, t := range os.Args[4:] {
		jobs = append(jobs, genrun.Job{ID: i, Pkg: name, Mode: os.Args[3], Entry: entry, Text: t, EH: -1})
	}
	res, err := genrun.Run(bin, dir, jobs, 60)
	if err != nil {
		panic(err)
	}
	for i := range jobs {
		tb, _ := json.Marshal(res.Traces[i])
		fmt.Printf("%q => %s\n", jobs[i].Text, tb)
	}
	if os.Getenv("OUT") != "" {
		fmt.Println(res.Output)
	}
	if res.Stderr != "" {
		fmt.Println(res.Stderr)
	}
}
