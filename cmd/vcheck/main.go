// vcheck dispatches runtime-monitoring checks.
//
//	vcheck <Cnn> [--tier quick|thorough] [--seed N] [--case i,j]
//	vcheck replay <path>
//	vcheck child ...   (internal)
package main

import (
	"encoding/json"
	"fmt"
	"os"
	"path/filepath"
	"strconv"
	"strings"

	_ "verif/checks"
	"verif/internal/fw"
)

func main() {
	args := os.Args[1:]
	if len(args) == 0 {
		fmt.Fprintln(os.Stderr, "usage: vcheck <id> [--tier quick|thorough] [--seed N] | replay <path>; checks:", fw.IDs())
		os.Exit(2)
	}
	if args[0] == "child" {
		// child id tier seed cases out journal workdir
		seed, _ := strconv.ParseInt(args[3], 10, 64)
		var cases []int
		for _, s := range strings.Split(args[4], ",") {
			n, _ := strconv.Atoi(s)
			cases = append(cases, n)
		}
		os.Exit(fw.ChildMain(args[1], args[2], seed, cases, args[5], args[6], args[7]))
	}
	tier := os.Getenv("VERIF_TIER")
	if tier == "" {
		tier = "quick"
	}
	seed := int64(1)
	if v := os.Getenv("VERIF_SEED"); v != "" {
		if n, err := strconv.ParseInt(v, 10, 64); err == nil {
			seed = n
		}
	}
	var only []int
	id := args[0]
	if id == "replay" {
		if len(args) < 2 {
			fmt.Fprintln(os.Stderr, "usage: vcheck replay <path>")
			os.Exit(2)
		}
		b, err := os.ReadFile(filepath.Join(args[1], "replay.json"))
		if err != nil {
			fmt.Fprintln(os.Stderr, err)
			os.Exit(2)
		}
		var r struct {
			Check string
			Tier  string
			Seed  int64
			Case  int
		}
		if err := json.Unmarshal(b, &r); err != nil {
			fmt.Fprintln(os.Stderr, err)
			os.Exit(2)
		}
		id, tier, seed, only = r.Check, r.Tier, r.Seed, []int{r.Case}
		os.Setenv("VERIF_ONLY", "1")
	}
	for i := 1; i < len(args); i++ {
		switch args[i] {
		case "--tier":
			i++
			tier = args[i]
		case "--seed":
			i++
			seed, _ = strconv.ParseInt(args[i], 10, 64)
		case "--case":
			i++
			for _, s := range strings.Split(args[i], ",") {
				n, _ := strconv.Atoi(s)
				only = append(only, n)
			}
			os.Setenv("VERIF_ONLY", "1")
		}
	}
	if tier != "quick" && tier != "thorough" {
		fmt.Fprintln(os.Stderr, "bad tier", tier)
		os.Exit(2)
	}
	os.Exit(fw.ParentMain(id, tier, seed, only))
}
