module verif

go 1.25

require (
	github.com/anishathalye/porcupine v1.3.0
	github.com/inspirer/textmapper v0.0.0
)

replace github.com/inspirer/textmapper => /tmp/mutrepo-mut20935
