module verif

go 1.25

require (
	github.com/anishathalye/porcupine v1.3.0
	github.com/inspirer/textmapper v0.0.0
	go.lsp.dev/jsonrpc2 v0.10.0
	go.lsp.dev/protocol v0.12.0
	go.lsp.dev/uri v0.3.0
	go.uber.org/zap v1.27.0
)

require (
	github.com/segmentio/asm v1.2.0 // indirect
	github.com/segmentio/encoding v0.4.0 // indirect
	go.lsp.dev/pkg v0.0.0-20210717090340-384b27a52fb2 // indirect
	go.uber.org/multierr v1.11.0 // indirect
	golang.org/x/sys v0.24.0 // indirect
)

replace github.com/inspirer/textmapper => /tmp/mutrepo-mut28909
