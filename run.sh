#!/bin/bash
# usage: run.sh <Cnn>|replay [args...]  -- rebuilds vcheck against /repo's working tree (tag verif) and runs it.
cd "$(dirname "$0")" || exit 2
export GOFLAGS=-mod=mod GOPROXY=off GOTOOLCHAIN=auto
export VERIF_ROOT="$PWD"
mkdir -p bin
(
  flock 9
  go build -tags verif -o bin/vcheck ./cmd/vcheck
) 9>bin/.lock || { echo "INCONCLUSIVE build of vcheck failed (does /repo still compile with -tags verif?)"; exit 2; }
exec ./bin/vcheck "$@"
