// Package tmmut provides the grammar corpus, the synthetic grammar generator and
// the mutators (token level, byte level, semantic) used by the checks that feed
// hostile grammar texts to the textmapper compiler (C22, C28).
//
// Everything here is workload generation: no function of this package takes part
// in a verdict. Randomness comes only from the *rand.Rand passed in.
package tmmut

import (
	"github.com/inspirer/textmapper/parsers/tm"
	"github.com/inspirer/textmapper/parsers/tm/token"
)

// Tok is one token of a grammar text as seen by the real tm lexer.
type Tok struct {
	Type     token.Type
	Off, End int
}

// Tokens runs the tm lexer over text (comments and invalid tokens included,
// whitespace skipped by the lexer itself). A panic of the lexer is turned into a
// truncated token list: the compile of the same text will hit it again under the
// monitor.
func Tokens(text string) (toks []Tok) {
	defer func() { recover() }()
	var l tm.Lexer
	l.Init(text)
	for len(toks) < 200000 {
		t := l.Next()
		if t == token.EOI {
			break
		}
		s, e := l.Pos()
		toks = append(toks, Tok{t, s, e})
	}
	return toks
}

// IsName tells whether a token type can serve as a symbol name (identifier<+Str>
// of textmapper.tm: ID, quoted id, string, soft keywords).
func IsName(t token.Type) bool {
	switch t {
	case token.ID, token.QUOTED_ID, token.SCON:
		return true
	}
	return IsSoftKeyword(t)
}

// IsSoftKeyword reports the soft keywords of textmapper.tm (usable as identifiers).
func IsSoftKeyword(t token.Type) bool {
	switch t {
	case token.BRACKETS, token.INLINE, token.PREC, token.SHIFT, token.INPUT,
		token.LEFT, token.RIGHT, token.NONASSOC, token.GENERATE, token.ASSERT, token.EMPTY,
		token.NONEMPTY, token.GLOBAL, token.EXPLICIT, token.LOOKAHEAD, token.PARAM, token.FLAG,
		token.NOMINUSEOI, token.CHAR_S, token.CHAR_X, token.EXPECT, token.EXPECTMINUSRR,
		token.CLASS, token.INTERFACE, token.SPACE, token.EXTEND, token.INJECT,
		token.LAYOUT, token.LANGUAGE, token.LALR, token.LEXER, token.PARSER:
		return true
	}
	return false
}

// LexSingle lexes s in the initial state and returns the type of its only token,
// or (UNAVAILABLE,false) if s is not exactly one token (whitespace around the
// token is not accepted either).
func LexSingle(s string) (t token.Type, ok bool) {
	defer func() {
		if recover() != nil {
			ok = false
		}
	}()
	var l tm.Lexer
	l.Init(s)
	t = l.Next()
	st, e := l.Pos()
	if t == token.EOI || t == token.INVALID_TOKEN || st != 0 || e != len(s) {
		return token.UNAVAILABLE, false
	}
	if l.Next() != token.EOI {
		return token.UNAVAILABLE, false
	}
	return t, true
}

// Info is a heuristic structural summary of a grammar text, derived from its
// token stream. It only steers mutators towards interesting places.
type Info struct {
	HeaderEnd int // offset just after the ';' of the header, or -1
	LexerOff  int // offset just after ':: lexer', or -1
	ParserOff int // offset of the '::' of ':: parser', or -1
	ParserIn  int // offset just after ':: parser' (and an optional lalr(k)), or -1
	End       int // offset of '%%' or len(text)
	Terms     []string
	Nonterms  []string
}

// Analyze computes Info for text.
func Analyze(text string) Info {
	toks := Tokens(text)
	in := Info{HeaderEnd: -1, LexerOff: -1, ParserOff: -1, ParserIn: -1, End: len(text)}
	section := 0
	seenT := map[string]bool{}
	seenN := map[string]bool{}
	for i := 0; i < len(toks); i++ {
		t := toks[i]
		switch {
		case t.Type == token.TEMPLATES:
			in.End = t.Off
			i = len(toks)
			continue
		case t.Type == token.SEMICOLON && in.HeaderEnd < 0 && section == 0:
			in.HeaderEnd = t.End
		case t.Type == token.COLONCOLON && i+1 < len(toks) && toks[i+1].Type == token.LEXER:
			section = 1
			in.LexerOff = toks[i+1].End
			i++
			continue
		case t.Type == token.COLONCOLON && i+1 < len(toks) && toks[i+1].Type == token.PARSER:
			section = 2
			in.ParserOff = t.Off
			in.ParserIn = toks[i+1].End
			i++
			if i+4 < len(toks) && toks[i+1].Type == token.LALR && toks[i+4].Type == token.RPAREN {
				in.ParserIn = toks[i+4].End
				i += 4
			}
			continue
		}
		if !IsName(t.Type) {
			continue
		}
		name := text[t.Off:t.End]
		switch section {
		case 1:
			// name [ '(' id ')' ] [ code ] ':'
			j := i + 1
			if j+2 < len(toks) && toks[j].Type == token.LPAREN && toks[j+2].Type == token.RPAREN {
				j += 3
			}
			if j < len(toks) && toks[j].Type == token.CODE {
				j++
			}
			if j < len(toks) && toks[j].Type == token.COLON && (i == 0 || toks[i-1].Type != token.LT && toks[i-1].Type != token.COMMA) {
				if !seenT[name] {
					seenT[name] = true
					in.Terms = append(in.Terms, name)
				}
			}
		case 2:
			if i == 0 || i+1 >= len(toks) {
				continue
			}
			switch toks[i-1].Type {
			case token.SEMICOLON, token.PARSER, token.INLINE, token.EXTEND, token.RPAREN:
			default:
				continue
			}
			switch toks[i+1].Type {
			case token.COLON, token.LT, token.LBRACK, token.CODE, token.MINUSGT:
				if !seenN[name] && !seenT[name] {
					seenN[name] = true
					in.Nonterms = append(in.Nonterms, name)
				}
			}
		}
	}
	return in
}
