package tmmut

import (
	"fmt"
	"math/rand"
	"strings"
)

// G is a grammar under construction: a valid skeleton plus a "soup" of feature
// fragments, some of them deliberately misusing the feature.
type G struct {
	r     *rand.Rand
	Name  string
	Lang  string // "go", "cc", "ts", "" (no target), or something unsupported
	Opts  []string
	Lex   []string
	Par   []string
	LALR  string
	Tail  string
	NoPar bool // lexer-only grammar

	Terms, NTs, Flags, Sets, Cats, Conds, Pats []string
	n                                          int
	Hostility                                  int // 0: only legit features, 100: every fragment may misuse
	Tags                                       []string

	ntParams map[string][]string // template parameters of nonterminals declared by the generator
	scope    []string            // parameters visible in the rule being generated
	noInput  map[string]bool     // nonterminals that cannot serve as %input (templated, inline)
	optSet   map[string]bool
	precUsed map[string]bool
	injected map[string]bool
}

// argsFor produces template arguments for a reference to nonterminal n: all of its
// parameters, well-formed, unless the generator is in a hostile mood.
func (g *G) argsFor(n string) string {
	if g.hostile() {
		return g.args()
	}
	ps := g.ntParams[n]
	if len(ps) == 0 {
		return ""
	}
	var a []string
	for _, p := range ps {
		inScope := false
		for _, s := range g.scope {
			inScope = inScope || s == p
		}
		switch k := g.r.Intn(5); {
		case k == 0 && inScope:
			a = append(a, p)
		case k == 1 && len(g.scope) > 0:
			a = append(a, p+": "+g.pick(g.scope))
		case k == 2:
			a = append(a, "~"+p)
		case k == 3:
			a = append(a, p+": "+g.pick([]string{"true", "false"}))
		default:
			a = append(a, "+"+p)
		}
	}
	return "<" + strings.Join(a, ", ") + ">"
}

var optLangs = map[string]string{
	"package": "go", "cancellable": "go", "cancellableFetch": "go", "eventFields": "go",
	"tokenStream": "go,ts", "genSelector": "go,ts", "fixWhitespace": "go,ts", "eventAST": "go,ts",
	"flexMode": "cc", "namespace": "cc", "includeGuardPrefix": "cc", "filenamePrefix": "cc", "abseilIncludePrefix": "cc", "dirIncludePrefix": "cc", "parseParams": "cc", "variantStackEntry": "cc", "trackReduces": "cc",
}

// addOpt adds an option line; in a non-hostile mood an option is set once and only
// for a target language that accepts it.
func (g *G) addOpt(name, val string) {
	if g.optSet == nil {
		g.optSet = map[string]bool{}
	}
	if !g.hostile() {
		if g.optSet[name] {
			return
		}
		if l, ok := optLangs[name]; ok && !strings.Contains(l, g.Lang) {
			return
		}
		if g.Lang == "" {
			return
		}
	}
	g.optSet[name] = true
	g.Opts = append(g.Opts, name+" = "+val)
}

func (g *G) declare(nt string, params []string, inline bool) {
	if g.ntParams == nil {
		g.ntParams = map[string][]string{}
		g.noInput = map[string]bool{}
	}
	g.NTs = append(g.NTs, nt)
	if len(params) > 0 {
		g.ntParams[nt] = params
	}
	if len(params) > 0 || inline {
		g.noInput[nt] = true
	}
}

func (g *G) pick(l []string) string {
	if len(l) == 0 {
		return "nothing"
	}
	return l[g.r.Intn(len(l))]
}

func (g *G) hostile() bool { return g.r.Intn(100) < g.Hostility }

func (g *G) fresh(prefix string) string {
	g.n++
	return fmt.Sprintf("%s%d", prefix, g.n)
}

var weirdNames = []string{"''", "_", "__", "eoi", "error", "invalid_token", "afterErr", "input", "undefined_sym",
	"'\\''", "\"str\"", "'a b'", "a-b", "no-eoi", "expect-rr", "lexer", "parser", "x", "s", "flag", "set1", "'é'", "'\\\\'", "inline", "extend", "empty", "class", "space", "opt", "aopt"}

// T returns a terminal name (sometimes something else when hostile).
func (g *G) T() string {
	if g.hostile() && g.r.Intn(4) == 0 {
		switch g.r.Intn(3) {
		case 0:
			return g.pick(weirdNames)
		case 1:
			return g.pick(g.NTs)
		default:
			return g.pick(g.Sets)
		}
	}
	return g.pick(g.Terms)
}

// N returns a nonterminal name (sometimes something else when hostile).
func (g *G) N() string {
	if g.hostile() && g.r.Intn(4) == 0 {
		switch g.r.Intn(3) {
		case 0:
			return g.pick(weirdNames)
		case 1:
			return g.pick(g.Terms)
		default:
			return g.pick(g.Sets)
		}
	}
	return g.pick(g.NTs)
}

// ref is a symbol reference with the template arguments it needs.
func (g *G) ref() string {
	n := g.sym()
	return n + g.argsFor(n)
}

func (g *G) sym() string {
	if g.r.Intn(2) == 0 {
		return g.T()
	}
	return g.N()
}

func (g *G) flagName() string {
	if !g.hostile() && len(g.scope) > 0 {
		return g.pick(g.scope)
	}
	if len(g.Flags) == 0 || g.hostile() && g.r.Intn(4) == 0 {
		return g.pick([]string{"Undef", "F0", "flag", "true", g.pick(g.Terms), g.pick(g.NTs)})
	}
	return g.pick(g.Flags)
}

// args produces template arguments.
func (g *G) args() string {
	if len(g.Flags) == 0 && !g.hostile() {
		return ""
	}
	n := 1 + g.r.Intn(2)
	var a []string
	for i := 0; i < n; i++ {
		f := g.flagName()
		switch g.r.Intn(7) {
		case 0:
			a = append(a, "+"+f)
		case 1:
			a = append(a, "~"+f)
		case 2:
			a = append(a, f+": true")
		case 3:
			a = append(a, f+": false")
		case 4:
			a = append(a, f+": "+g.flagName())
		case 5:
			a = append(a, f)
		default:
			if g.hostile() {
				a = append(a, f+": "+g.pick([]string{"\"str\"", "42", "-1"}))
			} else {
				a = append(a, "+"+f)
			}
		}
	}
	if g.hostile() && g.r.Intn(10) == 0 {
		return "<>"
	}
	return "<" + strings.Join(a, ", ") + ">"
}

func (g *G) pred() string {
	if len(g.scope) == 0 && !g.hostile() {
		return ""
	}
	var rec func(d int) string
	rec = func(d int) string {
		f := g.flagName()
		switch g.r.Intn(8 - 2*min(d, 2)) {
		case 0, 1:
			return f
		case 2:
			return "!" + f
		case 3:
			return f + ` == "` + g.pick([]string{"a", "", "true", "x y"}) + `"`
		case 4:
			if g.hostile() {
				return f + " != " + g.pick([]string{`"a"`, "42", "true", `"\q"`})
			}
			return f + ` != "a"`
		case 5:
			return rec(d+1) + " && " + rec(d+1)
		default:
			return rec(d+1) + " || " + rec(d+1)
		}
	}
	return "[" + rec(0) + "]"
}

// SetExpr produces a set expression (content of set(...)).
func (g *G) SetExpr(d int) string {
	switch g.r.Intn(11 - 2*min(d, 3)) {
	case 0, 1:
		return g.T()
	case 2:
		op := g.pick([]string{"first", "last", "precede", "follow"})
		if g.hostile() && g.r.Intn(5) == 0 {
			op = g.pick([]string{"bogus", "set", "First", "precede follow"})
		}
		s := g.sym()
		return op + " " + s + g.argsFor(s)
	case 3:
		if len(g.Sets) > 0 {
			return g.pick(g.Sets)
		}
		n := g.N()
		return n + g.argsFor(n)
	case 4:
		n := g.N()
		return n + g.argsFor(n)
	case 5:
		return "~" + g.SetExpr(d+1)
	case 6:
		return "~(" + g.SetExpr(d+1) + ")"
	case 7:
		return g.SetExpr(d+1) + " | " + g.SetExpr(d+1)
	case 8:
		return g.SetExpr(d+1) + " & " + g.SetExpr(d+1)
	default:
		return "(" + g.SetExpr(d+1) + ")"
	}
}

var codeBlocks = []string{
	"{}", "{ $$ = $1; }", "{ $$ = nil }", "{ ${left()} @$ @1 }", "{ $a $b ${first().offset} }",
	"{ /* } */ }", "{ // }\n }", "{ \"}\" '{' }", "{ {{ }} }", "{ '\\\n' }", "{ \"\\\n\" /* \n */ }",
	"{ $0 $999999999999999999999 $-1 }", "{ ${self[0].offset} ${last().endoffset} }", "{ $undefined_name }",
	"{ $$ = $expr; }", "{ @0 @a #{ } }", "{ $$.x = $1.y }",
}

func (g *G) code() string { return g.pick(codeBlocks) }

// part produces one right-hand-side part.
func (g *G) part(d int) string {
	k := g.r.Intn(30)
	if d > 2 && k >= 6 && k <= 12 {
		k = 0
	}
	switch k {
	case 0, 1, 2, 3:
		return g.T()
	case 4, 5:
		n := g.N()
		return n + g.argsFor(n)
	case 6:
		return "(" + g.rhs(d+1) + " | " + g.rhs(d+1) + ")"
	case 7:
		return "(" + g.rhs(d+1) + ")" + g.pick([]string{"?", "+", "*", ""})
	case 8:
		return "(" + g.rhs(d+1) + " separator " + g.T() + g.pick([]string{"", " " + g.T()}) + ")" + g.pick([]string{"+", "*", "+?"})
	case 9:
		return g.ref() + g.pick([]string{"?", "+", "*", "+?", "*?"})
	case 10:
		return "set(" + g.SetExpr(0) + ")" + g.pick([]string{"", "*", "+", "?"})
	case 11:
		return g.pick([]string{"a", "b", "left", "right", "x", "'q'", "list", "then"}) + g.pick([]string{"=", "+="}) + g.part(d+2)
	case 12:
		if g.hostile() {
			return "$(" + g.rhs(d+1) + ")"
		}
		return g.ref()
	case 13:
		return g.ref() + "[" + g.pick([]string{"al", "a", "b", "then", "true", "set"}) + "]"
	case 14:
		n1, n2 := g.N(), g.N()
		la := g.pick([]string{"", "!"}) + n1 + g.argsFor(n1)
		if g.r.Intn(3) == 0 {
			la += " & " + g.pick([]string{"", "!"}) + n2 + g.argsFor(n2)
		}
		return "(?= " + la + ")"
	case 15:
		if g.hostile() || g.r.Intn(3) == 0 {
			return "." + g.pick([]string{"greedy", "recoveryScope", "m1", "foo"})
		}
		return g.T()
	case 16:
		if g.hostile() {
			return g.code()
		}
		return g.pick(safeCode)
	case 17:
		if g.hostile() {
			return "%prec " + g.T()
		}
		return g.T()
	case 18:
		if g.hostile() {
			return "%empty"
		}
		return g.T()
	case 19:
		if g.hostile() {
			return g.sym() + " as " + g.sym()
		}
		return g.T()
	case 20:
		// optional-suffix auto instantiation
		return g.optRef()
	default:
		return g.ref()
	}
}

func (g *G) arrow() string {
	if g.r.Intn(3) != 0 {
		return ""
	}
	names := []string{"Node", "Stmt", "List", "X", "Y", "Zed"}
	if g.hostile() {
		names = append(names, "Expr", "__ignoreContent", g.pick(g.Cats), g.pick(g.NTs))
	}
	a := " -> " + g.pick(names)
	if g.r.Intn(4) == 0 {
		a += "/" + g.pick([]string{"f1", "f1,f2", "InFoo", "f1,f1"})
	}
	if g.r.Intn(5) == 0 {
		if g.hostile() {
			a += " as " + g.pick(append([]string{"Expr", "Bogus"}, g.Cats...))
		} else if len(g.Cats) > 0 && !strings.Contains(a, "/") {
			a += " as " + g.pick(g.Cats)
		}
	}
	return a
}

func (g *G) rhs(d int) string {
	n := g.r.Intn(4)
	if d == 0 {
		n++
	}
	var ps []string
	for i := 0; i < n; i++ {
		ps = append(ps, g.part(d))
	}
	s := strings.Join(ps, " ")
	if d > 0 && g.r.Intn(3) == 0 || d == 0 {
		s += g.arrow()
	}
	return s
}

// Rule produces a complete nonterminal definition for name.
func (g *G) Rule(name string) string {
	var b strings.Builder
	host := g.hostile()
	inline := false
	if host && g.r.Intn(6) == 0 {
		b.WriteString(g.pick([]string{"inline ", "extend "}))
		inline = true
	}
	b.WriteString(name)
	var params []string
	if g.r.Intn(6) == 0 {
		if len(g.Flags) > 0 && g.r.Intn(2) == 0 {
			f := g.flagName()
			b.WriteString("<" + f + ">")
			params = []string{f}
		} else {
			f := g.fresh("L")
			vals := []string{" = true", " = false"}
			if host {
				vals = append(vals, "", " = 42")
			}
			b.WriteString("<flag " + f + g.pick(vals) + ">")
			params = []string{f}
		}
	}
	g.declare(name, params, inline)
	g.NTs = g.NTs[:len(g.NTs)-1] // the caller registers the name
	g.scope = params
	defer func() { g.scope = nil }()
	if g.r.Intn(10) == 0 {
		types := []string{"int", "*Node", "map[string]int"}
		if host {
			types = append(types, "", "a{b}c")
		}
		b.WriteString(" {" + g.pick(types) + "}")
	}
	if g.r.Intn(5) == 0 {
		b.WriteString(g.arrow())
	}
	b.WriteString(" :\n")
	alts := 1 + g.r.Intn(3)
	for i := 0; i < alts; i++ {
		if i > 0 {
			b.WriteString("  | ")
		} else {
			b.WriteString("    ")
		}
		if g.r.Intn(6) == 0 {
			b.WriteString(g.pred() + " ")
		}
		b.WriteString(g.rhs(0))
		b.WriteString("\n")
	}
	b.WriteString(";")
	return b.String()
}

// Regex produces the body of a regular expression (without the slashes). The
// result always lexes as one REGEXP token of the tm lexer unless hostile.
func (g *G) Regex(d int) string {
	atoms := []string{"a", "b", "xyz", "[a-z]", "[^\\n]", "\\d", "\\w+", "[0-9a-fA-F]", "\\.", "\\/", "\\\\", "\\x41", "\\u00e9", "\\U0001f600",
		"[\\x80-\\xff]", "\\p{Lu}", "\\p{Any}", "[\\p{L}-[a-z]]", "é", "😀", ".", "{eoi}", "\\t", "[ \\t]", "\\-", "\\*", "\\(", "\\)", "\\[", "\\]", "\\{", "\\}", "\\|", "\\+", "\\?"}
	hostileAtoms := []string{"a{1000000}", "a{0,99999999999999999999}", "(a{30}){30}", "a{3,2}", "a{,3}", "a{-1}", "[z-a]", "[", "]", "(", ")", "{", "}", "{undefinedPattern}", "\\p{Bogus}",
		"\\x", "\\u12", "\\U00110000", "\\xff", "\xff\xfe", "[a-\\d]", "[^]", "[]", "(?i)a", "(?", "a**", "+", "?", "|", "||", "\\", "{a", "\\Q", "\\1", "[\\p{Lu}-[\\p{Lu}]]", "[a-z-[a-z]]", "{eoi}{eoi}", "{eoi}a", "()", "(|)",
		strings.Repeat("(", 200) + "a" + strings.Repeat(")", 200), strings.Repeat("a?", 40) + strings.Repeat("a", 40), "(a|b)*abb(a|b){12}", "[\\x00-\\U0010ffff]{3}", ".{1,16}"}
	n := 1 + g.r.Intn(4)
	var b strings.Builder
	for i := 0; i < n; i++ {
		var a string
		switch {
		case g.hostile() && g.r.Intn(3) == 0:
			a = g.pick(hostileAtoms)
		case len(g.Pats) > 0 && g.r.Intn(6) == 0:
			a = "{" + g.pick(g.Pats) + "}"
		case d < 2 && g.r.Intn(6) == 0:
			a = "(" + g.Regex(d+1) + "|" + g.Regex(d+1) + ")"
		default:
			a = g.pick(atoms)
		}
		b.WriteString(a)
		if strings.ContainsAny(a, "{}") {
			// no quantifier on top of a counted repetition: (a|b)*abb(a|b){12}{3,} needs 2^39 DFA
			// states - subset construction is exponential by nature, that is not what is monitored
			continue
		}
		switch g.r.Intn(9) {
		case 0:
			b.WriteString("*")
		case 1:
			b.WriteString("+")
		case 2:
			b.WriteString("?")
		case 3:
			b.WriteString(g.pick([]string{"{2}", "{1,3}", "{0,2}", "{3,}"}))
		}
	}
	s := b.String()
	if d == 0 && (strings.HasPrefix(s, "*") || strings.HasPrefix(s, "/")) {
		s = "a" + s
	}
	return s
}

func (g *G) addTerm(name, re, suffix string) {
	g.Lex = append(g.Lex, fmt.Sprintf("%s: /%s/%s", name, re, suffix))
	g.Terms = append(g.Terms, name)
}

// ---------------------------------------------------------------------------
// skeletons

func baseExpr(g *G) {
	g.addTerm("id", "[a-zA-Z_][a-zA-Z_0-9]*", " (class)")
	g.addTerm("num", "[0-9]+", "")
	g.addTerm("'if'", "if", "")
	g.addTerm("'else'", "else", "")
	for _, t := range [][2]string{{"'+'", `\+`}, {"'*'", `\*`}, {"'('", `\(`}, {"')'", `\)`}, {"','", `,`}, {"';'", `;`}, {"'='", `=`}, {"'-'", `-`}} {
		g.addTerm(t[0], t[1], "")
	}
	g.Lex = append(g.Lex, `ws: /[ \t\r\n]+/ (space)`)
	g.Par = append(g.Par,
		"%left '+' '-';", "%left '*';",
		"input : stmt+ ;",
		"stmt : expr ';' | id '=' expr ';' | 'if' '(' expr ')' stmt %prec 'else' | 'if' '(' expr ')' stmt 'else' stmt ;",
		"%nonassoc 'else';",
		"expr : expr '+' expr | expr '-' expr | expr '*' expr | '(' expr ')' | id | num | call ;",
		"call : id '(' (expr separator ',')* ')' ;")
	g.NTs = append(g.NTs, "input", "stmt", "expr", "call")
}

func baseJSON(g *G) {
	for _, t := range [][2]string{{"'{'", `\{`}, {"'}'", `\}`}, {"'['", `\[`}, {"']'", `\]`}, {"':'", `:`}, {"','", `,`}, {"'null'", `null`}, {"'true'", `true`}} {
		g.addTerm(t[0], t[1], "")
	}
	g.addTerm("str", `"([^"\\]|\\.)*"`, "")
	g.addTerm("num", `-?[0-9]+(\.[0-9]+)?`, "")
	g.addTerm("id", `[a-z]+`, " (class)")
	g.Lex = append(g.Lex, `space: /[\t\r\n ]+/ (space)`)
	g.Par = append(g.Par,
		"%input value;",
		"value : 'null' | 'true' | str | num | object | array ;",
		"object : '{' (member separator ',')* '}' ;",
		"member : str ':' value ;",
		"array : '[' (value separator ',')+? ']' ;")
	g.NTs = append(g.NTs, "value", "object", "member", "array")
}

func baseTempl(g *G) {
	g.addTerm("a", "a", "")
	g.addTerm("b", "b", "")
	g.addTerm("c", "c", "")
	g.addTerm("'in'", "in", "")
	g.addTerm("'('", `\(`, "")
	g.addTerm("')'", `\)`, "")
	g.addTerm("','", `,`, "")
	g.Lex = append(g.Lex, `ws: /[ \n]+/ (space)`)
	g.Flags = append(g.Flags, "In", "Yield")
	g.Par = append(g.Par,
		"%flag In;", "%flag Yield = false;",
		"%input start;",
		"start : e<+In> | b e<~In> c ;",
		"e<In> : a | [In] e 'in' a | [!In] e ',' b | '(' list<+In, +Yield> ')' ;",
		"list<In, Yield> : e | [Yield] c | list ',' e ;")
	g.declare("start", nil, false)
	g.declare("e", []string{"In"}, false)
	g.declare("list", []string{"In", "Yield"}, false)
}

func baseLA(g *G) {
	g.addTerm("a", "a", "")
	g.addTerm("b", "b", "")
	g.addTerm("c", "c", "")
	g.addTerm("'('", `\(`, "")
	g.addTerm("')'", `\)`, "")
	g.Lex = append(g.Lex, "error:", `ws: /[ \n]+/ (space)`, `cmt: /#[^\n]*/ (space)`)
	g.Lang = "go"
	g.Terms = append(g.Terms, "error", "cmt")
	g.Par = append(g.Par,
		"%input file;",
		"file : item* ;",
		"item : (?= IsA) '(' a ')' | (?= !IsA & IsB) '(' b ')' | c | error ;",
		"IsA : '(' a ;",
		"IsB : '(' b ;",
		"%inject cmt -> Comment;")
	g.NTs = append(g.NTs, "file", "item", "IsA", "IsB")
	g.addOpt("eventBased", "true")
}

func baseEvent(g *G) {
	g.Lang = "go"
	g.addTerm("id", "[a-z]+", " (class)")
	g.addTerm("num", "[0-9]+", "")
	g.addTerm("'+'", `\+`, "")
	g.addTerm("'-'", `-`, "")
	g.addTerm("'('", `\(`, "")
	g.addTerm("')'", `\)`, "")
	g.addTerm("','", `,`, "")
	g.addTerm("'fn'", `fn`, "")
	g.Lex = append(g.Lex, `ws: /[ \n]+/ (space)`)
	g.addOpt("eventBased", "true")
	g.addOpt("eventFields", "true")
	if g.r.Intn(2) == 0 {
		g.addOpt("eventAST", "true")
	}
	g.Cats = append(g.Cats, "Expr", "Decl")
	g.Par = append(g.Par,
		"%interface Expr, Decl;",
		"%input file;",
		"file -> File : decls=decl* ;",
		"decl -> Decl : 'fn' name=ident '(' (params+=param separator ',')* ')' body=expr -> Func | expr -> ExprDecl ;",
		"ident -> Ident : id ;",
		"param -> Param : id ;",
		"%left '+' '-';",
		"expr -> Expr : left=expr '+' right=expr -> Plus | left=expr '-' right=expr -> Minus | '(' inner=expr ')' -> Paren | id -> Ref | num -> Lit/f1 ;")
	g.NTs = append(g.NTs, "file", "decl", "param", "expr")
}

func baseLexOnly(g *G) {
	g.NoPar = true
	g.Conds = append(g.Conds, "initial", "inStr", "inCmt")
	g.Lex = append(g.Lex, "%s initial;", "%x inStr, inCmt;")
	g.Pats = append(g.Pats, "hex", "letter")
	g.Lex = append(g.Lex, "hex = /[0-9a-fA-F]/", `letter = /[a-zA-Z_]|\\u{hex}{4}/`)
	g.addTerm("id", "{letter}({letter}|[0-9])*", " (class)")
	g.addTerm("'kw'", "kw", "")
	g.addTerm("'quote'", `"`, " { l.State = StateInStr }")
	g.Lex = append(g.Lex, "<inStr> {", `  strchar: /[^"\\\n]+|\\./`, `  strend: /"/ { l.State = StateInitial }`, "}")
	g.Terms = append(g.Terms, "strchar", "strend")
	g.Lex = append(g.Lex, `<initial, inCmt> cmtStart: /\/\*/ (space) { l.State = StateInCmt }`, `<inCmt> cmtEnd: /\*\// (space)`, `<inCmt> cmtChar: /[^*]|\*/ -1 (space)`)
	g.Lex = append(g.Lex, `<initial> ws: /[ \t\n]+/ (space)`)
}

var skeletons = []struct {
	name string
	f    func(*G)
}{
	{"expr", baseExpr}, {"json", baseJSON}, {"templ", baseTempl}, {"lookahead", baseLA}, {"event", baseEvent}, {"lexonly", baseLexOnly},
}

// ---------------------------------------------------------------------------
// fragments: each adds a feature use (legit or, depending on g.Hostility, a misuse)

type fragment struct {
	name string
	f    func(*G)
}

var optionValues = []string{"true", "false", "0", "1", "-1", "8", "99999999999999999999", `"str"`, `""`, `"a b"`, `"\q"`, "[]", `["A"]`, `["A", "B -> C"]`, `["->"]`, `["A ->"]`, `["a-b"]`, `[1]`, `[true,]`, `[["A"]]`, `["A", ]`, `["Lookahead", "NestedChoice", "Templates", "Bogus"]`, `["List", "Set", "Optional", "Arrow", "Assign", "Append", "StateMarker", "Command", "Choice", "Sequence", "Reference"]`}

var optionNames = []string{"package", "genCopyright", "scanBytes", "caseInsensitive", "tokenLine", "tokenLineOffset", "tokenColumn", "nonBacktracking", "flexMode", "genParser", "optInstantiationSuffix",
	"aliasIncludesOptSuffix", "cancellable", "cancellableFetch", "writeBison", "recursiveLookaheads", "tokenStream", "eventBased", "genSelector", "fixWhitespace", "debugParser", "optimizeTables", "minimizeDFA", "defaultReduce",
	"noEmptyRules", "maxLookahead", "disableSyntax", "expansionLimit", "expansionWarn", "eventFields", "eventAST", "extraTypes", "customImpl", "fileNode", "nodePrefix", "lang", "namespace", "includeGuardPrefix", "filenamePrefix",
	"abseilIncludePrefix", "dirIncludePrefix", "parseParams", "variantStackEntry", "trackReduces", "maxRuleSizeForOrdinalRef", "skipByteOrderMark", "unknownOption", "input", "lexer"}

// legit values for the well-typed use of an option
var optionLegit = map[string][]string{
	"package": {`"a/b"`}, "genCopyright": {"true"}, "scanBytes": {"false"}, "tokenLine": {"false", "true"}, "tokenLineOffset": {"true"}, "tokenColumn": {"true"},
	"genParser": {"false", "true"}, "optInstantiationSuffix": {`"opt"`, `"_opt"`, `"-opt"`, `""`, `"t"`}, "aliasIncludesOptSuffix": {"false"}, "cancellable": {"true"}, "cancellableFetch": {"true"},
	"writeBison": {"true"}, "recursiveLookaheads": {"true"}, "tokenStream": {"true"}, "eventBased": {"true", "false"}, "genSelector": {"true"}, "fixWhitespace": {"true"}, "debugParser": {"true"},
	"optimizeTables": {"true"}, "minimizeDFA": {"true"}, "defaultReduce": {"true"}, "maxLookahead": {"0", "100"},
	"expansionLimit": {"100000"}, "expansionWarn": {"1", "1000"}, "eventFields": {"true"}, "eventAST": {"true"}, "extraTypes": {`["Extra", "Extra2 -> Expr"]`}, "customImpl": {`["Node"]`},
	"fileNode": {`"File"`}, "nodePrefix": {`"N"`}, "lang": {`"x"`}, "maxRuleSizeForOrdinalRef": {"0", "1", "16"}, "skipByteOrderMark": {"false"}, "variantStackEntry": {"false"}, "trackReduces": {"true"},
	"namespace": {`"ns"`}, "parseParams": {`["int x"]`},
}

func fragOptions(g *G) {
	n := 1 + g.r.Intn(4)
	for i := 0; i < n; i++ {
		name := g.pick(optionNames)
		val := g.pick(optionValues)
		if !g.hostile() {
			if l, ok := optionLegit[name]; ok {
				val = g.pick(l)
			} else {
				continue
			}
		}
		g.addOpt(name, val)
	}
}

func fragCyclicSets(g *G) {
	a, b, c := g.fresh("SetA"), g.fresh("SetB"), g.fresh("SetC")
	op := g.pick([]string{"|", "&"})
	neg := g.pick([]string{"", "", "~"})
	switch g.r.Intn(5) {
	case 0: // two-cycle
		g.Par = append(g.Par, fmt.Sprintf("%%generate %s = set(%s%s %s %s);", a, neg, b, op, g.T()), fmt.Sprintf("%%generate %s = set(%s %s %s);", b, a, op, g.T()))
	case 1: // self-cycle
		g.Par = append(g.Par, fmt.Sprintf("%%generate %s = set(%s%s %s %s);", a, neg, a, op, g.T()))
		b = a
	case 2: // three-cycle
		g.Par = append(g.Par, fmt.Sprintf("%%generate %s = set(%s | %s);", a, b, g.T()), fmt.Sprintf("%%generate %s = set(%s%s | %s);", b, neg, c, g.T()), fmt.Sprintf("%%generate %s = set(%s %s first %s);", c, a, op, g.N()))
	case 3: // direct alias cycle
		g.Par = append(g.Par, fmt.Sprintf("%%generate %s = set(%s);", a, b), fmt.Sprintf("%%generate %s = set(%s);", b, a))
	default: // cycle through a nonterminal
		nt := g.fresh("setnt")
		g.Par = append(g.Par, fmt.Sprintf("%%generate %s = set(%sfirst %s | %s);", a, neg, nt, g.T()), fmt.Sprintf("%s : set(%s) %s ;", nt, a, g.T()))
		g.NTs = append(g.NTs, nt)
	}
	g.Sets = append(g.Sets, a, b)
	switch g.r.Intn(4) {
	case 0: // used through set(A) in a rule: the interesting case
		nt := g.fresh("useset")
		g.Par = append(g.Par, fmt.Sprintf("%s : %s set(%s)%s ;", nt, g.T(), g.pick([]string{a, b}), g.pick([]string{"", "+", "*"})))
		g.NTs = append(g.NTs, nt)
	case 1:
		g.Par = append(g.Par, fmt.Sprintf("%%assert %s set(%s);", g.pick([]string{"empty", "nonempty"}), a))
	}
}

func fragSets(g *G) {
	for i := 0; i < 1+g.r.Intn(3); i++ {
		switch g.r.Intn(4) {
		case 0:
			s := g.fresh("S")
			if g.hostile() && g.r.Intn(5) == 0 {
				s = g.pick([]string{"afterErr", g.pick(g.Sets), g.pick(g.Terms), g.pick(g.NTs)})
			}
			g.Par = append(g.Par, fmt.Sprintf("%%generate %s = set(%s);", s, g.SetExpr(0)))
			g.Sets = append(g.Sets, s)
		case 1:
			g.Par = append(g.Par, fmt.Sprintf("%%assert %s set(%s);", g.pick([]string{"empty", "nonempty"}), g.SetExpr(0)))
		default:
			nt := g.fresh("sn")
			g.Par = append(g.Par, fmt.Sprintf("%s : %s set(%s)%s %s ;", nt, g.T(), g.SetExpr(0), g.pick([]string{"", "+", "*", "?"}), g.T()))
			g.declare(nt, nil, false)
		}
	}
}

// optRef is a reference through the optional-suffix auto instantiation.
func (g *G) optRef() string {
	for tries := 0; tries < 8; tries++ {
		n := g.pick(append(append([]string{}, g.Terms...), g.NTs...))
		if g.hostile() || len(g.ntParams[n]) == 0 && !strings.ContainsAny(n, "'\"") && n != "error" {
			return n + "opt"
		}
	}
	return g.T()
}

func (g *G) plainNT() string {
	var l []string
	for _, n := range g.NTs {
		if !g.noInput[n] {
			l = append(l, n)
		}
	}
	return g.pick(l)
}

func fragInputs(g *G) {
	host := g.hostile()
	var refs []string
	seen := map[string]bool{}
	for i := 0; i < 1+g.r.Intn(3); i++ {
		n := g.plainNT()
		if host {
			n = g.N()
		} else if seen[n] {
			continue
		}
		seen[n] = true
		refs = append(refs, n+g.pick([]string{"", "", " no-eoi"}))
	}
	if host && g.r.Intn(2) == 0 && len(refs) > 0 {
		refs = append(refs, refs[0]) // duplicate %input
	}
	g.Par = append(g.Par, "%input "+strings.Join(refs, ", ")+";")
}

func fragLookaheads(g *G) {
	host := g.hostile()
	a, b := g.fresh("La"), g.fresh("Lb")
	t1, t2 := g.T(), g.T()
	k := g.r.Intn(9)
	if !host && k == 8 {
		k = 1
	}
	switch k {
	case 0: // nullable
		g.Par = append(g.Par, fmt.Sprintf("%s : %s? ;", a, t1), fmt.Sprintf("%s : (?= %s) %s ;", b, a, t2))
	case 1: // left recursive
		g.Par = append(g.Par, fmt.Sprintf("%s : %s %s | %s ;", a, a, t1, t2), fmt.Sprintf("%s : (?= %s) %s | (?= !%s) %s ;", b, a, t1, a, t2))
	case 2: // self lookahead
		g.Par = append(g.Par, fmt.Sprintf("%s : (?= %s) %s ;", a, a, t1), fmt.Sprintf("%s : %s ;", b, a))
	case 3: // mutual lookaheads
		g.Par = append(g.Par, fmt.Sprintf("%s : (?= %s) %s ;", a, b, t1), fmt.Sprintf("%s : (?= %s) %s ;", b, a, t2))
	case 4: // duplicates and contradictions
		g.Par = append(g.Par, fmt.Sprintf("%s : %s %s ;", a, t1, t2), fmt.Sprintf("%s : (?= %s & %s) %s | (?= %s & !%s) %s ;", b, a, a, t1, a, a, t1))
	case 5: // lookahead only / at the end / twice
		g.Par = append(g.Par, fmt.Sprintf("%s : %s ;", a, t1), fmt.Sprintf("%s : (?= %s) | %s (?= %s) | (?= %s) (?= !%s) %s ;", b, a, t2, a, a, a, t1))
	case 6: // on a list / templated nonterminal
		n := g.pick(g.NTs)
		g.Par = append(g.Par, fmt.Sprintf("%s : %s+ ;", a, t1), fmt.Sprintf("%s : (?= %s) %s | (?= !%s & %s%s) %s ;", b, a, t1, a, n, g.argsFor(n), t2))
	case 7: // inside nested constructs
		g.Par = append(g.Par, fmt.Sprintf("%s : %s %s ;", a, t1, t2), fmt.Sprintf("%s : ((?= %s) %s | (?= !%s) %s)+ ((?= %s) %s)? ;", b, a, t1, a, t2, a, t1))
	default: // on terminals, sets, unknown
		g.Par = append(g.Par, fmt.Sprintf("%s : %s ;", a, t1), fmt.Sprintf("%s : (?= %s) %s | (?= %s) %s ;", b, g.sym(), t1, g.N(), t2))
	}
	g.declare(a, nil, false)
	g.declare(b, nil, false)
	if g.r.Intn(3) == 0 {
		g.Par = append(g.Par, fmt.Sprintf("%s : %s | %s ;", g.fresh("uses"), a, b))
	}
	if g.r.Intn(4) == 0 {
		g.addOpt("maxLookahead", g.pick([]string{"1", "2", "3", "0", "-1"}))
	}
	if g.r.Intn(4) == 0 {
		g.addOpt("recursiveLookaheads", "true")
	}
}

func fragFlags(g *G) {
	f := g.fresh("F")
	if !g.hostile() {
		g.Par = append(g.Par, g.pick([]string{"%flag " + f + ";", "%flag " + f + " = true;", "%flag " + f + " = false;"}))
		g.Flags = append(g.Flags, f)
		nt, use := g.fresh("tn"), g.fresh("tu")
		params := []string{f}
		if g.r.Intn(3) == 0 && len(g.Flags) > 1 {
			if o := g.pick(g.Flags); o != f {
				params = append(params, o)
			}
		}
		g.scope = params
		other := g.pick(g.NTs)
		g.Par = append(g.Par, fmt.Sprintf("%s<%s> :\n    %s %s\n  | %s %s%s %s\n  | %s %s%s\n;", nt, strings.Join(params, ", "), g.pred(), g.T(), g.pred(), other, g.argsFor(other), g.T(), g.T(), nt, g.argsFor(nt)))
		g.declare(nt, params, false)
		g.scope = nil
		g.Par = append(g.Par, fmt.Sprintf("%s : %s%s %s | %s %s%s ;", use, nt, g.argsFor(nt), g.T(), g.T(), nt, g.argsFor(nt)))
		g.declare(use, nil, false)
		return
	}
	decl := g.pick([]string{"%flag " + f + ";", "%flag " + f + " = true;", "%lookahead flag " + f + " = true;", "%lookahead flag " + f + " = false;", "%lookahead flag " + f + ";",
		"%param " + f + " = 5;", "%param " + f + ";", "%flag " + f + " = \"s\";", "%flag " + g.pick(g.Terms) + ";", "%flag " + g.pick(g.NTs) + ";", "%flag " + f + "; %flag " + f + ";", "%lookahead param " + f + " = " + f + ";", "%global flag " + f + ";"})
	g.Par = append(g.Par, decl)
	g.Flags = append(g.Flags, f)
	nt := g.fresh("tn")
	params := f
	if g.r.Intn(3) == 0 {
		params += ", " + g.flagName()
	}
	if g.r.Intn(4) == 0 {
		params = "flag " + g.fresh("Inl") + g.pick([]string{"", " = false", " = true"})
	}
	if strings.Contains(decl, "lookahead") && g.r.Intn(2) == 0 {
		// lookahead flags are used without being declared on the nonterminal
		g.Par = append(g.Par, fmt.Sprintf("%s :\n    [%s] %s %s\n  | [!%s] %s\n  | %s %s<+%s>\n;", nt, f, g.T(), g.pick(g.NTs), f, g.T(), g.T(), nt, f))
	} else {
		g.Par = append(g.Par, fmt.Sprintf("%s<%s> :\n    %s %s\n  | %s %s %s\n  | %s\n;", nt, params, g.pred(), g.T(), g.pred(), g.pick(g.NTs)+g.args(), g.T(), g.T()))
	}
	g.declare(nt, []string{f}, false)
	g.Par = append(g.Par, fmt.Sprintf("%s : %s%s %s | %s%s ;", g.fresh("tu"), nt, g.args(), g.T(), nt, g.pick([]string{"<+" + f + ">", "<~" + f + ">", "", "<" + f + ": true>"})))
	if g.r.Intn(3) == 0 {
		// instantiation that swaps flags on every recursion
		r := g.fresh("rec")
		g.Par = append(g.Par, "%flag X1; %flag X2; %flag X3;", fmt.Sprintf("%s<X1, X2, X3> : [X1] %s<X1: X2, X2: X3, X3: X1> %s | [!X2] %s<+X1, ~X2, X3: X1> | %s ;", r, r, g.T(), r, g.T()), fmt.Sprintf("%s : %s<+X1, ~X2, +X3> ;", g.fresh("ru"), r))
	}
	if g.r.Intn(3) == 0 {
		g.Par = append(g.Par, "%input "+nt+";")
	}
}

func fragNames(g *G) {
	if !g.hostile() {
		// unusual but unproblematic spellings
		tn := g.pick([]string{"'q'", "\"dq\"", "'a b'", "'é'", "'\\\\'", "'\\''", "t-n", "T_N", "flag", "lalr", "'%'", "'{'", "'=>'"})
		for _, t := range g.Terms {
			if t == tn {
				return
			}
		}
		g.Lex = append(g.Lex, fmt.Sprintf("%s: /@%s/", tn, g.fresh("q")))
		g.Terms = append(g.Terms, tn)
		nn := g.pick([]string{"n-t", "N_t", "nT1", "layout", "global", "explicit"}) + fmt.Sprint(g.n)
		g.Par = append(g.Par, fmt.Sprintf("%s : %s %s ;", nn, g.T(), tn))
		g.declare(nn, nil, false)
		return
	}
	tn := g.pick([]string{"''", "'_'", "_", "__", "'\\''", "\"q\"", "\"\"", "'a b'", "'é'", "'😀'", "'\\\\'", "'\\n'", "'\xff'", "a-b", "A", "no-eoi", "expect-rr", "flag", "x", "s", "'x'", "lexer", "parser", "'%'", "'%%'", "input", "'eoi'", "EOI", "INVALID_TOKEN", "Error"})
	g.Lex = append(g.Lex, fmt.Sprintf("%s%s: /%s/", tn, g.pick([]string{"", "", " (ZZ)", " (zz_id)", " (A-B)", " (EOI)", " {int}"}), g.fresh("q")))
	g.Terms = append(g.Terms, tn)
	nn := g.pick([]string{"_", "__", "___", "a-b", "A", "no-eoi", "expect-rr", "flag", "x", "s", "lexer", "parser", "input", "left", "inline", "extend", "empty", "Id", "ID", "foo_bar", "fooBar", "FooBar", "foo-bar", "_1", "a1", "a_1", "afterErr", "error", "eoi"})
	g.Par = append(g.Par, fmt.Sprintf("%s : %s %s ;", nn, g.T(), tn))
	g.declare(nn, nil, false)
	if g.r.Intn(2) == 0 {
		g.Par = append(g.Par, fmt.Sprintf("%s : %s | %s ;", g.fresh("un"), nn, tn))
	}
}

// uniqueRegex is a regex that cannot collide with the skeleton's tokens.
func (g *G) uniqueRegex() string {
	save := g.Hostility
	g.Hostility = 0
	defer func() { g.Hostility = save }()
	re := g.Regex(1)
	re = strings.ReplaceAll(re, "{eoi}", "e")
	return "@" + g.fresh("u") + re
}

func fragLexer(g *G) {
	for i := 0; i < 1+g.r.Intn(3); i++ {
		if !g.hostile() {
			switch g.r.Intn(5) {
			case 0:
				p := g.fresh("pat")
				g.Lex = append(g.Lex, fmt.Sprintf("%s = /%s/", p, g.uniqueRegex()), fmt.Sprintf("%s: /{%s}+x/", g.fresh("tp"), p))
				g.Pats = append(g.Pats, p)
			case 1:
				g.addTerm(g.fresh("tk"), g.uniqueRegex(), g.pick([]string{"", " 1", " -1", " (space)", " { skip() }", " (space) { x }"}))
			case 2:
				t, cond := g.fresh("tk"), g.fresh("cond")
				g.Lex = append([]string{fmt.Sprintf("%%%s %s;", g.pick([]string{"s", "x"}), cond)}, g.Lex...)
				g.Conds = append(g.Conds, cond)
				g.Lex = append(g.Lex, fmt.Sprintf("<%s> %s: /%s/", cond, t, g.uniqueRegex()), fmt.Sprintf("<%s, %s> {\n  %s: /%s/\n}", cond, g.pick(append([]string{"initial"}, g.Conds...)), g.fresh("tk"), g.uniqueRegex()))
				g.Terms = append(g.Terms, t)
			case 3:
				g.Lex = append(g.Lex, fmt.Sprintf("%s:", g.fresh("notoken")), fmt.Sprintf("%s: (space)", g.fresh("sp")))
			default:
				g.Lex = append(g.Lex, fmt.Sprintf("<*> %s: /%s/ %s", g.fresh("any"), g.uniqueRegex(), g.pick([]string{"", "(space)", "-5"})))
			}
			continue
		}
		switch g.r.Intn(9) {
		case 0:
			p := g.fresh("pat")
			g.Lex = append(g.Lex, fmt.Sprintf("%s = /%s/", p, g.Regex(0)))
			g.Pats = append(g.Pats, p)
		case 1:
			t := g.fresh("tk")
			g.addTerm(t, g.Regex(0), g.pick([]string{"", " 1", " -1", " 99999999999", " (space)", " (class)", " (bogus)", " { " + "skip()" + " }", " (space) { x }", " 2 (class) { y }"}))
		case 2:
			t := g.fresh("tk")
			cond := g.fresh("cond")
			g.Lex = append([]string{fmt.Sprintf("%%%s %s;", g.pick([]string{"s", "x"}), cond)}, g.Lex...)
			g.Conds = append(g.Conds, cond)
			g.Lex = append(g.Lex, fmt.Sprintf("<%s> %s: /%s/", g.pick(g.Conds), t, g.Regex(0)), fmt.Sprintf("<%s, %s> {\n  %s: /%s/\n}", g.pick(g.Conds), g.pick(append([]string{"undefinedCond", "initial"}, g.Conds...)), g.fresh("tk"), g.Regex(0)))
			g.Terms = append(g.Terms, t)
		case 3:
			// keyword specialisations of a class rule, possibly in other start conditions
			g.Lex = append(g.Lex, fmt.Sprintf("%s: /%s/", g.fresh("'kw")+"'", g.pick([]string{"abc", "if", "a1", "A", "é", "_"})))
		case 4:
			// redeclarations with different attributes
			t := g.pick(g.Terms)
			g.Lex = append(g.Lex, fmt.Sprintf("%s%s: /%s/%s", t, g.pick([]string{"", " {int}", " {string}", " (OTHER_ID)"}), g.Regex(0), g.pick([]string{"", " (space)", " (class)"})))
		case 5:
			g.Lex = append(g.Lex, fmt.Sprintf("%s:", g.fresh("notoken")), fmt.Sprintf("%s: (space)", g.fresh("sp")))
		case 6:
			g.Lex = append(g.Lex, fmt.Sprintf("%%brackets %s %s;", g.T(), g.T()))
		case 7:
			g.Lex = append(g.Lex, fmt.Sprintf("invalid_token: /%s/", g.Regex(0)), fmt.Sprintf("eoi: /%s/", g.pick([]string{"{eoi}", "\\x00", g.Regex(0)})))
		default:
			g.Lex = append(g.Lex, fmt.Sprintf("<*> %s: /%s/ %s", g.fresh("any"), g.Regex(0), g.pick([]string{"", "(space)", "-5"})))
		}
	}
}

func fragRules(g *G) {
	for i := 0; i < 1+g.r.Intn(4); i++ {
		nt := g.fresh("r")
		if g.hostile() && g.r.Intn(6) == 0 {
			nt = g.pick(append(append([]string{}, g.NTs...), g.Terms...))
		}
		rule := g.Rule(nt)
		g.NTs = append(g.NTs, nt)
		g.Par = append(g.Par, rule)
	}
}

func fragInline(g *G) {
	a, b := g.fresh("inl"), g.fresh("inl")
	k := g.r.Intn(4)
	if !g.hostile() {
		k = 2 + g.r.Intn(2)
	}
	switch k {
	case 0:
		g.Par = append(g.Par, fmt.Sprintf("inline %s : %s %s | %s ;", a, g.T(), a, g.T()))
	case 1:
		g.Par = append(g.Par, fmt.Sprintf("inline %s : %s %s ;", a, b, g.T()), fmt.Sprintf("inline %s : %s | %s ;", b, a, g.T()))
	case 2:
		n := g.pick(g.NTs)
		g.Par = append(g.Par, fmt.Sprintf("inline %s : %s | %s %s%s | ;", a, g.T(), g.T(), n, g.argsFor(n)), fmt.Sprintf("%s : %s %s %s %s? (%s %s separator %s)+ ;", b, a, g.T(), a, a, g.T(), a, g.T()))
		g.declare(a, nil, true)
		g.declare(b, nil, false)
		return
	default:
		fl := g.fresh("IF")
		g.Par = append(g.Par, fmt.Sprintf("inline %s<flag %s> -> Foo : [%s] %s | %s ;", a, fl, fl, g.T(), g.T()), fmt.Sprintf("%s : %s<+%s> %s<~%s> ;", b, a, fl, a, fl))
		if g.hostile() {
			g.Par = append(g.Par, "%input "+a+";")
		}
		g.declare(a, []string{fl}, true)
		g.declare(b, nil, false)
		return
	}
	g.declare(a, nil, true)
	g.declare(b, nil, true)
}

func (g *G) freePrecTerm() string {
	if g.precUsed == nil {
		g.precUsed = map[string]bool{}
		for _, l := range g.Par {
			if strings.HasPrefix(l, "%left") || strings.HasPrefix(l, "%right") || strings.HasPrefix(l, "%nonassoc") {
				for _, w := range strings.Fields(strings.TrimSuffix(l, ";"))[1:] {
					g.precUsed[w] = true
				}
			}
		}
	}
	for tries := 0; tries < 8; tries++ {
		t := g.pick(g.Terms)
		if !g.precUsed[t] && t != "error" {
			g.precUsed[t] = true
			return t
		}
	}
	return ""
}

func fragPrec(g *G) {
	if !g.hostile() {
		t := g.freePrecTerm()
		if t == "" {
			return
		}
		g.Par = append(g.Par, fmt.Sprintf("%%%s %s;", g.pick([]string{"left", "right", "nonassoc"}), t))
		if g.r.Intn(2) == 0 {
			nt := g.fresh("pr")
			g.Par = append(g.Par, fmt.Sprintf("%s : %s %s %s %%prec %s | %s %s %s | %s ;", nt, nt, g.T(), nt, t, nt, t, nt, g.T()))
			g.declare(nt, nil, false)
		}
		return
	}
	g.Par = append(g.Par, fmt.Sprintf("%%%s %s %s;", g.pick([]string{"left", "right", "nonassoc"}), g.T(), g.T()))
	if g.r.Intn(2) == 0 {
		nt := g.fresh("pr")
		g.Par = append(g.Par, fmt.Sprintf("%s : %s %s %s %%prec %s | %s ;", nt, nt, g.T(), nt, g.T(), g.T()))
		g.declare(nt, nil, false)
	}
	if g.r.Intn(3) == 0 {
		g.Par = append(g.Par, fmt.Sprintf("%%expect %s;", g.pick([]string{"0", "1", "5", "99999999999999999999", "-1"})))
	}
	if g.r.Intn(3) == 0 {
		g.Par = append(g.Par, fmt.Sprintf("%%expect-rr %s;", g.pick([]string{"0", "1", "99999999999999999999"})))
	}
}

func fragInject(g *G) {
	if !g.hostile() {
		if g.injected == nil {
			g.injected = map[string]bool{}
			for _, l := range g.Par {
				if strings.HasPrefix(l, "%inject ") {
					g.injected[strings.Fields(l)[1]] = true
				}
			}
		}
		t := g.pick(g.Terms)
		if !g.injected[t] && t != "error" {
			g.injected[t] = true
			g.Par = append(g.Par, fmt.Sprintf("%%inject %s -> %s%s;", t, g.fresh("Tok"), g.pick([]string{"", "/f1", "/f1,f2"})))
		}
		if g.r.Intn(2) == 0 {
			c := g.fresh("Cat")
			g.Par = append(g.Par, fmt.Sprintf("%%interface %s;", c))
			g.Cats = append(g.Cats, c)
		}
		return
	}
	g.Par = append(g.Par, fmt.Sprintf("%%inject %s -> %s%s;", g.T(), g.pick([]string{"Comment", "Tok", g.pick(g.Cats), g.pick(g.NTs)}), g.pick([]string{"", "/f1", "/f1,f2", " as Expr"})))
	if g.r.Intn(2) == 0 {
		g.Par = append(g.Par, fmt.Sprintf("%%interface %s, %s;", g.pick([]string{"Expr", "Node", "Cat1", g.pick(g.NTs)}), g.pick([]string{"Cat2", "Expr"})))
		g.Cats = append(g.Cats, "Cat2")
	}
}

func fragArrows(g *G) {
	nt := g.fresh("ar")
	host := g.hostile()
	n1, n2 := g.plainNT(), g.plainNT()
	u := fmt.Sprint(g.n)
	alts := []string{
		fmt.Sprintf("a=%s b=%s -> Pair%s", g.T(), g.T(), u),
		fmt.Sprintf("(list+=%s)+ -> ListOf%s", g.T(), u),
		fmt.Sprintf("a=(%s | %s) -> Alt%s", g.T(), n1, u),
		fmt.Sprintf("(%s -> Inner%s)? %s -> Outer%s", g.T(), u, g.T(), u),
		fmt.Sprintf("a=%s? b+=(%s separator %s)* -> Opt%s/f1,f2", n1, n2, g.T(), u),
		fmt.Sprintf("%s -> Same%s | %s %s -> Same%s", n1, u, g.T(), n2, u),
		fmt.Sprintf("x=%s y=%s? z+=%s* -> Three%s", g.T(), n1, g.T(), u),
	}
	if host {
		alts = append(alts,
			fmt.Sprintf("a=%s a+=%s -> Mixed", g.T(), g.T()),
			fmt.Sprintf("a=(%s %s) -> Multi", g.T(), g.T()),
			"( -> Empty1) -> Wrap",
			fmt.Sprintf("%s ( -> AtEnd)", g.T()),
			fmt.Sprintf("%s -> %s", g.T(), g.pick(append([]string{"Expr"}, g.Cats...))),
			fmt.Sprintf("x=%s x=%s -> Twice", g.N(), g.T()),
			fmt.Sprintf("(list+=%s)+ -> ListOf", g.sym()),
			fmt.Sprintf("a=%s -> Pair%s", g.N(), u))
	}
	var use []string
	for i := 0; i < 1+g.r.Intn(3); i++ {
		use = append(use, g.pick(alts))
	}
	def := g.pick([]string{"", "", " -> Thing" + u})
	if host {
		def = g.pick([]string{"", " -> Expr", " -> Decl", " -> Thing"})
	}
	g.Par = append(g.Par, fmt.Sprintf("%s%s :\n    %s\n;", nt, def, strings.Join(use, "\n  | ")))
	g.declare(nt, nil, false)
	if g.r.Intn(2) == 0 {
		g.addOpt("eventBased", "true")
		g.addOpt("eventFields", "true")
		if g.r.Intn(2) == 0 {
			g.addOpt("eventAST", "true")
		}
	}
}

func fragDeep(g *G) {
	d := []int{5, 50, 400, 3000}[g.r.Intn(4)]
	nt := g.fresh("deep")
	g.declare(nt, nil, false)
	k := g.r.Intn(7)
	if k == 5 && !g.hostile() {
		k = 0
	}
	switch k {
	case 0:
		g.Par = append(g.Par, fmt.Sprintf("%s : %s%s%s ;", nt, strings.Repeat("(", d), g.T(), strings.Repeat(")", d)))
	case 1:
		g.Par = append(g.Par, fmt.Sprintf("%s : %s%s%s ;", nt, strings.Repeat("(", d), g.T(), strings.Repeat(")?", d)))
	case 2:
		g.Par = append(g.Par, fmt.Sprintf("%s : set(%s%s%s) ;", nt, strings.Repeat("~(", d), g.T(), strings.Repeat(")", d)))
	case 3:
		if d > 400 {
			d = 400
		}
		g.Par = append(g.Par, fmt.Sprintf("%s : %s%s%s ;", nt, strings.Repeat("(", d), g.T(), strings.Repeat(")+", d)))
	case 4:
		g.Par = append(g.Par, fmt.Sprintf("%s : %s %s%s%s ;", nt, g.T(), strings.Repeat("{", d), "x", strings.Repeat("}", d)))
	case 5:
		g.Opts = append(g.Opts, fmt.Sprintf("extraTypes = %s\"A\"%s", strings.Repeat("[", d), strings.Repeat("]", d)))
		g.Par = append(g.Par, fmt.Sprintf("%s : %s ;", nt, g.T()))
	default:
		if d > 400 {
			d = 400
		}
		g.Lex = append(g.Lex, fmt.Sprintf("%s: /@%s%sa%s/", g.fresh("dt"), g.fresh("d"), strings.Repeat("(", d), strings.Repeat(")", d)))
		g.Par = append(g.Par, fmt.Sprintf("%s : %s ;", nt, g.T()))
	}
}

func fragLong(g *G) {
	n := []int{100, 3000, 40000}[g.r.Intn(3)]
	nt := g.fresh("long")
	g.declare(nt, nil, false)
	switch g.r.Intn(6) {
	case 0: // very long identifier
		id := "L" + strings.Repeat("ab_", n/3) + fmt.Sprint(g.n)
		g.Par = append(g.Par, fmt.Sprintf("%s : %s ;", id, g.T()), fmt.Sprintf("%s : %s ;", nt, id))
	case 1: // many alternatives on one line
		if n > 3000 {
			n = 3000
		}
		var alts []string
		for i := 0; i < n/8; i++ {
			alts = append(alts, strings.Repeat(g.pick(g.Terms)+" ", 1+i%7))
		}
		g.Par = append(g.Par, fmt.Sprintf("%s : %s ;", nt, strings.Join(alts, "| ")))
	case 2: // long sequence
		if n > 3000 {
			n = 3000
		}
		g.Par = append(g.Par, fmt.Sprintf("%s : %s ;", nt, strings.Repeat(g.T()+" ", n/4)))
	case 3: // long code / comment line
		g.Par = append(g.Par, fmt.Sprintf("%s : %s { %s } ;  # %s", nt, g.T(), strings.Repeat("x ", n/2), strings.Repeat("c", n)))
	case 4: // long regexp
		g.Lex = append(g.Lex, fmt.Sprintf("%s: /@%s/", g.fresh("lt"), strings.Repeat("ab", min(n, 3000)/2)))
		g.Par = append(g.Par, fmt.Sprintf("%s : %s ;", nt, g.T()))
	default: // long quoted name
		q := "'" + strings.Repeat("+", min(n, 3000)) + "'"
		g.Lex = append(g.Lex, fmt.Sprintf("%s: /@z%d/", q, g.n))
		g.Par = append(g.Par, fmt.Sprintf("%s : %s ;", nt, q))
	}
}

func fragExtendOpt(g *G) {
	host := g.hostile()
	t := g.plainNT()
	if host {
		t = g.N()
	}
	g.Par = append(g.Par, fmt.Sprintf("extend %s%s : %s %s ;", t, g.pick([]string{"", ""}), g.T(), g.T()))
	nt := g.fresh("op")
	last := g.T()
	if host {
		last = g.pick([]string{"optopt", "opt", "xopt", nt + "opt"})
	}
	g.Par = append(g.Par, fmt.Sprintf("%s : %s %s %s %s ;", nt, g.optRef(), g.T(), g.optRef(), last))
	g.declare(nt, nil, false)
	if g.r.Intn(3) == 0 && host {
		g.addOpt("optInstantiationSuffix", g.pick([]string{`""`, `"opt"`, `"_opt"`, `"t"`, `"-opt"`}))
	}
}

func fragLALR(g *G) {
	if !g.hostile() {
		if g.Lang == "go" {
			g.LALR = g.pick([]string{" lalr(1)", " lalr(2)", " lalr(3)"})
		}
		return
	}
	g.LALR = g.pick([]string{" lalr(1)", " lalr(2)", " lalr(3)", " lalr(8)", " lalr(0)", " lalr(9)", " lalr(99999999999999999999)", " lalr(-1)"})
}

func fragTemplates(g *G) {
	if !g.hostile() {
		g.Tail = g.pick([]string{"%%\n", "%%\n{{define \"onAfterLexer\"}}x{{end}}\n"})
		return
	}
	g.Tail = g.pick([]string{"%%\n", "%%\n{{define \"onAfterLexer\"}}x{{end}}\n", "%%\n{{ broken", "%% %% %%", "%%" + strings.Repeat("\n", 50) + "{{", "%"})
}

var safeCode = []string{"{}", "{ $$ = $1; }", "{ $$ = nil }", "{ /* } */ }", "{ // }\n }", "{ \"}\" '{' }", "{ {{ }} }", "{ '\\\n' }", "{ \"\\\n\" /* \n */ }"}

func fragActions(g *G) {
	nt := g.fresh("act")
	if !g.hostile() {
		c := func() string { return g.pick(safeCode) }
		n1, n2 := g.plainNT(), g.plainNT()
		g.Par = append(g.Par, fmt.Sprintf("%s%s :\n    %s %s %s %s\n  | %s %s %s\n  | a=%s %s b=%s %s\n;", nt, g.pick([]string{"", " {int}", " {*Node}"}), g.T(), c(), n1, c(), g.T(), g.T(), c(), g.T(), c(), n2, c()))
		g.declare(nt, nil, false)
		return
	}
	g.Par = append(g.Par, fmt.Sprintf("%s%s :\n    %s %s %s %s\n  | %s .m1 %s %s\n  | a=%s %s b=%s %s\n;", nt, g.pick([]string{"", " {int}", " {*Node}"}), g.T(), g.code(), g.N(), g.code(), g.code(), g.T(), g.code(), g.T(), g.code(), g.N(), g.code()))
	g.declare(nt, nil, false)
	if g.r.Intn(3) == 0 {
		g.addOpt("maxRuleSizeForOrdinalRef", g.pick([]string{"0", "1", "2", "16"}))
	}
}

var fragments = []fragment{
	{"options", fragOptions}, {"cyclic-sets", fragCyclicSets}, {"sets", fragSets}, {"inputs", fragInputs}, {"lookaheads", fragLookaheads},
	{"flags", fragFlags}, {"names", fragNames}, {"lexer", fragLexer}, {"rules", fragRules}, {"inline", fragInline}, {"prec", fragPrec},
	{"inject", fragInject}, {"arrows", fragArrows}, {"deep", fragDeep}, {"long", fragLong}, {"extend-opt", fragExtendOpt}, {"lalr", fragLALR},
	{"templates", fragTemplates}, {"actions", fragActions},
}

// FragmentNames lists the fragment kinds (for coverage counters).
func FragmentNames() []string {
	var r []string
	for _, f := range fragments {
		r = append(r, f.name)
	}
	return r
}

// Text renders the grammar.
func (g *G) Text() string {
	var b strings.Builder
	if g.r.Intn(6) == 0 {
		b.WriteString("# generated\n")
	}
	fmt.Fprintf(&b, "language %s", g.Name)
	if g.Lang != "" {
		fmt.Fprintf(&b, "(%s)", g.Lang)
	}
	b.WriteString(";\n\n")
	for _, o := range g.Opts {
		b.WriteString(o + "\n")
	}
	b.WriteString("\n:: lexer\n\n")
	for _, l := range g.Lex {
		b.WriteString(l + "\n")
	}
	if !g.NoPar {
		b.WriteString("\n:: parser" + g.LALR + "\n\n")
		for _, l := range g.Par {
			b.WriteString(l + "\n\n")
		}
	}
	b.WriteString(g.Tail)
	return b.String()
}

// Synth builds one synthetic grammar. hostility in [0,100]; only lists the
// fragments to draw from (nil = all); nfrag = number of fragments.
func Synth(r *rand.Rand, hostility, nfrag int, only []string) *G {
	g := &G{r: r, Name: "g", Lang: "go", Hostility: hostility}
	switch r.Intn(12) {
	case 0:
		g.Lang = "cc"
	case 1:
		g.Lang = "ts"
	case 2:
		if hostility > 0 {
			g.Lang = g.pick([]string{"", "java", "js", "true", "go2"})
		}
	}
	sk := skeletons[r.Intn(len(skeletons))]
	sk.f(g)
	g.Tags = append(g.Tags, "skeleton:"+sk.name)
	var pool []fragment
	for _, f := range fragments {
		if only == nil {
			pool = append(pool, f)
			continue
		}
		for _, o := range only {
			if o == f.name {
				pool = append(pool, f)
			}
		}
	}
	for i := 0; i < nfrag && len(pool) > 0; i++ {
		f := pool[r.Intn(len(pool))]
		if g.NoPar && f.name != "lexer" && f.name != "options" && f.name != "names" && f.name != "templates" && f.name != "long" {
			// lexer-only grammars get a parser section in half of the cases when a parser fragment is drawn
			if r.Intn(2) == 0 {
				continue
			}
			g.NoPar = false
			if len(g.NTs) == 0 {
				g.Par = append(g.Par, "input : id+ ;")
				g.NTs = append(g.NTs, "input")
			}
		}
		f.f(g)
		g.Tags = append(g.Tags, f.name)
	}
	return g
}
