package tmmut

import (
	"os"
	"path/filepath"
	"sort"
	"strings"
	"sync"
)

// Seed is one corpus grammar.
type Seed struct {
	Name  string
	Text  string
	Heavy bool // takes seconds to compile (js.tm): use sparingly
}

// RepoRoot is the tree under test. The shipped grammars are read from it at run
// time (they are part of what is monitored).
func RepoRoot() string {
	if v := os.Getenv("VERIF_REPO"); v != "" {
		return v
	}
	return "/repo"
}

var (
	shippedOnce sync.Once
	shipped     []Seed
)

// StripMarkers removes the expectation markers of compiler/testdata/*.tmerr.
func StripMarkers(s string) string {
	return strings.NewReplacer("«", "", "»", "", "§", "").Replace(s)
}

// Shipped returns the grammars shipped with the repository: parsers/*/*.tm,
// compiler/testdata/*.tm and *.tmerr (the latter both raw and with the «» markers
// removed). Sorted by name; deterministic.
func Shipped() []Seed {
	shippedOnce.Do(func() {
		root := RepoRoot()
		var files []string
		for _, pat := range []string{"parsers/*/*.tm", "compiler/testdata/*.tm", "compiler/testdata/*.tmerr"} {
			m, _ := filepath.Glob(filepath.Join(root, pat))
			files = append(files, m...)
		}
		sort.Strings(files)
		for _, f := range files {
			b, err := os.ReadFile(f)
			if err != nil {
				continue
			}
			rel, _ := filepath.Rel(root, f)
			text := string(b)
			heavy := len(text) > 40000 && strings.HasPrefix(rel, "parsers")
			if strings.HasSuffix(f, ".tmerr") {
				shipped = append(shipped, Seed{Name: rel + "#stripped", Text: StripMarkers(text)})
				shipped = append(shipped, Seed{Name: rel + "#raw", Text: text})
			} else {
				shipped = append(shipped, Seed{Name: rel, Text: text, Heavy: heavy})
			}
		}
	})
	return shipped
}
