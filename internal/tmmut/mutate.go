package tmmut

import (
	"math/rand"
	"strings"
)

// vocabulary of token spellings used by replace/insert mutators
var vocab = []string{"%", "::", "|", "||", "=", "==", "!=", ";", ".", ",", ":", "[", "]", "(", "(?=", "->", ")", "}", "{", "<", ">", "*", "+", "+=", "?", "!", "~", "&", "&&", "$", "@", "/",
	"as", "false", "import", "separator", "set", "true", "assert", "brackets", "class", "empty", "expect", "expect-rr", "explicit", "extend", "flag", "generate", "global", "inject", "inline",
	"input", "interface", "lalr", "language", "layout", "left", "lexer", "lookahead", "no-eoi", "nonassoc", "nonempty", "param", "parser", "prec", "right", "s", "shift", "space", "x",
	"id", "ID", "_", "''", "'a'", "\"s\"", "0", "-1", "42", "/re/", "/[/", "{}", "{ $$ }", "%%", "# c\n", "/* c */", "/*", "error", "eoi", "\n", "\r\n", "\r", "\t", "\xef\xbb\xbf", "\x00", "\xff", "é", "😀", "'", "\"", "\\"}

// Mutator kinds (stable names, used for coverage counters).
var TokenMutators = []string{"tok-delete", "tok-duplicate", "tok-swap", "tok-replace-vocab", "tok-replace-other", "tok-insert", "tok-delete-range", "tok-dup-range", "tok-splice", "tok-rename"}
var ByteMutators = []string{"byte-flip", "byte-set", "byte-insert", "byte-delete-range", "truncate", "invalid-utf8", "crlf", "cr-only", "bom", "join-lines", "dup-chunk"}

func tokText(text string, t Tok) string { return text[t.Off:t.End] }

// MutateTokens applies one token-level mutation of the given kind. toks must be
// Tokens(text); otherToks/other a second grammar for splices and replacements.
func MutateTokens(r *rand.Rand, kind string, text string, toks []Tok, other string, otherToks []Tok) string {
	if len(toks) == 0 {
		return text + vocab[r.Intn(len(vocab))]
	}
	i := r.Intn(len(toks))
	t := toks[i]
	switch kind {
	case "tok-delete":
		return text[:t.Off] + text[t.End:]
	case "tok-duplicate":
		return text[:t.End] + " " + tokText(text, t) + text[t.End:]
	case "tok-swap":
		j := i + 1
		if r.Intn(3) == 0 {
			j = r.Intn(len(toks))
		}
		if j >= len(toks) || j == i {
			return text[:t.Off] + text[t.End:]
		}
		a, b := toks[i], toks[j]
		if a.Off > b.Off {
			a, b = b, a
		}
		if a.End > b.Off {
			return text
		}
		return text[:a.Off] + tokText(text, b) + text[a.End:b.Off] + tokText(text, a) + text[b.End:]
	case "tok-replace-vocab":
		return text[:t.Off] + vocab[r.Intn(len(vocab))] + text[t.End:]
	case "tok-replace-other":
		src, st := text, toks
		if len(otherToks) > 0 && r.Intn(2) == 0 {
			src, st = other, otherToks
		}
		o := st[r.Intn(len(st))]
		return text[:t.Off] + tokText(src, o) + text[t.End:]
	case "tok-insert":
		return text[:t.Off] + vocab[r.Intn(len(vocab))] + " " + text[t.Off:]
	case "tok-delete-range":
		j := min(len(toks)-1, i+1+r.Intn(12))
		return text[:t.Off] + text[toks[j].End:]
	case "tok-dup-range":
		j := min(len(toks)-1, i+1+r.Intn(12))
		return text[:toks[j].End] + " " + text[t.Off:toks[j].End] + text[toks[j].End:]
	case "tok-splice":
		if len(otherToks) == 0 {
			return text[:t.Off]
		}
		o := otherToks[r.Intn(len(otherToks))]
		if r.Intn(2) == 0 {
			return text[:t.Off] + other[o.Off:]
		}
		// transplant a run of tokens
		k := r.Intn(len(otherToks))
		e := otherToks[min(len(otherToks)-1, k+1+r.Intn(20))]
		return text[:t.Off] + other[otherToks[k].Off:e.End] + " " + text[t.Off:]
	case "tok-rename":
		// replace every occurrence of one name token by another name / hostile name
		var names []Tok
		for _, x := range toks {
			if IsName(x.Type) {
				names = append(names, x)
			}
		}
		if len(names) == 0 {
			return text
		}
		from := tokText(text, names[r.Intn(len(names))])
		to := tokText(text, names[r.Intn(len(names))])
		if r.Intn(2) == 0 {
			to = weirdNames[r.Intn(len(weirdNames))]
		}
		var b strings.Builder
		last := 0
		for _, x := range toks {
			if IsName(x.Type) && tokText(text, x) == from && (r.Intn(8) != 0) {
				b.WriteString(text[last:x.Off])
				b.WriteString(to)
				last = x.End
			}
		}
		b.WriteString(text[last:])
		return b.String()
	}
	return text
}

var hostileBytes = []byte{0, 0xff, 0xfe, 0xc0, 0x80, 0xed, 0xa0, '\n', '\r', '{', '}', '/', '\'', '"', '\\', '%', ':', ';', '(', ')', '[', ']', '<', '>', '*', ' ', '\t', 0x7f, 0xe2, 0xef}

// MutateBytes applies one byte-level mutation.
func MutateBytes(r *rand.Rand, kind string, text string) string {
	if len(text) == 0 {
		return string(hostileBytes[r.Intn(len(hostileBytes))])
	}
	p := r.Intn(len(text))
	switch kind {
	case "byte-flip":
		b := []byte(text)
		b[p] ^= 1 << uint(r.Intn(8))
		return string(b)
	case "byte-set":
		b := []byte(text)
		b[p] = hostileBytes[r.Intn(len(hostileBytes))]
		return string(b)
	case "byte-insert":
		n := 1 + r.Intn(4)
		ins := make([]byte, n)
		for i := range ins {
			if r.Intn(2) == 0 {
				ins[i] = hostileBytes[r.Intn(len(hostileBytes))]
			} else {
				ins[i] = byte(r.Intn(256))
			}
		}
		return text[:p] + string(ins) + text[p:]
	case "byte-delete-range":
		e := min(len(text), p+1+r.Intn(40))
		return text[:p] + text[e:]
	case "truncate":
		return text[:p]
	case "invalid-utf8":
		seqs := []string{"\xff", "\xc0\xaf", "\xed\xa0\x80", "\xf4\x90\x80\x80", "\xe2\x82", "\x80", "\xf8\x88\x80\x80\x80", "\xef\xbf\xbd", "\xef\xbb\xbf", "\xc3"}
		return text[:p] + seqs[r.Intn(len(seqs))] + text[p:]
	case "crlf":
		return strings.ReplaceAll(text, "\n", "\r\n")
	case "cr-only":
		if r.Intn(2) == 0 {
			return strings.ReplaceAll(text, "\n", "\r")
		}
		// only some newlines
		var b strings.Builder
		for i := 0; i < len(text); i++ {
			if text[i] == '\n' && r.Intn(3) == 0 {
				b.WriteString([]string{"\r", "\r\n", "\n\r", "\n\n", "\v", "\f", " ", "\u0085"}[r.Intn(8)])
			} else {
				b.WriteByte(text[i])
			}
		}
		return b.String()
	case "bom":
		if r.Intn(2) == 0 {
			return "\xef\xbb\xbf" + text
		}
		return text[:p] + "\xef\xbb\xbf" + text[p:]
	case "join-lines":
		// one very long line: newlines become spaces in a region (comments swallow the rest)
		e := min(len(text), p+200+r.Intn(4000))
		return text[:p] + strings.ReplaceAll(text[p:e], "\n", " ") + text[e:]
	case "dup-chunk":
		e := min(len(text), p+1+r.Intn(200))
		return text[:e] + text[p:e] + text[e:]
	}
	return text
}

// InjectKinds lists the semantic injections applicable to an existing grammar.
var InjectKinds = []string{"inj-cyclic-sets", "inj-sets", "inj-inputs", "inj-lookaheads", "inj-flags", "inj-names", "inj-lexer", "inj-rules", "inj-inline", "inj-prec", "inj-inject", "inj-arrows", "inj-deep", "inj-long", "inj-extend-opt", "inj-options", "inj-actions", "inj-lalr"}

// Inject grafts one soup fragment into an existing grammar text (shipped or
// synthetic), using the symbols found by Analyze. Returns the text unchanged if
// the grammar has no recognisable structure.
func Inject(r *rand.Rand, kind string, text string, in Info, hostility int) string {
	if in.HeaderEnd < 0 || in.LexerOff < 0 {
		return text
	}
	g := &G{r: r, Hostility: hostility, Terms: in.Terms, NTs: in.Nonterms}
	g.n = 900 + r.Intn(50)
	if len(g.Terms) == 0 {
		g.Terms = []string{"undefined_term"}
	}
	if len(g.NTs) == 0 {
		g.NTs = []string{"input"}
	}
	name := strings.TrimPrefix(kind, "inj-")
	for _, f := range fragments {
		if f.name == name {
			f.f(g)
		}
	}
	// assemble: options after the header, lexer lines after ':: lexer' (or at its end), parser lines at the end
	var b strings.Builder
	b.WriteString(text[:in.HeaderEnd])
	b.WriteString("\n")
	for _, o := range g.Opts {
		b.WriteString(o + "\n")
	}
	lexEnd := in.End
	if in.ParserOff >= 0 {
		lexEnd = in.ParserOff
	}
	if lexEnd < in.LexerOff {
		return text
	}
	if r.Intn(2) == 0 {
		b.WriteString(text[in.HeaderEnd:in.LexerOff])
		b.WriteString("\n")
		for _, l := range g.Lex {
			b.WriteString(l + "\n")
		}
		b.WriteString(text[in.LexerOff:lexEnd])
	} else {
		b.WriteString(text[in.HeaderEnd:lexEnd])
		b.WriteString("\n")
		for _, l := range g.Lex {
			b.WriteString(l + "\n")
		}
	}
	if in.ParserOff >= 0 {
		if g.LALR != "" && in.ParserIn >= 0 {
			b.WriteString(":: parser" + g.LALR)
			b.WriteString(text[in.ParserIn:in.End])
		} else {
			b.WriteString(text[in.ParserOff:in.End])
		}
		b.WriteString("\n")
		for _, l := range g.Par {
			b.WriteString(l + "\n")
		}
	} else if len(g.Par) > 0 && r.Intn(3) == 0 {
		b.WriteString("\n:: parser\n\ninput : " + g.Terms[0] + " ;\n")
		for _, l := range g.Par {
			b.WriteString(l + "\n")
		}
	}
	if g.Tail != "" {
		b.WriteString(g.Tail)
	} else {
		b.WriteString(text[in.End:])
	}
	return b.String()
}
