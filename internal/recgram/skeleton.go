package recgram

import (
	"fmt"
	"math/rand"

	"verif/internal/gram"
)

// SkelOptions tunes RandSkeleton.
type SkelOptions struct {
	// Lookahead adds a statement pair that is disambiguated by a (?= ...) predicate
	// scanning a whole parenthesised list (for the cancellation check: the shift
	// counter then lives in the session and is advanced by lookahead shifts).
	Lookahead bool
	// NestedLookahead (implies Lookahead) additionally puts a lookahead predicate inside the list the
	// outer predicate scans, so that predicates are evaluated while another lookahead is running
	// (needs recursiveLookaheads = true).
	NestedLookahead bool
	// MultiCase gives every lookahead decision three alternatives - (?= A), (?= !A & B), (?= !A & !B) - so
	// that the generated lookahead rule is a chain of two lookahead calls.
	MultiCase bool
	// TrailingNull always includes the statement form that ends with a nullable nonterminal.
	TrailingNull bool
	// TrailingNullMarker puts a state marker behind that nullable nonterminal (otherwise two times in three).
	TrailingNullMarker bool
	// NoErr generates no error alternatives at all.
	NoErr bool
}

// RandSkeleton builds a statement/block/argument-list/expression language with
// error alternatives at statement, list-element and bracket level, following
// the idiom of the shipped js/tm grammars ("error ';'", "'(' error ')'",
// list elements that are 'error', '.recoveryScope' after opening brackets).
func RandSkeleton(r *rand.Rand, o SkelOptions) *Grammar {
	b := newBuilder(r, "skeleton")
	semi, comma, lp, rp, lb, rb := b.term(";"), b.term(","), b.term("("), b.term(")"), b.term("{"), b.term("}")
	id, num := b.word(), b.word()

	file := b.nonterm("File")
	items := b.nonterm("Items")
	item := b.nonterm("Item")
	block := b.nonterm("Block")
	args := b.nonterm("Args")
	arg := b.nonterm("Arg")
	nlev := 1 + r.Intn(3)
	exprs := make([]int, nlev)
	for i := range exprs {
		exprs[i] = b.nonterm(fmt.Sprintf("E%d", i))
	}
	prim := b.nonterm("Prim")
	expr := exprs[0]

	perr := func(p int) bool { return !o.NoErr && r.Intn(p) == 0 }
	needItemNode := false

	// File / Items
	itemsNullable := true
	switch r.Intn(3) {
	case 0: // left-recursive nullable list
		b.rule(items, b.nt(items), b.nt(item))
		b.rule(items)
		b.rule(file, b.nt(items))
		b.feature("items:left-nullable")
	case 1: // non-empty list, optional at the use sites
		b.rule(items, b.nt(item))
		b.rule(items, b.nt(items), b.nt(item))
		b.rule(file, b.nt(items))
		b.rule(file)
		itemsNullable = false
		b.feature("items:left-nonempty")
	default: // right-recursive nullable list
		ru := b.rule(items, b.nt(item), b.nt(items))
		if r.Intn(3) == 0 {
			ru.Deco = map[int]string{2: ".afterItems"}
		}
		b.rule(items)
		b.rule(file, b.nt(items))
		b.feature("items:right-nullable")
	}

	// Block
	scope := r.Intn(2) == 0
	mkBlock := func(rhs ...Sym) {
		ru := b.rule(block, rhs...)
		if scope {
			ru.Deco = map[int]string{1: ".recoveryScope"}
		}
	}
	mkBlock(lb, b.nt(items), rb)
	if !itemsNullable {
		b.rule(block, lb, rb)
	}
	if scope {
		b.feature("recoveryScope")
	}
	if perr(3) {
		mkBlock(lb, errSym, rb)
		b.feature("err:block")
	}

	// Items: statements
	type alt func()
	stmtKinds := []alt{
		func() { b.rule(item, b.word(), b.nt(expr), semi) },
		func() { b.rule(item, b.word(), lp, b.nt(args), rp, semi) },
		func() { b.rule(item, b.word(), lp, b.nt(expr), rp, b.nt(block)) },
		func() { b.rule(item, b.nt(block)) },
		func() { b.rule(item, b.word(), id, b.term("="), b.nt(expr), semi) },
		func() { b.rule(item, semi) },
		func() { b.rule(item, b.word(), b.nt(block), b.word(), b.nt(block)) },
		func() { // nullable modifier in front
			mod := b.nonterm(fmt.Sprintf("Mod%d", len(b.g.Nonterms)))
			b.rule(mod, b.word())
			b.rule(mod)
			b.rule(item, b.word(), b.nt(mod), id, semi)
		},
		func() { // nullable tail
			tail := b.nonterm(fmt.Sprintf("Tail%d", len(b.g.Nonterms)))
			b.rule(tail, b.word(), id)
			b.rule(tail)
			b.rule(item, b.word(), id, b.nt(tail), semi)
		},
		func() { // pure marker nonterminal (LR(0) reduction of an empty rule)
			mk := b.nonterm(fmt.Sprintf("Mark%d", len(b.g.Nonterms)))
			b.rule(mk)
			w := b.word()
			b.rule(item, w, b.nt(mk), b.nt(expr), semi)
			if perr(2) {
				b.rule(item, w, b.nt(mk), errSym, semi)
				b.feature("err:after-marker")
			}
		},
	}
	stmtKinds = append(stmtKinds, func() { // a nonterminal whose rules begin with an LR(0) marker, one of them continuing with error
		mk := b.nonterm(fmt.Sprintf("Mark%d", len(b.g.Nonterms)))
		b.rule(mk)
		x := b.nonterm(fmt.Sprintf("Guard%d", len(b.g.Nonterms)))
		b.rule(x, b.nt(mk), b.nt(expr))
		if perr(2) {
			b.rule(x, b.nt(mk), errSym)
			b.feature("err:marker-first")
		}
		b.rule(item, b.word(), b.nt(x), semi)
	})
	trailingNull := func() { // statement that ends with a nullable nonterminal (trailing whitespace/comments matter for its range)
		tail := b.nonterm(fmt.Sprintf("End%d", len(b.g.Nonterms)))
		b.rule(tail, b.word(), id)
		b.rule(tail)
		ru := b.rule(item, b.word(), id, b.nt(tail))
		b.feature("trailing-nullable")
		if r.Intn(3) > 0 || o.TrailingNullMarker { // ... followed by a state marker
			ru.Deco = map[int]string{3: ".afterEnd"}
			b.feature("trailing-nullable+marker")
		}
		if r.Intn(3) > 0 || o.TrailingNullMarker {
			// a look-alike sibling: same nonterminal, length, node and no actions, but ending with a token.
			// State minimisation may merge reductions of interchangeable rules; these two are not
			// interchangeable when trailing whitespace is trimmed per rule.
			ru.Plain = true
			sib := b.rule(item, b.word(), id, semi)
			sib.Plain = true
			b.feature("trailing-nullable+lookalike-sibling")
			needItemNode = true
		}
	}
	if !o.TrailingNull {
		stmtKinds = append(stmtKinds, trailingNull)
	}
	perm := r.Perm(len(stmtKinds))
	nk := 2 + r.Intn(4)
	for _, k := range perm[:nk] {
		stmtKinds[k]()
	}
	if o.TrailingNull {
		trailingNull()
	}
	if o.Lookahead || o.NestedLookahead {
		// 'q' (?= LA) '(' Args ')' 'x' ';'  |  'q' (?= !LA) '(' Args ')' 'y' ';'
		// MultiCase: 'q' (?= LA) ... 'x' ';' | 'q' (?= !LA & LA2) ... 'y' ';' | 'q' (?= !LA & !LA2) ... 'z' ';'
		la := b.nonterm("LA")
		q, x, y := b.word(), b.word(), b.word()
		b.rule(la, lp, b.nt(args), rp, x)
		r1 := b.rule(item, q, lp, b.nt(args), rp, x, semi)
		r1.Deco = map[int]string{1: "(?= LA)"}
		if o.MultiCase {
			la2 := b.nonterm("LA2")
			z := b.word()
			b.rule(la2, lp, b.nt(args), rp, y)
			r2 := b.rule(item, q, lp, b.nt(args), rp, y, semi)
			r2.Deco = map[int]string{1: "(?= !LA & LA2)"}
			r3 := b.rule(item, q, lp, b.nt(args), rp, z, semi)
			r3.Deco = map[int]string{1: "(?= !LA & !LA2)"}
			b.feature("lookahead-multicase")
		} else {
			r2 := b.rule(item, q, lp, b.nt(args), rp, y, semi)
			r2.Deco = map[int]string{1: "(?= !LA)"}
		}
		b.feature("lookahead")
		if o.NestedLookahead {
			// Arg: 'm' (?= LB) '(' Args ')' 'u' | 'm' (?= !LB) '(' Args ')' 'v'   -- evaluated inside LA
			lb := b.nonterm("LB")
			m, u, v := b.word(), b.word(), b.word()
			b.rule(lb, lp, b.nt(args), rp, u)
			r3 := b.rule(arg, m, lp, b.nt(args), rp, u)
			r3.Deco = map[int]string{1: "(?= LB)"}
			if o.MultiCase {
				lb2 := b.nonterm("LB2")
				w := b.word()
				b.rule(lb2, lp, b.nt(args), rp, v)
				r4 := b.rule(arg, m, lp, b.nt(args), rp, v)
				r4.Deco = map[int]string{1: "(?= !LB & LB2)"}
				r5 := b.rule(arg, m, lp, b.nt(args), rp, w)
				r5.Deco = map[int]string{1: "(?= !LB & !LB2)"}
			} else {
				r4 := b.rule(arg, m, lp, b.nt(args), rp, v)
				r4.Deco = map[int]string{1: "(?= !LB)"}
			}
			b.feature("nested-lookahead")
		}
	}
	// statement-level error alternatives
	if !o.NoErr {
		switch r.Intn(6) {
		case 0, 1:
			b.rule(item, errSym, semi)
			b.feature("err:stmt-semi")
		case 2:
			b.rule(item, errSym)
			b.feature("err:stmt-bare")
		case 3:
			b.rule(item, errSym, semi)
			b.rule(items, errSym) // a broken list tail (only recovers in front of a follower of Items)
			b.feature("err:stmt-semi+list")
		case 4:
			b.rule(item, b.word(), errSym, semi)
			b.feature("err:stmt-kw")
		}
	}

	// Args
	switch r.Intn(3) {
	case 0:
		b.rule(args, b.nt(arg))
		b.rule(args, b.nt(args), comma, b.nt(arg))
		b.feature("args:nonempty")
	case 1:
		list := b.nonterm("ArgList")
		b.rule(list, b.nt(arg))
		b.rule(list, b.nt(list), comma, b.nt(arg))
		b.rule(args, b.nt(list))
		b.rule(args)
		b.feature("args:nullable")
	default:
		list := b.nonterm("ArgList")
		b.rule(list, b.nt(arg))
		b.rule(list, b.nt(list), comma, b.nt(arg))
		b.rule(args, b.nt(list))
		b.rule(args, b.nt(list), comma) // trailing comma
		b.feature("args:trailing-comma")
	}
	b.rule(arg, b.nt(expr))
	if perr(2) {
		b.rule(arg, errSym)
		b.feature("err:arg")
	}

	// Expressions
	opNames := []string{"+", "*", "-", "/", "<", ">", "&", "|", "^", "%"}
	r.Shuffle(len(opNames), func(i, j int) { opNames[i], opNames[j] = opNames[j], opNames[i] })
	nextOp := 0
	for i := 0; i < nlev; i++ {
		next := prim
		if i+1 < nlev {
			next = exprs[i+1]
		}
		nops := 1 + r.Intn(2)
		right := r.Intn(3) == 0
		for k := 0; k < nops; k++ {
			op := b.term(opNames[nextOp])
			nextOp++
			if right {
				b.rule(exprs[i], b.nt(next), op, b.nt(exprs[i]))
			} else {
				b.rule(exprs[i], b.nt(exprs[i]), op, b.nt(next))
			}
		}
		b.rule(exprs[i], b.nt(next))
	}
	dedupRules(b.g)
	b.rule(prim, id)
	b.rule(prim, num)
	b.rule(prim, lp, b.nt(expr), rp)
	if r.Intn(2) == 0 {
		b.rule(prim, id, lp, b.nt(args), rp)
		b.feature("call")
	}
	if r.Intn(3) == 0 {
		b.rule(prim, b.term("["), b.nt(args), b.term("]"))
		b.feature("array")
		if perr(3) {
			b.rule(prim, b.term("["), errSym, b.term("]"))
			b.feature("err:array")
		}
	}
	if perr(3) {
		b.rule(prim, lp, errSym, rp)
		b.feature("err:paren")
	}
	if perr(6) {
		b.rule(prim, errSym)
		b.feature("err:prim")
	}

	b.g.Inputs = []gram.Input{{NT: file}}
	if r.Intn(3) == 0 {
		b.g.Inputs = append(b.g.Inputs, gram.Input{NT: expr})
	}
	b.annotate(0.7, 0.3, 0.15)
	if b.g.NTArrow[file] == "" {
		b.g.NTArrow[file] = "File"
	}
	if needItemNode && b.g.NTArrow[item] == "" {
		b.g.NTArrow[item] = "Item"
	}
	return b.g
}

func dedupRules(g *Grammar) {
	seen := map[string]bool{}
	var out []Rule
	for _, ru := range g.Rules {
		k := fmt.Sprint(ru.LHS, ru.RHS)
		if seen[k] {
			continue
		}
		seen[k] = true
		out = append(out, ru)
	}
	g.Rules = out
}
