package recgram

import (
	"fmt"
	"os"
	"path/filepath"
	"strings"

	"verif/internal/fw"
	"verif/internal/genrun"
)

// Compiled is a grammar text that went through compiler.Compile and gen.Generate.
type Compiled struct {
	G    *Grammar
	Pkg  *genrun.Pkg
	X    *genrun.XInfo
	Opts TextOpts
}

func firstLine(s string) string {
	if i := strings.IndexByte(s, '\n'); i >= 0 {
		return s[:i]
	}
	return s
}

// Compile prints g with o, compiles and generates it and attaches the extended
// adapter. Returns nil when the compiler rejects the grammar (counted) or the
// generator fails (reported as violation: not this check's property, but it must
// not go unnoticed).
func Compile(c *fw.Ctx, g *Grammar, o TextOpts) *Compiled {
	text := g.Text(o)
	c.Note(map[string]string{"grammar.tm": text})
	c.Count("grammar_texts_compiled", 1)
	pkg, cerr, gerr := genrun.Generate(o.Pkg, text)
	if cerr != nil {
		msg := cerr.Error()
		if strings.Contains(msg, "conflict") {
			c.Count("grammars_rejected_conflicts", 1)
		} else {
			c.Count("grammars_rejected_other", 1)
			c.Count("reject:"+fw.Skeleton(firstLine(msg)), 1)
		}
		return nil
	}
	if gerr != nil {
		c.Violate("generate-failed/"+fw.Skeleton(gerr.Error()), "gen.Generate failed for a grammar that compiles:\n"+gerr.Error()+"\n"+text, map[string]string{"grammar.tm": text})
		return nil
	}
	x, err := genrun.AddXAdapter(pkg)
	if err != nil {
		c.Violate("harness/x-adapter/"+fw.Skeleton(err.Error()), err.Error(), map[string]string{"grammar.tm": text})
		return nil
	}
	if x.Problem != "" {
		c.Count("grammars_without_event_parser", 1)
		return nil
	}
	return &Compiled{G: g, Pkg: pkg, X: x, Opts: o}
}

// BuildModule writes the scratch module (with ast packages linked) and builds the runner.
func BuildModule(c *fw.Ctx, tag string, pkgs []*genrun.Pkg, race bool) string {
	dir := filepath.Join(c.WorkDir, fmt.Sprintf("mod%d%s", c.Case, tag))
	os.RemoveAll(dir)
	if err := genrun.WriteModule(dir, pkgs); err != nil {
		c.Violate("harness/write-module/"+fw.Skeleton(err.Error()), err.Error(), nil)
		return ""
	}
	if err := genrun.WriteXMain(dir, pkgs); err != nil {
		c.Violate("harness/write-module/"+fw.Skeleton(err.Error()), err.Error(), nil)
		return ""
	}
	bin, out, err := genrun.Build(dir, race, "")
	if err != nil {
		files := map[string]string{"build_output.txt": out}
		for _, p := range pkgs {
			if strings.Contains(out, "w/"+p.Name) || strings.Contains(out, p.Name+"/") {
				files["grammar.tm"] = p.Text
				break
			}
		}
		c.Violate("generated-code-does-not-build/"+buildSkeleton(out), "go build of generated packages failed:\n"+out, files)
		return ""
	}
	return bin
}

func buildSkeleton(out string) string {
	for _, l := range strings.Split(out, "\n") {
		if strings.HasPrefix(l, "#") || strings.TrimSpace(l) == "" {
			continue
		}
		parts := strings.SplitN(l, ": ", 2)
		if len(parts) == 2 {
			file := parts[0]
			if i := strings.IndexByte(file, ':'); i >= 0 {
				file = file[:i]
			}
			return filepath.Base(file) + ": " + fw.Skeleton(parts[1])
		}
		return fw.Skeleton(l)
	}
	return "unknown"
}

// EventsString prints events compactly.
func EventsString(ev []genrun.Event) string {
	var b strings.Builder
	for i, e := range ev {
		if b.Len() > 4000 {
			fmt.Fprintf(&b, "... (%d more)", len(ev)-i)
			break
		}
		if e.F != 0 {
			fmt.Fprintf(&b, "%s/%d[%d,%d) ", e.T, e.F, e.S, e.E)
		} else {
			fmt.Fprintf(&b, "%s[%d,%d) ", e.T, e.S, e.E)
		}
	}
	return b.String()
}

// EHString prints handler calls.
func EHString(eh []genrun.ErrCall) string {
	var b strings.Builder
	for _, e := range eh {
		fmt.Fprintf(&b, "[%d,%d) ", e.S, e.E)
	}
	return b.String()
}
