package recgram

import (
	"context"
	"fmt"
	"go/ast"
	goparser "go/parser"
	"go/token"
	"os"
	"path/filepath"
	"reflect"
	"runtime"
	"runtime/debug"
	"sort"
	"strconv"
	"strings"
	"sync"
	"time"

	"github.com/inspirer/textmapper/parsers/js"
	jsast "github.com/inspirer/textmapper/parsers/js/ast"
	jstoken "github.com/inspirer/textmapper/parsers/js/token"
	"github.com/inspirer/textmapper/parsers/json"
	jsontoken "github.com/inspirer/textmapper/parsers/json/token"
	"github.com/inspirer/textmapper/parsers/test"
	testtoken "github.com/inspirer/textmapper/parsers/test/token"
	"github.com/inspirer/textmapper/parsers/tm"
	tmast "github.com/inspirer/textmapper/parsers/tm/ast"
	tmtoken "github.com/inspirer/textmapper/parsers/tm/token"

	"verif/internal/genrun"
)

// RepoDir returns the directory of the textmapper module the binary was built
// against (normally /repo; a scratch copy during mutation tests).
func RepoDir() string {
	if d := os.Getenv("VERIF_REPO"); d != "" {
		return d
	}
	pc := reflect.ValueOf(tm.StopOnFirstError).Pointer()
	if f := runtime.FuncForPC(pc); f != nil {
		file, _ := f.FileLine(pc)
		d := filepath.Dir(filepath.Dir(filepath.Dir(file)))
		if _, err := os.Stat(filepath.Join(d, "go.mod")); err == nil {
			return d
		}
	}
	return "/repo"
}

// PollCtx is a context whose Done() polls are counted; it can be cancelled at a
// given poll number, explicitly, or from another goroutine.
type PollCtx struct {
	mu        sync.Mutex
	done      chan struct{}
	polls     int
	cancelAt  int
	cancelled bool
	OnPoll    func(n int) // called (unlocked) before poll n is answered
	OnSaw     func(n int) // called (unlocked) when poll n is answered with a closed channel
}

func NewPollCtx(cancelAt int) *PollCtx {
	return &PollCtx{done: make(chan struct{}), cancelAt: cancelAt}
}

func (c *PollCtx) Deadline() (time.Time, bool)       { return time.Time{}, false }
func (c *PollCtx) Value(key interface{}) interface{} { return nil }
func (c *PollCtx) Done() <-chan struct{} {
	c.mu.Lock()
	c.polls++
	n := c.polls
	c.mu.Unlock()
	if c.OnPoll != nil {
		c.OnPoll(n)
	}
	c.mu.Lock()
	if c.cancelAt > 0 && n >= c.cancelAt && !c.cancelled {
		c.cancelled = true
		close(c.done)
	}
	saw := c.cancelled
	c.mu.Unlock()
	if saw && c.OnSaw != nil {
		c.OnSaw(n)
	}
	return c.done
}
func (c *PollCtx) Err() error {
	c.mu.Lock()
	defer c.mu.Unlock()
	if c.cancelled {
		return context.Canceled
	}
	return nil
}
func (c *PollCtx) Cancel() {
	c.mu.Lock()
	if !c.cancelled {
		c.cancelled = true
		close(c.done)
	}
	c.mu.Unlock()
}
func (c *PollCtx) Polls() int {
	c.mu.Lock()
	defer c.mu.Unlock()
	return c.polls
}

// SRun is the observation of one in-process parse with a shipped parser.
type SRun struct {
	Events    []genrun.Event // only with KeepEvents
	N         int            // number of events
	H         uint64         // rolling hash over the events (genrun.XHash)
	Last      genrun.Event
	EH        []genrun.ErrCall
	OK        bool
	ErrKind   string // syntax | ctx | other
	Err       string
	S, E      int
	Polls     int
	PollEv    []int // events reported before each poll
	CancelEv  int   // events reported when the cancellation was issued (-1: none/async)
	CancelOff int   // offset of the last token the lexer had produced at that moment (-1: unknown)
	SawPoll   int   // number of the first poll answered with a closed channel (0: none)
	SawEv     int   // events reported before that poll
	Panic     string
	Val       string
}

// SOpts selects parser, entry point and schedules.
type SOpts struct {
	Parser        string // js | tm | test | json
	Entry         int
	Dialect       int
	EH            int // 0 stop on first, k stop at k-th, -1 never
	CancelAtPoll  int // >0
	CancelAtEvent int // >0: inside the listener at that event; -1: before the start
	Async         time.Duration
	KeepEvents    bool
	MaxEvents     int
	// Reuse: parse with long-lived Parser/TokenStream/Lexer objects shared by all Reuse runs of this
	// process (re-initialised through Init before each parse), instead of fresh ones.
	Reuse bool
	// NoReinit: like Reuse (separate long-lived objects), but Parser.Init is called only once, before the
	// first parse; the handler and listener of the current run are reached through an indirection.
	NoReinit bool
}

var shared2 struct {
	inited map[string]bool
	record func(t string, f, s, e int)
	onErr  func(line, s, e int) bool
	jsS    js.TokenStream
	jsP    js.Parser
	tmS    tm.TokenStream
	tmP    tm.Parser
	testL  test.Lexer
	testP  test.Parser
	jsonL  json.Lexer
	jsonP  json.Parser
}

var shared struct {
	jsS   js.TokenStream
	jsP   js.Parser
	tmS   tm.TokenStream
	tmP   tm.Parser
	testL test.Lexer
	testP test.Parser
	jsonL json.Lexer
	jsonP json.Parser
}

// ResetShared replaces the long-lived objects by fresh ones (start of a case).
func ResetShared() {
	shared.jsS, shared.jsP = js.TokenStream{}, js.Parser{}
	shared.tmS, shared.tmP = tm.TokenStream{}, tm.Parser{}
	shared.testL, shared.testP = test.Lexer{}, test.Parser{}
	shared.jsonL, shared.jsonP = json.Lexer{}, json.Parser{}
	shared2.inited = map[string]bool{}
	shared2.jsS, shared2.jsP = js.TokenStream{}, js.Parser{}
	shared2.tmS, shared2.tmP = tm.TokenStream{}, tm.Parser{}
	shared2.testL, shared2.testP = test.Lexer{}, test.Parser{}
	shared2.jsonL, shared2.jsonP = json.Lexer{}, json.Parser{}
}

// ShippedEntries lists the entry points per shipped parser.
var ShippedEntries = map[string][]string{
	"js":   {"Module", "TypeSnippet", "ExpressionSnippet", "NamespaceNameSnippet"},
	"tm":   {"File", "Nonterm"},
	"test": {"Test", "Decl1"},
	"json": {"JSONText"},
}

// ShippedCancellable lists the parsers whose Parse functions take a context.
var ShippedCancellable = []string{"js", "tm", "test"}

// RunShipped runs one parse; panics of the parser are caught.
func RunShipped(text string, o SOpts) (res *SRun) {
	res = &SRun{H: genrun.XHashInit, CancelEv: -1, CancelOff: -1}
	curOff := func() int { return -1 } // set below, per parser
	ctx := NewPollCtx(o.CancelAtPoll)
	ctx.OnPoll = func(n int) {
		res.PollEv = append(res.PollEv, res.N)
		if o.CancelAtPoll > 0 && n == o.CancelAtPoll {
			res.CancelEv = res.N
			res.CancelOff = curOff()
		}
	}
	ctx.OnSaw = func(n int) {
		if res.SawPoll == 0 {
			res.SawPoll, res.SawEv = n, res.N
		}
	}
	if o.CancelAtEvent < 0 {
		ctx.Cancel()
		res.CancelEv = 0
		res.CancelOff = 0
	}
	record := func(t string, f, s, e int) {
		res.N++
		if o.MaxEvents > 0 && res.N > o.MaxEvents {
			panic("verif: event limit exceeded")
		}
		ev := genrun.Event{T: t, F: f, S: s, E: e}
		res.H = genrun.XHash(res.H, t, f, s, e)
		res.Last = ev
		if o.KeepEvents {
			res.Events = append(res.Events, ev)
		}
		if o.CancelAtEvent > 0 && res.N == o.CancelAtEvent {
			res.CancelEv = res.N
			res.CancelOff = curOff()
			ctx.Cancel()
		}
	}
	onErr := func(line, s, e int) bool {
		res.EH = append(res.EH, genrun.ErrCall{Line: line, S: s, E: e})
		if len(res.EH) > len(text)+16 {
			panic("verif: error handler called more often than the input has bytes")
		}
		return o.EH < 0 || len(res.EH) < o.EH
	}
	defer func() {
		res.Polls = ctx.Polls()
		if r := recover(); r != nil {
			res.Panic = fmt.Sprint(r) + "\n" + string(debug.Stack())
		}
	}()
	if o.Async > 0 {
		go func() {
			time.Sleep(o.Async)
			ctx.Cancel()
		}()
	}
	if o.NoReinit {
		if shared2.inited == nil {
			shared2.inited = map[string]bool{}
		}
		shared2.record, shared2.onErr = record, onErr
	}
	var err error
	switch o.Parser {
	case "js":
		s, p := new(js.TokenStream), new(js.Parser)
		if o.Reuse {
			s, p = &shared.jsS, &shared.jsP
		}
		if o.NoReinit {
			s, p = &shared2.jsS, &shared2.jsP
		}
		l := func(nt js.NodeType, offset, endoffset int) { record(nt.String(), 0, offset, endoffset) }
		s.Init(text, l)
		curOff = streamLexerOffset(s)
		s.SetDialect(js.Dialect(o.Dialect))
		if !o.NoReinit {
			p.Init(func(se js.SyntaxError) bool { return onErr(se.Line, se.Offset, se.Endoffset) }, l)
		} else if !shared2.inited["js"] {
			shared2.inited["js"] = true
			p.Init(func(se js.SyntaxError) bool { return shared2.onErr(se.Line, se.Offset, se.Endoffset) },
				func(nt js.NodeType, offset, endoffset int) { shared2.record(nt.String(), 0, offset, endoffset) })
		}
		switch o.Entry {
		case 0:
			err = p.ParseModule(ctx, s)
		case 1:
			err = p.ParseTypeSnippet(ctx, s)
		case 2:
			err = p.ParseExpressionSnippet(ctx, s)
		default:
			err = p.ParseNamespaceNameSnippet(ctx, s)
		}
		if se, ok := err.(js.SyntaxError); ok {
			res.ErrKind, res.S, res.E = "syntax", se.Offset, se.Endoffset
		}
	case "tm":
		s, p := new(tm.TokenStream), new(tm.Parser)
		if o.Reuse {
			s, p = &shared.tmS, &shared.tmP
		}
		if o.NoReinit {
			s, p = &shared2.tmS, &shared2.tmP
		}
		l := func(nt tm.NodeType, offset, endoffset int) { record(nt.String(), 0, offset, endoffset) }
		s.Init(text, l)
		curOff = streamLexerOffset(s)
		if !o.NoReinit {
			p.Init(func(se tm.SyntaxError) bool { return onErr(se.Line, se.Offset, se.Endoffset) }, l)
		} else if !shared2.inited["tm"] {
			shared2.inited["tm"] = true
			p.Init(func(se tm.SyntaxError) bool { return shared2.onErr(se.Line, se.Offset, se.Endoffset) },
				func(nt tm.NodeType, offset, endoffset int) { shared2.record(nt.String(), 0, offset, endoffset) })
		}
		if o.Entry == 0 {
			err = p.ParseFile(ctx, s)
		} else {
			err = p.ParseNonterm(ctx, s)
		}
		if se, ok := err.(tm.SyntaxError); ok {
			res.ErrKind, res.S, res.E = "syntax", se.Offset, se.Endoffset
		}
	case "test":
		lx, p := new(test.Lexer), new(test.Parser)
		if o.Reuse {
			lx, p = &shared.testL, &shared.testP
		}
		if o.NoReinit {
			lx, p = &shared2.testL, &shared2.testP
		}
		lx.Init(text)
		curOff = func() int { o, _ := lx.Pos(); return o }
		if !o.NoReinit {
			p.Init(func(nt test.NodeType, flags test.NodeFlags, offset, endoffset int) {
				record(nt.String(), int(flags), offset, endoffset)
			})
		} else if !shared2.inited["test"] {
			shared2.inited["test"] = true
			p.Init(func(nt test.NodeType, flags test.NodeFlags, offset, endoffset int) {
				shared2.record(nt.String(), int(flags), offset, endoffset)
			})
		}
		if o.Entry == 0 {
			err = p.ParseTest(ctx, lx)
		} else {
			var v int
			v, err = p.ParseDecl1(ctx, lx)
			if err == nil {
				res.Val = fmt.Sprint(v)
			}
		}
		if se, ok := err.(test.SyntaxError); ok {
			res.ErrKind, res.S, res.E = "syntax", se.Offset, se.Endoffset
		}
	case "json":
		lx, p := new(json.Lexer), new(json.Parser)
		if o.Reuse {
			lx, p = &shared.jsonL, &shared.jsonP
		}
		if o.NoReinit {
			lx, p = &shared2.jsonL, &shared2.jsonP
		}
		lx.Init(text)
		if !o.NoReinit {
			p.Init(func(nt json.NodeType, offset, endoffset int) { record(nt.String(), 0, offset, endoffset) })
		} else if !shared2.inited["json"] {
			shared2.inited["json"] = true
			p.Init(func(nt json.NodeType, offset, endoffset int) { shared2.record(nt.String(), 0, offset, endoffset) })
		}
		err = p.Parse(lx)
		if se, ok := err.(json.SyntaxError); ok {
			res.ErrKind, res.S, res.E = "syntax", se.Offset, se.Endoffset
		}
	default:
		panic("unknown shipped parser " + o.Parser)
	}
	if err == nil {
		res.OK = true
	} else {
		res.Err = err.Error()
		if err == context.Canceled || err == context.DeadlineExceeded {
			res.ErrKind = "ctx"
		} else if res.ErrKind == "" {
			res.ErrKind = "other"
		}
	}
	return res
}

// streamLexerOffset returns a reader of the (unexported) lexer position inside a
// shipped TokenStream: the offset of the last token the lexer produced. Reading
// an unexported integer field through reflection is permitted; nothing is modified.
func streamLexerOffset(stream interface{}) func() int {
	f := reflect.ValueOf(stream).Elem().FieldByName("lexer").FieldByName("tokenOffset")
	if !f.IsValid() {
		return func() int { return -1 }
	}
	return func() int { return int(f.Int()) }
}

// TreeNode is a node of a dumped tree.
type TreeNode struct {
	T        string
	S, E     int
	Children []*TreeNode
	BadLink  bool // parent pointer of a child does not point back
}

// ShippedTree runs ast.Parse of the tm or js package and converts the tree
// (through the public Node API) into a TreeNode tree. Returns nil, err text on parse failure.
func ShippedTree(parser, text string, dialect int, eh func(s, e int) bool) (root *TreeNode, errText string, panicText string) {
	defer func() {
		if r := recover(); r != nil {
			panicText = fmt.Sprint(r) + "\n" + string(debug.Stack())
		}
	}()
	switch parser {
	case "tm":
		tree, err := tmast.Parse(context.Background(), "x.tm", text, func(se tm.SyntaxError) bool { return eh(se.Offset, se.Endoffset) })
		if err != nil {
			return nil, err.Error(), ""
		}
		var conv func(n *tmast.Node) *TreeNode
		any := func(tm.NodeType) bool { return true }
		conv = func(n *tmast.Node) *TreeNode {
			out := &TreeNode{T: n.Type().String(), S: n.Offset(), E: n.Endoffset()}
			for c := n.Child(any); c != nil; c = c.Next(any) {
				out.Children = append(out.Children, conv(c))
			}
			return out
		}
		return conv(tree.Root()), "", ""
	case "js":
		if dialect != 0 {
			return nil, "dialect not selectable through ast.Parse", ""
		}
		tree, err := jsast.Parse(context.Background(), "x.js", text, func(se js.SyntaxError) bool { return eh(se.Offset, se.Endoffset) })
		if err != nil {
			return nil, err.Error(), ""
		}
		var conv func(n *jsast.Node) *TreeNode
		any := func(js.NodeType) bool { return true }
		conv = func(n *jsast.Node) *TreeNode {
			out := &TreeNode{T: n.Type().String(), S: n.Offset(), E: n.Endoffset()}
			for c := n.Child(any); c != nil; c = c.Next(any) {
				out.Children = append(out.Children, conv(c))
			}
			return out
		}
		return conv(tree.Root()), "", ""
	}
	return nil, "no ast package", ""
}

// ShippedTokens lexes text with a fresh lexer of the shipped parser and returns
// the byte ranges of the tokens the parser shifts (comments, invalid tokens and
// other skipped tokens excluded, EOI excluded).
func ShippedTokens(parser string, dialect int, text string) [][2]int {
	var out [][2]int
	limit := len(text) + 8
	switch parser {
	case "js":
		var l js.Lexer
		l.Init(text)
		l.Dialect = js.Dialect(dialect)
		for i := 0; i < limit; i++ {
			t := l.Next()
			if t == jstoken.EOI {
				break
			}
			if t == jstoken.MULTILINECOMMENT || t == jstoken.SINGLELINECOMMENT || t == jstoken.INVALID_TOKEN {
				continue
			}
			s, e := l.Pos()
			out = append(out, [2]int{s, e})
		}
	case "tm":
		var l tm.Lexer
		l.Init(text)
		for i := 0; i < limit; i++ {
			t := l.Next()
			if t == tmtoken.EOI {
				break
			}
			if t == tmtoken.INVALID_TOKEN || t == tmtoken.MULTILINECOMMENT || t == tmtoken.COMMENT || t == tmtoken.TEMPLATES {
				continue
			}
			s, e := l.Pos()
			out = append(out, [2]int{s, e})
		}
	case "test":
		var l test.Lexer
		l.Init(text)
		for i := 0; i < limit; i++ {
			t := l.Next()
			if t == testtoken.EOI {
				break
			}
			if t == testtoken.SINGLELINECOMMENT || t == testtoken.INVALID_TOKEN || t == testtoken.MULTILINECOMMENT {
				continue
			}
			s, e := l.Pos()
			out = append(out, [2]int{s, e})
		}
	case "json":
		var l json.Lexer
		l.Init(text)
		for i := 0; i < limit; i++ {
			t := l.Next()
			if t == jsontoken.EOI {
				break
			}
			if t == jsontoken.MULTILINECOMMENT || t == jsontoken.INVALID_TOKEN {
				continue
			}
			s, e := l.Pos()
			out = append(out, [2]int{s, e})
		}
	}
	return out
}

// ---------------------------------------------------------------------------
// corpora

var markerReplacer = strings.NewReplacer("«", "", "»", "", "§", "")

// testLiterals returns the string literals (>= 1 byte) of a Go test file with
// the parsertest expectation markers removed, in source order.
func testLiterals(path string) []string {
	src, err := os.ReadFile(path)
	if err != nil {
		return nil
	}
	fset := token.NewFileSet()
	f, err := goparser.ParseFile(fset, path, src, 0)
	if err != nil {
		return nil
	}
	var out []string
	ast.Inspect(f, func(n ast.Node) bool {
		if _, ok := n.(*ast.ImportSpec); ok {
			return false
		}
		if bl, ok := n.(*ast.BasicLit); ok && bl.Kind == token.STRING {
			if s, err := strconv.Unquote(bl.Value); err == nil && len(s) > 0 {
				out = append(out, markerReplacer.Replace(s))
			}
		}
		return true
	})
	return out
}

func filesWithExt(root string, exts ...string) []string {
	var out []string
	filepath.Walk(root, func(p string, info os.FileInfo, err error) error {
		if err != nil {
			return nil
		}
		if info.IsDir() {
			if n := info.Name(); n == "node_modules" || n == ".git" {
				return filepath.SkipDir
			}
			return nil
		}
		for _, e := range exts {
			if strings.HasSuffix(p, e) && info.Size() < 1<<20 {
				out = append(out, p)
			}
		}
		return nil
	})
	sort.Strings(out)
	return out
}

// Corpus returns the seed inputs for a shipped parser: snippets of its own test
// suite plus matching files found in the repository.
func Corpus(parser string) []string {
	repo := RepoDir()
	var out []string
	addFiles := func(paths []string) {
		for _, p := range paths {
			if b, err := os.ReadFile(p); err == nil && len(b) > 0 {
				out = append(out, string(b))
			}
		}
	}
	switch parser {
	case "js":
		out = append(out, testLiterals(filepath.Join(repo, "parsers/js/parser_test.go"))...)
		addFiles(filesWithExt(repo, ".ts", ".js"))
	case "tm":
		out = append(out, testLiterals(filepath.Join(repo, "parsers/tm/parser_test.go"))...)
		addFiles(filesWithExt(repo, ".tm", ".tmerr"))
	case "test":
		out = append(out, testLiterals(filepath.Join(repo, "parsers/test/parser_test.go"))...)
	case "json":
		out = append(out, testLiterals(filepath.Join(repo, "parsers/json/parser_test.go"))...)
		addFiles(filesWithExt(repo, ".json"))
	}
	return out
}
