// Package recgram generates grammar pairs for the error-recovery, event-nesting
// and cancellation checks: a grammar G that uses the 'error' terminal in some
// alternatives and its twin G' without those alternatives. The twin is a plain
// CFG (internal/cfg) so that sentences can be sampled and classified by Earley.
package recgram

import (
	"fmt"
	"math/rand"
	"sort"
	"strings"

	"verif/internal/cfg"
	"verif/internal/gram"
)

// SymKind distinguishes terminals, nonterminals and the 'error' terminal.
type SymKind int

const (
	T SymKind = iota
	N
	Err
)

// Sym is a right-hand side symbol.
type Sym struct {
	K SymKind
	I int
}

// Inline is an in-rule report clause over RHS[From:To] (To > From).
type Inline struct {
	From, To int
	Name     string
}

// Rule is one production. Rules containing Err exist only in G.
type Rule struct {
	LHS    int
	RHS    []Sym
	Arrow  string         // rule-level report clause ("" = the nonterminal's default)
	Deco   map[int]string // text printed before RHS position p (p == len(RHS): end of rule): state markers, lookaheads, actions
	Inline []Inline       // non-overlapping
	Plain  bool           // keep without rule-level and in-rule report clauses (reports the nonterminal's default node)
}

// HasErr reports whether the rule uses the error terminal.
func (r *Rule) HasErr() bool {
	for _, s := range r.RHS {
		if s.K == Err {
			return true
		}
	}
	return false
}

// Grammar is G; Twin() is G'.
type Grammar struct {
	Terms    []string // spelling of every terminal (also its token text)
	Nonterms []string
	NTArrow  []string
	Rules    []Rule
	Inputs   []gram.Input
	Family   string // "skeleton" | "random"
	Features []string

	twin    *cfg.Grammar
	twinMap []int // twin rule index -> Rules index
}

// TextOpts selects how a grammar is printed.
type TextOpts struct {
	Pkg           string
	WithErr       bool     // print the error alternatives (G) or not (G')
	Opts          []string // header option lines
	Comment       bool     // lexer has a '#...' comment token (space)
	InjectComment bool     // %inject comment -> Comment
	InjectInvalid bool     // %inject invalid_token -> InvalidToken
	NoArrows      bool
	Lalr          int
}

func patternOf(s string) string {
	var b strings.Builder
	for _, ch := range s {
		if (ch >= 'a' && ch <= 'z') || (ch >= 'A' && ch <= 'Z') || (ch >= '0' && ch <= '9') {
			b.WriteRune(ch)
		} else {
			b.WriteByte('\\')
			b.WriteRune(ch)
		}
	}
	return b.String()
}

// Text renders the grammar as textmapper source for package w/<pkg>.
func (g *Grammar) Text(o TextOpts) string {
	var b strings.Builder
	fmt.Fprintf(&b, "language %s(go);\n\nlang = \"%s\"\npackage = \"w/%s\"\neventBased = true\n", o.Pkg, o.Pkg, o.Pkg)
	for _, l := range o.Opts {
		b.WriteString(l + "\n")
	}
	b.WriteString("\n:: lexer\n\nspace: /[ \\t\\r\\n]+/ (space)\n")
	if o.Comment {
		b.WriteString("comment: /#[^\\n]*/ (space)\n")
	}
	b.WriteString("invalid_token:\n")
	if o.WithErr {
		b.WriteString("error:\n")
	}
	for _, t := range g.Terms {
		fmt.Fprintf(&b, "'%s': /%s/\n", t, patternOf(t))
	}
	if o.Lalr > 1 {
		fmt.Fprintf(&b, "\n:: parser lalr(%d)\n\n", o.Lalr)
	} else {
		b.WriteString("\n:: parser\n\n")
	}
	b.WriteString("%input ")
	for i, in := range g.Inputs {
		if i > 0 {
			b.WriteString(", ")
		}
		b.WriteString(g.Nonterms[in.NT])
		if in.NoEoi {
			b.WriteString(" no-eoi")
		}
	}
	b.WriteString(";\n\n")
	if o.Comment && o.InjectComment {
		b.WriteString("%inject comment -> Comment;\n")
	}
	if o.InjectInvalid {
		b.WriteString("%inject invalid_token -> InvalidToken;\n")
	}
	b.WriteString("\n")
	for nt, name := range g.Nonterms {
		var rules []int
		for ri := range g.Rules {
			if g.Rules[ri].LHS == nt && (o.WithErr || !g.Rules[ri].HasErr()) {
				rules = append(rules, ri)
			}
		}
		if len(rules) == 0 {
			continue
		}
		b.WriteString(name)
		if g.NTArrow[nt] != "" && !o.NoArrows {
			fmt.Fprintf(&b, " -> %s", g.NTArrow[nt])
		}
		b.WriteString(" :\n")
		for k, ri := range rules {
			if k == 0 {
				b.WriteString("    ")
			} else {
				b.WriteString("  | ")
			}
			g.ruleText(&b, &g.Rules[ri], o)
			b.WriteString("\n")
		}
		b.WriteString(";\n\n")
	}
	return b.String()
}

func (g *Grammar) ruleText(b *strings.Builder, ru *Rule, o TextOpts) {
	n := 0
	open := map[int]string{}
	closeAt := map[int]string{}
	if !o.NoArrows {
		for _, in := range ru.Inline {
			open[in.From] = "("
			closeAt[in.To] = " -> " + in.Name + ")"
		}
	}
	for pos := 0; pos <= len(ru.RHS); pos++ {
		if c, ok := closeAt[pos]; ok {
			b.WriteString(c)
		}
		if d, ok := ru.Deco[pos]; ok {
			if n > 0 {
				b.WriteByte(' ')
			}
			b.WriteString(d)
			n++
		}
		if pos == len(ru.RHS) {
			break
		}
		if n > 0 {
			b.WriteByte(' ')
		}
		if op, ok := open[pos]; ok {
			b.WriteString(op)
		}
		s := ru.RHS[pos]
		switch s.K {
		case T:
			fmt.Fprintf(b, "'%s'", g.Terms[s.I])
		case N:
			b.WriteString(g.Nonterms[s.I])
		case Err:
			b.WriteString("error")
		}
		n++
	}
	if n == 0 {
		b.WriteString("%empty")
	}
	if ru.Arrow != "" && !o.NoArrows {
		fmt.Fprintf(b, " -> %s", ru.Arrow)
	}
}

// Twin returns G' as a plain CFG (rules without error). Terminal i of the CFG
// is terminal i of the grammar.
func (g *Grammar) Twin() *cfg.Grammar {
	if g.twin != nil {
		return g.twin
	}
	c := &cfg.Grammar{Terms: append([]string(nil), g.Terms...), Nonterms: append([]string(nil), g.Nonterms...)}
	for ri := range g.Rules {
		ru := &g.Rules[ri]
		if ru.HasErr() {
			continue
		}
		var rhs []cfg.Sym
		for _, s := range ru.RHS {
			rhs = append(rhs, cfg.Sym{T: s.K == T, I: s.I})
		}
		c.Rules = append(c.Rules, cfg.Rule{LHS: ru.LHS, RHS: rhs, Tag: ri})
		g.twinMap = append(g.twinMap, ri)
	}
	c.Prepare()
	g.twin = c
	return c
}

// ErrRules returns the number of rules using error.
func (g *Grammar) ErrRules() int {
	n := 0
	for i := range g.Rules {
		if g.Rules[i].HasErr() {
			n++
		}
	}
	return n
}

// Types returns all node names used (sorted).
func (g *Grammar) Types() []string {
	m := map[string]bool{}
	for _, a := range g.NTArrow {
		if a != "" {
			m[a] = true
		}
	}
	for i := range g.Rules {
		if g.Rules[i].Arrow != "" {
			m[g.Rules[i].Arrow] = true
		}
		for _, in := range g.Rules[i].Inline {
			m[in.Name] = true
		}
	}
	var out []string
	for k := range m {
		out = append(out, k)
	}
	sort.Strings(out)
	return out
}

// Key is a canonical description used for distinctness.
func (g *Grammar) Key() string {
	return g.Text(TextOpts{Pkg: "k", WithErr: true})
}

// ---------------------------------------------------------------------------
// builder helpers

type builder struct {
	r     *rand.Rand
	g     *Grammar
	terms map[string]int
	types int
}

func newBuilder(r *rand.Rand, family string) *builder {
	return &builder{r: r, g: &Grammar{Family: family}, terms: map[string]int{}}
}

func (b *builder) term(sp string) Sym {
	if i, ok := b.terms[sp]; ok {
		return Sym{T, i}
	}
	b.g.Terms = append(b.g.Terms, sp)
	b.terms[sp] = len(b.g.Terms) - 1
	return Sym{T, len(b.g.Terms) - 1}
}

// word allocates a fresh word terminal.
func (b *builder) word() Sym {
	for i := 0; ; i++ {
		sp := gram.TermName(i)
		if _, ok := b.terms[sp]; !ok {
			return b.term(sp)
		}
	}
}

func (b *builder) nonterm(name string) int {
	b.g.Nonterms = append(b.g.Nonterms, name)
	b.g.NTArrow = append(b.g.NTArrow, "")
	return len(b.g.Nonterms) - 1
}

func (b *builder) nt(i int) Sym { return Sym{N, i} }

func (b *builder) rule(lhs int, rhs ...Sym) *Rule {
	b.g.Rules = append(b.g.Rules, Rule{LHS: lhs, RHS: rhs})
	return &b.g.Rules[len(b.g.Rules)-1]
}

func (b *builder) feature(f string) { b.g.Features = append(b.g.Features, f) }

func (b *builder) newType(prefix string) string {
	b.types++
	return fmt.Sprintf("%s%d", prefix, b.types)
}

var errSym = Sym{K: Err}

// annotate distributes report clauses: nonterminal defaults, rule-level arrows,
// some in-rule arrows; error rules mostly get a SyntaxProblem-like node.
func (b *builder) annotate(pNT, pRule, pInline float64) {
	r := b.r
	for i := range b.g.Nonterms {
		if r.Float64() < pNT {
			b.g.NTArrow[i] = b.newType("T")
		}
	}
	for i := range b.g.Rules {
		ru := &b.g.Rules[i]
		if ru.Plain {
			continue
		}
		if ru.HasErr() {
			if r.Intn(5) > 0 {
				ru.Arrow = b.newType("Problem")
			}
		} else if r.Float64() < pRule {
			ru.Arrow = b.newType("R")
		}
		if len(ru.RHS) >= 2 && r.Float64() < pInline {
			from := r.Intn(len(ru.RHS))
			to := from + 1 + r.Intn(len(ru.RHS)-from)
			// a lookahead or marker decoration inside the range would end up inside the parentheses: keep it simple
			ok := true
			for p := range ru.Deco {
				if p > from && p < to {
					ok = false
				}
			}
			if ok {
				ru.Inline = append(ru.Inline, Inline{from, to, b.newType("In")})
			}
		}
	}
}
