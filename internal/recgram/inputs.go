package recgram

import (
	"math/rand"
	"strings"
)

// RenderStyle controls how token strings become text.
type RenderStyle struct {
	Comments bool // sprinkle '# ...' comments (only if the lexer has them)
	Invalid  bool // sprinkle characters no lexer rule matches
	Tight    bool // minimal whitespace (single space)
}

var wsChoices = []string{" ", "  ", "\n", " \t", "\n\n  "}
var invalidChars = []string{"?", "@", "$", "~", "??", "@ $"}

// Render renders a token string. pos[i] is the byte range of token i.
func Render(r *rand.Rand, terms []string, toks []int, st RenderStyle) (string, [][2]int) {
	var b strings.Builder
	pos := make([][2]int, len(toks))
	junk := func() {
		if st.Comments && r.Intn(6) == 0 {
			b.WriteString("# c" + strings.Repeat("x", r.Intn(3)) + "\n")
			if r.Intn(2) == 0 {
				b.WriteString(wsChoices[r.Intn(len(wsChoices))])
			}
		}
		if st.Invalid && r.Intn(8) == 0 {
			b.WriteString(invalidChars[r.Intn(len(invalidChars))])
			b.WriteString(wsChoices[r.Intn(len(wsChoices))])
			if st.Comments && r.Intn(4) == 0 {
				b.WriteString("#d\n")
			}
		}
	}
	if r.Intn(4) == 0 {
		b.WriteString(wsChoices[r.Intn(len(wsChoices))])
	}
	junk()
	for i, t := range toks {
		if i > 0 {
			if st.Tight {
				b.WriteByte(' ')
			} else {
				b.WriteString(wsChoices[r.Intn(len(wsChoices))])
			}
			junk()
		}
		s := b.Len()
		b.WriteString(terms[t])
		pos[i] = [2]int{s, b.Len()}
	}
	if r.Intn(3) == 0 {
		b.WriteString(wsChoices[r.Intn(len(wsChoices))])
	}
	if len(toks) > 0 || r.Intn(2) == 0 {
		junk()
	}
	return b.String(), pos
}

// MutateMany applies n token-level mutations at random places (delete, insert,
// replace, swap, duplicate a stretch); never truncates.
func MutateMany(r *rand.Rand, s []int, nterms, n int) []int {
	out := append([]int(nil), s...)
	for ; n > 0; n-- {
		switch r.Intn(5) {
		case 0:
			if len(out) > 0 {
				p := r.Intn(len(out))
				out = append(out[:p], out[p+1:]...)
			}
		case 1:
			p := r.Intn(len(out) + 1)
			out = append(out[:p], append([]int{r.Intn(nterms)}, out[p:]...)...)
		case 2:
			if len(out) > 0 {
				out[r.Intn(len(out))] = r.Intn(nterms)
			}
		case 3:
			if len(out) > 1 {
				p := r.Intn(len(out) - 1)
				out[p], out[p+1] = out[p+1], out[p]
			}
		case 4:
			if len(out) > 0 {
				p := r.Intn(len(out))
				q := p + 1 + r.Intn(min(len(out)-p, 6))
				out = append(out[:q:q], append(append([]int(nil), out[p:q]...), out[q:]...)...)
			}
		}
	}
	return out
}

// Garbage returns a random token string.
func Garbage(r *rand.Rand, nterms, n int) []int {
	out := make([]int, n)
	for i := range out {
		out[i] = r.Intn(nterms)
	}
	return out
}

// RawGarbage returns random text over the token alphabet plus foreign characters.
func RawGarbage(r *rand.Rand, terms []string, n int) string {
	var b strings.Builder
	for i := 0; i < n; i++ {
		switch r.Intn(8) {
		case 0:
			b.WriteString(invalidChars[r.Intn(len(invalidChars))])
		case 1:
			b.WriteString(wsChoices[r.Intn(len(wsChoices))])
		case 2:
			b.WriteString("#x\n")
		case 3:
			b.WriteString([]string{"\xff\xfe", "\u00e9\u2028", "\xc3", "\x00"}[r.Intn(4)]) // invalid utf-8, non-ASCII, NUL
		default:
			b.WriteString(terms[r.Intn(len(terms))])
			if r.Intn(3) > 0 {
				b.WriteByte(' ')
			}
		}
	}
	return b.String()
}

// pieces splits text into identifier-like runs, whitespace runs and single other bytes.
func pieces(s string) []string {
	var out []string
	isW := func(b byte) bool {
		return b == '_' || b == '$' || (b >= '0' && b <= '9') || (b >= 'a' && b <= 'z') || (b >= 'A' && b <= 'Z') || b >= 0x80
	}
	isS := func(b byte) bool { return b == ' ' || b == '\t' || b == '\n' || b == '\r' }
	for i := 0; i < len(s); {
		j := i + 1
		switch {
		case isW(s[i]):
			for j < len(s) && isW(s[j]) {
				j++
			}
		case isS(s[i]):
			for j < len(s) && isS(s[j]) {
				j++
			}
		}
		out = append(out, s[i:j])
		i = j
	}
	return out
}

var textJunk = []string{"(", ")", "{", "}", "[", "]", ";", ",", "@", "#", "`", "\"", "'", "/*", "*/", "//", "\\", "\x00", "\xff", "=>", "<", ">", ">>", "${", "%%", "::", "->", "?", ":", ".", "...", "=", "\n", "error", "1", "0x", "1e"}

// MutateText applies n mutations to src at the level of word/punctuation pieces;
// other donates foreign pieces.
func MutateText(r *rand.Rand, src, other string, n int) string {
	p := pieces(src)
	q := pieces(other)
	for ; n > 0; n-- {
		switch r.Intn(9) {
		case 0, 1: // delete
			if len(p) > 0 {
				i := r.Intn(len(p))
				p = append(p[:i], p[i+1:]...)
			}
		case 2: // duplicate
			if len(p) > 0 {
				i := r.Intn(len(p))
				p = append(p[:i+1], append([]string{p[i]}, p[i+1:]...)...)
			}
		case 3: // swap with a neighbour two pieces away (skipping whitespace in between)
			if len(p) > 2 {
				i := r.Intn(len(p) - 2)
				p[i], p[i+2] = p[i+2], p[i]
			}
		case 4: // replace by a foreign piece
			if len(p) > 0 && len(q) > 0 {
				p[r.Intn(len(p))] = q[r.Intn(len(q))]
			}
		case 5, 6: // insert junk
			i := r.Intn(len(p) + 1)
			p = append(p[:i], append([]string{textJunk[r.Intn(len(textJunk))]}, p[i:]...)...)
		case 7: // truncate
			if len(p) > 1 {
				p = p[:1+r.Intn(len(p)-1)]
			}
		case 8: // insert a foreign stretch
			if len(q) > 0 {
				a := r.Intn(len(q))
				b := a + 1 + r.Intn(min(len(q)-a, 8))
				i := r.Intn(len(p) + 1)
				p = append(p[:i], append(append([]string(nil), q[a:b]...), p[i:]...)...)
			}
		}
	}
	return strings.Join(p, "")
}

// LongSentence returns a sentence of nt with roughly target tokens (between
// target/2 and 2*target if possible). For the skeleton family the start symbol
// derives a free list of items, so sentences are concatenated; otherwise the
// longest of several samples is taken.
func (g *Grammar) LongSentence(r *rand.Rand, nt, target int) []int {
	tw := g.Twin()
	if g.Family == "skeleton" && nt == g.Inputs[0].NT {
		var out []int
		for tries := 0; len(out) < target && tries < 20*target+100; tries++ {
			t := tw.Sample(r, nt, 20+r.Intn(300))
			if t == nil {
				return nil
			}
			s := t.Yield(nil)
			if len(out)+len(s) > 2*target {
				continue
			}
			out = append(out, s...)
		}
		return out
	}
	var best []int
	for tries := 0; tries < 12; tries++ {
		t := tw.Sample(r, nt, 3*target+r.Intn(3*target+1))
		if t == nil {
			return nil
		}
		s := t.Yield(nil)
		if len(s) > 2*target {
			continue
		}
		if len(s) > len(best) {
			best = s
		}
		if len(best) >= target/2 {
			break
		}
	}
	return best
}
