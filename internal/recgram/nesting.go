package recgram

import (
	"fmt"
	"sort"
	"strconv"
	"strings"

	"verif/internal/genrun"
)

// NestIssue is a violation of the trace specification of C20.
type NestIssue struct {
	Sig    string
	Detail string
	A, B   int // CheckNesting: indices of the earlier and the later event involved (-1 if n/a)
}

// ClassifyNesting names the mechanism behind a CheckNesting issue when the log
// shows it ("" otherwise): one of the two nodes (typically the one produced from
// the error symbol) starts exactly where a reported invalid token starts, in
// front of the other node - the recovery range was extended backwards over
// invalid tokens that lie before symbols which were already on the stack. For an
// inverted node: it ends where an invalid token ends, before its own start.
func ClassifyNesting(is *NestIssue, ev []genrun.Event) string {
	const mech = "recovery-range-extended-back-over-invalid-token"
	if is.A < 0 || is.B < 0 {
		return ""
	}
	a, b := ev[is.A], ev[is.B]
	if is.A == is.B {
		for _, e := range ev {
			if e.T == "InvalidToken" && e.E == a.E && a.E < a.S {
				return mech
			}
		}
		return ""
	}
	lo, hi := a, b
	if b.S < a.S {
		lo, hi = b, a
	}
	if lo.S < hi.S {
		for _, e := range ev {
			if e.T == "InvalidToken" && e.S == lo.S && e.E <= hi.S {
				return mech
			}
		}
	}
	return ""
}

// CheckNesting verifies, in report order: every node lies within [0,textLen]
// and is not inverted; any two nodes are disjoint or nested; a node that
// strictly contains another one is reported after it. Empty nodes touching the
// boundary of another node are compatible with it in either order.
//
// Algorithm (independent of the builder under test): keep the maximal
// non-empty nodes reported so far as a sorted list of disjoint intervals. A new
// non-empty node must cover every maximal node it intersects (then it replaces
// them); a new empty node must not fall strictly inside a maximal node.
func CheckNesting(ev []genrun.Event, textLen int) *NestIssue {
	type iv struct{ s, e, idx int }
	var top []iv
	for i, n := range ev {
		if n.S < 0 || n.E > textLen || n.S > textLen || n.E < 0 {
			return &NestIssue{"node-outside-input", fmt.Sprintf("event #%d %s[%d,%d) outside [0,%d]", i, n.T, n.S, n.E, textLen), -1, -1}
		}
		if n.E < n.S {
			return &NestIssue{"node-inverted", fmt.Sprintf("event #%d %s[%d,%d) ends before it starts", i, n.T, n.S, n.E), i, i}
		}
		if n.S == n.E {
			// strictly inside a maximal node?
			k := sort.Search(len(top), func(j int) bool { return top[j].e > n.S })
			if k < len(top) && top[k].s < n.S {
				m := ev[top[k].idx]
				return &NestIssue{"container-reported-before-contained/empty-node",
					fmt.Sprintf("event #%d %s[%d,%d) (empty) lies strictly inside #%d %s[%d,%d) which was reported earlier", i, n.T, n.S, n.E, top[k].idx, m.T, m.S, m.E), top[k].idx, i}
			}
			continue
		}
		// maximal nodes intersecting the interior of n: e > n.S && s < n.E
		lo := sort.Search(len(top), func(j int) bool { return top[j].e > n.S })
		hi := lo
		for hi < len(top) && top[hi].s < n.E {
			m := top[hi]
			if n.S <= m.s && m.e <= n.E {
				hi++
				continue
			}
			me := ev[m.idx]
			if m.s <= n.S && n.E <= m.e {
				return &NestIssue{"container-reported-before-contained",
					fmt.Sprintf("event #%d %s[%d,%d) lies strictly inside #%d %s[%d,%d) which was reported earlier", i, n.T, n.S, n.E, m.idx, me.T, me.S, me.E), m.idx, i}
			}
			return &NestIssue{"partial-overlap",
				fmt.Sprintf("event #%d %s[%d,%d) partially overlaps #%d %s[%d,%d)", i, n.T, n.S, n.E, m.idx, me.T, me.S, me.E), m.idx, i}
		}
		nw := iv{n.S, n.E, i}
		if hi == lo {
			top = append(top, iv{})
			copy(top[lo+1:], top[lo:])
			top[lo] = nw
		} else {
			top[lo] = nw
			top = append(top[:lo+1], top[hi:]...)
		}
	}
	return nil
}

// ParseDump converts the line dump of the x adapter ("depth name num s e") into a tree.
func ParseDump(lines []string) (*TreeNode, string) {
	var stack []*TreeNode
	var root *TreeNode
	for _, l := range lines {
		if strings.HasPrefix(l, "!") {
			return nil, l
		}
		if strings.HasPrefix(l, "X ") {
			continue
		}
		f := strings.Fields(l)
		if len(f) != 5 {
			return nil, "!bad-dump-line " + l
		}
		d, _ := strconv.Atoi(f[0])
		s, _ := strconv.Atoi(f[3])
		e, _ := strconv.Atoi(f[4])
		n := &TreeNode{T: f[1], S: s, E: e}
		if d == 0 {
			if root != nil {
				return nil, "!two-roots"
			}
			root = n
			stack = []*TreeNode{n}
			continue
		}
		if d > len(stack) {
			return nil, "!bad-depth"
		}
		stack = stack[:d]
		p := stack[d-1]
		p.Children = append(p.Children, n)
		stack = append(stack, n)
	}
	if root == nil {
		return nil, "!empty-dump"
	}
	return root, ""
}

type rng struct{ s, e int }

// CheckTree compares a built tree with the reported nodes:
//   - same multiset of (type, range); extra lists nodes the builder adds itself (file node);
//   - every non-empty node hangs below a node whose range is either equal to its own
//     (a chain of equal ranges) or the smallest range among all nodes strictly containing it;
//     among n nodes of equal range exactly n-1 have a parent of that same range;
//   - an empty node hangs below a node that contains its offset; if some node contains the
//     offset strictly inside, the parent must lie within the smallest such node;
//   - siblings are in source order.
//
// byNum: compare node types through the T field as given (names or numbers alike).
//
// One class of disagreement is separated (narrow signature) and does not stop the
// other comparisons: reported empty nodes positioned exactly at the end of the root
// node that are absent from the tree.
func CheckTree(root *TreeNode, ev []genrun.Event, extra []genrun.Event) []*NestIssue {
	var out []*NestIssue
	is, dropped := checkTree(root, ev, extra, nil)
	if len(dropped) > 0 {
		out = append(out, &NestIssue{"tree/empty-node-at-end-of-root-dropped",
			fmt.Sprintf("%d reported empty node(s) positioned at the end offset %d of the root node are not in the tree, e.g. %s[%d,%d)", len(dropped), root.E, dropped[0].T, dropped[0].S, dropped[0].E), -1, -1})
		is, _ = checkTree(root, ev, extra, dropped)
	}
	if is != nil {
		out = append(out, is)
	}
	return out
}

func checkTree(root *TreeNode, ev []genrun.Event, extra []genrun.Event, ignore []genrun.Event) (*NestIssue, []genrun.Event) {
	type key struct {
		t    string
		s, e int
	}
	want := map[key]int{}
	for _, e := range ev {
		want[key{e.T, e.S, e.E}]++
	}
	for _, e := range extra {
		want[key{e.T, e.S, e.E}]++
	}
	for _, e := range ignore {
		want[key{e.T, e.S, e.E}]--
		if want[key{e.T, e.S, e.E}] == 0 {
			delete(want, key{e.T, e.S, e.E})
		}
	}
	// distinct non-empty ranges and their smallest strict container
	rset := map[rng]bool{}
	for k := range want {
		if k.s < k.e {
			rset[rng{k.s, k.e}] = true
		}
	}
	ranges := make([]rng, 0, len(rset))
	for r := range rset {
		ranges = append(ranges, r)
	}
	sort.Slice(ranges, func(i, j int) bool {
		if ranges[i].s != ranges[j].s {
			return ranges[i].s < ranges[j].s
		}
		return ranges[i].e > ranges[j].e
	})
	strictParent := map[rng]rng{}
	var st []rng
	for _, r := range ranges {
		for len(st) > 0 && !(st[len(st)-1].s <= r.s && r.e <= st[len(st)-1].e) {
			st = st[:len(st)-1]
		}
		if len(st) > 0 {
			strictParent[r] = st[len(st)-1]
		} else {
			strictParent[r] = rng{-1, -1}
		}
		st = append(st, r)
	}
	// smallest range containing an offset in its interior: descend the forest of ranges
	kids := map[rng][]rng{}
	for _, r := range ranges { // ranges are sorted by start, so every child list is sorted too
		kids[strictParent[r]] = append(kids[strictParent[r]], r)
	}
	interior := func(o int) (rng, bool) {
		cur, ok := rng{-1, -1}, false
		for {
			ch := kids[cur]
			k := sort.Search(len(ch), func(j int) bool { return ch[j].s >= o }) - 1
			if k < 0 || !(ch[k].s < o && o < ch[k].e) {
				return cur, ok
			}
			cur, ok = ch[k], true
		}
	}
	got := map[key]int{}
	sameRangeChild := map[rng]int{}
	count := map[rng]int{}
	var issue *NestIssue
	var walk func(n, parent *TreeNode)
	walk = func(n, parent *TreeNode) {
		if issue != nil {
			return
		}
		got[key{n.T, n.S, n.E}]++
		r := rng{n.S, n.E}
		if n.S < n.E {
			count[r]++
		}
		if parent != nil {
			pr := rng{parent.S, parent.E}
			desc := fmt.Sprintf("node %s[%d,%d) is a child of %s[%d,%d)", n.T, n.S, n.E, parent.T, parent.S, parent.E)
			if n.S < n.E {
				switch {
				case !(pr.s <= r.s && r.e <= pr.e):
					issue = &NestIssue{"tree/child-not-inside-parent", desc, -1, -1}
				case pr == r:
					sameRangeChild[r]++
				case strictParent[r] != pr:
					sp := strictParent[r]
					issue = &NestIssue{"tree/not-attached-to-smallest-container", desc + fmt.Sprintf(" but the smallest reported container is [%d,%d)", sp.s, sp.e), -1, -1}
				}
			} else {
				if !(pr.s <= n.S && n.S <= pr.e) {
					issue = &NestIssue{"tree/empty-child-not-inside-parent", desc, -1, -1}
				} else if in, ok := interior(n.S); ok && !(in.s <= pr.s && pr.e <= in.e) {
					issue = &NestIssue{"tree/empty-node-not-attached-inside-its-container", desc + fmt.Sprintf(" but [%d,%d) contains the offset in its interior", in.s, in.e), -1, -1}
				}
			}
		} else if n.S < n.E {
			if sp := strictParent[r]; sp.s >= 0 {
				issue = &NestIssue{"tree/root-is-not-the-outermost-node", fmt.Sprintf("root %s[%d,%d) but [%d,%d) was reported", n.T, n.S, n.E, sp.s, sp.e), -1, -1}
			}
		}
		for i, c := range n.Children {
			if i > 0 {
				a := n.Children[i-1]
				bad := a.S > c.S
				if a.S < a.E && a.E > c.S {
					bad = true
				}
				if bad && issue == nil {
					issue = &NestIssue{"tree/siblings-out-of-source-order", fmt.Sprintf("children of %s[%d,%d): %s[%d,%d) precedes %s[%d,%d)", n.T, n.S, n.E, a.T, a.S, a.E, c.T, c.S, c.E), -1, -1}
				}
			}
			walk(c, n)
		}
	}
	walk(root, nil)
	if issue != nil {
		return issue, nil
	}
	var dropped []genrun.Event
	for k, w := range want {
		if k.s == k.e && k.s == root.E && got[k] < w {
			for i := got[k]; i < w; i++ {
				dropped = append(dropped, genrun.Event{T: k.t, S: k.s, E: k.e})
			}
		}
	}
	if len(dropped) > 0 {
		sort.Slice(dropped, func(i, j int) bool { return dropped[i].T < dropped[j].T })
		return nil, dropped
	}
	for k, w := range want {
		if got[k] != w {
			sig := "tree/node-missing"
			if got[k] > w {
				sig = "tree/node-duplicated"
			}
			return &NestIssue{sig, fmt.Sprintf("node %s[%d,%d): reported %d times, %d times in the tree", k.t, k.s, k.e, w, got[k]), -1, -1}, nil
		}
	}
	for k, g := range got {
		if want[k] == 0 {
			return &NestIssue{"tree/node-not-reported", fmt.Sprintf("tree node %s[%d,%d) (x%d) was never reported", k.t, k.s, k.e, g), -1, -1}, nil
		}
	}
	for r, n := range count {
		if n > 1 && sameRangeChild[r] != n-1 {
			return &NestIssue{"tree/equal-range-nodes-not-chained", fmt.Sprintf("%d nodes with range [%d,%d) but %d of them hang below a node of the same range", n, r.s, r.e, sameRangeChild[r]), -1, -1}, nil
		}
	}
	return nil, nil
}

// TreeString prints a tree compactly (for reports).
func TreeString(n *TreeNode) string {
	var b strings.Builder
	var rec func(n *TreeNode, d int)
	rec = func(n *TreeNode, d int) {
		if b.Len() > 6000 {
			return
		}
		fmt.Fprintf(&b, "%s%s[%d,%d)\n", strings.Repeat("  ", d), n.T, n.S, n.E)
		for _, c := range n.Children {
			rec(c, d+1)
		}
	}
	rec(n, 0)
	return b.String()
}
