package recgram

import (
	"fmt"
	"math/rand"

	"verif/internal/cfg"
	"verif/internal/gram"
)

// FromCFG converts a plain random CFG (gram.RandCFG) into a recovery grammar by
// adding 1-3 alternatives that use 'error' in hostile places: bare, in front of
// or behind a terminal, between two terminals, in front of a nonterminal, or as
// a "broken copy" of an existing rule with a stretch replaced by error.
func FromCFG(r *rand.Rand, pg *gram.PGrammar) *Grammar {
	b := newBuilder(r, "random")
	c := pg.CFG
	for _, t := range c.Terms {
		b.term(t)
	}
	for _, n := range c.Nonterms {
		b.nonterm(n)
	}
	conv := func(rhs []cfg.Sym) []Sym {
		var out []Sym
		for _, s := range rhs {
			if s.T {
				out = append(out, Sym{T, s.I})
			} else {
				out = append(out, Sym{N, s.I})
			}
		}
		return out
	}
	for _, ru := range c.Rules {
		b.rule(ru.LHS, conv(ru.RHS)...)
	}
	nT, nN := len(c.Terms), len(c.Nonterms)
	rt := func() Sym { return Sym{T, r.Intn(nT)} }
	for k := 1 + r.Intn(3); k > 0; k-- {
		nt := r.Intn(nN)
		switch r.Intn(7) {
		case 0:
			b.rule(nt, errSym)
			b.feature("err:bare")
		case 1:
			b.rule(nt, errSym, rt())
			b.feature("err:before-term")
		case 2:
			b.rule(nt, rt(), errSym)
			b.feature("err:after-term")
		case 3:
			b.rule(nt, rt(), errSym, rt())
			b.feature("err:between-terms")
		case 4:
			b.rule(nt, errSym, Sym{N, r.Intn(nN)})
			b.feature("err:before-nonterm")
		default:
			rules := c.RulesOf(nt)
			if len(rules) == 0 {
				continue
			}
			src := conv(c.Rules[rules[r.Intn(len(rules))]].RHS)
			if len(src) == 0 {
				b.rule(nt, errSym)
				b.feature("err:bare")
				continue
			}
			from := r.Intn(len(src))
			to := from + 1 + r.Intn(len(src)-from)
			var rhs []Sym
			rhs = append(rhs, src[:from]...)
			rhs = append(rhs, errSym)
			rhs = append(rhs, src[to:]...)
			b.rule(nt, rhs...)
			b.feature("err:broken-copy")
		}
	}
	dedupRules(b.g)
	// mid-rule actions create nullable helper nonterminals with LR(0) reductions
	if r.Intn(2) == 0 {
		na := 0
		for i := range b.g.Rules {
			ru := &b.g.Rules[i]
			if len(ru.RHS) > 0 && r.Intn(5) == 0 {
				ru.Deco = map[int]string{r.Intn(len(ru.RHS)): fmt.Sprintf("{ vlog(\"act%d\") }", na)}
				na++
			}
		}
		if na > 0 {
			b.feature("mid-rule-actions")
		}
	}
	for _, in := range pg.Inputs {
		b.g.Inputs = append(b.g.Inputs, gram.Input{NT: in.NT, NoEoi: false})
	}
	b.annotate(0.6, 0.3, 0.15)
	return b.g
}
