package xgram

import (
	"context"
	"fmt"
	"strings"

	"github.com/inspirer/textmapper/compiler"
	"github.com/inspirer/textmapper/grammar"
	"github.com/inspirer/textmapper/status"
	"github.com/inspirer/textmapper/syntax"
)

// Observed is what the compiler produced for one grammar.
type Observed struct {
	G      *grammar.Grammar
	Err    error
	Errors []string // all messages (without positions)
	// Early lists the messages of errors raised before table generation (anything
	// but LALR conflict / lookahead-ordering diagnostics).
	Early    []string
	HasRules bool
	CFG      *CFG
	ByName   map[string]int // nonterminal name -> index in CFG.Names
	Terms    []string       // terminal names by symbol index
	NotPlain []string       // rule values that still contain extended notation
}

func lalrStage(msg string) bool {
	return strings.Contains(msg, "conflict") ||
		strings.HasPrefix(msg, "Lookaheads must use mutually exclusive") ||
		strings.HasPrefix(msg, "Found an lr0 marker")
}

// Compile runs compiler.Compile and extracts the plain rules.
func Compile(name, text string) *Observed {
	o := &Observed{ByName: map[string]int{}}
	g, err := compiler.Compile(context.Background(), name, text, compiler.Params{})
	o.G, o.Err = g, err
	switch e := err.(type) {
	case nil:
	case status.Status:
		for _, x := range e {
			o.Errors = append(o.Errors, x.Msg)
		}
	default:
		o.Errors = append(o.Errors, err.Error())
	}
	for _, m := range o.Errors {
		if !lalrStage(m) {
			o.Early = append(o.Early, m)
		}
	}
	if g == nil || g.Parser == nil || len(g.Parser.Rules) == 0 {
		return o
	}
	o.HasRules = true
	nt := g.NumTokens
	for i := 0; i < nt; i++ {
		o.Terms = append(o.Terms, g.Syms[i].Name)
	}
	c := &CFG{NT: nt}
	for i := nt; i < len(g.Syms); i++ {
		o.ByName[g.Syms[i].Name] = len(c.Names)
		c.Names = append(c.Names, g.Syms[i].Name)
	}
	for _, r := range g.Parser.Rules {
		rule := CFGRule{LHS: int(r.LHS) - nt}
		for _, s := range r.RHS {
			if s.IsStateMarker() {
				continue
			}
			rule.RHS = append(rule.RHS, int(s))
		}
		c.Rules = append(c.Rules, rule)
		if k := notPlain(r.Value, true); k != "" {
			o.NotPlain = append(o.NotPlain, fmt.Sprintf("%s: %s", g.Syms[r.LHS].Name, k))
		}
	}
	o.CFG = c
	return o
}

// notPlain returns the kind of the first piece of extended notation left in a
// rule value ("" when the rule consists of references, markers, commands and
// their arrow/assignment/precedence wrappers only).
func notPlain(e *syntax.Expr, top bool) string {
	if e == nil {
		return "nil"
	}
	switch e.Kind {
	case syntax.Empty, syntax.Reference, syntax.StateMarker, syntax.Command:
		return ""
	case syntax.Lookahead:
		if top {
			return ""
		}
		return "Lookahead"
	case syntax.Choice:
		// mid-rule action nonterminals carry Choice{Command}
		if top && len(e.Sub) == 1 && e.Sub[0].Kind == syntax.Command {
			return ""
		}
		return "Choice"
	case syntax.Sequence, syntax.Arrow, syntax.Assign, syntax.Append, syntax.Prec:
		for _, s := range e.Sub {
			if k := notPlain(s, false); k != "" {
				return k
			}
		}
		return ""
	}
	return e.Kind.GoString()
}

// NontermSpan returns the source span recorded for a nonterminal (ok = false
// when there is none).
func (o *Observed) NontermSpan(i int) (start, end int, ok bool) {
	nts := o.G.Parser.Nonterms
	if i < 0 || i >= len(nts) || nts[i].Origin == nil {
		return 0, 0, false
	}
	r := nts[i].Origin.SourceRange()
	return r.Offset, r.EndOffset, true
}
