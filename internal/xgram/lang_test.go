package xgram

import (
	"math/rand"
	"testing"
)

// member decides w ∈ L(start) by a chart over substrings iterated to a
// fixpoint (handles ε-rules and unit cycles); independent of Enumerate, which
// generates words bottom-up instead of recognising them.
func member(g *CFG, start int, w []int) bool {
	n := len(w)
	nsym := g.NT + len(g.Names)
	T := make([][][]bool, nsym)
	for x := range T {
		T[x] = make([][]bool, n+1)
		for i := range T[x] {
			T[x][i] = make([]bool, n+1)
		}
	}
	for i, t := range w {
		T[t][i][i+1] = true
	}
	for changed := true; changed; {
		changed = false
		for _, r := range g.Rules {
			lhs := g.NT + r.LHS
			for i := 0; i <= n; i++ {
				cur := make([]bool, n+1)
				cur[i] = true
				for _, x := range r.RHS {
					next := make([]bool, n+1)
					for p := i; p <= n; p++ {
						if !cur[p] {
							continue
						}
						for q := p; q <= n; q++ {
							if T[x][p][q] {
								next[q] = true
							}
						}
					}
					cur = next
				}
				for j := i; j <= n; j++ {
					if cur[j] && !T[lhs][i][j] {
						T[lhs][i][j] = true
						changed = true
					}
				}
			}
		}
	}
	return T[g.NT+start][0][n]
}

func TestEnumerateAgainstRecogniser(t *testing.T) {
	r := rand.New(rand.NewSource(7))
	words := 0
	for iter := 0; iter < 1500; iter++ {
		g := &CFG{NT: 2 + r.Intn(2)}
		n := 1 + r.Intn(4)
		for i := 0; i < n; i++ {
			g.Names = append(g.Names, string(rune('A'+i)))
		}
		for i := 0; i < n; i++ {
			for k := 1 + r.Intn(3); k > 0; k-- {
				var rhs []int
				for l := r.Intn(4); l > 0; l-- {
					if r.Intn(2) == 0 {
						rhs = append(rhs, r.Intn(g.NT))
					} else {
						rhs = append(rhs, g.NT+r.Intn(n))
					}
				}
				g.Rules = append(g.Rules, CFGRule{LHS: i, RHS: rhs})
			}
		}
		const L = 5
		langs := g.Enumerate(L)
		// all words over the alphabet up to length L
		var all [][]int
		var rec func(cur []int)
		rec = func(cur []int) {
			all = append(all, append([]int(nil), cur...))
			if len(cur) == L {
				return
			}
			for t := 0; t < g.NT; t++ {
				rec(append(cur, t))
			}
		}
		rec(nil)
		for nt := 0; nt < n; nt++ {
			for _, w := range all {
				want := member(g, nt, w)
				if got := langs[nt].Has(WordOf(w...)); got != want {
					t.Fatalf("iter %d: nonterminal %s word %v: Enumerate says %v, recogniser says %v\n%s", iter, g.Names[nt], w, got, want, g.Format([]string{"a", "b", "c"}))
				}
				if want {
					words++
				}
			}
			if langs[nt].Size() > len(all) {
				t.Fatalf("iter %d: language larger than the universe", iter)
			}
		}
	}
	if words < 10000 {
		t.Fatalf("only %d member words seen", words)
	}
}

func TestWordPacking(t *testing.T) {
	w := WordOf(0, 3, 14)
	if w.Len() != 3 || WordOf().Len() != 0 {
		t.Fatal("len")
	}
	v := WordOf(2)
	c := w.Cat(v)
	s := c.Syms()
	if len(s) != 4 || s[0] != 0 || s[1] != 3 || s[2] != 14 || s[3] != 2 {
		t.Fatal(s)
	}
}
