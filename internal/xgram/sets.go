package xgram

import "fmt"

// Reference token-set semantics.
//
// first/last/follow/precede/any are the least solutions of the usual
// equations over the plain rules reachable from the first input that ends with
// eoi (lookahead markers pull in their target nonterminals, in-rule sets pull
// in the nonterminals they name), with set nonterminals contributing the value
// of their set and counting as non-nullable. Set expressions add ∪, ∩ and ∁
// over all terminals; named sets may refer to each other. The whole system is
// solved by Kleene iteration from ∅, component by component; a complement
// that can reach itself through the dependencies has no least solution and is
// an error.

// SetResult holds the reference values (bit i = terminal i).
type SetResult struct {
	ComplementCycle bool
	Named           []uint32
	Asserts         []uint32
	RuleSets        []uint32       // per Grammar.RuleSets entry
	ByNonterm       map[int]uint32 // set nonterminal index -> value
	FollowError     uint32
	HasEoiInput     bool
	Reachable       []bool
	Nullable        []bool
}

type eqKind int

const (
	eqUnion eqKind = iota
	eqInter
	eqCompl
)

type eqNode struct {
	kind eqKind
	base uint32
	deps []int
}

type opSym struct {
	op  SetOp
	sym int
}

type setSolver struct {
	p        *Plain
	nodes    []eqNode
	bySym    map[opSym]int
	bySet    map[*RSet]int
	byNamed  map[int]int
	nullable []bool // per plain nonterminal
	reach    []bool
	defs     [][]int // nonterminal -> rule indices (reachable only)
	uses     map[int][][2]int
}

// SolveSets evaluates every set of the grammar.
func (p *Plain) SolveSets() *SetResult {
	s := &setSolver{p: p, bySym: map[opSym]int{}, bySet: map[*RSet]int{}, byNamed: map[int]int{}, uses: map[int][][2]int{}}
	s.computeNullable()
	res := &SetResult{ByNonterm: map[int]uint32{}}
	res.HasEoiInput = s.computeReach()
	res.Reachable = s.reach
	res.Nullable = s.nullable
	s.defs = make([][]int, len(p.Nonterms))
	for ri, r := range p.Rules {
		if !s.reach[r.LHS] {
			continue
		}
		s.defs[r.LHS] = append(s.defs[r.LHS], ri)
		for pos, sym := range r.RHS {
			s.uses[sym] = append(s.uses[sym], [2]int{ri, pos})
		}
	}
	var roots []int
	for _, e := range p.Named {
		roots = append(roots, s.setNode(e))
	}
	for _, e := range p.Asserts {
		roots = append(roots, s.setNode(e))
	}
	for _, idx := range p.RuleSet {
		roots = append(roots, s.setNode(p.Nonterms[idx].Set))
	}
	errFollow := -1
	if p.G.HasError {
		errFollow = s.symNode(SFollow, p.G.TermID(p.G.ErrorSym()))
	}
	vals, cyc := s.solve()
	if cyc {
		res.ComplementCycle = true
		return res
	}
	k := 0
	for range p.Named {
		res.Named = append(res.Named, vals[roots[k]])
		k++
	}
	for range p.Asserts {
		res.Asserts = append(res.Asserts, vals[roots[k]])
		k++
	}
	for _, idx := range p.RuleSet {
		res.RuleSets = append(res.RuleSets, vals[roots[k]])
		res.ByNonterm[idx] = vals[roots[k]]
		k++
	}
	if errFollow >= 0 {
		res.FollowError = vals[errFollow]
	}
	return res
}

func (s *setSolver) computeNullable() {
	p := s.p
	s.nullable = make([]bool, len(p.Nonterms))
	for changed := true; changed; {
		changed = false
		for _, r := range p.Rules {
			if s.nullable[r.LHS] || p.Nonterms[r.LHS].Kind == PSet {
				continue
			}
			all := true
			for _, sym := range r.RHS {
				if sym < p.NT || !s.nullable[sym-p.NT] {
					all = false
					break
				}
			}
			if all {
				s.nullable[r.LHS] = true
				changed = true
			}
		}
	}
}

func (s *setSolver) symNullable(sym int) bool { return sym >= s.p.NT && s.nullable[sym-s.p.NT] }

// computeReach marks the nonterminals whose rules take part in the set
// equations; reports whether there is an input with eoi at all.
func (s *setSolver) computeReach() bool {
	p := s.p
	s.reach = make([]bool, len(p.Nonterms))
	start := -1
	for _, in := range p.Inputs {
		if !in.NoEoi {
			start = in.Nonterm
			break
		}
	}
	if start < 0 {
		return false
	}
	rulesOf := make([][]int, len(p.Nonterms))
	for ri, r := range p.Rules {
		rulesOf[r.LHS] = append(rulesOf[r.LHS], ri)
	}
	stack := []int{start}
	s.reach[start] = true
	push := func(nt int) {
		if !s.reach[nt] {
			s.reach[nt] = true
			stack = append(stack, nt)
		}
	}
	for len(stack) > 0 {
		nt := stack[len(stack)-1]
		stack = stack[:len(stack)-1]
		switch p.Nonterms[nt].Kind {
		case PLook:
			for _, t := range p.Nonterms[nt].Look {
				push(t)
			}
		case PSet:
			seenNamed := map[int]bool{}
			var visit func(e *RSet)
			visit = func(e *RSet) {
				switch e.Op {
				case SAny, SFirst, SLast, SPrecede, SFollow:
					if e.Sym >= p.NT {
						push(e.Sym - p.NT)
					}
				case SNamed:
					if !seenNamed[e.Named] {
						seenNamed[e.Named] = true
						visit(p.Named[e.Named])
					}
				default:
					for _, c := range e.Sub {
						visit(c)
					}
				}
			}
			visit(p.Nonterms[nt].Set)
		default:
			for _, ri := range rulesOf[nt] {
				for _, sym := range p.Rules[ri].RHS {
					if sym >= p.NT {
						push(sym - p.NT)
					}
				}
			}
		}
	}
	return true
}

func (s *setSolver) newNode(k eqKind) int {
	s.nodes = append(s.nodes, eqNode{kind: k})
	return len(s.nodes) - 1
}

func (s *setSolver) setNode(e *RSet) int {
	if n, ok := s.bySet[e]; ok {
		return n
	}
	switch e.Op {
	case SAny, SFirst, SLast, SPrecede, SFollow:
		n := s.symNode(e.Op, e.Sym)
		s.bySet[e] = n
		return n
	case SNamed:
		if n, ok := s.byNamed[e.Named]; ok {
			s.bySet[e] = n
			return n
		}
		// allocate first: named sets may be recursive
		n := s.newNode(eqUnion)
		s.byNamed[e.Named] = n
		s.bySet[e] = n
		root := s.p.Named[e.Named]
		if r, ok := s.bySet[root]; ok {
			s.nodes[n].deps = append(s.nodes[n].deps, r)
		} else {
			s.nodes[n].deps = append(s.nodes[n].deps, s.setNode(root))
		}
		return n
	case SUnion, SInter, SCompl:
		kind := map[SetOp]eqKind{SUnion: eqUnion, SInter: eqInter, SCompl: eqCompl}[e.Op]
		n := s.newNode(kind)
		s.bySet[e] = n
		for _, c := range e.Sub {
			d := s.setNode(c)
			s.nodes[n].deps = append(s.nodes[n].deps, d)
		}
		return n
	}
	panic(fmt.Sprintf("xgram: bad set op %d", e.Op))
}

func (s *setSolver) symNode(op SetOp, sym int) int {
	key := opSym{op, sym}
	if n, ok := s.bySym[key]; ok {
		return n
	}
	n := s.newNode(eqUnion)
	s.bySym[key] = n
	p := s.p
	add := func(d int) { s.nodes[n].deps = append(s.nodes[n].deps, d) }
	switch op {
	case SAny, SFirst, SLast:
		if sym < p.NT {
			s.nodes[n].base = 1 << uint(sym)
			return n
		}
		nt := sym - p.NT
		if !s.reach[nt] {
			return n
		}
		if p.Nonterms[nt].Kind == PSet {
			add(s.setNode(p.Nonterms[nt].Set))
			return n
		}
		for _, ri := range s.defs[nt] {
			rhs := p.Rules[ri].RHS
			switch op {
			case SAny:
				for _, y := range rhs {
					add(s.symNode(SAny, y))
				}
			case SFirst:
				for _, y := range rhs {
					add(s.symNode(SFirst, y))
					if !s.symNullable(y) {
						break
					}
				}
			case SLast:
				for i := len(rhs) - 1; i >= 0; i-- {
					add(s.symNode(SLast, rhs[i]))
					if !s.symNullable(rhs[i]) {
						break
					}
				}
			}
		}
	case SFollow:
		for _, u := range s.uses[sym] {
			r := p.Rules[u[0]]
			closed := false
			for i := u[1] + 1; i < len(r.RHS); i++ {
				add(s.symNode(SFirst, r.RHS[i]))
				if !s.symNullable(r.RHS[i]) {
					closed = true
					break
				}
			}
			if !closed {
				add(s.symNode(SFollow, p.sym(r.LHS)))
			}
		}
	case SPrecede:
		for _, u := range s.uses[sym] {
			r := p.Rules[u[0]]
			closed := false
			for i := u[1] - 1; i >= 0; i-- {
				add(s.symNode(SLast, r.RHS[i]))
				if !s.symNullable(r.RHS[i]) {
					closed = true
					break
				}
			}
			if !closed {
				add(s.symNode(SPrecede, p.sym(r.LHS)))
			}
		}
	}
	return n
}

// solve returns the least solution, or cyc = true when a complement depends on itself.
func (s *setSolver) solve() (vals []uint32, cyc bool) {
	n := len(s.nodes)
	full := uint32(1)<<uint(s.p.NT) - 1
	// Tarjan's strongly connected components; components are emitted
	// dependencies-first because edges point from a node to what it needs.
	index := make([]int, n)
	low := make([]int, n)
	onStack := make([]bool, n)
	comp := make([]int, n)
	for i := range index {
		index[i] = -1
		comp[i] = -1
	}
	var stack []int
	var comps [][]int
	counter := 0
	type frame struct{ v, i int }
	for root := 0; root < n; root++ {
		if index[root] >= 0 {
			continue
		}
		work := []frame{{root, 0}}
		index[root], low[root] = counter, counter
		counter++
		stack = append(stack, root)
		onStack[root] = true
		for len(work) > 0 {
			f := &work[len(work)-1]
			v := f.v
			if f.i < len(s.nodes[v].deps) {
				w := s.nodes[v].deps[f.i]
				f.i++
				if index[w] < 0 {
					index[w], low[w] = counter, counter
					counter++
					stack = append(stack, w)
					onStack[w] = true
					work = append(work, frame{w, 0})
				} else if onStack[w] && index[w] < low[v] {
					low[v] = index[w]
				}
				continue
			}
			work = work[:len(work)-1]
			if len(work) > 0 {
				u := work[len(work)-1].v
				if low[v] < low[u] {
					low[u] = low[v]
				}
			}
			if low[v] == index[v] {
				var c []int
				for {
					w := stack[len(stack)-1]
					stack = stack[:len(stack)-1]
					onStack[w] = false
					comp[w] = len(comps)
					c = append(c, w)
					if w == v {
						break
					}
				}
				comps = append(comps, c)
			}
		}
	}
	for v, nd := range s.nodes {
		if nd.kind != eqCompl {
			continue
		}
		d := nd.deps[0]
		if d == v || comp[d] == comp[v] {
			return nil, true
		}
	}
	vals = make([]uint32, n)
	for _, c := range comps {
		for changed := true; changed; {
			changed = false
			for _, v := range c {
				nd := s.nodes[v]
				var nv uint32
				switch nd.kind {
				case eqUnion:
					nv = nd.base
					for _, d := range nd.deps {
						nv |= vals[d]
					}
				case eqInter:
					nv = full
					for _, d := range nd.deps {
						nv &= vals[d]
					}
				case eqCompl:
					nv = ^vals[nd.deps[0]] & full
				}
				if nv != vals[v] {
					vals[v] = nv
					changed = true
				}
			}
		}
	}
	return vals, false
}
