package xgram

// Kind enumerates the forms of the extended notation.
type Kind int

// Expression kinds.
const (
	KTerm   Kind = iota // terminal reference: Sym = index in Grammar.Terms
	KRef                // nonterminal reference: Sym = index in Grammar.Nonterms, Args
	KOptRef             // "Xopt" auto-instantiated optional: Sym (+IsTerm), Args
	KSeq                // Sub... (printed in parentheses when nested)
	KOpt                // Sub[0]?
	KChoice             // ( alt | alt ... )
	KStar               // Sub[0]*
	KPlus               // Sub[0]+
	KList               // (Sub... separator Sep...)+ or *
	KSet                // set(Set)
	KLook               // (?= A & !B)
	KMarker             // .Name
	KCmd                // { code }
)

// Expr is a right-hand side part.
type Expr struct {
	Kind   Kind
	Sub    []*Expr
	Alts   []*Alt // KChoice
	Sym    int
	IsTerm bool // KOptRef on a terminal
	Args   []Arg
	Sep    []int // KList: separator terminals
	Plus   bool  // KList: + (true) or * (false)
	RR     bool  // lists: right-recursive (only expressible through syntax.Model)
	Set    *SetExpr
	SetID  int // KSet: index in Grammar.RuleSets (filled by Finish)
	LA     []LAPred
	Name   string // marker name, command text
	Assign string // "x=" / "x+=" prefix (printing only, symbols and sets)
}

// Alt is one alternative of a nonterminal or of a nested choice.
type Alt struct {
	Pred      *Pred
	Parts     []*Expr
	EmptyMark bool   // print %empty (only when there are no symbol parts)
	Arrow     string // "-> Name" suffix (printing only)
}

// LAPred is one predicate of a lookahead marker.
type LAPred struct {
	Nonterm int
	Not     bool
}

// ArgMode says how an argument gets its value.
type ArgMode int

// Argument forms.
const (
	ArgPlus     ArgMode = iota // +P
	ArgMinus                   // ~P
	ArgValTrue                 // P: true
	ArgValFalse                // P: false
	ArgFrom                    // P: Q
	ArgSame                    // P   (same-named parameter of the context)
)

// Arg is an explicit template argument.
type Arg struct {
	Param int // index in Grammar.Params (a declared parameter of the target, or a lookahead flag)
	Mode  ArgMode
	From  int // ArgFrom: index in Grammar.Params of the source (declared in the context, or a lookahead flag)
}

// Param is a template parameter. Global parameters come first in
// Grammar.Params (declaration order), then inline parameters in nonterminal order.
type Param struct {
	Name    string
	Keyword string // "flag" or "param"
	Default string // "", "true", "false"
	LA      bool   // %lookahead flag
	Inline  bool
}

// PredOp is a predicate operator.
type PredOp int

// Predicate forms. The concrete syntax has no parentheses: a predicate is a
// disjunction of conjunctions of primaries.
const (
	PParam PredOp = iota // P
	PNot                 // !P
	PEq                  // P == "lit"
	PNe                  // P != "lit"
	PAnd
	POr
)

// Pred is a predicate over the parameters of the enclosing nonterminal.
type Pred struct {
	Op    PredOp
	Param int
	Lit   string
	Sub   []*Pred
}

// Nonterm is a (possibly templated) nonterminal.
type Nonterm struct {
	Name     string
	Type     string // optional {type} of the semantic value
	Params   []int  // indices in Grammar.Params, in declaration order
	Alts     []*Alt
	ExtendAt int    // if > 0, alternatives [ExtendAt:] are printed in an "extend" clause
	Arrow    string // "-> Name" default report clause (printing only)
}

// Input is a start symbol.
type Input struct {
	Nonterm int
	NoEoi   bool
}

// SetOp is a token set operator.
type SetOp int

// Set expression forms.
const (
	SAny SetOp = iota
	SFirst
	SLast
	SPrecede
	SFollow
	SUnion
	SInter
	SCompl
	SNamed // reference to a %generate set
)

// SetExpr is a token set expression.
type SetExpr struct {
	Op     SetOp
	Sym    int
	IsTerm bool
	Args   []Arg
	Sub    []*SetExpr
	Named  int // SNamed: index in Grammar.Named
}

// NamedSet is a %generate directive.
type NamedSet struct {
	Name string
	Expr *SetExpr
}

// Assert is an %assert directive.
type Assert struct {
	Empty bool
	Expr  *SetExpr
}

// Grammar is an abstract extended grammar.
type Grammar struct {
	Name       string
	Target     string   // "go" (default), "cc" or "ts"
	TermTypes  []string // optional {type} per user terminal
	Terms      []string // user terminals; symbol ids are 2+i (0 = eoi, 1 = invalid_token)
	HasError   bool     // declares the 'error' terminal (id 2+len(Terms))
	EventBased bool
	Params     []Param
	Nonterms   []*Nonterm
	Inputs     []Input
	Named      []*NamedSet
	Asserts    []Assert

	// Colliding is the number of injected in-rule sets that share one flattened
	// spelling but differ in bracketing (see GenConfig.CollidingSets).
	Colliding int

	// RuleSets lists the in-rule set(...) occurrences in source order (filled by Finish).
	RuleSets []*Expr
}

// ErrorSym is the index used in Expr.Sym / SetExpr.Sym for the 'error' terminal.
func (g *Grammar) ErrorSym() int { return len(g.Terms) }

// TermID maps a KTerm Sym to the terminal id used in plain rules.
func (g *Grammar) TermID(sym int) int { return 2 + sym }

// NumTerms is the size of the terminal universe (eoi, invalid_token, user terminals, error).
func (g *Grammar) NumTerms() int {
	n := 2 + len(g.Terms)
	if g.HasError {
		n++
	}
	return n
}

// TermNames returns the names of all terminals by id.
func (g *Grammar) TermNames() []string {
	out := []string{"eoi", "invalid_token"}
	out = append(out, g.Terms...)
	if g.HasError {
		out = append(out, "error")
	}
	return out
}

// Walk visits e and all nested expressions (including choice alternatives).
func (e *Expr) Walk(f func(*Expr)) {
	f(e)
	for _, s := range e.Sub {
		s.Walk(f)
	}
	for _, a := range e.Alts {
		for _, p := range a.Parts {
			p.Walk(f)
		}
	}
}

// WalkAll visits every expression of the grammar in source order.
func (g *Grammar) WalkAll(f func(nt *Nonterm, e *Expr)) {
	for _, nt := range g.Nonterms {
		for _, a := range nt.Alts {
			for _, p := range a.Parts {
				p.Walk(func(e *Expr) { f(nt, e) })
			}
		}
	}
}

// Finish numbers the in-rule sets in the order the compiler meets them.
//
// The loader converts nonterminals in source order, where the alternatives of
// an "extend" clause are converted when the clause is met (after all the
// nonterminals declared before it).
func (g *Grammar) Finish() {
	g.RuleSets = nil
	visit := func(alts []*Alt) {
		for _, a := range alts {
			for _, p := range a.Parts {
				p.Walk(func(e *Expr) {
					if e.Kind == KSet {
						e.SetID = len(g.RuleSets)
						g.RuleSets = append(g.RuleSets, e)
					}
				})
			}
		}
	}
	for _, nt := range g.Nonterms {
		visit(nt.Alts)
	}
}
