package xgram

import (
	"fmt"
	"strings"
)

// Printed is the .tm source of a grammar plus the byte spans of its in-rule sets.
type Printed struct {
	Text string
	// SetSpan[i] = [start, end) of the i-th in-rule "set(...)" (Grammar.RuleSets order).
	SetSpan [][2]int
}

type printer struct {
	g *Grammar
	b strings.Builder
	p *Printed
}

// Print renders the grammar as Textmapper source: a generated lexer section
// with one literal token per terminal, then the parser section.
func (g *Grammar) Print() *Printed {
	g.Finish()
	pr := &printer{g: g, p: &Printed{SetSpan: make([][2]int, len(g.RuleSets))}}
	b := &pr.b
	name := g.Name
	if name == "" {
		name = "gen"
	}
	target := g.Target
	if target == "" {
		target = "go"
	}
	fmt.Fprintf(b, "language %s(%s);\n\n", name, target)
	if target == "cc" {
		fmt.Fprintf(b, "namespace = %q\n\n", name)
	}
	if g.EventBased && target == "go" {
		b.WriteString("eventBased = true\n\n")
	}
	b.WriteString(":: lexer\n\n")
	for i, t := range g.Terms {
		if i < len(g.TermTypes) && g.TermTypes[i] != "" {
			fmt.Fprintf(b, "%s {%s}: /%s/\n", t, g.TermTypes[i], t)
		} else {
			fmt.Fprintf(b, "%s: /%s/\n", t, t)
		}
	}
	if g.HasError {
		b.WriteString("error:\n")
	}
	b.WriteString("\n:: parser\n\n")
	if len(g.Inputs) > 0 {
		b.WriteString("%input ")
		for i, in := range g.Inputs {
			if i > 0 {
				b.WriteString(", ")
			}
			b.WriteString(g.Nonterms[in.Nonterm].Name)
			if in.NoEoi {
				b.WriteString(" no-eoi")
			}
		}
		b.WriteString(";\n\n")
	}
	for _, p := range g.Params {
		if p.Inline {
			continue
		}
		b.WriteString("%")
		if p.LA {
			b.WriteString("lookahead ")
		}
		fmt.Fprintf(b, "%s %s", p.Keyword, p.Name)
		if p.Default != "" {
			fmt.Fprintf(b, " = %s", p.Default)
		}
		b.WriteString(";\n")
	}
	for _, s := range g.Named {
		fmt.Fprintf(b, "%%generate %s = set(", s.Name)
		pr.setExpr(s.Expr, 0)
		b.WriteString(");\n")
	}
	for _, a := range g.Asserts {
		if a.Empty {
			b.WriteString("%assert empty set(")
		} else {
			b.WriteString("%assert nonempty set(")
		}
		pr.setExpr(a.Expr, 0)
		b.WriteString(");\n")
	}
	b.WriteString("\n")
	var extends []*Nonterm
	for _, nt := range g.Nonterms {
		b.WriteString(nt.Name)
		if len(nt.Params) > 0 {
			b.WriteString("<")
			for i, pi := range nt.Params {
				if i > 0 {
					b.WriteString(", ")
				}
				p := g.Params[pi]
				if p.Inline {
					fmt.Fprintf(b, "%s %s", p.Keyword, p.Name)
					if p.Default != "" {
						fmt.Fprintf(b, " = %s", p.Default)
					}
				} else {
					b.WriteString(p.Name)
				}
			}
			b.WriteString(">")
		}
		if nt.Type != "" {
			fmt.Fprintf(b, " {%s}", nt.Type)
		}
		if nt.Arrow != "" {
			fmt.Fprintf(b, " -> %s", nt.Arrow)
		}
		b.WriteString(":\n    ")
		alts := nt.Alts
		if nt.ExtendAt > 0 && nt.ExtendAt < len(nt.Alts) {
			alts = nt.Alts[:nt.ExtendAt]
			extends = append(extends, nt)
		}
		pr.alts(alts, "\n  | ")
		b.WriteString("\n;\n\n")
	}
	for _, nt := range extends {
		fmt.Fprintf(b, "extend %s:\n    ", nt.Name)
		pr.alts(nt.Alts[nt.ExtendAt:], "\n  | ")
		b.WriteString("\n;\n\n")
	}
	pr.p.Text = b.String()
	return pr.p
}

func (pr *printer) alts(alts []*Alt, sep string) {
	for i, a := range alts {
		if i > 0 {
			pr.b.WriteString(sep)
		}
		pr.alt(a)
	}
}

func (pr *printer) alt(a *Alt) {
	b := &pr.b
	first := true
	sp := func() {
		if !first {
			b.WriteByte(' ')
		}
		first = false
	}
	if a.Pred != nil {
		sp()
		b.WriteString("[")
		pr.pred(a.Pred)
		b.WriteString("]")
	}
	empty := a.EmptyMark
	if pr.g.Target == "cc" {
		// the C++ target requires the marker on every alternative without symbols
		empty = true
		for _, p := range a.Parts {
			if !symbolFree(p) {
				empty = false
			}
		}
	}
	if empty {
		sp()
		b.WriteString("%empty")
	}
	for _, p := range a.Parts {
		sp()
		pr.part(p)
	}
	if a.Arrow != "" {
		sp()
		fmt.Fprintf(b, "-> %s", a.Arrow)
	}
}

func (pr *printer) pred(p *Pred) {
	b := &pr.b
	switch p.Op {
	case PParam:
		b.WriteString(pr.g.Params[p.Param].Name)
	case PNot:
		b.WriteString("!" + pr.g.Params[p.Param].Name)
	case PEq:
		fmt.Fprintf(b, "%s == %q", pr.g.Params[p.Param].Name, p.Lit)
	case PNe:
		fmt.Fprintf(b, "%s != %q", pr.g.Params[p.Param].Name, p.Lit)
	case PAnd:
		for i, s := range p.Sub {
			if i > 0 {
				b.WriteString(" && ")
			}
			if s.Op == POr || s.Op == PAnd {
				panic("xgram: predicate is not in disjunctive form")
			}
			pr.pred(s)
		}
	case POr:
		for i, s := range p.Sub {
			if i > 0 {
				b.WriteString(" || ")
			}
			if s.Op == POr {
				panic("xgram: predicate is not in disjunctive form")
			}
			pr.pred(s)
		}
	}
}

func (pr *printer) args(args []Arg) {
	if len(args) == 0 {
		return
	}
	b := &pr.b
	b.WriteString("<")
	for i, a := range args {
		if i > 0 {
			b.WriteString(", ")
		}
		n := pr.g.Params[a.Param].Name
		switch a.Mode {
		case ArgPlus:
			b.WriteString("+" + n)
		case ArgMinus:
			b.WriteString("~" + n)
		case ArgValTrue:
			b.WriteString(n + ": true")
		case ArgValFalse:
			b.WriteString(n + ": false")
		case ArgFrom:
			b.WriteString(n + ": " + pr.g.Params[a.From].Name)
		case ArgSame:
			b.WriteString(n)
		}
	}
	b.WriteString(">")
}

func (pr *printer) termName(sym int) string {
	if sym == len(pr.g.Terms) {
		return "error"
	}
	return pr.g.Terms[sym]
}

// primary prints e in a form accepted where the grammar wants an rhsPrimary.
func (pr *printer) primary(e *Expr) {
	switch e.Kind {
	case KTerm, KRef, KOptRef, KChoice, KStar, KPlus, KList, KSet:
		if e.Assign != "" {
			// assignments are not primaries
			pr.b.WriteString("(")
			pr.part(e)
			pr.b.WriteString(")")
			return
		}
		pr.part(e)
	default:
		pr.b.WriteString("(")
		if pr.g.Target == "cc" && symbolFree(e) {
			pr.b.WriteString("%empty ")
		}
		pr.part(e)
		pr.b.WriteString(")")
	}
}

// symbolFree: a group of state markers / commands only (an "empty alternative"
// for the C++ target, which wants the %empty marker there).
func symbolFree(e *Expr) bool {
	switch e.Kind {
	case KMarker, KCmd:
		return true
	case KSeq:
		for _, s := range e.Sub {
			if !symbolFree(s) {
				return false
			}
		}
		return true
	}
	return false
}

func (pr *printer) part(e *Expr) {
	b := &pr.b
	if e.Assign != "" {
		b.WriteString(e.Assign)
	}
	switch e.Kind {
	case KTerm:
		b.WriteString(pr.termName(e.Sym))
	case KRef:
		b.WriteString(pr.g.Nonterms[e.Sym].Name)
		pr.args(e.Args)
	case KOptRef:
		if e.IsTerm {
			b.WriteString(pr.termName(e.Sym) + "opt")
		} else {
			b.WriteString(pr.g.Nonterms[e.Sym].Name + "opt")
			pr.args(e.Args)
		}
	case KSeq:
		// Only reachable as an operand; primary() adds the parentheses. A bare
		// sequence inside an alternative is printed flat.
		for i, s := range e.Sub {
			if i > 0 {
				b.WriteByte(' ')
			}
			pr.part(s)
		}
	case KOpt:
		pr.primary(e.Sub[0])
		b.WriteString("?")
	case KChoice:
		b.WriteString("(")
		pr.alts(e.Alts, " | ")
		b.WriteString(")")
	case KStar:
		pr.primary(e.Sub[0])
		b.WriteString("*")
	case KPlus:
		pr.primary(e.Sub[0])
		b.WriteString("+")
	case KList:
		b.WriteString("(")
		if pr.g.Target == "cc" && symbolFree(&Expr{Kind: KSeq, Sub: e.Sub}) {
			b.WriteString("%empty ")
		}
		for i, s := range e.Sub {
			if i > 0 {
				b.WriteByte(' ')
			}
			pr.part(s)
		}
		b.WriteString(" separator")
		for _, s := range e.Sep {
			b.WriteString(" " + pr.termName(s))
		}
		if e.Plus {
			b.WriteString(")+")
		} else {
			b.WriteString(")*")
		}
	case KSet:
		start := b.Len()
		b.WriteString("set(")
		pr.setExpr(e.Set, 0)
		b.WriteString(")")
		pr.p.SetSpan[e.SetID] = [2]int{start, b.Len()}
	case KLook:
		b.WriteString("(?= ")
		for i, l := range e.LA {
			if i > 0 {
				b.WriteString(" & ")
			}
			if l.Not {
				b.WriteString("!")
			}
			b.WriteString(pr.g.Nonterms[l.Nonterm].Name)
		}
		b.WriteString(")")
	case KMarker:
		b.WriteString("." + e.Name)
	case KCmd:
		b.WriteString("{ " + e.Name + " }")
	}
}

// setExpr prints a set expression; level 0 = union allowed bare, 1 = intersection
// operand, 2 = complement operand (primary).
func (pr *printer) setExpr(s *SetExpr, level int) {
	b := &pr.b
	switch s.Op {
	case SAny, SFirst, SLast, SPrecede, SFollow:
		switch s.Op {
		case SFirst:
			b.WriteString("first ")
		case SLast:
			b.WriteString("last ")
		case SPrecede:
			b.WriteString("precede ")
		case SFollow:
			b.WriteString("follow ")
		}
		if s.IsTerm {
			b.WriteString(pr.termName(s.Sym))
		} else {
			b.WriteString(pr.g.Nonterms[s.Sym].Name)
			pr.args(s.Args)
		}
	case SNamed:
		b.WriteString(pr.g.Named[s.Named].Name)
	case SCompl:
		b.WriteString("~")
		pr.setExpr(s.Sub[0], 2)
	case SUnion:
		if level > 0 {
			b.WriteString("(")
		}
		for i, c := range s.Sub {
			if i > 0 {
				b.WriteString(" | ")
			}
			lv := 0
			if c.Op == SUnion {
				lv = 1 // keep the tree shape: nested unions are parenthesised
			}
			pr.setExpr(c, lv)
		}
		if level > 0 {
			b.WriteString(")")
		}
	case SInter:
		if level > 1 {
			b.WriteString("(")
		}
		for i, c := range s.Sub {
			if i > 0 {
				b.WriteString(" & ")
			}
			lv := 1
			if c.Op == SInter {
				lv = 2
			}
			pr.setExpr(c, lv)
		}
		if level > 1 {
			b.WriteString(")")
		}
	}
}
