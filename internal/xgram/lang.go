// Package xgram holds abstract extended grammars in the Textmapper notation
// (optionals, nested choices, lists, sets, lookaheads, template parameters), a
// printer to .tm source, an independent reference semantics (template
// instantiation, naive desugaring, token set fixpoints) and a bounded language
// enumerator over plain context-free rule lists.
package xgram

import (
	"fmt"
	"math/bits"
	"slices"
	"sort"
	"strings"
)

// Word is a terminal string packed four bits per symbol (symbol id + 1, most
// significant nibble first). The empty string is 0. Because no nibble of a
// packed string is zero the encoding is injective for ids 0..14 and lengths
// up to 16.
type Word uint64

// Len returns the number of symbols in w.
func (w Word) Len() int { return (bits.Len64(uint64(w)) + 3) / 4 }

// Cat concatenates w and v.
func (w Word) Cat(v Word) Word { return w<<(4*uint(v.Len())) | v }

// WordOf packs a sequence of terminal ids.
func WordOf(syms ...int) Word {
	var w Word
	for _, s := range syms {
		w = w<<4 | Word(s+1)
	}
	return w
}

// Syms unpacks w.
func (w Word) Syms() []int {
	n := w.Len()
	out := make([]int, n)
	for i := n - 1; i >= 0; i-- {
		out[i] = int(w&15) - 1
		w >>= 4
	}
	return out
}

// Format renders w with the given terminal names.
func (w Word) Format(names []string) string {
	if w == 0 {
		return "ε"
	}
	var parts []string
	for _, s := range w.Syms() {
		if s >= 0 && s < len(names) {
			parts = append(parts, names[s])
		} else {
			parts = append(parts, fmt.Sprintf("#%d", s))
		}
	}
	return strings.Join(parts, " ")
}

// Lang is a finite set of words, all of length <= some bound, bucketed by length.
type Lang struct {
	set   map[Word]struct{}
	byLen [][]Word
}

func newLang(maxLen int) *Lang {
	return &Lang{set: map[Word]struct{}{}, byLen: make([][]Word, maxLen+1)}
}

// Has reports membership.
func (l *Lang) Has(w Word) bool { _, ok := l.set[w]; return ok }

// Size returns the number of words.
func (l *Lang) Size() int { return len(l.set) }

func (l *Lang) add(w Word) bool {
	if _, ok := l.set[w]; ok {
		return false
	}
	l.set[w] = struct{}{}
	n := w.Len()
	l.byLen[n] = append(l.byLen[n], w)
	return true
}

// Words returns the words sorted by (length, value).
func (l *Lang) Words() []Word {
	var out []Word
	for _, b := range l.byLen {
		s := append([]Word(nil), b...)
		sort.Slice(s, func(i, j int) bool { return s[i] < s[j] })
		out = append(out, s...)
	}
	return out
}

// Diff returns words of l not in o (sorted), at most max of them.
func (l *Lang) Diff(o *Lang, max int) []Word {
	var out []Word
	for _, w := range l.Words() {
		if !o.Has(w) {
			out = append(out, w)
			if len(out) >= max {
				break
			}
		}
	}
	return out
}

// Equal reports set equality.
func (l *Lang) Equal(o *Lang) bool {
	if len(l.set) != len(o.set) {
		return false
	}
	for w := range l.set {
		if _, ok := o.set[w]; !ok {
			return false
		}
	}
	return true
}

// CFG is a plain context-free grammar: symbols 0..NT-1 are terminals, NT+i is
// nonterminal i.
type CFG struct {
	NT    int
	Names []string // nonterminal names
	Rules []CFGRule
}

// CFGRule is one production.
type CFGRule struct {
	LHS int   // nonterminal index
	RHS []int // symbols
}

// Enumerate computes, for every nonterminal, the exact set of terminal strings
// of length <= maxLen it derives. It is the least fixpoint of the rule
// equations in the semiring of languages truncated at maxLen (truncation is a
// homomorphism, so no string of length <= maxLen is lost; ε-cycles and unit
// cycles only repeat already known words). A worklist re-evaluates a rule
// whenever one of its right-hand side nonterminals has grown.
func (g *CFG) Enumerate(maxLen int) []*Lang {
	if g.NT > 15 || maxLen > 15 {
		panic("xgram: alphabet or length bound too large for packed words")
	}
	n := len(g.Names)
	langs := make([]*Lang, n)
	for i := range langs {
		langs[i] = newLang(maxLen)
	}
	users := make([][]int, n) // nonterminal -> rules using it
	for ri, r := range g.Rules {
		seen := map[int]bool{}
		for _, s := range r.RHS {
			if s >= g.NT && !seen[s] {
				seen[s] = true
				users[s-g.NT] = append(users[s-g.NT], ri)
			}
		}
	}
	inQueue := make([]bool, len(g.Rules))
	queue := make([]int, 0, len(g.Rules))
	for ri := range g.Rules {
		queue = append(queue, ri)
		inQueue[ri] = true
	}
	for len(queue) > 0 {
		ri := queue[0]
		queue = queue[1:]
		inQueue[ri] = false
		r := g.Rules[ri]
		// acc = concatenation of the languages of the RHS symbols, pruned by length.
		acc := [][]Word{{0}} // acc[len] = words of that length
		for len(acc) <= maxLen {
			acc = append(acc, nil)
		}
		dead := false
		for _, s := range r.RHS {
			next := make([][]Word, maxLen+1)
			if s < g.NT {
				t := Word(s + 1)
				for l := 0; l < maxLen; l++ {
					for _, u := range acc[l] {
						next[l+1] = append(next[l+1], u<<4|t)
					}
				}
			} else {
				sub := langs[s-g.NT]
				for l := 0; l <= maxLen; l++ {
					if len(acc[l]) == 0 {
						continue
					}
					for m := 0; l+m <= maxLen; m++ {
						sh := 4 * uint(m)
						for _, v := range sub.byLen[m] {
							for _, u := range acc[l] {
								next[l+m] = append(next[l+m], u<<sh|v)
							}
						}
					}
				}
				// different splits may give the same word
				for l := range next {
					next[l] = sortUnique(next[l])
				}
			}
			acc = next
			empty := true
			for _, b := range acc {
				if len(b) > 0 {
					empty = false
					break
				}
			}
			if empty {
				dead = true
				break
			}
		}
		if dead {
			continue
		}
		grown := false
		dst := langs[r.LHS]
		for _, b := range acc {
			for _, w := range b {
				if dst.add(w) {
					grown = true
				}
			}
		}
		if grown {
			for _, u := range users[r.LHS] {
				if !inQueue[u] {
					inQueue[u] = true
					queue = append(queue, u)
				}
			}
		}
	}
	return langs
}

func sortUnique(ws []Word) []Word {
	if len(ws) < 2 {
		return ws
	}
	slices.Sort(ws)
	out := ws[:1]
	for _, w := range ws[1:] {
		if w != out[len(out)-1] {
			out = append(out, w)
		}
	}
	return out
}

// Format renders the grammar (terminal names supplied by the caller).
func (g *CFG) Format(termNames []string) string {
	var b strings.Builder
	for _, r := range g.Rules {
		b.WriteString(g.Names[r.LHS])
		b.WriteString(" :")
		for _, s := range r.RHS {
			b.WriteByte(' ')
			if s < g.NT {
				if s < len(termNames) {
					b.WriteString(termNames[s])
				} else {
					fmt.Fprintf(&b, "#%d", s)
				}
			} else {
				b.WriteString(g.Names[s-g.NT])
			}
		}
		b.WriteString(" ;\n")
	}
	return b.String()
}
