package xgram

import (
	"fmt"

	"github.com/inspirer/textmapper/syntax"
)

// ToModel builds a syntax.Model the way the grammar loader would (same
// nesting and simplification conventions), which makes forms reachable that
// the concrete syntax cannot spell, namely right-recursive lists. Only
// template-free grammars without sets, opt-suffix references and commands
// are supported.
func ToModel(g *Grammar) *syntax.Model {
	m := &syntax.Model{}
	for _, t := range g.TermNames() {
		m.Terminals = append(m.Terminals, syntax.Terminal{Name: t})
	}
	nt := len(m.Terminals)
	for _, n := range g.Nonterms {
		m.Nonterms = append(m.Nonterms, &syntax.Nonterm{Name: n.Name})
	}
	for _, in := range g.Inputs {
		m.Inputs = append(m.Inputs, syntax.Input{Nonterm: in.Nonterm, NoEoi: in.NoEoi})
	}
	var part func(e *Expr) *syntax.Expr
	seq := func(parts []*Expr) *syntax.Expr {
		var subs []*syntax.Expr
		for _, p := range parts {
			out := part(p)
			if out.Kind != syntax.Empty {
				subs = append(subs, out)
			}
		}
		switch len(subs) {
		case 0:
			return &syntax.Expr{Kind: syntax.Empty}
		case 1:
			return subs[0]
		}
		return &syntax.Expr{Kind: syntax.Sequence, Sub: subs}
	}
	alts := func(as []*Alt) *syntax.Expr {
		var subs []*syntax.Expr
		for _, a := range as {
			subs = append(subs, seq(a.Parts))
		}
		switch len(subs) {
		case 0:
			return &syntax.Expr{Kind: syntax.Empty}
		case 1:
			return subs[0]
		}
		return &syntax.Expr{Kind: syntax.Choice, Sub: subs}
	}
	pos := 0
	nextPos := func() int { pos++; return pos }
	listFlags := func(e *Expr, plus bool) syntax.ListFlags {
		var f syntax.ListFlags
		if plus {
			f |= syntax.OneOrMore
		}
		if e.RR {
			f |= syntax.RightRecursive
		}
		return f
	}
	part = func(e *Expr) *syntax.Expr {
		switch e.Kind {
		case KTerm:
			return &syntax.Expr{Kind: syntax.Reference, Symbol: g.TermID(e.Sym), Pos: nextPos(), Model: m}
		case KRef:
			return &syntax.Expr{Kind: syntax.Reference, Symbol: nt + e.Sym, Pos: nextPos(), Model: m}
		case KSeq:
			return seq(e.Sub)
		case KOpt:
			return &syntax.Expr{Kind: syntax.Optional, Sub: []*syntax.Expr{part(e.Sub[0])}}
		case KChoice:
			return alts(e.Alts)
		case KStar, KPlus:
			return &syntax.Expr{Kind: syntax.List, Sub: []*syntax.Expr{part(e.Sub[0])}, ListFlags: listFlags(e, e.Kind == KPlus), Pos: nextPos()}
		case KList:
			var sep []*syntax.Expr
			for _, s := range e.Sep {
				sep = append(sep, &syntax.Expr{Kind: syntax.Reference, Symbol: g.TermID(s), Model: m})
			}
			var sepExpr *syntax.Expr
			if len(sep) == 1 {
				sepExpr = sep[0]
			} else {
				sepExpr = &syntax.Expr{Kind: syntax.Sequence, Sub: sep}
			}
			return &syntax.Expr{Kind: syntax.List, Sub: []*syntax.Expr{seq(e.Sub), sepExpr}, ListFlags: listFlags(e, e.Plus), Pos: nextPos()}
		case KLook:
			out := &syntax.Expr{Kind: syntax.Lookahead}
			for _, l := range e.LA {
				ref := &syntax.Expr{Kind: syntax.Reference, Symbol: nt + l.Nonterm, Model: m}
				if l.Not {
					ref = &syntax.Expr{Kind: syntax.LookaheadNot, Sub: []*syntax.Expr{ref}}
				}
				out.Sub = append(out.Sub, ref)
			}
			return out
		case KMarker:
			return &syntax.Expr{Kind: syntax.StateMarker, Name: e.Name}
		}
		panic(fmt.Sprintf("xgram: kind %d cannot be put into a syntax.Model", e.Kind))
	}
	for i, n := range g.Nonterms {
		pos = 0
		m.Nonterms[i].Value = alts(n.Alts)
	}
	return m
}

// ModelCFG reads the plain rules out of an expanded model. notPlain lists
// rules that still contain extended notation.
func ModelCFG(m *syntax.Model) (c *CFG, byName map[string]int, notPlainRules []string) {
	nt := len(m.Terminals)
	c = &CFG{NT: nt}
	byName = map[string]int{}
	for i, n := range m.Nonterms {
		byName[n.Name] = i
		c.Names = append(c.Names, n.Name)
	}
	for i, n := range m.Nonterms {
		switch n.Value.Kind {
		case syntax.Lookahead:
			c.Rules = append(c.Rules, CFGRule{LHS: i})
			continue
		case syntax.Choice:
		default:
			notPlainRules = append(notPlainRules, fmt.Sprintf("%s: top-level %s", n.Name, n.Value.Kind.GoString()))
			continue
		}
		for _, alt := range n.Value.Sub {
			r := CFGRule{LHS: i}
			var walk func(e *syntax.Expr) bool
			walk = func(e *syntax.Expr) bool {
				switch e.Kind {
				case syntax.Empty, syntax.StateMarker, syntax.Command:
					return true
				case syntax.Reference:
					r.RHS = append(r.RHS, e.Symbol)
					return true
				case syntax.Sequence, syntax.Arrow, syntax.Assign, syntax.Append, syntax.Prec:
					for _, s := range e.Sub {
						if !walk(s) {
							return false
						}
					}
					return true
				}
				notPlainRules = append(notPlainRules, fmt.Sprintf("%s: %s", n.Name, e.Kind.GoString()))
				return false
			}
			if walk(alt) {
				c.Rules = append(c.Rules, r)
			}
		}
	}
	return c, byName, notPlainRules
}
