package xgram

import (
	"fmt"
	"math/rand"
)

// GenConfig controls the random grammar generator.
type GenConfig struct {
	MaxDepth    int
	MinTerms    int
	MaxTerms    int
	MinNonterms int
	MaxNonterms int
	MaxAlts     int
	MaxParts    int

	// feature weights (0 = off)
	WOpt, WChoice, WStar, WPlus, WList, WSeq int
	WSet, WLook, WMarker, WCmd, WOptRef      int
	WErrorTerm                               int
	Arrows, Assigns, Extend                  bool

	SimpleSets bool // in-rule sets over terminals only, never empty
	FullSets   bool // first/last/follow/precede/any on all symbols, named references
	MaxNamed   int
	MaxAsserts int
	TopSets    bool // nonterminals whose whole body is a set(...)

	Templates bool // template parameters, predicates, arguments
	LAFlags   bool // %lookahead flags (clean leading shapes are enforced)

	// CollidingSets injects, into about every third grammar, two or three in-rule
	// sets that differ only in the placement of parentheses (so that names built
	// by flattening the expression coincide) but denote different terminal sets.
	CollidingSets bool

	// Targets makes about half of the grammars use the cc or ts target header
	// (with {type} annotations on some terminals and nonterminals).
	Targets bool

	HasError   bool
	ModelOnly  bool // only what syntax.Model can carry without the loader (no sets, no opt refs, no commands)
	RRLists    bool
	MaxExpand  int
	AllowNoEoi bool
}

type gen struct {
	r   *rand.Rand
	cfg *GenConfig
	g   *Grammar

	useCmds    bool
	useMarkers bool
	inputs     map[int]bool
	laClean    bool
}

var termPool = []string{"a", "b", "c", "d", "e", "f"}
var arrowPool = []string{"Foo", "Bar", "Baz"}

// Generate produces a random grammar.
func Generate(r *rand.Rand, cfg *GenConfig) *Grammar {
	x := &gen{r: r, cfg: cfg, g: &Grammar{Name: "gen"}, inputs: map[int]bool{}}
	g := x.g
	g.EventBased = r.Intn(4) != 0
	nt := cfg.MinTerms + r.Intn(cfg.MaxTerms-cfg.MinTerms+1)
	g.Terms = append(g.Terms, termPool[:nt]...)
	g.HasError = cfg.HasError
	if r.Intn(2) == 0 {
		x.useCmds = cfg.WCmd > 0
	} else {
		x.useMarkers = cfg.WMarker > 0
	}
	nn := cfg.MinNonterms + r.Intn(cfg.MaxNonterms-cfg.MinNonterms+1)
	for i := 0; i < nn; i++ {
		g.Nonterms = append(g.Nonterms, &Nonterm{Name: "N" + string(rune('a'+i))})
	}
	// inputs
	nin := 1
	if nn > 2 && r.Intn(3) == 0 {
		nin = 2
	}
	if cfg.Templates {
		// inputs are roots nobody refers to: they cannot take parameters
		for i := 0; i < nin; i++ {
			g.Inputs = append(g.Inputs, Input{Nonterm: i})
			x.inputs[i] = true
		}
	} else {
		perm := r.Perm(nn)
		for i := 0; i < nin; i++ {
			g.Inputs = append(g.Inputs, Input{Nonterm: perm[i]})
		}
	}
	if cfg.AllowNoEoi {
		for i := range g.Inputs {
			if r.Intn(5) == 0 {
				g.Inputs[i].NoEoi = true
			}
		}
	}
	if cfg.Templates {
		x.genParams()
	}
	x.laClean = cfg.LAFlags && x.hasLA()
	if cfg.FullSets {
		nNamed := r.Intn(cfg.MaxNamed + 1)
		for i := 0; i < nNamed; i++ {
			g.Named = append(g.Named, &NamedSet{Name: "s" + string(rune('p'+i))})
		}
	}
	for i, n := range g.Nonterms {
		if cfg.TopSets && i > 0 && !x.isInput(i) && r.Intn(6) == 0 {
			n.Alts = []*Alt{{Parts: []*Expr{{Kind: KSet, Set: x.setExpr(0, 3, -1, true)}}}}
			continue
		}
		nalts := 1 + r.Intn(cfg.MaxAlts)
		for a := 0; a < nalts; a++ {
			n.Alts = append(n.Alts, x.alt(n, 0, true))
		}
		if r.Intn(5) != 0 {
			// a productive base alternative
			base := &Alt{}
			for k := 1 + r.Intn(2); k > 0; k-- {
				base.Parts = append(base.Parts, x.term())
			}
			n.Alts = append(n.Alts, base)
			r.Shuffle(len(n.Alts), func(i, j int) { n.Alts[i], n.Alts[j] = n.Alts[j], n.Alts[i] })
		}
		if cfg.Arrows && r.Intn(8) == 0 {
			n.Arrow = arrowPool[r.Intn(len(arrowPool))]
		}
		if cfg.Extend && len(n.Alts) >= 2 && r.Intn(6) == 0 {
			n.ExtendAt = 1 + r.Intn(len(n.Alts)-1)
		}
	}
	for i, s := range g.Named {
		s.Expr = x.setExpr(0, 4, i, true)
	}
	if cfg.FullSets {
		for i := r.Intn(cfg.MaxAsserts + 1); i > 0; i-- {
			g.Asserts = append(g.Asserts, Assert{Empty: r.Intn(2) == 0, Expr: x.setExpr(0, 3, -1, true)})
		}
	}
	if x.laClean {
		x.addLAArgs()
	}
	if cfg.CollidingSets && r.Intn(3) == 0 {
		x.collidingSets()
	}
	if cfg.Targets {
		switch r.Intn(10) {
		case 0, 1, 2:
			g.Target = "cc"
		case 3, 4:
			g.Target = "ts"
		}
		if g.Target != "" {
			types := map[string][]string{"cc": {"int", "std::string", "int"}, "ts": {"number", "string", "number"}}[g.Target]
			g.TermTypes = make([]string, len(g.Terms))
			for i := range g.Terms {
				if r.Intn(2) == 0 {
					g.TermTypes[i] = types[r.Intn(len(types))]
				}
			}
			for _, n := range g.Nonterms {
				if r.Intn(2) == 0 && !IsTopSet(n) {
					n.Type = types[r.Intn(len(types))]
				}
			}
		}
	}
	g.Finish()
	return g
}

// collidingSets builds one flat operand/operator sequence, e.g. ~ a | b & c,
// and bracketings of it with different values, e.g. ~(a | b) & c and ~a | (b & c),
// and appends them as in-rule sets to random alternatives.
func (x *gen) collidingSets() {
	g, r, cfg := x.g, x.r, x.cfg
	for attempt := 0; attempt < 20; attempt++ {
		k := 2 + r.Intn(3)
		leaves := make([]*SetExpr, k)
		not := make([]bool, k)
		ops := make([]SetOp, k-1)
		for i := range leaves {
			l := &SetExpr{Op: SAny, IsTerm: true, Sym: r.Intn(len(g.Terms))}
			if cfg.FullSets && r.Intn(2) == 0 {
				l.Op = []SetOp{SFirst, SLast, SPrecede, SFollow, SAny}[r.Intn(5)]
				if r.Intn(2) == 0 && !cfg.Templates {
					l.IsTerm = false
					l.Sym = r.Intn(len(g.Nonterms))
				}
			}
			leaves[i] = l
			not[i] = r.Intn(3) == 0
		}
		if !not[0] && r.Intn(2) == 0 {
			not[0] = true
		}
		for i := range ops {
			ops[i] = []SetOp{SUnion, SUnion, SInter}[r.Intn(3)]
		}
		var build func(lo, hi int, pending bool) *SetExpr
		build = func(lo, hi int, pending bool) *SetExpr {
			// pending: the complement sign in front of leaf lo has not been placed yet
			if pending && (lo == hi || r.Intn(2) == 0) {
				return &SetExpr{Op: SCompl, Sub: []*SetExpr{build(lo, hi, false)}}
			}
			if lo == hi {
				c := *leaves[lo]
				return &c
			}
			j := lo + r.Intn(hi-lo)
			return &SetExpr{Op: ops[j], Sub: []*SetExpr{build(lo, j, pending), build(j+1, hi, not[j+1])}}
		}
		var picked []*SetExpr
		var texts []string
		for t := 0; t < 12 && len(picked) < 2+r.Intn(2); t++ {
			e := build(0, k-1, not[0])
			text := setText(g, e)
			dup := false
			for _, o := range texts {
				dup = dup || o == text
			}
			if dup {
				continue
			}
			if !cfg.FullSets {
				v := EvalTermSet(g, e)
				same := v == 0
				for _, o := range picked {
					same = same || EvalTermSet(g, o) == v
				}
				if same {
					continue
				}
			}
			picked = append(picked, e)
			texts = append(texts, text)
		}
		if len(picked) < 2 {
			continue
		}
		var hosts []*Alt
		for _, nt := range g.Nonterms {
			if IsTopSet(nt) {
				continue
			}
			hosts = append(hosts, nt.Alts...)
		}
		if len(hosts) == 0 {
			return
		}
		for _, e := range picked {
			a := hosts[r.Intn(len(hosts))]
			part := &Expr{Kind: KSet, Set: e}
			if x.laClean || len(a.Parts) == 0 {
				a.Parts = append(a.Parts, part)
			} else {
				at := r.Intn(len(a.Parts) + 1)
				a.Parts = append(a.Parts[:at:at], append([]*Expr{part}, a.Parts[at:]...)...)
			}
			a.EmptyMark = false
		}
		g.Colliding = len(picked)
		return
	}
}

func setText(g *Grammar, e *SetExpr) string {
	pr := &printer{g: g, p: &Printed{}}
	pr.setExpr(e, 0)
	return pr.b.String()
}

func (x *gen) isInput(i int) bool {
	for _, in := range x.g.Inputs {
		if in.Nonterm == i {
			return true
		}
	}
	return false
}

func (x *gen) hasLA() bool {
	for _, p := range x.g.Params {
		if p.LA {
			return true
		}
	}
	return false
}

func (x *gen) term() *Expr {
	n := len(x.g.Terms)
	if x.g.HasError && x.cfg.WErrorTerm > 0 && x.r.Intn(100) < x.cfg.WErrorTerm {
		return &Expr{Kind: KTerm, Sym: n}
	}
	return &Expr{Kind: KTerm, Sym: x.r.Intn(n)}
}

// ---------------------------------------------------------------------------
// parameters

var globalParamPool = []string{"Fa", "Fb", "Fc"}
var laParamPool = []string{"La", "Lb"}
var inlineParamPool = []string{"Xa", "Xb", "Xc"}

func (x *gen) genParams() {
	g, r := x.g, x.r
	defaults := []string{"", "", "true", "false"}
	kw := func() string {
		if r.Intn(4) == 0 {
			return "param"
		}
		return "flag"
	}
	ng := 1 + r.Intn(len(globalParamPool))
	for i := 0; i < ng; i++ {
		g.Params = append(g.Params, Param{Name: globalParamPool[i], Keyword: kw(), Default: defaults[r.Intn(len(defaults))]})
	}
	if x.cfg.LAFlags && r.Intn(2) == 0 {
		nl := 1 + r.Intn(len(laParamPool))
		for i := 0; i < nl; i++ {
			d := ""
			if r.Intn(2) == 0 {
				d = "false"
			}
			g.Params = append(g.Params, Param{Name: laParamPool[i], Keyword: "flag", Default: d, LA: true})
		}
		// lookahead flags may be declared between ordinary ones
		r.Shuffle(len(g.Params), func(i, j int) { g.Params[i], g.Params[j] = g.Params[j], g.Params[i] })
	}
	nGlobal := len(g.Params)
	for i, n := range g.Nonterms {
		if x.inputs[i] {
			continue
		}
		for gi := 0; gi < nGlobal; gi++ {
			if !g.Params[gi].LA && r.Intn(3) == 0 {
				n.Params = append(n.Params, gi)
			}
		}
		used := map[string]bool{}
		for k := r.Intn(3); k > 0; k-- {
			name := inlineParamPool[r.Intn(len(inlineParamPool))]
			if used[name] {
				continue
			}
			used[name] = true
			n.Params = append(n.Params, len(g.Params))
			g.Params = append(g.Params, Param{Name: name, Keyword: kw(), Default: defaults[r.Intn(len(defaults))], Inline: true})
		}
		// Inline parameters must stay in declaration order in Grammar.Params, but
		// the header may list global references and inline declarations in any order.
		r.Shuffle(len(n.Params), func(a, b int) { n.Params[a], n.Params[b] = n.Params[b], n.Params[a] })
		fixInlineOrder(g, n)
	}
}

// fixInlineOrder makes the inline parameters of n appear in increasing index
// order within n.Params (their indices are assigned in textual order).
func fixInlineOrder(g *Grammar, n *Nonterm) {
	var pos, vals []int
	for i, p := range n.Params {
		if g.Params[p].Inline {
			pos = append(pos, i)
			vals = append(vals, p)
		}
	}
	for i := 0; i < len(vals); i++ {
		for j := i + 1; j < len(vals); j++ {
			if vals[j] < vals[i] {
				vals[i], vals[j] = vals[j], vals[i]
			}
		}
	}
	for i, p := range pos {
		n.Params[p] = vals[i]
	}
}

func (x *gen) byName(n *Nonterm, name string) (int, bool) {
	if n == nil {
		return 0, false
	}
	for _, q := range n.Params {
		if x.g.Params[q].Name == name {
			return q, true
		}
	}
	return 0, false
}

// args builds a legal argument list for a reference to target from ctx
// (lookahead flags are added later by AddLAArgs).
func (x *gen) args(ctx *Nonterm, target int) ([]Arg, bool) {
	g, r := x.g, x.r
	t := g.Nonterms[target]
	var out []Arg
	for _, q := range t.Params {
		_, same := x.byName(ctx, g.Params[q].Name)
		canOmit := same || g.Params[q].Default != ""
		if canOmit && r.Intn(2) == 0 {
			continue
		}
		var modes []ArgMode
		modes = append(modes, ArgPlus, ArgMinus, ArgValTrue, ArgValFalse)
		if same {
			modes = append(modes, ArgSame, ArgSame)
		}
		if ctx != nil && len(ctx.Params) > 0 {
			modes = append(modes, ArgFrom, ArgFrom, ArgFrom)
		}
		a := Arg{Param: q, Mode: modes[r.Intn(len(modes))]}
		if a.Mode == ArgFrom {
			a.From = ctx.Params[r.Intn(len(ctx.Params))]
		}
		out = append(out, a)
	}
	r.Shuffle(len(out), func(i, j int) { out[i], out[j] = out[j], out[i] })
	return out, true
}

func (x *gen) pred(ctx *Nonterm) *Pred {
	g, r := x.g, x.r
	var avail []int
	if ctx != nil {
		avail = append(avail, ctx.Params...)
	}
	if x.laClean && ctx != nil && !x.isInputNT(ctx) {
		for i, p := range g.Params {
			if p.LA && r.Intn(3) == 0 {
				avail = append(avail, i)
			}
		}
	}
	if len(avail) == 0 {
		return nil
	}
	prim := func() *Pred {
		p := avail[r.Intn(len(avail))]
		switch r.Intn(6) {
		case 0, 1:
			return &Pred{Op: PParam, Param: p}
		case 2, 3:
			return &Pred{Op: PNot, Param: p}
		case 4:
			return &Pred{Op: PEq, Param: p, Lit: []string{"true", "false", "true", "false", "yes"}[r.Intn(5)]}
		default:
			return &Pred{Op: PNe, Param: p, Lit: []string{"true", "false", "true", "false", ""}[r.Intn(5)]}
		}
	}
	conj := func() *Pred {
		if r.Intn(3) != 0 {
			return prim()
		}
		c := &Pred{Op: PAnd}
		for k := 2 + r.Intn(2); k > 0; k-- {
			c.Sub = append(c.Sub, prim())
		}
		return c
	}
	if r.Intn(4) != 0 {
		return conj()
	}
	d := &Pred{Op: POr}
	for k := 2 + r.Intn(2); k > 0; k-- {
		d.Sub = append(d.Sub, conj())
	}
	return d
}

func (x *gen) isInputNT(n *Nonterm) bool {
	for i, m := range x.g.Nonterms {
		if m == n {
			return x.inputs[i]
		}
	}
	return false
}

// ---------------------------------------------------------------------------
// right-hand sides

// expandCount estimates the number of plain rules an alternative expands to.
func expandCount(parts []*Expr) int {
	n := 1
	for _, p := range parts {
		n *= partCount(p)
		if n > 1<<20 {
			return n
		}
	}
	return n
}

func partCount(e *Expr) int {
	switch e.Kind {
	case KOpt:
		return partCount(e.Sub[0]) + 1
	case KSeq:
		return expandCount(e.Sub)
	case KChoice:
		n := 0
		for _, a := range e.Alts {
			n += expandCount(a.Parts)
		}
		if n == 0 {
			n = 1
		}
		return n
	}
	return 1
}

// innerOK checks that no list element or nested group explodes on its own.
func innerOK(e *Expr, limit int) bool {
	ok := true
	e.Walk(func(s *Expr) {
		switch s.Kind {
		case KStar, KPlus:
			if partCount(s.Sub[0]) > limit {
				ok = false
			}
		case KList:
			if expandCount(s.Sub) > limit {
				ok = false
			}
		}
	})
	return ok
}

func (x *gen) alt(ctx *Nonterm, depth int, top bool) *Alt {
	r, cfg := x.r, x.cfg
	limit := cfg.MaxExpand
	if limit == 0 {
		limit = 64
	}
	for try := 0; ; try++ {
		a := &Alt{}
		if cfg.Templates && r.Intn(3) == 0 {
			a.Pred = x.pred(ctx)
		}
		np := r.Intn(cfg.MaxParts + 1)
		if depth > 0 && np > 3 {
			np = 3
		}
		if try > 8 {
			np = 1
		}
		if x.laClean && np == 0 {
			np = 1
		}
		for i := 0; i < np; i++ {
			if i == 0 && x.laClean {
				a.Parts = append(a.Parts, x.cleanHead(ctx, depth))
				continue
			}
			d := depth
			if try > 8 {
				d = cfg.MaxDepth
			}
			a.Parts = append(a.Parts, x.part(ctx, d))
		}
		if x.laClean && r.Intn(6) == 0 && !(depth > 0) {
			// markers / lookaheads may precede the head
			if pre := x.zeroWidth(ctx); pre != nil {
				a.Parts = append([]*Expr{pre}, a.Parts...)
			}
		}
		real := 0
		for _, p := range a.Parts {
			if p.Kind != KMarker && p.Kind != KCmd {
				real++
			}
		}
		if real == 0 && r.Intn(3) == 0 && !cfg.ModelOnly {
			a.EmptyMark = true
		}
		if cfg.Arrows && r.Intn(10) == 0 {
			a.Arrow = arrowPool[r.Intn(len(arrowPool))]
		}
		avoidLoneCondGroup(a)
		ok := expandCount(a.Parts) <= limit
		for _, p := range a.Parts {
			ok = ok && innerOK(p, limit)
		}
		if ok {
			return a
		}
	}
}

// avoidLoneCondGroup: an alternative that consists of nothing but a
// parenthesised single conditional alternative, "x | ([P] y)", is loaded as
// "x | [P] y" (the group collapses), so with P false the alternative vanishes
// instead of deriving the empty string as the same group does inside a
// sequence. Which of the two is meant is not documented; the shape is avoided.
func avoidLoneCondGroup(a *Alt) {
	if len(a.Parts) == 1 && a.Parts[0].Kind == KChoice && len(a.Parts[0].Alts) == 1 && a.Parts[0].Assign == "" {
		a.Parts[0].Alts[0].Pred = nil
	}
}

func (x *gen) zeroWidth(ctx *Nonterm) *Expr {
	r := x.r
	if x.useMarkers && r.Intn(2) == 0 {
		return &Expr{Kind: KMarker, Name: "m" + string(rune('a'+r.Intn(3)))}
	}
	if x.cfg.WLook > 0 {
		return x.look(ctx)
	}
	return nil
}

func (x *gen) look(ctx *Nonterm) *Expr {
	r, g := x.r, x.g
	e := &Expr{Kind: KLook}
	for k := 1 + r.Intn(2); k > 0; k-- {
		t := r.Intn(len(g.Nonterms))
		if x.cfg.Templates {
			// the target must be resolvable without explicit arguments
			okT := true
			for _, q := range g.Nonterms[t].Params {
				_, same := x.byName(ctx, g.Params[q].Name)
				if !same && g.Params[q].Default == "" {
					okT = false
				}
			}
			if !okT || x.inputs[t] {
				continue
			}
		}
		dup := false
		for _, l := range e.LA {
			dup = dup || l.Nonterm == t
		}
		if dup {
			continue
		}
		e.LA = append(e.LA, LAPred{Nonterm: t, Not: r.Intn(3) == 0})
	}
	if len(e.LA) == 0 {
		return nil
	}
	return e
}

func (x *gen) refTarget() int {
	g, r := x.g, x.r
	for {
		t := r.Intn(len(g.Nonterms))
		if !x.inputs[t] {
			return t
		}
	}
}

func (x *gen) ref(ctx *Nonterm) *Expr {
	if x.cfg.Templates && len(x.inputs) >= len(x.g.Nonterms) {
		return x.term()
	}
	t := x.refTarget()
	e := &Expr{Kind: KRef, Sym: t}
	if x.cfg.Templates {
		e.Args, _ = x.args(ctx, t)
	}
	return e
}

// cleanHead is a part that can legally start an alternative on a lookahead
// flag chain: it is not nullable by construction of its own form.
func (x *gen) cleanHead(ctx *Nonterm, depth int) *Expr {
	r := x.r
	switch k := r.Intn(10); {
	case k < 3:
		return x.term()
	case k < 7:
		return x.ref(ctx)
	case k < 8 && depth < x.cfg.MaxDepth:
		return &Expr{Kind: KPlus, Sub: []*Expr{x.cleanHead(ctx, depth+1)}}
	case k < 9 && depth < x.cfg.MaxDepth:
		c := &Expr{Kind: KChoice}
		for n := 2 + r.Intn(2); n > 0; n-- {
			a := &Alt{Parts: []*Expr{x.cleanHead(ctx, depth+1)}}
			if r.Intn(3) == 0 {
				a.Pred = x.pred(ctx)
			}
			if r.Intn(2) == 0 {
				a.Parts = append(a.Parts, x.part(ctx, depth+1))
			}
			c.Alts = append(c.Alts, a)
		}
		return c
	default:
		return x.term()
	}
}

func (x *gen) operand(ctx *Nonterm, depth int) *Expr {
	r := x.r
	if depth < x.cfg.MaxDepth && x.cfg.WSeq > 0 && r.Intn(4) == 0 {
		e := &Expr{Kind: KSeq}
		for k := 2 + r.Intn(2); k > 0; k-- {
			e.Sub = append(e.Sub, x.part(ctx, depth+1))
		}
		return e
	}
	return x.part(ctx, depth)
}

func (x *gen) part(ctx *Nonterm, depth int) *Expr {
	r, cfg, g := x.r, x.cfg, x.g
	type opt struct {
		k Kind
		w int
	}
	opts := []opt{{KTerm, 30}, {KRef, 22}}
	if depth < cfg.MaxDepth {
		opts = append(opts, opt{KOpt, cfg.WOpt}, opt{KChoice, cfg.WChoice}, opt{KStar, cfg.WStar}, opt{KPlus, cfg.WPlus}, opt{KList, cfg.WList})
	}
	if cfg.SimpleSets || cfg.FullSets {
		opts = append(opts, opt{KSet, cfg.WSet})
	}
	opts = append(opts, opt{KLook, cfg.WLook})
	if x.useMarkers {
		opts = append(opts, opt{KMarker, cfg.WMarker})
	}
	if x.useCmds && depth == 0 {
		// commands next to lists inside a list element crash the compiler (a
		// matter of another property); keep them at the top level of alternatives
		opts = append(opts, opt{KCmd, cfg.WCmd})
	}
	if !x.laClean {
		opts = append(opts, opt{KOptRef, cfg.WOptRef})
	}
	total := 0
	for _, o := range opts {
		total += o.w
	}
	pick := r.Intn(total)
	kind := KTerm
	for _, o := range opts {
		if pick < o.w {
			kind = o.k
			break
		}
		pick -= o.w
	}
	var e *Expr
	switch kind {
	case KTerm:
		e = x.term()
	case KRef:
		e = x.ref(ctx)
	case KOptRef:
		if r.Intn(2) == 0 || (cfg.Templates && len(x.inputs) >= len(g.Nonterms)) {
			e = &Expr{Kind: KOptRef, IsTerm: true, Sym: r.Intn(len(g.Terms))}
		} else {
			t := x.refTarget()
			e = &Expr{Kind: KOptRef, Sym: t}
			if cfg.Templates {
				e.Args, _ = x.args(ctx, t)
			}
		}
	case KOpt:
		e = &Expr{Kind: KOpt, Sub: []*Expr{x.operand(ctx, depth+1)}}
	case KStar:
		e = &Expr{Kind: KStar, Sub: []*Expr{x.operand(ctx, depth+1)}, RR: cfg.RRLists && r.Intn(2) == 0}
	case KPlus:
		e = &Expr{Kind: KPlus, Sub: []*Expr{x.operand(ctx, depth+1)}, RR: cfg.RRLists && r.Intn(2) == 0}
	case KChoice:
		e = &Expr{Kind: KChoice}
		for n := 2 + r.Intn(2); n > 0; n-- {
			a := x.nestedAlt(ctx, depth+1)
			e.Alts = append(e.Alts, a)
		}
		if cfg.Templates && r.Intn(6) == 0 {
			// a single conditional alternative: ([P] x)
			e.Alts = e.Alts[:1]
			if e.Alts[0].Pred == nil {
				e.Alts[0].Pred = x.pred(ctx)
			}
		}
	case KList:
		e = &Expr{Kind: KList, Plus: r.Intn(2) == 0, RR: cfg.RRLists && r.Intn(2) == 0}
		for k := 1 + r.Intn(2); k > 0; k-- {
			e.Sub = append(e.Sub, x.part(ctx, depth+1))
		}
		for k := 1 + r.Intn(3)/2; k > 0; k-- {
			e.Sep = append(e.Sep, r.Intn(len(g.Terms)))
		}
	case KSet:
		e = &Expr{Kind: KSet, Set: x.setExpr(0, 3, -1, cfg.FullSets)}
	case KLook:
		e = x.look(ctx)
		if e == nil {
			e = x.term()
		}
	case KMarker:
		e = &Expr{Kind: KMarker, Name: "m" + string(rune('a'+r.Intn(3)))}
	case KCmd:
		e = &Expr{Kind: KCmd, Name: fmt.Sprintf("act%d()", r.Intn(3))}
	}
	if cfg.Assigns && (e.Kind == KTerm || e.Kind == KRef) && r.Intn(14) == 0 {
		if r.Intn(2) == 0 {
			e.Assign = "v="
		} else {
			e.Assign = "w+="
		}
	}
	return e
}

func (x *gen) nestedAlt(ctx *Nonterm, depth int) *Alt {
	r := x.r
	a := &Alt{}
	if x.cfg.Templates && r.Intn(3) == 0 {
		a.Pred = x.pred(ctx)
	}
	np := r.Intn(3)
	if r.Intn(3) != 0 && np == 0 {
		np = 1
	}
	for i := 0; i < np; i++ {
		a.Parts = append(a.Parts, x.part(ctx, depth))
	}
	// groups made only of markers / commands / lookaheads are avoided
	real := false
	for _, p := range a.Parts {
		if p.Kind != KMarker && p.Kind != KCmd && p.Kind != KLook {
			real = true
		}
	}
	if !real && len(a.Parts) > 0 {
		a.Parts = append(a.Parts, x.term())
	}
	avoidLoneCondGroup(a)
	symbols := false
	for _, p := range a.Parts {
		switch p.Kind {
		case KTerm, KRef, KOptRef, KSet, KStar, KPlus, KList, KLook:
			symbols = true
		}
	}
	// an arrow over a possibly empty range at the end of a rule is rejected by the compiler
	if x.cfg.Arrows && symbols && r.Intn(10) == 0 {
		a.Arrow = arrowPool[r.Intn(len(arrowPool))]
	}
	return a
}

// ---------------------------------------------------------------------------
// sets

// setExpr generates a set expression. self is the index of the named set being
// defined (-1 otherwise); allowCyclic says whether named sets that may take
// part in reference cycles can be mentioned (not inside rules: the expression
// is then also used to name the extracted nonterminal).
func (x *gen) setExpr(depth, maxDepth, self int, allowNamed bool) *SetExpr {
	r, g, cfg := x.r, x.g, x.cfg
	if cfg.SimpleSets && !cfg.FullSets {
		for {
			e := x.simpleSet(0)
			if EvalTermSet(g, e) != 0 {
				return e
			}
		}
	}
	leaf := func() *SetExpr {
		if allowNamed && len(g.Named) > 0 && r.Intn(4) == 0 {
			return &SetExpr{Op: SNamed, Named: r.Intn(len(g.Named))}
		}
		ops := []SetOp{SAny, SAny, SFirst, SLast, SPrecede, SFollow, SFollow, SPrecede}
		e := &SetExpr{Op: ops[r.Intn(len(ops))]}
		if r.Intn(2) == 0 {
			e.IsTerm = true
			e.Sym = r.Intn(len(g.Terms))
			if g.HasError && r.Intn(5) == 0 {
				e.Sym = len(g.Terms)
			}
		} else {
			e.Sym = r.Intn(len(g.Nonterms))
			if cfg.Templates {
				e.Sym = x.refTarget()
				e.Args, _ = x.args(nil, e.Sym)
			}
		}
		return e
	}
	if depth >= maxDepth || r.Intn(3) == 0 {
		return leaf()
	}
	switch r.Intn(9) {
	case 0, 1, 2, 3:
		e := &SetExpr{Op: SUnion}
		for k := 2 + r.Intn(2); k > 0; k-- {
			e.Sub = append(e.Sub, x.setExpr(depth+1, maxDepth, self, allowNamed))
		}
		return e
	case 4, 5, 6:
		e := &SetExpr{Op: SInter}
		for k := 2 + r.Intn(2)/2; k > 0; k-- {
			e.Sub = append(e.Sub, x.setExpr(depth+1, maxDepth, self, allowNamed))
		}
		return e
	case 7:
		return &SetExpr{Op: SCompl, Sub: []*SetExpr{x.setExpr(depth+1, maxDepth, self, allowNamed && r.Intn(3) == 0)}}
	default:
		// complement of something that cannot be recursive
		return &SetExpr{Op: SCompl, Sub: []*SetExpr{x.setExpr(maxDepth, maxDepth, self, false)}}
	}
}

func (x *gen) simpleSet(depth int) *SetExpr {
	r, g := x.r, x.g
	if depth >= 2 || r.Intn(2) == 0 {
		return &SetExpr{Op: SAny, IsTerm: true, Sym: r.Intn(len(g.Terms))}
	}
	switch r.Intn(4) {
	case 0, 1:
		e := &SetExpr{Op: SUnion}
		for k := 2 + r.Intn(2); k > 0; k-- {
			e.Sub = append(e.Sub, x.simpleSet(depth+1))
		}
		return e
	case 2:
		return &SetExpr{Op: SInter, Sub: []*SetExpr{x.simpleSet(depth + 1), x.simpleSet(depth + 1)}}
	default:
		return &SetExpr{Op: SCompl, Sub: []*SetExpr{x.simpleSet(depth + 1)}}
	}
}

// EvalTermSet evaluates a set expression that mentions terminals only (plain
// boolean algebra over the terminal universe).
func EvalTermSet(g *Grammar, e *SetExpr) uint32 {
	full := uint32(1)<<uint(g.NumTerms()) - 1
	switch e.Op {
	case SAny, SFirst, SLast:
		if !e.IsTerm {
			panic("xgram: EvalTermSet on a nonterminal")
		}
		return 1 << uint(g.TermID(e.Sym))
	case SUnion:
		var v uint32
		for _, c := range e.Sub {
			v |= EvalTermSet(g, c)
		}
		return v
	case SInter:
		v := full
		for _, c := range e.Sub {
			v &= EvalTermSet(g, c)
		}
		return v
	case SCompl:
		return ^EvalTermSet(g, e.Sub[0]) & full
	}
	panic("xgram: EvalTermSet on an unsupported operator")
}

// ---------------------------------------------------------------------------
// lookahead flag arguments

// AnalyseLA exposes the reference lookahead-flag analysis: per nonterminal the
// flags it accepts, carries and uses, and the legality verdict.
func AnalyseLA(g *Grammar) (accept, carries, uses []uint64, illegal string) {
	p := &Plain{G: g, NT: g.NumTerms(), ByName: map[string]int{}}
	for i, prm := range g.Params {
		if prm.LA {
			p.laMask |= 1 << uint(i)
		}
	}
	p.analyseLA()
	if p.la == nil {
		return nil, nil, nil, p.Illegal
	}
	return p.la.accept, p.la.carries, p.la.uses, p.Illegal
}

type refSite struct {
	ctx int
	e   *Expr
}

// addLAArgs sprinkles explicit lookahead-flag arguments over references whose
// target accepts the flag, then makes sure every user of a flag is provided
// with it somewhere. Steps that the reference analysis judges illegal are undone.
func (x *gen) addLAArgs() {
	g, r := x.g, x.r
	var sites []refSite
	for i, nt := range g.Nonterms {
		for _, a := range nt.Alts {
			for _, part := range a.Parts {
				part.Walk(func(e *Expr) {
					if e.Kind == KRef {
						sites = append(sites, refSite{i, e})
					}
				})
			}
		}
	}
	var laIdx []int
	for i, p := range g.Params {
		if p.LA {
			laIdx = append(laIdx, i)
		}
	}
	if len(laIdx) == 0 || len(sites) == 0 {
		return
	}
	has := func(e *Expr, param int) bool {
		for _, a := range e.Args {
			if a.Param == param {
				return true
			}
		}
		return false
	}
	for k := 2 + r.Intn(5); k > 0; k-- {
		accept, _, _, _ := AnalyseLA(g)
		s := sites[r.Intn(len(sites))]
		l := laIdx[r.Intn(len(laIdx))]
		if accept[s.e.Sym]&(1<<uint(l)) == 0 || has(s.e, l) {
			continue
		}
		ctx := g.Nonterms[s.ctx]
		modes := []ArgMode{ArgPlus, ArgPlus, ArgMinus, ArgValTrue, ArgValFalse}
		if !x.inputs[s.ctx] {
			modes = append(modes, ArgSame, ArgFrom)
		}
		a := Arg{Param: l, Mode: modes[r.Intn(len(modes))]}
		if a.Mode == ArgFrom {
			var src []int
			src = append(src, ctx.Params...)
			src = append(src, laIdx...)
			a.From = src[r.Intn(len(src))]
		}
		old := s.e.Args
		s.e.Args = append(append([]Arg(nil), old...), a)
		if _, _, _, ill := AnalyseLA(g); ill != "" && !isNeverProvided(ill) {
			s.e.Args = old
		}
	}
	// providers for users nobody reaches
	for round := 0; round < 8; round++ {
		_, carries, uses, _ := AnalyseLA(g)
		fixed := true
		for u := range g.Nonterms {
			missing := uses[u] &^ carries[u]
			if missing == 0 {
				continue
			}
			fixed = false
			h := r.Intn(len(g.Nonterms))
			host := g.Nonterms[h]
			if len(host.Alts) == 0 {
				continue
			}
			alt := host.Alts[r.Intn(len(host.Alts))]
			if len(alt.Parts) == 0 || (len(alt.Parts) == 1 && alt.Parts[0].Kind == KSet && len(host.Alts) == 1) {
				continue
			}
			e := &Expr{Kind: KRef, Sym: u}
			e.Args, _ = x.args(host, u)
			for _, l := range laIdx {
				if missing&(1<<uint(l)) != 0 {
					m := ArgPlus
					if r.Intn(4) == 0 {
						m = ArgMinus
					}
					e.Args = append(e.Args, Arg{Param: l, Mode: m})
				}
			}
			alt.Parts = append(alt.Parts, e)
			alt.EmptyMark = false
			break
		}
		if fixed {
			break
		}
	}
}

func isNeverProvided(s string) bool {
	return len(s) >= 14 && s[:14] == "lookahead flag" && s[len(s)-14:] == "never provided"
}

// ---------------------------------------------------------------------------
// helpers for set-related hazards

// NamedCyclic tells, per named set, whether a cycle of named-set references is
// reachable from it.
func NamedCyclic(g *Grammar) []bool {
	n := len(g.Named)
	adj := make([][]int, n)
	for i, s := range g.Named {
		walkSet(s.Expr, func(e *SetExpr) {
			if e.Op == SNamed {
				adj[i] = append(adj[i], e.Named)
			}
		})
	}
	reach := make([][]bool, n)
	for i := range reach {
		reach[i] = make([]bool, n)
		st := append([]int(nil), adj[i]...)
		for len(st) > 0 {
			v := st[len(st)-1]
			st = st[:len(st)-1]
			if reach[i][v] {
				continue
			}
			reach[i][v] = true
			st = append(st, adj[v]...)
		}
	}
	out := make([]bool, n)
	for i := 0; i < n; i++ {
		for j := 0; j < n; j++ {
			if (i == j || reach[i][j]) && reach[j][j] {
				out[i] = true
			}
		}
	}
	return out
}

// ReachesCyclicNamed reports whether e mentions a named set from which a
// reference cycle is reachable.
func ReachesCyclicNamed(e *SetExpr, cyc []bool) bool {
	found := false
	walkSet(e, func(s *SetExpr) {
		if s.Op == SNamed && cyc[s.Named] {
			found = true
		}
	})
	return found
}

// IsTopSet reports whether the whole body of the nonterminal is a single
// set(...) (the compiler then turns the nonterminal itself into the choice of
// terminals, without extracting and naming a helper nonterminal).
func IsTopSet(nt *Nonterm) bool {
	return len(nt.Alts) == 1 && nt.Arrow == "" && nt.Alts[0].Pred == nil && nt.Alts[0].Arrow == "" &&
		len(nt.Alts[0].Parts) == 1 && nt.Alts[0].Parts[0].Kind == KSet && nt.Alts[0].Parts[0].Assign == ""
}

// ReplaceNamed rewrites every reference to a named set for which drop returns
// true by a terminal leaf.
func ReplaceNamed(e *SetExpr, drop func(named int) bool, term int) {
	if e.Op == SNamed && drop(e.Named) {
		*e = SetExpr{Op: SAny, IsTerm: true, Sym: term}
		return
	}
	for _, c := range e.Sub {
		ReplaceNamed(c, drop, term)
	}
}
