package xgram

import (
	"fmt"
	"sort"
	"strings"
)

// This file is the reference semantics: template instantiation by valuation,
// naive desugaring of the extended notation into plain rules (every compound
// sub-expression gets a private helper nonterminal; lists are right-recursive,
// unlike the implementation under test), and the lookahead-flag rules.

// PKind distinguishes the helper nonterminals that are not defined by rules.
type PKind int

// Plain nonterminal kinds.
const (
	PNormal PKind = iota
	PSet          // stands for a choice of the terminals of Set
	PLook         // lookahead marker: derives ε
)

// RSet is a set expression with resolved symbols (plain symbol ids).
type RSet struct {
	Op    SetOp
	Sym   int // plain symbol id for SAny..SFollow
	Sub   []*RSet
	Named int
}

// PNonterm is a nonterminal of the reference plain grammar.
type PNonterm struct {
	Name  string
	Kind  PKind
	Set   *RSet
	Look  []int // PLook: plain nonterminal indices of the targets
	User  bool  // an instance of an abstract nonterminal
	Templ int
	Val   uint64
}

// PInput is a start symbol of the plain grammar.
type PInput struct {
	Nonterm int
	NoEoi   bool
}

// Plain is the reference plain grammar of an abstract grammar.
type Plain struct {
	G        *Grammar
	NT       int // number of terminals
	Nonterms []*PNonterm
	Rules    []CFGRule
	Inputs   []PInput
	ByName   map[string]int
	Named    []*RSet // %generate sets
	Asserts  []*RSet
	RuleSet  []int // per Grammar.RuleSets entry: plain nonterminal index of its set nonterminal

	// Illegal is non-empty when the reference semantics considers the grammar
	// outside the documented legal shapes (reason).
	Illegal string
	// AllDisabled counts choices whose alternatives were all switched off by
	// predicates (they derive ε, as pinned by the repository's tests).
	AllDisabled int

	// Stats counts how parameter values were obtained while instantiating.
	Stats map[string]int

	la       *laInfo
	laMask   uint64
	queue    []int
	helperNo int
}

type laInfo struct {
	entry   []map[*Expr]bool // per nonterminal: references in entry position
	compat  []bool
	uses    []uint64
	accept  []uint64
	carries []uint64
}

func (p *Plain) sym(nt int) int { return p.NT + nt }

// InstanceName is the documented name of an instantiated nonterminal: the
// template name followed by _Param for every parameter that is true, in
// parameter declaration order.
func (g *Grammar) InstanceName(templ int, val uint64) string {
	name := g.Nonterms[templ].Name
	for i, p := range g.Params {
		if val&(1<<uint(i)) != 0 {
			name += "_" + p.Name
		}
	}
	return name
}

// ParseInstanceName inverts InstanceName. Names of generated nonterminals and
// parameters contain no underscores, so the split is unambiguous.
func (g *Grammar) ParseInstanceName(name string) (templ int, val uint64, ok bool) {
	parts := strings.Split(name, "_")
	templ = -1
	for i, nt := range g.Nonterms {
		if nt.Name == parts[0] {
			templ = i
		}
	}
	if templ < 0 {
		return 0, 0, false
	}
	allowed := uint64(0)
	for _, pi := range g.Nonterms[templ].Params {
		allowed |= 1 << uint(pi)
	}
	for i, p := range g.Params {
		if p.LA {
			allowed |= 1 << uint(i)
		}
	}
	last := -1
	for _, pn := range parts[1:] {
		found := -1
		for i, p := range g.Params {
			if p.Name == pn && allowed&(1<<uint(i)) != 0 {
				found = i
			}
		}
		if found < 0 || found <= last {
			return 0, 0, false
		}
		last = found
		val |= 1 << uint(found)
	}
	return templ, val, true
}

// Build derives the reference plain grammar: all inputs, every nonterminal
// named in a set, and (for grammars without parameters) every nonterminal.
func Build(g *Grammar) *Plain {
	g.Finish()
	p := &Plain{G: g, NT: g.NumTerms(), ByName: map[string]int{}, Stats: map[string]int{}}
	for i, prm := range g.Params {
		if prm.LA {
			p.laMask |= 1 << uint(i)
		}
	}
	p.analyseLA()
	// in-rule sets are global: one set nonterminal per occurrence
	p.RuleSet = make([]int, len(g.RuleSets))
	for i := range g.RuleSets {
		p.RuleSet[i] = len(p.Nonterms)
		p.Nonterms = append(p.Nonterms, &PNonterm{Name: fmt.Sprintf("set$%d", i), Kind: PSet})
	}
	for _, in := range g.Inputs {
		idx := p.Instance(in.Nonterm, 0)
		p.Inputs = append(p.Inputs, PInput{Nonterm: idx, NoEoi: in.NoEoi})
	}
	for _, s := range g.Named {
		p.Named = append(p.Named, p.resolveSet(s.Expr))
	}
	for _, a := range g.Asserts {
		p.Asserts = append(p.Asserts, p.resolveSet(a.Expr))
	}
	for i, e := range g.RuleSets {
		p.Nonterms[p.RuleSet[i]].Set = p.resolveSet(e.Set)
	}
	if len(g.Params) == 0 {
		for i := range g.Nonterms {
			p.Instance(i, 0)
		}
	}
	p.Close()
	return p
}

func (p *Plain) illegal(format string, a ...any) {
	if p.Illegal == "" {
		p.Illegal = fmt.Sprintf(format, a...)
	}
}

// Instance returns the plain nonterminal for (template, valuation), scheduling
// its body for desugaring when new. Call Close afterwards.
func (p *Plain) Instance(templ int, val uint64) int {
	name := p.G.InstanceName(templ, val)
	if idx, ok := p.ByName[name]; ok {
		return idx
	}
	idx := len(p.Nonterms)
	p.Nonterms = append(p.Nonterms, &PNonterm{Name: name, User: true, Templ: templ, Val: val})
	p.ByName[name] = idx
	p.queue = append(p.queue, idx)
	return idx
}

// Close desugars all scheduled instances (and the ones they reference).
func (p *Plain) Close() {
	for len(p.queue) > 0 {
		idx := p.queue[0]
		p.queue = p.queue[1:]
		nt := p.Nonterms[idx]
		p.altsInto(idx, p.G.Nonterms[nt.Templ], nt.Val, p.G.Nonterms[nt.Templ].Alts)
	}
}

func (p *Plain) helper(parent int, kind PKind) int {
	p.helperNo++
	idx := len(p.Nonterms)
	p.Nonterms = append(p.Nonterms, &PNonterm{Name: fmt.Sprintf("%s$h%d", p.Nonterms[parent].Name, p.helperNo), Kind: kind})
	return idx
}

func (p *Plain) addRule(lhs int, rhs []int) {
	p.Rules = append(p.Rules, CFGRule{LHS: lhs, RHS: append([]int(nil), rhs...)})
}

// altsInto adds one rule per enabled alternative. When predicates switch every
// alternative off the nonterminal derives ε.
func (p *Plain) altsInto(lhs int, ctx *Nonterm, val uint64, alts []*Alt) {
	n := 0
	for _, a := range alts {
		if a.Pred != nil && !p.evalPred(a.Pred, val) {
			continue
		}
		n++
		p.addRule(lhs, p.seq(lhs, ctx, val, a.Parts))
	}
	if n == 0 {
		p.AllDisabled++
		p.addRule(lhs, nil)
	}
}

func (p *Plain) evalPred(pr *Pred, val uint64) bool {
	bit := func() bool { return val&(1<<uint(pr.Param)) != 0 }
	str := func() string {
		if bit() {
			return "true"
		}
		return "false"
	}
	switch pr.Op {
	case PParam:
		return bit()
	case PNot:
		return !bit()
	case PEq:
		return str() == pr.Lit
	case PNe:
		return str() != pr.Lit
	case PAnd:
		for _, s := range pr.Sub {
			if !p.evalPred(s, val) {
				return false
			}
		}
		return true
	case POr:
		for _, s := range pr.Sub {
			if p.evalPred(s, val) {
				return true
			}
		}
		return false
	}
	panic("xgram: bad predicate")
}

func (p *Plain) seq(owner int, ctx *Nonterm, val uint64, parts []*Expr) []int {
	var out []int
	for _, e := range parts {
		out = append(out, p.part(owner, ctx, val, e)...)
	}
	return out
}

func (p *Plain) part(owner int, ctx *Nonterm, val uint64, e *Expr) []int {
	switch e.Kind {
	case KTerm:
		return []int{p.G.TermID(e.Sym)}
	case KRef:
		return []int{p.sym(p.ref(ctx, val, e, e.Sym, e.Args))}
	case KOptRef:
		h := p.helper(owner, PNormal)
		p.addRule(h, nil)
		if e.IsTerm {
			p.addRule(h, []int{p.G.TermID(e.Sym)})
		} else {
			p.addRule(h, []int{p.sym(p.ref(ctx, val, e, e.Sym, e.Args))})
		}
		return []int{p.sym(h)}
	case KSeq:
		return p.seq(owner, ctx, val, e.Sub)
	case KOpt:
		h := p.helper(owner, PNormal)
		p.addRule(h, nil)
		p.addRule(h, p.part(owner, ctx, val, e.Sub[0]))
		return []int{p.sym(h)}
	case KChoice:
		h := p.helper(owner, PNormal)
		p.altsInto(h, ctx, val, e.Alts)
		return []int{p.sym(h)}
	case KStar:
		h := p.helper(owner, PNormal)
		elem := p.part(owner, ctx, val, e.Sub[0])
		p.addRule(h, nil)
		p.addRule(h, append(append([]int(nil), elem...), p.sym(h)))
		return []int{p.sym(h)}
	case KPlus:
		h := p.helper(owner, PNormal)
		elem := p.part(owner, ctx, val, e.Sub[0])
		p.addRule(h, elem)
		p.addRule(h, append(append([]int(nil), elem...), p.sym(h)))
		return []int{p.sym(h)}
	case KList:
		h := p.helper(owner, PNormal)
		elem := p.seq(owner, ctx, val, e.Sub)
		p.addRule(h, elem)
		rec := append([]int(nil), elem...)
		for _, s := range e.Sep {
			rec = append(rec, p.G.TermID(s))
		}
		rec = append(rec, p.sym(h))
		p.addRule(h, rec)
		if e.Plus {
			return []int{p.sym(h)}
		}
		o := p.helper(owner, PNormal)
		p.addRule(o, nil)
		p.addRule(o, []int{p.sym(h)})
		return []int{p.sym(o)}
	case KSet:
		return []int{p.sym(p.RuleSet[e.SetID])}
	case KLook:
		h := p.helper(owner, PLook)
		for _, l := range e.LA {
			p.Nonterms[h].Look = append(p.Nonterms[h].Look, p.ref(ctx, val, e, l.Nonterm, nil))
		}
		p.addRule(h, nil)
		return []int{p.sym(h)}
	case KMarker, KCmd:
		return nil
	}
	panic("xgram: bad expression kind")
}

// ref resolves a reference to a template from a context instance (ctx may be
// nil for inputs and sets) and returns the plain nonterminal of the instance.
//
// Declared parameters of the target: explicit argument, else the same-named
// parameter of the context, else the declared default. Lookahead flags:
// explicit argument, else inherited when the reference starts the body of the
// context (entry position) and the target accepts the flag, else false.
func (p *Plain) ref(ctx *Nonterm, ctxVal uint64, at *Expr, target int, args []Arg) int {
	g := p.G
	t := g.Nonterms[target]
	var val uint64
	get := func(src int) bool { return ctxVal&(1<<uint(src)) != 0 }
	byName := func(name string) (int, bool) {
		if ctx != nil {
			for _, q := range ctx.Params {
				if g.Params[q].Name == name {
					return q, true
				}
			}
		}
		return 0, false
	}
	argValue := func(a Arg) bool {
		switch a.Mode {
		case ArgPlus, ArgValTrue:
			return true
		case ArgMinus, ArgValFalse:
			return false
		case ArgFrom:
			if ctx == nil {
				p.illegal("argument takes a value from a parameter outside of a nonterminal")
				return false
			}
			return get(a.From)
		case ArgSame:
			if q, ok := byName(g.Params[a.Param].Name); ok {
				return get(q)
			}
			if g.Params[a.Param].LA && ctx != nil {
				return get(a.Param)
			}
			p.illegal("argument %s without a value has no same-named source", g.Params[a.Param].Name)
			return false
		}
		panic("xgram: bad argument mode")
	}
	explicit := func(param int) (Arg, bool) {
		for _, a := range args {
			if a.Param == param {
				return a, true
			}
		}
		return Arg{}, false
	}
	for _, a := range args {
		declared := false
		for _, q := range t.Params {
			declared = declared || q == a.Param
		}
		if !declared && !g.Params[a.Param].LA {
			p.illegal("argument %s is not a parameter of %s", g.Params[a.Param].Name, t.Name)
		}
	}
	set := func(param int, v bool) {
		if v {
			val |= 1 << uint(param)
		}
	}
	count := func(k string) {
		if p.Stats != nil {
			p.Stats[k]++
		}
	}
	for _, q := range t.Params {
		if a, ok := explicit(q); ok {
			set(q, argValue(a))
			count(fmt.Sprintf("arg_mode_%d", a.Mode))
		} else if src, ok := byName(g.Params[q].Name); ok {
			set(q, get(src))
			count("implicit_by_name")
			if g.Params[q].Inline {
				count("implicit_by_name_inline")
			}
		} else if d := g.Params[q].Default; d != "" {
			set(q, d == "true")
			count("default_used")
		} else {
			p.illegal("uninitialized parameter %s of %s", g.Params[q].Name, t.Name)
		}
	}
	for i, prm := range g.Params {
		if !prm.LA {
			continue
		}
		if a, ok := explicit(i); ok {
			set(i, argValue(a))
			count("la_explicit")
		} else if ctx != nil && at != nil && p.la != nil && p.isEntry(ctx, at) && p.la.accept[target]&(1<<uint(i)) != 0 {
			set(i, get(i))
			count("la_inherited")
			if get(i) {
				count("la_inherited_true")
			}
		} else if p.la != nil && p.la.carries[target]&(1<<uint(i)) != 0 {
			count("la_reset_to_false")
		}
	}
	return p.Instance(target, val)
}

func (p *Plain) isEntry(ctx *Nonterm, at *Expr) bool {
	for i, nt := range p.G.Nonterms {
		if nt == ctx {
			return p.la.entry[i][at]
		}
	}
	return false
}

func (p *Plain) resolveSet(s *SetExpr) *RSet {
	switch s.Op {
	case SAny, SFirst, SLast, SPrecede, SFollow:
		if s.IsTerm {
			return &RSet{Op: s.Op, Sym: p.G.TermID(s.Sym)}
		}
		return &RSet{Op: s.Op, Sym: p.sym(p.ref(nil, 0, nil, s.Sym, s.Args))}
	case SNamed:
		return &RSet{Op: SNamed, Named: s.Named}
	}
	r := &RSet{Op: s.Op}
	for _, c := range s.Sub {
		r.Sub = append(r.Sub, p.resolveSet(c))
	}
	return r
}

// ---------------------------------------------------------------------------
// lookahead flags

// analyseLA computes, from the syntactic definition of entry positions, which
// lookahead flags a nonterminal accepts (it or something it starts with uses
// the flag, unless overridden by an explicit argument on the way) and which
// nonterminals carry which flags (an explicit argument is given to them, or a
// carrier starts with them). Grammars outside the legal shapes are marked.
func (p *Plain) analyseLA() {
	g := p.G
	if p.laMask == 0 {
		return
	}
	n := len(g.Nonterms)
	la := &laInfo{entry: make([]map[*Expr]bool, n), compat: make([]bool, n), uses: make([]uint64, n), accept: make([]uint64, n), carries: make([]uint64, n)}
	p.la = la
	explicitLA := func(args []Arg) uint64 {
		var m uint64
		for _, a := range args {
			if g.Params[a.Param].LA {
				m |= 1 << uint(a.Param)
			}
		}
		return m
	}
	for i, nt := range g.Nonterms {
		la.entry[i] = map[*Expr]bool{}
		ent := la.entry[i]
		var epPart func(e *Expr) bool
		var epSeq func(parts []*Expr) bool
		epAlts := func(alts []*Alt) bool {
			ret := len(alts) > 0
			for _, a := range alts {
				r := epSeq(a.Parts)
				ret = ret && r
			}
			return ret
		}
		epSeq = func(parts []*Expr) bool {
			for _, c := range parts {
				switch c.Kind {
				case KMarker, KCmd, KLook:
					continue
				}
				return epPart(c)
			}
			return false
		}
		epPart = func(e *Expr) bool {
			switch e.Kind {
			case KTerm, KSet:
				return true
			case KRef:
				ent[e] = true
				return true
			case KOptRef:
				// the synthesized Xopt nonterminal is an optional: never a legal carrier
				if !e.IsTerm {
					p.illegal("opt-suffix reference in a grammar with lookahead flags")
				}
				return true
			case KSeq:
				return epSeq(e.Sub)
			case KOpt, KStar:
				epPart(e.Sub[0])
				return false
			case KPlus:
				return epPart(e.Sub[0])
			case KList:
				r := epSeq(e.Sub)
				return r && e.Plus
			case KChoice:
				return epAlts(e.Alts)
			}
			return false
		}
		la.compat[i] = epAlts(nt.Alts)
		// uses: flags read by predicates or passed on as argument sources
		var predUses func(pr *Pred)
		predUses = func(pr *Pred) {
			if pr == nil {
				return
			}
			switch pr.Op {
			case PAnd, POr:
				for _, s := range pr.Sub {
					predUses(s)
				}
			default:
				if g.Params[pr.Param].LA {
					la.uses[i] |= 1 << uint(pr.Param)
				}
			}
		}
		var altUses func(alts []*Alt)
		altUses = func(alts []*Alt) {
			for _, a := range alts {
				predUses(a.Pred)
				for _, part := range a.Parts {
					part.Walk(func(e *Expr) {
						for _, arg := range e.Args {
							switch arg.Mode {
							case ArgFrom:
								if g.Params[arg.From].LA {
									la.uses[i] |= 1 << uint(arg.From)
								}
							case ArgSame:
								if g.Params[arg.Param].LA {
									la.uses[i] |= 1 << uint(arg.Param)
								}
							}
						}
						if e.Kind == KChoice {
							for _, na := range e.Alts {
								predUses(na.Pred)
							}
						}
					})
				}
			}
		}
		altUses(nt.Alts)
	}
	// accept: least fixpoint
	for i := range g.Nonterms {
		la.accept[i] = la.uses[i]
	}
	for changed := true; changed; {
		changed = false
		for i := range g.Nonterms {
			keys := sortedRefs(la.entry[i])
			for _, ref := range keys {
				add := la.accept[ref.Sym] &^ explicitLA(ref.Args)
				if la.accept[i]|add != la.accept[i] {
					la.accept[i] |= add
					changed = true
				}
			}
		}
	}
	// carries: explicit arguments anywhere (rules and sets), then along entry references
	give := func(target int, args []Arg) {
		m := explicitLA(args)
		if m&^la.accept[target] != 0 {
			p.illegal("lookahead flag given to %s which does not use it", g.Nonterms[target].Name)
		}
		la.carries[target] |= m & la.accept[target]
	}
	g.WalkAll(func(_ *Nonterm, e *Expr) {
		if e.Kind == KRef {
			give(e.Sym, e.Args)
		}
		if e.Kind == KOptRef && explicitLA(e.Args) != 0 {
			p.illegal("lookahead flag given to an opt-suffix reference")
		}
		if e.Kind == KSet {
			walkSet(e.Set, func(s *SetExpr) {
				if s.Op <= SFollow && !s.IsTerm {
					give(s.Sym, s.Args)
				}
			})
		}
	})
	for _, s := range g.Named {
		walkSet(s.Expr, func(s *SetExpr) {
			if s.Op <= SFollow && !s.IsTerm {
				give(s.Sym, s.Args)
			}
		})
	}
	for _, a := range g.Asserts {
		walkSet(a.Expr, func(s *SetExpr) {
			if s.Op <= SFollow && !s.IsTerm {
				give(s.Sym, s.Args)
			}
		})
	}
	for changed := true; changed; {
		changed = false
		for i := range g.Nonterms {
			for _, ref := range sortedRefs(la.entry[i]) {
				add := la.carries[i] & la.accept[ref.Sym] &^ explicitLA(ref.Args)
				if la.carries[ref.Sym]|add != la.carries[ref.Sym] {
					la.carries[ref.Sym] |= add
					changed = true
				}
			}
		}
	}
	for i, nt := range g.Nonterms {
		if la.accept[i] != 0 && !la.compat[i] {
			p.illegal("nonterminal %s is on a lookahead-flag chain but has a nullable or optional start", nt.Name)
		}
		if la.uses[i]&^la.carries[i] != 0 {
			p.illegal("lookahead flag used in %s is never provided", nt.Name)
		}
	}
	for _, in := range g.Inputs {
		if la.carries[in.Nonterm] != 0 {
			p.illegal("input-parametrized: input %s would get a lookahead parameter", g.Nonterms[in.Nonterm].Name)
		}
	}
}

func walkSet(s *SetExpr, f func(*SetExpr)) {
	f(s)
	for _, c := range s.Sub {
		walkSet(c, f)
	}
}

func sortedRefs(m map[*Expr]bool) []*Expr {
	// Order does not influence the fixpoints; sort by target for determinism of traces.
	out := make([]*Expr, 0, len(m))
	for e := range m {
		out = append(out, e)
	}
	sort.Slice(out, func(i, j int) bool {
		if out[i].Sym != out[j].Sym {
			return out[i].Sym < out[j].Sym
		}
		return len(out[i].Args) < len(out[j].Args)
	})
	return out
}

// CFG returns the plain rules in the form used by the language enumerator;
// set nonterminals get one rule per terminal of vals[nonterminal index].
func (p *Plain) CFG(setVals map[int]uint32) *CFG {
	c := &CFG{NT: p.NT}
	for _, nt := range p.Nonterms {
		c.Names = append(c.Names, nt.Name)
	}
	c.Rules = append(c.Rules, p.Rules...)
	for i, nt := range p.Nonterms {
		if nt.Kind == PSet {
			v := setVals[i]
			if v == 0 {
				// an empty set leaves a single empty rule (pinned by the repository's tests)
				c.Rules = append(c.Rules, CFGRule{LHS: i})
			}
			for t := 0; t < p.NT; t++ {
				if v&(1<<uint(t)) != 0 {
					c.Rules = append(c.Rules, CFGRule{LHS: i, RHS: []int{t}})
				}
			}
		}
	}
	return c
}
