package xgram

// Shrink greedily simplifies g while failing(g) stays true (at most budget
// evaluations of failing). g is modified in place; edits that do not keep the
// failure are undone. The nonterminal and parameter lists keep their length
// (bodies are simplified instead), so indices stay valid.
func Shrink(g *Grammar, failing func(*Grammar) bool, budget int) (evals int) {
	try := func(apply, undo func()) bool {
		if evals >= budget {
			return false
		}
		apply()
		g.Finish()
		evals++
		if failing(g) {
			return true
		}
		undo()
		g.Finish()
		return false
	}
	termA := func() *Expr { return &Expr{Kind: KTerm, Sym: 0} }
	for progress := true; progress && evals < budget; {
		progress = false
		// 1. whole nonterminal bodies -> a single terminal
		for _, nt := range g.Nonterms {
			if len(nt.Alts) == 1 && len(nt.Alts[0].Parts) == 1 && nt.Alts[0].Parts[0].Kind == KTerm && nt.Alts[0].Pred == nil && nt.Arrow == "" {
				continue
			}
			nt := nt
			oldAlts, oldExt, oldArrow := nt.Alts, nt.ExtendAt, nt.Arrow
			if try(func() { nt.Alts = []*Alt{{Parts: []*Expr{termA()}}}; nt.ExtendAt = 0; nt.Arrow = "" },
				func() { nt.Alts, nt.ExtendAt, nt.Arrow = oldAlts, oldExt, oldArrow }) {
				progress = true
			}
		}
		// 2. named sets / asserts that are not needed
		for len(g.Asserts) > 0 {
			old := g.Asserts
			if !try(func() { g.Asserts = g.Asserts[:len(g.Asserts)-1] }, func() { g.Asserts = old }) {
				break
			}
			progress = true
		}
		// 3. alternatives
		for _, nt := range g.Nonterms {
			nt := nt
			for i := 0; i < len(nt.Alts) && len(nt.Alts) > 1; i++ {
				old, oldExt := nt.Alts, nt.ExtendAt
				if try(func() {
					nt.Alts = append(append([]*Alt(nil), old[:i]...), old[i+1:]...)
					nt.ExtendAt = 0
				}, func() { nt.Alts, nt.ExtendAt = old, oldExt }) {
					progress = true
					i--
				}
			}
			if nt.ExtendAt > 0 {
				old := nt.ExtendAt
				if try(func() { nt.ExtendAt = 0 }, func() { nt.ExtendAt = old }) {
					progress = true
				}
			}
			if nt.Arrow != "" {
				old := nt.Arrow
				if try(func() { nt.Arrow = "" }, func() { nt.Arrow = old }) {
					progress = true
				}
			}
		}
		// 4. inside alternatives
		for _, nt := range g.Nonterms {
			for _, a := range nt.Alts {
				if shrinkAlt(a, try, termA) {
					progress = true
				}
			}
		}
	}
	g.Finish()
	return evals
}

func shrinkAlt(a *Alt, try func(apply, undo func()) bool, termA func() *Expr) bool {
	progress := false
	if a.Pred != nil {
		old := a.Pred
		if try(func() { a.Pred = nil }, func() { a.Pred = old }) {
			progress = true
		} else if old.Op == PAnd || old.Op == POr {
			for _, s := range old.Sub {
				s := s
				if try(func() { a.Pred = s }, func() { a.Pred = old }) {
					progress = true
					break
				}
			}
		}
	}
	if a.Arrow != "" {
		old := a.Arrow
		if try(func() { a.Arrow = "" }, func() { a.Arrow = old }) {
			progress = true
		}
	}
	if a.EmptyMark {
		if try(func() { a.EmptyMark = false }, func() { a.EmptyMark = true }) {
			progress = true
		}
	}
	// remove parts
	for i := 0; i < len(a.Parts); i++ {
		old := a.Parts
		if try(func() { a.Parts = append(append([]*Expr(nil), old[:i]...), old[i+1:]...) }, func() { a.Parts = old }) {
			progress = true
			i--
		}
	}
	// simplify parts
	for i := range a.Parts {
		i := i
		set := func(e *Expr) { a.Parts[i] = e }
		if shrinkExpr(a.Parts[i], set, try, termA) {
			progress = true
		}
	}
	return progress
}

// shrinkExpr tries to replace e (through set) by something simpler and then
// descends into what is left.
func shrinkExpr(e *Expr, set func(*Expr), try func(apply, undo func()) bool, termA func() *Expr) bool {
	progress := false
	cur := e
	replace := func(n *Expr) bool {
		old := cur
		if try(func() { set(n) }, func() { set(old) }) {
			cur = n
			return true
		}
		return false
	}
	if cur.Kind != KTerm {
		if replace(termA()) {
			return true
		}
	}
	// hoist children
	switch cur.Kind {
	case KOpt, KStar, KPlus:
		if replace(cur.Sub[0]) {
			progress = true
		}
	case KSeq:
		for _, s := range cur.Sub {
			if replace(s) {
				progress = true
				break
			}
		}
	case KList:
		if len(cur.Sub) == 1 {
			if replace(cur.Sub[0]) {
				progress = true
			}
		} else if replace(&Expr{Kind: KSeq, Sub: cur.Sub}) {
			progress = true
		}
	case KChoice:
		for _, a := range cur.Alts {
			if a.Pred != nil {
				continue
			}
			var n *Expr
			switch len(a.Parts) {
			case 0:
				continue
			case 1:
				n = a.Parts[0]
			default:
				n = &Expr{Kind: KSeq, Sub: a.Parts}
			}
			if replace(n) {
				progress = true
				break
			}
		}
	}
	e = cur
	if e.Assign != "" {
		old := e.Assign
		if try(func() { e.Assign = "" }, func() { e.Assign = old }) {
			progress = true
		}
	}
	switch e.Kind {
	case KRef, KOptRef:
		for i := 0; i < len(e.Args); i++ {
			old := e.Args
			if try(func() { e.Args = append(append([]Arg(nil), old[:i]...), old[i+1:]...) }, func() { e.Args = old }) {
				progress = true
				i--
			}
		}
	case KList:
		if len(e.Sep) > 1 {
			old := e.Sep
			if try(func() { e.Sep = old[:1] }, func() { e.Sep = old }) {
				progress = true
			}
		}
		if e.RR {
			if try(func() { e.RR = false }, func() { e.RR = true }) {
				progress = true
			}
		}
	case KStar, KPlus:
		if e.RR {
			if try(func() { e.RR = false }, func() { e.RR = true }) {
				progress = true
			}
		}
	case KLook:
		if len(e.LA) > 1 {
			old := e.LA
			if try(func() { e.LA = old[:1] }, func() { e.LA = old }) {
				progress = true
			}
		}
	case KSet:
		if e.Set.Op != SAny || !e.Set.IsTerm {
			old := e.Set
			if try(func() { e.Set = &SetExpr{Op: SAny, IsTerm: true, Sym: 0} }, func() { e.Set = old }) {
				progress = true
			}
		}
	}
	// remove / simplify children
	if e.Kind == KSeq || e.Kind == KList {
		for i := 0; i < len(e.Sub) && len(e.Sub) > 1; i++ {
			old := e.Sub
			if try(func() { e.Sub = append(append([]*Expr(nil), old[:i]...), old[i+1:]...) }, func() { e.Sub = old }) {
				progress = true
				i--
			}
		}
	}
	for i := range e.Sub {
		i := i
		if shrinkExpr(e.Sub[i], func(n *Expr) { e.Sub[i] = n }, try, termA) {
			progress = true
		}
	}
	if e.Kind == KChoice {
		for i := 0; i < len(e.Alts) && len(e.Alts) > 1; i++ {
			old := e.Alts
			if try(func() { e.Alts = append(append([]*Alt(nil), old[:i]...), old[i+1:]...) }, func() { e.Alts = old }) {
				progress = true
				i--
			}
		}
		for _, a := range e.Alts {
			if shrinkAlt(a, try, termA) {
				progress = true
			}
		}
	}
	return progress
}
