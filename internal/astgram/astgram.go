// Package astgram generates grammars for typed AST generation (eventFields /
// eventAST): node types through arrows, categories through %interface, named
// fields (a=X, list+=X), lists, optionals, the same type in two fields,
// recursive nodes, injected tokens, extra types, transparent helper
// nonterminals whose fields surface in their users. A top-down sampler produces
// sentences (C21 observes the tree the generated code builds; it needs no
// expected derivation).
package astgram

import (
	"fmt"
	"math/rand"
	"strings"
)

type Kind int

const (
	KSeq   Kind = iota
	KKw         // keyword / punctuation terminal
	KTok        // injected value token (id, num)
	KRef        // nonterminal reference
	KOpt        // Sub[0]
	KGroup      // alternatives (KSeq each), possibly with arrows
	KList       // Sub[0] element
	KArrow      // (Sub[0] -> Arrow)
)

type Expr struct {
	Kind   Kind
	Sub    []*Expr
	Sym    int
	Field  string // name= / name+=
	Append bool
	Arrow  string
	Sep    int // KList: separator keyword or -1
	Plus   bool
}

type NTKind int

const (
	NNode   NTKind = iota // every rule reports a node
	NCat                  // category: every rule reports exactly one node of the category
	NHelper               // no arrow: fields surface in the users
)

type Rule struct {
	Body  *Expr  // KSeq
	Arrow string // rule-level "-> T" ("" = default of the nonterminal)
	Bare  bool   // category alternative that is a bare reference
}

type Nonterm struct {
	Name  string
	Kind  NTKind
	Arrow string // default arrow (node type or category)
	Rules []*Rule
}

type Grammar struct {
	Kws       []string // keyword texts
	Toks      []string // injected value tokens: names
	Nonterms  []*Nonterm
	Cats      []string
	Types     []string
	Injected  []string // node type names of injected tokens (incl. Comment)
	Comment   bool
	FileNode  bool
	Extra     []string // extraTypes option entries
	EmptyNode bool     // grammar contains arrows around possibly empty content
	TwinLists bool     // two lists whose elements differ in the arrow name only
	Chains    int      // node bodies with two separate chains of same-typed fields, the first ending optional
}

// ---------------------------------------------------------------------------
// generation

type gen struct {
	r      *rand.Rand
	g      *Grammar
	guards int
	fields int
	opt    Options
	nrules []int  // planned number of rules per nonterminal
	uni    []bool // node nonterminal reports one type in all rules
	minEl  int
}

// nodeCtx tracks what the fields of the node under construction already
// contain: two fields with overlapping types are only accepted by the compiler
// when both are required, single and in sequence.
type nodeCtx struct {
	used    map[int]bool // nonterminal -> referenced
	soft    map[int]bool // ... in an optional/list/choice position
	tokUsed map[int]bool
	tokSoft map[int]bool
}

func newCtx() *nodeCtx {
	return &nodeCtx{used: map[int]bool{}, soft: map[int]bool{}, tokUsed: map[int]bool{}, tokSoft: map[int]bool{}}
}

// Options tunes Rand.
type Options struct {
	EmptyNodes bool // allow '%empty -> T' alternatives and arrows around optional content
}

const maxGuards = 23

func (x *gen) guard() (int, bool) {
	if x.guards >= maxGuards {
		return 0, false
	}
	x.guards++
	return x.guards - 1, true
}

func (x *gen) newType() string {
	t := fmt.Sprintf("T%d", len(x.g.Types)+1)
	x.g.Types = append(x.g.Types, t)
	return t
}

func (x *gen) fieldName() string {
	x.fields++
	return fmt.Sprintf("f%s", string(rune('a'+(x.fields-1)%20)))
}

// punct indices live after the guards in Kws.
func (x *gen) punct() *Expr {
	return &Expr{Kind: KKw, Sym: maxGuards + x.r.Intn(3)}
}

const sepKw = maxGuards + 3 // ','

// oneNodeNT picks a nonterminal that yields exactly one node and that the
// context can still take; soft tells whether the reference will sit in an
// optional, list or choice position.
func (x *gen) oneNodeNT(ctx *nodeCtx, soft bool) int {
	var c []int
	for i, n := range x.g.Nonterms {
		if i == 0 || n.Kind == NHelper || x.nrules[i] == 0 {
			continue
		}
		if ctx.used[i] && (soft || ctx.soft[i] || x.r.Intn(2) == 0) {
			continue
		}
		c = append(c, i)
	}
	if len(c) == 0 {
		return -1
	}
	t := c[x.r.Intn(len(c))]
	ctx.used[t] = true
	if soft {
		ctx.soft[t] = true
	}
	return t
}

// oneField: the reference contributes exactly one field, hence may be assigned.
func (x *gen) oneField(nt int) bool {
	n := x.g.Nonterms[nt]
	return n.Kind == NCat || n.Kind == NNode && x.uni[nt]
}

// element generates one field-producing element followed (when needed) by a closer.
func (x *gen) element(nt, depth int, ctx *nodeCtx, inSoft bool) []*Expr {
	r := x.r
	var e *Expr
	needCloser := false
	k := r.Intn(27)
	if depth >= 2 && k >= 14 && k < 20 {
		k = r.Intn(14)
	}
	switch {
	case k >= 25: // two separate chains of same-typed fields, the first one ending with an optional field
		if depth > 0 || inSoft {
			return []*Expr{x.punct()}
		}
		// candidates with pairwise disjoint types: injected tokens and node nonterminals reporting one own type
		type cand struct {
			tok bool
			i   int
		}
		var cs []cand
		for i := range x.g.Toks {
			if !ctx.tokUsed[i] {
				cs = append(cs, cand{true, i})
			}
		}
		for i, n := range x.g.Nonterms {
			if i > 0 && n.Kind == NNode && x.uni[i] && x.nrules[i] > 0 && !ctx.used[i] {
				cs = append(cs, cand{false, i})
			}
		}
		gd, ok := x.guard()
		if len(cs) < 2 || !ok {
			return []*Expr{x.punct()}
		}
		a := r.Intn(len(cs))
		b := r.Intn(len(cs) - 1)
		if b >= a {
			b++
		}
		mk := func(c cand) *Expr {
			if c.tok {
				ctx.tokUsed[c.i], ctx.tokSoft[c.i] = true, true
				return &Expr{Kind: KTok, Sym: c.i, Field: x.fieldName()}
			}
			ctx.used[c.i], ctx.soft[c.i] = true, true
			return &Expr{Kind: KRef, Sym: c.i, Field: x.fieldName()}
		}
		x.g.Chains++
		opt := &Expr{Kind: KOpt, Sub: []*Expr{{Kind: KSeq, Sub: []*Expr{{Kind: KKw, Sym: gd}, mk(cs[a])}}}}
		return []*Expr{mk(cs[a]), opt, x.punct(), mk(cs[b]), x.punct(), mk(cs[b]), x.punct()}
	case k >= 22: // helper nonterminal (more weight)
		k = 12
		fallthrough
	case k == 12 || k == 13:
		var c []int
		for i, n := range x.g.Nonterms {
			if n.Kind == NHelper && i != nt && x.nrules[i] > 0 {
				c = append(c, i)
			}
		}
		if len(c) == 0 {
			return []*Expr{x.punct()}
		}
		e = &Expr{Kind: KRef, Sym: c[r.Intn(len(c))]}
		needCloser = true
	case k == 20: // the same nonterminal in two required fields
		t := x.oneNodeNT(ctx, false)
		if t < 0 || !x.oneField(t) || ctx.soft[t] {
			return []*Expr{x.punct()}
		}
		a := &Expr{Kind: KRef, Sym: t, Field: x.fieldName()}
		b := &Expr{Kind: KRef, Sym: t, Field: x.fieldName()}
		if r.Intn(2) == 0 {
			return []*Expr{a, x.punct(), b}
		}
		return []*Expr{a, b}
	case k == 21: // one field name for different nonterminals in a choice: a field of several types
		name := x.fieldName()
		gr := &Expr{Kind: KGroup}
		for i := 0; i < 2; i++ {
			t := x.oneNodeNT(ctx, true)
			gd, ok := x.guard()
			if t < 0 || !ok || !x.oneField(t) {
				break
			}
			gr.Sub = append(gr.Sub, &Expr{Kind: KSeq, Sub: []*Expr{{Kind: KKw, Sym: gd}, {Kind: KRef, Sym: t, Field: name}}})
		}
		if len(gr.Sub) < 2 {
			return []*Expr{x.punct()}
		}
		return []*Expr{gr, x.punct()}
	case k < 9: // reference to a node/category nonterminal
		shape := r.Intn(10) // 0,1 optional; 2,3 list; else plain
		soft := inSoft || shape < 4
		t := x.oneNodeNT(ctx, soft)
		if t < 0 {
			return []*Expr{x.punct()}
		}
		e = &Expr{Kind: KRef, Sym: t}
		if x.oneField(t) {
			switch r.Intn(10) {
			case 0, 1, 2:
				e.Field = x.fieldName()
			case 3:
				e.Field, e.Append = x.fieldName(), true
			}
		}
		switch shape {
		case 0, 1: // optional
			if e.Field != "" && r.Intn(2) == 0 {
				// name=(X?) vs (name=X)?
				inner := &Expr{Kind: KRef, Sym: t}
				e = &Expr{Kind: KOpt, Sub: []*Expr{inner}, Field: e.Field, Append: e.Append}
			} else {
				e = &Expr{Kind: KOpt, Sub: []*Expr{e}}
			}
			needCloser = true
		case 2, 3: // list
			l := &Expr{Kind: KList, Sep: -1, Plus: r.Intn(2) == 0}
			if r.Intn(3) == 0 {
				l.Sep = sepKw
			}
			if e.Field != "" && r.Intn(2) == 0 {
				l.Sub = []*Expr{{Kind: KRef, Sym: t}}
				l.Field, l.Append = e.Field, e.Append
			} else {
				l.Sub = []*Expr{e}
			}
			e = l
			needCloser = true
		}
	case k < 12: // injected token
		tk := r.Intn(len(x.g.Toks))
		shape := r.Intn(8)
		soft := inSoft || shape < 2
		if ctx.tokUsed[tk] && (soft || ctx.tokSoft[tk] || r.Intn(2) == 0) {
			return []*Expr{x.punct()}
		}
		ctx.tokUsed[tk] = true
		if soft {
			ctx.tokSoft[tk] = true
		}
		e = &Expr{Kind: KTok, Sym: tk}
		if r.Intn(3) == 0 {
			e.Field = x.fieldName()
		}
		switch shape {
		case 0:
			e = &Expr{Kind: KOpt, Sub: []*Expr{e}}
			needCloser = true
		case 1:
			e = &Expr{Kind: KList, Sub: []*Expr{e}, Sep: sepKw, Plus: true}
			needCloser = true
		}
	case k < 17: // nested choice
		gr := &Expr{Kind: KGroup}
		for i, n := 0, 2+r.Intn(2); i < n; i++ {
			gd, ok := x.guard()
			if !ok {
				break
			}
			a := &Expr{Kind: KSeq, Sub: []*Expr{{Kind: KKw, Sym: gd}}}
			arrow := r.Intn(3) == 0
			if r.Intn(4) > 0 {
				if arrow {
					a.Sub = append(a.Sub, x.element(nt, depth+1, newCtx(), false)...)
				} else {
					a.Sub = append(a.Sub, x.element(nt, depth+1, ctx, true)...)
				}
			}
			if arrow {
				a = &Expr{Kind: KSeq, Sub: []*Expr{{Kind: KArrow, Sub: []*Expr{a}, Arrow: x.newType()}}}
			}
			gr.Sub = append(gr.Sub, a)
		}
		if len(gr.Sub) == 0 {
			return []*Expr{x.punct()}
		}
		e = gr
		if r.Intn(4) == 0 {
			e = &Expr{Kind: KOpt, Sub: []*Expr{gr}}
			needCloser = true
		}
	default: // inline arrow
		gd, ok := x.guard()
		if !ok {
			return []*Expr{x.punct()}
		}
		a := &Expr{Kind: KSeq, Sub: []*Expr{{Kind: KKw, Sym: gd}}}
		a.Sub = append(a.Sub, x.element(nt, depth+1, newCtx(), false)...)
		e = &Expr{Kind: KArrow, Sub: []*Expr{a}, Arrow: x.newType()}
		if r.Intn(3) == 0 {
			e.Field = x.fieldName()
		}
		switch r.Intn(6) {
		case 0:
			e = &Expr{Kind: KOpt, Sub: []*Expr{e}}
			needCloser = true
		case 1:
			e = &Expr{Kind: KList, Sub: []*Expr{e}, Sep: -1, Plus: r.Intn(2) == 0}
			needCloser = true
		}
	}
	out := []*Expr{e}
	if needCloser || r.Intn(4) == 0 {
		out = append(out, x.punct())
	}
	return out
}

func (x *gen) body(nt int, guarded bool, maxEl int) *Expr {
	s := &Expr{Kind: KSeq}
	if guarded {
		gd, ok := x.guard()
		if !ok {
			return nil
		}
		s.Sub = append(s.Sub, &Expr{Kind: KKw, Sym: gd})
	}
	ctx := newCtx()
	n := x.r.Intn(maxEl + 1)
	if n < x.minEl {
		n = x.minEl
	}
	for i := 0; i < n; i++ {
		s.Sub = append(s.Sub, x.element(nt, 0, ctx, false)...)
	}
	return s
}

// Rand generates a random typed-AST grammar.
func Rand(r *rand.Rand, opt Options) *Grammar {
	g := &Grammar{}
	x := &gen{r: r, g: g, opt: opt}
	for i := 0; i < maxGuards; i++ {
		g.Kws = append(g.Kws, string(rune('a'+i)))
	}
	g.Kws = append(g.Kws, ";", ":", ".", ",")
	g.Toks = []string{"id"}
	g.Injected = []string{"Ident"}
	if r.Intn(2) == 0 {
		g.Toks = append(g.Toks, "num")
		g.Injected = append(g.Injected, "Num")
	}
	g.Comment = r.Intn(2) == 0
	if g.Comment {
		g.Injected = append(g.Injected, "Comment")
	}
	g.FileNode = r.Intn(2) == 0

	nCat := 1 + r.Intn(2)
	for i := 0; i < nCat; i++ {
		g.Cats = append(g.Cats, fmt.Sprintf("Cat%d", i+1))
	}
	// nonterminal skeleton: root, categories, nodes, helpers
	g.Nonterms = append(g.Nonterms, &Nonterm{Name: "Root", Kind: NNode, Arrow: "Root"})
	for i := 0; i < nCat; i++ {
		g.Nonterms = append(g.Nonterms, &Nonterm{Name: fmt.Sprintf("C%d", i+1), Kind: NCat, Arrow: g.Cats[i]})
	}
	for i, n := 0, r.Intn(3); i < n; i++ {
		g.Nonterms = append(g.Nonterms, &Nonterm{Name: fmt.Sprintf("N%d", i+1), Kind: NNode})
	}
	for i, n := 0, r.Intn(3); i < n; i++ {
		g.Nonterms = append(g.Nonterms, &Nonterm{Name: fmt.Sprintf("H%d", i+1), Kind: NHelper})
	}
	// plan: rule counts (guards are reserved first so that nested choices cannot starve a nonterminal)
	x.nrules = make([]int, len(g.Nonterms))
	x.uni = make([]bool, len(g.Nonterms))
	hkind := make([]int, len(g.Nonterms))
	reserved := make([][]int, len(g.Nonterms))
	for i, n := range g.Nonterms {
		switch n.Kind {
		case NNode:
			x.nrules[i] = 1 + r.Intn(2)
			if i == 0 {
				x.nrules[i] = 1
			}
			x.uni[i] = r.Intn(3) > 0
		case NCat:
			x.nrules[i] = 2 + r.Intn(2)
		case NHelper:
			hkind[i] = r.Intn(3)
			x.nrules[i] = 1
			if hkind[i] == 2 {
				x.nrules[i] = 1 + r.Intn(2)
			}
		}
		for k := 0; k < x.nrules[i]; k++ {
			gd, _ := x.guard()
			reserved[i] = append(reserved[i], gd)
		}
	}
	body := func(i, k, maxEl int) *Expr {
		b := x.body(i, false, maxEl)
		b.Sub = append([]*Expr{{Kind: KKw, Sym: reserved[i][k]}}, b.Sub...)
		return b
	}
	for i, n := range g.Nonterms {
		switch n.Kind {
		case NNode:
			if i == 0 {
				n.Rules = []*Rule{{Body: body(i, 0, 4)}}
				break
			}
			if x.uni[i] {
				n.Arrow = x.newType()
			} else if r.Intn(2) == 0 {
				n.Arrow = x.newType()
			}
			for k := 0; k < x.nrules[i]; k++ {
				ru := &Rule{Body: body(i, k, 3)}
				if n.Arrow == "" || !x.uni[i] && (k > 0 || r.Intn(2) == 0) {
					ru.Arrow = x.newType()
				}
				n.Rules = append(n.Rules, ru)
			}
			if x.nrules[i] == 1 {
				x.uni[i] = true
			}
			if opt.EmptyNodes && n.Arrow != "" && r.Intn(3) == 0 {
				n.Rules = append(n.Rules, &Rule{Body: &Expr{Kind: KSeq}})
				g.EmptyNode = true
			}
		case NCat:
			for k := 0; k < x.nrules[i]; k++ {
				n.Rules = append(n.Rules, &Rule{Body: body(i, k, 3), Arrow: x.newType()})
			}
			if r.Intn(3) == 0 {
				// bare reference to a later one-node nonterminal
				var c []int
				for j := i + 1; j < len(g.Nonterms); j++ {
					if g.Nonterms[j].Kind != NHelper {
						c = append(c, j)
					}
				}
				if len(c) > 0 {
					t := c[r.Intn(len(c))]
					n.Rules = append(n.Rules, &Rule{Bare: true, Body: &Expr{Kind: KSeq, Sub: []*Expr{{Kind: KRef, Sym: t}}}})
				}
			}
		case NHelper:
			switch hkind[i] {
			case 0: // left-recursive list
				x.minEl = 1
				el := body(i, 0, 2)
				x.minEl = 0
				rec := &Expr{Kind: KSeq, Sub: append([]*Expr{{Kind: KRef, Sym: i}}, cloneExprs(el.Sub)...)}
				n.Rules = []*Rule{{Body: rec}, {Body: el}}
			case 1: // optional helper
				n.Rules = []*Rule{{Body: body(i, 0, 2)}, {Body: &Expr{Kind: KSeq}}}
			default:
				for k := 0; k < x.nrules[i]; k++ {
					n.Rules = append(n.Rules, &Rule{Body: body(i, k, 2)})
				}
			}
		}
	}
	if r.Intn(100) < 60 {
		x.twinLists()
	}
	if r.Intn(2) == 0 {
		g.Extra = append(g.Extra, "Extra1")
		// a category that is used by the reachable part of the grammar
		reach := g.reachable()
		var c []string
		for i, n := range g.Nonterms {
			if n.Kind == NCat && reach[i] {
				c = append(c, n.Arrow)
			}
		}
		if len(c) > 0 {
			g.Extra = append(g.Extra, "Extra2 -> "+c[r.Intn(len(c))])
		}
	}
	return g
}

// twinLists appends to two rule bodies lists whose elements are identical except
// for the node name after '->': "(id -> Ta)+" and "(id -> Tb)+".
func (x *gen) twinLists() {
	g, r := x.g, x.r
	reach := g.reachable()
	var bodies []*Expr
	for i, n := range g.Nonterms {
		if !reach[i] {
			continue
		}
		for _, ru := range n.Rules {
			if len(ru.Body.Sub) > 0 && !ru.Bare && !(n.Kind == NHelper && ru.Body.Sub[0].Kind == KRef) {
				bodies = append(bodies, ru.Body)
			}
		}
	}
	if len(bodies) == 0 {
		return
	}
	tok := r.Intn(len(g.Toks))
	sep := -1
	if r.Intn(2) == 0 {
		sep = sepKw
	}
	plus := r.Intn(3) > 0
	for i := 0; i < 2; i++ {
		b := bodies[r.Intn(len(bodies))]
		el := &Expr{Kind: KArrow, Arrow: x.newType(), Sub: []*Expr{{Kind: KSeq, Sub: []*Expr{{Kind: KTok, Sym: tok}}}}}
		l := &Expr{Kind: KList, Sep: sep, Plus: plus, Sub: []*Expr{el}}
		b.Sub = append(b.Sub, x.punct(), l, x.punct())
	}
	g.TwinLists = true
}

func (g *Grammar) reachable() []bool {
	seen := make([]bool, len(g.Nonterms))
	var visit func(e *Expr)
	var visitNT func(i int)
	visit = func(e *Expr) {
		if e.Kind == KRef {
			visitNT(e.Sym)
		}
		for _, s := range e.Sub {
			visit(s)
		}
	}
	visitNT = func(i int) {
		if seen[i] {
			return
		}
		seen[i] = true
		for _, r := range g.Nonterms[i].Rules {
			visit(r.Body)
		}
	}
	visitNT(0)
	return seen
}

func cloneExprs(es []*Expr) []*Expr {
	out := make([]*Expr, len(es))
	for i, e := range es {
		c := *e
		c.Sub = cloneExprs(e.Sub)
		out[i] = &c
	}
	return out
}

// ---------------------------------------------------------------------------
// printing

func kwName(s string) string { return "'" + s + "'" }

func (g *Grammar) exprText(e *Expr, b *strings.Builder) {
	if e.Field != "" {
		b.WriteString(e.Field)
		if e.Append {
			b.WriteString("+=")
		} else {
			b.WriteString("=")
		}
	}
	switch e.Kind {
	case KKw:
		b.WriteString(kwName(g.Kws[e.Sym]))
	case KTok:
		b.WriteString(g.Toks[e.Sym])
	case KRef:
		b.WriteString(g.Nonterms[e.Sym].Name)
	case KSeq:
		for i, s := range e.Sub {
			if i > 0 {
				b.WriteByte(' ')
			}
			g.exprText(s, b)
		}
	case KOpt:
		in := e.Sub[0]
		if in.Field != "" || in.Kind == KSeq {
			b.WriteByte('(')
			g.exprText(in, b)
			b.WriteString(")?")
		} else {
			g.exprText(in, b)
			b.WriteByte('?')
		}
	case KGroup:
		b.WriteByte('(')
		for i, a := range e.Sub {
			if i > 0 {
				b.WriteString(" | ")
			}
			if len(a.Sub) == 1 && a.Sub[0].Kind == KArrow && a.Sub[0].Field == "" {
				g.exprText(a.Sub[0].Sub[0], b)
				fmt.Fprintf(b, " -> %s", a.Sub[0].Arrow)
			} else {
				g.exprText(a, b)
			}
		}
		b.WriteByte(')')
	case KList:
		in := e.Sub[0]
		if e.Sep >= 0 {
			b.WriteByte('(')
			g.exprText(in, b)
			fmt.Fprintf(b, " separator %s)", kwName(g.Kws[e.Sep]))
		} else if in.Field != "" || in.Kind == KSeq {
			b.WriteByte('(')
			g.exprText(in, b)
			b.WriteByte(')')
		} else {
			g.exprText(in, b)
		}
		if e.Plus {
			b.WriteByte('+')
		} else {
			b.WriteByte('*')
		}
	case KArrow:
		b.WriteByte('(')
		g.exprText(e.Sub[0], b)
		fmt.Fprintf(b, " -> %s)", e.Arrow)
	}
}

// Text renders the grammar for package w/<pkg>.
func (g *Grammar) Text(pkg string) string {
	var b strings.Builder
	fmt.Fprintf(&b, "language %s(go);\n\nlang = \"%s\"\npackage = \"w/%s\"\neventBased = true\neventFields = true\neventAST = true\n", pkg, pkg, pkg)
	if g.FileNode {
		b.WriteString("fileNode = \"Root\"\n")
	}
	if len(g.Extra) > 0 {
		b.WriteString("extraTypes = [")
		for i, e := range g.Extra {
			if i > 0 {
				b.WriteString(", ")
			}
			fmt.Fprintf(&b, "%q", e)
		}
		b.WriteString("]\n")
	}
	b.WriteString("\n:: lexer\n\nspace: /[ \\t\\r\\n]+/ (space)\n")
	if g.Comment {
		b.WriteString("comment: /#[a-w]*/ (space)\n")
	}
	b.WriteString("id: /[x-z]+/\n")
	if len(g.Toks) > 1 {
		b.WriteString("num: /[0-9]+/\n")
	}
	for _, k := range g.Kws {
		fmt.Fprintf(&b, "%s: /%s/\n", kwName(k), escapeRE(k))
	}
	b.WriteString("\n:: parser\n\n%input Root;\n\n")
	b.WriteString("%inject id -> Ident;\n")
	if len(g.Toks) > 1 {
		b.WriteString("%inject num -> Num;\n")
	}
	if g.Comment {
		b.WriteString("%inject comment -> Comment;\n")
	}
	fmt.Fprintf(&b, "\n%%interface %s;\n\n", strings.Join(g.Cats, ", "))
	for _, n := range g.Nonterms {
		b.WriteString(n.Name)
		if n.Arrow != "" {
			fmt.Fprintf(&b, " -> %s", n.Arrow)
		}
		b.WriteString(" :\n")
		for k, ru := range n.Rules {
			if k == 0 {
				b.WriteString("    ")
			} else {
				b.WriteString("  | ")
			}
			if len(ru.Body.Sub) == 0 {
				b.WriteString("%empty")
			} else {
				g.exprText(ru.Body, &b)
			}
			if ru.Arrow != "" {
				fmt.Fprintf(&b, " -> %s", ru.Arrow)
			}
			b.WriteString("\n")
		}
		b.WriteString(";\n\n")
	}
	return b.String()
}

func escapeRE(s string) string {
	switch s {
	case ".", "(", ")", "+", "*", "?", "|", "[", "]", "{", "}", "\\", "/":
		return "\\" + s
	}
	return s
}

// ---------------------------------------------------------------------------
// sampling

const inf = 1 << 30

func (g *Grammar) height(h []int, e *Expr) int {
	switch e.Kind {
	case KKw, KTok, KOpt:
		return 0
	case KRef:
		return h[e.Sym]
	case KList:
		if !e.Plus {
			return 0
		}
		return g.height(h, e.Sub[0])
	case KGroup:
		m := inf
		for _, a := range e.Sub {
			if v := g.height(h, a); v < m {
				m = v
			}
		}
		return m
	default:
		m := 0
		for _, s := range e.Sub {
			if v := g.height(h, s); v > m {
				m = v
			}
		}
		return m
	}
}

func (g *Grammar) minRules() ([]int, []int) {
	n := len(g.Nonterms)
	h, best := make([]int, n), make([]int, n)
	for i := range h {
		h[i], best[i] = inf, -1
	}
	for changed := true; changed; {
		changed = false
		for i, nt := range g.Nonterms {
			for k, r := range nt.Rules {
				if v := g.height(h, r.Body); v < inf && v+1 < h[i] {
					h[i], best[i] = v+1, k
					changed = true
				}
			}
		}
	}
	return best, h
}

// Productive reports whether every nonterminal derives a terminal string.
func (g *Grammar) Productive() bool {
	best, _ := g.minRules()
	for _, b := range best {
		if b < 0 {
			return false
		}
	}
	return true
}

// Tok is a sampled token: a keyword (Kw >= 0) or a value token.
type Tok struct {
	Kw   int
	Text string
}

// XNode is a node the annotations create for a derivation: type, token span
// [S,T) and the index of its parent node (-1: top).
type XNode struct {
	Type   string
	S, T   int
	Parent int
}

type sampler struct {
	g       *Grammar
	r       *rand.Rand
	budget  int
	depth   int
	out     []Tok
	best, h []int
	nodes   []XNode
	cur     int // innermost open node
	isCat   map[string]bool
}

func (s *sampler) open(typ string) int {
	s.nodes = append(s.nodes, XNode{Type: typ, S: len(s.out), Parent: s.cur})
	s.cur = len(s.nodes) - 1
	return s.cur
}

func (s *sampler) close(i int) {
	s.nodes[i].T = len(s.out)
	s.cur = s.nodes[i].Parent
}

// Sample derives a sentence of Root.
func (g *Grammar) Sample(r *rand.Rand, budget int) []Tok {
	toks, _ := g.SampleTree(r, budget)
	return toks
}

// SampleTree derives a sentence of Root together with the nodes the grammar's
// own annotations create for it (injected tokens not included), in pre-order.
func (g *Grammar) SampleTree(r *rand.Rand, budget int) ([]Tok, []XNode) {
	best, h := g.minRules()
	s := &sampler{g: g, r: r, budget: budget, best: best, h: h, cur: -1, isCat: map[string]bool{}}
	for _, c := range g.Cats {
		s.isCat[c] = true
	}
	s.nonterm(0)
	return s.out, s.nodes
}

func (s *sampler) nonterm(nt int) {
	n := s.g.Nonterms[nt]
	s.depth++
	defer func() { s.depth-- }()
	ri := s.r.Intn(len(n.Rules))
	if s.budget <= 0 || s.depth > 40 {
		ri = s.best[nt]
	}
	s.budget -= 2
	ru := n.Rules[ri]
	typ := ru.Arrow
	if typ == "" && !s.isCat[n.Arrow] {
		typ = n.Arrow
	}
	if typ != "" {
		id := s.open(typ)
		s.expr(ru.Body)
		s.close(id)
		return
	}
	s.expr(ru.Body)
}

func (s *sampler) expr(e *Expr) {
	switch e.Kind {
	case KKw:
		s.out = append(s.out, Tok{Kw: e.Sym, Text: s.g.Kws[e.Sym]})
		s.budget--
	case KTok:
		var t string
		if s.g.Toks[e.Sym] == "id" {
			t = []string{"x", "y", "zz", "xyz"}[s.r.Intn(4)]
		} else {
			t = []string{"0", "7", "42", "1234"}[s.r.Intn(4)]
		}
		s.out = append(s.out, Tok{Kw: -1, Text: t})
		s.budget--
	case KRef:
		s.nonterm(e.Sym)
	case KArrow:
		id := s.open(e.Arrow)
		for _, sub := range e.Sub {
			s.expr(sub)
		}
		s.close(id)
	case KSeq:
		for _, sub := range e.Sub {
			s.expr(sub)
		}
	case KOpt:
		if s.budget > 0 && s.r.Intn(2) == 0 {
			s.expr(e.Sub[0])
		}
	case KGroup:
		alt := e.Sub[s.r.Intn(len(e.Sub))]
		if s.budget <= 0 {
			alt = e.Sub[0]
			for _, a := range e.Sub[1:] {
				if s.g.height(s.h, a) < s.g.height(s.h, alt) {
					alt = a
				}
			}
		}
		s.expr(alt)
	case KList:
		k := 0
		if e.Plus {
			k = 1
		}
		if s.budget > 0 {
			k += s.r.Intn(4)
			if s.r.Intn(12) == 0 {
				k += s.r.Intn(8)
			}
		}
		for i := 0; i < k; i++ {
			if i > 0 && e.Sep >= 0 {
				s.out = append(s.out, Tok{Kw: e.Sep, Text: s.g.Kws[e.Sep]})
			}
			s.expr(e.Sub[0])
		}
	}
}

// Render turns tokens into text with irregular whitespace and (when the grammar
// injects comments) comments between tokens. Without a file node nothing is put
// before the first or after the last token: the tree builder demands a single root.
func (g *Grammar) Render(r *rand.Rand, toks []Tok) string {
	text, _ := g.RenderPos(r, toks)
	return text
}

// RenderPos is Render that also returns the byte range of every token.
func (g *Grammar) RenderPos(r *rand.Rand, toks []Tok) (string, [][2]int) {
	pos := make([][2]int, len(toks))
	var b strings.Builder
	ws := []string{" ", "  ", "\n", " \t", "\n\n  "}
	comment := func() {
		if g.Comment && r.Intn(5) == 0 {
			b.WriteString("#" + []string{"", "a", "note", "bc"}[r.Intn(4)])
			b.WriteString(ws[r.Intn(len(ws))])
		}
	}
	if g.FileNode {
		if r.Intn(4) == 0 {
			b.WriteString(ws[r.Intn(len(ws))])
		}
		comment()
	}
	for i, t := range toks {
		if i > 0 {
			b.WriteString(ws[r.Intn(len(ws))])
			comment()
		}
		pos[i][0] = b.Len()
		b.WriteString(t.Text)
		pos[i][1] = b.Len()
	}
	if g.FileNode {
		if g.Comment && r.Intn(5) == 0 {
			b.WriteString(ws[r.Intn(len(ws))] + "#end")
		}
		if r.Intn(3) == 0 {
			b.WriteString(ws[r.Intn(len(ws))])
		}
	}
	return b.String(), pos
}

// ---------------------------------------------------------------------------
// what the annotations say about the tree shape

// ChildTypes returns, for every node type, the node types that the grammar's
// annotations can place directly below it (injected tokens are not included):
// the arrows met in the arrow's content without crossing another arrow, looking
// through category arrows, bare alternatives and arrow-less nonterminals.
func (g *Grammar) ChildTypes() map[string]map[string]bool {
	out := map[string]map[string]bool{}
	isCat := map[string]bool{}
	for _, c := range g.Cats {
		isCat[c] = true
	}
	add := func(parent, child string) {
		if out[parent] == nil {
			out[parent] = map[string]bool{}
		}
		out[parent][child] = true
	}
	// tops(nt): node types a reference to nt can contribute at the current level
	var collect func(e *Expr, parent string, seen map[int]bool)
	var ruleInto func(nt int, parent string, seen map[int]bool)
	ruleInto = func(nt int, parent string, seen map[int]bool) {
		if seen[nt] {
			return
		}
		seen[nt] = true
		n := g.Nonterms[nt]
		for _, ru := range n.Rules {
			typ := ru.Arrow
			if typ == "" && !isCat[n.Arrow] {
				typ = n.Arrow
			}
			if typ != "" {
				add(parent, typ)
				continue
			}
			collect(ru.Body, parent, seen)
		}
		delete(seen, nt)
	}
	collect = func(e *Expr, parent string, seen map[int]bool) {
		switch e.Kind {
		case KArrow:
			add(parent, e.Arrow)
			return
		case KRef:
			ruleInto(e.Sym, parent, seen)
			return
		}
		for _, s := range e.Sub {
			collect(s, parent, seen)
		}
	}
	var define func(e *Expr)
	define = func(e *Expr) {
		if e.Kind == KArrow {
			if out[e.Arrow] == nil {
				out[e.Arrow] = map[string]bool{}
			}
			collect(e.Sub[0], e.Arrow, map[int]bool{})
		}
		for _, s := range e.Sub {
			define(s)
		}
	}
	for _, n := range g.Nonterms {
		for _, ru := range n.Rules {
			typ := ru.Arrow
			if typ == "" && !isCat[n.Arrow] {
				typ = n.Arrow
			}
			if typ != "" {
				if out[typ] == nil {
					out[typ] = map[string]bool{}
				}
				collect(ru.Body, typ, map[int]bool{})
			}
			define(ru.Body)
		}
	}
	return out
}
