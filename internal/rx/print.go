package rx

import (
	"fmt"
	"math/rand"
	"strings"
	"unicode/utf8"
)

// Printer renders an AST as textmapper regexp syntax, choosing at random among
// spellings that the syntax description gives the same meaning.
type Printer struct {
	R    *rand.Rand
	Mode Mode
	// Canon selects one fixed, boring spelling (for reading evidence).
	Canon bool
}

func (p *Printer) pick(n int) int {
	if p.Canon || n <= 1 {
		return 0
	}
	return p.R.Intn(n)
}

// Print renders the whole pattern.
func (p *Printer) Print(n *Node) string {
	var b strings.Builder
	if n.Kind == KFold && p.pick(2) == 0 {
		// (?i) at the very start applies to the rest of the pattern
		if n.On {
			b.WriteString("(?i)")
		} else {
			b.WriteString("(?-i)")
		}
		p.node(&b, n.Sub[0], 0)
		return b.String()
	}
	p.node(&b, n, 0)
	return b.String()
}

// level: 0 alternation allowed, 1 concatenation element, 2 operand of a quantifier.
func (p *Printer) node(b *strings.Builder, n *Node, level int) {
	switch n.Kind {
	case KEmpty:
		b.WriteString("()")
	case KChar:
		p.char(b, n.R)
	case KAny:
		b.WriteString(".")
	case KClass:
		p.class(b, n.Class)
	case KNamed:
		fmt.Fprintf(b, "{%s}", n.Name)
	case KEOI:
		b.WriteString("{eoi}")
	case KQuote:
		if level == 2 {
			p.open(b)
			defer b.WriteString(")")
		}
		b.WriteString(`\Q`)
		b.WriteString(n.Text)
		b.WriteString(`\E`)
	case KCat:
		if len(n.Sub) == 0 {
			b.WriteString("()")
			return
		}
		paren := level == 2 || (len(n.Sub) > 0 && level == 1 && p.pick(4) == 0)
		if paren {
			p.open(b)
		}
		for _, s := range n.Sub {
			p.node(b, s, 1)
		}
		if paren {
			b.WriteString(")")
		}
	case KAlt:
		paren := level >= 1
		if paren {
			p.open(b)
		}
		for i, s := range n.Sub {
			if i > 0 {
				b.WriteString("|")
			}
			if s.Kind == KEmpty && p.pick(2) == 0 {
				continue // an empty alternative
			}
			p.node(b, s, 1)
		}
		if paren {
			b.WriteString(")")
		}
	case KRep:
		if level == 2 {
			// never stack quantifier characters: (a+)* rather than a+*
			p.open(b)
			defer b.WriteString(")")
		}
		p.node(b, n.Sub[0], 2)
		p.quant(b, n.Min, n.Max)
	case KFold:
		flag := "i"
		if !n.On {
			flag = "-i"
		}
		if p.pick(2) == 0 {
			fmt.Fprintf(b, "(?%s:", flag)
		} else {
			fmt.Fprintf(b, "((?%s)", flag)
		}
		p.node(b, n.Sub[0], 0)
		b.WriteString(")")
	default:
		panic("rx: print: bad kind")
	}
}

func (p *Printer) open(b *strings.Builder) {
	if p.pick(4) == 0 {
		b.WriteString("(?:")
	} else {
		b.WriteString("(")
	}
}

func (p *Printer) quant(b *strings.Builder, min, max int) {
	alt := p.pick(3) == 0
	switch {
	case min == 0 && max == -1 && !alt:
		b.WriteString("*")
	case min == 1 && max == -1 && !alt:
		b.WriteString("+")
	case min == 0 && max == 1 && !alt:
		b.WriteString("?")
	case max == -1:
		fmt.Fprintf(b, "{%d,}", min)
	case min == max && !alt:
		fmt.Fprintf(b, "{%d}", min)
	default:
		fmt.Fprintf(b, "{%d,%d}", min, max)
	}
}

func (p *Printer) hex(v rune, width int) string {
	s := fmt.Sprintf("%0*x", width, v)
	if p.Canon {
		return s
	}
	bs := []byte(s)
	up := p.R.Intn(3) // 0 lower, 1 upper, 2 mixed
	for i, c := range bs {
		if c >= 'a' && c <= 'f' && (up == 1 || up == 2 && p.R.Intn(2) == 0) {
			bs[i] = c - 'a' + 'A'
		}
	}
	return string(bs)
}

func isAlnum(r rune) bool {
	return r >= 'a' && r <= 'z' || r >= 'A' && r <= 'Z' || r >= '0' && r <= '9'
}

func encodable(r rune) bool {
	return r >= 0 && r <= MaxRune && !(r >= 0xD800 && r <= 0xDFFF)
}

var namedEsc = map[rune]string{'\a': `\a`, '\f': `\f`, '\n': `\n`, '\r': `\r`, '\t': `\t`, '\v': `\v`}

// numeric returns the numeric escape spellings of r that are unambiguous in the
// given position.
func (p *Printer) numeric(r rune, inClass bool) []string {
	var out []string
	highByteStandalone := p.Mode.Bytes && !inClass && r >= 0x80 && r <= 0xff
	highByteInClass := p.Mode.Bytes && inClass && r >= 0x80
	if r <= 0xff && !highByteStandalone {
		out = append(out, `\x`+p.hex(r, 2), fmt.Sprintf(`\%03o`, r))
	}
	if !highByteStandalone {
		out = append(out, `\x{`+p.hex(r, 1+p.pick(3))+`}`)
	}
	if highByteInClass {
		return out
	}
	if r <= 0xffff {
		out = append(out, `\u`+p.hex(r, 4))
	}
	out = append(out, `\U`+p.hex(r, 8), `\u{`+p.hex(r, 1)+`}`, `\U{`+p.hex(r, 1+p.pick(6))+`}`)
	return out
}

// rawStandalone reports whether r may be written as itself outside a class.
func rawStandalone(r rune) bool {
	if !encodable(r) || r < 0x20 || r == 0x7f {
		return false
	}
	return !strings.ContainsRune(`.()|\[{*+?]}^$/`, r)
}

// rawInClass reports whether r may be written as itself inside a class.
func (p *Printer) rawInClass(r rune) bool {
	if !encodable(r) || r < 0x20 || r == 0x7f {
		return false
	}
	if p.Mode.Bytes && r >= 0x80 {
		return false
	}
	return !strings.ContainsRune(`]\-^[.`, r)
}

func escapablePunct(r rune) bool {
	return r >= 0x20 && r < 0x7f && !isAlnum(r)
}

func (p *Printer) char(b *strings.Builder, r rune) {
	var opts []string
	if rawStandalone(r) {
		s := string(r)
		opts = append(opts, s, s, s)
	}
	if escapablePunct(r) {
		opts = append(opts, `\`+string(r), `\`+string(r))
	}
	if e, ok := namedEsc[r]; ok {
		opts = append(opts, e, e)
	}
	if p.Canon && len(opts) > 0 {
		b.WriteString(opts[0])
		return
	}
	opts = append(opts, p.numeric(r, false)...)
	if !(p.Mode.Bytes && r >= 0x80) {
		var cb strings.Builder
		cb.WriteString("[")
		p.itemChar(&cb, r)
		cb.WriteString("]")
		opts = append(opts, cb.String())
	}
	b.WriteString(opts[p.pick(len(opts))])
}

// itemChar writes one class member character.
func (p *Printer) itemChar(b *strings.Builder, r rune) {
	var opts []string
	if p.rawInClass(r) {
		s := string(r)
		opts = append(opts, s, s, s)
	}
	if escapablePunct(r) {
		opts = append(opts, `\`+string(r), `\`+string(r))
	}
	if e, ok := namedEsc[r]; ok {
		opts = append(opts, e, e)
	}
	if p.Canon && len(opts) > 0 {
		b.WriteString(opts[0])
		return
	}
	opts = append(opts, p.numeric(r, true)...)
	b.WriteString(opts[p.pick(len(opts))])
}

func (p *Printer) item(b *strings.Builder, it Item, rangeOnly bool) {
	switch it.Kind {
	case IChar:
		p.itemChar(b, it.Lo)
		if rangeOnly {
			b.WriteString("-")
			p.itemChar(b, it.Lo)
		}
	case IRange:
		p.itemChar(b, it.Lo)
		b.WriteString("-")
		p.itemChar(b, it.Hi)
	case IPerl:
		c := it.Name
		if it.Neg {
			c = strings.ToUpper(c)
		}
		b.WriteString(`\` + c)
	case IProp:
		// \p{N} \P{^N} | \P{N} \p{^N} | \pN \PN for one-letter names
		k := p.pick(3)
		if k == 2 && len(it.Name) != 1 {
			k = p.pick(2)
		}
		letter, caret := "p", ""
		if it.Neg {
			letter = "P"
		}
		if k == 1 {
			caret = "^"
			if letter == "p" {
				letter = "P"
			} else {
				letter = "p"
			}
		}
		if k == 2 {
			b.WriteString(`\` + letter + it.Name)
		} else {
			b.WriteString(`\` + letter + "{" + caret + it.Name + "}")
		}
	}
}

func (p *Printer) class(b *strings.Builder, c *Class) {
	if c.Bare {
		p.item(b, c.Items[0], false)
		return
	}
	b.WriteString("[")
	if c.Neg {
		b.WriteString("^")
	}
	items := append([]Item(nil), c.Items...)
	if !p.Canon {
		p.R.Shuffle(len(items), func(i, j int) { items[i], items[j] = items[j], items[i] })
	}
	for i, it := range items {
		// a single character right before "-[" or "-\d" would read as a range start
		p.item(b, it, len(c.Subs) > 0 && i == len(items)-1)
	}
	for _, s := range c.Subs {
		b.WriteString("-")
		p.class(b, s)
	}
	b.WriteString("]")
}

// PrintClass renders a class on its own.
func (p *Printer) PrintClass(c *Class) string {
	var b strings.Builder
	p.class(&b, c)
	return b.String()
}

// Encode returns the text bytes for a code point in the given mode: in byte mode
// a value below 0x100 taken from a class is that single byte.
func Encode(r rune, bytes bool) string {
	if bytes && r <= 0xff {
		return string([]byte{byte(r)})
	}
	var buf [4]byte
	n := utf8.EncodeRune(buf[:], r)
	return string(buf[:n])
}
