package rx

import (
	"fmt"
	"unicode/utf8"
)

// nstate is a Thompson NFA state: either a consuming state (set / eoi) with one
// successor, or an ε state with any number of successors, or an accepting state.
type nstate struct {
	set    Set   // consuming: symbols accepted
	eoi    bool  // consuming: the end-of-input pseudo symbol
	next   int   // successor of a consuming state
	eps    []int // ε successors
	accept int   // rule index + 1 (0: not accepting)
}

// NFA is a set of rule automata sharing one state space.
type NFA struct {
	Mode   Mode
	states []nstate
	starts []int // per rule
	// Ambiguous is set when some class in a rule has an inexact denotation
	// (Must != May); the matcher then uses Must and verdicts must not be drawn.
	Ambiguous bool
	mark      []uint32
	gen       uint32
}

// Rule is one lexer rule of the model.
type Rule struct {
	RE     *Node
	Prec   int
	Action int
	SCs    []int
}

// Lexer is the lexer model.
type Lexer struct {
	Mode  Mode
	Rules []Rule
	Defs  Defs
	nfa   *NFA
}

// NewLexer builds the NFA for all rules.
func NewLexer(m Mode, rules []Rule, defs Defs) *Lexer {
	l := &Lexer{Mode: m, Rules: rules, Defs: defs}
	n := &NFA{Mode: m}
	for i, r := range rules {
		acc := n.add(nstate{accept: i + 1})
		st := n.build(r.RE, m.Fold, defs, acc, 0)
		n.starts = append(n.starts, st)
	}
	n.mark = make([]uint32, len(n.states))
	l.nfa = n
	return l
}

// Ambiguous reports whether some class had an inexact denotation.
func (l *Lexer) Ambiguous() bool { return l.nfa.Ambiguous }

// States returns the NFA size.
func (l *Lexer) States() int { return len(l.nfa.states) }

func (n *NFA) add(s nstate) int {
	n.states = append(n.states, s)
	return len(n.states) - 1
}

// build returns the entry state of an automaton for node that continues at 'next'.
func (n *NFA) build(node *Node, fold bool, defs Defs, next int, depth int) int {
	if depth > 64 {
		panic("rx: named patterns nested too deep")
	}
	m := n.Mode
	switch node.Kind {
	case KEmpty:
		return next
	case KChar:
		return n.char(node.R, fold, next)
	case KQuote:
		rs := []rune(node.Text)
		for i := len(rs) - 1; i >= 0; i-- {
			next = n.char(rs[i], fold, next)
		}
		return next
	case KAny:
		return n.add(nstate{set: NewSet('\n', '\n').Complement(m.max()), next: next})
	case KClass:
		iv := ClassInterval(node.Class, m, fold)
		if !iv.Exact() {
			n.Ambiguous = true
		}
		return n.add(nstate{set: iv.Must, next: next})
	case KEOI:
		return n.add(nstate{eoi: true, next: next})
	case KCat:
		for i := len(node.Sub) - 1; i >= 0; i-- {
			next = n.build(node.Sub[i], fold, defs, next, depth)
		}
		return next
	case KAlt:
		var eps []int
		for _, s := range node.Sub {
			eps = append(eps, n.build(s, fold, defs, next, depth))
		}
		return n.add(nstate{eps: eps})
	case KFold:
		return n.build(node.Sub[0], node.On, defs, next, depth)
	case KNamed:
		d := defs[node.Name]
		if d == nil {
			panic("rx: undefined pattern " + node.Name)
		}
		// A named pattern is parsed on its own with the initial fold option.
		return n.build(d, m.Fold, defs, next, depth+1)
	case KRep:
		sub := node.Sub[0]
		if node.Max == -1 {
			// loop: L = ε(sub→L, next)
			loop := n.add(nstate{})
			body := n.build(sub, fold, defs, loop, depth)
			n.states[loop].eps = []int{body, next}
			entry := loop
			if node.Min > 0 {
				entry = body // at least once: enter the body, which returns to the loop
				for i := 1; i < node.Min; i++ {
					entry = n.build(sub, fold, defs, entry, depth)
				}
			}
			return entry
		}
		// optional copies, innermost first
		for i := node.Max - node.Min; i > 0; i-- {
			body := n.build(sub, fold, defs, next, depth)
			// each optional copy can be skipped (then all later ones are skipped too)
			next = n.add(nstate{eps: []int{body, next}})
		}
		for i := 0; i < node.Min; i++ {
			next = n.build(sub, fold, defs, next, depth)
		}
		return next
	}
	panic(fmt.Sprint("rx: bad kind ", node.Kind))
}

func (n *NFA) char(r rune, fold bool, next int) int {
	m := n.Mode
	if m.Bytes && r >= 0x80 {
		// matched as the bytes of its UTF-8 encoding; no folding outside ASCII
		var buf [4]byte
		k := utf8.EncodeRune(buf[:], r)
		for i := k - 1; i >= 0; i-- {
			b := rune(buf[i])
			next = n.add(nstate{set: Set{b, b}, next: next})
		}
		return next
	}
	s := Set{r, r}
	if fold {
		s = NewSet()
		for _, f := range Orbit(r, m.Bytes) {
			s = s.Union(Set{f, f})
		}
	}
	return n.add(nstate{set: s, next: next})
}

// closure adds state i and everything reachable by ε to out.
func (n *NFA) closure(i int, out []int) []int {
	if n.mark[i] == n.gen {
		return out
	}
	n.mark[i] = n.gen
	st := &n.states[i]
	if st.eps == nil {
		return append(out, i) // consuming or accepting
	}
	for _, e := range st.eps {
		out = n.closure(e, out)
	}
	return out
}

func (n *NFA) newGen() {
	n.gen++
	if n.gen == 0 {
		for i := range n.mark {
			n.mark[i] = 0
		}
		n.gen = 1
	}
}

// Result is what the model says about one scan.
type Result struct {
	Size int // token length in bytes
	Rule int // winning rule index, -1 for the invalid token
	// Live is the length of the longest prefix after which some active rule could
	// still be extended (including complete matches).
	Live int
	// Backtracked: the longest live prefix is longer than the returned match, or
	// end-of-input transitions were tried beyond it.
	Backtracked bool
	// EOISteps is the number of end-of-input pseudo symbols consumed by live states.
	EOISteps int
	// EOIWin: the winning match consumed at least one end-of-input symbol.
	EOIWin bool
	// Tie is set when, at some prefix, two rules with different actions and the
	// same (highest) precedence both matched: the rule set is ambiguous.
	Tie    [2]int
	HasTie bool
}

// Scan runs the model from start condition sc.
func (l *Lexer) Scan(sc int, text string) Result {
	n := l.nfa
	res := Result{Rule: -1}
	var cur, nxt []int
	n.newGen()
	for i, r := range l.Rules {
		for _, c := range r.SCs {
			if c == sc {
				cur = n.closure(n.starts[i], cur)
				break
			}
		}
	}
	pos := 0
	bestSize := -1
	bestEOI := 0
	record := func(size int) {
		best := -1
		for _, s := range cur {
			a := n.states[s].accept
			if a == 0 {
				continue
			}
			ri := a - 1
			switch {
			case best < 0 || l.Rules[ri].Prec > l.Rules[best].Prec:
				best = ri
			}
		}
		if best < 0 {
			return
		}
		for _, s := range cur {
			if a := n.states[s].accept; a != 0 {
				ri := a - 1
				if l.Rules[ri].Prec == l.Rules[best].Prec && l.Rules[ri].Action != l.Rules[best].Action && !res.HasTie {
					res.HasTie = true
					res.Tie = [2]int{best, ri}
				}
			}
		}
		if size > 0 || res.EOISteps > 0 {
			bestSize, res.Rule, bestEOI = size, best, res.EOISteps
		}
	}
	limit := len(n.states) + 2
	for len(cur) > 0 {
		nxt = nxt[:0]
		n.newGen()
		if pos < len(text) {
			var r rune
			w := 1
			if l.Mode.Bytes {
				r = rune(text[pos])
			} else {
				r, w = utf8.DecodeRuneInString(text[pos:])
			}
			for _, s := range cur {
				st := &n.states[s]
				if st.accept == 0 && !st.eoi && st.set.Contains(r) {
					nxt = n.closure(st.next, nxt)
				}
			}
			if len(nxt) == 0 {
				break
			}
			pos += w
		} else {
			for _, s := range cur {
				st := &n.states[s]
				if st.eoi {
					nxt = n.closure(st.next, nxt)
				}
			}
			if len(nxt) == 0 || res.EOISteps >= limit {
				break
			}
			res.EOISteps++
		}
		cur, nxt = nxt, cur
		res.Live = pos
		record(pos)
	}
	if bestSize >= 0 {
		res.Size = bestSize
		res.EOIWin = bestEOI > 0
		res.Backtracked = res.Live > bestSize || res.EOISteps > bestEOI
	} else {
		res.Size = res.Live
		res.Rule = -1
	}
	return res
}

// MatchLens returns all prefix lengths of text matched by rule i alone (no EOI
// stepping beyond a single end-of-input position: {eoi} matches at the end).
func (l *Lexer) MatchLens(i int, text string) []int {
	n := l.nfa
	var cur, nxt []int
	n.newGen()
	cur = n.closure(n.starts[i], cur)
	var out []int
	pos := 0
	check := func() {
		for _, s := range cur {
			if n.states[s].accept != 0 {
				if len(out) == 0 || out[len(out)-1] != pos {
					out = append(out, pos)
				}
				return
			}
		}
	}
	check()
	steps := 0
	for len(cur) > 0 {
		nxt = nxt[:0]
		n.newGen()
		if pos < len(text) {
			var r rune
			w := 1
			if l.Mode.Bytes {
				r = rune(text[pos])
			} else {
				r, w = utf8.DecodeRuneInString(text[pos:])
			}
			for _, s := range cur {
				st := &n.states[s]
				if st.accept == 0 && !st.eoi && st.set.Contains(r) {
					nxt = n.closure(st.next, nxt)
				}
			}
			pos += w
		} else {
			for _, s := range cur {
				if st := &n.states[s]; st.eoi {
					nxt = n.closure(st.next, nxt)
				}
			}
			steps++
			if steps > len(n.states)+2 {
				break
			}
		}
		cur, nxt = nxt, cur
		if len(cur) > 0 {
			check()
		}
	}
	return out
}
