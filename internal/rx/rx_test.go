package rx

import (
	"math/rand"
	"reflect"
	"sort"
	"strings"
	"testing"
	"unicode"
	"unicode/utf8"
)

// Self-validation of the oracle: set algebra against maps, Unicode tables against
// unicode.Is, and the Thompson NFA against a compositional "set of end positions"
// evaluator (a different algorithm) on random ASTs.

func toMap(s Set, max rune) map[rune]bool {
	m := map[rune]bool{}
	for c := rune(0); c <= max; c++ {
		if s.Contains(c) {
			m[c] = true
		}
	}
	return m
}

func TestSetAlgebra(t *testing.T) {
	r := rand.New(rand.NewSource(1))
	const max = 40
	randSet := func() Set {
		var p []rune
		for i := r.Intn(5); i > 0; i-- {
			lo := rune(r.Intn(max + 1))
			p = append(p, lo, lo+rune(r.Intn(6)))
		}
		return NewSet(p...).Clip(max)
	}
	for i := 0; i < 20000; i++ {
		a, b := randSet(), randSet()
		ma, mb := toMap(a, max), toMap(b, max)
		for k := 0; k+2 < len(a); k += 2 {
			if a[k+1]+1 >= a[k+2] {
				t.Fatalf("not normalised: %v", a)
			}
		}
		u, in, mi, co := a.Union(b), a.Intersect(b), a.Minus(b), a.Complement(max)
		n := 0
		for c := rune(0); c <= max; c++ {
			if u.Contains(c) != (ma[c] || mb[c]) || in.Contains(c) != (ma[c] && mb[c]) || mi.Contains(c) != (ma[c] && !mb[c]) || co.Contains(c) == ma[c] {
				t.Fatalf("a=%v b=%v c=%d u=%v in=%v mi=%v co=%v", a, b, c, u, in, mi, co)
			}
			if ma[c] {
				if a.Nth(n) != c {
					t.Fatalf("Nth(%d) of %v = %d want %d", n, a, a.Nth(n), c)
				}
				n++
			}
		}
		if n != a.Size() {
			t.Fatalf("size %v", a)
		}
	}
}

func TestTables(t *testing.T) {
	seen := map[string]string{}
	check := func(kind string, m map[string]*unicode.RangeTable) {
		for name, tab := range m {
			if k, dup := seen[name]; dup {
				t.Errorf("name %s in both %s and %s", name, k, kind)
			}
			seen[name] = kind
			s, ok := NamedSet(name)
			if !ok {
				t.Fatalf("NamedSet(%s)", name)
			}
			for c := rune(0); c <= MaxRune; c++ {
				if unicode.Is(tab, c) != s.Contains(c) {
					t.Fatalf("%s: U+%04X", name, c)
				}
			}
		}
	}
	check("category", unicode.Categories)
	if !testing.Short() {
		check("script", unicode.Scripts)
		check("property", unicode.Properties)
	}
}

func TestFoldClose(t *testing.T) {
	s := FoldClose(NewSet('k', 'k', 's', 's', 0x3c3, 0x3c3), false)
	want := NewSet('K', 'K', 'k', 'k', 0x212a, 0x212a, 'S', 'S', 's', 's', 0x17f, 0x17f, 0x3c3, 0x3c3, 0x3c2, 0x3c2, 0x3a3, 0x3a3)
	if !s.Equal(want) {
		t.Fatalf("%x want %x", s, want)
	}
	if b := FoldClose(NewSet('k', 'k', 0xe0, 0xe0, 0xb5, 0xb5), true); !b.Equal(NewSet('K', 'K', 'k', 'k', 0xe0, 0xe0, 0xb5, 0xb5)) {
		t.Fatalf("%x", b)
	}
	// closure is idempotent and contains whole orbits
	all := FoldClose(Set{0, MaxRune}, false)
	if !all.Equal(Set{0, MaxRune}) {
		t.Fatal("closure of everything")
	}
	lu, _ := NamedSet("Lu")
	c := FoldClose(lu, false)
	for _, r := range Foldable() {
		if c.Contains(r) != c.Contains(unicode.SimpleFold(r)) {
			t.Fatalf("orbit split at U+%04X", r)
		}
	}
	if !c.Equal(lu.Union(TableSet(unicode.FoldCategory["Lu"]))) {
		t.Fatal("closure of Lu differs from Lu ∪ FoldCategory[Lu]")
	}
}

// ends computes {end positions} of matches of n starting at any position of 'from'.
type ev struct {
	m    Mode
	defs Defs
	text string
}

func (e *ev) sym(p int) (rune, int) {
	if e.m.Bytes {
		return rune(e.text[p]), 1
	}
	return utf8.DecodeRuneInString(e.text[p:])
}

func (e *ev) charSet(c rune, fold bool) Set {
	if !fold {
		return Set{c, c}
	}
	var s Set
	for _, f := range Orbit(c, e.m.Bytes) {
		s = s.Union(Set{f, f})
	}
	return s
}

func (e *ev) ends(n *Node, fold bool, from map[int]bool) map[int]bool {
	out := map[int]bool{}
	one := func(set Set) {
		for p := range from {
			if p < len(e.text) {
				if r, w := e.sym(p); set.Contains(r) {
					out[p+w] = true
				}
			}
		}
	}
	switch n.Kind {
	case KEmpty:
		return from
	case KEOI:
		if from[len(e.text)] {
			out[len(e.text)] = true
		}
	case KChar:
		if e.m.Bytes && n.R >= 0x80 {
			enc := string(n.R)
			for p := range from {
				if strings.HasPrefix(e.text[p:], enc) {
					out[p+len(enc)] = true
				}
			}
			return out
		}
		one(e.charSet(n.R, fold))
	case KQuote:
		cur := from
		for _, c := range n.Text {
			cur = e.ends(Ch(c), fold, cur)
		}
		return cur
	case KAny:
		one(NewSet('\n', '\n').Complement(e.m.max()))
	case KClass:
		one(ClassInterval(n.Class, e.m, fold).Must)
	case KCat:
		cur := from
		for _, s := range n.Sub {
			cur = e.ends(s, fold, cur)
		}
		return cur
	case KAlt:
		for _, s := range n.Sub {
			for p := range e.ends(s, fold, from) {
				out[p] = true
			}
		}
	case KFold:
		return e.ends(n.Sub[0], n.On, from)
	case KNamed:
		return e.ends(e.defs[n.Name], e.m.Fold, from)
	case KRep:
		cur := from
		for i := 0; i < n.Min; i++ {
			cur = e.ends(n.Sub[0], fold, cur)
		}
		for p := range cur {
			out[p] = true
		}
		for i := n.Min; n.Max == -1 || i < n.Max; i++ {
			cur = e.ends(n.Sub[0], fold, cur)
			grew := false
			for p := range cur {
				if !out[p] {
					out[p] = true
					grew = true
				}
			}
			if !grew && n.Max == -1 {
				break
			}
			if len(cur) == 0 {
				break
			}
		}
	}
	return out
}

func TestNFAAgainstPositionSets(t *testing.T) {
	matched, multi, none, total := 0, 0, 0, 0
	defer func() {
		t.Logf("texts %d: with match %d, several match lengths %d, no match %d", total, matched, multi, none)
	}()
	for seed := int64(1); seed <= 4000; seed++ {
		r := rand.New(rand.NewSource(seed))
		m := Mode{Bytes: r.Intn(3) == 0, Fold: r.Intn(3) == 0}
		alpha := PickAlphabet(r, m)
		defs := Defs{}
		g := &Gen{R: r, Mode: m, Alpha: alpha, Defs: defs, Props: true, FoldGroup: true, Quote: true, EmptyBits: true, MaxRep: 5}
		defs["d0"] = g.Rule(3)
		g.Names = []string{"d0"}
		re := g.Rule(2 + r.Intn(8))
		if r.Intn(4) == 0 {
			re = Cat(re, &Node{Kind: KEOI})
		}
		lx := NewLexer(m, []Rule{{RE: re, Action: 2, SCs: []int{0}}}, defs)
		sm := &Sampler{R: r, Mode: m, Defs: defs}
		for k := 0; k < 12; k++ {
			var b strings.Builder
			sm.Sentence(&b, re, m.Fold, 0)
			text := b.String()
			switch r.Intn(4) {
			case 0:
				if len(text) > 0 {
					text = text[:r.Intn(len(text))]
				}
			case 1:
				text += Encode(alpha[r.Intn(len(alpha))], false)
			case 2:
				var b2 strings.Builder
				sm.Sentence(&b2, re, m.Fold, 0)
				text += b2.String()
			}
			e := &ev{m: m, defs: defs, text: text}
			set := e.ends(re, m.Fold, map[int]bool{0: true})
			var want []int
			for p := range set {
				want = append(want, p)
			}
			sort.Ints(want)
			total++
			switch {
			case len(want) > 1:
				multi++
				matched++
			case len(want) == 1:
				matched++
			default:
				none++
			}
			got := lx.MatchLens(0, text)
			if len(got) == 0 {
				got = nil
			}
			if !reflect.DeepEqual(got, want) {
				p := &Printer{R: r, Mode: m, Canon: true}
				t.Fatalf("seed %d mode %+v re %s text %q: nfa %v, position sets %v", seed, m, p.Print(re), text, got, want)
			}
			// Scan of a single rule: longest non-empty match
			res := lx.Scan(0, text)
			wantSize := -1
			for _, p := range want {
				if p > 0 {
					wantSize = p
				}
			}
			if wantSize >= 0 && (res.Rule != 0 || res.Size != wantSize) || wantSize < 0 && res.Rule != -1 {
				if !(wantSize < 0 && res.Rule == 0 && res.Size == 0 && res.EOIWin) {
					t.Fatalf("seed %d: Scan %+v, want size %d (lens %v) text %q", seed, res, wantSize, want, text)
				}
			}
		}
	}
}

func TestPrinterDeterministic(t *testing.T) {
	m := Mode{}
	g := &Gen{R: rand.New(rand.NewSource(5)), Mode: m, Alpha: []rune("ab"), Props: true, FoldGroup: true, Quote: true, EmptyBits: true, MaxRep: 16}
	re := g.Rule(10)
	a := (&Printer{R: rand.New(rand.NewSource(9)), Mode: m}).Print(re)
	b := (&Printer{R: rand.New(rand.NewSource(9)), Mode: m}).Print(re)
	if a != b {
		t.Fatal("printer not deterministic")
	}
}
