package rx

import (
	"fmt"
	"math/rand"
)

// Gen generates random ASTs.
type Gen struct {
	R    *rand.Rand
	Mode Mode
	// Alpha is the small alphabet most characters are drawn from, so that rules of
	// one set overlap.
	Alpha []rune
	Defs  Defs
	Names []string // defined pattern names usable as {name}
	// feature switches
	Props     bool // \p{..} classes (rune mode only)
	FoldGroup bool // (?i:..) groups
	Quote     bool // \Q..\E
	EmptyBits bool // (), empty alternatives
	// PropNames are the \p{..} names to draw from (default SomeProps).
	PropNames []string
	// ASCIIClasses keeps class members of byte mode below 0x80 (ranges may still cross).
	ASCIIClasses bool
	// MaxChar, if set, is the largest code point that may be mentioned (rune mode); used
	// to keep the whole symbol map of a lexer below a given bound.
	MaxChar rune
	MaxRep  int // largest repetition bound (<= 16)
	// ExactOnly rejects classes whose denotation is an interval (fold + predefined
	// class, fold + subtraction with differing readings).
	ExactOnly bool

	inFold  bool // current fold state while generating
	offMode bool // inside a (?i:) group whose state differs from Mode.Fold
	star    bool // rule contains an unbounded repetition: keep counted bounds small
}

var (
	poolASCII  = []rune("abcxyzABCXYZkKsS019_-+$ .*/\"'\\()[]{}|?^#=<>!,:;@&%~`\t\n")
	poolBMP    = []rune{0xe9, 0xc9, 0x3b1, 0x391, 0x3c3, 0x3c2, 0x3a3, 0xdf, 0x17f, 0x212a, 0xb5, 0x39c, 0x3bc, 0xff, 0xf7, 0x100, 0x101, 0x7ff, 0x800, 0x2028, 0xfeff, 0xfffd, 0xffff, 0xd7ff, 0xe000, 0x80, 0xa0}
	poolAstral = []rune{0x1f600, 0x1d49c, 0x10400, 0x10428, 0x10000, 0x10ffff, 0xfffff}
)

// PickAlphabet draws a small alphabet for one rule set.
func PickAlphabet(r *rand.Rand, m Mode) []rune {
	n := 3 + r.Intn(4)
	var out []rune
	seen := map[rune]bool{}
	for len(out) < n {
		var c rune
		switch k := r.Intn(10); {
		case k < 6:
			c = poolASCII[r.Intn(len(poolASCII))]
		case k < 9:
			c = poolBMP[r.Intn(len(poolBMP))]
		default:
			c = poolAstral[r.Intn(len(poolAstral))]
		}
		if len(out) == 0 && r.Intn(2) == 0 {
			c = rune("abks"[r.Intn(4)])
		}
		if !seen[c] {
			seen[c] = true
			out = append(out, c)
		}
	}
	return out
}

func (g *Gen) fold() bool { return g.inFold }

// ByteFoldTrap reports the two non-ASCII characters whose case orbit contains
// ASCII letters (U+017F, U+212A). Byte mode with case folding is probed on them
// separately (C10); random rule sets stay away.
func ByteFoldTrap(c rune) bool { return c == 0x17f || c == 0x212a }

// char draws a literal character (never one that no text can contain).
func (g *Gen) char() rune {
	for {
		c := g.char0()
		if g.Mode.Bytes && ByteFoldTrap(c) {
			continue
		}
		if g.MaxChar > 0 && c > g.MaxChar {
			continue
		}
		return c
	}
}

func (g *Gen) char0() rune {
	if len(g.Alpha) > 0 && g.R.Intn(8) != 0 {
		c := g.Alpha[g.R.Intn(len(g.Alpha))]
		if g.R.Intn(6) == 0 {
			// a case variant of an alphabet character
			o := Orbit(c, false)
			c = o[g.R.Intn(len(o))]
		}
		return c
	}
	switch k := g.R.Intn(10); {
	case k < 6:
		return poolASCII[g.R.Intn(len(poolASCII))]
	case k < 9:
		return poolBMP[g.R.Intn(len(poolBMP))]
	}
	return poolAstral[g.R.Intn(len(poolAstral))]
}

// classChar draws a code point for a class member (byte mode: a byte).
func (g *Gen) classChar() rune {
	c := g.char()
	if g.Mode.Bytes && g.ASCIIClasses {
		return c & 0x7f
	}
	if g.Mode.Bytes {
		if c > 0xff {
			c = 0x80 + c%0x80
		}
		if g.R.Intn(6) == 0 {
			c = rune(0x80 + g.R.Intn(0x80))
		}
		return c
	}
	if g.R.Intn(25) == 0 {
		s := []rune{0, 0x7f, 0x80, 0xd800, 0xdfff, 0xfffd, 0x10ffff, 0xffff, 0x10000}[g.R.Intn(9)]
		if g.MaxChar == 0 || s <= g.MaxChar {
			return s
		}
	}
	return c
}

// CasedLetters are letters with case variants: ASCII, Latin-1, Greek (σ ς Σ and µ μ Μ have
// three-member orbits), Cyrillic, a titlecase digraph (ǅ: three members), Kelvin/long s (their
// orbits contain ASCII letters) and Deseret (four UTF-8 bytes).
var CasedLetters = []rune{'a', 'Z', 'k', 's', 0xe9, 0xc9, 0x3b3, 0x393, 0x3c3, 0x3c2, 0x3a3, 0xb5, 0x39c, 0x3bc, 0x436, 0x416, 0x451, 0x401, 0x1c5, 0x1c4, 0x1c6, 0x212a, 0x17f, 0x10428, 0x10400, 0x1e921}

var perlNames = []string{"d", "w", "s"}

// SomeProps is a small set of frequently used names (the default of Gen.PropNames);
// C10 sweeps all names.
var SomeProps = []string{"L", "Lu", "Ll", "Lt", "N", "Nd", "P", "Z", "S", "Sm", "M", "C", "Cc", "Greek", "Latin", "Cyrillic", "Han", "Common", "Inherited", "White_Space", "Hex_Digit", "ASCII_Hex_Digit", "Other_Lowercase", "Dash", "Any"}

func (g *Gen) item() Item {
	switch k := g.R.Intn(20); {
	case k < 7:
		return Item{Kind: IChar, Lo: g.classChar()}
	case k < 15:
		lo := g.classChar()
		span := []rune{0, 1, 2, 5, 25, 60, 300, 5000, 70000}[g.R.Intn(9)]
		hi := lo + g.R.Int31n(int32(span)+1)
		if hi > g.Mode.max() {
			hi = g.Mode.max()
		}
		if g.MaxChar > 0 && hi >= g.MaxChar {
			hi = g.MaxChar - 1 // hi+1 is a boundary of the symbol map
			if hi < lo {
				hi = lo
			}
		}
		if g.R.Intn(8) == 0 {
			// a range ending at an alphabet character
			c := g.classChar()
			if c >= lo {
				hi = c
			}
		}
		return Item{Kind: IRange, Lo: lo, Hi: hi}
	case k < 18 || !g.Props || g.Mode.Bytes:
		return Item{Kind: IPerl, Name: perlNames[g.R.Intn(3)], Neg: g.R.Intn(4) == 0}
	default:
		names := g.PropNames
		if len(names) == 0 {
			names = SomeProps
		}
		return Item{Kind: IProp, Name: names[g.R.Intn(len(names))], Neg: g.R.Intn(5) == 0}
	}
}

// matchable is the set of code points a text can deliver in this mode.
func matchable(m Mode) Set {
	if m.Bytes {
		return Set{0, 0xff}
	}
	return Set{0, 0xd7ff, 0xe000, MaxRune}
}

// Class draws a bracket class (or a bare escape) with a non-empty matchable denotation.
func (g *Gen) Class() *Class {
	for try := 0; ; try++ {
		c := g.class(0)
		iv := ClassInterval(c, g.Mode, g.fold())
		if iv.Must.Intersect(matchable(g.Mode)).Empty() {
			continue
		}
		if g.ExactOnly && !iv.Exact() {
			if try < 20 {
				continue
			}
			return &Class{Items: []Item{{Kind: IChar, Lo: 'a'}}}
		}
		return c
	}
}

func (g *Gen) class(depth int) *Class {
	if g.R.Intn(6) == 0 {
		it := g.item()
		for it.Kind != IPerl && it.Kind != IProp {
			it = g.item()
			if !g.Props || g.Mode.Bytes {
				it = Item{Kind: IPerl, Name: perlNames[g.R.Intn(3)], Neg: g.R.Intn(3) == 0}
			}
		}
		return &Class{Bare: true, Items: []Item{it}}
	}
	c := &Class{Neg: g.R.Intn(5) == 0}
	n := 1 + g.R.Intn(3)
	if g.R.Intn(8) == 0 {
		n += g.R.Intn(5)
	}
	for i := 0; i < n; i++ {
		c.Items = append(c.Items, g.item())
	}
	if depth < 2 && g.R.Intn(6) == 0 {
		k := 1 + g.R.Intn(2)
		for i := 0; i < k; i++ {
			c.Subs = append(c.Subs, g.class(depth+1))
		}
	}
	return c
}

func (g *Gen) rep(n *Node) *Node {
	max := g.MaxRep
	if max == 0 {
		max = 4
	}
	if g.star && max > 4 {
		max = 4
	}
	switch k := g.R.Intn(12); {
	case k < 3:
		g.star = true
		return Rep(n, 0, -1)
	case k < 6:
		g.star = true
		return Rep(n, 1, -1)
	case k < 8:
		return Rep(n, 0, 1)
	case k == 8:
		a := g.R.Intn(max + 1)
		return Rep(n, a, a)
	case k == 9:
		g.star = true
		a := g.R.Intn(4)
		return Rep(n, a, -1)
	default:
		a := g.R.Intn(max + 1)
		b := a + g.R.Intn(max-a+1)
		if b == 0 {
			b = 1
		}
		return Rep(n, a, b)
	}
}

func (g *Gen) atom() *Node {
	switch k := g.R.Intn(20); {
	case k < 9:
		return Ch(g.char())
	case k < 15:
		return Cls(g.Class())
	case k == 15:
		return &Node{Kind: KAny}
	case k == 16 && len(g.Names) > 0 && !g.offMode:
		return &Node{Kind: KNamed, Name: g.Names[g.R.Intn(len(g.Names))]}
	case k == 17 && g.Quote:
		n := 1 + g.R.Intn(4)
		var rs []rune
		for len(rs) < n {
			c := g.char()
			if g.R.Intn(3) == 0 {
				// cased letters outside ASCII (2-4 bytes, orbits of two and three members): quoted
				// text is folded character by character like unquoted text
				c = CasedLetters[g.R.Intn(len(CasedLetters))]
			}
			if c == '\\' || !encodable(c) || g.Mode.Bytes && ByteFoldTrap(c) || g.MaxChar > 0 && c > g.MaxChar {
				continue
			}
			rs = append(rs, c)
		}
		return &Node{Kind: KQuote, Text: string(rs)}
	case k == 18 && g.EmptyBits:
		return &Node{Kind: KEmpty}
	}
	return Ch(g.char())
}

// Regex draws a regular expression of roughly the given size budget.
func (g *Gen) Regex(budget int) *Node {
	if budget <= 1 {
		a := g.atom()
		if g.R.Intn(3) == 0 {
			return g.rep(a)
		}
		return a
	}
	switch k := g.R.Intn(20); {
	case k < 8: // concatenation
		n := 2 + g.R.Intn(3)
		var subs []*Node
		for i := 0; i < n; i++ {
			subs = append(subs, g.Regex(budget/n))
		}
		return Cat(subs...)
	case k < 12: // alternation
		n := 2 + g.R.Intn(2)
		var subs []*Node
		for i := 0; i < n; i++ {
			if g.EmptyBits && g.R.Intn(12) == 0 {
				subs = append(subs, &Node{Kind: KEmpty})
				continue
			}
			subs = append(subs, g.Regex(budget/n))
		}
		return Alt(subs...)
	case k < 15: // repetition of something bigger
		saved := g.MaxRep
		if budget > 2 && g.MaxRep > 6 {
			g.MaxRep = 6 // keep the product of nested bounds moderate
		}
		sub := g.Regex(budget / 2)
		g.MaxRep = saved
		return g.rep(sub)
	case k == 15 && g.FoldGroup:
		on := g.R.Intn(3) != 0
		sf, so := g.inFold, g.offMode
		g.inFold = on
		g.offMode = on != g.Mode.Fold
		sub := g.Regex(budget - 1)
		g.inFold, g.offMode = sf, so
		return &Node{Kind: KFold, On: on, Sub: []*Node{sub}}
	case k == 16: // literal word
		n := 2 + g.R.Intn(4)
		var subs []*Node
		for i := 0; i < n; i++ {
			subs = append(subs, Ch(g.char()))
		}
		return Cat(subs...)
	}
	return g.Regex(budget - 1)
}

// Reset clears the per-rule generator state.
func (g *Gen) Reset() {
	g.inFold = g.Mode.Fold
	g.offMode = false
	g.star = false
}

// Rule draws a complete rule pattern. Resets the per-rule state.
func (g *Gen) Rule(budget int) *Node {
	g.Reset()
	return g.Regex(budget)
}

// Count returns the number of NFA-relevant leaves after expanding repetitions
// (an estimate of the automaton size), following named references.
func Count(n *Node, defs Defs) int {
	switch n.Kind {
	case KEmpty:
		return 0
	case KChar, KAny, KClass, KEOI:
		return 1
	case KQuote:
		return len(n.Text)
	case KNamed:
		if d := defs[n.Name]; d != nil {
			return Count(d, defs)
		}
		return 1
	case KRep:
		c := Count(n.Sub[0], defs)
		k := n.Max
		if k < 0 {
			k = n.Min + 1
		}
		if k == 0 {
			k = 1
		}
		return c*k + 1
	}
	t := 1
	for _, s := range n.Sub {
		t += Count(s, defs)
	}
	return t
}

// Describe gives a short structural tag of a node for coverage keys.
func Describe(n *Node) string {
	switch n.Kind {
	case KRep:
		return fmt.Sprintf("rep{%d,%d}", n.Min, n.Max)
	case KChar:
		return "char"
	case KClass:
		return "class"
	}
	return fmt.Sprint("kind", int(n.Kind))
}
