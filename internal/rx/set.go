// Package rx is an independent reference model of textmapper's lexer regular
// expressions: an abstract syntax with a random generator, printers that spell
// one AST in many equivalent ways, a denotation of character classes as plain
// code point sets, a Thompson-NFA matcher over runes or bytes and a lexer model
// (start conditions, longest match, priority, invalid-token extent).
//
// Nothing in this package imports the code under test.
package rx

import (
	"sort"
	"sync"
	"unicode"
)

// MaxRune is the largest code point of rune mode; MaxByte of byte mode.
const (
	MaxRune = rune(0x10FFFF)
	MaxByte = rune(0xFF)
)

// Set is a set of code points: sorted, disjoint, non-adjacent closed ranges
// stored as lo0,hi0,lo1,hi1...
type Set []rune

// NewSet normalises an arbitrary list of lo,hi pairs.
func NewSet(pairs ...rune) Set {
	type rg struct{ lo, hi rune }
	var rs []rg
	for i := 0; i+1 < len(pairs); i += 2 {
		if pairs[i] <= pairs[i+1] {
			rs = append(rs, rg{pairs[i], pairs[i+1]})
		}
	}
	sort.Slice(rs, func(i, j int) bool { return rs[i].lo < rs[j].lo })
	var out Set
	for _, r := range rs {
		if n := len(out); n > 0 && r.lo <= out[n-1]+1 {
			if r.hi > out[n-1] {
				out[n-1] = r.hi
			}
			continue
		}
		out = append(out, r.lo, r.hi)
	}
	return out
}

// Contains reports membership.
func (s Set) Contains(r rune) bool {
	// first range with hi >= r
	n := len(s) / 2
	i := sort.Search(n, func(i int) bool { return s[2*i+1] >= r })
	return i < n && s[2*i] <= r
}

// Empty reports whether the set has no element.
func (s Set) Empty() bool { return len(s) == 0 }

// Size is the number of code points.
func (s Set) Size() int {
	n := 0
	for i := 0; i < len(s); i += 2 {
		n += int(s[i+1]-s[i]) + 1
	}
	return n
}

// Nth returns the i-th smallest member (0-based); i must be < Size().
func (s Set) Nth(i int) rune {
	for k := 0; k < len(s); k += 2 {
		n := int(s[k+1]-s[k]) + 1
		if i < n {
			return s[k] + rune(i)
		}
		i -= n
	}
	return -1
}

// Union returns s ∪ o.
func (s Set) Union(o Set) Set {
	if len(o) == 0 {
		return s
	}
	if len(s) == 0 {
		return o
	}
	all := make([]rune, 0, len(s)+len(o))
	all = append(all, s...)
	all = append(all, o...)
	return NewSet(all...)
}

// Complement returns [0,max] \ s.
func (s Set) Complement(max rune) Set {
	var out Set
	next := rune(0)
	for i := 0; i < len(s); i += 2 {
		lo, hi := s[i], s[i+1]
		if lo > max {
			break
		}
		if lo > next {
			out = append(out, next, lo-1)
		}
		next = hi + 1
	}
	if next <= max {
		out = append(out, next, max)
	}
	return out
}

// Intersect returns s ∩ o.
func (s Set) Intersect(o Set) Set {
	var out Set
	i, j := 0, 0
	for i < len(s) && j < len(o) {
		lo, hi := s[i], s[i+1]
		if o[j] > lo {
			lo = o[j]
		}
		if o[j+1] < hi {
			hi = o[j+1]
		}
		if lo <= hi {
			out = append(out, lo, hi)
		}
		if s[i+1] < o[j+1] {
			i += 2
		} else {
			j += 2
		}
	}
	return out
}

// Minus returns s \ o.
func (s Set) Minus(o Set) Set {
	if len(o) == 0 {
		return s
	}
	return s.Intersect(o.Complement(0x7fffffff))
}

// Clip returns s ∩ [0,max].
func (s Set) Clip(max rune) Set { return s.Intersect(Set{0, max}) }

// Equal reports set equality.
func (s Set) Equal(o Set) bool {
	if len(s) != len(o) {
		return false
	}
	for i := range s {
		if s[i] != o[i] {
			return false
		}
	}
	return true
}

// SubsetOf reports s ⊆ o.
func (s Set) SubsetOf(o Set) bool { return s.Minus(o).Empty() }

var (
	foldOnce sync.Once
	foldable []rune // all code points whose simple-fold orbit has more than one member
)

func initFold() {
	for r := rune(0); r <= MaxRune; r++ {
		if unicode.SimpleFold(r) != r {
			foldable = append(foldable, r)
		}
	}
}

// Orbit returns the simple case folding orbit of r (including r). In asciiOnly
// mode (byte mode) only ASCII letters fold, and only to ASCII letters.
func Orbit(r rune, asciiOnly bool) []rune {
	out := []rune{r}
	if asciiOnly && r >= 0x80 {
		return out
	}
	for f := unicode.SimpleFold(r); f != r; f = unicode.SimpleFold(f) {
		if asciiOnly && f >= 0x80 {
			continue
		}
		out = append(out, f)
	}
	return out
}

// FoldClose returns the closure of s under simple case folding: every code
// point that is a case variant of a member. With asciiOnly (byte mode) only
// ASCII letters take part.
func FoldClose(s Set, asciiOnly bool) Set {
	foldOnce.Do(initFold)
	var add []rune
	for _, c := range foldable {
		if asciiOnly && c >= 0x80 {
			break
		}
		if !s.Contains(c) {
			continue
		}
		for _, f := range Orbit(c, asciiOnly)[1:] {
			if !s.Contains(f) {
				add = append(add, f, f)
			}
		}
	}
	if len(add) == 0 {
		return s
	}
	return s.Union(NewSet(add...))
}

// Foldable returns the list of all code points with a non-trivial orbit.
func Foldable() []rune {
	foldOnce.Do(initFold)
	return foldable
}

// TableSet converts a unicode.RangeTable into a Set.
func TableSet(t *unicode.RangeTable) Set {
	var p []rune
	for _, r := range t.R16 {
		if r.Stride == 1 {
			p = append(p, rune(r.Lo), rune(r.Hi))
			continue
		}
		for c := rune(r.Lo); c <= rune(r.Hi); c += rune(r.Stride) {
			p = append(p, c, c)
		}
	}
	for _, r := range t.R32 {
		if r.Stride == 1 {
			p = append(p, rune(r.Lo), rune(r.Hi))
			continue
		}
		for c := rune(r.Lo); c <= rune(r.Hi); c += rune(r.Stride) {
			p = append(p, c, c)
		}
	}
	return NewSet(p...)
}

var (
	namedMu    sync.Mutex
	namedCache = map[string]Set{}
)

// NamedKind says where a \p{name} comes from: "any", "category", "script",
// "property" or "" when unknown.
func NamedKind(name string) string {
	switch {
	case name == "Any":
		return "any"
	case unicode.Categories[name] != nil:
		return "category"
	case unicode.Scripts[name] != nil:
		return "script"
	case unicode.Properties[name] != nil:
		return "property"
	}
	return ""
}

// NamedSet returns the code points of \p{name} (rune mode), exactly the Unicode
// table of that name.
func NamedSet(name string) (Set, bool) {
	namedMu.Lock()
	defer namedMu.Unlock()
	if s, ok := namedCache[name]; ok {
		return s, true
	}
	var s Set
	switch NamedKind(name) {
	case "any":
		s = Set{0, MaxRune}
	case "category":
		s = TableSet(unicode.Categories[name])
	case "script":
		s = TableSet(unicode.Scripts[name])
	case "property":
		s = TableSet(unicode.Properties[name])
	default:
		return nil, false
	}
	namedCache[name] = s
	return s, true
}

// AllNames returns all \p names of the given kind, sorted.
func AllNames(kind string) []string {
	var out []string
	switch kind {
	case "category":
		for k := range unicode.Categories {
			out = append(out, k)
		}
	case "script":
		for k := range unicode.Scripts {
			out = append(out, k)
		}
	case "property":
		for k := range unicode.Properties {
			out = append(out, k)
		}
	}
	sort.Strings(out)
	return out
}
