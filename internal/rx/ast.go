package rx

import "fmt"

// Kind is the kind of an AST node.
type Kind int

const (
	KEmpty Kind = iota // matches the empty string: ()
	KChar              // one code point (byte mode: its UTF-8 encoding when >= 0x80)
	KAny               // . : everything except \n
	KClass             // [...] or a standalone class escape (\d, \p{..})
	KCat               // concatenation
	KAlt               // alternation
	KRep               // repetition Min..Max (Max = -1: unbounded)
	KNamed             // {name}
	KEOI               // {eoi}
	KFold              // (?i:Sub) / (?-i:Sub): sets case folding for Sub
	KQuote             // \Q text \E
)

// Node is a regular expression AST node.
type Node struct {
	Kind     Kind
	R        rune    // KChar
	Class    *Class  // KClass
	Sub      []*Node // KCat, KAlt (n), KRep, KFold (1)
	Min, Max int     // KRep
	Name     string  // KNamed
	On       bool    // KFold
	Text     string  // KQuote
}

// ItemKind is the kind of a class item.
type ItemKind int

const (
	IChar  ItemKind = iota // single code point Lo
	IRange                 // Lo-Hi
	IPerl                  // \d \w \s (Name = "d","w","s"), Neg => \D \W \S
	IProp                  // \p{Name}, Neg => \P{Name}
)

// Item is one member of a class.
type Item struct {
	Kind   ItemKind
	Lo, Hi rune
	Name   string
	Neg    bool
}

// Class is a bracket class: (union of Items) minus (union of Subs), possibly negated.
// Bare is set for a standalone escape (\d, \pL ...) written without brackets; it then
// has exactly one IPerl/IProp item, no Subs and Neg == false.
type Class struct {
	Neg   bool
	Items []Item
	Subs  []*Class // subtracted classes (each printed as -[...] or, if Bare, as -\d / -\p{..})
	Bare  bool
}

// Mode carries the two parsing options.
type Mode struct {
	Bytes bool
	Fold  bool // initial case-insensitivity (CharsetOptions.Fold)
}

func (m Mode) max() rune {
	if m.Bytes {
		return MaxByte
	}
	return MaxRune
}

// ---------------------------------------------------------------------------
// Denotation of classes.

// Interval is a three-valued denotation: Must ⊆ denotation ⊆ May. For every
// construct whose documented meaning is unambiguous Must == May.
type Interval struct{ Must, May Set }

// Exact reports Must == May.
func (iv Interval) Exact() bool { return iv.Must.Equal(iv.May) }

func perlBase(name string) Set {
	switch name {
	case "d":
		return NewSet('0', '9')
	case "w":
		return NewSet('0', '9', 'A', 'Z', '_', '_', 'a', 'z')
	case "s":
		return NewSet('\t', '\t', '\n', '\n', '\v', '\v', '\f', '\f', '\r', '\r', ' ', ' ')
	}
	panic("rx: unknown perl class " + name)
}

// itemInterval gives the denotation of one item under fold/byte mode.
//
// Unambiguous: single characters and ranges (closed under case folding when
// folding is on), predefined classes without folding. With folding on, the
// syntax description does not say whether a predefined class (\d \w \s \p{..}
// and their negations) is closed under folding before or after negation, or at
// all, so all three readings are admitted: the result is an interval.
func itemInterval(it Item, m Mode, fold bool) Interval {
	max := m.max()
	switch it.Kind {
	case IChar, IRange:
		hi := it.Hi
		if it.Kind == IChar {
			hi = it.Lo
		}
		s := NewSet(it.Lo, hi).Clip(max)
		if fold {
			s = FoldClose(s, m.Bytes).Clip(max)
		}
		return Interval{s, s}
	}
	var base Set
	if it.Kind == IPerl {
		base = perlBase(it.Name)
	} else {
		b, ok := NamedSet(it.Name)
		if !ok {
			panic("rx: unknown named set " + it.Name)
		}
		base = b
	}
	base = base.Clip(max)
	if !fold {
		if it.Neg {
			base = base.Complement(max)
		}
		return Interval{base, base}
	}
	closed := FoldClose(base, m.Bytes).Clip(max)
	if !it.Neg {
		return Interval{base, closed}
	}
	// ¬F(S) ⊆ ¬S ⊆ F(¬S)
	return Interval{closed.Complement(max), FoldClose(base.Complement(max), m.Bytes).Clip(max)}
}

// ClassInterval computes the denotation of a class. fold is the case folding
// state at the place where the class occurs.
func ClassInterval(c *Class, m Mode, fold bool) Interval {
	max := m.max()
	var must, may Set
	for _, it := range c.Items {
		iv := itemInterval(it, m, fold)
		must = must.Union(iv.Must)
		may = may.Union(iv.May)
	}
	if len(c.Subs) > 0 {
		var sMust, sMay Set
		for _, sc := range c.Subs {
			iv := ClassInterval(sc, m, fold)
			if fold {
				// A subtracted class may or may not be folded itself.
				u := ClassInterval(sc, m, false)
				iv = Interval{iv.Must.Intersect(u.Must), iv.May.Union(u.May)}
			}
			sMust = sMust.Union(iv.Must)
			sMay = sMay.Union(iv.May)
		}
		if !fold {
			must, may = must.Minus(sMay), may.Minus(sMust)
		} else {
			f := func(s Set) Set { return FoldClose(s, m.Bytes).Clip(max) }
			// reading 1: fold(items \ subs); reading 2: fold(items) \ fold(subs)
			lo1, hi1 := f(must.Minus(sMay)), f(may.Minus(sMust))
			lo2, hi2 := f(must).Minus(f(sMay)), f(may).Minus(f(sMust))
			must, may = lo1.Intersect(lo2), hi1.Union(hi2)
		}
	}
	if c.Neg {
		must, may = may.Complement(max), must.Complement(max)
	}
	return Interval{must, may}
}

// ---------------------------------------------------------------------------
// Structural helpers.

// Defs maps pattern names to their definitions. A named pattern is parsed with
// the same Mode as the rules (its own (?i) groups are inside its AST).
type Defs map[string]*Node

// Nullable reports whether n matches the empty string ({eoi} counts as a symbol).
func Nullable(n *Node, defs Defs) bool {
	switch n.Kind {
	case KEmpty:
		return true
	case KChar, KAny, KClass, KEOI:
		return false
	case KQuote:
		return n.Text == ""
	case KCat:
		for _, s := range n.Sub {
			if !Nullable(s, defs) {
				return false
			}
		}
		return true
	case KAlt:
		for _, s := range n.Sub {
			if Nullable(s, defs) {
				return true
			}
		}
		return false
	case KRep:
		return n.Min == 0 || n.Max == 0 || Nullable(n.Sub[0], defs)
	case KFold:
		return Nullable(n.Sub[0], defs)
	case KNamed:
		return Nullable(defs[n.Name], defs)
	}
	panic(fmt.Sprint("rx: bad kind ", n.Kind))
}

// Walk calls f for n and all its descendants (not following named references).
func Walk(n *Node, f func(*Node)) {
	f(n)
	for _, s := range n.Sub {
		Walk(s, f)
	}
}

// Has reports whether the tree (following named references) contains a node of kind k.
func Has(n *Node, defs Defs, k Kind) bool {
	found := false
	var rec func(*Node)
	rec = func(n *Node) {
		if found {
			return
		}
		if n.Kind == k {
			found = true
			return
		}
		if n.Kind == KNamed {
			if d := defs[n.Name]; d != nil {
				rec(d)
			}
		}
		for _, s := range n.Sub {
			rec(s)
		}
	}
	rec(n)
	return found
}

// Convenience constructors.
func Ch(r rune) *Node             { return &Node{Kind: KChar, R: r} }
func Cat(ns ...*Node) *Node       { return &Node{Kind: KCat, Sub: ns} }
func Alt(ns ...*Node) *Node       { return &Node{Kind: KAlt, Sub: ns} }
func Rep(n *Node, a, b int) *Node { return &Node{Kind: KRep, Sub: []*Node{n}, Min: a, Max: b} }
func Cls(c *Class) *Node          { return &Node{Kind: KClass, Class: c} }
func Lit(s string) *Node {
	var ns []*Node
	for _, r := range s {
		ns = append(ns, Ch(r))
	}
	if len(ns) == 1 {
		return ns[0]
	}
	return Cat(ns...)
}
