package rx

import (
	"math/rand"
	"sort"
	"strings"
)

// Sampler draws sentences from the languages of the rules and collects the
// code points at which the rules' classes change membership.
type Sampler struct {
	R    *rand.Rand
	Mode Mode
	Defs Defs
}

func (s *Sampler) pickFrom(set Set) (rune, bool) {
	set = set.Intersect(matchable(s.Mode))
	if set.Empty() {
		return 0, false
	}
	if s.R.Intn(3) == 0 {
		// a range boundary
		return set[s.R.Intn(len(set))], true
	}
	k := s.R.Intn(len(set) / 2)
	lo, hi := set[2*k], set[2*k+1]
	return lo + s.R.Int31n(hi-lo+1), true
}

// Sentence appends a random member of L(n) to b; ok is false if a dead end (an
// unmatchable class) was hit.
func (s *Sampler) Sentence(b *strings.Builder, n *Node, fold bool, depth int) bool {
	switch n.Kind {
	case KEmpty, KEOI:
		return true
	case KChar:
		c := n.R
		if fold && !(s.Mode.Bytes && c >= 0x80) {
			o := Orbit(c, s.Mode.Bytes)
			c = o[s.R.Intn(len(o))]
		}
		b.WriteString(Encode(c, false))
		return true
	case KQuote:
		for _, c := range n.Text {
			if fold && !(s.Mode.Bytes && c >= 0x80) {
				o := Orbit(c, s.Mode.Bytes)
				c = o[s.R.Intn(len(o))]
			}
			b.WriteString(Encode(c, false))
		}
		return true
	case KAny:
		c, _ := s.pickFrom(NewSet('\n', '\n').Complement(s.Mode.max()))
		if s.R.Intn(2) == 0 {
			c = rune("a0 é"[s.R.Intn(3)])
		}
		b.WriteString(Encode(c, s.Mode.Bytes))
		return true
	case KClass:
		iv := ClassInterval(n.Class, s.Mode, fold)
		c, ok := s.pickFrom(iv.Must)
		if !ok {
			return false
		}
		b.WriteString(Encode(c, s.Mode.Bytes))
		return true
	case KCat:
		for _, x := range n.Sub {
			if !s.Sentence(b, x, fold, depth) {
				return false
			}
		}
		return true
	case KAlt:
		return s.Sentence(b, n.Sub[s.R.Intn(len(n.Sub))], fold, depth)
	case KFold:
		return s.Sentence(b, n.Sub[0], n.On, depth)
	case KNamed:
		if depth > 8 {
			return false
		}
		return s.Sentence(b, s.Defs[n.Name], s.Mode.Fold, depth+1)
	case KRep:
		k := n.Min
		switch {
		case n.Max == -1:
			k += []int{0, 0, 1, 1, 2, 3, 7}[s.R.Intn(7)]
		case n.Max > n.Min:
			switch s.R.Intn(3) {
			case 0:
				k = n.Max
			case 1:
				k += s.R.Intn(n.Max - n.Min + 1)
			}
		}
		for i := 0; i < k; i++ {
			if !s.Sentence(b, n.Sub[0], fold, depth) {
				return false
			}
		}
		return true
	}
	panic("rx: sample: bad kind")
}

// Points collects code points (bytes in byte mode) at the boundaries of every
// character set used by n: first/last of each range and their neighbours.
func (s *Sampler) Points(n *Node, fold bool, out map[rune]bool, depth int) {
	add := func(set Set) {
		max := s.Mode.max()
		for i := 0; i < len(set); i += 2 {
			for _, c := range []rune{set[i] - 1, set[i], set[i+1], set[i+1] + 1} {
				if c >= 0 && c <= max {
					out[c] = true
				}
			}
			if i >= 12 {
				break
			}
		}
	}
	switch n.Kind {
	case KChar:
		if s.Mode.Bytes && n.R >= 0x80 {
			for _, b := range []byte(string(n.R)) {
				out[rune(b)] = true
			}
			return
		}
		for _, c := range Orbit(n.R, s.Mode.Bytes) {
			out[c] = true
		}
	case KQuote:
		for _, c := range n.Text {
			s.Points(Ch(c), fold, out, depth)
		}
	case KAny:
		out['\n'] = true
	case KClass:
		iv := ClassInterval(n.Class, s.Mode, fold)
		add(iv.Must)
		if !iv.Exact() {
			add(iv.May)
		}
	case KFold:
		s.Points(n.Sub[0], n.On, out, depth)
	case KNamed:
		if depth < 8 {
			s.Points(s.Defs[n.Name], s.Mode.Fold, out, depth+1)
		}
	default:
		for _, x := range n.Sub {
			s.Points(x, fold, out, depth)
		}
	}
}

// SortedPoints returns the keys of a point set in increasing order.
func SortedPoints(m map[rune]bool) []rune {
	out := make([]rune, 0, len(m))
	for c := range m {
		out = append(out, c)
	}
	sort.Slice(out, func(i, j int) bool { return out[i] < out[j] })
	return out
}
