package rx

import (
	"fmt"
	"math/rand"
	"sort"
	"strings"
	"unicode/utf8"
)

// This file models a whole textmapper lexer section: options, start conditions,
// named patterns and rules with (class)/(space) attributes, priorities and state
// switching actions; it prints the section as grammar text and predicts the
// token stream a generated lexer must produce.

// LexOpts are the lexer-related grammar options.
type LexOpts struct {
	TokenLine, TokenColumn, ScanBytes, NonBacktracking, CaseInsensitive, SkipBOM bool
}

// Vector packs the options into 6 bits.
func (o LexOpts) Vector() int {
	v := 0
	for i, b := range []bool{o.TokenLine, o.TokenColumn, o.ScanBytes, o.NonBacktracking, o.CaseInsensitive, o.SkipBOM} {
		if b {
			v |= 1 << uint(i)
		}
	}
	return v
}

// OptsFromVector is the inverse of Vector.
func OptsFromVector(v int) LexOpts {
	return LexOpts{v&1 != 0, v&2 != 0, v&4 != 0, v&8 != 0, v&16 != 0, v&32 != 0}
}

// LexState is a start condition; index 0 is always "initial" (inclusive).
type LexState struct {
	Name      string
	Exclusive bool
}

// LexRule is one lexeme.
type LexRule struct {
	Token   string // token name (identifier)
	RE      *Node
	Prio    int
	HasPrio bool
	Class   bool
	Space   bool
	SCs     []int // explicit start conditions; nil = all inclusive ones
	Switch  int   // -1, or the state the action switches to
	Code    bool  // an action without effect (forces rule ids instead of token ids)
	Pat     string
}

// LexGrammar is a lexer section.
type LexGrammar struct {
	Name     string
	Opts     LexOpts
	States   []LexState
	Defs     Defs
	DefNames []string
	DefPats  map[string]string
	// Decls are tokens declared without a pattern ("error:") in front of all rules: they
	// take token ids but no rule numbers.
	Decls []string
	Rules []LexRule
	// Bound is informational: the largest code point the generator allowed itself (0: none).
	Bound rune
}

// Mode returns the regexp parsing mode of the grammar.
func (g *LexGrammar) Mode() Mode { return Mode{Bytes: g.Opts.ScanBytes, Fold: g.Opts.CaseInsensitive} }

// Spell (re)spells all patterns.
func (g *LexGrammar) Spell(r *rand.Rand) {
	p := &Printer{R: r, Mode: g.Mode()}
	g.DefPats = map[string]string{}
	for _, n := range g.DefNames {
		g.DefPats[n] = p.Print(g.Defs[n])
	}
	for i := range g.Rules {
		g.Rules[i].Pat = p.Print(g.Rules[i].RE)
	}
}

func stateConst(name string) string { return "State" + strings.ToUpper(name[:1]) + name[1:] }

// tmPattern writes a pattern between slashes: '/' must be escaped and a raw
// newline cannot appear inside a .tm regexp literal.
func tmPattern(p string) string {
	var b strings.Builder
	esc := false
	for _, c := range p {
		switch {
		case esc:
			esc = false
			b.WriteRune(c)
			continue
		case c == '\\':
			esc = true
		case c == '/':
			b.WriteByte('\\')
		}
		b.WriteRune(c)
	}
	return "/" + b.String() + "/"
}

// Text renders the grammar. scopes chooses how start conditions are written
// (prefix on each rule or a <..> { } block around runs of rules).
func (g *LexGrammar) Text(scopes bool) string {
	var b strings.Builder
	fmt.Fprintf(&b, "language %s(go);\n\nlang = \"%s\"\npackage = \"w/%s\"\ngenParser = false\n", g.Name, g.Name, g.Name)
	o := g.Opts
	fmt.Fprintf(&b, "tokenLine = %v\ntokenColumn = %v\nscanBytes = %v\nnonBacktracking = %v\ncaseInsensitive = %v\nskipByteOrderMark = %v\n",
		o.TokenLine, o.TokenColumn, o.ScanBytes, o.NonBacktracking, o.CaseInsensitive, o.SkipBOM)
	b.WriteString("\n:: lexer\n\n")
	var incl, excl []string
	for _, s := range g.States[1:] {
		if s.Exclusive {
			excl = append(excl, s.Name)
		} else {
			incl = append(incl, s.Name)
		}
	}
	if len(incl) > 0 {
		fmt.Fprintf(&b, "%%s %s;\n", strings.Join(incl, ", "))
	}
	if len(excl) > 0 {
		fmt.Fprintf(&b, "%%x %s;\n", strings.Join(excl, ", "))
	}
	for _, n := range g.DefNames {
		fmt.Fprintf(&b, "%s = %s\n", n, tmPattern(g.DefPats[n]))
	}
	b.WriteString("\n")
	for _, d := range g.Decls {
		fmt.Fprintf(&b, "%s:\n", d)
	}
	scText := func(scs []int) string {
		var ns []string
		for _, s := range scs {
			ns = append(ns, g.States[s].Name)
		}
		return "<" + strings.Join(ns, ", ") + ">"
	}
	rule := func(r *LexRule, indent string, withSC bool) {
		b.WriteString(indent)
		if withSC && r.SCs != nil {
			b.WriteString(scText(r.SCs) + " ")
		}
		fmt.Fprintf(&b, "%s: %s", r.Token, tmPattern(r.Pat))
		if r.HasPrio {
			fmt.Fprintf(&b, " %d", r.Prio)
		}
		if r.Class {
			b.WriteString(" (class)")
		}
		if r.Space {
			b.WriteString(" (space)")
		}
		switch {
		case r.Switch >= 0:
			fmt.Fprintf(&b, " { l.State = %s }", stateConst(g.States[r.Switch].Name))
		case r.Code:
			b.WriteString(" { _ = l.offset }")
		}
		b.WriteString("\n")
	}
	for i := 0; i < len(g.Rules); {
		r := &g.Rules[i]
		if !scopes || r.SCs == nil {
			rule(r, "", true)
			i++
			continue
		}
		j := i
		for j < len(g.Rules) && g.Rules[j].SCs != nil && fmt.Sprint(g.Rules[j].SCs) == fmt.Sprint(r.SCs) {
			j++
		}
		fmt.Fprintf(&b, "%s {\n", scText(r.SCs))
		for k := i; k < j; k++ {
			rule(&g.Rules[k], "  ", false)
		}
		b.WriteString("}\n")
		i = j
	}
	return b.String()
}

// ---------------------------------------------------------------------------
// Model.

// ConstantValue mirrors the notion of a constant pattern (one that is a plain
// sequence of single characters): only such rules can be keyword specialisations
// of a (class) rule. murky is set when the pattern contains a one-member byte
// class >= 0x80 in byte mode (its "constant" is not well defined).
func ConstantValue(n *Node, m Mode, fold bool, defs Defs) (val string, ok, murky bool) {
	switch n.Kind {
	case KEmpty:
		return "", true, false
	case KChar:
		if m.Bytes && n.R >= 0x80 {
			return string(n.R), true, false
		}
		if fold && len(Orbit(n.R, m.Bytes)) > 1 {
			return "", false, false
		}
		return string(n.R), true, false
	case KQuote:
		if fold {
			// quoted text is folded character by character: a cased letter makes it a class
			for _, c := range n.Text {
				if len(Orbit(c, m.Bytes)) > 1 && !(m.Bytes && c >= 0x80) {
					return "", false, false
				}
			}
		}
		return n.Text, true, false
	case KClass:
		iv := ClassInterval(n.Class, m, fold)
		if !iv.Exact() {
			return "", false, true
		}
		if iv.Must.Size() != 1 {
			return "", false, false
		}
		c := iv.Must[0]
		if m.Bytes && c >= 0x80 {
			return "", false, true
		}
		return string(c), true, false
	case KCat:
		var parts []string
		for _, s := range n.Sub {
			v, ok, mk := ConstantValue(s, m, fold, defs)
			if mk {
				murky = true
			}
			if !ok {
				return "", false, murky
			}
			parts = append(parts, v)
		}
		return strings.Join(parts, ""), true, murky
	case KFold:
		return ConstantValue(n.Sub[0], m, n.On, defs)
	case KRep:
		if n.Max == 0 {
			return "", true, false // x{0}: nothing at all
		}
	}
	return "", false, false
}

// LexTok is a predicted token.
type LexTok struct {
	ID        int // 0 EOI, 1 invalid token, 2+k: k-th distinct token name in declaration order
	S, E      int
	Line, Col int
	Rule      int  // winning rule (-1: none)
	ViaClass  int  // >= 0: a keyword recognised through this class rule
	Fallback  bool // the match is shorter than the longest live prefix
	State     int  // start condition in which the token was scanned
	NonASCII  bool // token text has a byte >= 0x80
}

// LexModel predicts token streams.
type LexModel struct {
	G       *LexGrammar
	TokenID map[string]int
	lexer   *Lexer           // DFA rules: everything but specialised keywords
	ruleOf  []int            // lexer rule index -> grammar rule index
	custom  []map[string]int // per grammar rule (class rules): text -> keyword rule
	// Problems the compiler is expected to report (the grammar should then not be used).
	Problems []string
	Murky    bool
	// TieRules are the grammar rules of the last ambiguity witness reported by Tokens.
	TieRules         [2]int
	Keywords         int
	NonASCIIKeywords int
}

func (g *LexGrammar) effSCs(r *LexRule) []int {
	if r.SCs != nil {
		return r.SCs
	}
	var out []int
	for i, s := range g.States {
		if !s.Exclusive {
			out = append(out, i)
		}
	}
	return out
}

// NewLexModel analyses the grammar.
func NewLexModel(g *LexGrammar) *LexModel {
	m := &LexModel{G: g, TokenID: map[string]int{}}
	mode := g.Mode()
	for _, d := range g.Decls {
		if _, ok := m.TokenID[d]; !ok && d != "invalid_token" && d != "eoi" {
			m.TokenID[d] = 2 + len(m.TokenID)
		}
	}
	for _, r := range g.Rules {
		if _, ok := m.TokenID[r.Token]; !ok {
			m.TokenID[r.Token] = 2 + len(m.TokenID)
		}
	}
	// class rules alone
	var classIdx []int
	var classRules []Rule
	for i := range g.Rules {
		r := &g.Rules[i]
		if r.Class {
			classIdx = append(classIdx, i)
			classRules = append(classRules, Rule{RE: r.RE, Prec: r.EffPrio(), Action: len(classRules) + 1, SCs: g.effSCs(r)})
		}
	}
	m.custom = make([]map[string]int, len(g.Rules))
	specialised := make([]bool, len(g.Rules))
	if len(classRules) > 0 {
		cl := NewLexer(mode, classRules, g.Defs)
		if cl.Ambiguous() {
			m.Murky = true
		}
		for i := range g.Rules {
			r := &g.Rules[i]
			if r.Class {
				continue
			}
			val, ok, murky := ConstantValue(r.RE, mode, mode.Fold, g.Defs)
			if murky {
				m.Murky = true
			}
			if !ok {
				continue
			}
			cr := -1
			for _, sc := range g.effSCs(r) {
				res := cl.Scan(sc, val)
				if res.HasTie {
					m.Problems = append(m.Problems, "class rules are ambiguous")
				}
				if res.Rule >= 0 && res.Size == len(val) && !res.EOIWin {
					cr = classIdx[res.Rule]
					break
				}
			}
			if cr < 0 {
				continue
			}
			if fmt.Sprint(g.effSCs(r)) != fmt.Sprint(g.effSCs(&g.Rules[cr])) {
				m.Problems = append(m.Problems, fmt.Sprintf("rule %d must be applicable in the same start conditions as class rule %d", i, cr))
			}
			if m.custom[cr] == nil {
				m.custom[cr] = map[string]int{}
			}
			if _, dup := m.custom[cr][val]; dup {
				m.Problems = append(m.Problems, fmt.Sprintf("two keywords with the text %q", val))
			}
			m.custom[cr][val] = i
			specialised[i] = true
			m.Keywords++
			if !isASCII(val) {
				m.NonASCIIKeywords++
			}
		}
		for _, ci := range classIdx {
			if len(m.custom[ci]) == 0 {
				m.Problems = append(m.Problems, fmt.Sprintf("class rule %d has no specialisations", ci))
			}
		}
	}
	// rules that make up the automaton; equal (token, action, space) rules share an action
	actions := map[string]int{}
	var rules []Rule
	for i := range g.Rules {
		r := &g.Rules[i]
		if specialised[i] {
			continue
		}
		key := fmt.Sprintf("%s/%v/%d/%v", r.Token, r.Space, r.Switch, r.Code)
		if r.Class {
			key = fmt.Sprintf("class%d", i)
		}
		a, ok := actions[key]
		if !ok {
			a = len(actions) + 2
			actions[key] = a
		}
		rules = append(rules, Rule{RE: r.RE, Prec: r.EffPrio(), Action: a, SCs: g.effSCs(r)})
		m.ruleOf = append(m.ruleOf, i)
	}
	m.lexer = NewLexer(mode, rules, g.Defs)
	if m.lexer.Ambiguous() {
		m.Murky = true
	}
	return m
}

func isASCII(s string) bool {
	for i := 0; i < len(s); i++ {
		if s[i] >= 0x80 {
			return false
		}
	}
	return true
}

// NFAStates returns the size of the model automaton.
func (m *LexModel) NFAStates() int { return m.lexer.States() }

// Nullable reports whether some rule matches the empty string.
func (m *LexModel) Nullable() bool {
	for i := range m.G.Rules {
		if Nullable(m.G.Rules[i].RE, m.G.Defs) {
			return true
		}
	}
	return false
}

const bomSeq = "\xef\xbb\xbf"

// Tokens predicts the calls to Next(): tokens up to and including three EOIs.
// tie reports that two rules of equal priority matched the same prefix somewhere
// (the grammar is then ambiguous and must have been rejected by the compiler).
func (m *LexModel) Tokens(text string) (toks []LexTok, tie string) {
	g := m.G
	pos := 0
	if g.Opts.SkipBOM && strings.HasPrefix(text, bomSeq) {
		pos = len(bomSeq)
	}
	state := 0
	limit := len(text) + 8
	for n := 0; n < limit; n++ {
		res := m.lexer.Scan(state, text[pos:])
		if res.HasTie && tie == "" {
			m.TieRules = [2]int{m.ruleOf[res.Tie[0]], m.ruleOf[res.Tie[1]]}
			tie = fmt.Sprintf("rules %d and %d (at offset %d, start condition %d)", m.ruleOf[res.Tie[0]], m.ruleOf[res.Tie[1]], pos, state)
		}
		tk := LexTok{S: pos, Rule: -1, ViaClass: -1, State: state, Fallback: res.Backtracked && res.Rule >= 0}
		var rule *LexRule
		switch {
		case res.Rule >= 0:
			gi := m.ruleOf[res.Rule]
			tk.E = pos + res.Size
			if kw, ok := m.custom[gi][text[pos:tk.E]]; ok && g.Rules[gi].Class {
				tk.ViaClass = gi
				gi = kw
			}
			tk.Rule = gi
			rule = &g.Rules[gi]
			tk.ID = m.TokenID[rule.Token]
		case res.Size > 0:
			tk.ID = 1
			tk.E = pos + res.Size
		case pos >= len(text):
			tk.ID = 0
			tk.E = pos
		default:
			// nothing can start here: one character is skipped as an invalid token
			tk.ID = 1
			w := 1
			if !g.Opts.ScanBytes {
				_, w = utf8.DecodeRuneInString(text[pos:])
			}
			tk.E = pos + w
		}
		tk.Line = 1 + strings.Count(text[:tk.S], "\n")
		tk.Col = tk.S - strings.LastIndexByte(text[:tk.S], '\n')
		tk.NonASCII = !isASCII(text[tk.S:tk.E])
		pos = tk.E
		if rule != nil {
			if rule.Switch >= 0 {
				state = rule.Switch
			}
			if rule.Space {
				continue
			}
		}
		toks = append(toks, tk)
		if tk.ID == 0 {
			eois := 0
			for _, t := range toks {
				if t.ID == 0 {
					eois++
				}
			}
			if eois == 3 {
				break
			}
		}
	}
	return toks, tie
}

// SortedTokenNames lists token names by id.
func (m *LexModel) SortedTokenNames() []string {
	out := make([]string, len(m.TokenID)+2)
	out[0], out[1] = "EOI", "invalid_token"
	for n, id := range m.TokenID {
		out[id] = n
	}
	return out
}

// Sentences samples texts of the rules (for building inputs), sorted for determinism.
func (g *LexGrammar) Sentences(r *rand.Rand, perRule int) []string {
	sm := &Sampler{R: r, Mode: g.Mode(), Defs: g.Defs}
	seen := map[string]bool{}
	for k := 0; k < perRule; k++ {
		for i := range g.Rules {
			var b strings.Builder
			if sm.Sentence(&b, g.Rules[i].RE, g.Opts.CaseInsensitive, 0) && b.Len() > 0 && b.Len() < 200 {
				seen[b.String()] = true
			}
		}
	}
	out := make([]string, 0, len(seen))
	for s := range seen {
		out = append(out, s)
	}
	sort.Strings(out)
	return out
}

// EffPrio is the priority the rule has in the grammar text (0 when none is written).
func (r *LexRule) EffPrio() int {
	if r.HasPrio {
		return r.Prio
	}
	return 0
}
