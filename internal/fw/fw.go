// Package fw is the shared runtime-monitoring framework: case scheduling over
// journaled child processes, crash attribution, CPU watchdogs, violation/replay
// output, known-findings matching and evidence files.
package fw

import (
	"bufio"
	"encoding/json"
	"fmt"
	"hash/fnv"
	"math/rand"
	"os"
	"os/exec"
	"path/filepath"
	"runtime"
	"runtime/debug"
	"sort"
	"strconv"
	"strings"
	"sync"
	"syscall"
	"time"
)

// Check describes one property's workload + monitor.
type Check struct {
	ID          string
	Level       string // evidence level (default "exploration")
	Rule        string
	Assumptions []string
	// Cases returns the number of cases for a tier. A case is the unit of work
	// scheduled on a child process (it may be a batch of many micro-cases).
	Cases func(tier string) int
	// Par bounds the number of concurrently running children (default NumCPU).
	Par int
	// Run executes one case. It runs in a child process.
	Run func(c *Ctx)
	// MinNontrivial is the coverage threshold; fewer distinct non-trivial
	// observations makes the run inconclusive.
	MinNontrivial func(tier string) int
	// CPUBudget is the CPU-seconds budget per case (default 300).
	CPUBudget int
	// Exhaustive marks (per tier) that a finite space was fully enumerated.
	Exhaustive func(tier string) bool
	// Post, if set, runs in the parent after all children completed and may add
	// counters/violations computed over the merged results.
	Post func(p *Parent)
	// RequiredCounters lists counters that must be > 0 for a conclusive run.
	RequiredCounters []string
}

var registry = map[string]*Check{}

// Register adds a check to the registry.
func Register(c *Check) { registry[c.ID] = c }

// Violation is one oracle disagreement.
type Violation struct {
	Sig    string            `json:"sig"`
	Detail string            `json:"detail"`
	Files  map[string]string `json:"files,omitempty"`
	Case   int               `json:"case"`
}

type caseResult struct {
	I          int               `json:"i"`
	Counters   map[string]int64  `json:"c,omitempty"`
	Hashes     []uint64          `json:"h,omitempty"`
	Samples    []any             `json:"s,omitempty"`
	Violations []Violation       `json:"v,omitempty"`
	Extra      []json.RawMessage `json:"x,omitempty"`
}

// Ctx is handed to Check.Run for each case.
type Ctx struct {
	ID      string
	Tier    string
	Seed    int64
	Case    int
	R       *rand.Rand
	WorkDir string // scratch directory private to this child (outside /repo and /verif)
	res     caseResult
	seen    map[uint64]bool
	noteDir string
}

// SubRand returns a deterministic generator for a sub-index of this case.
func (c *Ctx) SubRand(k int) *rand.Rand {
	return rand.New(rand.NewSource(mix(c.Seed, c.ID, c.Case*1000003+k+1)))
}

func mix(seed int64, id string, i int) int64 {
	h := fnv.New64a()
	fmt.Fprintf(h, "%d/%s/%d", seed, id, i)
	return int64(h.Sum64() & 0x7fffffffffffffff)
}

// Count adds n to a named counter (reported in evidence coverage).
func (c *Ctx) Count(key string, n int64) {
	if c.res.Counters == nil {
		c.res.Counters = map[string]int64{}
	}
	c.res.Counters[key] += n
}

// Eval counts executed evaluations.
func (c *Ctx) Eval(n int64) { c.Count("evaluations", n) }

// Distinct records a distinct non-trivial observation identified by key.
func (c *Ctx) Distinct(key string) {
	h := fnv.New64a()
	h.Write([]byte(key))
	v := h.Sum64()
	if c.seen == nil {
		c.seen = map[uint64]bool{}
	}
	if !c.seen[v] {
		c.seen[v] = true
		c.res.Hashes = append(c.res.Hashes, v)
	}
}

// Sample records an example case for the evidence file (only a few are kept).
func (c *Ctx) Sample(v any) {
	if len(c.res.Samples) < 2 {
		c.res.Samples = append(c.res.Samples, v)
	}
}

// Extra attaches an arbitrary JSON record to the case result, for Post.
func (c *Ctx) Extra(v any) {
	b, _ := json.Marshal(v)
	c.res.Extra = append(c.res.Extra, b)
}

// Violate records an oracle disagreement. sig must be a stable class
// identifier computed from the observation (not from the seed).
func (c *Ctx) Violate(sig, detail string, files map[string]string) {
	if len(c.res.Violations) >= 50 {
		c.Count("violations_dropped", 1)
		return
	}
	for _, v := range c.res.Violations {
		if v.Sig == sig {
			files = nil // keep the files of the first occurrence only
			if len(detail) > 2000 {
				detail = detail[:2000]
			}
			break
		}
	}
	c.res.Violations = append(c.res.Violations, Violation{Sig: sig, Detail: detail, Files: files, Case: c.Case})
}

// Note writes the inputs of the operation about to be executed to disk so that
// they survive a fatal crash of this process (log.Fatal, stack overflow).
func (c *Ctx) Note(files map[string]string) {
	os.RemoveAll(c.noteDir)
	os.MkdirAll(c.noteDir, 0o755)
	for name, content := range files {
		os.WriteFile(filepath.Join(c.noteDir, filepath.Base(name)), []byte(content), 0o644)
	}
}

// Guard runs f, converting a panic into a violation with the given signature prefix.
func (c *Ctx) Guard(sigPrefix string, files map[string]string, f func()) (ok bool) {
	defer func() {
		if r := recover(); r != nil {
			msg := fmt.Sprint(r)
			c.Violate(sigPrefix+"/panic/"+Skeleton(msg), msg+"\n"+string(debug.Stack()), files)
			ok = false
		}
	}()
	f()
	return true
}

// Skeleton strips digits and quoted text from a message, for signatures.
func Skeleton(msg string) string {
	if i := strings.IndexByte(msg, '\n'); i >= 0 {
		msg = msg[:i]
	}
	var b strings.Builder
	lastHash := false
	for _, r := range msg {
		if r >= '0' && r <= '9' {
			if !lastHash {
				b.WriteByte('#')
			}
			lastHash = true
			continue
		}
		lastHash = false
		b.WriteRune(r)
	}
	s := b.String()
	if len(s) > 100 {
		s = s[:100]
	}
	return s
}

// ---------------------------------------------------------------------------
// child side

// ChildMain runs cases listed in the environment and writes results.
func ChildMain(id, tier string, seed int64, cases []int, outPath, journalPath, workDir string) int {
	ck := registry[id]
	if ck == nil {
		fmt.Fprintln(os.Stderr, "unknown check", id)
		return 2
	}
	out, err := os.OpenFile(outPath, os.O_CREATE|os.O_WRONLY|os.O_APPEND, 0o644)
	if err != nil {
		fmt.Fprintln(os.Stderr, err)
		return 2
	}
	defer out.Close()
	jr, err := os.OpenFile(journalPath, os.O_CREATE|os.O_WRONLY|os.O_APPEND, 0o644)
	if err != nil {
		fmt.Fprintln(os.Stderr, err)
		return 2
	}
	defer jr.Close()

	budget := ck.CPUBudget
	if budget == 0 {
		budget = 300
	}
	if v := os.Getenv("VERIF_CPU_BUDGET"); v != "" {
		budget, _ = strconv.Atoi(v)
	}
	var mu sync.Mutex
	curCase := -1
	var caseStartCPU time.Duration
	go func() {
		for {
			time.Sleep(500 * time.Millisecond)
			mu.Lock()
			cc, st := curCase, caseStartCPU
			mu.Unlock()
			if cc < 0 {
				continue
			}
			if cpuTime()-st > time.Duration(budget)*time.Second {
				fmt.Fprintf(jr, "CPUBUDGET %d\n", cc)
				fmt.Fprintf(os.Stderr, "verif: CPU budget of %ds exceeded in case %d\n", budget, cc)
				// dump goroutines for the replay note
				buf := make([]byte, 1<<20)
				n := runtime.Stack(buf, true)
				os.Stderr.Write(buf[:n])
				os.Exit(97)
			}
		}
	}()

	for _, i := range cases {
		fmt.Fprintf(jr, "BEGIN %d\n", i)
		mu.Lock()
		curCase = i
		caseStartCPU = cpuTime()
		mu.Unlock()
		c := &Ctx{ID: id, Tier: tier, Seed: seed, Case: i, WorkDir: workDir,
			R:       rand.New(rand.NewSource(mix(seed, id, i))),
			noteDir: filepath.Join(workDir, "note")}
		c.res.I = i
		func() {
			defer func() {
				if r := recover(); r != nil {
					msg := fmt.Sprint(r)
					c.Violate("panic/"+Skeleton(msg), msg+"\n"+string(debug.Stack()), readNote(c.noteDir))
				}
			}()
			ck.Run(c)
		}()
		mu.Lock()
		curCase = -1
		mu.Unlock()
		b, err := json.Marshal(&c.res)
		if err != nil {
			fmt.Fprintln(os.Stderr, "marshal:", err)
			return 2
		}
		out.Write(append(b, '\n'))
		fmt.Fprintf(jr, "END %d\n", i)
	}
	return 0
}

func readNote(dir string) map[string]string {
	ents, _ := os.ReadDir(dir)
	m := map[string]string{}
	for _, e := range ents {
		b, _ := os.ReadFile(filepath.Join(dir, e.Name()))
		if len(b) > 1<<20 {
			b = b[:1<<20]
		}
		m[e.Name()] = string(b)
	}
	return m
}

func cpuTime() time.Duration {
	var ru syscall.Rusage
	syscall.Getrusage(syscall.RUSAGE_SELF, &ru)
	return time.Duration(ru.Utime.Nano() + ru.Stime.Nano())
}

// ---------------------------------------------------------------------------
// parent side

// Parent aggregates child results.
type Parent struct {
	Check      *Check
	Tier       string
	Seed       int64
	Counters   map[string]int64
	hashes     map[uint64]bool
	Samples    []any
	Violations []Violation
	Extras     []json.RawMessage
	crashed    int
	children   int
	inconcl    []string
}

// AddViolation lets Post add violations.
func (p *Parent) AddViolation(v Violation) { p.Violations = append(p.Violations, v) }

// Inconclusive marks the run inconclusive.
func (p *Parent) Inconclusive(why string) { p.inconcl = append(p.inconcl, why) }

type knownFinding struct {
	Status    string `json:"status"`
	Property  string `json:"property"`
	Signature string `json:"signature"`
	Commit    string `json:"commit,omitempty"`
	What      string `json:"what"`
	Example   string `json:"example,omitempty"`
}

func verifRoot() string {
	if v := os.Getenv("VERIF_ROOT"); v != "" {
		return v
	}
	return "/verif"
}

func loadKnown() []knownFinding {
	var k []knownFinding
	b, err := os.ReadFile(filepath.Join(verifRoot(), "known_findings.json"))
	if err != nil {
		return nil
	}
	if err := json.Unmarshal(b, &k); err != nil {
		fmt.Fprintln(os.Stderr, "known_findings.json:", err)
	}
	return k
}

// ParentMain runs the whole check and returns the process exit code.
func ParentMain(id, tier string, seed int64, only []int) int {
	ck := registry[id]
	if ck == nil {
		fmt.Fprintln(os.Stderr, "unknown check", id)
		return 2
	}
	start := time.Now()
	n := ck.Cases(tier)
	var all []int
	if only != nil {
		all = only
	} else {
		for i := 0; i < n; i++ {
			all = append(all, i)
		}
	}
	par := ck.Par
	if par == 0 || par > runtime.NumCPU() {
		par = runtime.NumCPU()
	}
	if v := os.Getenv("VERIF_PAR"); v != "" {
		par, _ = strconv.Atoi(v)
	}
	if par > len(all) {
		par = len(all)
	}
	if par < 1 {
		par = 1
	}
	work, err := os.MkdirTemp("", "verif-"+id+"-")
	if err != nil {
		fmt.Fprintln(os.Stderr, err)
		return 2
	}
	defer os.RemoveAll(work)

	p := &Parent{Check: ck, Tier: tier, Seed: seed, Counters: map[string]int64{}, hashes: map[uint64]bool{}}

	// Work queue of chunks; dynamic so that slow cases do not serialise.
	chunk := len(all) / (par * 4)
	if chunk < 1 {
		chunk = 1
	}
	if chunk > 64 {
		chunk = 64
	}
	var qmu sync.Mutex
	next := 0
	take := func() []int {
		qmu.Lock()
		defer qmu.Unlock()
		if next >= len(all) {
			return nil
		}
		e := next + chunk
		if e > len(all) {
			e = len(all)
		}
		r := all[next:e]
		next = e
		return r
	}
	var rmu sync.Mutex
	var wg sync.WaitGroup
	self, _ := os.Executable()
	for w := 0; w < par; w++ {
		wg.Add(1)
		go func(w int) {
			defer wg.Done()
			wdir := filepath.Join(work, fmt.Sprintf("w%d", w))
			os.MkdirAll(wdir, 0o755)
			for {
				cases := take()
				if cases == nil {
					return
				}
				for len(cases) > 0 {
					cases = p.runChild(self, id, tier, seed, cases, wdir, &rmu)
				}
			}
		}(w)
	}
	wg.Wait()

	if ck.Post != nil {
		ck.Post(p)
	}
	return p.finish(start)
}

// runChild runs one child over cases; returns the cases still to do (after a crash).
func (p *Parent) runChild(self, id, tier string, seed int64, cases []int, wdir string, rmu *sync.Mutex) []int {
	outPath := filepath.Join(wdir, "out.jsonl")
	jrPath := filepath.Join(wdir, "journal")
	errPath := filepath.Join(wdir, "stderr")
	os.Remove(outPath)
	os.Remove(jrPath)
	strs := make([]string, len(cases))
	for i, c := range cases {
		strs[i] = strconv.Itoa(c)
	}
	cmd := exec.Command(self, "child", id, tier, strconv.FormatInt(seed, 10), strings.Join(strs, ","), outPath, jrPath, wdir)
	ef, _ := os.Create(errPath)
	cmd.Stderr = ef
	cmd.Stdout = ef
	if os.Getenv("VERIF_TIMING") != "" {
		cmd.Stderr = os.Stderr
	}
	cmd.Env = append(os.Environ(), "VERIF_CHILD=1")
	wall := 4 * time.Hour
	if v := os.Getenv("VERIF_WALL"); v != "" {
		if d, err := time.ParseDuration(v); err == nil {
			wall = d
		}
	}
	cmd.SysProcAttr = &syscall.SysProcAttr{Setpgid: true}
	err := cmd.Start()
	if err != nil {
		rmu.Lock()
		p.Inconclusive("cannot start child: " + err.Error())
		rmu.Unlock()
		return nil
	}
	done := make(chan error, 1)
	go func() { done <- cmd.Wait() }()
	timedOut := false
	select {
	case err = <-done:
	case <-time.After(wall):
		timedOut = true
		syscall.Kill(-cmd.Process.Pid, syscall.SIGQUIT)
		select {
		case err = <-done:
		case <-time.After(10 * time.Second):
			syscall.Kill(-cmd.Process.Pid, syscall.SIGKILL)
			err = <-done
		}
	}
	ef.Close()

	rmu.Lock()
	defer rmu.Unlock()
	p.children++
	// merge results
	if f, e := os.Open(outPath); e == nil {
		sc := bufio.NewScanner(f)
		sc.Buffer(make([]byte, 1<<20), 1<<30)
		for sc.Scan() {
			var r caseResult
			if json.Unmarshal(sc.Bytes(), &r) != nil {
				continue
			}
			p.merge(&r)
		}
		f.Close()
	}
	if err == nil {
		return nil
	}
	// crash attribution
	jb, _ := os.ReadFile(jrPath)
	lines := strings.Split(strings.TrimSpace(string(jb)), "\n")
	ended := map[int]bool{}
	last := -1
	cpub := false
	for _, l := range lines {
		var k int
		if _, e := fmt.Sscanf(l, "BEGIN %d", &k); e == nil {
			last = k
		} else if _, e := fmt.Sscanf(l, "END %d", &k); e == nil {
			ended[k] = true
		} else if strings.HasPrefix(l, "CPUBUDGET") {
			cpub = true
		}
	}
	stderrB, _ := os.ReadFile(errPath)
	if len(stderrB) > 200000 {
		stderrB = append(stderrB[:100000:100000], stderrB[len(stderrB)-100000:]...)
	}
	if timedOut {
		p.Inconclusive(fmt.Sprintf("wall-clock watchdog fired in case %d", last))
	} else if last >= 0 && !ended[last] {
		p.crashed++
		files := readNote(filepath.Join(wdir, "note"))
		files["child_stderr.txt"] = string(stderrB)
		sig := "crash/" + crashSkeleton(string(stderrB))
		if cpub {
			sig = "cpu-budget-exceeded"
		}
		p.Violations = append(p.Violations, Violation{Sig: sig, Case: last,
			Detail: fmt.Sprintf("child process died (%v) while executing case %d", err, last), Files: files})
	} else {
		p.Inconclusive(fmt.Sprintf("child failed outside a case: %v: %s", err, tail(string(stderrB), 2000)))
		return nil
	}
	// remaining cases after the crashed one
	var rest []int
	for _, c := range cases {
		if !ended[c] && c != last {
			rest = append(rest, c)
		}
	}
	return rest
}

func tail(s string, n int) string {
	if len(s) > n {
		return s[len(s)-n:]
	}
	return s
}

func crashSkeleton(stderr string) string {
	for _, l := range strings.Split(stderr, "\n") {
		l = strings.TrimSpace(l)
		if strings.HasPrefix(l, "panic:") || strings.HasPrefix(l, "fatal error:") || strings.HasPrefix(l, "runtime: goroutine stack exceeds") {
			return Skeleton(l)
		}
	}
	// log.Fatal output: last non-empty line
	ls := strings.Split(strings.TrimSpace(stderr), "\n")
	if len(ls) > 0 {
		l := ls[len(ls)-1]
		// strip log timestamp "2006/01/02 15:04:05 "
		if len(l) > 20 && l[4] == '/' && l[7] == '/' {
			l = l[20:]
		}
		return "exit/" + Skeleton(l)
	}
	return "unknown"
}

func (p *Parent) merge(r *caseResult) {
	for k, v := range r.Counters {
		p.Counters[k] += v
	}
	for _, h := range r.Hashes {
		p.hashes[h] = true
	}
	if len(p.Samples) < 6 {
		for _, s := range r.Samples {
			if len(p.Samples) < 6 {
				p.Samples = append(p.Samples, s)
			}
		}
	}
	p.Violations = append(p.Violations, r.Violations...)
	p.Extras = append(p.Extras, r.Extra...)
}

func (p *Parent) finish(start time.Time) int {
	ck := p.Check
	root := verifRoot()
	known := loadKnown()
	sort.SliceStable(p.Violations, func(i, j int) bool { return p.Violations[i].Case < p.Violations[j].Case })

	knownHit := map[string]knownFinding{}
	bySig := map[string][]Violation{}
	var sigOrder []string
	for _, v := range p.Violations {
		matched := false
		for _, k := range known {
			if k.Status == "known" && k.Property == ck.ID && sigMatch(k.Signature, v.Sig) {
				knownHit[k.Signature] = k
				matched = true
				break
			}
		}
		if matched {
			p.Counters["known_finding_observations"]++
			continue
		}
		if _, ok := bySig[v.Sig]; !ok {
			sigOrder = append(sigOrder, v.Sig)
		}
		bySig[v.Sig] = append(bySig[v.Sig], v)
	}
	var ks []string
	for s := range knownHit {
		ks = append(ks, s)
	}
	sort.Strings(ks)
	for _, s := range ks {
		fmt.Printf("KNOWN-FINDING: property=%s %s [%s]\n", ck.ID, knownHit[s].What, s)
	}

	nviol := 0
	replayRoot := filepath.Join(root, "replay", ck.ID)
	if len(sigOrder) > 0 {
		os.RemoveAll(replayRoot)
	}
	for si, sig := range sigOrder {
		vs := bySig[sig]
		nviol += len(vs)
		if si >= 8 {
			fmt.Printf("  (also) signature: %s (%d occurrence(s))\n", sig, len(vs))
			continue
		}
		v := vs[0]
		dir := filepath.Join(replayRoot, fmt.Sprintf("%02d-%s", si, safeName(sig)))
		os.MkdirAll(dir, 0o755)
		rj, _ := json.MarshalIndent(map[string]any{"check": ck.ID, "tier": p.Tier, "seed": p.Seed, "case": v.Case,
			"signature": sig, "occurrences": len(vs)}, "", " ")
		os.WriteFile(filepath.Join(dir, "replay.json"), rj, 0o644)
		os.WriteFile(filepath.Join(dir, "detail.txt"), []byte(v.Detail), 0o644)
		for name, content := range v.Files {
			base := filepath.Base(name)
			if strings.HasSuffix(base, ".go") || base == "go.mod" {
				base += ".txt" // the replay directory lies inside the verif module: keep it free of Go sources
			}
			os.WriteFile(filepath.Join(dir, base), []byte(content), 0o644)
		}
		fmt.Printf("VIOLATION property=%s replay=%s\n", ck.ID, dir)
		fmt.Printf("  signature: %s (%d occurrence(s))\n  %s\n", sig, len(vs), firstLines(v.Detail, 12))
	}

	// coverage thresholds
	distinct := len(p.hashes)
	minNT := 2
	if ck.MinNontrivial != nil {
		minNT = ck.MinNontrivial(p.Tier)
	}
	if os.Getenv("VERIF_ONLY") == "" {
		if distinct < minNT {
			p.Inconclusive(fmt.Sprintf("only %d distinct non-trivial observations (< %d)", distinct, minNT))
		}
		for _, rc := range ck.RequiredCounters {
			if p.Counters[rc] == 0 {
				p.Inconclusive("required counter " + rc + " is zero: the monitor observed nothing there")
			}
		}
		if p.Counters["evaluations"] == 0 {
			p.Inconclusive("no evaluations")
		}
		if len(p.Samples) == 0 {
			p.Inconclusive("no sample case was recorded by the check")
		}
	}

	// evidence
	level := ck.Level
	if level == "" {
		level = "exploration"
	}
	cov := map[string]any{
		"evaluations":         p.Counters["evaluations"],
		"distinct_nontrivial": distinct,
		"rule":                ck.Rule,
		"samples":             p.Samples,
		"children_spawned":    p.children,
		"children_crashed":    p.crashed,
	}
	for k, v := range p.Counters {
		if k != "evaluations" {
			cov[k] = v
		}
	}
	if ck.Exhaustive != nil && ck.Exhaustive(p.Tier) {
		cov["exhaustive"] = true
	}
	if len(p.Samples) == 0 {
		cov["samples"] = []any{}
	}
	if len(p.inconcl) > 0 {
		cov["inconclusive"] = p.inconcl
	}
	evd := map[string]any{
		"property_id": ck.ID,
		"tier":        p.Tier,
		"seed":        p.Seed,
		"level":       level,
		"coverage":    cov,
		"assumptions": ck.Assumptions,
		"wall_s":      time.Since(start).Seconds(),
		"violations":  nviol,
	}
	if os.Getenv("VERIF_ONLY") == "" && os.Getenv("VERIF_NO_EVIDENCE") == "" {
		os.MkdirAll(filepath.Join(root, "evidence"), 0o755)
		b, _ := json.MarshalIndent(evd, "", " ")
		os.WriteFile(filepath.Join(root, "evidence", ck.ID+".json"), append(b, '\n'), 0o644)
	}

	var keys []string
	for k := range p.Counters {
		keys = append(keys, k)
	}
	sort.Strings(keys)
	fmt.Printf("%s tier=%s seed=%d: %d evaluations, %d distinct non-trivial, %d children (%d crashed), %.1fs\n",
		ck.ID, p.Tier, p.Seed, p.Counters["evaluations"], distinct, p.children, p.crashed, time.Since(start).Seconds())
	for _, k := range keys {
		if k != "evaluations" {
			fmt.Printf("  %s=%d\n", k, p.Counters[k])
		}
	}
	if nviol > 0 {
		fmt.Printf("RESULT %s: VIOLATED (%d violation(s), %d signature(s))\n", ck.ID, nviol, len(sigOrder))
		return 1
	}
	if len(p.inconcl) > 0 {
		for _, w := range p.inconcl {
			fmt.Printf("INCONCLUSIVE property=%s %s\n", ck.ID, w)
		}
		return 2
	}
	fmt.Printf("RESULT %s: held on what was observed\n", ck.ID)
	return 0
}

func sigMatch(pattern, sig string) bool {
	if strings.HasSuffix(pattern, "*") {
		return strings.HasPrefix(sig, strings.TrimSuffix(pattern, "*"))
	}
	return pattern == sig
}

func safeName(s string) string {
	var b strings.Builder
	for _, r := range s {
		if r >= 'a' && r <= 'z' || r >= 'A' && r <= 'Z' || r >= '0' && r <= '9' || r == '-' || r == '_' || r == '.' {
			b.WriteRune(r)
		} else {
			b.WriteByte('_')
		}
	}
	r := b.String()
	if len(r) > 60 {
		r = r[:60]
	}
	return r
}

func firstLines(s string, n int) string {
	ls := strings.Split(s, "\n")
	if len(ls) > n {
		ls = ls[:n]
	}
	for i, l := range ls {
		if len(l) > 300 {
			ls[i] = l[:300] + "..."
		}
	}
	return strings.Join(ls, "\n  ")
}

// IDs returns the registered check ids.
func IDs() []string {
	var r []string
	for k := range registry {
		r = append(r, k)
	}
	sort.Strings(r)
	return r
}
