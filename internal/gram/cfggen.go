// Package gram generates abstract parser grammars together with their
// textmapper source text.
package gram

import (
	"fmt"
	"math/rand"
	"sort"
	"strings"

	"verif/internal/cfg"
)

// Input is a start symbol.
type Input struct {
	NT    int
	NoEoi bool
}

// PGrammar is a plain CFG with textmapper decorations that do not change the language.
type PGrammar struct {
	CFG     *cfg.Grammar
	Inputs  []Input
	Markers map[[2]int][]string // (rule, position) -> state marker names placed before that position
	Actions map[[2]int]string   // (rule, position) -> code placed before that position (position == len(RHS): end of rule)
	Opts    []string            // header option lines, e.g. "optimizeTables = true"
	Lalr    int                 // lalr(k) directive when > 1
	Flag    bool                // declare a template flag (and a never-enabled alternative guarded by it)
}

// TermName returns the spelling of terminal i (also its token text).
func TermName(i int) string {
	if i < 26 {
		return string(rune('a' + i))
	}
	return "k" + string(rune('a'+i/26-1)) + string(rune('a'+i%26))
}

// RandCFG generates a small random grammar. Roughly half of them use an
// LL(1)-ish guarded style (alternatives start with distinct terminals) so that a
// good share is LALR(1).
func RandCFG(r *rand.Rand) *PGrammar {
	nT := 2 + r.Intn(5)
	nN := 1 + r.Intn(7)
	g := &cfg.Grammar{}
	for i := 0; i < nT; i++ {
		g.Terms = append(g.Terms, TermName(i))
	}
	for i := 0; i < nN; i++ {
		g.Nonterms = append(g.Nonterms, fmt.Sprintf("N%d", i))
	}
	guarded := r.Intn(2) == 0
	pTerm := 0.45 + r.Float64()*0.35
	randSym := func(lhs int) cfg.Sym {
		if r.Float64() < pTerm {
			return cfg.Sym{T: true, I: r.Intn(nT)}
		}
		// prefer "later" nonterminals to limit ambiguity, but allow any
		if r.Intn(3) > 0 && lhs+1 < nN {
			return cfg.Sym{I: lhs + 1 + r.Intn(nN-lhs-1)}
		}
		return cfg.Sym{I: r.Intn(nN)}
	}
	for nt := 0; nt < nN; nt++ {
		nr := 1 + r.Intn(4)
		used := map[int]bool{}
		for k := 0; k < nr; k++ {
			ln := r.Intn(5)
			var rhs []cfg.Sym
			switch {
			case guarded && r.Intn(6) == 0 && k > 0: // left-recursive tail: N : N t ...
				rhs = append(rhs, cfg.Sym{I: nt})
				t := r.Intn(nT)
				rhs = append(rhs, cfg.Sym{T: true, I: t})
				for i := 2; i < ln; i++ {
					rhs = append(rhs, randSym(nt))
				}
			case guarded && ln > 0:
				t := r.Intn(nT)
				for tries := 0; used[t] && tries < 5; tries++ {
					t = r.Intn(nT)
				}
				if used[t] {
					continue
				}
				used[t] = true
				rhs = append(rhs, cfg.Sym{T: true, I: t})
				for i := 1; i < ln; i++ {
					rhs = append(rhs, randSym(nt))
				}
			default:
				for i := 0; i < ln; i++ {
					rhs = append(rhs, randSym(nt))
				}
			}
			g.Rules = append(g.Rules, cfg.Rule{LHS: nt, RHS: rhs})
		}
	}
	dedupRules(g)
	g.Prepare()
	// make every nonterminal productive
	for nt := 0; nt < nN; nt++ {
		if !g.Productive(nt) {
			g.Rules = append(g.Rules, cfg.Rule{LHS: nt, RHS: []cfg.Sym{{T: true, I: r.Intn(nT)}}})
			g.Prepare()
		}
	}
	sortRules(g)
	g.Prepare()
	pg := &PGrammar{CFG: g, Markers: map[[2]int][]string{}, Actions: map[[2]int]string{}}
	pg.Inputs = append(pg.Inputs, Input{NT: 0, NoEoi: r.Intn(6) == 0})
	for nt := 1; nt < nN; nt++ {
		if r.Intn(5) == 0 {
			pg.Inputs = append(pg.Inputs, Input{NT: nt, NoEoi: r.Intn(3) == 0})
		}
	}
	pg.coverUnreachable(r)
	pg.decorate(r)
	pg.Flag = r.Intn(4) == 0
	return pg
}

func dedupRules(g *cfg.Grammar) {
	seen := map[string]bool{}
	var out []cfg.Rule
	for _, ru := range g.Rules {
		k := fmt.Sprint(ru.LHS, ru.RHS)
		if seen[k] {
			continue
		}
		// drop the trivially cyclic rule N : N
		if len(ru.RHS) == 1 && !ru.RHS[0].T && ru.RHS[0].I == ru.LHS {
			continue
		}
		seen[k] = true
		out = append(out, ru)
	}
	g.Rules = out
}

func sortRules(g *cfg.Grammar) {
	sort.SliceStable(g.Rules, func(i, j int) bool { return g.Rules[i].LHS < g.Rules[j].LHS })
}

// coverUnreachable turns nonterminals unreachable from the inputs into inputs.
func (pg *PGrammar) coverUnreachable(r *rand.Rand) {
	for {
		var starts []int
		for _, in := range pg.Inputs {
			starts = append(starts, in.NT)
		}
		reach := pg.CFG.Reachable(starts...)
		added := false
		for nt := range pg.CFG.Nonterms {
			if !reach[nt] {
				pg.Inputs = append(pg.Inputs, Input{NT: nt, NoEoi: r.Intn(4) == 0})
				added = true
				break
			}
		}
		if !added {
			return
		}
	}
}

func (pg *PGrammar) decorate(r *rand.Rand) {
	nm := 0
	if r.Intn(2) == 0 {
		for ri, ru := range pg.CFG.Rules {
			if r.Intn(4) == 0 {
				pos := r.Intn(len(ru.RHS) + 1)
				name := fmt.Sprintf("m%d", nm%3)
				nm++
				pg.Markers[[2]int{ri, pos}] = append(pg.Markers[[2]int{ri, pos}], name)
			}
		}
	}
	if r.Intn(2) == 0 {
		na := 0
		for ri, ru := range pg.CFG.Rules {
			if r.Intn(4) == 0 {
				pos := r.Intn(len(ru.RHS) + 1)
				if _, hasMarker := pg.markersInRule(ri); hasMarker && pos < len(ru.RHS) {
					continue // mixing mid-rule actions with state markers is rejected by the compiler
				}
				pg.Actions[[2]int{ri, pos}] = fmt.Sprintf("{ vlog(\"act%d\") }", na)
				na++
			}
		}
	}
}

func (pg *PGrammar) markersInRule(ri int) ([]string, bool) {
	for k, v := range pg.Markers {
		if k[0] == ri && len(v) > 0 {
			return v, true
		}
	}
	return nil, false
}

// Text renders the grammar as textmapper source for package w/<pkg>.
func (pg *PGrammar) Text(pkg string) string {
	var b strings.Builder
	fmt.Fprintf(&b, "language %s(go);\n\nlang = \"%s\"\npackage = \"w/%s\"\neventBased = true\n", pkg, pkg, pkg)
	for _, o := range pg.Opts {
		b.WriteString(o + "\n")
	}
	b.WriteString("\n:: lexer\n\nspace: /[ \\t\\r\\n]+/ (space)\n")
	for _, t := range pg.CFG.Terms {
		fmt.Fprintf(&b, "'%s': /%s/\n", t, t)
	}
	if pg.Lalr > 1 {
		fmt.Fprintf(&b, "\n:: parser lalr(%d)\n\n", pg.Lalr)
	} else {
		b.WriteString("\n:: parser\n\n")
	}
	if pg.Flag && pg.flagNT() >= 0 {
		b.WriteString("%flag VF = false;\n\n")
	}
	b.WriteString("%input ")
	for i, in := range pg.Inputs {
		if i > 0 {
			b.WriteString(", ")
		}
		b.WriteString(pg.CFG.Nonterms[in.NT])
		if in.NoEoi {
			b.WriteString(" no-eoi")
		}
	}
	b.WriteString(";\n\n")
	for nt, name := range pg.CFG.Nonterms {
		rules := pg.CFG.RulesOf(nt)
		if len(rules) == 0 {
			continue
		}
		if pg.Flag && nt == pg.flagNT() {
			fmt.Fprintf(&b, "%s<VF> :\n", name)
		} else {
			fmt.Fprintf(&b, "%s :\n", name)
		}
		for k, ri := range rules {
			if k == 0 {
				b.WriteString("    ")
			} else {
				b.WriteString("  | ")
			}
			ru := pg.CFG.Rules[ri]
			n := 0
			for pos := 0; pos <= len(ru.RHS); pos++ {
				for _, m := range pg.Markers[[2]int{ri, pos}] {
					fmt.Fprintf(&b, ".%s ", m)
					n++
				}
				if a, ok := pg.Actions[[2]int{ri, pos}]; ok {
					b.WriteString(a + " ")
					n++
				}
				if pos < len(ru.RHS) {
					s := ru.RHS[pos]
					if s.T {
						fmt.Fprintf(&b, "'%s' ", pg.CFG.Terms[s.I])
					} else {
						fmt.Fprintf(&b, "%s ", pg.CFG.Nonterms[s.I])
					}
					n++
				}
			}
			if n == 0 {
				b.WriteString("%empty ")
			}
			b.WriteString("\n")
		}
		if pg.Flag && nt == pg.flagNT() {
			// the flag is false by default and never set: this alternative does not exist in the language
			fmt.Fprintf(&b, "  | [VF] '%s' '%s' '%s'\n", pg.CFG.Terms[0], pg.CFG.Terms[0], pg.CFG.Terms[0])
		}
		b.WriteString(";\n\n")
	}
	return b.String()
}

// RenderTokens renders a token string as text with random whitespace; returns
// the text and the byte range of every token.
func RenderTokens(r *rand.Rand, terms []string, toks []int) (string, [][2]int) {
	var b strings.Builder
	ws := []string{" ", "  ", "\n", " \t", "\n\n  "}
	pos := make([][2]int, len(toks))
	if r.Intn(4) == 0 {
		b.WriteString(ws[r.Intn(len(ws))])
	}
	for i, t := range toks {
		if i > 0 {
			b.WriteString(ws[r.Intn(len(ws))])
		}
		s := b.Len()
		b.WriteString(terms[t])
		pos[i] = [2]int{s, b.Len()}
	}
	if r.Intn(3) == 0 {
		b.WriteString(ws[r.Intn(len(ws))])
	}
	return b.String(), pos
}

// LargeCFG builds a precedence-free expression/statement grammar with many
// operators (stratified levels), yielding parsers with 80-400 states.
func LargeCFG(r *rand.Rand) *PGrammar {
	g := &cfg.Grammar{}
	term := func() cfg.Sym {
		g.Terms = append(g.Terms, TermName(len(g.Terms)))
		return cfg.Sym{T: true, I: len(g.Terms) - 1}
	}
	nonterm := func(name string) int {
		g.Nonterms = append(g.Nonterms, name)
		return len(g.Nonterms) - 1
	}
	nt := func(i int) cfg.Sym { return cfg.Sym{I: i} }
	rule := func(lhs int, rhs ...cfg.Sym) { g.Rules = append(g.Rules, cfg.Rule{LHS: lhs, RHS: rhs}) }

	id, num, lp, rp, comma, semi, lb, rb, assign := term(), term(), term(), term(), term(), term(), term(), term(), term()
	kwIf, kwElse, kwWhile, kwRet := term(), term(), term(), term()

	program := nonterm("Program")
	stmts := nonterm("Stmts")
	stmt := nonterm("Stmt")
	block := nonterm("Block")
	levels := 6 + r.Intn(4)
	exprs := make([]int, levels)
	for i := range exprs {
		exprs[i] = nonterm(fmt.Sprintf("E%d", i))
	}
	unary := nonterm("Unary")
	primary := nonterm("Primary")
	args := nonterm("Args")
	argsOpt := nonterm("ArgsOpt")

	rule(program, nt(stmts))
	rule(stmts, nt(stmts), nt(stmt))
	rule(stmts)
	rule(block, lb, nt(stmts), rb)
	rule(stmt, id, assign, nt(exprs[0]), semi)
	rule(stmt, kwIf, lp, nt(exprs[0]), rp, nt(block))
	rule(stmt, kwIf, lp, nt(exprs[0]), rp, nt(block), kwElse, nt(block))
	rule(stmt, kwWhile, lp, nt(exprs[0]), rp, nt(block))
	rule(stmt, kwRet, semi)
	rule(stmt, kwRet, nt(exprs[0]), semi)
	rule(stmt, nt(block))
	for k := r.Intn(4); k > 0; k-- {
		kw := term()
		if r.Intn(2) == 0 {
			rule(stmt, kw, nt(exprs[0]), semi)
		} else {
			rule(stmt, kw, id, nt(block))
		}
	}
	for i := 0; i < levels; i++ {
		next := unary
		if i+1 < levels {
			next = exprs[i+1]
		}
		nops := 2 + r.Intn(3)
		right := r.Intn(3) == 0
		for k := 0; k < nops; k++ {
			op := term()
			if right {
				rule(exprs[i], nt(next), op, nt(exprs[i]))
			} else {
				rule(exprs[i], nt(exprs[i]), op, nt(next))
			}
		}
		rule(exprs[i], nt(next))
	}
	for k := 1 + r.Intn(3); k > 0; k-- {
		rule(unary, term(), nt(unary))
	}
	rule(unary, nt(primary))
	rule(primary, id)
	rule(primary, num)
	rule(primary, lp, nt(exprs[0]), rp)
	rule(primary, id, lp, nt(argsOpt), rp)
	if r.Intn(2) == 0 {
		lsq, rsq := term(), term()
		rule(primary, nt(primary), lsq, nt(exprs[0]), rsq)
	}
	rule(args, nt(exprs[0]))
	rule(args, nt(args), comma, nt(exprs[0]))
	rule(argsOpt, nt(args))
	rule(argsOpt)
	sortRules(g)
	g.Prepare()
	pg := &PGrammar{CFG: g, Markers: map[[2]int][]string{}, Actions: map[[2]int]string{}}
	pg.Inputs = []Input{{NT: program}}
	if r.Intn(2) == 0 {
		pg.Inputs = append(pg.Inputs, Input{NT: exprs[0]})
	}
	if r.Intn(2) == 0 {
		pg.Inputs = append(pg.Inputs, Input{NT: block, NoEoi: true})
	}
	return pg
}

// LeftRecCFG generates grammars whose input nonterminal is (indirectly)
// left-recursive and is also used in nested contexts, so that the state reached
// after the input nonterminal from the entry state has a twin in other contexts.
func LeftRecCFG(r *rand.Rand) *PGrammar {
	g := &cfg.Grammar{}
	nT := 5 + r.Intn(6)
	for i := 0; i < nT; i++ {
		g.Terms = append(g.Terms, TermName(i))
	}
	cyc := 1 + r.Intn(3) // nonterminals on the left-recursive cycle: C0 (input) -> C1 -> ... -> C0
	for i := 0; i < cyc; i++ {
		g.Nonterms = append(g.Nonterms, fmt.Sprintf("C%d", i))
	}
	extra := r.Intn(3)
	for i := 0; i < extra; i++ {
		g.Nonterms = append(g.Nonterms, fmt.Sprintf("X%d", i))
	}
	t := func(i int) cfg.Sym { return cfg.Sym{T: true, I: i % nT} }
	nt := func(i int) cfg.Sym { return cfg.Sym{I: i} }
	rule := func(lhs int, rhs ...cfg.Sym) { g.Rules = append(g.Rules, cfg.Rule{LHS: lhs, RHS: rhs}) }
	next := 0
	fresh := func() cfg.Sym { next++; return t(next - 1) }
	base := fresh()
	// the cycle: Ci : C(i+1) tail... ; the last one refers back to C0 with several distinct continuations
	for i := 0; i < cyc; i++ {
		succ := (i + 1) % cyc
		n := 1
		if succ == 0 {
			n = 1 + r.Intn(7) // number of transitions out of the state after C0
		}
		for k := 0; k < n; k++ {
			rhs := []cfg.Sym{nt(succ), fresh()}
			for j := r.Intn(3); j > 0; j-- {
				if extra > 0 && r.Intn(3) == 0 {
					rhs = append(rhs, nt(cyc+r.Intn(extra)))
				} else {
					rhs = append(rhs, t(r.Intn(nT)))
				}
			}
			rule(i, rhs...)
		}
	}
	// base case and nested uses of the cycle nonterminals behind brackets
	rule(cyc-1, base)
	for k := 1 + r.Intn(3); k > 0; k-- {
		open, close := fresh(), fresh()
		inner := r.Intn(cyc)
		rule(r.Intn(cyc), open, nt(inner), close)
	}
	if r.Intn(3) == 0 {
		// nullable nonterminal right after the recursive reference (what mid-rule actions become)
		g.Nonterms = append(g.Nonterms, "E")
		e := len(g.Nonterms) - 1
		rule(e)
		rule(0, nt(0), nt(e), fresh())
	}
	for i := 0; i < extra; i++ {
		rule(cyc+i, fresh())
		if r.Intn(2) == 0 {
			rule(cyc+i, fresh(), nt(r.Intn(cyc)), fresh())
		}
	}
	dedupRules(g)
	sortRules(g)
	g.Prepare()
	pg := &PGrammar{CFG: g, Markers: map[[2]int][]string{}, Actions: map[[2]int]string{}}
	pg.Inputs = []Input{{NT: 0, NoEoi: r.Intn(5) == 0}}
	if cyc > 1 && r.Intn(2) == 0 {
		pg.Inputs = append(pg.Inputs, Input{NT: 1, NoEoi: r.Intn(4) == 0})
	}
	pg.coverUnreachable(r)
	if r.Intn(3) == 0 {
		pg.decorate(r)
	}
	return pg
}

// flagNT returns the nonterminal that carries the template flag: the last one that is
// not an input (inputs cannot be parametrized), or -1.
func (pg *PGrammar) flagNT() int {
	for nt := len(pg.CFG.Nonterms) - 1; nt >= 0; nt-- {
		isInput := false
		for _, in := range pg.Inputs {
			if in.NT == nt {
				isInput = true
			}
		}
		if !isInput && len(pg.CFG.RulesOf(nt)) > 0 {
			return nt
		}
	}
	return -1
}
