package gram

import (
	"fmt"
	"math/rand"

	"verif/internal/cfg"
)

// LalrK generates grammars that need more than one token of lookahead to
// resolve reduce/reduce conflicts: several alternatives start with nonterminals
// deriving the same string, continue with a common middle part and differ only
// after it.
func LalrK(r *rand.Rand) *PGrammar { return lalrK(r, false) }

// LalrKTwin is LalrK with the second conflict (same middle tokens behind another common prefix,
// other tails) always present: two parser states whose first-level lookahead rows look alike and
// whose lookahead automata differ.
func LalrKTwin(r *rand.Rand) *PGrammar { return lalrK(r, true) }

func lalrK(r *rand.Rand, twin bool) *PGrammar {
	k := 2 + r.Intn(7)
	g := &cfg.Grammar{}
	term := func() cfg.Sym {
		g.Terms = append(g.Terms, TermName(len(g.Terms)))
		return cfg.Sym{T: true, I: len(g.Terms) - 1}
	}
	nonterm := func(name string) int {
		g.Nonterms = append(g.Nonterms, name)
		return len(g.Nonterms) - 1
	}
	nt := func(i int) cfg.Sym { return cfg.Sym{I: i} }
	rule := func(lhs int, rhs ...cfg.Sym) { g.Rules = append(g.Rules, cfg.Rule{LHS: lhs, RHS: rhs}) }

	nTerms := 3 + r.Intn(3)
	var terms []cfg.Sym
	for i := 0; i < nTerms; i++ {
		terms = append(terms, term())
	}
	rt := func() cfg.Sym { return terms[r.Intn(len(terms))] }

	s := nonterm("S")
	nAlts := 2 + r.Intn(2)
	// the common prefix string derived by every head nonterminal
	prefLen := 1 + r.Intn(2)
	var pref []cfg.Sym
	for i := 0; i < prefLen; i++ {
		pref = append(pref, rt())
	}
	// shared middle part: depth up to k-1 tokens so that lalr(k) can resolve it
	midLen := r.Intn(k)
	if midLen > 4 {
		midLen = r.Intn(5)
	}
	if twin && midLen == 0 {
		midLen = 1
	}
	type midEl struct {
		kind  int // 0 terminal, 1 nonterminal deriving one terminal, 2 nullable nonterminal, 3 nonterminal deriving two terminals, 4 nonterminal 't Opt' with Opt: t2 | %empty (the next token lies behind a nullable suffix)
		t, t2 cfg.Sym
	}
	var mid []midEl
	for i := 0; i < midLen; i++ {
		mid = append(mid, midEl{kind: r.Intn(5), t: rt(), t2: rt()})
	}
	helper := 0
	newHelper := func(rhs ...cfg.Sym) cfg.Sym {
		h := nonterm(fmt.Sprintf("H%d", helper))
		helper++
		rule(h, rhs...)
		return nt(h)
	}
	optTail := func(t, t2 cfg.Sym) cfg.Sym {
		o := nonterm(fmt.Sprintf("H%d", helper))
		helper++
		rule(o, t2)
		rule(o)
		return newHelper(t, nt(o))
	}
	sharedMid := r.Intn(2) == 0 // middle nonterminals shared between alternatives or private copies
	var sharedSyms []cfg.Sym
	if sharedMid {
		for _, m := range mid {
			switch m.kind {
			case 0:
				sharedSyms = append(sharedSyms, m.t)
			case 1:
				sharedSyms = append(sharedSyms, newHelper(m.t))
			case 2:
				sharedSyms = append(sharedSyms, newHelper())
			case 3:
				sharedSyms = append(sharedSyms, newHelper(m.t, m.t2))
			case 4:
				sharedSyms = append(sharedSyms, optTail(m.t, m.t2))
			}
		}
	}
	usedTails := map[int]bool{}
	for a := 0; a < nAlts; a++ {
		head := nonterm(fmt.Sprintf("A%d", a))
		rule(head, pref...)
		rhs := []cfg.Sym{nt(head)}
		if sharedMid {
			rhs = append(rhs, sharedSyms...)
		} else {
			for _, m := range mid {
				switch m.kind {
				case 0:
					rhs = append(rhs, m.t)
				case 1:
					rhs = append(rhs, newHelper(m.t))
				case 2:
					rhs = append(rhs, newHelper())
				case 3:
					rhs = append(rhs, newHelper(m.t, m.t2))
				case 4:
					rhs = append(rhs, optTail(m.t, m.t2))
				}
			}
		}
		// distinguishing tail: a terminal not used by other alternatives; sometimes hidden
		// behind a nonterminal, or preceded by a token shared with another tail (so the
		// decisive token comes after a reduction)
		t := r.Intn(nTerms)
		for tries := 0; usedTails[t] && tries < 10; tries++ {
			t = r.Intn(nTerms)
		}
		if usedTails[t] {
			continue
		}
		usedTails[t] = true
		switch r.Intn(4) {
		case 0:
			rhs = append(rhs, terms[t])
		case 1:
			rhs = append(rhs, newHelper(terms[t]))
		case 2:
			rhs = append(rhs, newHelper(terms[0]), terms[t]) // X: t0 ; then the tail
		case 3:
			rhs = append(rhs, newHelper(terms[0], terms[t]))
		}
		if r.Intn(3) == 0 {
			rhs = append(rhs, rt())
		}
		rule(s, rhs...)
	}
	if twin || r.Intn(3) == 0 {
		// a second, independent conflict with the same middle tokens but another common prefix and
		// other tails: its lookahead automaton shares inner nodes with the first one
		var pref2 []cfg.Sym
		for tries := 0; tries < 10; tries++ {
			pref2 = []cfg.Sym{rt()}
			if pref2[0] != pref[0] {
				break
			}
		}
		if pref2[0] != pref[0] {
			usedT := map[int]bool{}
			for a := 0; a < nAlts; a++ {
				head := nonterm(fmt.Sprintf("B%d", a))
				rule(head, pref2...)
				rhs := []cfg.Sym{nt(head)}
				for _, m := range mid {
					switch m.kind {
					case 2:
						rhs = append(rhs, newHelper())
					case 3:
						rhs = append(rhs, m.t, m.t2)
					default:
						rhs = append(rhs, m.t)
					}
				}
				t := r.Intn(nTerms)
				for tries := 0; usedT[t] && tries < 10; tries++ {
					t = r.Intn(nTerms)
				}
				if usedT[t] {
					continue
				}
				usedT[t] = true
				rhs = append(rhs, terms[t])
				rule(s, rhs...)
			}
		}
	}
	if r.Intn(3) == 0 && nAlts >= 2 {
		// a second group of alternatives for the same heads with its own (possibly too long) middle:
		// the same reduce/reduce conflict then has several next terminals with different depths
		g2 := terms[len(terms)-1]
		n2 := r.Intn(k + 2)
		var mid2 []cfg.Sym
		for i := 0; i < n2; i++ {
			mid2 = append(mid2, rt())
		}
		used2 := map[int]bool{}
		for a := 0; a < nAlts; a++ {
			head := -1
			for i, n := range g.Nonterms {
				if n == fmt.Sprintf("A%d", a) {
					head = i
				}
			}
			if head < 0 {
				continue
			}
			t := r.Intn(nTerms)
			for tries := 0; used2[t] && tries < 10; tries++ {
				t = r.Intn(nTerms)
			}
			if used2[t] {
				continue
			}
			used2[t] = true
			rhs := append([]cfg.Sym{nt(head), g2}, mid2...)
			rhs = append(rhs, terms[t])
			rule(s, rhs...)
		}
	}
	if r.Intn(3) == 0 {
		// wrap into a list to let the conflict occur in the middle of the input
		l := nonterm("L")
		rule(l, nt(l), nt(s))
		rule(l, nt(s))
		sortRules(g)
		g.Prepare()
		pg := &PGrammar{CFG: g, Markers: map[[2]int][]string{}, Actions: map[[2]int]string{}, Lalr: k}
		pg.Inputs = []Input{{NT: l}}
		return pg
	}
	sortRules(g)
	g.Prepare()
	pg := &PGrammar{CFG: g, Markers: map[[2]int][]string{}, Actions: map[[2]int]string{}, Lalr: k}
	pg.Inputs = []Input{{NT: s, NoEoi: r.Intn(8) == 0}}
	return pg
}
