package gram

import (
	"fmt"
	"math/rand"
	"strings"
)

// Extended-notation grammars with '-> Node' annotations. The sampler derives a
// sentence top-down and, at the same time, the list of listener events the
// documented range rules assign to that derivation.

type XKind int

const (
	XSeq XKind = iota
	XTerm
	XNonterm
	XOpt
	XChoice
	XList
	XArrow
)

// XExpr is a node of a rule body.
type XExpr struct {
	Kind  XKind
	Sub   []*XExpr // XSeq: elements; XOpt/XArrow: [content seq]; XChoice: alternatives (seqs or arrows around seqs); XList: [element seq]
	Sym   int
	Arrow string // XArrow
	Sep   int    // XList: separator terminal or -1
	Plus  bool   // XList: one or more
}

// XRule is one alternative of a nonterminal.
type XRule struct {
	Body   *XExpr // XSeq (possibly empty)
	Arrow  string // rule-level "-> Name" ("" = use the nonterminal's default)
	Action string // end-of-rule semantic action (does not change the language or the events)
}

// XNT is a nonterminal definition.
type XNT struct {
	Name  string
	Arrow string // default report clause: "Name -> Arrow : ..."
	Rules []*XRule
}

// XGrammar is an extended grammar.
type XGrammar struct {
	Terms    []string
	Nonterms []*XNT
	Inputs   []Input
	FixWS    bool
	Opts     []string
	Types    []string // all arrow names used
	Twins    int      // lists that repeat an earlier list's element under another node name
	Designed bool     // built by DesignedXGrammar
}

// XEvent is an expected listener event in token-index space: the node covers
// tokens [S,E); S==E means an empty node positioned at token S.
type XEvent struct {
	Name string
	S, E int
}

func (g *XGrammar) hasEmptyRule(nt int) bool {
	for _, r := range g.Nonterms[nt].Rules {
		if len(r.Body.Sub) == 0 {
			return true
		}
	}
	return false
}

// tightEnd: every instance ends with a token (or is absent altogether).
func (g *XGrammar) tightEnd(e *XExpr) bool {
	switch e.Kind {
	case XTerm:
		return true
	case XNonterm:
		return !g.hasEmptyRule(e.Sym)
	case XOpt, XArrow:
		return g.tightEnd(e.Sub[0])
	case XChoice:
		for _, a := range e.Sub {
			if !g.tightEnd(a) {
				return false
			}
		}
		return true
	case XList:
		return e.Plus && g.tightEnd(e.Sub[0])
	case XSeq:
		// trailing optional parts may be absent: then the element before them ends the sequence
		for i := len(e.Sub) - 1; i >= 0; i-- {
			if !g.tightEnd(e.Sub[i]) {
				return false
			}
			if e.Sub[i].Kind != XOpt {
				return true
			}
		}
		return false // empty, or everything optional
	}
	return false
}

// nullableExpr: can derive the empty token string (conservative for nonterminals:
// only nonterminals with an explicit empty rule are considered nullable, which the
// generator guarantees to be exact).
func (g *XGrammar) nullableExpr(e *XExpr) bool {
	switch e.Kind {
	case XTerm:
		return false
	case XNonterm:
		return g.hasEmptyRule(e.Sym)
	case XOpt:
		return true
	case XArrow:
		return g.nullableExpr(e.Sub[0])
	case XChoice:
		for _, a := range e.Sub {
			if g.nullableExpr(a) {
				return true
			}
		}
		return false
	case XList:
		return !e.Plus
	case XSeq:
		for _, s := range e.Sub {
			if !g.nullableExpr(s) {
				return false
			}
		}
		return true
	}
	return false
}

// XGenOptions tunes RandXGrammar.
type XGenOptions struct {
	FixWS         bool
	NoArrows      bool
	MaxNT         int
	ErrorRecovery bool
}

type xgen struct {
	r       *rand.Rand
	g       *XGrammar
	nT      int
	types   int
	opt     XGenOptions
	emptyNT []bool
	lists   []*XExpr
	twins   int
}

func (x *xgen) newType() string {
	x.types++
	name := fmt.Sprintf("T%d", x.types)
	x.g.Types = append(x.g.Types, name)
	return name
}

func (x *xgen) term() *XExpr { return &XExpr{Kind: XTerm, Sym: x.r.Intn(x.nT)} }

func (x *xgen) maybeArrow(e *XExpr, p int) *XExpr {
	if x.opt.NoArrows || x.r.Intn(p) != 0 {
		return e
	}
	return &XExpr{Kind: XArrow, Sub: []*XExpr{e}, Arrow: x.newType()}
}

// seq generates a sequence starting with a terminal (keeps grammars mostly LL(1)-like).
func (x *xgen) seq(nt, depth int, guard bool) *XExpr {
	s := &XExpr{Kind: XSeq}
	if guard {
		s.Sub = append(s.Sub, x.term())
	}
	n := x.r.Intn(4)
	if !guard && n == 0 {
		n = 1
	}
	for i := 0; i < n; i++ {
		s.Sub = append(s.Sub, x.element(nt, depth))
	}
	if x.opt.FixWS && x.r.Intn(4) == 0 {
		// end the sequence with a nullable nonterminal (trailing empty child, trimmed by fixWhitespace)
		var cands []int
		for i, e := range x.emptyNT {
			if e {
				cands = append(cands, i)
			}
		}
		if len(cands) > 0 {
			s.Sub = append(s.Sub, &XExpr{Kind: XNonterm, Sym: cands[x.r.Intn(len(cands))]})
		}
	}
	if !x.opt.FixWS && !x.g.tightEnd(s) {
		s.Sub = append(s.Sub, x.term())
	}
	return s
}

func (x *xgen) element(nt, depth int) *XExpr {
	nN := len(x.g.Nonterms)
	k := x.r.Intn(12)
	if depth >= 3 && k >= 5 {
		k = x.r.Intn(5)
	}
	switch {
	case k < 4:
		return x.term()
	case k < 6:
		// nonterminal reference, mostly to later nonterminals
		t := nt + 1 + x.r.Intn(nN)
		if t >= nN || x.r.Intn(6) == 0 {
			t = x.r.Intn(nN)
		}
		return &XExpr{Kind: XNonterm, Sym: t}
	case k < 8:
		inner := x.seq(nt, depth+1, true)
		var c *XExpr = inner
		if len(inner.Sub) == 1 && x.r.Intn(2) == 0 {
			c = inner // single symbol optional: printed as sym?
		}
		c = x.maybeArrowSeq(c, 3)
		return &XExpr{Kind: XOpt, Sub: []*XExpr{c}}
	case k < 9:
		ch := &XExpr{Kind: XChoice}
		for i, n := 0, 2+x.r.Intn(2); i < n; i++ {
			ch.Sub = append(ch.Sub, x.maybeArrowSeq(x.seq(nt, depth+1, true), 3))
		}
		return ch
	case k < 11:
		if len(x.lists) > 0 && !x.opt.NoArrows && x.r.Intn(3) == 0 {
			// a twin of an earlier list: same element, same kind, but another node name
			prev := x.lists[x.r.Intn(len(x.lists))]
			inner := prev.Sub[0]
			if inner.Kind == XSeq && len(inner.Sub) == 1 && inner.Sub[0].Kind == XArrow {
				inner = inner.Sub[0].Sub[0]
			}
			twin := &XExpr{Kind: XList, Sep: prev.Sep, Plus: prev.Plus}
			twin.Sub = []*XExpr{{Kind: XSeq, Sub: []*XExpr{{Kind: XArrow, Sub: []*XExpr{cloneX(inner)}, Arrow: x.newType()}}}}
			x.twins++
			return twin
		}
		l := &XExpr{Kind: XList, Sep: -1, Plus: x.r.Intn(2) == 0}
		if x.r.Intn(2) == 0 {
			l.Sep = x.r.Intn(x.nT)
		}
		l.Sub = []*XExpr{x.maybeArrowSeq(x.seq(nt, depth+1, true), 3)}
		x.lists = append(x.lists, l)
		return l
	default:
		return &XExpr{Kind: XArrow, Sub: []*XExpr{x.seq(nt, depth+1, x.r.Intn(3) > 0)}, Arrow: x.newType()}
	}
}

// maybeArrowSeq optionally wraps a sequence into an arrow (kept as a one-element seq).
func (x *xgen) maybeArrowSeq(s *XExpr, p int) *XExpr {
	if x.opt.NoArrows || x.r.Intn(p) != 0 {
		return s
	}
	return &XExpr{Kind: XSeq, Sub: []*XExpr{{Kind: XArrow, Sub: []*XExpr{s}, Arrow: x.newType()}}}
}

// RandXGrammar generates a random extended grammar.
func RandXGrammar(r *rand.Rand, opt XGenOptions) *XGrammar {
	g := &XGrammar{FixWS: opt.FixWS}
	x := &xgen{r: r, g: g, opt: opt}
	x.nT = 5 + r.Intn(8)
	for i := 0; i < x.nT; i++ {
		g.Terms = append(g.Terms, TermName(i))
	}
	maxNT := opt.MaxNT
	if maxNT == 0 {
		maxNT = 6
	}
	nN := 2 + r.Intn(maxNT-1)
	for i := 0; i < nN; i++ {
		n := &XNT{Name: fmt.Sprintf("N%d", i)}
		g.Nonterms = append(g.Nonterms, n)
	}
	// decide structurally which nonterminals get an empty rule (never the first one)
	x.emptyNT = make([]bool, nN)
	for i := 1; i < nN; i++ {
		if r.Intn(3) == 0 {
			x.emptyNT[i] = true
			g.Nonterms[i].Rules = append(g.Nonterms[i].Rules, &XRule{Body: &XExpr{Kind: XSeq}})
		}
	}
	for i, n := range g.Nonterms {
		if !opt.NoArrows && r.Intn(2) == 0 {
			n.Arrow = x.newType()
		}
		nr := 1 + r.Intn(3)
		used := map[int]bool{}
		for k := 0; k < nr; k++ {
			body := x.seq(i, 0, true)
			gt := body.Sub[0].Sym
			if used[gt] {
				continue
			}
			used[gt] = true
			rule := &XRule{Body: body}
			if !opt.NoArrows && r.Intn(3) == 0 {
				rule.Arrow = x.newType()
			}
			n.Rules = append(n.Rules, rule)
		}
		// empty rule with its own arrow sometimes
		for _, ru := range n.Rules {
			if len(ru.Body.Sub) == 0 && !opt.NoArrows && r.Intn(2) == 0 {
				ru.Arrow = x.newType()
			}
			if len(ru.Body.Sub) == 0 && r.Intn(3) > 0 {
				// a nonterminal that is empty only through an alternative carrying a semantic action
				ru.Action = fmt.Sprintf("{ vlog(\"empty %s\") }", n.Name)
			}
		}
	}
	g.Twins = x.twins
	g.Inputs = []Input{{NT: 0}}
	for {
		reach := g.reachable()
		added := false
		for i := range g.Nonterms {
			if !reach[i] {
				g.Inputs = append(g.Inputs, Input{NT: i, NoEoi: r.Intn(3) == 0})
				added = true
				break
			}
		}
		if !added {
			break
		}
	}
	return g
}

func (g *XGrammar) reachable() []bool {
	seen := make([]bool, len(g.Nonterms))
	var visit func(e *XExpr)
	var visitNT func(i int)
	visit = func(e *XExpr) {
		if e.Kind == XNonterm {
			visitNT(e.Sym)
		}
		for _, s := range e.Sub {
			visit(s)
		}
	}
	visitNT = func(i int) {
		if seen[i] {
			return
		}
		seen[i] = true
		for _, r := range g.Nonterms[i].Rules {
			visit(r.Body)
		}
	}
	for _, in := range g.Inputs {
		visitNT(in.NT)
	}
	return seen
}

// ---------------------------------------------------------------------------
// printing

func (g *XGrammar) exprText(e *XExpr, b *strings.Builder) {
	switch e.Kind {
	case XTerm:
		fmt.Fprintf(b, "'%s'", g.Terms[e.Sym])
	case XNonterm:
		b.WriteString(g.Nonterms[e.Sym].Name)
	case XSeq:
		for i, s := range e.Sub {
			if i > 0 {
				b.WriteByte(' ')
			}
			g.exprText(s, b)
		}
	case XOpt:
		c := e.Sub[0]
		if c.Kind == XSeq && len(c.Sub) == 1 && (c.Sub[0].Kind == XTerm || c.Sub[0].Kind == XNonterm) {
			g.exprText(c.Sub[0], b)
			b.WriteByte('?')
		} else {
			b.WriteByte('(')
			g.altText(c, b)
			b.WriteString(")?")
		}
	case XChoice:
		b.WriteByte('(')
		for i, a := range e.Sub {
			if i > 0 {
				b.WriteString(" | ")
			}
			g.altText(a, b)
		}
		b.WriteByte(')')
	case XList:
		b.WriteByte('(')
		if e.Sep >= 0 {
			// separator lists take plain rhs parts only: an annotated element needs its own parentheses
			g.exprText(e.Sub[0], b)
			fmt.Fprintf(b, " separator '%s'", g.Terms[e.Sep])
		} else {
			g.altText(e.Sub[0], b)
		}
		b.WriteByte(')')
		if e.Plus {
			b.WriteByte('+')
		} else {
			b.WriteByte('*')
		}
	case XArrow:
		b.WriteByte('(')
		g.exprText(e.Sub[0], b)
		fmt.Fprintf(b, " -> %s)", e.Arrow)
	}
}

// altText prints an alternative; a sequence consisting of a single arrow is printed
// as "content -> Name" (rule-style report clause of the nested rule).
func (g *XGrammar) altText(a *XExpr, b *strings.Builder) {
	if a.Kind == XSeq && len(a.Sub) == 1 && a.Sub[0].Kind == XArrow {
		g.exprText(a.Sub[0].Sub[0], b)
		fmt.Fprintf(b, " -> %s", a.Sub[0].Arrow)
		return
	}
	g.exprText(a, b)
}

// Text renders the grammar as textmapper source.
func (g *XGrammar) Text(pkg string) string {
	var b strings.Builder
	fmt.Fprintf(&b, "language %s(go);\n\nlang = \"%s\"\npackage = \"w/%s\"\neventBased = true\n", pkg, pkg, pkg)
	if g.FixWS {
		b.WriteString("fixWhitespace = true\n")
	}
	for _, o := range g.Opts {
		b.WriteString(o + "\n")
	}
	b.WriteString("\n:: lexer\n\nspace: /[ \\t\\r\\n]+/ (space)\n")
	for _, t := range g.Terms {
		fmt.Fprintf(&b, "'%s': /%s/\n", t, t)
	}
	b.WriteString("\n:: parser\n\n%input ")
	for i, in := range g.Inputs {
		if i > 0 {
			b.WriteString(", ")
		}
		b.WriteString(g.Nonterms[in.NT].Name)
		if in.NoEoi {
			b.WriteString(" no-eoi")
		}
	}
	b.WriteString(";\n\n")
	for _, n := range g.Nonterms {
		b.WriteString(n.Name)
		if n.Arrow != "" {
			fmt.Fprintf(&b, " -> %s", n.Arrow)
		}
		b.WriteString(" :\n")
		for k, ru := range n.Rules {
			if k == 0 {
				b.WriteString("    ")
			} else {
				b.WriteString("  | ")
			}
			if len(ru.Body.Sub) == 0 {
				if ru.Action == "" {
					b.WriteString("%empty")
				}
			} else {
				g.exprText(ru.Body, &b)
			}
			if ru.Action != "" {
				b.WriteString(" " + ru.Action)
			}
			if ru.Arrow != "" {
				fmt.Fprintf(&b, " -> %s", ru.Arrow)
			}
			b.WriteString("\n")
		}
		b.WriteString(";\n\n")
	}
	return b.String()
}

// ---------------------------------------------------------------------------
// sampling with expected events

type xsampler struct {
	g      *XGrammar
	r      *rand.Rand
	budget int
	toks   []int
	events []XEvent
	depth  int
	minH   []int
	h      []int
}

// minHeights computes, per nonterminal, whether it can finish quickly: the index
// of a rule with minimal nesting height.
func (g *XGrammar) minRule() []int {
	best, _ := g.minRuleHeights()
	return best
}

func (g *XGrammar) exprHeight(h []int, e *XExpr) int {
	switch e.Kind {
	case XTerm:
		return 0
	case XNonterm:
		return h[e.Sym]
	case XOpt:
		return 0
	case XList:
		if !e.Plus {
			return 0
		}
		return g.exprHeight(h, e.Sub[0])
	case XChoice:
		m := 1 << 30
		for _, a := range e.Sub {
			if v := g.exprHeight(h, a); v < m {
				m = v
			}
		}
		return m
	default: // seq, arrow
		m := 0
		for _, s := range e.Sub {
			if v := g.exprHeight(h, s); v > m {
				m = v
			}
		}
		return m
	}
}

func (g *XGrammar) minRuleHeights() ([]int, []int) {
	n := len(g.Nonterms)
	h := make([]int, n)
	best := make([]int, n)
	for i := range h {
		h[i] = 1 << 30
		best[i] = -1
	}
	var height func(e *XExpr) int
	height = func(e *XExpr) int {
		switch e.Kind {
		case XTerm:
			return 0
		case XNonterm:
			return h[e.Sym]
		case XOpt:
			return 0
		case XList:
			if !e.Plus {
				return 0
			}
			return height(e.Sub[0])
		case XChoice:
			m := 1 << 30
			for _, a := range e.Sub {
				if v := height(a); v < m {
					m = v
				}
			}
			return m
		default: // seq, arrow
			m := 0
			for _, s := range e.Sub {
				if v := height(s); v > m {
					m = v
				}
			}
			return m
		}
	}
	for changed := true; changed; {
		changed = false
		for i, nt := range g.Nonterms {
			for k, r := range nt.Rules {
				v := height(r.Body)
				if v < 1<<30 && v+1 < h[i] {
					h[i] = v + 1
					best[i] = k
					changed = true
				}
			}
		}
	}
	return best, h
}

// Productive reports whether every nonterminal can derive a terminal string.
func (g *XGrammar) Productive() bool {
	for _, b := range g.minRule() {
		if b < 0 {
			return false
		}
	}
	return true
}

// Sample derives a sentence of nonterminal nt and the expected events.
func (g *XGrammar) Sample(r *rand.Rand, nt, budget int) ([]int, []XEvent) {
	best, h := g.minRuleHeights()
	s := &xsampler{g: g, r: r, budget: budget, minH: best, h: h}
	s.nonterm(nt)
	return s.toks, s.events
}

func (s *xsampler) nonterm(nt int) (int, int) {
	n := s.g.Nonterms[nt]
	s.depth++
	defer func() { s.depth-- }()
	var rule *XRule
	if s.budget <= 0 || s.depth > 60 {
		rule = n.Rules[s.minH[nt]]
	} else {
		rule = n.Rules[s.r.Intn(len(n.Rules))]
	}
	s.budget -= 2
	start := len(s.toks)
	var pending []XEvent
	s.seq(rule.Body, &pending)
	end := len(s.toks)
	// reduction of the rule: inline arrows (inner first, left to right), then the rule-level node
	s.events = append(s.events, pending...)
	name := rule.Arrow
	if name == "" {
		name = n.Arrow
	}
	if name != "" {
		s.events = append(s.events, XEvent{name, start, end})
	}
	return start, end
}

// seq derives e; inline arrows of the current plain rule are appended to pending.
func (s *xsampler) seq(e *XExpr, pending *[]XEvent) {
	switch e.Kind {
	case XTerm:
		s.toks = append(s.toks, e.Sym)
		s.budget--
	case XNonterm:
		s.nonterm(e.Sym)
	case XSeq:
		for _, sub := range e.Sub {
			s.seq(sub, pending)
		}
	case XOpt:
		if s.budget > 0 && s.r.Intn(2) == 0 {
			s.seq(e.Sub[0], pending)
		}
	case XChoice:
		var alt *XExpr
		if s.budget <= 0 {
			// cheapest alternative
			alt = e.Sub[0]
			for _, a := range e.Sub[1:] {
				if s.g.exprHeight(s.h, a) < s.g.exprHeight(s.h, alt) {
					alt = a
				}
			}
		} else {
			alt = e.Sub[s.r.Intn(len(e.Sub))]
		}
		s.seq(alt, pending)
	case XArrow:
		start := len(s.toks)
		s.seq(e.Sub[0], pending)
		*pending = append(*pending, XEvent{e.Arrow, start, len(s.toks)})
	case XList:
		n := 0
		if e.Plus {
			n = 1
		}
		if s.budget > 0 {
			n += s.r.Intn(4)
			if s.r.Intn(10) == 0 {
				n += s.r.Intn(20)
			}
		}
		for i := 0; i < n; i++ {
			if i > 0 && e.Sep >= 0 {
				s.toks = append(s.toks, e.Sep)
			}
			// each element is reduced by its own list rule: its inline arrows are reported right after it
			var own []XEvent
			s.seq(e.Sub[0], &own)
			s.events = append(s.events, own...)
		}
	}
}

func cloneX(e *XExpr) *XExpr {
	c := *e
	c.Sub = nil
	for _, s := range e.Sub {
		c.Sub = append(c.Sub, cloneX(s))
	}
	return &c
}

// DesignedXGrammar builds a small conflict-free grammar that contains, by construction, the
// shapes that random generation only hits occasionally: two lists over the same element that
// differ only in the node name, a rule ending with a nonterminal that is empty only through an
// alternative carrying a semantic action (fixWhitespace only), and a no-eoi input whose node
// types occur nowhere else.
func DesignedXGrammar(r *rand.Rand, fixWS bool) *XGrammar {
	g := &XGrammar{FixWS: fixWS}
	for i := 0; i < 9; i++ {
		g.Terms = append(g.Terms, TermName(i))
	}
	perm := r.Perm(9)
	t := func(i int) *XExpr { return &XExpr{Kind: XTerm, Sym: perm[i]} }
	nt := func(i int) *XExpr { return &XExpr{Kind: XNonterm, Sym: i} }
	seq := func(es ...*XExpr) *XExpr { return &XExpr{Kind: XSeq, Sub: es} }
	arrow := func(name string, es ...*XExpr) *XExpr {
		g.Types = append(g.Types, name)
		return &XExpr{Kind: XArrow, Sub: []*XExpr{seq(es...)}, Arrow: name}
	}
	list := func(name string, sep int) *XExpr {
		l := &XExpr{Kind: XList, Sep: sep, Plus: true}
		l.Sub = []*XExpr{seq(arrow(name, t(3)))}
		return l
	}
	sep := -1
	if r.Intn(2) == 0 {
		sep = perm[8]
	}
	g.Twins = 1
	g.Designed = true
	body := []*XExpr{t(0), list("Ta", sep), t(1), list("Tb", sep), t(2)}
	if fixWS {
		body = append(body, nt(1)) // trailing nonterminal that may be empty
	} else {
		body = append([]*XExpr{t(0), nt(1)}, body[1:]...)
	}
	g.Types = append(g.Types, "Root", "Tail", "Snip", "Inner")
	g.Nonterms = []*XNT{
		{Name: "N0", Arrow: "Root", Rules: []*XRule{{Body: seq(body...)}}},
		{Name: "N1", Rules: []*XRule{
			{Body: seq(), Action: "{ vlog(\"empty tail\") }"},
			{Body: seq(t(4)), Arrow: "Tail"},
		}},
		{Name: "N2", Arrow: "Snip", Rules: []*XRule{{Body: seq(t(5), arrow("Inner", t(6)), t(7))}}},
	}
	g.Inputs = []Input{{NT: 0}, {NT: 2, NoEoi: true}}
	return g
}
