// Package cfg holds plain context-free grammars used as reference models:
// an Earley recognizer (membership, viable-prefix boundary, shortest accepted
// prefix), a derivation sampler and sentence mutators. It knows nothing about
// textmapper.
package cfg

import (
	"fmt"
	"math/rand"
	"strings"
)

// Sym is a grammar symbol: terminal (T) or nonterminal index.
type Sym struct {
	T bool
	I int
}

// Rule is a production. Tag is free for the user (e.g. index of the source rule).
type Rule struct {
	LHS int
	RHS []Sym
	Tag int
}

// Grammar is a plain CFG.
type Grammar struct {
	Terms    []string
	Nonterms []string
	Rules    []Rule

	byLHS     [][]int
	nullable  []bool
	minHeight []int // minimal derivation tree height per nonterminal (-1 unproductive)
	ruleH     []int
}

// Prepare computes derived tables. Must be called after Rules changed.
func (g *Grammar) Prepare() {
	n := len(g.Nonterms)
	g.byLHS = make([][]int, n)
	for i, r := range g.Rules {
		g.byLHS[r.LHS] = append(g.byLHS[r.LHS], i)
	}
	g.nullable = make([]bool, n)
	for changed := true; changed; {
		changed = false
		for _, r := range g.Rules {
			if g.nullable[r.LHS] {
				continue
			}
			ok := true
			for _, s := range r.RHS {
				if s.T || !g.nullable[s.I] {
					ok = false
					break
				}
			}
			if ok {
				g.nullable[r.LHS] = true
				changed = true
			}
		}
	}
	g.minHeight = make([]int, n)
	for i := range g.minHeight {
		g.minHeight[i] = -1
	}
	g.ruleH = make([]int, len(g.Rules))
	for changed := true; changed; {
		changed = false
		for ri, r := range g.Rules {
			h := 1
			ok := true
			for _, s := range r.RHS {
				if s.T {
					continue
				}
				if g.minHeight[s.I] < 0 {
					ok = false
					break
				}
				if g.minHeight[s.I]+1 > h {
					h = g.minHeight[s.I] + 1
				}
			}
			if !ok {
				g.ruleH[ri] = -1
				continue
			}
			g.ruleH[ri] = h
			if g.minHeight[r.LHS] < 0 || h < g.minHeight[r.LHS] {
				g.minHeight[r.LHS] = h
				changed = true
			}
		}
	}
	// recompute rule heights with final values
	for ri, r := range g.Rules {
		h := 1
		for _, s := range r.RHS {
			if !s.T {
				if g.minHeight[s.I] < 0 {
					h = -1
					break
				}
				if g.minHeight[s.I]+1 > h {
					h = g.minHeight[s.I] + 1
				}
			}
		}
		g.ruleH[ri] = h
	}
}

// Nullable reports whether nonterminal nt derives the empty string.
func (g *Grammar) Nullable(nt int) bool { return g.nullable[nt] }

// Productive reports whether nt derives some terminal string.
func (g *Grammar) Productive(nt int) bool { return g.minHeight[nt] >= 0 }

// RulesOf returns rule indices with the given LHS.
func (g *Grammar) RulesOf(nt int) []int { return g.byLHS[nt] }

// Reachable returns the nonterminals reachable from the start nonterminals.
func (g *Grammar) Reachable(starts ...int) []bool {
	seen := make([]bool, len(g.Nonterms))
	st := append([]int(nil), starts...)
	for len(st) > 0 {
		v := st[len(st)-1]
		st = st[:len(st)-1]
		if seen[v] {
			continue
		}
		seen[v] = true
		for _, ri := range g.byLHS[v] {
			for _, s := range g.Rules[ri].RHS {
				if !s.T && !seen[s.I] {
					st = append(st, s.I)
				}
			}
		}
	}
	return seen
}

func (g *Grammar) String() string {
	var b strings.Builder
	for _, r := range g.Rules {
		fmt.Fprintf(&b, "%s :", g.Nonterms[r.LHS])
		for _, s := range r.RHS {
			if s.T {
				fmt.Fprintf(&b, " '%s'", g.Terms[s.I])
			} else {
				fmt.Fprintf(&b, " %s", g.Nonterms[s.I])
			}
		}
		b.WriteString(" ;\n")
	}
	return b.String()
}

// ---------------------------------------------------------------------------
// Earley recognizer

type item struct {
	rule, dot, origin int
}

// Recognition is the result of running the recognizer over an input.
type Recognition struct {
	// Sentence: the whole input is a sentence of the start nonterminal.
	Sentence bool
	// FirstComplete is the smallest k such that input[:k] is a sentence (-1 if none).
	FirstComplete int
	// Dead is the smallest k such that input[:k+1] is not a prefix of any sentence,
	// i.e. token k is the first offending one; len(input) when the whole input is a
	// viable prefix.
	Dead int
}

// Recognize runs Earley for start nonterminal over tokens (terminal indices).
func (g *Grammar) Recognize(start int, input []int) Recognition {
	res := Recognition{FirstComplete: -1, Dead: len(input)}
	n := len(input)
	sets := make([][]item, n+1)
	index := make([]map[item]bool, n+1)
	add := func(k int, it item) {
		if index[k] == nil {
			index[k] = map[item]bool{}
		}
		if !index[k][it] {
			index[k][it] = true
			sets[k] = append(sets[k], it)
		}
	}
	for _, ri := range g.byLHS[start] {
		add(0, item{ri, 0, 0})
	}
	for k := 0; k <= n; k++ {
		complete := false
		for i := 0; i < len(sets[k]); i++ {
			it := sets[k][i]
			r := &g.Rules[it.rule]
			if it.dot == len(r.RHS) {
				if r.LHS == start && it.origin == 0 {
					complete = true
				}
				// completer
				for _, p := range sets[it.origin] {
					pr := &g.Rules[p.rule]
					if p.dot < len(pr.RHS) && !pr.RHS[p.dot].T && pr.RHS[p.dot].I == r.LHS {
						add(k, item{p.rule, p.dot + 1, p.origin})
					}
				}
				continue
			}
			s := r.RHS[it.dot]
			if s.T {
				if k < n && input[k] == s.I {
					add(k+1, item{it.rule, it.dot + 1, it.origin})
				}
				continue
			}
			// predictor
			for _, ri := range g.byLHS[s.I] {
				add(k, item{ri, 0, k})
			}
			if g.nullable[s.I] {
				add(k, item{it.rule, it.dot + 1, it.origin})
			}
		}
		if complete {
			if res.FirstComplete < 0 {
				res.FirstComplete = k
			}
			if k == n {
				res.Sentence = true
			}
		}
		if k < n && len(sets[k+1]) == 0 {
			res.Dead = k
			break
		}
	}
	return res
}

// ---------------------------------------------------------------------------
// derivation sampling

// Tree is a derivation tree node.
type Tree struct {
	Sym      Sym
	Rule     int // index in Grammar.Rules for nonterminals
	Children []*Tree
}

// Yield appends the terminal indices of the tree's frontier.
func (t *Tree) Yield(out []int) []int {
	if t.Sym.T {
		return append(out, t.Sym.I)
	}
	for _, c := range t.Children {
		out = c.Yield(out)
	}
	return out
}

// Sample produces a random derivation of nt with roughly the given size budget.
func (g *Grammar) Sample(r *rand.Rand, nt int, budget int) *Tree {
	if g.minHeight[nt] < 0 {
		return nil
	}
	b := budget
	return g.sample(r, nt, &b, 0)
}

func (g *Grammar) sample(r *rand.Rand, nt int, budget *int, depth int) *Tree {
	var cands []int
	rules := g.byLHS[nt]
	if *budget <= 0 || depth > 200 {
		// minimal-height rules only
		for _, ri := range rules {
			if g.ruleH[ri] == g.minHeight[nt] {
				cands = append(cands, ri)
			}
		}
	} else {
		for _, ri := range rules {
			if g.ruleH[ri] >= 0 {
				cands = append(cands, ri)
			}
		}
	}
	ri := cands[r.Intn(len(cands))]
	*budget -= 1 + len(g.Rules[ri].RHS)
	t := &Tree{Sym: Sym{false, nt}, Rule: ri}
	for _, s := range g.Rules[ri].RHS {
		if s.T {
			t.Children = append(t.Children, &Tree{Sym: s})
		} else {
			t.Children = append(t.Children, g.sample(r, s.I, budget, depth+1))
		}
	}
	return t
}

// Mutate applies a random token-level mutation to a sentence.
func Mutate(r *rand.Rand, s []int, nterms int) []int {
	out := append([]int(nil), s...)
	switch r.Intn(6) {
	case 0: // delete
		if len(out) > 0 {
			p := r.Intn(len(out))
			out = append(out[:p], out[p+1:]...)
		}
	case 1: // insert
		p := r.Intn(len(out) + 1)
		out = append(out[:p], append([]int{r.Intn(nterms)}, out[p:]...)...)
	case 2: // replace
		if len(out) > 0 {
			out[r.Intn(len(out))] = r.Intn(nterms)
		}
	case 3: // swap
		if len(out) > 1 {
			p := r.Intn(len(out) - 1)
			out[p], out[p+1] = out[p+1], out[p]
		}
	case 4: // truncate
		if len(out) > 0 {
			out = out[:r.Intn(len(out))]
		}
	case 5: // duplicate a slice
		if len(out) > 0 {
			p := r.Intn(len(out))
			q := p + 1 + r.Intn(len(out)-p)
			out = append(out[:q:q], append(append([]int(nil), out[p:q]...), out[q:]...)...)
		}
	}
	return out
}

// AllStrings calls f for every string over nterms terminals with length <= maxLen.
func AllStrings(nterms, maxLen int, f func([]int)) {
	var rec func(cur []int)
	rec = func(cur []int) {
		f(cur)
		if len(cur) == maxLen {
			return
		}
		for t := 0; t < nterms; t++ {
			rec(append(cur, t))
		}
	}
	rec(make([]int, 0, maxLen))
}
