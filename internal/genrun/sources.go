package genrun

import (
	"bytes"
	"text/template"
)

// rtSource is the runtime support package of the scratch module.
const rtSource = `// Package rt is the verification runtime linked with generated parsers.
package rt

import (
	"bufio"
	"context"
	"encoding/base64"
	"encoding/json"
	"fmt"
	"os"
	"runtime/debug"
	"sync"
	"time"
)

type Job struct {
	ID            int    ` + "`json:\"id\"`" + `
	Pkg           string ` + "`json:\"pkg\"`" + `
	Mode          string ` + "`json:\"mode\"`" + `
	Entry         int    ` + "`json:\"entry\"`" + `
	Text          string ` + "`json:\"-\"`" + `
	B64           string ` + "`json:\"b64\"`" + `
	EH            int    ` + "`json:\"eh\"`" + `
	CancelAtPoll  int    ` + "`json:\"cpoll\"`" + `
	CancelAtEvent int    ` + "`json:\"cevent\"`" + `
	AsyncCancel   int    ` + "`json:\"casync\"`" + `
	MaxEvents     int    ` + "`json:\"maxev\"`" + `
}

type Event struct {
	T string ` + "`json:\"t\"`" + `
	F int    ` + "`json:\"f,omitempty\"`" + `
	S int    ` + "`json:\"s\"`" + `
	E int    ` + "`json:\"e\"`" + `
}

type ErrCall struct {
	Line int ` + "`json:\"l\"`" + `
	S    int ` + "`json:\"s\"`" + `
	E    int ` + "`json:\"e\"`" + `
}

type Tok struct {
	T    int    ` + "`json:\"t\"`" + `
	Name string ` + "`json:\"n,omitempty\"`" + `
	S    int    ` + "`json:\"s\"`" + `
	E    int    ` + "`json:\"e\"`" + `
	Line int    ` + "`json:\"l\"`" + `
	Col  int    ` + "`json:\"c\"`" + `
}

type Trace struct {
	ID        int       ` + "`json:\"id\"`" + `
	OK        bool      ` + "`json:\"ok\"`" + `
	ErrKind   string    ` + "`json:\"ek,omitempty\"`" + `
	Err       string    ` + "`json:\"err,omitempty\"`" + `
	Line      int       ` + "`json:\"line,omitempty\"`" + `
	S         int       ` + "`json:\"s\"`" + `
	E         int       ` + "`json:\"e\"`" + `
	Events    []Event   ` + "`json:\"ev,omitempty\"`" + `
	EH        []ErrCall ` + "`json:\"eh,omitempty\"`" + `
	Log       []string  ` + "`json:\"log,omitempty\"`" + `
	Val       string    ` + "`json:\"val,omitempty\"`" + `
	Panic     string    ` + "`json:\"panic,omitempty\"`" + `
	Polls     int       ` + "`json:\"polls,omitempty\"`" + `
	Toks      []Tok     ` + "`json:\"toks,omitempty\"`" + `
	NextCalls int       ` + "`json:\"nc,omitempty\"`" + `
	Overflow  bool      ` + "`json:\"ovf,omitempty\"`" + `
}

// Ctx is a context whose Done() polls are counted; it can be cancelled at a
// given poll number, from a listener, or asynchronously.
type Ctx struct {
	mu        sync.Mutex
	done      chan struct{}
	polls     int
	cancelAt  int
	cancelled bool
}

func NewCtx(cancelAt int) *Ctx { return &Ctx{done: make(chan struct{}), cancelAt: cancelAt} }

func (c *Ctx) Deadline() (time.Time, bool) { return time.Time{}, false }
func (c *Ctx) Value(key interface{}) interface{} { return nil }
func (c *Ctx) Done() <-chan struct{} {
	c.mu.Lock()
	c.polls++
	if c.cancelAt > 0 && c.polls >= c.cancelAt && !c.cancelled {
		c.cancelled = true
		close(c.done)
	}
	c.mu.Unlock()
	return c.done
}
func (c *Ctx) Err() error {
	c.mu.Lock()
	defer c.mu.Unlock()
	if c.cancelled {
		return context.Canceled
	}
	return nil
}
func (c *Ctx) Cancel() {
	c.mu.Lock()
	if !c.cancelled {
		c.cancelled = true
		close(c.done)
	}
	c.mu.Unlock()
}
func (c *Ctx) Polls() int {
	c.mu.Lock()
	defer c.mu.Unlock()
	return c.polls
}

type Pkg struct {
	Parse func(j *Job, t *Trace, ctx *Ctx)
	Lex   func(j *Job, t *Trace)
}

var registry = map[string]*Pkg{}

func Register(name string, p *Pkg) { registry[name] = p }

func SetErr(t *Trace, err error) {
	if err == nil {
		t.OK = true
		return
	}
	t.Err = err.Error()
	if err == context.Canceled || err == context.DeadlineExceeded {
		t.ErrKind = "ctx"
	} else if t.ErrKind == "" {
		t.ErrKind = "other"
	}
}

func run(j *Job) (t *Trace) {
	t = &Trace{ID: j.ID}
	defer func() {
		if r := recover(); r != nil {
			t.Panic = fmt.Sprint(r) + "\n" + string(debug.Stack())
		}
	}()
	p := registry[j.Pkg]
	if p == nil {
		t.Panic = "unknown package " + j.Pkg
		return
	}
	switch j.Mode {
	case "lex":
		if p.Lex == nil {
			t.Panic = "no lexer adapter"
			return
		}
		p.Lex(j, t)
	default:
		if p.Parse == nil {
			t.Panic = "no parser adapter"
			return
		}
		ctx := NewCtx(j.CancelAtPoll)
		if j.CancelAtEvent < 0 {
			ctx.Cancel()
		}
		if j.AsyncCancel > 0 {
			go func() {
				time.Sleep(time.Duration(j.AsyncCancel) * time.Microsecond)
				ctx.Cancel()
			}()
		}
		p.Parse(j, t, ctx)
		t.Polls = ctx.Polls()
	}
	return
}

func Main() {
	if len(os.Args) < 4 {
		fmt.Fprintln(os.Stderr, "usage: runner jobs out journal")
		os.Exit(2)
	}
	jf, err := os.Open(os.Args[1])
	if err != nil {
		fmt.Fprintln(os.Stderr, err)
		os.Exit(2)
	}
	of, err := os.Create(os.Args[2])
	if err != nil {
		fmt.Fprintln(os.Stderr, err)
		os.Exit(2)
	}
	jr, err := os.Create(os.Args[3])
	if err != nil {
		fmt.Fprintln(os.Stderr, err)
		os.Exit(2)
	}
	out := bufio.NewWriter(of)
	sc := bufio.NewScanner(jf)
	sc.Buffer(make([]byte, 1<<20), 1<<30)
	n := 0
	for sc.Scan() {
		var j Job
		if err := json.Unmarshal(sc.Bytes(), &j); err != nil {
			fmt.Fprintln(os.Stderr, "bad job:", err)
			os.Exit(2)
		}
		if raw, err := base64.StdEncoding.DecodeString(j.B64); err == nil {
			j.Text = string(raw)
		} else {
			fmt.Fprintln(os.Stderr, "bad job text:", err)
			os.Exit(2)
		}
		fmt.Fprintf(jr, "B %d\n", j.ID)
		t := run(&j)
		b, _ := json.Marshal(t)
		out.Write(b)
		out.WriteByte('\n')
		n++
		if n%64 == 0 {
			out.Flush()
		}
	}
	out.Flush()
	of.Close()
}
`

var adapterTmpl = template.Must(template.New("adapter").Parse(`// verification adapter (not generated by textmapper)
package {{.Name}}

import (
	"fmt"
	"w/rt"
{{- if .A.HasLexer}}
	"w/{{.Name}}/token"
{{- end}}
)

var _ = fmt.Sprint

// verifLog collects lines written by semantic actions through vlog.
var verifLog []string

func vlog(format string, args ...interface{}) { verifLog = append(verifLog, fmt.Sprintf(format, args...)) }

func init() {
	rt.Register("{{.Name}}", &rt.Pkg{
{{- if and .A.HasParser (not .A.TokenStream)}}
		Parse: verifParse,
{{- end}}
{{- if .A.HasLexer}}
		Lex: verifLex,
{{- end}}
	})
}
{{if .A.HasLexer}}
func verifLex(j *rt.Job, t *rt.Trace) {
	var l Lexer
	l.Init(j.Text)
	limit := len(j.Text) + 4
	eois := 0
	for n := 0; n < limit; n++ {
		tok := l.Next()
		t.NextCalls++
		s, e := l.Pos()
		tk := rt.Tok{T: int(tok), Name: tok.String(), S: s, E: e}
{{- if .A.LexerLine}}
		tk.Line = l.Line()
{{- end}}
{{- if .A.LexerColumn}}
		tk.Col = l.Column()
{{- end}}
		t.Toks = append(t.Toks, tk)
		if tok == token.EOI {
			eois++
			if eois == 3 {
				break
			}
		} else if eois > 0 {
			break // EOI not sticky; recorded in Toks
		}
	}
	if eois == 0 {
		t.Overflow = true
	}
	t.OK = true
}
{{end}}
{{if and .A.HasParser (not .A.TokenStream)}}
func verifParse(j *rt.Job, t *rt.Trace, ctx *rt.Ctx) {
	verifLog = verifLog[:0]
	var l Lexer
	l.Init(j.Text)
	var p Parser
	nev := 0
	_ = nev
{{- if .A.InitListener}}
	listener := func(nt NodeType, {{if .A.ListenerFlags}}flags NodeFlags, {{end}}offset, endoffset int) {
		nev++
		if j.MaxEvents > 0 && nev > j.MaxEvents {
			panic("verif: event limit exceeded")
		}
		t.Events = append(t.Events, rt.Event{T: nt.String(), {{if .A.ListenerFlags}}F: int(flags), {{end}}S: offset, E: endoffset})
		if j.CancelAtEvent > 0 && j.CancelAtEvent == nev {
			ctx.Cancel()
		}
	}
{{- end}}
{{- if .A.InitEH}}
	eh := func(se SyntaxError) bool {
		t.EH = append(t.EH, rt.ErrCall{ {{- if .A.SyntaxErrLine}}Line: se.Line, {{end}}S: se.Offset, E: se.Endoffset})
		if len(t.EH) > len(j.Text)+16 {
			panic("verif: error handler called more often than the input has bytes")
		}
		return j.EH < 0 || len(t.EH) < j.EH
	}
{{- end}}
	p.Init({{if .A.InitEH}}eh{{end}}{{if and .A.InitEH .A.InitListener}}, {{end}}{{if .A.InitListener}}listener{{end}})
	var err error
	switch j.Entry {
{{- range $i, $f := .A.ParseFuncs}}
	case {{$i}}:
{{- if $f.HasValue}}
		var v interface{}
		v, err = p.{{$f.Name}}({{if $f.Ctx}}ctx, {{end}}&l)
		if err == nil {
			t.Val = fmt.Sprintf("%v", v)
		}
{{- else}}
		err = p.{{$f.Name}}({{if $f.Ctx}}ctx, {{end}}&l)
{{- end}}
{{- end}}
	default:
		panic("verif: no such entry")
	}
{{- if .A.HasSyntaxError}}
	if se, ok := err.(SyntaxError); ok {
		t.ErrKind = "syntax"
		t.S, t.E = se.Offset, se.Endoffset
{{- if .A.SyntaxErrLine}}
		t.Line = se.Line
{{- end}}
	}
{{- end}}
	rt.SetErr(t, err)
	if len(verifLog) > 0 {
		t.Log = append([]string(nil), verifLog...)
	}
}
{{end}}
`))

func adapterSource(name string, a *AdapterInfo) string {
	var b bytes.Buffer
	if err := adapterTmpl.Execute(&b, struct {
		Name string
		A    *AdapterInfo
	}{name, a}); err != nil {
		panic(err)
	}
	return b.String()
}
