package genrun

import (
	"context"
	"crypto/sha256"
	"fmt"
	"io"
	"os"
	"os/exec"
	"path/filepath"
	"regexp"
	"sort"
	"strconv"
	"strings"

	"github.com/inspirer/textmapper/compiler"
	"github.com/inspirer/textmapper/gen"
)

// Additions for the generator checks (C17, C18, C30). Nothing here touches the
// runner/adapter machinery: packages are written exactly as gen.Generate produced
// them, so every build diagnostic is about generated code (or the grammar's own
// user code), never about verification glue.

// GenerateNamed is Generate with an explicit grammar file name (the name is
// visible to the compiler only through diagnostics).
func GenerateNamed(pkgName, fileName, text string) (p *Pkg, compileErr, genErr error) {
	g, err := compiler.Compile(context.Background(), fileName, text, compiler.Params{})
	if err != nil {
		return nil, err, nil
	}
	w := &MapWriter{}
	genErr = gen.Generate(g, w, gen.Options{})
	return &Pkg{Name: pkgName, Text: text, G: g, Files: w.Files, Order: w.Order}, nil, genErr
}

// WritePlainModule writes module "w" with one directory per package holding the
// generated files (and p.Extra) and nothing else.
func WritePlainModule(dir string, pkgs []*Pkg) error {
	if err := os.MkdirAll(dir, 0o755); err != nil {
		return err
	}
	if err := os.WriteFile(filepath.Join(dir, "go.mod"), []byte("module w\n\ngo 1.25\n"), 0o644); err != nil {
		return err
	}
	for _, p := range pkgs {
		pd := filepath.Join(dir, p.Name)
		for _, m := range []map[string]string{p.Files, p.Extra} {
			names := make([]string, 0, len(m))
			for n := range m {
				names = append(names, n)
			}
			sort.Strings(names)
			for _, name := range names {
				fp := filepath.Join(pd, name)
				if err := os.MkdirAll(filepath.Dir(fp), 0o755); err != nil {
					return err
				}
				if err := os.WriteFile(fp, []byte(m[name]), 0o644); err != nil {
					return err
				}
			}
		}
	}
	return nil
}

// GoTool runs `go <args>` in dir with the sandbox environment and returns the
// combined output.
func GoTool(dir string, extraEnv []string, args ...string) (string, error) {
	cmd := exec.Command("go", args...)
	cmd.Dir = dir
	cmd.Env = append(goEnv(), extraEnv...)
	out, err := cmd.CombinedOutput()
	return string(out), err
}

// Diag is one compiler (or vet) diagnostic attributed to a package directory.
type Diag struct {
	Pkg  string // first path element, e.g. g0003
	File string // path below the package directory, e.g. ast/parse.go
	Line int
	Msg  string
}

var diagRE = regexp.MustCompile(`^(?:\./)?([^/\s:]+)/([^\s:]+):(\d+)(?::\d+)?: (.*)$`)

// ParseDiagnostics splits go build / go vet output into diagnostics per package
// directory (in output order). Lines that are not diagnostics ("# w/g0001",
// continuation lines starting with a tab) are skipped; "other" receives lines that
// look like errors but cannot be attributed.
func ParseDiagnostics(out string) (byPkg map[string][]Diag, other []string) {
	byPkg = map[string][]Diag{}
	for _, l := range strings.Split(out, "\n") {
		if l == "" || strings.HasPrefix(l, "#") || strings.HasPrefix(l, "\t") || strings.HasPrefix(l, " ") {
			continue
		}
		m := diagRE.FindStringSubmatch(l)
		if m == nil {
			other = append(other, l)
			continue
		}
		n, _ := strconv.Atoi(m[3])
		byPkg[m[1]] = append(byPkg[m[1]], Diag{Pkg: m[1], File: m[2], Line: n, Msg: m[4]})
	}
	return byPkg, other
}

// SourceLine returns line n (1-based) of a generated file, for reports.
func SourceLine(content string, n int) string {
	ls := strings.Split(content, "\n")
	if n >= 1 && n <= len(ls) {
		return strings.TrimSpace(ls[n-1])
	}
	return ""
}

// WriteSequence renders the sequence of Writer.Write calls of a package as
// "name\x00content" items; two generations are equal iff the sequences are.
func (p *Pkg) WriteSequence() []string {
	ret := make([]string, 0, len(p.Order))
	for _, n := range p.Order {
		ret = append(ret, n+"\x00"+p.Files[n])
	}
	return ret
}

// SeqWriter is a gen.Writer that records every Write call in order (a file
// written twice shows up twice, unlike in MapWriter.Files).
type SeqWriter struct {
	Names    []string
	Contents []string
}

func (w *SeqWriter) Write(filename, content string) error {
	w.Names = append(w.Names, filename)
	w.Contents = append(w.Contents, content)
	return nil
}

// GenerateSeq compiles and generates text, returning the full write sequence.
func GenerateSeq(fileName, text string) (w *SeqWriter, compileErr, genErr error) {
	g, err := compiler.Compile(context.Background(), fileName, text, compiler.Params{})
	if err != nil {
		return nil, err, nil
	}
	w = &SeqWriter{}
	genErr = gen.Generate(g, w, gen.Options{})
	return w, nil, genErr
}

// FirstDiff describes the first difference of two write sequences ("" if equal).
func FirstDiff(a, b *SeqWriter) string {
	n := len(a.Names)
	if len(b.Names) < n {
		n = len(b.Names)
	}
	for i := 0; i < n; i++ {
		if a.Names[i] != b.Names[i] {
			return fmt.Sprintf("write #%d: file name %q vs %q", i, a.Names[i], b.Names[i])
		}
		if a.Contents[i] != b.Contents[i] {
			la, lb := strings.Split(a.Contents[i], "\n"), strings.Split(b.Contents[i], "\n")
			for k := 0; k < len(la) && k < len(lb); k++ {
				if la[k] != lb[k] {
					return fmt.Sprintf("write #%d (%s) line %d:\n  - %s\n  + %s", i, a.Names[i], k+1, la[k], lb[k])
				}
			}
			return fmt.Sprintf("write #%d (%s): %d vs %d lines", i, a.Names[i], len(la), len(lb))
		}
	}
	if len(a.Names) != len(b.Names) {
		return fmt.Sprintf("%d vs %d files written", len(a.Names), len(b.Names))
	}
	return ""
}

// Transcript compiles and generates every grammar file rep times (round robin
// over the files, so generations of different grammars interleave) and prints one
// line per Writer.Write call: "<file>\t<index>\t<filename>\t<sha256>". Compile and
// generate errors are printed as lines too. With outDir != "" the files are also
// written below outDir/<grammar base name without .tm>/.
func Transcript(w io.Writer, paths []string, rep int, outDir string) error {
	for r := 0; r < rep; r++ {
		for _, path := range paths {
			b, err := os.ReadFile(path)
			if err != nil {
				return err
			}
			name := filepath.Base(path)
			g, err := compiler.Compile(context.Background(), name, string(b), compiler.Params{})
			if err != nil {
				fmt.Fprintf(w, "%s\tcompile-error\t%s\n", name, firstLineOf(err.Error()))
				continue
			}
			fmt.Fprintf(w, "%s\tcompiled\n", name)
			sw := &SeqWriter{}
			gerr := gen.Generate(g, sw, gen.Options{})
			for i, n := range sw.Names {
				fmt.Fprintf(w, "%s\t%d\t%s\t%x\n", name, i, n, sha256.Sum256([]byte(sw.Contents[i])))
				if outDir != "" {
					p := filepath.Join(outDir, strings.TrimSuffix(name, ".tm"), n)
					if err := os.MkdirAll(filepath.Dir(p), 0o755); err != nil {
						return err
					}
					if err := os.WriteFile(p, []byte(sw.Contents[i]), 0o644); err != nil {
						return err
					}
				}
			}
			if gerr != nil {
				fmt.Fprintf(w, "%s\tgenerate-error\t%s\n", name, firstLineOf(gerr.Error()))
			}
		}
	}
	return nil
}

func firstLineOf(s string) string {
	if i := strings.IndexByte(s, '\n'); i >= 0 {
		return s[:i]
	}
	return s
}

// HelperEnv is the environment variable that turns a vcheck process into a
// generation helper (see checks/genhelper.go): its value is a file with one
// grammar path per line.
const HelperEnv = "VERIF_GENHELPER_LIST"

// RunHelper re-executes the current binary as a generation helper over the given
// grammar files and returns its transcript (stdout), stderr and the exit error.
func RunHelper(workDir string, paths []string, rep int, extraEnv ...string) (stdout, stderr string, err error) {
	self, err := os.Executable()
	if err != nil {
		return "", "", err
	}
	list := filepath.Join(workDir, "genhelper.list")
	if err := os.WriteFile(list, []byte(strings.Join(paths, "\n")), 0o644); err != nil {
		return "", "", err
	}
	cmd := exec.Command(self, "genhelper")
	var so, se strings.Builder
	cmd.Stdout, cmd.Stderr = &so, &se
	cmd.Env = append(os.Environ(), HelperEnv+"="+list, fmt.Sprintf("VERIF_GENHELPER_REP=%d", rep))
	cmd.Env = append(cmd.Env, extraEnv...)
	err = cmd.Run()
	return so.String(), se.String(), err
}
