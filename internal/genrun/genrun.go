// Package genrun drives the chain grammar text -> compiler.Compile -> gen.Generate
// -> scratch Go module -> go build -> run generated code on inputs, and returns
// the observations (traces) to the monitors.
package genrun

import (
	"bufio"
	"bytes"
	"context"
	"encoding/base64"
	"encoding/json"
	"fmt"
	"go/ast"
	"go/parser"
	"go/token"
	"os"
	"os/exec"
	"path/filepath"
	"sort"
	"strings"
	"syscall"
	"time"

	"github.com/inspirer/textmapper/compiler"
	"github.com/inspirer/textmapper/gen"
	"github.com/inspirer/textmapper/grammar"
)

// MapWriter is an in-memory gen.Writer that records the order of writes.
type MapWriter struct {
	Files map[string]string
	Order []string
}

func (w *MapWriter) Write(filename, content string) error {
	if w.Files == nil {
		w.Files = map[string]string{}
	}
	w.Files[filename] = content
	w.Order = append(w.Order, filename)
	return nil
}

// Pkg is one generated package.
type Pkg struct {
	Name    string // e.g. g0001; the grammar must declare package = "w/<Name>"
	Text    string // grammar source
	G       *grammar.Grammar
	Files   map[string]string
	Order   []string
	Extra   map[string]string // extra user files (relative to the package dir)
	Adapter *AdapterInfo
}

// Generate compiles and generates a grammar in-process. Errors from either stage
// are returned separately.
func Generate(name, text string) (p *Pkg, compileErr, genErr error) {
	g, err := compiler.Compile(context.Background(), name+".tm", text, compiler.Params{})
	if err != nil {
		return nil, err, nil
	}
	w := &MapWriter{}
	if err := gen.Generate(g, w, gen.Options{}); err != nil {
		return &Pkg{Name: name, Text: text, G: g, Files: w.Files, Order: w.Order}, nil, err
	}
	return &Pkg{Name: name, Text: text, G: g, Files: w.Files, Order: w.Order}, nil, nil
}

// AdapterInfo is what the adapter generator learned from the generated sources.
type AdapterInfo struct {
	HasParser      bool
	HasLexer       bool
	ParseFuncs     []ParseFunc
	InitEH         bool
	InitListener   bool
	ListenerFlags  bool
	LexerLine      bool
	LexerColumn    bool
	TokenStream    bool
	HasSyntaxError bool
	SyntaxErrLine  bool
	NodeTypeString bool
}

// ParseFunc is one generated entry point.
type ParseFunc struct {
	Name     string
	Ctx      bool
	HasValue bool
}

// Inspect parses the generated files of the main package and learns the
// option-dependent signatures.
func Inspect(files map[string]string) (*AdapterInfo, error) {
	info := &AdapterInfo{}
	fset := token.NewFileSet()
	var names []string
	for n := range files {
		names = append(names, n)
	}
	sort.Strings(names)
	for _, n := range names {
		if strings.Contains(n, "/") || !strings.HasSuffix(n, ".go") {
			continue
		}
		f, err := parser.ParseFile(fset, n, files[n], 0)
		if err != nil {
			return nil, fmt.Errorf("generated file %s does not parse: %v", n, err)
		}
		for _, d := range f.Decls {
			switch d := d.(type) {
			case *ast.GenDecl:
				for _, s := range d.Specs {
					ts, ok := s.(*ast.TypeSpec)
					if !ok {
						continue
					}
					switch ts.Name.Name {
					case "Listener":
						if ft, ok := ts.Type.(*ast.FuncType); ok {
							np := 0
							for _, f := range ft.Params.List {
								k := len(f.Names)
								if k == 0 {
									k = 1
								}
								np += k
							}
							info.ListenerFlags = np == 4
						}
					case "SyntaxError":
						info.HasSyntaxError = true
						if st, ok := ts.Type.(*ast.StructType); ok {
							for _, f := range st.Fields.List {
								for _, nm := range f.Names {
									if nm.Name == "Line" {
										info.SyntaxErrLine = true
									}
								}
							}
						}
					case "TokenStream":
						info.TokenStream = true
					case "Lexer":
						info.HasLexer = true
					case "Parser":
						info.HasParser = true
					}
				}
			case *ast.FuncDecl:
				if d.Recv == nil || len(d.Recv.List) != 1 {
					continue
				}
				recv := ""
				if se, ok := d.Recv.List[0].Type.(*ast.StarExpr); ok {
					if id, ok := se.X.(*ast.Ident); ok {
						recv = id.Name
					}
				} else if id, ok := d.Recv.List[0].Type.(*ast.Ident); ok {
					recv = id.Name
				}
				switch {
				case recv == "Lexer" && d.Name.Name == "Line":
					info.LexerLine = true
				case recv == "Lexer" && d.Name.Name == "Column":
					info.LexerColumn = true
				case recv == "NodeType" && d.Name.Name == "String":
					info.NodeTypeString = true
				case recv == "Parser" && d.Name.Name == "Init":
					for _, f := range d.Type.Params.List {
						if id, ok := f.Type.(*ast.Ident); ok {
							if id.Name == "ErrorHandler" {
								info.InitEH = true
							}
							if id.Name == "Listener" {
								info.InitListener = true
							}
						}
					}
				case recv == "Parser" && strings.HasPrefix(d.Name.Name, "Parse") && ast.IsExported(d.Name.Name):
					pf := ParseFunc{Name: d.Name.Name}
					for _, f := range d.Type.Params.List {
						if se, ok := f.Type.(*ast.SelectorExpr); ok && se.Sel.Name == "Context" {
							pf.Ctx = true
						}
					}
					if d.Type.Results != nil && len(d.Type.Results.List) == 2 {
						pf.HasValue = true
					}
					info.ParseFuncs = append(info.ParseFuncs, pf)
				}
			}
		}
	}
	return info, nil
}

// WriteModule writes the scratch module with all packages into dir.
func WriteModule(dir string, pkgs []*Pkg) error {
	if err := os.MkdirAll(filepath.Join(dir, "rt"), 0o755); err != nil {
		return err
	}
	if err := os.WriteFile(filepath.Join(dir, "go.mod"), []byte("module w\n\ngo 1.25\n"), 0o644); err != nil {
		return err
	}
	if err := os.WriteFile(filepath.Join(dir, "rt", "rt.go"), []byte(rtSource), 0o644); err != nil {
		return err
	}
	var main bytes.Buffer
	main.WriteString("package main\n\nimport (\n\t\"w/rt\"\n")
	for _, p := range pkgs {
		fmt.Fprintf(&main, "\t_ \"w/%s\"\n", p.Name)
		pd := filepath.Join(dir, p.Name)
		for name, content := range p.Files {
			fp := filepath.Join(pd, name)
			os.MkdirAll(filepath.Dir(fp), 0o755)
			if err := os.WriteFile(fp, []byte(content), 0o644); err != nil {
				return err
			}
		}
		for name, content := range p.Extra {
			fp := filepath.Join(pd, name)
			os.MkdirAll(filepath.Dir(fp), 0o755)
			if err := os.WriteFile(fp, []byte(content), 0o644); err != nil {
				return err
			}
		}
		if p.Adapter == nil {
			info, err := Inspect(p.Files)
			if err != nil {
				return err
			}
			p.Adapter = info
		}
		if err := os.WriteFile(filepath.Join(pd, "zz_verif_adapter.go"), []byte(adapterSource(p.Name, p.Adapter)), 0o644); err != nil {
			return err
		}
	}
	main.WriteString(")\n\nfunc main() { rt.Main() }\n")
	return os.WriteFile(filepath.Join(dir, "main.go"), main.Bytes(), 0o644)
}

func goEnv() []string {
	env := os.Environ()
	env = append(env, "GOFLAGS=-mod=mod", "GOPROXY=off", "GOTOOLCHAIN=auto")
	return env
}

// Build builds the runner binary. Returns the compiler output on failure.
func Build(dir string, race bool, pkgsPattern string) (bin string, output string, err error) {
	bin = filepath.Join(dir, "runner")
	args := []string{"build", "-o", bin}
	if race {
		args = append(args, "-race")
	}
	args = append(args, ".")
	cmd := exec.Command("go", args...)
	cmd.Dir = dir
	cmd.Env = goEnv()
	out, err := cmd.CombinedOutput()
	return bin, string(out), err
}

// BuildEach runs `go build ./<pkg>/...` for every package separately with -gcflags=-e,
// returning per-package compiler output (empty when it builds). Used by C17.
func BuildEach(dir string, pkgs []string) map[string]string {
	res := map[string]string{}
	args := []string{"build", "-gcflags=-e"}
	for _, p := range pkgs {
		args = append(args, "./"+p+"/...")
	}
	cmd := exec.Command("go", args...)
	cmd.Dir = dir
	cmd.Env = goEnv()
	out, err := cmd.CombinedOutput()
	if err == nil {
		return res
	}
	// attribute lines to packages by path prefix
	for _, l := range strings.Split(string(out), "\n") {
		l = strings.TrimPrefix(l, "./")
		for _, p := range pkgs {
			if strings.HasPrefix(l, p+"/") || strings.HasPrefix(l, "# w/"+p) {
				res[p] += l + "\n"
			}
		}
	}
	if len(res) == 0 {
		res["?"] = string(out)
	}
	return res
}

// Job is one execution request for the runner.
type Job struct {
	ID    int    `json:"id"`
	Pkg   string `json:"pkg"`
	Mode  string `json:"mode"` // "parse" | "lex"
	Entry int    `json:"entry"`
	Text  string `json:"-"`   // binary safe: transported as B64
	B64   string `json:"b64"` // filled by Run
	// error handler policy: 0 = stop on first error, k>0 = stop at the k-th, -1 = never stop
	EH int `json:"eh"`
	// cancellation: -1 none
	CancelAtPoll  int `json:"cpoll"`
	CancelAtEvent int `json:"cevent"`
	AsyncCancel   int `json:"casync"` // >0: cancel from another goroutine after that many microseconds
	MaxEvents     int `json:"maxev"`  // 0 = unlimited; abort bookkeeping when exceeded
}

// Event is a listener callback.
type Event struct {
	T string `json:"t"`
	F int    `json:"f,omitempty"`
	S int    `json:"s"`
	E int    `json:"e"`
}

// ErrCall is an error handler invocation.
type ErrCall struct {
	Line int `json:"l"`
	S    int `json:"s"`
	E    int `json:"e"`
}

// Tok is a lexer observation.
type Tok struct {
	T    int    `json:"t"`
	Name string `json:"n,omitempty"`
	S    int    `json:"s"`
	E    int    `json:"e"`
	Line int    `json:"l"`
	Col  int    `json:"c"`
}

// Trace is what the runner observed for one job.
type Trace struct {
	ID        int       `json:"id"`
	OK        bool      `json:"ok"`
	ErrKind   string    `json:"ek,omitempty"` // syntax | ctx | other
	Err       string    `json:"err,omitempty"`
	Line      int       `json:"line,omitempty"`
	S         int       `json:"s"`
	E         int       `json:"e"`
	Events    []Event   `json:"ev,omitempty"`
	EH        []ErrCall `json:"eh,omitempty"`
	Log       []string  `json:"log,omitempty"`
	Val       string    `json:"val,omitempty"`
	Panic     string    `json:"panic,omitempty"`
	Polls     int       `json:"polls,omitempty"`
	Toks      []Tok     `json:"toks,omitempty"`
	NextCalls int       `json:"nc,omitempty"`
	Overflow  bool      `json:"ovf,omitempty"`
}

// RunResult holds traces by job id plus crash attribution.
type RunResult struct {
	Traces      map[int]*Trace
	Crashed     []int  // job ids that were running when a runner process died
	Stderr      string // stderr of crashed runs (concatenated, truncated)
	CPUExceeded []int
	Output      string // stdout+stderr of the runner processes (truncated)
}

// Run executes jobs with the runner binary; restarts after crashes. cpuSec is
// the CPU-seconds limit per runner process (RLIMIT_CPU); 0 = 600.
func Run(bin, workDir string, jobs []Job, cpuSec int, extraEnv ...string) (*RunResult, error) {
	res := &RunResult{Traces: map[int]*Trace{}}
	if cpuSec == 0 {
		cpuSec = 600
	}
	remaining := jobs
	round := 0
	for len(remaining) > 0 {
		round++
		jf := filepath.Join(workDir, fmt.Sprintf("jobs%d.jsonl", round))
		of := filepath.Join(workDir, fmt.Sprintf("traces%d.jsonl", round))
		jr := filepath.Join(workDir, fmt.Sprintf("rjournal%d", round))
		f, err := os.Create(jf)
		if err != nil {
			return nil, err
		}
		bw := bufio.NewWriter(f)
		enc := json.NewEncoder(bw)
		for i := range remaining {
			remaining[i].B64 = base64.StdEncoding.EncodeToString([]byte(remaining[i].Text))
			enc.Encode(&remaining[i])
			remaining[i].B64 = ""
		}
		bw.Flush()
		f.Close()
		os.Remove(of)
		os.Remove(jr)
		// ulimit -t through sh so that an endless loop in generated code is killed by CPU time, not wall clock
		cmd := exec.Command("/bin/sh", "-c", fmt.Sprintf("ulimit -t %d; exec \"$0\" \"$@\"", cpuSec), bin, jf, of, jr)
		var stderr bytes.Buffer
		cmd.Stderr = &stderr
		cmd.Stdout = &stderr
		cmd.Env = append(os.Environ(), extraEnv...)
		cmd.SysProcAttr = &syscall.SysProcAttr{Setpgid: true}
		if err := cmd.Start(); err != nil {
			return nil, err
		}
		done := make(chan error, 1)
		go func() { done <- cmd.Wait() }()
		var werr error
		select {
		case werr = <-done:
		case <-time.After(2 * time.Hour):
			syscall.Kill(-cmd.Process.Pid, syscall.SIGKILL)
			<-done
			return nil, fmt.Errorf("runner wall-clock watchdog fired")
		}
		if len(res.Output) < 1<<20 {
			res.Output += tailStr(stderr.String(), 1<<20)
		}
		// read traces
		if tf, err := os.Open(of); err == nil {
			sc := bufio.NewScanner(tf)
			sc.Buffer(make([]byte, 1<<20), 1<<30)
			for sc.Scan() {
				var t Trace
				if json.Unmarshal(sc.Bytes(), &t) == nil {
					tt := t
					res.Traces[t.ID] = &tt
				}
			}
			tf.Close()
		}
		if werr == nil {
			break
		}
		// crash: find the job that began but has no trace
		jb, _ := os.ReadFile(jr)
		last := -1
		for _, l := range strings.Split(string(jb), "\n") {
			var k int
			if _, e := fmt.Sscanf(l, "B %d", &k); e == nil {
				last = k
			}
		}
		if last < 0 || res.Traces[last] != nil {
			return nil, fmt.Errorf("runner failed outside a job: %v: %s", werr, tailStr(stderr.String(), 2000))
		}
		killedByCPU := false
		if ee, ok := werr.(*exec.ExitError); ok {
			if ws, ok := ee.Sys().(syscall.WaitStatus); ok && ws.Signaled() && (ws.Signal() == syscall.SIGXCPU || ws.Signal() == syscall.SIGKILL) {
				killedByCPU = true
			}
		}
		if killedByCPU {
			res.CPUExceeded = append(res.CPUExceeded, last)
		} else {
			res.Crashed = append(res.Crashed, last)
		}
		if len(res.Stderr) < 100000 {
			res.Stderr += fmt.Sprintf("--- runner died in job %d: %v\n%s\n", last, werr, tailStr(stderr.String(), 20000))
		}
		if len(res.CPUExceeded) >= 3 {
			// three separate inputs already ran into the CPU limit: the verdict is clear, do not burn
			// a further limit's worth of CPU on every remaining input
			break
		}
		var rest []Job
		for _, j := range remaining {
			if res.Traces[j.ID] == nil && j.ID != last {
				rest = append(rest, j)
			}
		}
		remaining = rest
		os.Remove(jf)
		os.Remove(of)
	}
	return res, nil
}

func tailStr(s string, n int) string {
	if len(s) > n {
		return s[len(s)-n:]
	}
	return s
}
