package lspc

import (
	"bufio"
	"encoding/json"
	"fmt"
	"io"
	"os"
	"os/exec"
	"path/filepath"
	"strconv"
	"strings"
	"sync"
	"syscall"
	"time"
)

// Event is one entry of the recorded log. Seq is the logical sequence number
// shared by both directions.
type Event struct {
	Seq  int64
	Dir  byte // 'C' client→server, 'S' server→client
	Body []byte
	Msg  *Msg     // for 'C'
	In   *Inbound // for 'S'
}

// Inbound is a decoded server→client message.
type Inbound struct {
	ID     json.RawMessage `json:"id"`
	Method string          `json:"method"`
	Params json.RawMessage `json:"params"`
	Result json.RawMessage `json:"result"`
	Error  *struct {
		Code    int64  `json:"code"`
		Message string `json:"message"`
	} `json:"error"`
	BadJSON string `json:"-"`
}

// IDKey renders a JSON-RPC id (number or string) as a comparable key.
func IDKey(id any) string {
	switch v := id.(type) {
	case nil:
		return ""
	case string:
		return "s:" + v
	case int:
		return "n:" + strconv.Itoa(v)
	}
	return fmt.Sprint(id)
}

func (in *Inbound) idKey() string {
	if len(in.ID) == 0 || string(in.ID) == "null" {
		return ""
	}
	var s string
	if json.Unmarshal(in.ID, &s) == nil {
		return "s:" + s
	}
	var n json.Number
	if json.Unmarshal(in.ID, &n) == nil {
		return "n:" + n.String()
	}
	return string(in.ID)
}

// Recording is everything observed in one session.
type Recording struct {
	Events        []Event
	StdinClosedAt int64 // Seq at which the client closed stdin (0 = never)
	EOFAt         int64 // Seq at which the server's stdout reached EOF (0 = never)
	FramingError  string
	ExitCode      int
	Signaled      bool
	Watchdog      string // non-empty: which wait ran into the wall-clock watchdog (inconclusive)
	Stderr        string
	RaceReports   []string
	DiedEarly     bool // stdout EOF before the client closed stdin
	WriteError    string
}

type session struct {
	mu     sync.Mutex
	cond   *sync.Cond
	rec    *Recording
	seq    int64
	eof    bool
	closed bool
	// response bookkeeping for waits
	replies map[string]bool // id keys answered
	diags   map[string]int  // uri#version -> count
	lastIn  time.Time
}

func (s *session) nextSeq() int64 { s.seq++; return s.seq }

func (s *session) reader(rd io.Reader) {
	br := bufio.NewReaderSize(rd, 1<<16)
	fail := func(msg string) {
		s.mu.Lock()
		if s.rec.FramingError == "" && msg != "" {
			s.rec.FramingError = msg
		}
		s.eof = true
		s.rec.EOFAt = s.nextSeq()
		if !s.closed {
			s.rec.DiedEarly = true
		}
		s.cond.Broadcast()
		s.mu.Unlock()
	}
	for {
		length := -1
		first := true
		for {
			line, err := br.ReadString('\n')
			if err != nil {
				if first && line == "" {
					fail("")
				} else {
					fail("truncated header: " + strconv.Quote(line))
				}
				return
			}
			first = false
			line = strings.TrimRight(line, "\r\n")
			if line == "" {
				break
			}
			k, v, ok := strings.Cut(line, ":")
			if !ok {
				fail("bad header line " + strconv.Quote(line))
				return
			}
			if strings.EqualFold(strings.TrimSpace(k), "Content-Length") {
				n, err := strconv.Atoi(strings.TrimSpace(v))
				if err != nil || n < 0 {
					fail("bad Content-Length " + strconv.Quote(v))
					return
				}
				length = n
			}
		}
		if length < 0 {
			fail("message without Content-Length")
			return
		}
		body := make([]byte, length)
		if _, err := io.ReadFull(br, body); err != nil {
			fail("truncated body")
			return
		}
		in := &Inbound{}
		if err := json.Unmarshal(body, in); err != nil {
			in.BadJSON = err.Error()
		}
		s.mu.Lock()
		s.rec.Events = append(s.rec.Events, Event{Seq: s.nextSeq(), Dir: 'S', Body: body, In: in})
		if in.Method == "textDocument/publishDiagnostics" {
			var p struct {
				URI     string `json:"uri"`
				Version int64  `json:"version"`
			}
			json.Unmarshal(in.Params, &p)
			s.diags[fmt.Sprintf("%s#%d", p.URI, p.Version)]++
		} else if in.Method == "" {
			s.replies[in.idKey()] = true
		}
		s.lastIn = time.Now()
		s.cond.Broadcast()
		s.mu.Unlock()
	}
}

// RunOpts configure one session.
type RunOpts struct {
	Binary   string
	Dir      string        // scratch dir for stderr and race logs
	Watchdog time.Duration // generous wall-clock limit for any single wait
	Grace    time.Duration // after the chain is provably drained, how long to wait for a missing answer
}

func (m *Msg) awaited() (replyKey, diagKey string) {
	switch m.Kind {
	case "initialize", "definition", "unknown-call", "ping", "shutdown":
		return IDKey(m.ID), ""
	case "open", "change":
		if !m.Optional {
			return "", fmt.Sprintf("%s#%d", m.URI, m.Version)
		}
	}
	return "", ""
}

// Run executes a history against a fresh server process and records everything.
func Run(h *History, o RunOpts) *Recording {
	rec := &Recording{}
	s := &session{rec: rec, replies: map[string]bool{}, diags: map[string]int{}}
	s.cond = sync.NewCond(&s.mu)
	os.MkdirAll(o.Dir, 0o755)
	old, _ := filepath.Glob(filepath.Join(o.Dir, "race*"))
	for _, f := range old {
		os.Remove(f)
	}
	errPath := filepath.Join(o.Dir, "server-stderr.txt")
	ef, _ := os.Create(errPath)
	cmd := exec.Command(o.Binary, "ls")
	cmd.Dir = o.Dir
	cmd.Stderr = ef
	env := []string{"HOME=" + o.Dir, "PATH=/usr/bin:/bin", "GORACE=halt_on_error=0 log_path=" + filepath.Join(o.Dir, "race")}
	if h.DelaySpec != "" {
		env = append(env, "VERIF_LS_DELAYS="+h.DelaySpec)
	}
	cmd.Env = env
	cmd.SysProcAttr = &syscall.SysProcAttr{Setpgid: true}
	stdin, _ := cmd.StdinPipe()
	stdout, _ := cmd.StdoutPipe()
	if err := cmd.Start(); err != nil {
		rec.Watchdog = "cannot start server: " + err.Error()
		return rec
	}
	readerDone := make(chan struct{})
	go func() { s.reader(stdout); close(readerDone) }()
	// ticker so that waiters can look at their deadlines
	stopTick := make(chan struct{})
	go func() {
		t := time.NewTicker(50 * time.Millisecond)
		defer t.Stop()
		for {
			select {
			case <-t.C:
				s.mu.Lock()
				s.cond.Broadcast()
				s.mu.Unlock()
			case <-stopTick:
				return
			}
		}
	}()

	send := func(m *Msg) bool {
		s.mu.Lock()
		m.Seq = s.nextSeq()
		rec.Events = append(rec.Events, Event{Seq: m.Seq, Dir: 'C', Body: m.Body, Msg: m})
		dead := s.eof
		s.mu.Unlock()
		if dead {
			return false
		}
		_, err := fmt.Fprintf(stdin, "Content-Length: %d\r\n\r\n%s", len(m.Body), m.Body)
		if err != nil {
			rec.WriteError = err.Error()
			return false
		}
		return true
	}
	// wait until the answers to ms arrived. drained: id key of a ping that was
	// sent after them; once it is answered the handler chain has processed
	// everything before it, and only the grace period is granted to stragglers.
	grace := o.Grace
	wait := func(ms []*Msg, drained string, what string) bool {
		deadline := time.Now().Add(o.Watchdog)
		var drainedAt time.Time
		s.mu.Lock()
		defer s.mu.Unlock()
		for {
			all := true
			for _, m := range ms {
				rk, dk := m.awaited()
				if rk != "" && !s.replies[rk] || dk != "" && s.diags[dk] < m.DiagOrdinal {
					all = false
					break
				}
			}
			if all && (drained == "" || s.replies[drained]) {
				return true
			}
			if s.eof {
				return false
			}
			now := time.Now()
			if drained != "" && s.replies[drained] {
				if drainedAt.IsZero() {
					drainedAt = now
				}
				if now.Sub(drainedAt) > grace && now.Sub(s.lastIn) > grace {
					grace = time.Second // later waits of this (already failing) session give up quickly
					return true         // provably drained: what is missing stays missing
				}
			}
			if now.After(deadline) {
				rec.Watchdog = what
				return false
			}
			s.cond.Wait()
		}
	}

	ok := true
	pingN := 0
	mkPing := func() *Msg {
		pingN++
		id := fmt.Sprintf("ping-%d", pingN)
		body, _ := json.Marshal(map[string]any{"jsonrpc": "2.0", "id": id, "method": "verif/ping"})
		return &Msg{Kind: "ping", ID: id, Body: body}
	}
	if h.Mode == LockStep {
		for _, m := range h.Msgs {
			if ok = send(m); !ok {
				break
			}
			p := mkPing()
			if ok = send(p); !ok {
				break
			}
			if ok = wait([]*Msg{m}, IDKey(p.ID), "lock-step wait"); !ok {
				break
			}
		}
	} else {
		for _, m := range h.Msgs {
			if ok = send(m); !ok {
				break
			}
		}
		if ok {
			p := mkPing()
			if ok = send(p); ok {
				ok = wait(h.Msgs, IDKey(p.ID), "pipelined final wait")
			}
		}
	}
	if ok && h.EndShutdown {
		sd := &Msg{Kind: "shutdown", ID: "shutdown-1", Body: []byte(`{"jsonrpc":"2.0","id":"shutdown-1","method":"shutdown"}`)}
		if send(sd) {
			wait([]*Msg{sd}, "", "shutdown wait")
			send(&Msg{Kind: "exit", Body: []byte(`{"jsonrpc":"2.0","method":"exit"}`)})
		}
	}
	s.mu.Lock()
	s.closed = true
	if !s.eof {
		rec.StdinClosedAt = s.nextSeq()
	}
	s.mu.Unlock()
	stdin.Close()

	exited := make(chan error, 1)
	go func() { <-readerDone; exited <- cmd.Wait() }()
	var werr error
	select {
	case werr = <-exited:
	case <-time.After(o.Watchdog):
		if rec.Watchdog == "" {
			rec.Watchdog = "exit wait"
		}
		syscall.Kill(-cmd.Process.Pid, syscall.SIGQUIT)
		select {
		case werr = <-exited:
		case <-time.After(10 * time.Second):
			syscall.Kill(-cmd.Process.Pid, syscall.SIGKILL)
			werr = <-exited
		}
	}
	close(stopTick)
	ef.Close()
	if ee, isExit := werr.(*exec.ExitError); isExit {
		rec.ExitCode = ee.ExitCode()
		if ws, ok := ee.Sys().(syscall.WaitStatus); ok && ws.Signaled() {
			rec.Signaled = true
		}
	} else if werr != nil {
		rec.ExitCode = -1
	}
	if b, err := os.ReadFile(errPath); err == nil {
		rec.Stderr = string(b)
	}
	races, _ := filepath.Glob(filepath.Join(o.Dir, "race*"))
	for _, f := range races {
		if b, err := os.ReadFile(f); err == nil {
			rec.RaceReports = append(rec.RaceReports, splitRaceReports(string(b))...)
		}
		os.Remove(f)
	}
	return rec
}

// splitRaceReports cuts a GORACE log into single reports.
func splitRaceReports(log string) []string {
	var ret []string
	for _, part := range strings.Split(log, "==================") {
		if strings.Contains(part, "WARNING: DATA RACE") {
			ret = append(ret, strings.TrimSpace(part))
		}
	}
	return ret
}

// RaceSignature names a race report by the outermost (top) frames of its two accesses.
func RaceSignature(report string) string {
	var tops []string
	lines := strings.Split(report, "\n")
	for i, l := range lines {
		t := strings.TrimSpace(l)
		if (strings.Contains(t, " by goroutine ") || strings.Contains(t, " by main goroutine")) && strings.HasSuffix(t, ":") && i+1 < len(lines) {
			// first frame that is not inside the runtime
			for j := i + 1; j < len(lines) && strings.TrimSpace(lines[j]) != ""; j += 2 {
				fn := strings.TrimSpace(lines[j])
				if k := strings.LastIndexByte(fn, '('); k > 0 {
					fn = fn[:k]
				}
				if strings.HasPrefix(fn, "runtime.") {
					continue
				}
				fn = strings.TrimPrefix(fn, "github.com/inspirer/textmapper/")
				tops = append(tops, fn)
				break
			}
		}
	}
	if len(tops) == 0 {
		return "race/unparsed"
	}
	if len(tops) > 2 {
		tops = tops[:2]
	}
	if len(tops) == 2 && tops[1] < tops[0] {
		tops[0], tops[1] = tops[1], tops[0]
	}
	return "race/" + strings.Join(tops, "|")
}
