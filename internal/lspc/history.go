package lspc

import (
	"bytes"
	"encoding/json"
	"fmt"
	"math/rand"
	"strings"
	"unicode/utf8"
)

// Delivery modes.
const (
	LockStep = iota
	Pipelined
	PipelinedDelays
)

var ModeNames = []string{"lockstep", "pipelined", "pipelined+delays"}

// Openness of a document in the generator's model.
const (
	Closed = iota
	Open
	MaybeOpen // after a didChange on a closed/never-opened document: the protocol does not say
)

// Msg is one client→server message plus what the generator's sequential model
// knew when it was produced (request order = order written to stdin).
type Msg struct {
	Kind    string // initialize, initialized, open, change, close, definition, unknown-call, unknown-notify, cancel, ping, shutdown, exit
	ID      any    // nil for notifications; int or string
	Body    []byte // JSON text sent
	URI     string
	Version int    // the client's version number: restarts after a reopen, may repeat
	Docs    []*Doc // contents carried by open/change (one per contentChanges entry)
	// DiagOrdinal says this is the n-th open/change with this (uri, version) in the history
	DiagOrdinal int
	Line        int64
	Char        int64
	// definition: the model at request time
	Open  int
	Cands []*Doc // possible latest contents, the one required by the protocol first
	// change on a closed document: a diagnostics publication is optional
	Optional     bool
	Hostile      string // "", empty-changes, multi-changes, non-file-uri, change-on-closed, reopen
	CancelTarget any
	Cancelled    bool // a $/cancelRequest for this id was sent after the request
	// filled in by the runner
	Seq int64
}

// History is one generated protocol session.
type History struct {
	Mode        int
	DelaySpec   string // VERIF_LS_DELAYS value for PipelinedDelays
	Msgs        []*Msg
	ASCII       bool
	EndShutdown bool
	Desc        string
}

type lineage struct {
	syn    *SynSpec
	corpus *CorpusFile
}

type docState struct {
	uri     string
	open    int
	cands   []*Doc
	lin     *lineage
	version int // last version number used by the client for this document
}

// GenOpts parameterise the history generator.
type GenOpts struct {
	Mode   int
	NOps   int
	ASCII  bool
	Corpus []CorpusFile // allowed corpus files (may be empty)
	// Hostile enables the server-killing variants (at most one per history, late).
	KillEmptyChanges bool
	KillNonFileURI   bool
	// BigPairs is the number of large documents (64-128 KiB, also sizes right at
	// 65536) that are opened/changed and immediately followed by a tiny change.
	BigPairs int
}

type gen struct {
	r      *rand.Rand
	o      GenOpts
	h      *History
	docs   []*docState
	stamp  int
	nextID int
	defIDs []*Msg // definition requests sent so far
	keyN   map[string]int
}

// versionFor picks the client's version number for an open or change. Clients
// number the versions of an open/close session: usually 1 at didOpen and +1 per
// change; some continue across a reopen, some send a change without bumping.
func (g *gen) versionFor(d *docState, open bool) int {
	x := g.r.Intn(100)
	v := d.version + 1
	switch {
	case open && x < 70:
		v = 1
	case open && x < 80:
		v = d.version // reopened with the number it had when it was closed
	case open && x < 90:
		v = 1 + g.r.Intn(4)
	case !open && x < 8:
		v = d.version // change without a new version number
	case !open && x < 12:
		v = d.version + 2 + g.r.Intn(3)
	}
	if v < 1 {
		v = 1
	}
	d.version = v
	return v
}

// ordinal numbers the messages that share a (uri, version).
func (g *gen) ordinal(m *Msg) {
	if g.keyN == nil {
		g.keyN = map[string]int{}
	}
	k := fmt.Sprintf("%s#%d", m.URI, m.Version)
	g.keyN[k]++
	m.DiagOrdinal = g.keyN[k]
}

func escapeNonASCII(b []byte) []byte {
	var out bytes.Buffer
	for len(b) > 0 {
		r, w := utf8.DecodeRune(b)
		if r < 0x80 {
			out.WriteByte(b[0])
		} else if r > 0xffff {
			r -= 0x10000
			fmt.Fprintf(&out, `\u%04x\u%04x`, 0xd800+(r>>10), 0xdc00+(r&0x3ff))
		} else {
			fmt.Fprintf(&out, `\u%04x`, r)
		}
		b = b[w:]
	}
	return out.Bytes()
}

func (g *gen) add(m *Msg, method string, params any) *Msg {
	o := map[string]any{"jsonrpc": "2.0", "method": method}
	if m.ID != nil {
		o["id"] = m.ID
	}
	if params != nil {
		o["params"] = params
	}
	var buf bytes.Buffer
	enc := json.NewEncoder(&buf)
	enc.SetEscapeHTML(false)
	enc.Encode(o)
	m.Body = bytes.TrimSpace(buf.Bytes())
	if g.r.Intn(5) == 0 {
		m.Body = escapeNonASCII(m.Body)
	}
	g.h.Msgs = append(g.h.Msgs, m)
	return m
}

func (g *gen) newID() any {
	g.nextID++
	if g.r.Intn(3) == 0 {
		return fmt.Sprintf("r%d", g.nextID)
	}
	return g.nextID
}

func (g *gen) newLineage() *lineage {
	if len(g.o.Corpus) > 0 && g.r.Intn(5) < 2 {
		return &lineage{corpus: &g.o.Corpus[g.r.Intn(len(g.o.Corpus))]}
	}
	return &lineage{syn: NewSynSpec(g.r, !g.o.ASCII)}
}

// nextDoc produces the next version of a document.
func (g *gen) nextDoc(d *docState) *Doc {
	g.stamp++
	x := g.r.Intn(100)
	switch {
	case d.lin == nil || x < 8:
		d.lin = g.newLineage()
	case x < 14: // arbitrary text
		var t string
		switch g.r.Intn(5) {
		case 0:
			t = ""
		case 1:
			t = "\n\n"
		case 2:
			t = "language broken(go);\n:: lexer\nid: /x/ {\n"
			if !g.o.ASCII {
				t = "language broken(go);\n:: lexer\n/* é😀 */ id: /x/ «\n"
			}
		case 3:
			if len(d.cands) > 0 {
				// a prefix of the previous content: its identifiers keep their old stamp
				prev := d.cands[0]
				p := prev.Text[:g.r.Intn(len(prev.Text)+1)]
				for len(p) > 0 && !utf8.ValidString(p) {
					p = p[:len(p)-1]
				}
				return RawDoc(p, g.stamp)
			}
		case 4:
			t = "no grammar here"
			if !g.o.ASCII {
				t = "pas de grammaire 😀 ici\r\n"
			}
		}
		return RawDoc(t, g.stamp)
	}
	if d.lin.syn != nil {
		d.lin.syn = d.lin.syn.Mutate(g.r)
		return d.lin.syn.Render(g.stamp)
	}
	return CorpusDoc(*d.lin.corpus, g.stamp, g.r, !g.o.ASCII)
}

func (g *gen) pickPosition(d *Doc) (line, char int64) {
	x := g.r.Intn(100)
	switch {
	case x < 78 && len(d.Occs) > 0:
		// on an identifier; prefer stamped ones
		var o Occ
		for try := 0; try < 4; try++ {
			o = d.Occs[g.r.Intn(len(d.Occs))]
			if o.Role != RoleOther {
				break
			}
		}
		var starts []int
		for i := o.Off; i < o.End; i++ {
			if utf8.RuneStart(d.Text[i]) {
				starts = append(starts, i)
			}
		}
		off := starts[g.r.Intn(len(starts))]
		if g.r.Intn(20) == 0 {
			off = o.End
		}
		l, c := PosOf(d.Text, d.LS, off, U16)
		return int64(l), int64(c)
	case x < 88:
		l := g.r.Intn(len(d.LS))
		n := Units(d.Text[d.LS[l]:lineEnd(d.Text, d.LS, l)], U16)
		return int64(l), int64(g.r.Intn(n + 1))
	}
	// hostile positions
	switch g.r.Intn(5) {
	case 0:
		return int64(len(d.LS) + g.r.Intn(3)), 0
	case 1:
		l := g.r.Intn(len(d.LS))
		n := Units(d.Text[d.LS[l]:lineEnd(d.Text, d.LS, l)], U16)
		return int64(l), int64(n + 1 + g.r.Intn(5))
	case 2:
		return 4294967295, 4294967295
	case 3:
		return int64(g.r.Intn(len(d.LS))), 4294967295
	default:
		// between the two code units of an astral character, if there is one
		for i, r := range d.Text {
			if r > 0xffff && g.r.Intn(3) == 0 {
				l, c := PosOf(d.Text, d.LS, i, U16)
				return int64(l), int64(c + 1)
			}
		}
		return 0, 1
	}
}

func textDocItem(uri string, version int, text string) map[string]any {
	return map[string]any{"uri": uri, "languageId": "textmapper", "version": version, "text": text}
}

// Generate builds one history.
func Generate(r *rand.Rand, o GenOpts) *History {
	g := &gen{r: r, o: o, h: &History{Mode: o.Mode, ASCII: o.ASCII}}
	if o.Mode == PipelinedDelays {
		g.h.DelaySpec = fmt.Sprintf("%d:%d", 1+r.Intn(1000), []int{200, 1000, 3000}[r.Intn(3)])
	}
	names := []string{"file:///ws/a.tm", "file:///ws/sub/b.tm", "file:///ws/gr%C3%A9%20c.tm", "file:///ws/d.tm"}
	nd := 1 + r.Intn(4)
	for i := 0; i < nd; i++ {
		g.docs = append(g.docs, &docState{uri: names[i]})
	}
	g.add(&Msg{Kind: "initialize", ID: g.newID()}, "initialize", map[string]any{
		"processId": nil, "rootUri": "file:///ws", "capabilities": map[string]any{},
		"workspaceFolders": []any{map[string]any{"uri": "file:///ws", "name": "ws"}}})
	g.add(&Msg{Kind: "initialized"}, "initialized", map[string]any{})

	killAt := -1
	if o.KillEmptyChanges || o.KillNonFileURI {
		killAt = o.NOps*3/4 + r.Intn(o.NOps/4+1)
	}
	bigAt := map[int]bool{}
	for i := 0; i < o.BigPairs; i++ {
		bigAt[o.NOps*(i+1)/(o.BigPairs+2)] = true
	}
	for op := 0; op < o.NOps; op++ {
		if bigAt[op] && op != killAt {
			g.bigThenSmall()
			continue
		}
		if op == killAt {
			if o.KillNonFileURI {
				g.stamp++
				d := NewSynSpec(r, !o.ASCII).Render(g.stamp)
				g.add(&Msg{Kind: "open", URI: "untitled:Untitled-1", Version: 2000000 + g.stamp, Docs: []*Doc{d}, Hostile: "non-file-uri", Optional: true},
					"textDocument/didOpen", map[string]any{"textDocument": textDocItem("untitled:Untitled-1", 2000000+g.stamp, d.Text)})
				continue
			}
			var od *docState
			for _, d := range g.docs {
				if d.open == Open {
					od = d
				}
			}
			if od != nil {
				g.stamp++
				g.add(&Msg{Kind: "change", URI: od.uri, Version: 2000000 + g.stamp, Hostile: "empty-changes", Optional: true},
					"textDocument/didChange", map[string]any{"textDocument": map[string]any{"uri": od.uri, "version": 2000000 + g.stamp}, "contentChanges": []any{}})
				continue
			}
		}
		g.step()
	}
	g.add(&Msg{Kind: "ping", ID: g.newID()}, "verif/ping", map[string]any{})
	g.h.EndShutdown = r.Intn(3) == 0
	return g.h
}

func (g *gen) step() {
	r := g.r
	var open, notOpen []*docState
	for _, d := range g.docs {
		if d.open == Open {
			open = append(open, d)
		} else {
			notOpen = append(notOpen, d)
		}
	}
	type choice struct {
		w int
		f func()
	}
	var cs []choice
	if len(notOpen) > 0 {
		w := 30
		if len(open) == 0 {
			w = 200
		}
		cs = append(cs, choice{w, func() { g.open(notOpen[r.Intn(len(notOpen))], "") }})
		cs = append(cs, choice{10, func() { g.definition(notOpen[r.Intn(len(notOpen))]) }})
		cs = append(cs, choice{1, func() { g.change(notOpen[r.Intn(len(notOpen))]) }})
	}
	if len(open) > 0 {
		cs = append(cs, choice{60, func() { g.change(open[r.Intn(len(open))]) }})
		cs = append(cs, choice{90, func() { g.definition(open[r.Intn(len(open))]) }})
		cs = append(cs, choice{14, func() { g.close(open[r.Intn(len(open))]) }})
		cs = append(cs, choice{3, func() { g.open(open[r.Intn(len(open))], "reopen") }})
	}
	cs = append(cs, choice{4, func() { g.close(g.docs[r.Intn(len(g.docs))]) }}) // close of anything (also not open)
	cs = append(cs, choice{8, g.unknown})
	cs = append(cs, choice{8, g.cancel})
	cs = append(cs, choice{2, func() { // never-opened, unknown document
		g.definitionOn("file:///ws/never-opened.tm", Closed, nil)
	}})
	tot := 0
	for _, c := range cs {
		tot += c.w
	}
	x := r.Intn(tot)
	for _, c := range cs {
		if x < c.w {
			c.f()
			return
		}
		x -= c.w
	}
}

func (g *gen) open(d *docState, hostile string) {
	g.openWith(d, g.nextDoc(d), hostile)
}

func (g *gen) openWith(d *docState, doc *Doc, hostile string) {
	d.open, d.cands = Open, []*Doc{doc}
	m := &Msg{Kind: "open", URI: d.uri, Version: g.versionFor(d, true), Docs: []*Doc{doc}, Hostile: hostile}
	g.ordinal(m)
	g.add(m, "textDocument/didOpen", map[string]any{"textDocument": textDocItem(d.uri, m.Version, doc.Text)})
}

func (g *gen) change(d *docState) {
	n := 1
	if g.r.Intn(25) == 0 {
		n = 2 + g.r.Intn(2)
	}
	var docs []*Doc
	for i := 0; i < n; i++ {
		docs = append(docs, g.nextDoc(d))
	}
	g.changeWith(d, docs)
}

func (g *gen) changeWith(d *docState, docs []*Doc) {
	m := &Msg{Kind: "change", URI: d.uri, Docs: docs}
	n := len(docs)
	if n > 1 {
		m.Hostile = "multi-changes"
	}
	var changes []any
	for _, doc := range docs {
		changes = append(changes, map[string]any{"text": doc.Text})
	}
	last := m.Docs[n-1]
	if d.open != Open {
		// its publication is optional: give it a version number nothing else uses
		d.version = 1000000 + last.Stamp
		m.Version = d.version
	} else {
		m.Version = g.versionFor(d, false)
	}
	g.ordinal(m)
	if d.open != Open {
		// the protocol does not define a change of a document that is not open
		d.open = MaybeOpen
		m.Optional = true
		if m.Hostile == "" {
			m.Hostile = "change-on-closed"
		}
	}
	// full-text sync: the state after the message is the last entry; remember the
	// first one as an alternative so that the monitors can name that defect.
	d.cands = []*Doc{last}
	if n > 1 {
		d.cands = append(d.cands, m.Docs[0])
	}
	g.add(m, "textDocument/didChange", map[string]any{
		"textDocument": map[string]any{"uri": d.uri, "version": m.Version}, "contentChanges": changes})
}

// bigThenSmall sends a large document and right after it a much smaller version
// of the same document, then asks for a definition in the small one.
func (g *gen) bigThenSmall() {
	d := g.docs[g.r.Intn(len(g.docs))]
	g.stamp++
	size := []int{65536, 65535, 65537, 0, 131072, 70000}[g.r.Intn(6)]
	rules := 1200 + g.r.Intn(400) // below 64 KiB before padding
	if size == 0 {
		rules = 3000 // about 84 KiB without padding
	}
	big := BigDoc(g.stamp, rules, size, !g.o.ASCII)
	if d.open == Open && g.r.Intn(2) == 0 {
		g.changeWith(d, []*Doc{big})
	} else {
		g.openWith(d, big, "")
	}
	g.h.Msgs[len(g.h.Msgs)-1].Hostile = "big-document"
	g.stamp++
	g.changeWith(d, []*Doc{BigDoc(g.stamp, 2, 0, false)})
	d.lin = nil
	g.definition(d)
}

func (g *gen) close(d *docState) {
	d.open, d.cands = Closed, nil
	g.add(&Msg{Kind: "close", URI: d.uri}, "textDocument/didClose", map[string]any{"textDocument": map[string]any{"uri": d.uri}})
}

func (g *gen) definition(d *docState) {
	g.definitionOn(d.uri, d.open, d.cands)
	g.h.Msgs[len(g.h.Msgs)-1].Version = d.version
}

func (g *gen) definitionOn(uri string, open int, cands []*Doc) {
	m := &Msg{Kind: "definition", ID: g.newID(), URI: uri, Open: open, Cands: cands}
	if len(cands) > 0 {
		m.Line, m.Char = g.pickPosition(cands[0])
	} else {
		m.Line, m.Char = int64(g.r.Intn(30)), int64(g.r.Intn(20))
	}
	g.defIDs = append(g.defIDs, m)
	g.add(m, "textDocument/definition", map[string]any{
		"textDocument": map[string]any{"uri": uri}, "position": map[string]any{"line": m.Line, "character": m.Char}})
}

func (g *gen) unknown() {
	switch g.r.Intn(4) {
	case 0:
		g.add(&Msg{Kind: "unknown-notify"}, "verif/unknownNotification", map[string]any{"x": 1})
	case 1:
		g.add(&Msg{Kind: "unknown-call", ID: g.newID()}, "verif/unknownRequest", map[string]any{"text": strings.Repeat("é😀", g.r.Intn(4))})
	case 2:
		g.add(&Msg{Kind: "unknown-call", ID: g.newID()}, "textDocument/hover", map[string]any{
			"textDocument": map[string]any{"uri": g.docs[0].uri}, "position": map[string]any{"line": 0, "character": 0}})
	default:
		g.add(&Msg{Kind: "unknown-notify"}, "textDocument/didSave", map[string]any{"textDocument": map[string]any{"uri": g.docs[0].uri}})
	}
}

func (g *gen) cancel() {
	var target any
	switch {
	case len(g.defIDs) > 0 && g.r.Intn(4) > 0:
		// a recent definition request (still queued when pipelined)
		k := len(g.defIDs) - 1 - g.r.Intn(min(3, len(g.defIDs)))
		g.defIDs[k].Cancelled = true
		target = g.defIDs[k].ID
	case g.r.Intn(2) == 0:
		target = g.nextID + 1 + g.r.Intn(5) // not sent yet
	default:
		target = "no-such-request"
	}
	g.add(&Msg{Kind: "cancel", CancelTarget: target}, "$/cancelRequest", map[string]any{"id": target})
}
