// Package lspc is the harness side of the C23 check: a minimal JSON-RPC/LSP
// client (own framing, own JSON, no go.lsp.dev code), generators for documents
// and message histories, a recorder and the offline monitors over the recorded
// log.
package lspc

import (
	"strings"
	"unicode/utf8"
)

// Mode says in which unit the "character" of a position is counted.
type Mode int

const (
	U16   Mode = iota // UTF-16 code units (what LSP and the property require)
	Bytes             // UTF-8 bytes
	Runes             // code points
)

func (m Mode) String() string { return [...]string{"utf16", "bytes", "runes"}[m] }

// LineStarts returns the byte offsets at which lines start ('\n' terminated lines).
func LineStarts(text string) []int {
	ls := []int{0}
	for i := 0; i < len(text); i++ {
		if text[i] == '\n' {
			ls = append(ls, i+1)
		}
	}
	return ls
}

func lineEnd(text string, ls []int, line int) int {
	if line+1 < len(ls) {
		return ls[line+1] - 1 // position of '\n'
	}
	return len(text)
}

// OffsetOf converts a (line, character) position to a byte offset. ok is false
// when the position is outside the document (no such line, character beyond the
// end of the line) or not on a character boundary (inside a surrogate pair /
// inside a UTF-8 sequence).
func OffsetOf(text string, ls []int, line, char int64, mode Mode) (off int, ok bool) {
	if line < 0 || char < 0 || line >= int64(len(ls)) {
		return 0, false
	}
	p := ls[line]
	end := lineEnd(text, ls, int(line))
	if mode == Bytes {
		if int64(p)+char > int64(end) {
			return 0, false
		}
		q := p + int(char)
		if q < len(text) && !utf8.RuneStart(text[q]) {
			return 0, false
		}
		return q, true
	}
	for char > 0 {
		if p >= end {
			return 0, false
		}
		r, w := utf8.DecodeRuneInString(text[p:end])
		p += w
		char--
		if mode == U16 && r > 0xffff {
			if char == 0 {
				return 0, false
			}
			char--
		}
	}
	return p, true
}

// PosOf converts a byte offset (on a rune boundary) to a position.
func PosOf(text string, ls []int, off int, mode Mode) (line, char int) {
	lo, hi := 0, len(ls)
	for lo+1 < hi {
		m := (lo + hi) / 2
		if ls[m] <= off {
			lo = m
		} else {
			hi = m
		}
	}
	line = lo
	seg := text[ls[line]:off]
	switch mode {
	case Bytes:
		char = len(seg)
	case Runes:
		char = utf8.RuneCountInString(seg)
	default:
		for _, r := range seg {
			if r > 0xffff {
				char += 2
			} else {
				char++
			}
		}
	}
	return
}

// Units returns the length of s in the given unit.
func Units(s string, mode Mode) int {
	switch mode {
	case Bytes:
		return len(s)
	case Runes:
		return utf8.RuneCountInString(s)
	}
	n := 0
	for _, r := range s {
		if r > 0xffff {
			n += 2
		} else {
			n++
		}
	}
	return n
}

func isASCII(s string) bool {
	for i := 0; i < len(s); i++ {
		if s[i] >= 0x80 {
			return false
		}
	}
	return true
}

func firstLine(s string) string {
	if i := strings.IndexByte(s, '\n'); i >= 0 {
		return s[:i]
	}
	return s
}
