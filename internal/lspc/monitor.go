package lspc

import (
	"context"
	"encoding/json"
	"errors"
	"fmt"
	"net/url"
	"sort"
	"strings"
	"time"

	"github.com/anishathalye/porcupine"
	"github.com/inspirer/textmapper/compiler"
	"github.com/inspirer/textmapper/parsers/tm"
	"github.com/inspirer/textmapper/status"
)

// Finding is one oracle disagreement.
type Finding struct {
	Sig    string
	Detail string
}

// Report is the outcome of the offline monitors for one recorded session.
type Report struct {
	Findings     []Finding
	Counters     map[string]int64
	Distinct     []string
	Inconclusive string
}

func (r *Report) count(k string, n int64) { r.Counters[k] += n }
func (r *Report) find(sig, format string, a ...any) {
	r.Findings = append(r.Findings, Finding{Sig: sig, Detail: fmt.Sprintf(format, a...)})
}

// ExpDiag is a diagnostic as the compiler reports it (byte offsets).
type ExpDiag struct {
	Msg      string
	Off, End int
	NoOrigin bool
	Token    bool // NoOrigin, but Off/End are the token a syntax error was reported at
}

// FilenameOf maps a file: URI to the path the server uses.
func FilenameOf(uri string) string {
	u, err := url.ParseRequestURI(uri)
	if err != nil || u.Scheme != "file" {
		return uri
	}
	return u.Path
}

// ExpectedDiagnostics compiles the text with the repository's compiler, the
// way the property describes ("diagnostics of that version").
func ExpectedDiagnostics(filename, text string) []ExpDiag {
	_, err := compiler.Compile(context.Background(), filename, text, compiler.Params{CheckOnly: true, Verbose: true})
	var ret []ExpDiag
	var se tm.SyntaxError
	if errors.As(err, &se) && se.Offset >= 0 && se.Offset <= se.Endoffset && se.Endoffset <= len(text) {
		// no status origin, but the parser names the offending token
		return []ExpDiag{{Msg: se.Error(), Off: se.Offset, End: se.Endoffset, NoOrigin: true, Token: true}}
	}
	for _, e := range status.FromError(err) {
		d := ExpDiag{Msg: e.Msg, Off: e.Origin.Offset, End: e.Origin.EndOffset}
		if e.Origin.Line == 0 && e.Origin.Filename == "" {
			d.NoOrigin = true
		}
		if d.Off < 0 || d.End > len(text) || d.End < d.Off {
			d.NoOrigin = true
		}
		ret = append(ret, d)
	}
	return ret
}

type pos struct{ Line, Character int64 }
type rng struct{ Start, End pos }

func (r rng) String() string {
	return fmt.Sprintf("%d:%d-%d:%d", r.Start.Line, r.Start.Character, r.End.Line, r.End.Character)
}

type gotDiag struct {
	Range   rng    `json:"range"`
	Message string `json:"message"`
}

type location struct {
	URI   string `json:"uri"`
	Range rng    `json:"range"`
}

// variants of the range an expected diagnostic may be reported with.
func diagRange(d *Doc, e ExpDiag, mode Mode, clip bool) rng {
	end := e.End
	if clip {
		end = e.Off + len(firstLine(d.Text[e.Off:e.End]))
	}
	if mode == U16 || !clip {
		sl, sc := PosOf(d.Text, d.LS, e.Off, mode)
		el, ec := PosOf(d.Text, d.LS, end, mode)
		return rng{pos{int64(sl), int64(sc)}, pos{int64(el), int64(ec)}}
	}
	// single-line form: start column plus length, both in the unit
	sl, sc := PosOf(d.Text, d.LS, e.Off, mode)
	return rng{pos{int64(sl), int64(sc)}, pos{int64(sl), int64(sc + Units(d.Text[e.Off:end], mode))}}
}

const maxU32 = 4294967295

const sigMulti = "content/didChange-several-contentChanges-first-entry-used"

// compareDiags matches a published list against the expectation for doc d.
// It returns "" when the message multisets differ (content mismatch, the caller
// tries other explanations), otherwise a list of per-diagnostic verdicts.
func compareDiags(d *Doc, exp []ExpDiag, got []gotDiag) (sameContent bool, verdicts []string, details []string) {
	if len(exp) != len(got) {
		return false, nil, nil
	}
	em := map[string]int{}
	for _, e := range exp {
		em[e.Msg]++
	}
	for _, g := range got {
		em[g.Message]--
	}
	for _, v := range em {
		if v != 0 {
			return false, nil, nil
		}
	}
	used := make([]bool, len(exp))
	verdict := make([]string, len(got))
	match := func(pass string, ok func(e ExpDiag, g gotDiag) bool) {
		for gi, g := range got {
			if verdict[gi] != "" {
				continue
			}
			for ei, e := range exp {
				if used[ei] || e.Msg != g.Message || !ok(e, g) {
					continue
				}
				used[ei] = true
				verdict[gi] = pass
				break
			}
		}
	}
	inDoc := func(g gotDiag) bool {
		s, ok1 := OffsetOf(d.Text, d.LS, g.Range.Start.Line, g.Range.Start.Character, U16)
		e, ok2 := OffsetOf(d.Text, d.LS, g.Range.End.Line, g.Range.End.Character, U16)
		return ok1 && ok2 && e >= s
	}
	match("ok", func(e ExpDiag, g gotDiag) bool {
		return !e.NoOrigin && (g.Range == diagRange(d, e, U16, true) || g.Range == diagRange(d, e, U16, false))
	})
	match("ok-syntax-error-at-token", func(e ExpDiag, g gotDiag) bool {
		return e.Token && (g.Range == diagRange(d, e, U16, true) || g.Range == diagRange(d, e, U16, false))
	})
	match("ok-no-origin", func(e ExpDiag, g gotDiag) bool { return e.NoOrigin && inDoc(g) })
	match("bytes", func(e ExpDiag, g gotDiag) bool {
		return !e.NoOrigin && (g.Range == diagRange(d, e, Bytes, true) || g.Range == diagRange(d, e, Bytes, false))
	})
	match("runes", func(e ExpDiag, g gotDiag) bool {
		return !e.NoOrigin && (g.Range == diagRange(d, e, Runes, true) || g.Range == diagRange(d, e, Runes, false))
	})
	match("no-origin-underflow", func(e ExpDiag, g gotDiag) bool {
		return e.NoOrigin && g.Range == rng{pos{maxU32, maxU32}, pos{maxU32, maxU32}}
	})
	match("no-origin-outside", func(e ExpDiag, g gotDiag) bool { return e.NoOrigin })
	for gi, g := range got {
		if verdict[gi] == "" {
			verdict[gi] = "other"
			if !inDoc(g) {
				verdict[gi] = "other-outside"
			}
		}
		if !strings.HasPrefix(verdict[gi], "ok") {
			var want []string
			for _, e := range exp {
				if e.Msg == g.Message {
					if e.NoOrigin {
						want = append(want, "any range inside the document (the compiler gave no origin)")
					} else {
						want = append(want, fmt.Sprintf("%v (bytes %d..%d %q; in bytes it would be %v)", diagRange(d, e, U16, true), e.Off, e.End,
							firstLine(d.Text[e.Off:e.End]), diagRange(d, e, Bytes, true)))
					}
				}
			}
			details = append(details, fmt.Sprintf("[%s] message %q: got range %v, want %s", verdict[gi], g.Message, g.Range, strings.Join(want, " or ")))
		}
	}
	return true, verdict, details
}

// explainLocations reports whether the reply is what a server holding text d
// would answer when it counts columns in the given unit: every location is
// exactly an identifier occurrence, all with one name, which is the name of
// the identifier under the (UTF-16) cursor position.
func explainLocations(d *Doc, line, char int64, locs []location, mode Mode) bool {
	if len(locs) == 0 {
		return false
	}
	cur, ok := OffsetOf(d.Text, d.LS, line, char, U16)
	if !ok {
		return false
	}
	names := map[string]bool{}
	for i := range d.Occs {
		if o := d.Occs[i]; o.Off <= cur && cur <= o.End {
			names[o.Name] = true
		}
	}
	if len(names) == 0 {
		return false
	}
	name := ""
	for _, l := range locs {
		s, ok1 := OffsetOf(d.Text, d.LS, l.Range.Start.Line, l.Range.Start.Character, mode)
		e, ok2 := OffsetOf(d.Text, d.LS, l.Range.End.Line, l.Range.End.Character, mode)
		if !ok1 || !ok2 || e < s {
			return false
		}
		o := d.FindOcc(s, e)
		if o == nil || !names[o.Name] || name != "" && o.Name != name {
			return false
		}
		name = o.Name
	}
	return true
}

// cursorInfo describes what is under the cursor in d.
func cursorInfo(d *Doc, line, char int64) (valid bool, occ *Occ) {
	cur, ok := OffsetOf(d.Text, d.LS, line, char, U16)
	if !ok {
		return false, nil
	}
	return true, d.OccAt(cur)
}

func describeLocs(d *Doc, locs []location) string {
	var b strings.Builder
	for _, l := range locs {
		fmt.Fprintf(&b, "  %v", l.Range)
		for _, m := range []Mode{U16, Bytes} {
			s, ok1 := OffsetOf(d.Text, d.LS, l.Range.Start.Line, l.Range.Start.Character, m)
			e, ok2 := OffsetOf(d.Text, d.LS, l.Range.End.Line, l.Range.End.Character, m)
			if ok1 && ok2 && e >= s {
				fmt.Fprintf(&b, " as %v=%q", m, d.Text[s:e])
			} else {
				fmt.Fprintf(&b, " as %v=<outside the document>", m)
			}
		}
		b.WriteString("\n")
	}
	return b.String()
}

func lineOf(d *Doc, line int64) string {
	if line < 0 || line >= int64(len(d.LS)) {
		return "<no such line>"
	}
	return d.Text[d.LS[line]:lineEnd(d.Text, d.LS, int(line))]
}

// ClassifyCrash derives a signature from the stderr of a server that died.
func ClassifyCrash(stderr string, h *History) (sig, excerpt string) {
	lines := strings.Split(stderr, "\n")
	for i, l := range lines {
		if strings.HasPrefix(l, "panic: ") || strings.HasPrefix(l, "fatal error: ") {
			end := i + 40
			if end > len(lines) {
				end = len(lines)
			}
			excerpt = strings.Join(lines[i:end], "\n")
			frame := ""
			for _, f := range lines[i:] {
				f = strings.TrimSpace(f)
				if strings.HasPrefix(f, "github.com/inspirer/textmapper/") {
					frame = strings.TrimPrefix(f, "github.com/inspirer/textmapper/")
					if k := strings.LastIndexByte(frame, '('); k > 0 {
						frame = frame[:k]
					}
					break
				}
			}
			msg := strings.TrimPrefix(strings.TrimPrefix(l, "panic: "), "fatal error: ")
			if k := strings.Index(msg, " [recovered]"); k > 0 {
				msg = msg[:k]
			}
			hasEmpty, hasNonFile := false, false
			for _, m := range h.Msgs {
				hasEmpty = hasEmpty || m.Hostile == "empty-changes" && m.Seq > 0
				hasNonFile = hasNonFile || m.Hostile == "non-file-uri" && m.Seq > 0
			}
			switch {
			case hasEmpty && strings.Contains(msg, "index out of range [0] with length 0") && frame == "ls.(*Server).DidChange":
				return "crash/didChange-empty-contentChanges", excerpt
			case hasNonFile && strings.Contains(msg, "only file URIs are supported") && strings.HasPrefix(frame, "ls.(*Server)."):
				return "crash/non-file-uri-panics-in-Filename", excerpt
			}
			return "crash/" + skeleton(msg) + "@" + frame, excerpt
		}
	}
	tail := lines
	if len(tail) > 15 {
		tail = tail[len(tail)-15:]
	}
	last := ""
	for i := len(lines) - 1; i >= 0; i-- {
		if strings.TrimSpace(lines[i]) != "" {
			last = lines[i]
			break
		}
	}
	if f := strings.Fields(last); len(f) > 3 { // drop zap/log timestamps
		last = strings.Join(f[1:], " ")
	}
	return "crash/exit-without-panic/" + skeleton(last), strings.Join(tail, "\n")
}

func skeleton(msg string) string {
	var b strings.Builder
	lastHash := false
	for _, r := range msg {
		if r >= '0' && r <= '9' {
			if !lastHash {
				b.WriteByte('#')
			}
			lastHash = true
			continue
		}
		lastHash = false
		b.WriteRune(r)
	}
	s := b.String()
	if len(s) > 90 {
		s = s[:90]
	}
	return s
}

// register model for porcupine (one partition = one URI)
type regIn struct {
	write bool // write or close (stamp 0)
	stamp int
}
type regOut struct {
	unknown bool
	closed  bool
	stamps  map[int]bool
}

var registerModel = porcupine.Model{
	Init: func() interface{} { return 0 },
	Step: func(state, input, output interface{}) (bool, interface{}) {
		st := state.(int)
		in := input.(regIn)
		if in.write {
			return true, in.stamp
		}
		out := output.(regOut)
		switch {
		case out.unknown:
			return true, st
		case out.closed:
			return st == 0, st
		}
		return out.stamps[st], st
	},
}

// Check runs the offline monitors over a recorded session.
func Check(h *History, rec *Recording, note func(name, text string)) *Report {
	rep := &Report{Counters: map[string]int64{}}
	if rec.Watchdog != "" {
		rep.Inconclusive = "wall-clock watchdog: " + rec.Watchdog
		rep.count("watchdog_fired", 1)
		return rep
	}
	rep.count("histories_"+ModeNames[h.Mode], 1)
	if h.ASCII {
		rep.count("histories_ascii_only", 1)
	}

	// ---- (1) liveness, exit status, races
	died := rec.DiedEarly
	if died {
		sig, excerpt := ClassifyCrash(rec.Stderr, h)
		if strings.HasPrefix(sig, "crash/exit-without-panic/") && rec.FramingError != "" {
			// the reader gave up on garbage, the process itself did not report a failure
			rep.find("protocol/framing-error", "%s\n%s", rec.FramingError, excerpt)
		} else {
			rep.find(sig, "the server process ended (exit code %d, signaled=%v) before the client closed stdin\n%s", rec.ExitCode, rec.Signaled, excerpt)
			if rec.FramingError != "" {
				rep.count("frames_truncated_by_crash", 1) // a frame in flight when the process died
			}
		}
		rep.count("server_died_early", 1)
	} else {
		rep.count("server_alive_until_stdin_closed", 1)
		if rec.ExitCode != 0 && !(rec.ExitCode == 66 && len(rec.RaceReports) > 0) {
			rep.find(fmt.Sprintf("exit/status-%d-after-stdin-closed", rec.ExitCode), "exit code %d after stdin was closed\n%s", rec.ExitCode, tailStr(rec.Stderr, 3000))
		}
	}
	if rec.FramingError != "" && !died {
		rep.find("protocol/framing-error", "%s", rec.FramingError)
	}
	seenRace := map[string]bool{}
	for _, rr := range rec.RaceReports {
		sig := RaceSignature(rr)
		if !seenRace[sig] {
			seenRace[sig] = true
			rep.find(sig, "%s", rr)
		}
	}
	rep.count("race_reports", int64(len(rec.RaceReports)))
	rep.count("race_detector_runs", 1)

	// ---- index what was sent
	sentByID := map[string]*Msg{}
	// Version numbers are the client's and may repeat (numbering restarts after a
	// reopen, a change may keep the number): the k-th publication for (uri, version)
	// belongs to the k-th open/change with that key, in request order.
	var expMsgs []*Msg             // open/change messages in request order
	expQueue := map[string][]int{} // uri#version -> indices into expMsgs not yet published
	keyKnown := map[string]bool{}
	docsOfURI := map[string][]*Doc{}
	var maxSeq int64
	for _, ev := range rec.Events {
		if ev.Seq > maxSeq {
			maxSeq = ev.Seq
		}
		if ev.Dir != 'C' {
			continue
		}
		m := ev.Msg
		rep.count("msgs_sent", 1)
		rep.count("sent_"+m.Kind, 1)
		if m.Hostile != "" {
			rep.count("sent_hostile_"+m.Hostile, 1)
		}
		if m.ID != nil {
			sentByID[IDKey(m.ID)] = m
		}
		if m.Kind == "open" || m.Kind == "change" {
			k := fmt.Sprintf("%s#%d", m.URI, m.Version)
			if keyKnown[k] {
				rep.count("version_numbers_reused", 1)
			}
			keyKnown[k] = true
			expQueue[k] = append(expQueue[k], len(expMsgs))
			expMsgs = append(expMsgs, m)
			docsOfURI[m.URI] = append(docsOfURI[m.URI], m.Docs...)
		}
	}
	infinity := maxSeq + 10

	// ---- (2) diagnostics
	type pub struct {
		seq   int64
		key   string
		diags []gotDiag
	}
	var pubs []pub
	replySeq := map[string]int64{}
	replies := map[string]*Inbound{}
	for _, ev := range rec.Events {
		if ev.Dir != 'S' {
			continue
		}
		rep.count("msgs_received", 1)
		in := ev.In
		if in.BadJSON != "" {
			rep.find("protocol/bad-json", "%s: %s", in.BadJSON, ev.Body)
			continue
		}
		switch {
		case in.Method == "textDocument/publishDiagnostics":
			var p struct {
				URI         string    `json:"uri"`
				Version     int64     `json:"version"`
				Diagnostics []gotDiag `json:"diagnostics"`
			}
			if err := json.Unmarshal(in.Params, &p); err != nil {
				rep.find("protocol/bad-publishDiagnostics", "%v: %s", err, ev.Body)
				continue
			}
			pubs = append(pubs, pub{ev.Seq, fmt.Sprintf("%s#%d", p.URI, p.Version), p.Diagnostics})
		case in.Method != "":
			rep.count("other_server_messages", 1)
			if len(in.ID) > 0 { // a server→client request: nobody asked for one
				rep.find("protocol/unexpected-server-request/"+in.Method, "%s", ev.Body)
			}
		default:
			k := in.idKey()
			if _, dup := replies[k]; dup {
				rep.find("reply/duplicate", "second reply for id %s: %s", k, ev.Body)
				continue
			}
			replies[k] = in
			replySeq[k] = ev.Seq
			if sentByID[k] == nil {
				rep.find("reply/unknown-id", "reply for an id that was never sent: %s", ev.Body)
			}
		}
	}
	pubSeq := map[*Msg]int64{}
	lastIdx := -1
	expCache := map[*Doc][]ExpDiag{}
	expected := func(uri string, d *Doc) []ExpDiag {
		if e, ok := expCache[d]; ok {
			return e
		}
		if note != nil {
			note("compile-input.tm", d.Text)
		}
		e := ExpectedDiagnostics(FilenameOf(uri), d.Text)
		expCache[d] = e
		return e
	}
	for _, p := range pubs {
		if !keyKnown[p.key] {
			rep.find("diagnostics/unexpected-publication", "publishDiagnostics for %s which was never opened/changed with that version", p.key)
			continue
		}
		if len(expQueue[p.key]) == 0 {
			rep.find("diagnostics/duplicate-publication", "more publishDiagnostics for %s than open/change messages with that version", p.key)
			continue
		}
		idx := expQueue[p.key][0]
		expQueue[p.key] = expQueue[p.key][1:]
		m := expMsgs[idx]
		pubSeq[m] = p.seq
		if idx < lastIdx {
			rep.find("diagnostics/out-of-request-order", "publishDiagnostics for %s (open/change #%d, %d bytes) arrived after the one for %s#%d (open/change #%d)",
				p.key, idx, msgBytes(m), expMsgs[lastIdx].URI, expMsgs[lastIdx].Version, lastIdx)
		} else {
			lastIdx = idx
		}
		if msgBytes(m) >= 65536 {
			rep.count("publications_for_documents_64k_and_more", 1)
		}
		rep.count("publications_checked", 1)
		if len(m.Docs) == 0 {
			continue // hostile message without content; nothing to compare
		}
		want := m.Docs[len(m.Docs)-1]
		same, verdicts, details := compareDiags(want, expected(m.URI, want), p.diags)
		if same && (contains(verdicts, "other") || contains(verdicts, "other-outside") || contains(verdicts, "runes") && len(m.Docs) > 1) && len(p.diags) > 0 {
			// same messages but unexplained ranges: maybe it is the content of another candidate
			for _, od := range docsOfURI[m.URI] {
				if od == want || expCache[od] == nil && od != m.Docs[0] {
					continue
				}
				if ok, v, _ := compareDiags(od, expected(m.URI, od), p.diags); ok && !contains(v, "other") && !contains(v, "other-outside") {
					same = false
					break
				}
			}
		}
		if !same {
			// which other content explains it?
			sig := "diagnostics/content-mismatch"
			if len(m.Docs) > 1 {
				if ok, v, _ := compareDiags(m.Docs[0], expected(m.URI, m.Docs[0]), p.diags); ok && !contains(v, "other") && !contains(v, "other-outside") {
					sig = sigMulti
				}
			}
			if sig == "diagnostics/content-mismatch" {
				for _, od := range docsOfURI[m.URI] {
					if od == want || expCache[od] == nil {
						continue // only contents the server demonstrably compiled before
					}
					if ok, v, _ := compareDiags(od, expCache[od], p.diags); ok && len(p.diags) > 0 && !contains(v, "other") && !contains(v, "other-outside") {
						sig = "diagnostics/stale-content-of-another-version"
						break
					}
				}
			}
			var gm, wm []string
			for _, g := range p.diags {
				gm = append(gm, fmt.Sprintf("%v %s", g.Range, g.Message))
			}
			for _, e := range expected(m.URI, want) {
				wm = append(wm, fmt.Sprintf("bytes %d..%d %s", e.Off, e.End, e.Msg))
			}
			rep.find(sig, "diagnostics published for %s do not belong to the content of that version\ngot:\n  %s\nwant (compiler on that content):\n  %s\n--- content ---\n%s",
				p.key, strings.Join(gm, "\n  "), strings.Join(wm, "\n  "), want.Text)
			continue
		}
		if len(p.diags) > 0 {
			rep.count("publications_nonempty", 1)
		}
		for _, v := range verdicts {
			rep.count("diagnostic_ranges_checked", 1)
			rep.count("diag_verdict_"+v, 1)
		}
		for _, e := range expected(m.URI, want) {
			if !e.NoOrigin {
				if !isASCII(want.Text[want.LS[lineIndex(want, e.Off)]:e.Off]) {
					rep.count("diagnostics_after_nonascii_on_line", 1)
				}
				if strings.Contains(want.Text[e.Off:e.End], "\n") {
					rep.count("diagnostics_multiline_range", 1)
				}
			}
		}
		sigOf := map[string]string{
			"bytes":               "position/diagnostics/byte-columns-not-utf16",
			"runes":               "position/diagnostics/rune-columns-not-utf16",
			"no-origin-underflow": "range/diagnostics/no-origin-line-and-column-wrap-to-uint32-max",
			"no-origin-outside":   "range/diagnostics/no-origin-outside-document",
			"other":               "position/diagnostics/range-mismatch",
			"other-outside":       "range/diagnostics/outside-document",
		}
		done := map[string]bool{}
		for _, v := range verdicts {
			if s := sigOf[v]; s != "" && !done[s] {
				done[s] = true
				rep.find(s, "publishDiagnostics %s:\n%s\n--- content ---\n%s", p.key, strings.Join(details, "\n"), want.Text)
			}
		}
		rep.Distinct = append(rep.Distinct, "diag:"+fmt.Sprint(hashStr(want.Text)))
	}
	if !died {
		for _, m := range expMsgs {
			if _, ok := pubSeq[m]; !ok && !m.Optional {
				rep.find("diagnostics/missing-publication", "no publishDiagnostics for %s#%d although the handler chain was drained (a later request was answered)", m.URI, m.Version)
			}
		}
	}

	// ---- (3)+(5) replies
	stampsOf := map[string]map[int]int{} // uri -> stamp -> canonical stamp (multi-change aliases)
	for _, m := range expMsgs {
		if stampsOf[m.URI] == nil {
			stampsOf[m.URI] = map[int]int{}
		}
		for _, d := range m.Docs {
			stampsOf[m.URI][d.Stamp] = m.Docs[len(m.Docs)-1].Stamp
		}
	}
	readOut := map[*Msg]regOut{}
	defSeen := map[string]int{}
	for _, ev := range rec.Events {
		if ev.Dir != 'C' || ev.Msg.ID == nil {
			continue
		}
		m := ev.Msg
		in := replies[IDKey(m.ID)]
		if in == nil {
			if !died {
				rep.find("reply/missing/"+m.Kind, "request %s (%s) was never answered although the handler chain was drained", IDKey(m.ID), m.Kind)
			}
			continue
		}
		rep.count("replies_checked", 1)
		switch m.Kind {
		case "initialize":
			if in.Error != nil || !strings.Contains(string(in.Result), "capabilities") {
				rep.find("initialize/failed", "%s", ev.Body)
			}
			continue
		case "definition":
		default:
			if in.Error != nil {
				rep.count("error_replies_unknown_method", 1)
			}
			continue
		}
		out := regOut{unknown: true}
		if in.Error != nil {
			rep.count("definition_error_replies", 1)
			switch {
			case m.Cancelled && in.Error.Code == -32800:
				rep.count("definition_cancelled", 1)
			case m.Open == Closed:
				rep.count("definition_on_closed_rejected", 1)
				out = regOut{closed: true}
			case m.Open == MaybeOpen:
			default:
				valid, _ := cursorInfo(m.Cands[0], m.Line, m.Char)
				altInvalid := false
				for _, alt := range m.Cands[1:] {
					if v, _ := cursorInfo(alt, m.Line, m.Char); !v {
						altInvalid = true
					}
				}
				if valid && altInvalid {
					rep.find(sigMulti, "%s: definition at line %d char %d answered with %q; the position is valid in the last contentChanges entry of the preceding didChange (v%d) but not in its first entry",
						m.URI, m.Line, m.Char, in.Error.Message, m.Cands[0].Stamp)
				} else if strings.Contains(in.Error.Message, "is not opened") {
					out = regOut{closed: true}
					rep.find("definition/open-document-reported-as-not-opened", "%s line %d char %d: %s", m.URI, m.Line, m.Char, in.Error.Message)
				} else if valid {
					rep.find("definition/error-for-valid-position", "%s line %d char %d (UTF-16) is a valid position in the latest content (v%d) but the reply is an error: %s\nline: %q",
						m.URI, m.Line, m.Char, m.Cands[0].Stamp, in.Error.Message, lineOf(m.Cands[0], m.Line))
				} else {
					rep.count("definition_invalid_position_rejected", 1)
				}
			}
			readOut[m] = out
			continue
		}
		var locs []location
		if s := strings.TrimSpace(string(in.Result)); s != "" && s != "null" {
			if err := json.Unmarshal(in.Result, &locs); err != nil {
				rep.find("protocol/bad-definition-result", "%v: %s", err, in.Result)
				continue
			}
		}
		rep.count("definition_results", 1)
		if m.Cancelled {
			rep.count("definition_cancel_too_late", 1)
		}
		for _, l := range locs {
			if l.URI != m.URI {
				rep.find("definition/location-in-another-document", "asked %s, got a location in %s", m.URI, l.URI)
			}
		}
		if m.Open == Closed {
			if len(locs) > 0 {
				rep.find("definition/answered-on-closed-document", "%s is closed or was never opened, but a definition request was answered with %d location(s)", m.URI, len(locs))
			} else {
				rep.count("definition_on_closed_empty", 1)
			}
			readOut[m] = out
			continue
		}
		primary := m.Cands[0]
		// which versions of this document explain the reply (for the register history)
		if len(locs) > 0 {
			out = regOut{stamps: map[int]bool{}}
			for _, d := range docsOfURI[m.URI] {
				if explainLocations(d, m.Line, m.Char, locs, U16) || explainLocations(d, m.Line, m.Char, locs, Bytes) {
					out.stamps[stampsOf[m.URI][d.Stamp]] = true
				}
			}
			if len(out.stamps) == 0 {
				out = regOut{unknown: true} // reported below as a wrong answer; keep the register check independent
			}
		}
		readOut[m] = out
		valid, occ := cursorInfo(primary, m.Line, m.Char)
		if len(locs) == 0 {
			rep.count("definition_empty_results", 1)
			mustAnswer := valid && occ != nil && (occ.Role == RoleDecl || occ.Role == RoleRef) && primary.Kind == "synth" && m.Open == Open
			if mustAnswer {
				for _, e := range expected(m.URI, primary) {
					if e.NoOrigin {
						mustAnswer = false // syntax error: the tree may be partial
					}
				}
			}
			if mustAnswer {
				sig := "definition/empty-for-declared-symbol"
				if len(m.Cands) > 1 {
					sig = sigMulti // the server demonstrably holds the first entry; an empty answer is what that gives
				}
				rep.find(sig, "%s v%d line %d char %d (UTF-16) is on %q, which is declared in the document, but the reply is empty\nline: %q\n--- content ---\n%s",
					m.URI, primary.Stamp, m.Line, m.Char, occ.Name, lineOf(primary, m.Line), primary.Text)
			}
			continue
		}
		rep.count("definition_locations_checked", int64(len(locs)))
		// the same (uri, version number) was used before for another content, and a
		// definition was answered there (what a per-version cache would have kept)
		vk := fmt.Sprintf("%s#%d", m.URI, m.Version)
		if st, ok := defSeen[vk]; ok && st != primary.Stamp {
			rep.count("definition_after_version_reuse", 1)
		}
		defSeen[vk] = primary.Stamp
		if occ != nil && !isASCII(primary.Text[primary.LS[lineIndex(primary, occ.Off)]:occ.Off]) {
			rep.count("definition_cursor_after_nonascii", 1)
		}
		sig := ""
		switch {
		case explainLocations(primary, m.Line, m.Char, locs, U16):
			rep.count("definition_ok", 1)
			if occ != nil {
				rep.Distinct = append(rep.Distinct, fmt.Sprintf("def:%d:%s", hashStr(primary.Text), occ.Name))
			}
			nonASCIIBefore := false
			for _, l := range locs {
				if s, ok := OffsetOf(primary.Text, primary.LS, l.Range.Start.Line, l.Range.Start.Character, U16); ok {
					if !isASCII(primary.Text[primary.LS[l.Range.Start.Line]:s]) {
						nonASCIIBefore = true
					}
				}
			}
			if nonASCIIBefore {
				rep.count("definition_ok_after_nonascii", 1)
			}
		case explainLocations(primary, m.Line, m.Char, locs, Bytes):
			sig = "position/definition/byte-columns-not-utf16"
		default:
			// the first entry of a several-entries didChange explains it (checked before the
			// rune reading of the required content, which can coincide with it)
			for _, alt := range m.Cands[1:] {
				if explainLocations(alt, m.Line, m.Char, locs, U16) || explainLocations(alt, m.Line, m.Char, locs, Bytes) {
					sig = sigMulti
				}
			}
			if sig == "" && explainLocations(primary, m.Line, m.Char, locs, Runes) {
				sig = "position/definition/rune-columns-not-utf16"
			}
			if sig == "" {
				for _, d := range docsOfURI[m.URI] {
					if d != primary && (explainLocations(d, m.Line, m.Char, locs, U16) || explainLocations(d, m.Line, m.Char, locs, Bytes)) {
						sig = "definition/stale-content-of-another-version"
					}
				}
			}
			if sig == "" {
				switch {
				case !valid:
					sig = "definition/locations-for-invalid-position"
				case occ == nil:
					sig = "definition/locations-without-identifier-under-cursor"
				default:
					sig = "definition/locations-do-not-address-identifiers-of-that-name"
				}
			}
		}
		if sig != "" {
			name := "<none>"
			if occ != nil {
				name = occ.Name
			}
			rep.find(sig, "%s v%d: definition at line %d char %d (UTF-16; identifier under the cursor: %s)\nline: %q\nreply locations decoded in the latest content:\n%s--- content ---\n%s",
				m.URI, primary.Stamp, m.Line, m.Char, name, lineOf(primary, m.Line), describeLocs(primary, locs), primary.Text)
		}
	}

	// ---- (4) per-document register histories
	type uriOps struct {
		ops  []porcupine.Operation
		skip bool
	}
	byURI := map[string]*uriOps{}
	get := func(u string) *uriOps {
		if byURI[u] == nil {
			byURI[u] = &uriOps{}
		}
		return byURI[u]
	}
	// acknowledgement of a message without an answer: the first reply to a later request
	var replyEvents []struct{ reqSeq, seq int64 }
	for k, s := range replySeq {
		if m := sentByID[k]; m != nil {
			replyEvents = append(replyEvents, struct{ reqSeq, seq int64 }{m.Seq, s})
		}
	}
	ackAfter := func(seq int64) int64 {
		best := infinity
		for _, re := range replyEvents {
			if re.reqSeq > seq && re.seq < best {
				best = re.seq
			}
		}
		return best
	}
	for _, ev := range rec.Events {
		if ev.Dir != 'C' {
			continue
		}
		m := ev.Msg
		switch m.Kind {
		case "open", "change":
			u := get(m.URI)
			if m.Optional || len(m.Docs) == 0 {
				u.skip = true // not a defined register operation
				continue
			}
			ret, ok := pubSeq[m]
			if !ok {
				ret = infinity
			}
			u.ops = append(u.ops, porcupine.Operation{ClientId: 0, Input: regIn{write: true, stamp: m.Docs[len(m.Docs)-1].Stamp}, Call: m.Seq, Output: regOut{}, Return: ret})
		case "close":
			u := get(m.URI)
			u.ops = append(u.ops, porcupine.Operation{ClientId: 0, Input: regIn{write: true, stamp: 0}, Call: m.Seq, Output: regOut{}, Return: ackAfter(m.Seq)})
		case "definition":
			out, ok := readOut[m]
			if !ok {
				continue
			}
			u := get(m.URI)
			u.ops = append(u.ops, porcupine.Operation{ClientId: 0, Input: regIn{}, Call: m.Seq, Output: out, Return: replySeq[IDKey(m.ID)]})
			if !out.unknown {
				rep.count("register_reads_identified", 1)
			}
		}
	}
	var uris []string
	for u := range byURI {
		uris = append(uris, u)
	}
	sort.Strings(uris)
	for _, u := range uris {
		uo := byURI[u]
		if uo.skip {
			rep.count("register_histories_skipped_undefined_ops", 1)
			continue
		}
		for i := range uo.ops {
			uo.ops[i].ClientId = i // every message is its own logical client: only real-time order constrains
		}
		switch porcupine.CheckOperationsTimeout(registerModel, uo.ops, 20*time.Second) {
		case porcupine.Ok:
			rep.count("register_histories_linearizable", 1)
			rep.count("register_ops_checked", int64(len(uo.ops)))
		case porcupine.Illegal:
			var b strings.Builder
			for _, op := range uo.ops {
				fmt.Fprintf(&b, "  [%d,%d] %+v -> %+v\n", op.Call, op.Return, op.Input, op.Output)
			}
			rep.find("register/not-linearizable", "the open/change/close/definition history of %s is not a history of a last-writer-wins register:\n%s", u, b.String())
		default:
			rep.count("porcupine_timeout", 1)
		}
	}
	return rep
}

func msgBytes(m *Msg) int {
	if len(m.Docs) == 0 {
		return 0
	}
	return len(m.Docs[len(m.Docs)-1].Text)
}

func lineIndex(d *Doc, off int) int {
	l, _ := PosOf(d.Text, d.LS, off, Bytes)
	return l
}

func contains(v []string, s string) bool {
	for _, x := range v {
		if x == s {
			return true
		}
	}
	return false
}

func hashStr(s string) uint64 {
	var h uint64 = 14695981039346656037
	for i := 0; i < len(s); i++ {
		h ^= uint64(s[i])
		h *= 1099511628211
	}
	return h
}

func tailStr(s string, n int) string {
	if len(s) > n {
		return s[len(s)-n:]
	}
	return s
}
