package lspc

import (
	"fmt"
	"math/rand"
	"os"
	"path/filepath"
	"regexp"
	"sort"
	"strings"

	"github.com/inspirer/textmapper/parsers/tm"
	"github.com/inspirer/textmapper/parsers/tm/token"
)

// Role of an identifier occurrence, as far as the generator knows it.
type Role int

const (
	RoleOther         Role = iota // unknown role (corpus text, quoted terminals, option names)
	RoleDecl                      // name of a lexeme or nonterminal declaration
	RoleRef                       // reference in a rule to a symbol declared in the same document
	RoleRefUndeclared             // reference to a symbol that is not declared
)

// Occ is one identifier occurrence in a document (byte offsets).
type Occ struct {
	Off, End int
	Name     string
	Role     Role
}

// Doc is one version of a document as the generator knows it.
type Doc struct {
	Text  string
	Stamp int // version stamp; every stamped identifier ends in _v<Stamp>
	Occs  []Occ
	Kind  string // "synth" or "corpus:<file>" or "raw"
	LS    []int
	ASCII bool
	// SyntaxBroken is set by the generator when it injected a syntax error on purpose.
	SyntaxBroken bool
}

func (d *Doc) finish() *Doc {
	d.LS = LineStarts(d.Text)
	d.ASCII = isASCII(d.Text)
	sort.Slice(d.Occs, func(i, j int) bool { return d.Occs[i].Off < d.Occs[j].Off })
	return d
}

// OccAt returns the occurrence that covers off (inclusive of its end), or nil.
func (d *Doc) OccAt(off int) *Occ {
	for i := range d.Occs {
		o := &d.Occs[i]
		if o.Off <= off && off <= o.End {
			return o
		}
		if o.Off > off {
			break
		}
	}
	return nil
}

// FindOcc returns the occurrence spanning exactly [off, end), or nil.
func (d *Doc) FindOcc(off, end int) *Occ {
	i := sort.Search(len(d.Occs), func(i int) bool { return d.Occs[i].Off >= off })
	if i < len(d.Occs) && d.Occs[i].Off == off && d.Occs[i].End == end {
		return &d.Occs[i]
	}
	return nil
}

// ---------------------------------------------------------------------------
// synthetic grammars

var decoASCII = []string{"", "  ", "\t", "/* note */ ", "    "}
var decoWide = []string{"", "  ", "/* é */ ", "/* 😀 */ ", "/* é😀中 */ ", "/* 𝒳𝒴 Ж */ ", "/*😀*/"}

var quotedASCII = []string{"'+'", "'('", "'kw'"}
var quotedWide = []string{"'é'", "'😀'", "'→中'", "'a😀b'"}

type synTok struct {
	Base    string
	Quoted  string // non-empty: a quoted terminal, not stamped
	Re      string
	Class   bool
	TwoLine bool
	Deco    int
}

type synSym struct {
	Kind int // 0 token, 1 nonterminal, 2 undefined reference
	Idx  int
	Name string // for undefined references
}

type synNT struct {
	Base  string
	Alts  [][]synSym
	Deco  int
	Multi bool // one alternative per line
}

// SynSpec is the abstract form of a synthetic grammar; Render turns it into a
// version-stamped document.
type SynSpec struct {
	Wide      bool // non-ASCII decorations allowed
	Toks      []synTok
	NTs       []synNT
	StrOpt    string // string literal on the option line ("" = no such line)
	BadOption bool   // unknown option after the string literal, on the same line
	BadInput  bool   // %input names an undeclared nonterminal
	SyntaxErr int    // 0 none, 1 stray tokens in the lexer section, 2 rule without terminator at the end
	CRLF      bool
	Trailer   int // 0 newline at the end, 1 none, 2 non-ASCII comment without newline
}

var tokBases = []string{"ident", "num", "op", "kw", "str", "ws", "sep", "lit", "tick", "dash"}
var ntBases = []string{"root", "list", "item", "expr", "term", "decl", "body", "tail", "opt", "seq"}

func (s *SynSpec) decos() []string {
	if s.Wide {
		return decoWide
	}
	return decoASCII
}

// NewSynSpec creates a random synthetic grammar.
func NewSynSpec(r *rand.Rand, wide bool) *SynSpec {
	s := &SynSpec{Wide: wide}
	nt := 2 + r.Intn(5)
	for i := 0; i < nt; i++ {
		s.Toks = append(s.Toks, synTok{Base: tokBases[i], Re: fmt.Sprintf("/%c+/", 'a'+i), Deco: s.pickDeco(r)})
	}
	qs := append([]string{}, quotedASCII...)
	if wide {
		qs = append(append([]string{}, quotedWide...), quotedASCII[0])
	}
	r.Shuffle(len(qs), func(i, j int) { qs[i], qs[j] = qs[j], qs[i] })
	for i := 0; i < 1+r.Intn(3) && i < len(qs); i++ {
		inner := qs[i][1 : len(qs[i])-1]
		s.Toks = append(s.Toks, synTok{Quoted: qs[i], Re: "/" + regexp.QuoteMeta(inner) + "/", Deco: s.pickDeco(r)})
	}
	nn := 2 + r.Intn(4)
	for i := 0; i < nn; i++ {
		s.NTs = append(s.NTs, synNT{Base: ntBases[i], Deco: s.pickDeco(r), Multi: r.Intn(4) == 0})
	}
	for i := range s.NTs {
		s.NTs[i].Alts = s.randAlts(r, i)
	}
	if r.Intn(3) == 0 {
		s.StrOpt = "plain"
		if wide {
			s.StrOpt = []string{"é", "😀", "né😀e", "中文"}[r.Intn(4)]
		}
	}
	s.CRLF = r.Intn(8) == 0
	s.Trailer = r.Intn(6) / 2 % 3
	if !wide && s.Trailer == 2 {
		s.Trailer = 0
	}
	for k := r.Intn(3); k > 0; k-- {
		s.injectError(r)
	}
	return s
}

func (s *SynSpec) pickDeco(r *rand.Rand) int {
	if r.Intn(2) == 0 {
		return 0
	}
	return r.Intn(len(s.decos()))
}

func (s *SynSpec) randAlts(r *rand.Rand, self int) [][]synSym {
	var alts [][]synSym
	for a := 0; a < 1+r.Intn(3); a++ {
		var alt []synSym
		for k := 0; k < 1+r.Intn(4); k++ {
			// prefer quoted terminals in front of plain identifiers
			switch x := r.Intn(10); {
			case x < 5:
				alt = append(alt, synSym{Kind: 0, Idx: r.Intn(len(s.Toks))})
			case x < 9 && self+1 < len(s.NTs):
				alt = append(alt, synSym{Kind: 1, Idx: self + 1 + r.Intn(len(s.NTs)-self-1)})
			case x < 9:
				alt = append(alt, synSym{Kind: 0, Idx: r.Intn(len(s.Toks))})
			default:
				alt = append(alt, synSym{Kind: 1, Idx: r.Intn(len(s.NTs))})
			}
		}
		alts = append(alts, alt)
	}
	return alts
}

func (s *SynSpec) injectError(r *rand.Rand) {
	switch r.Intn(8) {
	case 0, 1: // undefined reference at the end of an alternative (after whatever precedes it on the line)
		n := &s.NTs[r.Intn(len(s.NTs))]
		a := r.Intn(len(n.Alts))
		n.Alts[a] = append(n.Alts[a], synSym{Kind: 2, Name: []string{"undef", "missing", "nowhere"}[r.Intn(3)]})
	case 2: // class lexeme without specializations, possibly spanning two lines
		t := &s.Toks[r.Intn(len(s.Toks))]
		if t.Quoted == "" {
			t.Class = true
			t.TwoLine = r.Intn(2) == 0
		}
	case 3:
		if s.StrOpt == "" {
			s.StrOpt = "x"
			if s.Wide {
				s.StrOpt = "é😀"
			}
		}
		s.BadOption = true
	case 4: // identical rules
		i := r.Intn(len(s.Toks))
		if s.Toks[i].Quoted == "" {
			s.Toks = append(s.Toks, synTok{Base: "dup", Re: s.Toks[i].Re, Deco: s.pickDeco(r)})
		}
	case 5:
		s.BadInput = true
	case 6:
		s.SyntaxErr = 1 + r.Intn(2)
	case 7: // wide decoration in front of something
		s.NTs[r.Intn(len(s.NTs))].Deco = r.Intn(len(s.decos()))
	}
}

// Mutate derives the abstract grammar of the next version.
func (s *SynSpec) Mutate(r *rand.Rand) *SynSpec {
	n := *s
	n.Toks = append([]synTok(nil), s.Toks...)
	n.NTs = make([]synNT, len(s.NTs))
	for i, nt := range s.NTs {
		n.NTs[i] = nt
		n.NTs[i].Alts = make([][]synSym, len(nt.Alts))
		for j, a := range nt.Alts {
			n.NTs[i].Alts[j] = append([]synSym(nil), a...)
		}
	}
	switch r.Intn(8) {
	case 0, 1: // same grammar, new stamp only
	case 2:
		n.injectError(r)
	case 3: // repair
		n.SyntaxErr, n.BadInput, n.BadOption = 0, false, false
		for i := range n.Toks {
			n.Toks[i].Class = false
		}
	case 4:
		for i := range n.NTs {
			n.NTs[i].Deco = n.pickDeco(r)
		}
		for i := range n.Toks {
			n.Toks[i].Deco = n.pickDeco(r)
		}
	case 5:
		i := r.Intn(len(n.NTs))
		n.NTs[i].Alts = n.randAlts(r, i)
	case 6:
		if len(n.NTs) < len(ntBases) {
			n.NTs = append(n.NTs, synNT{Base: ntBases[len(n.NTs)], Deco: n.pickDeco(r)})
			n.NTs[len(n.NTs)-1].Alts = n.randAlts(r, len(n.NTs)-1)
		}
	case 7:
		n.CRLF = !n.CRLF && r.Intn(2) == 0
		n.Trailer = r.Intn(3)
		if !n.Wide && n.Trailer == 2 {
			n.Trailer = 1
		}
	}
	return &n
}

type docWriter struct {
	b    strings.Builder
	occs []Occ
}

func (w *docWriter) s(text string) { w.b.WriteString(text) }
func (w *docWriter) id(name string, role Role) {
	off := w.b.Len()
	w.b.WriteString(name)
	w.occs = append(w.occs, Occ{Off: off, End: off + len(name), Name: name, Role: role})
}

// Render produces the document for a version stamp. The layout (number of
// leading lines) depends on the stamp so that the same cursor position addresses
// different things in different versions.
func (s *SynSpec) Render(stamp int) *Doc {
	w := &docWriter{}
	nl := "\n"
	if s.CRLF {
		nl = "\r\n"
	}
	st := func(base string) string { return fmt.Sprintf("%s_v%d", base, stamp) }
	for i := 0; i <= stamp*7%5; i++ {
		if s.Wide && i%2 == 1 {
			w.s(fmt.Sprintf("# v%d – révision 😀%s", stamp, nl))
		} else {
			w.s(fmt.Sprintf("# v%d%s", stamp, nl))
		}
	}
	w.s("language synth(go);" + nl + nl)
	w.s(`lang = "synth"` + nl)
	if s.StrOpt != "" {
		w.s(`package = "` + s.StrOpt + `"`)
		if s.BadOption {
			w.s(" ")
			w.id(st("badOption"), RoleOther)
			w.s(" = true")
		}
		w.s(nl)
	}
	w.s(nl + ":: lexer" + nl + nl)
	decos := s.decos()
	for i, t := range s.Toks {
		w.s(decos[t.Deco%len(decos)])
		if t.Quoted != "" {
			w.id(t.Quoted, RoleOther)
		} else {
			w.id(st(t.Base), RoleDecl)
		}
		w.s(":")
		if t.TwoLine {
			w.s(nl + "   ")
		}
		w.s(" " + t.Re)
		if t.Class {
			w.s("  (class)")
		}
		w.s(nl)
		if s.SyntaxErr == 1 && i == len(s.Toks)/2 {
			w.s(decos[t.Deco%len(decos)] + "; ;" + nl)
		}
	}
	w.s(nl + ":: parser" + nl + nl)
	w.s("%input ")
	if s.BadInput {
		w.id(st("noSuchInput"), RoleRefUndeclared)
	} else {
		w.id(st(s.NTs[0].Base), RoleRef)
	}
	w.s(";" + nl + nl)
	for i, n := range s.NTs {
		w.s(decos[n.Deco%len(decos)])
		w.id(st(n.Base), RoleDecl)
		w.s(":")
		for ai, alt := range n.Alts {
			if ai > 0 {
				if n.Multi {
					w.s(nl + "  |")
				} else {
					w.s(" |")
				}
			}
			for _, sym := range alt {
				w.s(" ")
				switch sym.Kind {
				case 0:
					if sym.Idx >= len(s.Toks) {
						w.id(st(s.Toks[0].Base), RoleRef)
					} else if t := s.Toks[sym.Idx]; t.Quoted != "" {
						w.id(t.Quoted, RoleOther)
					} else {
						w.id(st(t.Base), RoleRef)
					}
				case 1:
					if sym.Idx < len(s.NTs) {
						w.id(st(s.NTs[sym.Idx].Base), RoleRef)
					} else {
						w.id(st(s.NTs[0].Base), RoleRef)
					}
				default:
					w.id(st(sym.Name), RoleRefUndeclared)
				}
			}
		}
		if s.SyntaxErr == 2 && i == len(s.NTs)-1 {
			w.s(nl)
			break
		}
		w.s(" ;" + nl)
	}
	text := w.b.String()
	switch s.Trailer {
	case 1:
		text = strings.TrimRight(text, "\r\n")
	case 2:
		text += "# fin é😀"
	}
	d := &Doc{Text: text, Stamp: stamp, Occs: w.occs, Kind: "synth", SyntaxBroken: s.SyntaxErr != 0}
	// occurrences beyond a trimmed end cannot exist (only newlines are trimmed)
	return d.finish()
}

// ---------------------------------------------------------------------------
// corpus grammars

// CorpusFile is one grammar of the repository, used as raw material.
type CorpusFile struct {
	Name string
	Text string
}

// LoadCorpus reads parsers/*/*.tm and compiler/testdata/* below repo, sorted by name.
// The «» markers of the compiler's test data are removed.
func LoadCorpus(repo string) []CorpusFile {
	var names []string
	for _, g := range []string{"parsers/*/*.tm", "compiler/testdata/*"} {
		m, _ := filepath.Glob(filepath.Join(repo, g))
		names = append(names, m...)
	}
	sort.Strings(names)
	var ret []CorpusFile
	for _, n := range names {
		b, err := os.ReadFile(n)
		if err != nil {
			continue
		}
		t := strings.NewReplacer("«", "", "»", "").Replace(string(b))
		rel, _ := filepath.Rel(repo, n)
		ret = append(ret, CorpusFile{Name: rel, Text: t})
	}
	return ret
}

var identRE = regexp.MustCompile(`^[a-zA-Z_][a-zA-Z_\-0-9]*$`)

type rawTok struct {
	t        token.Type
	off, end int
}

func lexAll(text string) []rawTok {
	var l tm.Lexer
	l.Init(text)
	var ret []rawTok
	for {
		t := l.Next()
		if t == token.EOI {
			break
		}
		s, e := l.Pos()
		ret = append(ret, rawTok{t, s, e})
		if len(ret) > 1<<20 {
			break
		}
	}
	return ret
}

// CorpusDoc derives a version-stamped document from a corpus grammar: every
// plain identifier after ":: lexer" gets the suffix _v<stamp>; `shift` leading
// comment lines depend on the stamp; when wide, comments with non-ASCII text are
// inserted at the start of some lines that begin with a token (so that they
// precede the identifiers and error sites of those lines).
func CorpusDoc(f CorpusFile, stamp int, r *rand.Rand, wide bool) *Doc {
	toks := lexAll(f.Text)
	lexerAt := -1
	for i := 0; i+1 < len(toks); i++ {
		if toks[i].t == token.COLONCOLON && f.Text[toks[i+1].off:toks[i+1].end] == "lexer" {
			lexerAt = toks[i+1].end
			break
		}
	}
	// lines whose first non-blank character starts a token
	tokStart := map[int]bool{}
	for _, t := range toks {
		tokStart[t.off] = true
	}
	ls := LineStarts(f.Text)
	insertAt := map[int]string{}
	if wide {
		for _, p := range ls {
			q := p
			for q < len(f.Text) && (f.Text[q] == ' ' || f.Text[q] == '\t') {
				q++
			}
			if lexerAt >= 0 && q > lexerAt && tokStart[q] && r.Intn(3) == 0 {
				insertAt[q] = decoWide[2+r.Intn(len(decoWide)-2)]
			}
		}
	}
	suffix := fmt.Sprintf("_v%d", stamp)
	var b strings.Builder
	var occs []Occ
	for i := 0; i <= stamp*7%5; i++ {
		if wide && i%2 == 1 {
			fmt.Fprintf(&b, "# v%d – révision 😀\n", stamp)
		} else {
			fmt.Fprintf(&b, "# v%d\n", stamp)
		}
	}
	prev := 0
	for _, t := range toks {
		if t.off < prev {
			continue
		}
		b.WriteString(f.Text[prev:t.off])
		if ins, ok := insertAt[t.off]; ok {
			b.WriteString(ins)
		}
		text := f.Text[t.off:t.end]
		switch {
		case t.t == token.ID && lexerAt >= 0 && t.off > lexerAt && text != "eoi" && text != "invalid_token":
			off := b.Len()
			b.WriteString(text + suffix)
			occs = append(occs, Occ{Off: off, End: b.Len(), Name: text + suffix})
		case t.t == token.QUOTED_ID || t.t == token.SCON || identRE.MatchString(text):
			off := b.Len()
			b.WriteString(text)
			occs = append(occs, Occ{Off: off, End: b.Len(), Name: text})
		default:
			b.WriteString(text)
		}
		prev = t.end
	}
	b.WriteString(f.Text[prev:])
	d := &Doc{Text: b.String(), Stamp: stamp, Occs: occs, Kind: "corpus:" + f.Name}
	return d.finish()
}

// BigDoc is a valid grammar with `rules` keyword lexemes and one nonterminal that
// lists them all. When padTo > 0 a trailing comment brings the text to exactly
// padTo bytes (if it is shorter).
func BigDoc(stamp, rules, padTo int, wide bool) *Doc {
	w := &docWriter{}
	w.s(fmt.Sprintf("# v%d\nlanguage big(go);\n\n:: lexer\n\n", stamp))
	name := func(i int) string { return fmt.Sprintf("kw%04d_v%d", i, stamp) }
	for i := 0; i < rules; i++ {
		if wide && i%97 == 3 {
			w.s("/* é😀 */ ")
		}
		w.id(name(i), RoleDecl)
		w.s(fmt.Sprintf(": /kw%04d/\n", i))
	}
	w.s("\n:: parser\n\n%input ")
	w.id(fmt.Sprintf("input_v%d", stamp), RoleRef)
	w.s(";\n\n")
	w.id(fmt.Sprintf("input_v%d", stamp), RoleDecl)
	w.s(": ")
	w.id(fmt.Sprintf("item_v%d", stamp), RoleRef)
	w.s("+ ;\n")
	w.id(fmt.Sprintf("item_v%d", stamp), RoleDecl)
	w.s(":")
	for i := 0; i < rules; i++ {
		if i > 0 {
			w.s(" |")
		}
		if i%8 == 7 {
			w.s("\n   ")
		}
		w.s(" ")
		w.id(name(i), RoleRef)
	}
	w.s(" ;\n")
	text := w.b.String()
	if n := padTo - len(text); n > 2 {
		text += "#" + strings.Repeat("x", n-2) + "\n"
	}
	return (&Doc{Text: text, Stamp: stamp, Occs: w.occs, Kind: "big"}).finish()
}

// RawDoc wraps arbitrary text; identifier occurrences are what the tm lexer sees.
func RawDoc(text string, stamp int) *Doc {
	d := &Doc{Text: text, Stamp: stamp, Kind: "raw", SyntaxBroken: true}
	for _, t := range lexAll(text) {
		s := text[t.off:t.end]
		if t.t == token.QUOTED_ID || t.t == token.SCON || identRE.MatchString(s) {
			d.Occs = append(d.Occs, Occ{Off: t.off, End: t.end, Name: s})
		}
	}
	return d.finish()
}
