package reflalr

import (
	"fmt"
	"math/rand"
	"strings"

	"github.com/inspirer/textmapper/lalr"
)

// ExprGrammar is an operator grammar
//
//	S: E | S ';' E          (optional list layer)
//	E: E bin E | pre E [%prec p] | E post | '(' E ')' | atom
//
// together with the data an operator-precedence reference needs.
type ExprGrammar struct {
	G        *lalr.Grammar
	E        int
	List     bool // input is S (with ';' separators), otherwise E
	Semi     int
	ListRule [2]int // S: E ; S: S ; E
	LParen   int
	RParen   int
	Paren    int         // rule E: ( E )
	Atom     map[int]int // terminal -> rule
	Bin      map[int]int // terminal -> rule E: E t E
	Pre      map[int]int // terminal -> rule E: t E
	Post     map[int]int // terminal -> rule E: E t
	Group    map[int]int // terminal -> precedence group (higher binds tighter)
	Assoc    []lalr.Associativity
	Undecl   int // operator terminals without precedence
	NonAssoc int // operator terminals in nonassoc groups
}

// RandomExprGrammar builds a random operator grammar with 1-5 precedence groups.
func RandomExprGrammar(r *rand.Rand) *ExprGrammar {
	x := &ExprGrammar{Atom: map[int]int{}, Bin: map[int]int{}, Pre: map[int]int{}, Post: map[int]int{}, Group: map[int]int{}}
	g := &lalr.Grammar{Origin: Node(0)}
	g.Symbols = []string{"eoi"}
	term := func(name string) int {
		g.Symbols = append(g.Symbols, name)
		return len(g.Symbols) - 1
	}
	nAtoms := 1 + r.Intn(2)
	var atoms []int
	for i := 0; i < nAtoms; i++ {
		atoms = append(atoms, term([]string{"id", "num"}[i]))
	}
	x.LParen, x.RParen = term("("), term(")")
	nBin := 1 + r.Intn(8)
	var bins, pres, posts, pseudo []int
	for i := 0; i < nBin; i++ {
		bins = append(bins, term(fmt.Sprintf("b%d", i)))
	}
	nPre := r.Intn(4)
	for i := 0; i < nPre; i++ {
		if r.Intn(3) == 0 {
			pres = append(pres, bins[r.Intn(len(bins))]) // prefix use of a binary operator (like unary minus)
		} else {
			pres = append(pres, term(fmt.Sprintf("p%d", i)))
		}
	}
	nPost := r.Intn(3)
	for i := 0; i < nPost; i++ {
		posts = append(posts, term(fmt.Sprintf("q%d", i)))
	}
	nPseudo := r.Intn(3)
	for i := 0; i < nPseudo; i++ {
		pseudo = append(pseudo, term(fmt.Sprintf("PREC%d", i)))
	}
	x.List = r.Intn(3) == 0
	if x.List {
		x.Semi = term(";")
	}
	g.Terminals = len(g.Symbols)
	g.Symbols = append(g.Symbols, "E")
	x.E = len(g.Symbols) - 1
	S := -1
	if x.List {
		g.Symbols = append(g.Symbols, "S")
		S = len(g.Symbols) - 1
	}

	// precedence groups over the operator terminals
	ops := map[int]bool{}
	var opList []int
	for _, l := range [][]int{bins, pres, posts, pseudo} {
		for _, t := range l {
			if !ops[t] {
				ops[t] = true
				opList = append(opList, t)
			}
		}
	}
	nGroups := 1 + r.Intn(5)
	groups := make([]lalr.Precedence, nGroups)
	for i := range groups {
		groups[i].Associativity = lalr.Associativity(r.Intn(3))
	}
	undeclChance := 0
	if r.Intn(4) == 0 {
		undeclChance = 15
	}
	for _, t := range opList {
		if r.Intn(100) < undeclChance {
			x.Undecl++
			continue
		}
		gi := r.Intn(nGroups)
		groups[gi].Terminals = append(groups[gi].Terminals, lalr.Sym(t))
		x.Group[t] = gi
		if groups[gi].Associativity == lalr.NonAssoc {
			x.NonAssoc++
		}
	}
	// drop empty groups (keeps relative order)
	remap := map[int]int{}
	for i, p := range groups {
		if len(p.Terminals) > 0 {
			remap[i] = len(g.Precedence)
			g.Precedence = append(g.Precedence, p)
			x.Assoc = append(x.Assoc, p.Associativity)
		}
	}
	for t, gi := range x.Group {
		x.Group[t] = remap[gi]
	}

	type protoRule struct {
		lhs  int
		rhs  []int
		prec int
		kind byte
		tok  int
	}
	var protos []protoRule
	for _, t := range atoms {
		protos = append(protos, protoRule{x.E, []int{t}, 0, 'a', t})
	}
	protos = append(protos, protoRule{x.E, []int{x.LParen, x.E, x.RParen}, 0, '(', 0})
	for _, t := range bins {
		protos = append(protos, protoRule{x.E, []int{x.E, t, x.E}, 0, 'b', t})
	}
	seenPre := map[int]bool{}
	for _, t := range pres {
		if seenPre[t] {
			continue
		}
		seenPre[t] = true
		prec := 0
		if r.Intn(2) == 0 && len(opList) > 0 {
			prec = opList[r.Intn(len(opList))]
		}
		protos = append(protos, protoRule{x.E, []int{t, x.E}, prec, 'p', t})
	}
	for _, t := range posts {
		protos = append(protos, protoRule{x.E, []int{x.E, t}, 0, 'q', t})
	}
	if x.List {
		protos = append(protos, protoRule{S, []int{x.E}, 0, 's', 0}, protoRule{S, []int{S, x.Semi, x.E}, 0, 'S', 0})
	}
	r.Shuffle(len(protos), func(i, j int) { protos[i], protos[j] = protos[j], protos[i] })
	for i, p := range protos {
		rule := lalr.Rule{LHS: lalr.Sym(p.lhs), Precedence: lalr.Sym(p.prec), Type: -1, Origin: Node(i + 1)}
		for _, s := range p.rhs {
			rule.RHS = append(rule.RHS, lalr.Sym(s))
		}
		g.Rules = append(g.Rules, rule)
		switch p.kind {
		case 'a':
			x.Atom[p.tok] = i
		case '(':
			x.Paren = i
		case 'b':
			x.Bin[p.tok] = i
		case 'p':
			x.Pre[p.tok] = i
		case 'q':
			x.Post[p.tok] = i
		case 's':
			x.ListRule[0] = i
		case 'S':
			x.ListRule[1] = i
		}
	}
	if x.List {
		g.Inputs = []lalr.Input{{Nonterminal: lalr.Sym(S), Eoi: true}}
	} else {
		g.Inputs = []lalr.Input{{Nonterminal: lalr.Sym(x.E), Eoi: true}}
	}
	x.G = g
	return x
}

// rulePrecGroup returns the precedence group of a rule: its %prec terminal, else
// its last terminal; ok=false when that terminal has no declared precedence.
func (x *ExprGrammar) rulePrecGroup(rule int) (int, bool) {
	r := x.G.Rules[rule]
	t := int(r.Precedence)
	if t == 0 {
		for i := len(r.RHS) - 1; i >= 0; i-- {
			if s := int(r.RHS[i]); s > 0 && s < x.G.Terminals {
				t = s
				break
			}
		}
	}
	if t == 0 {
		return 0, false
	}
	gi, ok := x.Group[t]
	return gi, ok
}

const (
	decShift = iota
	decReduce
	decError
)

// decide is the documented resolution between reducing the pending rule ctx and
// shifting the operator t.
func (x *ExprGrammar) decide(ctx, t int) int {
	if ctx < 0 {
		return decShift
	}
	rg, ok1 := x.rulePrecGroup(ctx)
	tg, ok2 := x.Group[t]
	if !ok1 || !ok2 {
		return decShift // undecidable: reported as a conflict, defaults to shift
	}
	switch {
	case rg > tg:
		return decReduce
	case rg < tg:
		return decShift
	}
	switch x.Assoc[tg] {
	case lalr.Left:
		return decReduce
	case lalr.Right:
		return decShift
	}
	return decError
}

// RefParse is the operator-precedence reference: it returns the tree (in the
// format of Tree with rule numbers / token numbers) or the index of the token at
// which the input is rejected.
func (x *ExprGrammar) RefParse(toks []int) (tree string, ok bool, errTok int) {
	pos := 0
	peek := func() int {
		if pos < len(toks) {
			return toks[pos]
		}
		return 0
	}
	failed := false
	fail := func() string {
		if !failed {
			failed = true
			errTok = pos
		}
		return ""
	}
	leaf := func(t int) string { return fmt.Sprintf("t%d", t) }
	var parseExpr func(ctx int) string
	parseExpr = func(ctx int) string {
		var left string
		t := peek()
		if rule, isAtom := x.Atom[t]; isAtom && t != 0 {
			pos++
			left = fmt.Sprintf("(r%d %s)", rule, leaf(t))
		} else if t == x.LParen {
			pos++
			inner := parseExpr(-1)
			if failed {
				return ""
			}
			if peek() != x.RParen {
				return fail()
			}
			pos++
			left = fmt.Sprintf("(r%d %s %s %s)", x.Paren, leaf(x.LParen), inner, leaf(x.RParen))
		} else if rule, isPre := x.Pre[t]; isPre && t != 0 {
			pos++
			operand := parseExpr(rule)
			if failed {
				return ""
			}
			left = fmt.Sprintf("(r%d %s %s)", rule, leaf(t), operand)
		} else {
			return fail()
		}
		for {
			t := peek()
			if t == 0 {
				return left
			}
			if rule, isBin := x.Bin[t]; isBin {
				switch x.decide(ctx, t) {
				case decReduce:
					return left
				case decError:
					return fail()
				}
				pos++
				right := parseExpr(rule)
				if failed {
					return ""
				}
				left = fmt.Sprintf("(r%d %s %s %s)", rule, left, leaf(t), right)
				continue
			}
			if rule, isPost := x.Post[t]; isPost {
				switch x.decide(ctx, t) {
				case decReduce:
					return left
				case decError:
					return fail()
				}
				pos++
				left = fmt.Sprintf("(r%d %s %s)", rule, left, leaf(t))
				continue
			}
			return left
		}
	}
	if !x.List {
		tree = parseExpr(-1)
		if !failed && pos != len(toks) {
			fail()
		}
		return tree, !failed, errTok
	}
	e := parseExpr(-1)
	if failed {
		return "", false, errTok
	}
	tree = fmt.Sprintf("(r%d %s)", x.ListRule[0], e)
	for pos < len(toks) {
		if peek() != x.Semi {
			fail()
			return "", false, errTok
		}
		pos++
		e := parseExpr(-1)
		if failed {
			return "", false, errTok
		}
		tree = fmt.Sprintf("(r%d %s %s %s)", x.ListRule[1], tree, leaf(x.Semi), e)
	}
	return tree, true, 0
}

// RandomExpr generates a random token string: mostly well-formed expressions
// (random shapes, so that precedence decides the tree), with chains of a single
// operator and nonassoc chains among them.
func (x *ExprGrammar) RandomExpr(r *rand.Rand, maxOps int) []int {
	var atoms, bins, pres, posts []int
	for t := 1; t < x.G.Terminals; t++ {
		if _, ok := x.Atom[t]; ok {
			atoms = append(atoms, t)
		}
		if _, ok := x.Bin[t]; ok {
			bins = append(bins, t)
		}
		if _, ok := x.Pre[t]; ok {
			pres = append(pres, t)
		}
		if _, ok := x.Post[t]; ok {
			posts = append(posts, t)
		}
	}
	var out []int
	var operand func(depth int)
	var expr func(depth, nops int)
	operand = func(depth int) {
		for len(pres) > 0 && r.Intn(5) == 0 {
			out = append(out, pres[r.Intn(len(pres))])
		}
		if depth > 0 && r.Intn(6) == 0 {
			out = append(out, x.LParen)
			expr(depth-1, r.Intn(3))
			out = append(out, x.RParen)
		} else {
			out = append(out, atoms[r.Intn(len(atoms))])
		}
		for len(posts) > 0 && r.Intn(6) == 0 {
			out = append(out, posts[r.Intn(len(posts))])
		}
	}
	expr = func(depth, nops int) {
		operand(depth)
		same := -1
		if r.Intn(4) == 0 {
			same = bins[r.Intn(len(bins))] // chain of one operator: associativity decides
		}
		for i := 0; i < nops; i++ {
			op := same
			if op < 0 {
				op = bins[r.Intn(len(bins))]
			}
			out = append(out, op)
			operand(depth)
		}
	}
	n := 1
	if x.List {
		n = 1 + r.Intn(3)
	}
	for i := 0; i < n; i++ {
		if i > 0 {
			out = append(out, x.Semi)
		}
		expr(2, r.Intn(maxOps+1))
	}
	return out
}

// TokString prints a token string with symbol names.
func TokString(g *lalr.Grammar, toks []int) string {
	var parts []string
	for _, t := range toks {
		parts = append(parts, SymName(g, t))
	}
	return strings.Join(parts, " ")
}
