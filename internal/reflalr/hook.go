//go:build verif

package reflalr

import (
	"strings"

	"github.com/inspirer/textmapper/lalr"
)

// Compiled is the result of one hooked lalr.Compile call.
type Compiled struct {
	T      *lalr.Tables
	Err    error
	Stages map[string]*lalr.Tables // deep copies taken inside Compile: "conflicts", "minimized", "optimized"
	Calls  int
}

// CompileHooked runs lalr.Compile with the verif hook installed and snapshots the
// tables at every stage (the hook receives the live pointer).
func CompileHooked(g *lalr.Grammar, opts lalr.Options) *Compiled {
	c := &Compiled{Stages: map[string]*lalr.Tables{}}
	prev := lalr.VerifHook
	lalr.VerifHook = func(stage string, hg *lalr.Grammar, _ lalr.Options, t *lalr.Tables, _ error) {
		if hg != g {
			return
		}
		c.Calls++
		c.Stages[stage] = CopyTables(t)
	}
	defer func() { lalr.VerifHook = prev }()
	c.T, c.Err = lalr.Compile(g, opts)
	return c
}

// TaggedFinding is a Finding attributed to a property by the process-wide monitor.
type TaggedFinding struct {
	Property string // "C03", "C04", "C05", "C06"
	Finding
	Grammar string // ToJSON of the grammar
}

// Monitor is the process-wide invariant monitor of DESIGN 1.1-2: once installed it
// judges EVERY lalr.Compile the process performs (whoever calls it, e.g.
// compiler.Compile in the end-to-end checks): reference LALR(1) cells for small
// grammars (C03/C04), bisimulation across minimize (C06), encoding comparison
// across Optimize (C05).
type Monitor struct {
	MaxLR1 int // canonical LR(1) state cap for the C03/C04 part; 0 disables it

	Compiles, RefChecked, RefSkipped, Minimized, Optimized int
	Cells                                                  CellStats
	Bisim                                                  BisimStats
	Enc                                                    EncStats
	Findings                                               []TaggedFinding

	pre  *lalr.Tables
	preG *lalr.Grammar
	prev func(string, *lalr.Grammar, lalr.Options, *lalr.Tables, error)
}

// InstallMonitor installs the monitor as lalr.VerifHook (chaining to a previous hook).
func InstallMonitor(maxLR1 int) *Monitor {
	m := &Monitor{MaxLR1: maxLR1, prev: lalr.VerifHook}
	lalr.VerifHook = m.hook
	return m
}

// Uninstall restores the previous hook.
func (m *Monitor) Uninstall() { lalr.VerifHook = m.prev }

func (m *Monitor) add(prop string, g *lalr.Grammar, fs []Finding) {
	for _, f := range fs {
		if len(m.Findings) < 100 {
			m.Findings = append(m.Findings, TaggedFinding{Property: prop, Finding: f, Grammar: ToJSON(g)})
		}
	}
}

func (m *Monitor) hook(stage string, g *lalr.Grammar, opts lalr.Options, t *lalr.Tables, err error) {
	if m.prev != nil {
		m.prev(stage, g, opts, t, err)
	}
	deep := t.UsedLADepth > 0 || opts.Lookahead > 1
	switch stage {
	case "conflicts":
		m.Compiles++
		m.pre, m.preG = CopyTables(t), g
		special := false
		for _, name := range g.Markers {
			if name == "greedy" || name == "lr0" {
				special = true // these markers alter the automaton on purpose
			}
		}
		if m.MaxLR1 <= 0 || deep || special {
			m.RefSkipped++
			return
		}
		ref := BuildRef(g, m.MaxLR1)
		if ref == nil {
			m.RefSkipped++
			return
		}
		m.RefChecked++
		mt := MatchStates(ref, m.pre)
		m.add("C03", g, mt.Findings)
		if mt.SharedAug > 0 {
			m.add("C03", g, []Finding{{Sig: "automaton/pre-final-state-shared-with-nested-context", Detail: "see C03"}})
		}
		if len(mt.Findings) > 0 {
			return
		}
		for _, f := range CompareCells(g, ref, mt, m.pre, ClassifyErr(err).Lookahead > 0, &m.Cells) {
			prop := "C03"
			if strings.HasPrefix(f.Sig, "prec/") || strings.HasPrefix(f.Sig, "defaults/") {
				prop = "C04"
			}
			m.add(prop, g, []Finding{f})
		}
	case "minimized":
		if m.preG != g || m.pre == nil || deep {
			return
		}
		m.Minimized++
		m.add("C06", g, Bisimulate(g, m.pre, t, &m.Bisim))
	case "optimized":
		if deep {
			return
		}
		m.Optimized++
		m.add("C05", g, CompareEncodings(t, g.Terminals, opts.DefaultReduce, &m.Enc))
	}
}
