//go:build verif

package reflalr

import (
	"github.com/inspirer/textmapper/lalr"
)

// Compiled is the result of one hooked lalr.Compile call.
type Compiled struct {
	T      *lalr.Tables
	Err    error
	Stages map[string]*lalr.Tables // deep copies taken inside Compile: "conflicts", "minimized", "optimized"
	Calls  int
}

// CompileHooked runs lalr.Compile with the verif hook installed and snapshots the
// tables at every stage (the hook receives the live pointer).
func CompileHooked(g *lalr.Grammar, opts lalr.Options) *Compiled {
	c := &Compiled{Stages: map[string]*lalr.Tables{}}
	prev := lalr.VerifHook
	lalr.VerifHook = func(stage string, hg *lalr.Grammar, _ lalr.Options, t *lalr.Tables, _ error) {
		if hg != g {
			return
		}
		c.Calls++
		c.Stages[stage] = CopyTables(t)
	}
	defer func() { lalr.VerifHook = prev }()
	c.T, c.Err = lalr.Compile(g, opts)
	return c
}
