package reflalr

import (
	"fmt"
	"math/rand"

	"github.com/inspirer/textmapper/lalr"
)

// GenConfig controls RandomGrammar.
type GenConfig struct {
	MinT, MaxT    int // user terminals (eoi not counted)
	MinN, MaxN    int // ordinary nonterminals
	MaxRules      int // rules per nonterminal
	MaxRHS        int
	MaxInputs     int
	Prec          bool // precedence groups and Rule.Precedence
	Lookaheads    bool // lookahead nonterminals with predicates (adds synthetic no-eoi inputs)
	Markers       bool
	Classes       bool    // vary Action/Type/Flags (rule classes for minimisation); otherwise many rules share a class
	UselessChance float64 // probability of leaving unproductive / unreachable nonterminals in
	DupInput      float64 // probability of listing the same (nonterminal, eoi) input twice
}

// SmallConfig is the default "small class" configuration.
func SmallConfig() GenConfig {
	return GenConfig{MinT: 2, MaxT: 5, MinN: 1, MaxN: 5, MaxRules: 4, MaxRHS: 4, MaxInputs: 3}
}

// Info describes what a generated grammar contains.
type Info struct {
	Inputs, NoEoi, Empty, LeftRec, RightRec, Lookaheads, Markers, PrecGroups, PrecRules int
	SameNTInputs                                                                        int // inputs naming the same nonterminal (eoi and no-eoi)
	DupInputs                                                                           int
	Useless                                                                             bool
}

type gb struct {
	r     *rand.Rand
	g     *lalr.Grammar
	nT    int // terminals including eoi
	nonts []int
}

func (b *gb) newNT(name string) int {
	b.g.Symbols = append(b.g.Symbols, name)
	return len(b.g.Symbols) - 1
}

func (b *gb) term() lalr.Sym { return lalr.Sym(1 + b.r.Intn(b.nT-1)) }
func (b *gb) nont() lalr.Sym { return lalr.Sym(b.nonts[b.r.Intn(len(b.nonts))]) }
func (b *gb) sym() lalr.Sym {
	if b.r.Intn(100) < 55 {
		return b.term()
	}
	return b.nont()
}

func (b *gb) addRule(lhs int, rhs []lalr.Sym) int {
	b.g.Rules = append(b.g.Rules, lalr.Rule{LHS: lalr.Sym(lhs), RHS: rhs, Type: -1, Origin: Node(len(b.g.Rules) + 1)})
	return len(b.g.Rules) - 1
}

// RandomGrammar generates a random grammar of the small class. Every random
// choice comes from r.
func RandomGrammar(r *rand.Rand, cfg GenConfig) (*lalr.Grammar, Info) {
	var info Info
	nT := 1 + cfg.MinT + r.Intn(cfg.MaxT-cfg.MinT+1)
	nN := cfg.MinN + r.Intn(cfg.MaxN-cfg.MinN+1)
	g := &lalr.Grammar{Terminals: nT, Origin: Node(0)}
	g.Symbols = append(g.Symbols, "eoi")
	for i := 1; i < nT; i++ {
		g.Symbols = append(g.Symbols, string(rune('a'+i-1)))
	}
	b := &gb{r: r, g: g, nT: nT}
	for i := 0; i < nN; i++ {
		b.nonts = append(b.nonts, b.newNT(string(rune('A'+i))))
	}

	maxRHS := cfg.MaxRHS
	for _, nt := range b.nonts {
		k := 1 + r.Intn(cfg.MaxRules)
		for j := 0; j < k; j++ {
			var rhs []lalr.Sym
			switch p := r.Intn(100); {
			case p < 14: // empty
			case p < 30: // left recursion (possibly through a nullable prefix)
				if r.Intn(5) == 0 {
					rhs = append(rhs, b.nont())
				}
				rhs = append(rhs, lalr.Sym(nt))
				for n := r.Intn(maxRHS); n > 0; n-- {
					rhs = append(rhs, b.sym())
				}
			case p < 42: // right recursion
				for n := 1 + r.Intn(maxRHS-1); n > 0; n-- {
					rhs = append(rhs, b.sym())
				}
				rhs = append(rhs, lalr.Sym(nt))
			case p < 54: // nonterminal-only (nullable chains, unit rules)
				for n := 1 + r.Intn(3); n > 0; n-- {
					rhs = append(rhs, b.nont())
				}
			case p < 62: // single terminal
				rhs = append(rhs, b.term())
			default:
				for n := 1 + r.Intn(maxRHS); n > 0; n-- {
					rhs = append(rhs, b.sym())
				}
			}
			b.addRule(nt, rhs)
		}
	}

	useless := r.Float64() < cfg.UselessChance
	info.Useless = useless
	if !useless {
		b.makeProductive()
	}

	// inputs
	nIn := 1
	if cfg.MaxInputs > 1 && r.Intn(2) == 0 {
		nIn = 1 + r.Intn(cfg.MaxInputs)
	}
	seen := map[lalr.Input]bool{}
	for i := 0; i < nIn; i++ {
		in := lalr.Input{Nonterminal: b.nont(), Eoi: r.Intn(10) < 7}
		if i > 0 && r.Intn(3) == 0 {
			// same nonterminal as an earlier input with the other eoi flag
			prev := g.Inputs[r.Intn(len(g.Inputs))]
			in = lalr.Input{Nonterminal: prev.Nonterminal, Eoi: !prev.Eoi}
		}
		if seen[in] {
			if r.Float64() >= cfg.DupInput {
				continue
			}
			info.DupInputs++
		}
		seen[in] = true
		g.Inputs = append(g.Inputs, in)
	}
	if !useless {
		b.makeReachable()
	}

	if cfg.Lookaheads && r.Intn(3) != 0 {
		info.Lookaheads = b.addLookaheads(seen)
	}
	if cfg.Prec {
		b.addPrecedence(&info)
	}
	if cfg.Markers && r.Intn(2) == 0 {
		nm := 1 + r.Intn(3)
		for i := 0; i < nm; i++ {
			g.Markers = append(g.Markers, fmt.Sprintf("m%d", i))
		}
		for i := range g.Rules {
			if b.isLookaheadNT(int(g.Rules[i].LHS)) {
				continue
			}
			for r.Intn(4) == 0 {
				rhs := g.Rules[i].RHS
				pos := r.Intn(len(rhs) + 1)
				mk := lalr.Marker(r.Intn(nm))
				nr := append([]lalr.Sym{}, rhs[:pos]...)
				nr = append(nr, mk)
				nr = append(nr, rhs[pos:]...)
				g.Rules[i].RHS = nr
				info.Markers++
			}
		}
	}
	for i := range g.Rules {
		if b.isLookaheadNT(int(g.Rules[i].LHS)) {
			continue
		}
		if cfg.Classes {
			g.Rules[i].Action = []int{0, 0, 0, 1, 2}[r.Intn(5)]
			g.Rules[i].Type = []int{-1, -1, -1, 0, 1}[r.Intn(5)]
			if r.Intn(8) == 0 {
				g.Rules[i].Flags = []string{"f"}
			}
		}
	}

	for _, in := range g.Inputs {
		info.Inputs++
		if !in.Eoi {
			info.NoEoi++
		}
	}
	nts := map[lalr.Sym]int{}
	for _, in := range g.Inputs {
		nts[in.Nonterminal]++
	}
	for _, n := range nts {
		if n > 1 {
			info.SameNTInputs += n
		}
	}
	for _, rule := range g.Rules {
		rhs := StripMarkers(rule.RHS)
		if len(rhs) == 0 {
			info.Empty++
			continue
		}
		if rhs[0] == int(rule.LHS) {
			info.LeftRec++
		}
		if rhs[len(rhs)-1] == int(rule.LHS) {
			info.RightRec++
		}
	}
	return g, info
}

func (b *gb) isLookaheadNT(nt int) bool {
	for _, l := range b.g.Lookaheads {
		if int(l.Nonterminal) == nt {
			return true
		}
	}
	return false
}

// makeProductive adds a terminal-only (or empty) rule to every nonterminal that
// derives no terminal string.
func (b *gb) makeProductive() {
	g := b.g
	for {
		prod := make([]bool, len(g.Symbols))
		for t := 0; t < g.Terminals; t++ {
			prod[t] = true
		}
		for changed := true; changed; {
			changed = false
			for _, rule := range g.Rules {
				if prod[rule.LHS] {
					continue
				}
				ok := true
				for _, s := range rule.RHS {
					if !s.IsStateMarker() && !prod[s] {
						ok = false
					}
				}
				if ok {
					prod[rule.LHS] = true
					changed = true
				}
			}
		}
		fixed := false
		for _, nt := range b.nonts {
			if !prod[nt] {
				var rhs []lalr.Sym
				if b.r.Intn(4) != 0 {
					rhs = append(rhs, b.term())
				}
				b.addRule(nt, rhs)
				fixed = true
				break
			}
		}
		if !fixed {
			return
		}
	}
}

// makeReachable makes every ordinary nonterminal reachable from some input.
func (b *gb) makeReachable() {
	g := b.g
	for {
		reach := make([]bool, len(g.Symbols))
		var work []int
		for _, in := range g.Inputs {
			if !reach[in.Nonterminal] {
				reach[in.Nonterminal] = true
				work = append(work, int(in.Nonterminal))
			}
		}
		for len(work) > 0 {
			nt := work[len(work)-1]
			work = work[:len(work)-1]
			for _, rule := range g.Rules {
				if int(rule.LHS) != nt {
					continue
				}
				for _, s := range rule.RHS {
					if !s.IsStateMarker() && int(s) >= g.Terminals && !reach[s] {
						reach[s] = true
						work = append(work, int(s))
					}
				}
			}
		}
		missing := -1
		for _, nt := range b.nonts {
			if !reach[nt] {
				missing = nt
				break
			}
		}
		if missing < 0 {
			return
		}
		// reference it from a reachable nonterminal
		var cands []int
		for _, nt := range b.nonts {
			if reach[nt] {
				cands = append(cands, nt)
			}
		}
		from := cands[b.r.Intn(len(cands))]
		var rhs []lalr.Sym
		if b.r.Intn(2) == 0 {
			rhs = append(rhs, b.term())
		}
		rhs = append(rhs, lalr.Sym(missing))
		if b.r.Intn(2) == 0 {
			rhs = append(rhs, b.term())
		}
		b.addRule(from, rhs)
	}
}

// predInput returns the index of a no-eoi input for nt, adding it if needed.
func (b *gb) predInput(nt lalr.Sym, seen map[lalr.Input]bool) int32 {
	in := lalr.Input{Nonterminal: nt, Eoi: false}
	for i, x := range b.g.Inputs {
		if x == in {
			return int32(i)
		}
	}
	seen[in] = true
	b.g.Inputs = append(b.g.Inputs, in)
	return int32(len(b.g.Inputs) - 1)
}

// addLookaheads adds 2-3 lookahead nonterminals L_i with (mostly) well-formed
// predicate sets, uses them as prefixes/infixes of alternatives of an existing
// nonterminal so that their empty rules compete in one state.
func (b *gb) addLookaheads(seen map[lalr.Input]bool) int {
	g, r := b.g, b.r
	k := 2 + r.Intn(2)
	// predicate inputs: existing ordinary nonterminals
	np := 1 + r.Intn(2)
	if k == 3 {
		np = 2
	}
	var preds []int32
	for i := 0; i < np; i++ {
		preds = append(preds, b.predInput(b.nont(), seen))
	}
	if np == 2 && preds[0] == preds[1] {
		preds = preds[:1]
		np = 1
		if k == 3 {
			k = 2
		}
	}
	var sets [][]lalr.Predicate
	switch {
	case k == 2 && np == 1:
		sets = [][]lalr.Predicate{{{Input: preds[0]}}, {{Input: preds[0], Negated: true}}}
	case k == 2:
		switch r.Intn(3) {
		case 0:
			sets = [][]lalr.Predicate{{{Input: preds[0]}, {Input: preds[1]}}, {{Input: preds[0], Negated: true}}}
		case 1:
			sets = [][]lalr.Predicate{{{Input: preds[0]}, {Input: preds[1]}}, {{Input: preds[0]}, {Input: preds[1], Negated: true}}}
		default: // not mutually exclusive: must be rejected when they meet
			sets = [][]lalr.Predicate{{{Input: preds[0]}}, {{Input: preds[1]}}}
		}
	default:
		sets = [][]lalr.Predicate{
			{{Input: preds[0]}},
			{{Input: preds[0], Negated: true}, {Input: preds[1]}},
			{{Input: preds[0], Negated: true}, {Input: preds[1], Negated: true}},
		}
	}
	var las []lalr.Sym
	order := r.Perm(len(sets))
	for i, si := range order {
		nt := b.newNT(fmt.Sprintf("L%d", i))
		las = append(las, lalr.Sym(nt))
		g.Lookaheads = append(g.Lookaheads, lalr.Lookahead{Nonterminal: lalr.Sym(nt), Predicates: sets[si], Origin: Node(1000 + i)})
	}
	// empty rules, at random positions of the rule list
	for _, la := range las {
		rule := lalr.Rule{LHS: la, Type: -1, Origin: Node(2000 + int(la))}
		pos := r.Intn(len(g.Rules) + 1)
		g.Rules = append(g.Rules, lalr.Rule{})
		copy(g.Rules[pos+1:], g.Rules[pos:])
		g.Rules[pos] = rule
	}
	// uses: X -> L_i tail_i ; tails share first symbols with some probability
	host := b.nont()
	shared := b.sym()
	for i, la := range las {
		uses := 1 + r.Intn(2)
		for u := 0; u < uses; u++ {
			var rhs []lalr.Sym
			if r.Intn(4) == 0 {
				rhs = append(rhs, b.term())
			}
			rhs = append(rhs, la)
			if r.Intn(4) != 0 {
				rhs = append(rhs, shared)
			}
			for n := r.Intn(3); n > 0; n-- {
				rhs = append(rhs, b.sym())
			}
			// a distinguishing tail so that alternatives are not identical
			if r.Intn(3) != 0 {
				rhs = append(rhs, lalr.Sym(1+(i+u)%(b.nT-1)))
			}
			h := host
			if r.Intn(4) == 0 {
				h = b.nont()
			}
			b.addRule(int(h), rhs)
		}
	}
	return len(las)
}

func (b *gb) addPrecedence(info *Info) {
	g, r := b.g, b.r
	terms := r.Perm(b.nT - 1)
	ngroups := 1 + r.Intn(3)
	if ngroups > len(terms) {
		ngroups = len(terms)
	}
	used := len(terms)
	if r.Intn(2) == 0 && used > 1 {
		used = 1 + r.Intn(used) // leave some terminals without precedence
	}
	if used < ngroups {
		used = ngroups
	}
	groups := make([]lalr.Precedence, ngroups)
	for i := range groups {
		groups[i].Associativity = lalr.Associativity(r.Intn(3))
	}
	for i := 0; i < used; i++ {
		gi := i
		if i >= ngroups {
			gi = r.Intn(ngroups)
		}
		groups[gi].Terminals = append(groups[gi].Terminals, lalr.Sym(1+terms[i]))
	}
	g.Precedence = groups
	info.PrecGroups = ngroups
	for i := range g.Rules {
		if b.isLookaheadNT(int(g.Rules[i].LHS)) {
			continue
		}
		if r.Intn(6) == 0 {
			g.Rules[i].Precedence = b.term()
			info.PrecRules++
		}
	}
}

// ---------------------------------------------------------------------------
// Exhaustive tiny grammars

// TinySpace enumerates rule forms for the exhaustive tiny-grammar space: 2 user
// terminals (a, b), 2 nonterminals (A, B), right-hand sides up to maxRHS symbols.
type TinySpace struct {
	Forms [][]int // [lhs, rhs...] with symbols 1,2 (terminals) and 3,4 (nonterminals)
}

// NewTinySpace builds the rule forms.
func NewTinySpace(maxRHS int) *TinySpace {
	ts := &TinySpace{}
	syms := []int{1, 2, 3, 4}
	var rec func(prefix []int, left int)
	for _, lhs := range []int{3, 4} {
		rec = func(prefix []int, left int) {
			ts.Forms = append(ts.Forms, append([]int{lhs}, prefix...))
			if left == 0 {
				return
			}
			for _, s := range syms {
				rec(append(append([]int{}, prefix...), s), left-1)
			}
		}
		rec(nil, maxRHS)
	}
	return ts
}

// Grammar builds the grammar made of the given rule forms (indices into Forms);
// inputMode: 0 = A(eoi); 1 = A(no-eoi); 2 = A(eoi), B(no-eoi); 3 = A(eoi), B(eoi).
func (ts *TinySpace) Grammar(forms []int, inputMode int) *lalr.Grammar {
	g := &lalr.Grammar{Terminals: 3, Symbols: []string{"eoi", "a", "b", "A", "B"}, Origin: Node(0)}
	switch inputMode {
	case 0:
		g.Inputs = []lalr.Input{{Nonterminal: 3, Eoi: true}}
	case 1:
		g.Inputs = []lalr.Input{{Nonterminal: 3, Eoi: false}}
	case 2:
		g.Inputs = []lalr.Input{{Nonterminal: 3, Eoi: true}, {Nonterminal: 4, Eoi: false}}
	default:
		g.Inputs = []lalr.Input{{Nonterminal: 3, Eoi: true}, {Nonterminal: 4, Eoi: true}}
	}
	for i, f := range forms {
		form := ts.Forms[f]
		rule := lalr.Rule{LHS: lalr.Sym(form[0]), Type: -1, Origin: Node(i + 1)}
		for _, s := range form[1:] {
			rule.RHS = append(rule.RHS, lalr.Sym(s))
		}
		g.Rules = append(g.Rules, rule)
	}
	return g
}
