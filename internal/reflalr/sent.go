package reflalr

import (
	"math/rand"

	"github.com/inspirer/textmapper/lalr"
)

// Sampler derives random sentences (terminal strings without eoi) from a grammar.
type Sampler struct {
	g       *lalr.Grammar
	rhs     [][]int
	rulesOf [][]int
	symH    []int // minimal derivation height per symbol (inf = 1<<30)
	ruleH   []int
}

const infH = 1 << 30

// NewSampler prepares a sampler.
func NewSampler(g *lalr.Grammar) *Sampler {
	s := &Sampler{g: g, rulesOf: make([][]int, len(g.Symbols)), symH: make([]int, len(g.Symbols)), ruleH: make([]int, len(g.Rules))}
	for i, r := range g.Rules {
		s.rhs = append(s.rhs, StripMarkers(r.RHS))
		s.rulesOf[r.LHS] = append(s.rulesOf[r.LHS], i)
		s.ruleH[i] = infH
	}
	for i := range s.symH {
		if i >= g.Terminals {
			s.symH[i] = infH
		}
	}
	for changed := true; changed; {
		changed = false
		for i, rhs := range s.rhs {
			h := 0
			for _, x := range rhs {
				if s.symH[x] > h {
					h = s.symH[x]
				}
			}
			if h < infH {
				h++
			}
			if h < s.ruleH[i] {
				s.ruleH[i] = h
				changed = true
			}
			lhs := int(s.g.Rules[i].LHS)
			if h < s.symH[lhs] {
				s.symH[lhs] = h
				changed = true
			}
		}
	}
	return s
}

// Productive reports whether nt derives a terminal string.
func (s *Sampler) Productive(nt int) bool { return s.symH[nt] < infH }

// Sentence derives a random sentence from nt; depth bounds free choices, maxLen
// switches to shortest expansions once exceeded. ok=false for unproductive nt.
func (s *Sampler) Sentence(r *rand.Rand, nt int, depth, maxLen int) (out []int, ok bool) {
	if !s.Productive(nt) {
		return nil, false
	}
	var expand func(sym, d int)
	expansions := 0
	expand = func(sym, d int) {
		if sym < s.g.Terminals {
			out = append(out, sym)
			return
		}
		rules := s.rulesOf[sym]
		var pick int
		expansions++
		if d <= 0 || len(out) > maxLen || expansions > 4*maxLen {
			best := infH
			var cands []int
			for _, ri := range rules {
				if s.ruleH[ri] < best {
					best = s.ruleH[ri]
					cands = cands[:0]
				}
				if s.ruleH[ri] == best {
					cands = append(cands, ri)
				}
			}
			pick = cands[r.Intn(len(cands))]
		} else {
			var cands []int
			for _, ri := range rules {
				if s.ruleH[ri] < infH {
					cands = append(cands, ri)
				}
			}
			pick = cands[r.Intn(len(cands))]
		}
		for _, x := range s.rhs[pick] {
			expand(x, d-1)
		}
	}
	expand(nt, depth)
	return out, true
}

// Mutate applies one random token-level edit.
func Mutate(r *rand.Rand, toks []int, terms int) []int {
	out := append([]int(nil), toks...)
	rt := func() int { return 1 + r.Intn(terms-1) }
	switch k := r.Intn(5); {
	case k == 0 && len(out) > 0: // delete
		i := r.Intn(len(out))
		out = append(out[:i], out[i+1:]...)
	case k == 1: // insert
		i := r.Intn(len(out) + 1)
		out = append(out[:i], append([]int{rt()}, out[i:]...)...)
	case k == 2 && len(out) > 0: // replace
		out[r.Intn(len(out))] = rt()
	case k == 3 && len(out) > 1: // swap
		i := r.Intn(len(out) - 1)
		out[i], out[i+1] = out[i+1], out[i]
	case len(out) > 0: // truncate
		out = out[:r.Intn(len(out))]
	default:
		out = append(out, rt())
	}
	return out
}

// RandomTokens returns a uniformly random token string.
func RandomTokens(r *rand.Rand, terms, n int) []int {
	out := make([]int, n)
	for i := range out {
		out[i] = 1 + r.Intn(terms-1)
	}
	return out
}
