package reflalr

import (
	"fmt"
	"sort"

	"github.com/inspirer/textmapper/lalr"
)

// BisimStats counts what Bisimulate explored.
type BisimStats struct {
	Entries       int
	Pairs         int // related state pairs explored (summed over entries)
	Cells         int // (pair, terminal) cells compared
	ShiftEdges    int
	ReduceChecks  int // (pair, rule) reductions whose lookback gotos were compared
	LookbackPairs int
	LookaheadRed  int // reductions by runtime-lookahead rules
	Accepting     int // pairs where both parsers are in their final state
	MarkersMapped int
	MarkerStates  int
}

type bpair struct{ a, b int }

// RulesEquivalent reports whether reducing r0 in t0 and r1 in t1 is the same
// observable reduction: same left-hand side, length, action and node type; for
// runtime-lookahead rules the same decision list.
func RulesEquivalent(g *lalr.Grammar, t0, t1 *lalr.Tables, r0, r1 int) bool {
	n := len(g.Rules)
	if (r0 >= n) != (r1 >= n) {
		return false
	}
	if r0 < 0 || r1 < 0 || r0 >= len(t0.RuleLen) || r1 >= len(t1.RuleLen) {
		return false
	}
	if t0.RuleLen[r0] != t1.RuleLen[r1] || t0.RuleSymbol[r0] != t1.RuleSymbol[r1] {
		return false
	}
	if r0 < n {
		a, b := g.Rules[r0], g.Rules[r1]
		return a.LHS == b.LHS && a.Action == b.Action && a.Type == b.Type
	}
	la, lb := t0.Lookaheads[r0-n], t1.Lookaheads[r1-n]
	if la.DefaultTarget != lb.DefaultTarget || len(la.Cases) != len(lb.Cases) {
		return false
	}
	for i := range la.Cases {
		if la.Cases[i] != lb.Cases[i] {
			return false
		}
	}
	return true
}

// Bisimulate checks that t1 (after minimisation) behaves like t0 (before) from
// every entry (i, FinalStates[i]): a relation over state pairs is grown from
// (i, i); related states must decode to the same kind of action for every
// terminal (equivalent rules for reductions), shift targets are related, and for
// every reduction the gotos taken from the states that can be uncovered on the
// stack (pairs found by walking the explored pair graph backwards by the rule
// length) are related. A parser stops when it reaches its final state, so pairs
// where exactly one side is final are a disagreement and pairs where both are
// final are not expanded.
func Bisimulate(g *lalr.Grammar, t0, t1 *lalr.Tables, st *BisimStats) []Finding {
	var out []Finding
	add := func(sig, format string, a ...any) {
		for _, f := range out {
			if f.Sig == sig {
				return
			}
		}
		out = append(out, Finding{sig, fmt.Sprintf(format, a...)})
	}
	terms := g.Terminals
	nRules := len(g.Rules)
	if len(t0.FinalStates) != len(t1.FinalStates) || len(t0.RuleLen) != len(t1.RuleLen) || len(t0.Lookaheads) != len(t1.Lookaheads) {
		add("bisim/table-shapes-differ", "FinalStates %d/%d RuleLen %d/%d Lookaheads %d/%d", len(t0.FinalStates), len(t1.FinalStates), len(t0.RuleLen), len(t1.RuleLen), len(t0.Lookaheads), len(t1.Lookaheads))
		return out
	}
	for i := range g.Inputs {
		st.Entries++
		end0, end1 := t0.FinalStates[i], t1.FinalStates[i]
		if i >= len(t1.Action) {
			add("bisim/entry-state-missing", "input %d: minimised tables have %d states", i, len(t1.Action))
			continue
		}
		index := map[bpair]int{}
		var pairs []bpair
		var preds [][]int
		edges := map[[2]int]bool{}
		type red struct{ p, r0, r1 int }
		var reds []red
		redSeen := map[red]bool{}
		var queue []int
		get := func(p bpair) int {
			if id, ok := index[p]; ok {
				return id
			}
			id := len(pairs)
			index[p] = id
			pairs = append(pairs, p)
			preds = append(preds, nil)
			queue = append(queue, id)
			return id
		}
		edge := func(from int, to bpair) {
			id := get(to)
			k := [2]int{from, id}
			if !edges[k] {
				edges[k] = true
				preds[id] = append(preds[id], from)
			}
		}
		get(bpair{i, i})
		drain := func() {
			for len(queue) > 0 {
				id := queue[0]
				queue = queue[1:]
				p := pairs[id]
				st.Pairs++
				f0, f1 := p.a == end0, p.b == end1
				if f0 != f1 {
					add(fmt.Sprintf("bisim/final-state-mismatch/unminimised-final=%v", f0), "input %d: pair (%d,%d): final states are (%d,%d)", i, p.a, p.b, end0, end1)
					continue
				}
				if f0 {
					st.Accepting++
					continue
				}
				for term := 0; term < terms; term++ {
					a0 := CellDefault(t0, p.a, term)
					a1 := CellDefault(t1, p.b, term)
					st.Cells++
					if a0.Kind != a1.Kind {
						add(fmt.Sprintf("bisim/action-kind-differs/%s->%s", kindName(Act{Kind: a0.Kind}), kindName(Act{Kind: a1.Kind})),
							"input %d: pair (%d,%d) terminal %s: unminimised %v, minimised %v", i, p.a, p.b, SymName(g, term), a0, a1)
						continue
					}
					switch a0.Kind {
					case ActShift:
						st.ShiftEdges++
						edge(id, bpair{a0.Arg, a1.Arg})
					case ActReduce:
						if !RulesEquivalent(g, t0, t1, a0.Arg, a1.Arg) {
							add("bisim/reduced-rules-not-equivalent", "input %d: pair (%d,%d) terminal %s: unminimised reduces %s, minimised reduces %s", i, p.a, p.b, SymName(g, term), RuleString(g, a0.Arg), RuleString(g, a1.Arg))
							continue
						}
						k := red{id, a0.Arg, a1.Arg}
						if !redSeen[k] {
							redSeen[k] = true
							reds = append(reds, k)
						}
					}
				}
			}
		}
		drain()
		counted := map[red]bool{}
		for {
			nPairs, nEdges := len(pairs), len(edges)
			for _, rd := range reds {
				first := !counted[rd]
				counted[rd] = true
				n := t0.RuleLen[rd.r0]
				level := map[int]bool{rd.p: true}
				for d := 0; d < n; d++ {
					next := map[int]bool{}
					for id := range level {
						for _, q := range preds[id] {
							next[q] = true
						}
					}
					level = next
				}
				ids := make([]int, 0, len(level))
				for id := range level {
					ids = append(ids, id)
				}
				sort.Ints(ids)
				var syms []int
				if rd.r0 < nRules {
					syms = []int{t0.RuleSymbol[rd.r0]}
				} else {
					lr := t0.Lookaheads[rd.r0-nRules]
					seen := map[int]bool{}
					for _, c := range lr.Cases {
						if !seen[int(c.Target)] {
							seen[int(c.Target)] = true
							syms = append(syms, int(c.Target))
						}
					}
					if !seen[int(lr.DefaultTarget)] {
						syms = append(syms, int(lr.DefaultTarget))
					}
					if first {
						st.LookaheadRed++
					}
				}
				if first {
					st.ReduceChecks++
					st.LookbackPairs += len(ids)
				}
				for _, id := range ids {
					q := pairs[id]
					for _, sym := range syms {
						g0 := GotoDefault(t0, q.a, sym)
						g1 := GotoDefault(t1, q.b, sym)
						switch {
						case g0 < 0 && g1 < 0:
						case g0 < 0 || g1 < 0:
							add(fmt.Sprintf("bisim/goto-after-reduce-one-sided/unminimised-has=%v", g0 >= 0), "input %d: after reducing %s with pair (%d,%d) uncovered: goto on %s is %d unminimised, %d minimised", i, RuleString(g, rd.r0), q.a, q.b, SymName(g, sym), g0, g1)
						default:
							edge(id, bpair{g0, g1})
						}
					}
				}
			}
			drain()
			if len(pairs) == nPairs && len(edges) == nEdges {
				break
			}
		}
	}

	// Markers: the structural correspondence (all transitions both sides have)
	// must map each marker's state set onto the minimised marker's state set.
	if len(t0.Markers) != len(t1.Markers) {
		add("bisim/markers-length", "%d markers before, %d after", len(t0.Markers), len(t1.Markers))
		return out
	}
	if len(t0.Markers) > 0 {
		tr0, _ := ImplTransitions(t0)
		tr1, _ := ImplTransitions(t1)
		corr := make([]int, len(t0.Action))
		for i := range corr {
			corr[i] = -1
		}
		functional := true
		var work []bpair
		for i := range g.Inputs {
			if i < len(t1.Action) {
				work = append(work, bpair{i, i})
			}
		}
		for len(work) > 0 {
			p := work[len(work)-1]
			work = work[:len(work)-1]
			if corr[p.a] >= 0 {
				if corr[p.a] != p.b {
					functional = false
				}
				continue
			}
			corr[p.a] = p.b
			for sym, to := range tr0[p.a] {
				if to1, ok := tr1[p.b][sym]; ok {
					work = append(work, bpair{to, to1})
				}
			}
		}
		if functional {
			for mi := range t0.Markers {
				want := map[int]bool{}
				ok := true
				for _, s := range t0.Markers[mi].States {
					if s < 0 || s >= len(corr) || corr[s] < 0 {
						ok = false
						break
					}
					want[corr[s]] = true
					st.MarkerStates++
				}
				if !ok {
					continue
				}
				got := map[int]bool{}
				for _, s := range t1.Markers[mi].States {
					got[s] = true
				}
				same := len(got) == len(want)
				for s := range want {
					if !got[s] {
						same = false
					}
				}
				st.MarkersMapped++
				if !same {
					ws := make([]int, 0, len(want))
					for s := range want {
						ws = append(ws, s)
					}
					sort.Ints(ws)
					add("bisim/marker-states-not-remapped", "marker %q: states before %v, image under the state correspondence %v, states after %v", t0.Markers[mi].Name, t0.Markers[mi].States, ws, t1.Markers[mi].States)
				}
			}
		}
	}
	return out
}
