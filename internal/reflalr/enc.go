package reflalr

import (
	"fmt"

	"github.com/inspirer/textmapper/lalr"
)

// Finding is one disagreement found by a monitor of this package. Sig is a stable
// class signature, Detail the concrete instance.
type Finding struct {
	Sig    string
	Detail string
}

// EncStats counts what CompareEncodings looked at.
type EncStats struct {
	Cells            int // state x terminal cells compared
	Gotos            int // existing (state, nonterminal) gotos compared
	ShiftCells       int
	ReduceCells      int
	ErrorCells       int
	ExplicitErrors   int // %nonassoc errors
	DefaultReduced   int // plain errors that became the default reduction (defaultReduce)
	CheckMismatch    int // lookups that hit a slot owned by another line and fell back to the default
	OutOfTable       int // lookups outside [0, len(Table))
	BinarySearchSyms int // symbols whose goto list uses the binary-search branch
	SharedBases      int // action/goto lines sharing a displacement with another line
	Wide             int // 1 when some table value needs more than 8 bits
	TermGotoChecked  int
}

// CompareEncodings compares, for every state and terminal, the decoding of
// t.Optimized with the decoding of the default encoding, and every existing goto.
// With defaultReduce the only permitted difference is: a plain error (terminal not
// listed in the state's Lalr row) may become a reduction by one of the state's most
// frequent reductions.
func CompareEncodings(t *lalr.Tables, terms int, defaultReduce bool, st *EncStats) []Finding {
	var out []Finding
	add := func(sig, format string, a ...any) {
		if len(out) < 20 {
			out = append(out, Finding{sig, fmt.Sprintf(format, a...)})
		}
	}
	o := t.Optimized
	if o == nil {
		add("optimized/missing", "Tables.Optimized is nil")
		return out
	}
	nstates := len(t.Action)
	nsyms := len(t.Goto) - 1
	if len(o.Action) != nstates || len(o.DefAct) != nstates {
		add("optimized/array-length/action", "len(Action)=%d len(DefAct)=%d, states=%d", len(o.Action), len(o.DefAct), nstates)
		return out
	}
	if len(o.Goto) != nsyms-terms || len(o.DefGoto) != nsyms-terms {
		add("optimized/array-length/goto", "len(Goto)=%d len(DefGoto)=%d, nonterminals=%d", len(o.Goto), len(o.DefGoto), nsyms-terms)
		return out
	}
	if len(o.Table) != len(o.Check) {
		add("optimized/array-length/check", "len(Table)=%d len(Check)=%d", len(o.Table), len(o.Check))
		return out
	}
	for _, v := range o.Table {
		if v > 127 || v < -128 {
			st.Wide = 1
		}
	}
	bases := map[int]int{}
	for s := 0; s < nstates; s++ {
		if o.Action[s] > o.Base {
			bases[o.Action[s]]++
		}
	}
	for _, g := range o.Goto {
		if g != -nsyms {
			bases[g]++
		}
	}
	for _, n := range bases {
		if n > 1 {
			st.SharedBases += n
		}
	}

	for s := 0; s < nstates; s++ {
		// most frequent reductions of the state's Lalr row
		var maxRules map[int]bool
		if defaultReduce && t.Action[s] < -2 {
			cnt := map[int]int{}
			best := 0
			for a := -t.Action[s] - 3; t.Lalr[a] >= 0; a += 2 {
				if r := t.Lalr[a+1]; r >= 0 {
					cnt[r]++
					if cnt[r] > best {
						best = cnt[r]
					}
				}
			}
			maxRules = map[int]bool{}
			for r, n := range cnt {
				if n == best {
					maxRules[r] = true
				}
			}
		}
		for term := 0; term < terms; term++ {
			d := CellDefault(t, s, term)
			a, coll := CellOptimized(o, s, term)
			st.Cells++
			if coll {
				st.CheckMismatch++
			}
			if o.Action[s] > o.Base {
				if pos := o.Action[s] + term; pos < 0 || pos >= len(o.Table) {
					st.OutOfTable++
				}
			}
			switch d.Kind {
			case ActShift:
				st.ShiftCells++
			case ActReduce:
				st.ReduceCells++
			case ActError:
				st.ErrorCells++
				if d.Explicit {
					st.ExplicitErrors++
				}
			}
			if d.Kind == a.Kind && d.Arg == a.Arg {
				if d.Kind == ActShift {
					// the token path of gotoState must give the same target
					st.TermGotoChecked++
					if g := GotoOptimized(o, terms, s, term); g != d.Arg {
						add("optimized/gotoState-terminal-differs", "state %d terminal %d: action decodes to shift->%d, gotoState(state, terminal) gives %d", s, term, d.Arg, g)
					}
				}
				continue
			}
			// permitted difference?
			if defaultReduce && d.Kind == ActError && !d.Explicit && a.Kind == ActReduce && t.Action[s] < -2 && maxRules[a.Arg] {
				st.DefaultReduced++
				continue
			}
			kind := fmt.Sprintf("%s->%s", kindName(d), kindName(a))
			switch {
			case d.Kind == ActError && d.Explicit && a.Kind != ActError:
				add("optimized/cell-differs/nonassoc-error-lost/"+kind, "state %d terminal %d: default encoding %v, optimized %v (defaultReduce=%v)", s, term, d, a, defaultReduce)
			case d.Kind == ActError && a.Kind == ActShift:
				add("optimized/cell-differs/error-became-shift", "state %d terminal %d: default encoding %v, optimized %v (defaultReduce=%v)", s, term, d, a, defaultReduce)
			case defaultReduce && d.Kind == ActError && a.Kind == ActReduce:
				add("optimized/cell-differs/default-reduce-not-most-frequent", "state %d terminal %d: default encoding %v, optimized %v; most frequent reductions of the row: %v", s, term, d, a, maxRules)
			case d.Kind == a.Kind:
				add("optimized/cell-differs/same-kind/"+kind, "state %d terminal %d: default encoding %v, optimized %v (defaultReduce=%v)", s, term, d, a, defaultReduce)
			default:
				add("optimized/cell-differs/"+kind, "state %d terminal %d: default encoding %v, optimized %v (defaultReduce=%v)", s, term, d, a, defaultReduce)
			}
		}
	}
	for sym := 0; sym < nsyms; sym++ {
		if UsesBinarySearch(t, sym) {
			st.BinarySearchSyms++
		}
		for i := t.Goto[sym]; i < t.Goto[sym+1]; i += 2 {
			from, to := t.FromTo[i], t.FromTo[i+1]
			if g := GotoDefault(t, from, sym); g != to {
				add("default/gotoState-misses-entry", "symbol %d from %d: table says %d, gotoState finds %d", sym, from, to, g)
			}
			if sym < terms {
				continue // terminal transitions are compared through the action cells
			}
			st.Gotos++
			if g := GotoOptimized(o, terms, from, sym); g != to {
				add("optimized/goto-differs", "state %d nonterminal %d: default encoding ->%d, optimized ->%d", from, sym, to, g)
			}
		}
	}
	return out
}

func kindName(a Act) string {
	switch a.Kind {
	case ActShift:
		return "shift"
	case ActReduce:
		return "reduce"
	case ActError:
		if a.Explicit {
			return "nonassoc-error"
		}
		return "error"
	}
	return "other"
}
