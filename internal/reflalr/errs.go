package reflalr

import (
	"strings"

	"github.com/inspirer/textmapper/status"
)

// ErrInfo classifies the messages of a lalr.Compile error.
type ErrInfo struct {
	Summary      bool // "conflicts: N shift/reduce and M reduce/reduce"
	ConflictMsgs int  // individual conflict reports
	Lookahead    int  // rejected runtime-lookahead sets
	Other        []string
}

// ClassifyErr splits a compile error into its kinds.
func ClassifyErr(err error) ErrInfo {
	var e ErrInfo
	if err == nil {
		return e
	}
	for _, m := range status.FromError(err) {
		switch {
		case strings.HasPrefix(m.Msg, "conflicts: ") && strings.Contains(m.Msg, "shift/reduce and"):
			e.Summary = true
		case strings.Contains(m.Msg, " conflict (next:"):
			e.ConflictMsgs++
		case strings.HasPrefix(m.Msg, "Lookaheads must use mutually exclusive conditions"):
			e.Lookahead++
		default:
			e.Other = append(e.Other, m.Msg)
		}
	}
	return e
}
