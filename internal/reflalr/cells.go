package reflalr

import (
	"fmt"
	"sort"

	"github.com/inspirer/textmapper/lalr"
)

// Resolution of a shift/reduce pair by precedence, written from the documented
// rule (independent of lalr.resolvePrec).
const (
	ResUndecidable = iota
	ResShift
	ResReduce
	ResError
)

// PrecTable indexes the precedence declarations of a grammar.
type PrecTable struct {
	g     *lalr.Grammar
	level map[int]int // terminal -> group index (later groups bind tighter)
}

// NewPrecTable builds the index. Terminals are expected in at most one group.
func NewPrecTable(g *lalr.Grammar) *PrecTable {
	p := &PrecTable{g: g, level: map[int]int{}}
	for i, grp := range g.Precedence {
		for _, t := range grp.Terminals {
			p.level[int(t)] = i
		}
	}
	return p
}

// RuleTerminal returns the terminal that gives a rule its precedence: the %prec
// terminal, else the last terminal of the right-hand side (0 = none).
func (p *PrecTable) RuleTerminal(rule int) int {
	r := p.g.Rules[rule]
	if r.Precedence != 0 {
		return int(r.Precedence)
	}
	last := 0
	for _, s := range r.RHS {
		if !s.IsStateMarker() && int(s) < p.g.Terminals && s != lalr.EOI {
			last = int(s)
		}
	}
	return last
}

// Resolve decides between reducing rule and shifting term.
func (p *PrecTable) Resolve(rule, term int) int {
	rt := p.RuleTerminal(rule)
	if rt == 0 || term == int(lalr.EOI) {
		return ResUndecidable
	}
	rl, ok1 := p.level[rt]
	tl, ok2 := p.level[term]
	if !ok1 || !ok2 {
		return ResUndecidable
	}
	if rl > tl {
		return ResReduce
	}
	if rl < tl {
		return ResShift
	}
	switch p.g.Precedence[tl].Associativity {
	case lalr.Left:
		return ResReduce
	case lalr.Right:
		return ResShift
	case lalr.NonAssoc:
		return ResError
	}
	return ResUndecidable
}

// CellStats counts what CompareCells saw.
type CellStats struct {
	States, Cells                              int
	Lr0Reduce                                  int // states reducing without lookahead
	Lr0WithLookahead                           int // single-reduction states that nevertheless consult the lookahead
	ErrorCells, ShiftCells, ReduceCells        int
	SRUndecided, RRUnresolved                  int // definite conflicts
	ResolvedShift, ResolvedReduce, ResolvedErr int // shift + one reduce decided by precedence
	Murky                                      int // shift + several reductions with mixed decisions
	MultiAllShift                              int // shift + several reductions, every pair decided as shift
	LookaheadCells                             int // cells resolved by a runtime-lookahead rule
	LookaheadPartial                           int // conflicts involving lookahead rules and something else
	RefSR, RefRR                               int // exact counts when Murky == 0
}

// CompareCells compares every (state, terminal) action of the tables with the
// reference LALR(1) candidates, applying the documented precedence resolution and
// defaults, and computes the expected conflict counts. lookaheadRejected tells
// that the compiler reported an invalid runtime-lookahead set (then the content of
// the lookahead rules is not checked).
func CompareCells(g *lalr.Grammar, ref *Ref, m *Match, t *lalr.Tables, lookaheadRejected bool, st *CellStats) []Finding {
	var out []Finding
	add := func(sig, format string, a ...any) {
		if len(out) < 20 {
			out = append(out, Finding{sig, fmt.Sprintf(format, a...)})
		}
	}
	prec := NewPrecTable(g)
	nRules := len(g.Rules)
	isLA := make([]bool, len(g.Symbols))
	for _, l := range g.Lookaheads {
		isLA[l.Nonterminal] = true
	}
	laRule := func(r int) bool { return isLA[g.Rules[r].LHS] }
	// targets of a runtime-lookahead rule
	targets := func(rule int) map[int]bool {
		k := rule - nRules
		if k < 0 || k >= len(t.Lookaheads) {
			return nil
		}
		res := map[int]bool{int(t.Lookaheads[k].DefaultTarget): true}
		for _, c := range t.Lookaheads[k].Cases {
			res[int(c.Target)] = true
		}
		return res
	}
	where := func(s, term int) string {
		return fmt.Sprintf("state %d (= %s), terminal %s", s, ref.StateString(m.RefOf[s][0]), SymName(g, term))
	}

	for s := range t.Action {
		if len(m.RefOf[s]) == 0 {
			continue
		}
		st.States++
		reds := ref.Reductions(m.RefOf[s])
		shifts := ref.TermShifts(m.RefOf[s])
		lr0 := len(reds) == 1 && shifts == 0
		if t.Action[s] >= 0 {
			st.Lr0Reduce++
			if !lr0 {
				// narrow class: a pre-final state (augmented item, eoi transition) whose only
				// terminal transition is eoi
				class := "other"
				aug := false
				for _, r := range m.RefOf[s] {
					if ref.States[r].AugItem {
						aug = true
					}
				}
				if aug && shifts == 1 && len(reds) == 1 {
					class = "pre-final-eoi-shift"
				}
				add("cell/reduce-without-lookahead-in-state-needing-lookahead/"+class, "state %d (= %s): Action=%d but the state has reductions %v and terminal shifts (mask) %b", s, ref.StateString(m.RefOf[s][0]), t.Action[s], reds, shifts)
			} else if t.Action[s] != reds[0] {
				add("cell/lr0-state-reduces-wrong-rule", "state %d (= %s): Action=%d, the only reduction is %d", s, ref.StateString(m.RefOf[s][0]), t.Action[s], reds[0])
			}
			continue
		}
		if lr0 {
			// permitted either way: consulting the lookahead is plain LALR(1)
			st.Lr0WithLookahead++
		}
		for term := 0; term < g.Terminals; term++ {
			st.Cells++
			cand := ref.Cell(m.RefOf[s], term)
			act := CellDefault(t, s, term)
			n := len(cand.Reduces)
			// shift target (when the cell shifts) must follow the LR(0) automaton
			if act.Kind == ActShift {
				okTarget := false
				for _, r := range m.RefOf[s] {
					if to, ok := ref.States[r].Trans[term]; ok && m.ImplOf[to] == act.Arg {
						okTarget = true
					}
				}
				if !okTarget && cand.Shift {
					add("cell/shift-target-wrong", "%s: shifts to %d", where(s, term), act.Arg)
				}
			}
			switch {
			case n == 0 && !cand.Shift:
				st.ErrorCells++
				if act.Kind != ActError {
					add("cell/action-where-lalr-has-none/"+kindName(act), "%s: table has %v, LALR(1) has no action", where(s, term), act)
				}
			case n == 0:
				st.ShiftCells++
				if act.Kind != ActShift {
					add("cell/shift-expected/"+kindName(act), "%s: table has %v, LALR(1) has only a shift", where(s, term), act)
				}
			case n == 1 && !cand.Shift:
				st.ReduceCells++
				if act.Kind != ActReduce || act.Arg != cand.Reduces[0] {
					add("cell/reduce-expected/"+kindName(act), "%s: table has %v, LALR(1) has only reduce %d (%s)", where(s, term), act, cand.Reduces[0], RuleString(g, cand.Reduces[0]))
				}
			case n == 1:
				r := cand.Reduces[0]
				switch prec.Resolve(r, term) {
				case ResShift:
					st.ResolvedShift++
					if act.Kind != ActShift {
						add("prec/shift-reduce/should-shift/"+kindName(act), "%s: shift vs reduce %s: precedence says shift, table has %v", where(s, term), RuleString(g, r), act)
					}
				case ResReduce:
					st.ResolvedReduce++
					if act.Kind != ActReduce || act.Arg != r {
						add("prec/shift-reduce/should-reduce/"+kindName(act), "%s: shift vs reduce %s: precedence says reduce, table has %v", where(s, term), RuleString(g, r), act)
					}
				case ResError:
					st.ResolvedErr++
					if act.Kind != ActError {
						add("prec/shift-reduce/should-be-nonassoc-error/"+kindName(act), "%s: shift vs reduce %s: equal precedence, nonassoc => syntax error, table has %v", where(s, term), RuleString(g, r), act)
					}
				default:
					st.SRUndecided++
					st.RefSR++
					if act.Kind != ActShift {
						add("prec/shift-reduce/undecidable-should-default-to-shift/"+kindName(act), "%s: shift vs reduce %s: precedence cannot decide, table has %v", where(s, term), RuleString(g, r), act)
					}
				}
			case !cand.Shift:
				allLA := true
				laLHS := map[int]bool{}
				for _, r := range cand.Reduces {
					if laRule(r) {
						laLHS[int(g.Rules[r].LHS)] = true
					} else {
						allLA = false
					}
				}
				if allLA {
					st.LookaheadCells++
					tg := targets(act.Arg)
					if act.Kind != ActReduce || act.Arg < nRules || tg == nil {
						add("lookahead/cell-not-a-lookahead-rule/"+kindName(act), "%s: candidates are the lookahead rules %v, table has %v", where(s, term), cand.Reduces, act)
					} else if !lookaheadRejected {
						same := len(tg) == len(laLHS)
						for x := range laLHS {
							if !tg[x] {
								same = false
							}
						}
						if !same {
							add("lookahead/rule-targets-differ-from-candidates", "%s: candidates %v, lookahead rule targets %v", where(s, term), cand.Reduces, keys(tg))
						}
					}
					break
				}
				st.RRUnresolved++
				st.RefRR++
				if len(laLHS) > 0 {
					st.LookaheadPartial++
				}
				first := cand.Reduces[0]
				ok := act.Kind == ActReduce && act.Arg == first
				if !ok && act.Kind == ActReduce && act.Arg >= nRules && laRule(first) {
					// earlier lookahead rules were merged into a runtime rule before the conflict appeared
					if tg := targets(act.Arg); tg != nil && lookaheadRejected {
						ok = true
					} else if tg != nil && tg[int(g.Rules[first].LHS)] {
						ok = true
						for x := range tg {
							if !laLHS[x] {
								ok = false
							}
						}
					}
				}
				if !ok {
					add("defaults/reduce-reduce-should-pick-earlier-rule/"+kindName(act), "%s: reduce/reduce among %v, table has %v", where(s, term), cand.Reduces, act)
				}
			default:
				// shift and several reductions
				var nShift, nReduce, nErr, nUndec int
				for _, r := range cand.Reduces {
					switch prec.Resolve(r, term) {
					case ResShift:
						nShift++
					case ResReduce:
						nReduce++
					case ResError:
						nErr++
					default:
						nUndec++
					}
				}
				switch {
				case nUndec == n:
					st.SRUndecided++
					st.RefSR++
					if act.Kind != ActShift {
						add("prec/shift-multi-reduce/undecidable-should-default-to-shift/"+kindName(act), "%s: shift vs reductions %v, nothing decidable, table has %v", where(s, term), cand.Reduces, act)
					}
				case nShift == n:
					st.MultiAllShift++
					if act.Kind != ActShift {
						add("prec/shift-multi-reduce/all-pairs-say-shift/"+kindName(act), "%s: shift vs reductions %v, every pair resolves to shift, table has %v", where(s, term), cand.Reduces, act)
					}
				default:
					st.Murky++
					ok := false
					switch act.Kind {
					case ActShift:
						ok = true
					case ActError:
						ok = nErr > 0
					case ActReduce:
						for _, r := range cand.Reduces {
							if r == act.Arg {
								ok = true
							}
						}
						if act.Arg >= nRules && targets(act.Arg) != nil {
							ok = true
						}
					}
					if !ok {
						add("prec/shift-multi-reduce/action-not-among-candidates/"+kindName(act), "%s: shift vs reductions %v, table has %v", where(s, term), cand.Reduces, act)
					}
				}
			}
		}
	}
	return out
}

func keys(m map[int]bool) []int {
	var k []int
	for x := range m {
		k = append(k, x)
	}
	sort.Ints(k)
	return k
}
