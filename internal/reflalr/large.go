package reflalr

import (
	"fmt"
	"math/rand"

	"github.com/inspirer/textmapper/lalr"
)

// LargeGrammar builds a statement/expression skeleton with many operators
// (80-400 LALR states): binary operators resolved by precedence declarations,
// optional stratified operator layers, prefix/postfix operators, calls, blocks,
// if/else, loops, lists with separators, nullable parts, several inputs and,
// optionally, a pair of runtime-lookahead nonterminals.
func LargeGrammar(r *rand.Rand) *lalr.Grammar {
	g := &lalr.Grammar{Origin: Node(0)}
	g.Symbols = []string{"eoi"}
	term := func(name string) lalr.Sym {
		g.Symbols = append(g.Symbols, name)
		return lalr.Sym(len(g.Symbols) - 1)
	}
	id, num := term("id"), term("num")
	lp, rp, lb, rb := term("("), term(")"), term("{"), term("}")
	semi, comma, assign := term(";"), term(","), term("=")
	kwIf, kwElse, kwWhile, kwRet, kwFor := term("if"), term("else"), term("while"), term("return"), term("for")
	lsq, rsq := term("["), term("]")
	kwLet := term("let")
	nBin := 10 + r.Intn(40)
	switch r.Intn(6) {
	case 0, 1:
		nBin = 40 + r.Intn(70)
	case 2:
		nBin = 110 + r.Intn(60)
	}
	var bins, pres, posts, strat []lalr.Sym
	for i := 0; i < nBin; i++ {
		bins = append(bins, term(fmt.Sprintf("b%d", i)))
	}
	for i, n := 0, r.Intn(5); i < n; i++ {
		pres = append(pres, term(fmt.Sprintf("p%d", i)))
	}
	if r.Intn(2) == 0 && len(bins) > 0 {
		pres = append(pres, bins[r.Intn(len(bins))])
	}
	for i, n := 0, r.Intn(4); i < n; i++ {
		posts = append(posts, term(fmt.Sprintf("q%d", i)))
	}
	nStrat := r.Intn(4)
	for i := 0; i < nStrat; i++ {
		strat = append(strat, term(fmt.Sprintf("s%d", i)))
	}
	g.Terminals = len(g.Symbols)
	nt := func(name string) lalr.Sym {
		g.Symbols = append(g.Symbols, name)
		return lalr.Sym(len(g.Symbols) - 1)
	}
	program, stmtList, stmt, block := nt("Program"), nt("StmtList"), nt("Stmt"), nt("Block")
	expr, optX, args, argList := nt("E"), nt("OptX"), nt("Args"), nt("ArgList")
	// stratified layers X0 (top) .. X{n-1} over E
	layers := make([]lalr.Sym, nStrat+1)
	for i := 0; i < nStrat; i++ {
		layers[i] = nt(fmt.Sprintf("X%d", i))
	}
	layers[nStrat] = expr
	top := layers[0]

	rule := func(lhs lalr.Sym, rhs ...lalr.Sym) int {
		g.Rules = append(g.Rules, lalr.Rule{LHS: lhs, RHS: rhs, Type: -1, Origin: Node(len(g.Rules) + 1)})
		return len(g.Rules) - 1
	}
	rule(program, stmtList)
	if r.Intn(2) == 0 {
		rule(stmtList)
		rule(stmtList, stmtList, stmt)
	} else {
		rule(stmtList, stmt)
		rule(stmtList, stmtList, stmt)
	}
	rule(stmt, block)
	ifRule := rule(stmt, kwIf, lp, top, rp, stmt)
	rule(stmt, kwIf, lp, top, rp, stmt, kwElse, stmt)
	if r.Intn(4) != 0 {
		rule(stmt, kwWhile, lp, top, rp, stmt)
	}
	if r.Intn(4) != 0 {
		rule(stmt, kwRet, optX, semi)
	}
	rule(stmt, top, semi)
	if r.Intn(2) == 0 {
		rule(stmt, id, assign, top, semi)
	}
	if r.Intn(2) == 0 {
		rule(stmt, kwFor, lp, optX, semi, optX, semi, optX, rp, stmt)
	}
	if r.Intn(2) == 0 {
		rule(stmt, semi)
	}
	rule(block, lb, stmtList, rb)
	rule(optX)
	rule(optX, top)
	for i := 0; i < nStrat; i++ {
		if r.Intn(2) == 0 {
			rule(layers[i], layers[i], strat[i], layers[i+1]) // left recursive
		} else {
			rule(layers[i], layers[i+1], strat[i], layers[i]) // right recursive
		}
		rule(layers[i], layers[i+1])
	}
	for _, b := range bins {
		rule(expr, expr, b, expr)
	}
	seen := map[lalr.Sym]bool{}
	for _, p := range pres {
		if seen[p] {
			continue
		}
		seen[p] = true
		ri := rule(expr, p, expr)
		if r.Intn(2) == 0 {
			g.Rules[ri].Precedence = bins[r.Intn(len(bins))]
		}
	}
	for _, q := range posts {
		rule(expr, expr, q)
	}
	rule(expr, lp, top, rp)
	rule(expr, id)
	rule(expr, num)
	if r.Intn(3) != 0 {
		rule(expr, id, lp, args, rp)
		rule(args)
		rule(args, argList)
		rule(argList, top)
		rule(argList, argList, comma, top)
	}
	if r.Intn(3) == 0 {
		rule(expr, expr, lsq, top, rsq)
	}

	// precedence: every binary/prefix/postfix operator gets a group (a few are left
	// out so that real conflicts remain), the dangling else is sometimes resolved.
	nGroups := 2 + r.Intn(12)
	groups := make([]lalr.Precedence, nGroups)
	for i := range groups {
		groups[i].Associativity = lalr.Associativity(r.Intn(3))
	}
	var ops []lalr.Sym
	ops = append(ops, bins...)
	for _, p := range pres {
		if !contains(bins, p) {
			ops = append(ops, p)
		}
	}
	ops = append(ops, posts...)
	leaveOut := r.Intn(3) == 0
	for _, t := range ops {
		if leaveOut && r.Intn(20) == 0 {
			continue
		}
		gi := r.Intn(nGroups)
		groups[gi].Terminals = append(groups[gi].Terminals, t)
	}
	if r.Intn(2) == 0 {
		groups = append([]lalr.Precedence{{Associativity: lalr.Right, Terminals: []lalr.Sym{kwElse}}}, groups...)
		g.Rules[ifRule].Precedence = kwElse
	}
	if r.Intn(3) == 0 {
		groups = append(groups, lalr.Precedence{Associativity: lalr.Left, Terminals: []lalr.Sym{lsq}})
	}
	for _, p := range groups {
		if len(p.Terminals) > 0 {
			g.Precedence = append(g.Precedence, p)
		}
	}

	g.Inputs = []lalr.Input{{Nonterminal: program, Eoi: true}}
	if r.Intn(2) == 0 {
		g.Inputs = append(g.Inputs, lalr.Input{Nonterminal: top, Eoi: r.Intn(2) == 0})
	}
	if r.Intn(3) == 0 {
		g.Inputs = append(g.Inputs, lalr.Input{Nonterminal: stmt, Eoi: false})
	}

	// runtime lookahead: Stmt: LDecl id id ';' | LExpr-guarded expression statement
	if r.Intn(3) == 0 {
		declStart := nt("DeclStart")
		rule(declStart, id, id)
		g.Inputs = append(g.Inputs, lalr.Input{Nonterminal: declStart, Eoi: false})
		pi := int32(len(g.Inputs) - 1)
		lDecl, lExpr := nt("LDecl"), nt("LExpr")
		g.Lookaheads = append(g.Lookaheads,
			lalr.Lookahead{Nonterminal: lDecl, Predicates: []lalr.Predicate{{Input: pi}}, Origin: Node(1000)},
			lalr.Lookahead{Nonterminal: lExpr, Predicates: []lalr.Predicate{{Input: pi, Negated: true}}, Origin: Node(1001)})
		rule(lDecl)
		rule(lExpr)
		rule(stmt, kwLet, lDecl, id, id, semi)
		rule(stmt, kwLet, lExpr, id, comma, top, semi)
	}

	// rule classes: a handful of actions/types so that minimisation has both
	// mergeable and non-mergeable states
	for i := range g.Rules {
		if r.Intn(6) == 0 {
			g.Rules[i].Action = 1 + r.Intn(3)
		}
		if r.Intn(6) == 0 {
			g.Rules[i].Type = r.Intn(3)
		}
	}
	for _, la := range g.Lookaheads {
		for ri := range g.Rules {
			if g.Rules[ri].LHS == la.Nonterminal {
				g.Rules[ri].Action, g.Rules[ri].Type = 0, -1
			}
		}
	}
	if r.Intn(2) == 0 {
		g.Markers = []string{"recover", "scope"}
		for i := range g.Rules {
			if r.Intn(10) == 0 && len(g.Rules[i].RHS) > 0 {
				rhs := g.Rules[i].RHS
				pos := r.Intn(len(rhs) + 1)
				nr := append([]lalr.Sym{}, rhs[:pos]...)
				nr = append(nr, lalr.Marker(r.Intn(2)))
				nr = append(nr, rhs[pos:]...)
				g.Rules[i].RHS = nr
			}
		}
	}
	return g
}

func contains(l []lalr.Sym, s lalr.Sym) bool {
	for _, x := range l {
		if x == s {
			return true
		}
	}
	return false
}

// AllShiftGrammar builds a grammar with one cell that holds a shift and k >= 2
// reductions, every one of which loses against the shift by precedence (lower
// group, or the same %right group), and no other ambiguity:
//
//	S: A_1 t | A_2 t t | ... | w t^(k+1) ;   A_i: w [%prec ..]
//
// The documented outcome is: shift, no conflict counted.
func AllShiftGrammar(r *rand.Rand) *lalr.Grammar {
	g := &lalr.Grammar{Origin: Node(0)}
	g.Symbols = []string{"eoi"}
	term := func(name string) lalr.Sym {
		g.Symbols = append(g.Symbols, name)
		return lalr.Sym(len(g.Symbols) - 1)
	}
	t := term("t")
	nw := 1 + r.Intn(3)
	var w []lalr.Sym
	for i := 0; i < nw; i++ {
		w = append(w, term(fmt.Sprintf("w%d", i)))
	}
	lowA, lowB := term("LOW1"), term("LOW2")
	g.Terminals = len(g.Symbols)
	k := 2 + r.Intn(3)
	S := lalr.Sym(len(g.Symbols))
	g.Symbols = append(g.Symbols, "S")
	var A []lalr.Sym
	for i := 0; i < k; i++ {
		A = append(A, lalr.Sym(len(g.Symbols)))
		g.Symbols = append(g.Symbols, fmt.Sprintf("A%d", i))
	}
	type proto struct {
		lhs  lalr.Sym
		rhs  []lalr.Sym
		prec lalr.Sym
	}
	var ps []proto
	rep := func(n int) []lalr.Sym {
		var out []lalr.Sym
		for i := 0; i < n; i++ {
			out = append(out, t)
		}
		return out
	}
	for i := 0; i < k; i++ {
		ps = append(ps, proto{S, append([]lalr.Sym{A[i]}, rep(i+1)...), 0})
		p := proto{lhs: A[i], rhs: append([]lalr.Sym{}, w...)}
		switch r.Intn(3) {
		case 1:
			p.prec = lowA
		case 2:
			p.prec = lowB
		}
		ps = append(ps, p)
	}
	ps = append(ps, proto{S, append(append([]lalr.Sym{}, w...), rep(k+1)...), 0})
	r.Shuffle(len(ps), func(i, j int) { ps[i], ps[j] = ps[j], ps[i] })
	for i, p := range ps {
		g.Rules = append(g.Rules, lalr.Rule{LHS: p.lhs, RHS: p.rhs, Precedence: p.prec, Type: -1, Origin: Node(i + 1)})
	}
	// precedence: the last terminal of w, LOW1 and LOW2 below t - or in t's own %right group
	last := w[len(w)-1]
	if r.Intn(3) == 0 {
		g.Precedence = []lalr.Precedence{{Associativity: lalr.Right, Terminals: []lalr.Sym{last, lowA, lowB, t}}}
	} else {
		lowAssoc := lalr.Associativity(r.Intn(3))
		if r.Intn(2) == 0 {
			g.Precedence = []lalr.Precedence{{Associativity: lowAssoc, Terminals: []lalr.Sym{last, lowA}}, {Associativity: lalr.Associativity(r.Intn(3)), Terminals: []lalr.Sym{lowB}}, {Associativity: lalr.Associativity(r.Intn(3)), Terminals: []lalr.Sym{t}}}
		} else {
			g.Precedence = []lalr.Precedence{{Associativity: lowAssoc, Terminals: []lalr.Sym{last, lowA, lowB}}, {Associativity: lalr.Associativity(r.Intn(3)), Terminals: []lalr.Sym{t}}}
		}
	}
	g.Inputs = []lalr.Input{{Nonterminal: S, Eoi: true}}
	return g
}

// HashCollisionGrammar builds a keyword-table grammar with about a thousand rules
// in which pairs of states have action rows over the same two terminals whose
// values differ by (+1, -961): exactly the rows for which the polynomial row hash
// of lalr/optimize.go (h = h*31 + pos; h = h*31 + val) collides, so the row
// de-duplication of the displacement packer must tell them apart by value.
//
//	S: A_i p_i | D_i q_i | B_i p_i | C_i q_i | K ;  A_i: a_i ; D_i: a_i ; B_i: b_i ; C_i: b_i ; K: <keywords>
//
// with rule(B_i) = rule(A_i)+1 and rule(D_i) = rule(C_i)+961.
func HashCollisionGrammar(r *rand.Rand) *lalr.Grammar {
	g := &lalr.Grammar{Origin: Node(0)}
	g.Symbols = []string{"eoi"}
	term := func(name string) lalr.Sym {
		g.Symbols = append(g.Symbols, name)
		return lalr.Sym(len(g.Symbols) - 1)
	}
	pairs := 1 + r.Intn(3)
	y, z := term("y"), term("z")
	var a, b, p, q []lalr.Sym
	for i := 0; i < pairs; i++ {
		a = append(a, term(fmt.Sprintf("a%d", i)))
		b = append(b, term(fmt.Sprintf("b%d", i)))
		if i == 0 || r.Intn(2) == 0 {
			p = append(p, term(fmt.Sprintf("p%d", i)))
			q = append(q, term(fmt.Sprintf("q%d", i)))
		} else {
			p = append(p, p[0])
			q = append(q, q[0])
		}
	}
	g.Terminals = len(g.Symbols)
	nt := func(name string) lalr.Sym {
		g.Symbols = append(g.Symbols, name)
		return lalr.Sym(len(g.Symbols) - 1)
	}
	S, K := nt("S"), nt("K")
	var A, B, C, D []lalr.Sym
	for i := 0; i < pairs; i++ {
		A = append(A, nt(fmt.Sprintf("A%d", i)))
		B = append(B, nt(fmt.Sprintf("B%d", i)))
		C = append(C, nt(fmt.Sprintf("C%d", i)))
		D = append(D, nt(fmt.Sprintf("D%d", i)))
	}
	rule := func(lhs lalr.Sym, rhs ...lalr.Sym) {
		g.Rules = append(g.Rules, lalr.Rule{LHS: lhs, RHS: rhs, Type: -1, Origin: Node(len(g.Rules) + 1)})
	}
	// distinct keywords of length 10-11 over {y, z}
	words := r.Perm(2048)
	wi := 0
	keyword := func() {
		code := words[wi]
		wi++
		n := 10
		if code >= 1024 {
			n = 11
			code -= 1024
		}
		var rhs []lalr.Sym
		for k := 0; k < n; k++ {
			if code&(1<<k) != 0 {
				rhs = append(rhs, z)
			} else {
				rhs = append(rhs, y)
			}
		}
		rule(K, rhs...)
	}
	for n := r.Intn(5); n > 0; n-- {
		keyword()
	}
	// A_i, B_i consecutive; then C_i; D_i exactly 961 rules after C_i
	base := make([]int, pairs)
	for i := 0; i < pairs; i++ {
		rule(A[i], a[i])
		rule(B[i], b[i])
		base[i] = len(g.Rules)
		rule(C[i], b[i])
	}
	for i := 0; i < pairs; i++ {
		for len(g.Rules) < base[i]+961 {
			keyword()
		}
		rule(D[i], a[i])
	}
	for i := 0; i < pairs; i++ {
		rule(S, A[i], p[i])
		rule(S, D[i], q[i])
		rule(S, B[i], p[i])
		rule(S, C[i], q[i])
	}
	rule(S, K)
	g.Inputs = []lalr.Input{{Nonterminal: S, Eoi: true}}
	return g
}
