package reflalr

import (
	"sort"
	"strconv"
	"strings"

	"github.com/inspirer/textmapper/lalr"
)

// Reference LALR(1): canonical LR(1) item sets (items carry explicit lookahead
// sets, states are identified by kernel items WITH their lookaheads), then merged
// by LR(0) core. The grammar is augmented with one rule per input:
//
//	S'_i -> N_i eoi      (Eoi input)
//	S'_i -> N_i          (no-eoi input; lookahead = every terminal)
//
// Nothing here shares code or algorithms with lalr/compile.go (which uses
// DeRemer-Pennello style follow sets over goto transitions).

// Ref is the reference automaton.
type Ref struct {
	G      *lalr.Grammar
	NT     int     // number of terminals
	NRules int     // real rules; augmented rules follow
	LHS    []int   // per rule (augmented: -1-i)
	RHS    [][]int // per rule, without markers
	base   []int   // first item id of each rule
	ruleOf []int   // item -> rule
	dotOf  []int   // item -> dot

	nullable []bool   // per symbol
	first    []uint64 // per symbol: terminal mask

	States []*RefState
	Start  []int // LALR state of each input
	Final  []int // LALR state the parser stops in for each input (-1 if none)
	LR1    int   // number of canonical LR(1) states built
}

// RefState is one LALR(1) state.
type RefState struct {
	Core    []int          // kernel item ids, sorted (includes augmented items)
	Trans   map[int]int    // symbol -> state
	Reduce  map[int]uint64 // real rule -> lookahead terminals
	Shift   uint64         // terminals with a shift
	AugItem bool           // kernel contains an augmented item
}

// RealCore returns the kernel without augmented items, as a string key.
func (r *Ref) RealCore(s *RefState) string {
	var b strings.Builder
	for _, it := range s.Core {
		if r.ruleOf[it] < r.NRules {
			b.WriteString(strconv.Itoa(it))
			b.WriteByte(',')
		}
	}
	return b.String()
}

// ItemString prints an item.
func (r *Ref) ItemString(it int) string {
	rule, dot := r.ruleOf[it], r.dotOf[it]
	var b strings.Builder
	if rule >= r.NRules {
		b.WriteString("S'" + strconv.Itoa(rule-r.NRules))
	} else {
		b.WriteString(SymName(r.G, r.LHS[rule]))
	}
	b.WriteString(" ->")
	for i, s := range r.RHS[rule] {
		if i == dot {
			b.WriteString(" .")
		}
		b.WriteByte(' ')
		b.WriteString(SymName(r.G, s))
	}
	if dot == len(r.RHS[rule]) {
		b.WriteString(" .")
	}
	return b.String()
}

// StateString prints the kernel of a state.
func (r *Ref) StateString(s int) string {
	var parts []string
	for _, it := range r.States[s].Core {
		parts = append(parts, r.ItemString(it))
	}
	return "{" + strings.Join(parts, "; ") + "}"
}

type lr1State struct {
	kernel  []int    // items sorted
	kmask   []uint64 // lookaheads of kernel items
	closure map[int]uint64
	trans   map[int]int
}

// BuildRef constructs the reference LALR(1) automaton. It returns nil when the
// grammar has more than 63 terminals or the canonical collection exceeds maxLR1.
func BuildRef(g *lalr.Grammar, maxLR1 int) *Ref {
	if g.Terminals > 63 {
		return nil
	}
	r := &Ref{G: g, NT: g.Terminals, NRules: len(g.Rules)}
	for _, rule := range g.Rules {
		r.LHS = append(r.LHS, int(rule.LHS))
		r.RHS = append(r.RHS, StripMarkers(rule.RHS))
	}
	for i, in := range g.Inputs {
		r.LHS = append(r.LHS, -1-i)
		rhs := []int{int(in.Nonterminal)}
		if in.Eoi {
			rhs = append(rhs, int(lalr.EOI))
		}
		r.RHS = append(r.RHS, rhs)
	}
	for i, rhs := range r.RHS {
		r.base = append(r.base, len(r.ruleOf))
		for d := 0; d <= len(rhs); d++ {
			r.ruleOf = append(r.ruleOf, i)
			r.dotOf = append(r.dotOf, d)
		}
	}
	nsym := len(g.Symbols)
	byLHS := make([][]int, nsym)
	for i := 0; i < r.NRules; i++ {
		byLHS[r.LHS[i]] = append(byLHS[r.LHS[i]], i)
	}

	// nullable and FIRST by naive fixpoint iteration.
	r.nullable = make([]bool, nsym)
	r.first = make([]uint64, nsym)
	for t := 0; t < r.NT; t++ {
		r.first[t] = 1 << uint(t)
	}
	for changed := true; changed; {
		changed = false
		for i := 0; i < r.NRules; i++ {
			lhs := r.LHS[i]
			allNull := true
			f := r.first[lhs]
			for _, s := range r.RHS[i] {
				f |= r.first[s]
				if !r.nullable[s] {
					allNull = false
					break
				}
			}
			if f != r.first[lhs] {
				r.first[lhs] = f
				changed = true
			}
			if allNull && !r.nullable[lhs] {
				r.nullable[lhs] = true
				changed = true
			}
		}
	}

	allTerms := uint64(1)<<uint(r.NT) - 1

	closure := func(kernel []int, kmask []uint64) map[int]uint64 {
		cl := make(map[int]uint64, len(kernel)*4)
		var work []int
		for i, it := range kernel {
			cl[it] |= kmask[i]
			work = append(work, it)
		}
		for len(work) > 0 {
			it := work[len(work)-1]
			work = work[:len(work)-1]
			rule, dot := r.ruleOf[it], r.dotOf[it]
			rhs := r.RHS[rule]
			if dot >= len(rhs) || rhs[dot] < r.NT {
				continue
			}
			// lookahead for the new items: FIRST(beta la)
			var la uint64
			rest := true
			for _, s := range rhs[dot+1:] {
				la |= r.first[s]
				if !r.nullable[s] {
					rest = false
					break
				}
			}
			if rest {
				la |= cl[it]
			}
			for _, nr := range byLHS[rhs[dot]] {
				ni := r.base[nr]
				if old := cl[ni]; old|la != old || !has(cl, ni) {
					cl[ni] = old | la
					work = append(work, ni)
				}
			}
		}
		return cl
	}

	key := func(kernel []int, kmask []uint64) string {
		var b strings.Builder
		for i, it := range kernel {
			b.WriteString(strconv.Itoa(it))
			b.WriteByte(':')
			b.WriteString(strconv.FormatUint(kmask[i], 16))
			b.WriteByte(',')
		}
		return b.String()
	}

	var states []*lr1State
	index := map[string]int{}
	add := func(kernel []int, kmask []uint64) int {
		k := key(kernel, kmask)
		if id, ok := index[k]; ok {
			return id
		}
		st := &lr1State{kernel: kernel, kmask: kmask, trans: map[int]int{}}
		index[k] = len(states)
		states = append(states, st)
		return len(states) - 1
	}
	var starts []int
	for i, in := range g.Inputs {
		la := allTerms
		if in.Eoi {
			la = 0 // the augmented rule contains eoi explicitly; its own lookahead is irrelevant
		}
		// distinct kernels (different augmented rules) => distinct states even for equal inputs
		starts = append(starts, add([]int{r.base[r.NRules+i]}, []uint64{la}))
	}
	for si := 0; si < len(states); si++ {
		if len(states) > maxLR1 {
			return nil
		}
		st := states[si]
		st.closure = closure(st.kernel, st.kmask)
		// group by symbol after the dot
		next := map[int]map[int]uint64{}
		for it, la := range st.closure {
			rule, dot := r.ruleOf[it], r.dotOf[it]
			rhs := r.RHS[rule]
			if dot >= len(rhs) {
				continue
			}
			m := next[rhs[dot]]
			if m == nil {
				m = map[int]uint64{}
				next[rhs[dot]] = m
			}
			m[it+1] |= la
		}
		syms := make([]int, 0, len(next))
		for s := range next {
			syms = append(syms, s)
		}
		sort.Ints(syms)
		for _, s := range syms {
			m := next[s]
			kernel := make([]int, 0, len(m))
			for it := range m {
				kernel = append(kernel, it)
			}
			sort.Ints(kernel)
			kmask := make([]uint64, len(kernel))
			for i, it := range kernel {
				kmask[i] = m[it]
			}
			st.trans[s] = add(kernel, kmask)
		}
	}
	r.LR1 = len(states)

	// merge by core
	coreKey := func(kernel []int) string {
		var b strings.Builder
		for _, it := range kernel {
			b.WriteString(strconv.Itoa(it))
			b.WriteByte(',')
		}
		return b.String()
	}
	merged := map[string]int{}
	lalrOf := make([]int, len(states))
	for i, st := range states {
		k := coreKey(st.kernel)
		id, ok := merged[k]
		if !ok {
			id = len(r.States)
			merged[k] = id
			rs := &RefState{Core: st.kernel, Trans: map[int]int{}, Reduce: map[int]uint64{}}
			for _, it := range st.kernel {
				if r.ruleOf[it] >= r.NRules {
					rs.AugItem = true
				}
			}
			r.States = append(r.States, rs)
		}
		lalrOf[i] = id
	}
	for i, st := range states {
		rs := r.States[lalrOf[i]]
		for s, to := range st.trans {
			rs.Trans[s] = lalrOf[to]
			if s < r.NT {
				rs.Shift |= 1 << uint(s)
			}
		}
		for it, la := range st.closure {
			rule, dot := r.ruleOf[it], r.dotOf[it]
			if dot == len(r.RHS[rule]) && rule < r.NRules {
				rs.Reduce[rule] |= la
			}
		}
	}
	for i, in := range g.Inputs {
		s := lalrOf[starts[i]]
		r.Start = append(r.Start, s)
		f, ok := r.States[s].Trans[int(in.Nonterminal)]
		if ok && in.Eoi {
			f, ok = r.States[f].Trans[int(lalr.EOI)]
		}
		if !ok {
			f = -1
		}
		r.Final = append(r.Final, f)
	}
	return r
}

func has(m map[int]uint64, k int) bool {
	_, ok := m[k]
	return ok
}

// Cand describes the candidate actions of one (state, terminal) cell.
type Cand struct {
	Shift   bool
	Reduces []int // sorted rule indices
}

// Cell returns the LALR(1) candidates for a set of reference states (several when
// the implementation identifies states that the reference keeps apart).
func (r *Ref) Cell(states []int, term int) Cand {
	var c Cand
	seen := map[int]bool{}
	for _, s := range states {
		st := r.States[s]
		if st.Shift&(1<<uint(term)) != 0 {
			c.Shift = true
		}
		for rule, la := range st.Reduce {
			if la&(1<<uint(term)) != 0 && !seen[rule] {
				seen[rule] = true
				c.Reduces = append(c.Reduces, rule)
			}
		}
	}
	sort.Ints(c.Reduces)
	return c
}

// Reductions returns the sorted set of rules with a complete item in the states.
func (r *Ref) Reductions(states []int) []int {
	seen := map[int]bool{}
	var out []int
	for _, s := range states {
		for rule := range r.States[s].Reduce {
			if !seen[rule] {
				seen[rule] = true
				out = append(out, rule)
			}
		}
	}
	sort.Ints(out)
	return out
}

// TermShifts returns the union of the terminal shift masks.
func (r *Ref) TermShifts(states []int) uint64 {
	var m uint64
	for _, s := range states {
		m |= r.States[s].Shift
	}
	return m
}
