// Package reflalr holds the independent reference machinery for the LALR table
// properties (C03-C06, C08): random lalr.Grammar generators, a canonical
// LR(1)->LALR(1) reference construction, interpreters that decode lalr.Tables the
// way the generated Go parser does (both encodings), an encoding comparator and a
// bisimulation checker for minimisation.
package reflalr

import (
	"encoding/json"
	"fmt"
	"strings"

	"github.com/inspirer/textmapper/lalr"
	"github.com/inspirer/textmapper/status"
)

// Node is a status.SourceNode for generated grammars (lalr.Compile dereferences
// the Origin of rules, lookaheads and the grammar when it reports errors).
type Node int

// SourceRange implements status.SourceNode.
func (n Node) SourceRange() status.SourceRange {
	return status.SourceRange{Filename: "g", Line: int(n) + 1, Column: 1}
}

// NumNonterms returns the number of nonterminals of g.
func NumNonterms(g *lalr.Grammar) int { return len(g.Symbols) - g.Terminals }

// StripMarkers returns the RHS of a rule without state markers.
func StripMarkers(rhs []lalr.Sym) []int {
	out := make([]int, 0, len(rhs))
	for _, s := range rhs {
		if !s.IsStateMarker() {
			out = append(out, int(s))
		}
	}
	return out
}

// Clone returns a deep copy of g (Origins are shared).
func Clone(g *lalr.Grammar) *lalr.Grammar {
	c := *g
	c.Inputs = append([]lalr.Input(nil), g.Inputs...)
	c.Symbols = append([]string(nil), g.Symbols...)
	c.Markers = append([]string(nil), g.Markers...)
	c.Rules = make([]lalr.Rule, len(g.Rules))
	for i, r := range g.Rules {
		r.RHS = append([]lalr.Sym(nil), r.RHS...)
		r.Flags = append([]string(nil), r.Flags...)
		c.Rules[i] = r
	}
	c.Precedence = make([]lalr.Precedence, len(g.Precedence))
	for i, p := range g.Precedence {
		p.Terminals = append([]lalr.Sym(nil), p.Terminals...)
		c.Precedence[i] = p
	}
	c.Lookaheads = make([]lalr.Lookahead, len(g.Lookaheads))
	for i, l := range g.Lookaheads {
		l.Predicates = append([]lalr.Predicate(nil), l.Predicates...)
		c.Lookaheads[i] = l
	}
	return &c
}

// SymName returns a printable name of a symbol.
func SymName(g *lalr.Grammar, s int) string {
	if s < 0 {
		m := lalr.Sym(s).AsMarker()
		if m < len(g.Markers) {
			return "." + g.Markers[m]
		}
		return fmt.Sprintf(".m%d", m)
	}
	if s < len(g.Symbols) {
		return g.Symbols[s]
	}
	return fmt.Sprintf("sym%d", s)
}

// RuleString prints rule i.
func RuleString(g *lalr.Grammar, i int) string {
	if i >= len(g.Rules) {
		return fmt.Sprintf("<lookahead-rule %d>", i-len(g.Rules))
	}
	r := g.Rules[i]
	var b strings.Builder
	fmt.Fprintf(&b, "%s ->", SymName(g, int(r.LHS)))
	for _, s := range r.RHS {
		b.WriteByte(' ')
		b.WriteString(SymName(g, int(s)))
	}
	if r.Precedence != 0 {
		fmt.Fprintf(&b, " %%prec %s", SymName(g, int(r.Precedence)))
	}
	return b.String()
}

// Format prints a grammar in a readable form (for replay directories).
func Format(g *lalr.Grammar) string {
	var b strings.Builder
	fmt.Fprintf(&b, "terminals=%d symbols=%v\n", g.Terminals, g.Symbols)
	b.WriteString("inputs:")
	for i, in := range g.Inputs {
		e := "eoi"
		if !in.Eoi {
			e = "no-eoi"
		}
		fmt.Fprintf(&b, " %d:%s(%s)", i, SymName(g, int(in.Nonterminal)), e)
	}
	b.WriteByte('\n')
	for i, p := range g.Precedence {
		fmt.Fprintf(&b, "prec %d %s:", i, p.Associativity)
		for _, t := range p.Terminals {
			b.WriteByte(' ')
			b.WriteString(SymName(g, int(t)))
		}
		b.WriteByte('\n')
	}
	for _, l := range g.Lookaheads {
		fmt.Fprintf(&b, "lookahead %s = (?=", SymName(g, int(l.Nonterminal)))
		for i, p := range l.Predicates {
			if i > 0 {
				b.WriteString(" &")
			}
			b.WriteByte(' ')
			if p.Negated {
				b.WriteByte('!')
			}
			fmt.Fprintf(&b, "input%d", p.Input)
		}
		b.WriteString(")\n")
	}
	if len(g.Markers) > 0 {
		fmt.Fprintf(&b, "markers: %v\n", g.Markers)
	}
	for i, r := range g.Rules {
		fmt.Fprintf(&b, "%3d: %s", i, RuleString(g, i))
		if r.Action != 0 || r.Type != -1 || len(r.Flags) > 0 {
			fmt.Fprintf(&b, "   {action=%d type=%d flags=%v}", r.Action, r.Type, r.Flags)
		}
		b.WriteByte('\n')
	}
	fmt.Fprintf(&b, "expect sr=%d rr=%d\n", g.ExpectSR, g.ExpectRR)
	return b.String()
}

type jsonRule struct {
	LHS    int      `json:"lhs"`
	RHS    []int    `json:"rhs"`
	Prec   int      `json:"prec,omitempty"`
	Action int      `json:"action,omitempty"`
	Type   int      `json:"type"`
	Flags  []string `json:"flags,omitempty"`
}
type jsonPrec struct {
	Assoc int   `json:"assoc"`
	Terms []int `json:"terms"`
}
type jsonPred struct {
	Input   int32 `json:"input"`
	Negated bool  `json:"neg,omitempty"`
}
type jsonLA struct {
	NT    int        `json:"nt"`
	Preds []jsonPred `json:"preds"`
}
type jsonInput struct {
	NT  int  `json:"nt"`
	Eoi bool `json:"eoi"`
}
type jsonGrammar struct {
	Terminals  int         `json:"terminals"`
	Symbols    []string    `json:"symbols"`
	Inputs     []jsonInput `json:"inputs"`
	Rules      []jsonRule  `json:"rules"`
	Precedence []jsonPrec  `json:"prec,omitempty"`
	Lookaheads []jsonLA    `json:"lookaheads,omitempty"`
	Markers    []string    `json:"markers,omitempty"`
	ExpectSR   int         `json:"expect_sr"`
	ExpectRR   int         `json:"expect_rr"`
}

// ToJSON serialises a grammar exactly (for replay).
func ToJSON(g *lalr.Grammar) string {
	j := jsonGrammar{Terminals: g.Terminals, Symbols: g.Symbols, Markers: g.Markers, ExpectSR: g.ExpectSR, ExpectRR: g.ExpectRR}
	for _, in := range g.Inputs {
		j.Inputs = append(j.Inputs, jsonInput{int(in.Nonterminal), in.Eoi})
	}
	for _, r := range g.Rules {
		jr := jsonRule{LHS: int(r.LHS), Prec: int(r.Precedence), Action: r.Action, Type: r.Type, Flags: r.Flags, RHS: []int{}}
		for _, s := range r.RHS {
			jr.RHS = append(jr.RHS, int(s))
		}
		j.Rules = append(j.Rules, jr)
	}
	for _, p := range g.Precedence {
		jp := jsonPrec{Assoc: int(p.Associativity)}
		for _, t := range p.Terminals {
			jp.Terms = append(jp.Terms, int(t))
		}
		j.Precedence = append(j.Precedence, jp)
	}
	for _, l := range g.Lookaheads {
		jl := jsonLA{NT: int(l.Nonterminal)}
		for _, p := range l.Predicates {
			jl.Preds = append(jl.Preds, jsonPred{p.Input, p.Negated})
		}
		j.Lookaheads = append(j.Lookaheads, jl)
	}
	b, _ := json.Marshal(&j)
	return string(b)
}

// FromJSON is the inverse of ToJSON.
func FromJSON(s string) (*lalr.Grammar, error) {
	var j jsonGrammar
	if err := json.Unmarshal([]byte(s), &j); err != nil {
		return nil, err
	}
	g := &lalr.Grammar{Terminals: j.Terminals, Symbols: j.Symbols, Markers: j.Markers, ExpectSR: j.ExpectSR, ExpectRR: j.ExpectRR, Origin: Node(0)}
	for _, in := range j.Inputs {
		g.Inputs = append(g.Inputs, lalr.Input{Nonterminal: lalr.Sym(in.NT), Eoi: in.Eoi})
	}
	for i, r := range j.Rules {
		lr := lalr.Rule{LHS: lalr.Sym(r.LHS), Precedence: lalr.Sym(r.Prec), Action: r.Action, Type: r.Type, Flags: r.Flags, Origin: Node(i + 1)}
		for _, s := range r.RHS {
			lr.RHS = append(lr.RHS, lalr.Sym(s))
		}
		g.Rules = append(g.Rules, lr)
	}
	for _, p := range j.Precedence {
		lp := lalr.Precedence{Associativity: lalr.Associativity(p.Assoc)}
		for _, t := range p.Terms {
			lp.Terminals = append(lp.Terminals, lalr.Sym(t))
		}
		g.Precedence = append(g.Precedence, lp)
	}
	for i, l := range j.Lookaheads {
		ll := lalr.Lookahead{Nonterminal: lalr.Sym(l.NT), Origin: Node(1000 + i)}
		for _, p := range l.Preds {
			ll.Predicates = append(ll.Predicates, lalr.Predicate{Input: p.Input, Negated: p.Negated})
		}
		g.Lookaheads = append(g.Lookaheads, ll)
	}
	return g, nil
}

// Files returns the standard replay files for a grammar.
func Files(g *lalr.Grammar) map[string]string {
	return map[string]string{"grammar.txt": Format(g), "grammar.json": ToJSON(g)}
}

// CopyTables deep-copies the parts of lalr.Tables that later compile stages
// mutate or replace (the hook hands out the live pointer).
func CopyTables(t *lalr.Tables) *lalr.Tables {
	c := *t
	if t.DefaultEnc != nil {
		c.DefaultEnc = &lalr.DefaultEnc{
			Action: append([]int(nil), t.Action...),
			Lalr:   append([]int(nil), t.Lalr...),
			Goto:   append([]int(nil), t.Goto...),
			FromTo: append([]int(nil), t.FromTo...),
		}
	}
	if t.Optimized != nil {
		o := *t.Optimized
		o.DefGoto = append([]int(nil), o.DefGoto...)
		o.Goto = append([]int(nil), o.Goto...)
		o.DefAct = append([]int(nil), o.DefAct...)
		o.Action = append([]int(nil), o.Action...)
		o.Table = append([]int(nil), o.Table...)
		o.Check = append([]int(nil), o.Check...)
		c.Optimized = &o
	}
	c.RuleLen = append([]int(nil), t.RuleLen...)
	c.FinalStates = append([]int(nil), t.FinalStates...)
	c.RuleSymbol = append([]int(nil), t.RuleSymbol...)
	c.Markers = make([]lalr.StateMarker, len(t.Markers))
	for i, m := range t.Markers {
		c.Markers[i] = lalr.StateMarker{Name: m.Name, States: append([]int(nil), m.States...)}
	}
	c.Lookaheads = make([]lalr.LookaheadRule, len(t.Lookaheads))
	for i, l := range t.Lookaheads {
		c.Lookaheads[i] = lalr.LookaheadRule{Cases: append([]lalr.LookaheadCase(nil), l.Cases...), DefaultTarget: l.DefaultTarget}
	}
	c.DebugInfo = nil
	return &c
}
