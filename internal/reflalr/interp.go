package reflalr

import (
	"fmt"
	"strings"

	"github.com/inspirer/textmapper/lalr"
)

// Interpreters that decode lalr.Tables exactly the way the generated Go parser
// does (gen/templates/go_parser.go.tmpl: parseFunc, lalr, gotoState, applyRule,
// lookahead), for the default encoding and for the displacement encoding.

// Action kinds of a decoded cell.
const (
	ActError  = 0
	ActShift  = 1
	ActReduce = 2
)

// Act is the decoded action of one (state, terminal) cell.
type Act struct {
	Kind int
	Arg  int // shift: target state; reduce: rule
	// Explicit is set for errors that come from an explicit (term, -2) entry of the
	// Lalr array (the encoding of %nonassoc errors).
	Explicit bool
}

func (a Act) String() string {
	switch a.Kind {
	case ActShift:
		return fmt.Sprintf("shift->%d", a.Arg)
	case ActReduce:
		return fmt.Sprintf("reduce %d", a.Arg)
	}
	if a.Explicit {
		return "error(explicit)"
	}
	return "error"
}

// GotoDefault mirrors gotoState of the template for the default encoding
// (linear scan below 16 entries, binary search otherwise).
func GotoDefault(t *lalr.Tables, state, symbol int) int {
	min := t.Goto[symbol]
	max := t.Goto[symbol+1]
	if max-min < 32 {
		for i := min; i < max; i += 2 {
			if t.FromTo[i] == state {
				return t.FromTo[i+1]
			}
		}
	} else {
		for min < max {
			e := (min + max) >> 1 &^ 1
			i := t.FromTo[e]
			if i == state {
				return t.FromTo[e+1]
			} else if i < state {
				min = e + 2
			} else {
				max = e
			}
		}
	}
	return -1
}

// GotoLinear looks a transition up by a plain scan of FromTo (what the table
// means, independent of its ordering).
func GotoLinear(t *lalr.Tables, state, symbol int) int {
	for i := t.Goto[symbol]; i < t.Goto[symbol+1]; i += 2 {
		if t.FromTo[i] == state {
			return t.FromTo[i+1]
		}
	}
	return -1
}

// UsesBinarySearch reports whether gotoState takes the binary search branch for symbol.
func UsesBinarySearch(t *lalr.Tables, symbol int) bool {
	return t.Goto[symbol+1]-t.Goto[symbol] >= 32
}

// LalrLookup mirrors func lalr(action, next) of the template.
func LalrLookup(t *lalr.Tables, action, next int) (val int, listed bool) {
	a := -action - 3
	for ; t.Lalr[a] >= 0; a += 2 {
		if t.Lalr[a] == next {
			return t.Lalr[a+1], true
		}
	}
	return t.Lalr[a+1], false
}

// CellDefault decodes (state, terminal) in the default encoding.
func CellDefault(t *lalr.Tables, state, term int) Act {
	a := t.Action[state]
	listed := false
	if a < -2 {
		a, listed = LalrLookup(t, a, term)
	}
	switch {
	case a >= 0:
		return Act{Kind: ActReduce, Arg: a}
	case a == -1:
		to := GotoDefault(t, state, term)
		if to < 0 {
			return Act{Kind: ActError}
		}
		return Act{Kind: ActShift, Arg: to}
	case a == -2:
		return Act{Kind: ActError, Explicit: listed}
	}
	// a < -2: LALR(k) trie entry; not produced for Lookahead <= 1.
	return Act{Kind: -1, Arg: a}
}

// optAction mirrors the action decoding of parseFunc for the displacement encoding.
// collided reports a position inside the table whose check value belongs to somebody else.
func optAction(o *lalr.DisplacementEnc, state, term int) (act int, collided bool) {
	a := o.Action[state]
	if a > o.Base {
		pos := a + term
		if pos >= 0 && pos < len(o.Table) {
			if o.Check[pos] == term {
				return o.Table[pos], false
			}
			return o.DefAct[state], o.Check[pos] != -1
		}
		return o.DefAct[state], false
	}
	return o.DefAct[state], false
}

// CellOptimized decodes (state, terminal) in the displacement encoding.
func CellOptimized(o *lalr.DisplacementEnc, state, term int) (Act, bool) {
	a, coll := optAction(o, state, term)
	switch {
	case a >= 0:
		return Act{Kind: ActReduce, Arg: a}, coll
	case a < -1:
		return Act{Kind: ActShift, Arg: -2 - a}, coll
	}
	return Act{Kind: ActError}, coll
}

// GotoOptimized mirrors gotoState of the template for the displacement encoding.
func GotoOptimized(o *lalr.DisplacementEnc, terms, state, symbol int) int {
	if symbol >= terms {
		pos := o.Goto[symbol-terms] + state
		if pos >= 0 && pos < len(o.Table) && o.Check[pos] == state {
			return o.Table[pos]
		}
		return o.DefGoto[symbol-terms]
	}
	action := o.Action[state]
	if action == o.Base {
		return -1
	}
	pos := action + symbol
	if pos >= 0 && pos < len(o.Table) && o.Check[pos] == symbol {
		action = o.Table[pos]
	} else {
		action = o.DefAct[state]
	}
	if action < -1 {
		return -2 - action
	}
	return -1
}

// Step is one parser move.
type Step struct {
	Shift bool
	Tok   int // shift: the token
	Rule  int // reduce: rule index (may be a lookahead rule)
	Sym   int // reduce: the symbol pushed (for lookahead rules: the selected target)
	State int // state after the move (-1: no transition)
}

// Outcome of a parse.
type Outcome struct {
	Accept   bool
	Diverged bool   // step limit reached (possible with resolved conflicts and epsilon loops)
	Broken   string // table inconsistency met while interpreting (stack underflow, bad index)
	ErrTok   int    // index of the lookahead token at the error (len(toks) = eoi)
	Consumed int    // tokens shifted (eoi not counted)
	Steps    []Step
}

// Key summarises an outcome for comparison between two parsers over tables whose
// state numbering differs (states are left out).
func (o *Outcome) Key(rk func(rule int) string) string {
	var b strings.Builder
	for _, s := range o.Steps {
		if s.Shift {
			fmt.Fprintf(&b, "s%d ", s.Tok)
		} else {
			fmt.Fprintf(&b, "r[%s>%d] ", rk(s.Rule), s.Sym)
		}
	}
	switch {
	case o.Broken != "":
		b.WriteString("BROKEN " + o.Broken)
	case o.Diverged:
		b.WriteString("DIVERGED")
	case o.Accept:
		fmt.Fprintf(&b, "ACCEPT@%d", o.Consumed)
	default:
		fmt.Fprintf(&b, "ERROR@%d", o.ErrTok)
	}
	return b.String()
}

// Parser interprets tables over token strings.
type Parser struct {
	T         *lalr.Tables
	Terms     int
	NRules    int  // number of grammar rules; rule ids above are lookahead rules
	Optimized bool // decode T.Optimized instead of the default encoding
	Recursive bool // recursiveLookaheads option of the generated code
	MaxSteps  int
	KeepSteps bool
	// Stats
	PredEvals int
	// memo of lookahead predicate results within one Parse call, keyed by
	// (input, position); mirrors the session cache of recursive lookaheads (and
	// keeps nested predicates from exploding). 0 = in progress, 1 = false, 2 = true.
	memo map[[2]int]int8
}

func (p *Parser) tok(toks []int, pos int) int {
	if pos < len(toks) {
		return toks[pos]
	}
	return int(lalr.EOI)
}

func (p *Parser) gotoState(state, sym int) int {
	if p.Optimized {
		return GotoOptimized(p.T.Optimized, p.Terms, state, sym)
	}
	return GotoDefault(p.T, state, sym)
}

// decode returns the raw action in the convention of the default encoding:
// >=0 reduce, -1 shift (target in second result), -2 error.
func (p *Parser) decode(state, next int) (act int, target int) {
	if p.Optimized {
		a, _ := optAction(p.T.Optimized, state, next)
		switch {
		case a >= 0:
			return a, -1
		case a < -1:
			return -1, -2 - a
		}
		return -2, -1
	}
	a := p.T.Action[state]
	if a < -2 {
		a, _ = LalrLookup(p.T, a, next)
	}
	if a == -1 {
		return -1, GotoDefault(p.T, state, next)
	}
	if a < -2 {
		return -2, -1
	}
	return a, -1
}

// selectTarget mirrors the lookahead cases in applyRule / lookaheadRule.
func (p *Parser) selectTarget(rule int, toks []int, pos int, depth int) int {
	lr := p.T.Lookaheads[rule-p.NRules]
	for _, c := range lr.Cases {
		ok := p.lookahead(int(c.Input), toks, pos, depth+1)
		if ok != c.Negated {
			return int(c.Target)
		}
	}
	return int(lr.DefaultTarget)
}

// lookahead mirrors func lookahead of the template: a parse from entry `input`
// that stops at the first error or at the final state; nested lookahead rules are
// only evaluated with Recursive.
func (p *Parser) lookahead(input int, toks []int, pos int, depth int) bool {
	p.PredEvals++
	if depth > 8 || input < 0 || input >= len(p.T.FinalStates) {
		return false
	}
	k := [2]int{input, pos}
	if v, ok := p.memo[k]; ok {
		return v == 2 // an evaluation in progress (cyclic predicate) counts as false
	}
	p.memo[k] = 0
	o := p.run(input, p.T.FinalStates[input], toks, pos, true, depth)
	if o.Accept {
		p.memo[k] = 2
	} else {
		p.memo[k] = 1
	}
	return o.Accept
}

// Parse runs the parser for entry `input` over toks (terminal ids, no eoi).
func (p *Parser) Parse(input int, toks []int) *Outcome {
	p.memo = map[[2]int]int8{}
	return p.run(input, p.T.FinalStates[input], toks, 0, false, 0)
}

// ParseFrom runs the parser with explicit start and end states.
func (p *Parser) ParseFrom(start, end int, toks []int) *Outcome {
	p.memo = map[[2]int]int8{}
	return p.run(start, end, toks, 0, false, 0)
}

func (p *Parser) run(start, end int, toks []int, pos int, isLookahead bool, depth int) *Outcome {
	out := &Outcome{}
	limit := p.MaxSteps
	if limit == 0 {
		limit = 200 + 60*(len(toks)+2)
	}
	state := start
	stack := []int{state}
	steps := 0
	startPos := pos
	for state != end {
		steps++
		if steps > limit {
			out.Diverged = true
			break
		}
		next := p.tok(toks, pos)
		act, target := p.decode(state, next)
		if act >= 0 {
			rule := act
			if rule >= len(p.T.RuleLen) {
				out.Broken = "rule-out-of-range"
				break
			}
			ln := p.T.RuleLen[rule]
			sym := p.T.RuleSymbol[rule]
			if ln >= len(stack) {
				out.Broken = "stack-underflow"
				break
			}
			if rule >= p.NRules && (!isLookahead || p.Recursive) {
				sym = p.selectTarget(rule, toks, pos, depth)
			}
			stack = stack[:len(stack)-ln]
			state = p.gotoState(stack[len(stack)-1], sym)
			stack = append(stack, state)
			if p.KeepSteps {
				out.Steps = append(out.Steps, Step{Rule: rule, Sym: sym, State: state})
			}
		} else if act == -1 {
			state = target
			if state >= 0 {
				stack = append(stack, state)
				if p.KeepSteps {
					out.Steps = append(out.Steps, Step{Shift: true, Tok: next, State: state})
				}
				if next != int(lalr.EOI) {
					pos++
				}
			}
		}
		if act == -2 || state == -1 {
			break
		}
		if state >= len(p.T.Action) {
			out.Broken = "state-out-of-range"
			break
		}
	}
	out.Accept = state == end && !out.Diverged && out.Broken == ""
	out.ErrTok = pos
	out.Consumed = pos - startPos
	return out
}

// Tree rebuilds the parse tree of an accepted parse as an S-expression;
// name(rule) labels inner nodes, tokName leaf tokens.
func Tree(t *lalr.Tables, steps []Step, name func(rule int) string, tokName func(tok int) string) string {
	var stack []string
	for _, s := range steps {
		if s.Shift {
			stack = append(stack, tokName(s.Tok))
			continue
		}
		n := t.RuleLen[s.Rule]
		if n > len(stack) {
			return "<underflow>"
		}
		kids := stack[len(stack)-n:]
		node := "(" + name(s.Rule)
		for _, k := range kids {
			node += " " + k
		}
		node += ")"
		stack = append(stack[:len(stack)-n], node)
	}
	return strings.Join(stack, " ")
}
