package reflalr

import (
	"fmt"
	"sort"

	"github.com/inspirer/textmapper/lalr"
)

// Match is the correspondence between implementation states and reference
// LALR(1) states, established by a simultaneous BFS over transitions from the
// entry states (no assumption about state numbering).
type Match struct {
	RefOf    [][]int       // impl state -> reference states (more than one only when the implementation identifies states the reference keeps apart)
	ImplOf   []int         // reference state -> impl state, -1 when not reached
	Trans    []map[int]int // impl transitions per state
	Findings []Finding
	// SharedAug counts impl states that stand for several reference states whose
	// kernels differ only in augmented items S'_i -> N_i . [eoi].
	SharedAug int
}

// ImplTransitions lists the transitions of every state from Goto/FromTo.
func ImplTransitions(t *lalr.Tables) ([]map[int]int, []Finding) {
	var fs []Finding
	n := len(t.Action)
	tr := make([]map[int]int, n)
	for i := range tr {
		tr[i] = map[int]int{}
	}
	for sym := 0; sym+1 < len(t.Goto); sym++ {
		for i := t.Goto[sym]; i < t.Goto[sym+1]; i += 2 {
			from, to := t.FromTo[i], t.FromTo[i+1]
			if from < 0 || from >= n || to < 0 || to >= n {
				fs = append(fs, Finding{"tables/fromto-state-out-of-range", fmt.Sprintf("symbol %d: %d -> %d with %d states", sym, from, to, n)})
				continue
			}
			if old, ok := tr[from][sym]; ok && old != to {
				fs = append(fs, Finding{"tables/duplicate-transition", fmt.Sprintf("state %d symbol %d: targets %d and %d", from, sym, old, to)})
				continue
			}
			tr[from][sym] = to
		}
	}
	return tr, fs
}

// MatchStates relates the implementation's automaton to the reference.
func MatchStates(ref *Ref, t *lalr.Tables) *Match {
	m := &Match{RefOf: make([][]int, len(t.Action)), ImplOf: make([]int, len(ref.States))}
	add := func(sig, format string, a ...any) {
		if len(m.Findings) < 20 {
			m.Findings = append(m.Findings, Finding{sig, fmt.Sprintf(format, a...)})
		}
	}
	for i := range m.ImplOf {
		m.ImplOf[i] = -1
	}
	var fs []Finding
	m.Trans, fs = ImplTransitions(t)
	m.Findings = append(m.Findings, fs...)
	if len(t.FinalStates) != len(ref.G.Inputs) {
		add("automaton/final-states-length", "len(FinalStates)=%d, inputs=%d", len(t.FinalStates), len(ref.G.Inputs))
		return m
	}
	type pair struct{ impl, ref int }
	var queue []pair
	for i := range ref.G.Inputs {
		if i >= len(t.Action) {
			add("automaton/too-few-states", "no state for input %d", i)
			return m
		}
		queue = append(queue, pair{i, ref.Start[i]})
	}
	for len(queue) > 0 {
		p := queue[0]
		queue = queue[1:]
		if old := m.ImplOf[p.ref]; old >= 0 {
			if old != p.impl {
				add("automaton/one-lalr-state-two-impl-states", "reference state %s is reached as impl state %d and as %d", ref.StateString(p.ref), old, p.impl)
			}
			continue
		}
		m.ImplOf[p.ref] = p.impl
		if prev := m.RefOf[p.impl]; len(prev) > 0 {
			if ref.RealCore(ref.States[prev[0]]) == ref.RealCore(ref.States[p.ref]) {
				m.SharedAug++
			} else {
				add("automaton/impl-state-merges-different-cores", "impl state %d stands for %s and %s", p.impl, ref.StateString(prev[0]), ref.StateString(p.ref))
			}
		}
		m.RefOf[p.impl] = append(m.RefOf[p.impl], p.ref)
		rs := ref.States[p.ref]
		syms := make([]int, 0, len(rs.Trans))
		for s := range rs.Trans {
			syms = append(syms, s)
		}
		sort.Ints(syms)
		for _, s := range syms {
			to, ok := m.Trans[p.impl][s]
			if !ok {
				add("automaton/missing-transition", "impl state %d (= %s) has no transition on %s", p.impl, ref.StateString(p.ref), SymName(ref.G, s))
				continue
			}
			queue = append(queue, pair{to, rs.Trans[s]})
		}
	}
	for s := range m.RefOf {
		sort.Ints(m.RefOf[s])
		if len(m.RefOf[s]) == 0 {
			add("automaton/impl-state-without-lalr-counterpart", "impl state %d is not reached by the simultaneous traversal", s)
			continue
		}
		for sym := range m.Trans[s] {
			found := false
			for _, r := range m.RefOf[s] {
				if _, ok := ref.States[r].Trans[sym]; ok {
					found = true
				}
			}
			if !found {
				add("automaton/extra-transition", "impl state %d (= %s) has a transition on %s that the LR(0) automaton lacks", s, ref.StateString(m.RefOf[s][0]), SymName(ref.G, sym))
			}
		}
	}
	for r, s := range m.ImplOf {
		if s < 0 {
			add("automaton/lalr-state-not-reached", "reference state %s has no impl counterpart", ref.StateString(r))
		}
	}
	for i := range ref.G.Inputs {
		want := -1
		if ref.Final[i] >= 0 {
			want = m.ImplOf[ref.Final[i]]
		}
		if want >= 0 && t.FinalStates[i] != want {
			add("automaton/final-state-wrong", "input %d: FinalStates=%d, expected state %d (= %s)", i, t.FinalStates[i], want, ref.StateString(ref.Final[i]))
		}
	}
	if t.NumStates != len(t.Action) {
		add("tables/numstates-mismatch", "NumStates=%d len(Action)=%d", t.NumStates, len(t.Action))
	}
	return m
}
