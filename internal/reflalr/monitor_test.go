//go:build verif

package reflalr

import (
	"math/rand"
	"testing"

	"github.com/inspirer/textmapper/lalr"
)

// TestMonitor runs the process-wide monitor over compiles of all three grammar
// classes and expects it to see every stage and to stay silent.
func TestMonitor(t *testing.T) {
	m := InstallMonitor(3000)
	defer m.Uninstall()
	r := rand.New(rand.NewSource(7))
	for i := 0; i < 300; i++ {
		cfg := SmallConfig()
		cfg.Prec = i%2 == 0
		cfg.Lookaheads = i%3 == 0
		cfg.Markers = true
		g, _ := RandomGrammar(r, cfg)
		lalr.Compile(g, lalr.Options{Optimize: i%2 == 0, MinimizeDFA: i%3 != 0, DefaultReduce: i%4 == 0})
	}
	for i := 0; i < 5; i++ {
		lalr.Compile(LargeGrammar(r), lalr.Options{Optimize: true, MinimizeDFA: true})
		lalr.Compile(RandomExprGrammar(r).G, lalr.Options{Optimize: true, MinimizeDFA: true})
	}
	if m.Compiles != 310 || m.RefChecked == 0 || m.Minimized == 0 || m.Optimized == 0 {
		t.Fatalf("monitor saw %d compiles, %d ref, %d min, %d opt", m.Compiles, m.RefChecked, m.Minimized, m.Optimized)
	}
	for _, f := range m.Findings {
		t.Errorf("%s %s: %s\n%s", f.Property, f.Sig, f.Detail, f.Grammar)
	}
}
