// Package featgram generates feature-rich random textmapper grammars (Go target)
// for the generator checks C17, C18 and C30.
//
// The parser part is LL(1) by construction (every alternative, optional part and
// list element starts with a terminal that differs from what may follow), so the
// compiler accepts most grammars; the deliberately non-LL(1) parts are the classic
// precedence-resolved expression nonterminal, an lalr(2) fragment and alternatives
// separated by runtime lookaheads.
package featgram

import (
	"fmt"
	"math/rand"
	"sort"
	"strings"
)

// Config says what the caller wants to see in the grammar.
type Config struct {
	// Opt is the option vector: name -> value for the boolean options, and
	// "set"/unset for fileNode, nodePrefix, extraTypes. Options that are absent keep
	// their default. The generator adapts the grammar (e.g. no backtracking lexer
	// rules under nonBacktracking) and prints the option lines.
	Opt map[string]bool
	// Size 0: small (a handful of items), 1: medium, 2: large/map-heavy (many
	// keywords, named sets, lookaheads, templates, categories).
	Size int
	// Hostile > 0 uses awkward but legal symbol names (hyphens, Go keywords, ...).
	Hostile int
	// NoParser drops the parser section altogether (lexer-only grammar).
	NoParser bool
	// NoMidRule avoids mid-rule actions (they crash the Bison export at the time of
	// writing; C18 falls back to this to get its grammars through).
	NoMidRule bool
	// NoUserCode avoids semantic actions, lexer code and %% templates (used by
	// the Bison reader check to keep braces out of the way is NOT needed; this
	// exists for minimisation only).
	NoUserCode bool
}

// Grammar is a generated grammar.
type Grammar struct {
	Name     string
	Text     string
	Features []string // sorted feature tags present in this grammar
	Names    []string // user-chosen identifiers (for diagnostic normalisation)
	Lalr     int
}

// Defaults of the boolean options.
var Defaults = map[string]bool{
	"tokenLine": true, "genParser": true, "skipByteOrderMark": true,
}

// BoolOptions lists the Go-relevant options in the order of DESIGN §4 C17. The
// last three are value options treated as set/unset.
var BoolOptions = []string{
	"eventBased", "eventFields", "eventAST", "genSelector", "tokenStream", "tokenLine", "tokenLineOffset",
	"tokenColumn", "scanBytes", "caseInsensitive", "nonBacktracking", "cancellable", "cancellableFetch",
	"recursiveLookaheads", "optimizeTables", "defaultReduce", "minimizeDFA", "fixWhitespace", "writeBison",
	"debugParser", "skipByteOrderMark", "genParser", "fileNode", "nodePrefix", "extraTypes",
}

type frag struct {
	text  string
	first map[string]bool
	nf    int      // number of field assignments inside
	nodes []string // node types, when the fragment yields exactly one node
	fresh bool     // (... -> T) with a type of its own
}

type nonterm struct {
	name   string
	first  map[string]bool
	params string // "<F>" style parameter list for references needing args
	open   bool   // may be followed only by terminals outside follow-forbidden
	forbid map[string]bool
	typ    string
	nodes  []string // node types, when every rule yields exactly one node
}

type gen struct {
	r    *rand.Rand
	cfg  Config
	n    *namer
	feat map[string]bool

	lex      []string // lexer lines
	parser   []string // parser lines (directives and nonterminals)
	tmpl     map[string][]string
	kws      []string // quoted terminals
	puncts   []string
	classes  []string // Ident, Num, Str...
	allTerms []string
	typed    map[string]string // terminal -> Go type
	spaceInj []string          // space tokens that can be injected
	helpers  []*nonterm
	cats     []string            // %interface categories
	catOf    map[string][]string // category -> member types (informational)
	types    []string            // node types
	flagsTpl []string            // %flag names
	sets     []string            // named sets
	la       []*nonterm          // lookahead nonterminals
	markers  int
	fields   int
	hasValue bool
	errorTok bool
	states   []string
	nodeFlag []string
	usedNT   map[string]bool
	catUsed  map[string]bool
	itemCat  string

	optSuffix string   // optInstantiationSuffix in effect
	rare      []string // option lines of the rarely used compiler options
	laInputs  []string // lookahead targets that are user inputs as well
}

func (g *gen) on(opt string) bool {
	if v, ok := g.cfg.Opt[opt]; ok {
		return v
	}
	return Defaults[opt]
}

func (g *gen) f(tag string) { g.feat[tag] = true }

func (g *gen) p(n int) bool { return g.r.Intn(n) == 0 }

type punct struct{ lit, re string }

var punctPool = []punct{
	{"{", `\{`}, {"}", `\}`}, {"(", `\(`}, {")", `\)`}, {"[", `\[`}, {"]", `\]`}, {",", `,`}, {";", `;`}, {":", `:`},
	{".", `\.`}, {"+", `\+`}, {"-", `-`}, {"*", `\*`}, {"=", `=`}, {"==", `==`}, {"!", `!`}, {"!=", `!=`}, {"<", `<`},
	{">", `>`}, {"<=", `<=`}, {">=", `>=`}, {"&&", `&&`}, {"||", `\|\|`}, {"?", `\?`}, {"->", `->`}, {"=>", `=>`},
	{"@", `@`}, {"#", `#`}, {"~", `~`}, {"^", `\^`}, {"%", `%`}, {"::", `::`}, {"&", `&`}, {"|", `\|`}, {"$", `\$`},
	{`\\`, `\\`}, {"...", `\.\.\.`}, {"/", `\/`}, {"<<", `<<`}, {"+=", `\+=`}, {"_", `_`}, {"`", "`"},
}

func quote(lit string) string {
	if lit == "'" {
		return `'\''`
	}
	return "'" + lit + "'"
}

// New generates one grammar.
func New(r *rand.Rand, name string, cfg Config) *Grammar {
	g := &gen{r: r, cfg: cfg, n: newNamer(r, cfg.Hostile), feat: map[string]bool{}, tmpl: map[string][]string{},
		typed: map[string]string{}, catOf: map[string][]string{}, usedNT: map[string]bool{}, catUsed: map[string]bool{}}
	g.n.used[norm(name)] = true
	g.optSuffix = "opt"
	g.rareOptions()
	noParser := cfg.NoParser
	g.lexer()
	if !noParser {
		g.parserSection()
	}
	lalr := 1
	var b strings.Builder
	fmt.Fprintf(&b, "language %s(go);\n\nlang = \"%s\"\npackage = \"w/%s\"\n", name, name, name)
	g.options(&b)
	b.WriteString("\n:: lexer\n\n")
	for _, l := range g.lex {
		b.WriteString(l + "\n")
	}
	if !noParser {
		if g.feat["lalr2"] {
			lalr = 2
			b.WriteString("\n:: parser lalr(2)\n\n")
		} else {
			b.WriteString("\n:: parser\n\n")
		}
		for _, l := range g.parser {
			b.WriteString(l + "\n")
		}
	}
	if len(g.tmpl) > 0 {
		g.f("custom-templates")
		b.WriteString("\n%%\n")
		var names []string
		for k := range g.tmpl {
			names = append(names, k)
		}
		sort.Strings(names)
		for _, k := range names {
			fmt.Fprintf(&b, "\n{{define %q}}\n%s\n{{end}}\n", k, strings.Join(g.tmpl[k], "\n"))
		}
	}
	var feats []string
	for k := range g.feat {
		feats = append(feats, k)
	}
	sort.Strings(feats)
	return &Grammar{Name: name, Text: b.String(), Features: feats, Names: g.n.all, Lalr: lalr}
}

// rareOptions draws the rarely used compiler options that are legal for the Go
// target and do not need anything from the grammar. They are not part of the
// pairwise option array of C17.
func (g *gen) rareOptions() {
	if g.p(3) {
		g.rare = append(g.rare, "aliasIncludesOptSuffix = false")
		g.f("option:aliasIncludesOptSuffix=false")
	}
	if g.p(4) {
		g.optSuffix = []string{"_opt", "Opt", "-opt"}[g.r.Intn(3)]
		g.rare = append(g.rare, fmt.Sprintf("optInstantiationSuffix = %q", g.optSuffix))
		g.f("option:optInstantiationSuffix")
	}
	if g.p(5) {
		g.rare = append(g.rare, "genCopyright = true")
		g.f("option:genCopyright")
	}
	if g.p(6) {
		g.rare = append(g.rare, "maxLookahead = 8")
		g.f("option:maxLookahead")
	}
	if g.p(6) {
		g.rare = append(g.rare, "expansionLimit = 4096", "expansionWarn = 64")
		g.f("option:expansionLimit")
	}
	if g.p(6) {
		g.rare = append(g.rare, "noEmptyRules = true")
		g.f("option:noEmptyRules")
	}
}

func (g *gen) usedCats() []string {
	var r []string
	for _, c := range g.cats {
		if g.catUsed[c] {
			r = append(r, c)
		}
	}
	return r
}

// options prints the option lines for the vector.
func (g *gen) options(b *strings.Builder) {
	for _, l := range g.rare {
		b.WriteString(l + "\n")
	}
	for _, o := range BoolOptions {
		v, ok := g.cfg.Opt[o]
		if !ok {
			continue
		}
		switch o {
		case "fileNode":
			if v {
				b.WriteString("fileNode = \"File\"\n")
			}
		case "nodePrefix":
			if v {
				b.WriteString("nodePrefix = \"Nd\"\n")
			}
		case "extraTypes":
			if v {
				xs := []string{`"` + g.n.ident(1) + `"`}
				if g.itemCat != "" && g.p(2) {
					xs = append(xs, fmt.Sprintf(`"%s -> %s"`, g.n.ident(1), g.itemCat))
					g.f("extraTypes-with-category")
				}
				fmt.Fprintf(b, "extraTypes = [%s]\n", strings.Join(xs, ", "))
			}
		default:
			if v != Defaults[o] || g.p(3) {
				fmt.Fprintf(b, "%s = %v\n", o, v)
			}
		}
	}
}

// ---------------------------------------------------------------------------
// lexer

func (g *gen) lexer() {
	r := g.r
	noBT := g.on("nonBacktracking")
	bytes := g.on("scanBytes")
	code := !g.cfg.NoUserCode
	add := func(format string, args ...interface{}) { g.lex = append(g.lex, fmt.Sprintf(format, args...)) }

	// named patterns
	add(`idStart = /[a-zA-Z_]/`)
	if !bytes && g.p(2) {
		add(`idChar = /{idStart}|[0-9]|[\p{L}\p{Nd}]/`)
		g.f("lexer-unicode-classes")
	} else {
		add(`idChar = /{idStart}|[0-9]/`)
	}
	g.f("lexer-named-patterns")
	useHex := g.p(3)
	if useHex {
		add(`hex = /[0-9a-fA-F]/`)
	}
	add("")

	// whitespace and comments
	ws := g.n.ident(0)
	add(`%s: /[ \t\r\n]+/ (space)`, ws)
	g.f("lexer-space")
	if g.p(2) {
		c := g.n.ident(0)
		add(`%s: /\/\/[^\n\r]*/ (space)`, c)
		g.spaceInj = append(g.spaceInj, c)
	}
	add("")

	// class rule with keyword specialisations
	ident := g.n.ident(0)
	fold := g.on("caseInsensitive")
	kwPrio := ""
	if fold {
		// case-folded patterns are not constants for the compiler: no keyword
		// specialisation of class rules, priorities resolve the overlap instead
		add(`%s: /{idStart}{idChar}*/`, ident)
		kwPrio = " 1"
		g.f("lexer-keyword-priority")
	} else {
		add(`%s: /{idStart}{idChar}*/ (class)`, ident)
		g.f("lexer-class-rule")
	}
	g.classes = append(g.classes, ident)
	nkw := []int{6, 14, 60}[g.cfg.Size] + r.Intn([]int{6, 12, 60}[g.cfg.Size])
	for i := 0; i < nkw; i++ {
		k := g.n.keyword()
		g.kws = append(g.kws, quote(k))
		if g.p(12) {
			// double-quoted literal form
			g.kws[len(g.kws)-1] = `"` + k + `"`
			g.f("lexer-double-quoted-literal")
		}
		add(`%s: /%s/%s`, g.kws[len(g.kws)-1], k, kwPrio)
	}
	add("")

	// typed terminals with code
	num := g.n.ident(0)
	if code && g.p(2) {
		add(`%s {int}: /[0-9]+/ { $$ = len(l.Text()) }`, num)
		g.typed[num] = "int"
		g.f("lexer-typed-token-with-code")
	} else if code && g.p(3) {
		add(`%s {int}: /[0-9]+/`, num)
		g.typed[num] = "int"
		g.f("lexer-typed-token")
	} else {
		add(`%s: /[0-9]+/`, num)
	}
	g.classes = append(g.classes, num)
	if g.p(3) {
		// one token produced by two rules (with the same or with different actions)
		b := g.n.ident(0)
		add(`%s: /0b[01]+/`, b)
		switch {
		case code && g.p(2):
			add(`%s: /0o[0-7]+/ { _ = l.Text() }`, b)
			g.f("lexer-token-from-two-rules-with-code")
		default:
			add(`%s: /0o[0-7]+/`, b)
			g.f("lexer-token-from-two-rules")
		}
		g.classes = append(g.classes, b)
		if noBT {
			add(`invalid_token: /0[bo]/`)
		}
	}
	if g.p(2) {
		s := g.n.ident(0)
		if code && g.p(2) {
			add(`%s {string}: /"([^"\\\n]|\\.)*"/ { $$ = l.Text() }`, s)
			g.typed[s] = "string"
		} else {
			add(`%s: /"([^"\\\n]|\\.)*"/`, s)
		}
		g.classes = append(g.classes, s)
		g.f("lexer-string-token")
	}
	if useHex {
		h := g.n.ident(0)
		add(`%s: /0x{hex}+/ 1`, h)
		g.classes = append(g.classes, h)
		g.f("lexer-priority")
		if noBT {
			// "0x" without digits needs a way out without backtracking
			add(`invalid_token: /0x/`)
		}
	}
	if !fold && g.p(4) {
		// second class rule
		c2 := g.n.ident(0)
		k2 := g.n.keyword()
		add(`%s: /@{idStart}+/ (class)`, c2)
		add(`'@%s': /@%s/`, k2, k2)
		g.classes = append(g.classes, c2)
		g.kws = append(g.kws, "'@"+k2+"'")
		g.f("lexer-two-class-rules")
		if noBT {
			add(`invalid_token: /@/`)
		}
	}
	add("")

	// punctuation
	npu := []int{8, 14, 30}[g.cfg.Size] + r.Intn(8)
	perm := r.Perm(len(punctPool))
	have := map[string]bool{}
	for _, pi := range perm {
		if len(g.puncts) >= npu {
			break
		}
		pp := punctPool[pi]
		if pp.lit == "@" && g.feat["lexer-two-class-rules"] {
			continue
		}
		if noBT && pp.lit == "..." {
			continue
		}
		if fold && pp.lit == "_" {
			continue // would be identical to the (non-class) identifier rule
		}
		have[pp.lit] = true
		g.puncts = append(g.puncts, quote(pp.lit))
		if g.p(15) {
			id := "tok" + fmt.Sprint(len(g.puncts))
			add(`%s (%s): /%s/`, quote(pp.lit), id, pp.re)
			g.f("lexer-explicit-token-id")
		} else {
			add(`%s: /%s/`, quote(pp.lit), pp.re)
		}
	}
	if have["..."] && have["."] {
		g.f("lexer-backtracking")
	}
	add("")

	// start conditions
	if g.p(2) {
		st := g.n.ident(2)
		st = strings.ReplaceAll(st, "_", "")
		excl := g.p(2)
		if excl {
			add(`%%x %s;`, st)
			g.f("lexer-exclusive-state")
		} else {
			add(`%%s %s;`, st)
			g.f("lexer-inclusive-state")
		}
		g.states = append(g.states, st)
		open := g.n.ident(0)
		stConst := "State" + strings.Title(st)
		if code {
			if have["/"] && noBT {
				add(`%s: /\(\*/ (space) { l.State = %s }`, open, stConst)
			} else {
				add(`%s: /\/\*/ (space) { l.State = %s }`, open, stConst)
			}
			g.f("lexer-rule-with-code")
		} else {
			add(`%s: /\(\*/ (space)`, open)
		}
		g.spaceInj = append(g.spaceInj, open)
		if excl || g.p(2) {
			add(`<%s> {`, st)
			if code {
				add(`  %s: /\*\// (space) { l.State = StateInitial }`, open)
			} else {
				add(`  %s: /\*\// (space)`, open)
			}
			if excl {
				add(`  %s: /[^*]+|\*/ (space)`, open)
			}
			add(`}`)
			g.f("lexer-state-scope")
		} else {
			if code {
				add(`<%s> %s: /\*\// (space) { l.State = StateInitial }`, st, open)
			} else {
				add(`<%s> %s: /\*\// (space)`, st, open)
			}
			g.f("lexer-state-prefix")
		}
		if !excl && g.p(2) {
			add(`<*> %s: /\x00/ (space)`, ws)
			g.f("lexer-all-states")
		}
		add("")
	}
	if g.p(2) {
		add(`error:`)
		g.errorTok = true
	}
	if g.p(4) {
		add(`invalid_token:`)
	}
	if g.p(4) {
		add(`eoi:`)
	}
	if g.p(3) {
		// token never used by the parser
		add(`%s: /\x01+/`, g.n.ident(0))
		g.f("lexer-unused-token")
	}
	if code && g.p(3) {
		g.tmplOnce("onAfterLexer", "func lexerHelper(s string) string { return \"strconv\".Itoa(len(s)) }")
		g.f("template-import-in-user-code")
	}
	if g.p(6) {
		// a lexer without any (space) rule: white space and comments are ordinary tokens
		for i, l := range g.lex {
			g.lex[i] = strings.Replace(l, " (space)", "", 1)
		}
		g.spaceInj = nil
		delete(g.feat, "lexer-space")
		g.f("lexer-without-space-rules")
	}
	g.allTerms = append(append(append([]string{}, g.kws...), g.puncts...), g.classes...)
}

// ---------------------------------------------------------------------------
// parser

func (g *gen) term() string { return g.allTerms[g.r.Intn(len(g.allTerms))] }

// termNotIn picks a terminal outside the given sets.
func (g *gen) termNotIn(sets ...map[string]bool) string {
	for try := 0; try < 200; try++ {
		t := g.term()
		ok := true
		for _, s := range sets {
			if s[t] {
				ok = false
			}
		}
		if ok {
			return t
		}
	}
	// deterministic fallback
	for _, t := range g.allTerms {
		ok := true
		for _, s := range sets {
			if s[t] {
				ok = false
			}
		}
		if ok {
			return t
		}
	}
	return g.allTerms[0]
}

func set1(t string) map[string]bool { return map[string]bool{t: true} }

func union(a, b map[string]bool) map[string]bool {
	m := map[string]bool{}
	for k := range a {
		m[k] = true
	}
	for k := range b {
		m[k] = true
	}
	return m
}

func disjoint(a, b map[string]bool) bool {
	for k := range a {
		if b[k] {
			return false
		}
	}
	return true
}

type ruleState struct{ mid, marker bool }

type ctx struct {
	rule     *ruleState
	depth    int
	inNode   bool            // inside a rule that reports a node: fields allowed
	fields   map[string]bool // field names used in this rule
	used     map[string]bool // node types already bound to a field of the node being built
	noAction bool
	typedLHS bool
}

func (g *gen) newType() string {
	t := g.n.ident(1)
	g.types = append(g.types, t)
	return t
}

func (g *gen) fieldName(c *ctx) string {
	for {
		f := g.n.ident(2)
		if !c.fields[f] {
			c.fields[f] = true
			return f
		}
	}
}

// atom returns a single-symbol fragment: a terminal or a helper nonterminal.
func (g *gen) atom(c *ctx, avoid map[string]bool) frag {
	if len(g.helpers) > 0 && g.p(3) {
		for try := 0; try < 6; try++ {
			h := g.helpers[g.r.Intn(len(g.helpers))]
			if h.open || !disjoint(h.first, avoid) {
				continue
			}
			g.usedNT[h.name] = true
			return frag{text: h.name + g.args(h), first: h.first, nodes: h.nodes}
		}
	}
	t := g.termNotIn(avoid)
	return frag{text: t, first: set1(t)}
}

// args renders template arguments for a reference to h.
func (g *gen) args(h *nonterm) string {
	if h.params == "" {
		return ""
	}
	if g.p(2) {
		return "<+" + h.params + ">"
	}
	return "<~" + h.params + ">"
}

// unit returns a non-nullable fragment that is "closed": whatever follows it can
// be any terminal.
func (g *gen) unit(c *ctx, avoid map[string]bool) frag {
	k := g.r.Intn(20)
	if c.depth >= 3 && k >= 6 {
		k = g.r.Intn(6)
	}
	cc := *c
	cc.depth++
	switch {
	case k < 6:
		a := g.atom(c, avoid)
		return g.decorate(c, a, false)
	case k < 9:
		// choice of sequences with distinct first terminals
		n := 2 + g.r.Intn(3)
		var alts []string
		first := map[string]bool{}
		nf := 0
		var nodes []string
		allArrows := c.inNode && g.p(3)
		for i := 0; i < n; i++ {
			s := g.seq(&cc, union(avoid, first), 1+g.r.Intn(2))
			txt := s.text
			nf += s.nf
			if allArrows || (c.inNode && g.p(4)) {
				t := g.newType()
				txt += " -> " + t
				nodes = append(nodes, t)
				g.f("arrow-in-nested-choice")
			}
			alts = append(alts, txt)
			first = union(first, s.first)
		}
		if !allArrows {
			nodes = nil
		}
		g.f("nested-choice")
		fr := frag{text: "(" + strings.Join(alts, " | ") + ")", first: first, nf: nf, nodes: nodes}
		return g.decorate(c, fr, false)
	case k < 12:
		// optional + delimiter
		inner := g.seq(&cc, avoid, 1+g.r.Intn(2))
		d := g.termNotIn(inner.first)
		txt := paren(inner) + "?"
		g.f("optional")
		fr := g.decorate(c, frag{text: txt, first: inner.first, nf: inner.nf, nodes: inner.nodes, fresh: inner.fresh}, false)
		return frag{text: fr.text + " " + d, first: union(inner.first, set1(d)), nf: fr.nf}
	case k < 16:
		// list + delimiter
		inner := g.seq(&cc, avoid, 1+g.r.Intn(2))
		d := g.termNotIn(inner.first)
		var txt string
		first := inner.first
		switch g.r.Intn(5) {
		case 0:
			txt = paren(inner) + "+"
			g.f("list-plus")
		case 1:
			txt = paren(inner) + "*"
			first = union(first, set1(d))
			g.f("list-star")
		case 2:
			sep := g.termNotIn(set1(d))
			txt = "(" + inner.text + " separator " + sep + ")+"
			g.f("list-separator-plus")
		case 3:
			sep := g.termNotIn(set1(d))
			txt = "(" + inner.text + " separator " + sep + ")*"
			first = union(first, set1(d))
			g.f("list-separator-star")
		default:
			txt = paren(inner) + "+?"
			first = union(first, set1(d))
			g.f("list-plus-optional")
		}
		fr := g.decorate(c, frag{text: txt, first: first, nf: inner.nf, nodes: inner.nodes, fresh: inner.fresh}, true)
		return frag{text: fr.text + " " + d, first: first, nf: fr.nf}
	case k < 17 && len(g.allTerms) > 6:
		// set of terminals, closed by a delimiter outside the set
		d := g.termNotIn(avoid)
		o := g.termNotIn(avoid)
		x := g.termNotIn(set1(d))
		g.f("rhs-set")
		return frag{text: fmt.Sprintf("%s set(~(eoi | %s | %s))* %s", o, d, x, d), first: set1(o)}
	case k < 19:
		// parenthesised sub-sequence reported as a node
		inner := g.seq(&cc, avoid, 1+g.r.Intn(3))
		if c.inNode || g.p(2) {
			g.f("arrow-in-parentheses")
			t := g.newType()
			fr := frag{text: "(" + inner.text + " -> " + t + g.nodeFlags() + ")", first: inner.first, nf: inner.nf, nodes: []string{t}, fresh: true}
			return g.decorate(c, fr, false)
		}
		return frag{text: "(" + inner.text + ")", first: inner.first, nf: inner.nf}
	default:
		a := g.atom(c, avoid)
		return g.decorate(c, a, false)
	}
}

// paren wraps a fragment for a postfix operator.
func paren(f frag) string {
	if strings.Contains(f.text, " ") || f.nf > 0 {
		return "(" + f.text + ")"
	}
	return f.text
}

func (g *gen) nodeFlags() string {
	if !g.p(6) {
		return ""
	}
	if len(g.nodeFlag) == 0 || (len(g.nodeFlag) < 3 && g.p(2)) {
		g.nodeFlag = append(g.nodeFlag, g.n.ident(1))
	}
	g.f("node-flags")
	fl := g.nodeFlag[g.r.Intn(len(g.nodeFlag))]
	if len(g.nodeFlag) > 1 && g.p(3) {
		other := g.nodeFlag[g.r.Intn(len(g.nodeFlag))]
		if other != fl {
			return "/" + fl + "," + other
		}
	}
	return "/" + fl
}

// decorate adds a field assignment (name=X or name+=X). Under eventFields the
// compiler demands exactly one field behind an assignment and, within one node
// type, fields with disjoint node type sets (unnamed children count as well), so
// there only fragments reporting a fresh node type of their own - (... -> T) - are
// decorated; without eventFields anything goes.
func (g *gen) decorate(c *ctx, f frag, list bool) frag {
	if !c.inNode || f.nf > 0 || !g.p(3) {
		return f
	}
	if g.on("eventFields") && !f.fresh {
		return f
	}
	txt := f.text
	if strings.Contains(txt, " ") && !strings.HasPrefix(txt, "(") {
		return f
	}
	name := g.fieldName(c)
	if list || g.p(6) {
		g.f("field-append")
		return frag{text: name + "+=" + txt, first: f.first, nf: f.nf + 1}
	}
	g.f("field-assign")
	return frag{text: name + "=" + txt, first: f.first, nf: f.nf + 1}
}

// seq returns a sequence of n closed units; the first unit avoids `avoid`.
func (g *gen) seq(c *ctx, avoid map[string]bool, n int) frag {
	var parts []string
	var first map[string]bool
	nf := 0
	var nodes []string
	fresh := false
	for i := 0; i < n; i++ {
		var u frag
		if i == 0 {
			// sequences start with a plain terminal: keeps FIRST sets small
			t := g.termNotIn(avoid)
			u = frag{text: t, first: set1(t)}
			if c.depth > 0 && g.p(3) {
				u = g.unit(c, avoid)
			}
			first = u.first
		} else {
			u = g.unit(c, nil)
		}
		nf += u.nf
		if n == 1 {
			nodes, fresh = u.nodes, u.fresh
		}
		parts = append(parts, u.text)
		if !c.noAction && !g.cfg.NoUserCode && !g.cfg.NoMidRule && i+1 < n && !c.rule.marker && g.p(14) {
			c.rule.mid = true
			parts = append(parts, "{ midRule() }")
			g.tmplOnce("onAfterParser", "func midRule() {}")
			g.f("mid-rule-action")
		}
		if i+1 < n && !c.rule.mid && g.p(25) {
			c.rule.marker = true
			g.markers++
			parts = append(parts, fmt.Sprintf(".m%d", g.markers))
			g.f("state-marker")
		}
	}
	return frag{text: strings.Join(parts, " "), first: first, nf: nf, nodes: nodes, fresh: fresh}
}

func (g *gen) tmplOnce(name, line string) {
	for _, l := range g.tmpl[name] {
		if l == line {
			return
		}
	}
	g.tmpl[name] = append(g.tmpl[name], line)
}

func (g *gen) parserSection() {
	r := g.r
	code := !g.cfg.NoUserCode
	add := func(format string, args ...interface{}) { g.parser = append(g.parser, fmt.Sprintf(format, args...)) }
	size := g.cfg.Size

	// categories
	ncat := []int{1, 2, 6}[size]
	if g.p(3) {
		ncat = 0
	}
	for i := 0; i < ncat; i++ {
		g.cats = append(g.cats, g.n.ident(1))
	}

	// template flags
	nflags := r.Intn([]int{2, 3, 6}[size])
	var flagDecl []string
	for i := 0; i < nflags; i++ {
		f := g.n.ident(1)
		g.flagsTpl = append(g.flagsTpl, f)
		if g.p(2) {
			flagDecl = append(flagDecl, fmt.Sprintf("%%flag %s;", f))
		} else {
			flagDecl = append(flagDecl, fmt.Sprintf("%%flag %s = false;", f))
		}
	}

	var body []string // nonterminal definitions
	def := func(format string, args ...interface{}) { body = append(body, fmt.Sprintf(format, args...)) }

	// helper nonterminals, bottom-up
	nh := []int{2, 5, 14}[size] + r.Intn([]int{3, 5, 10}[size])
	for i := 0; i < nh; i++ {
		g.helper(def)
	}

	// expression nonterminal with precedence
	var precDecl []string
	var expr *nonterm
	if g.p(2) || size == 2 {
		expr = g.exprNT(def, &precDecl)
	}

	// lalr(2) fragment
	var lalr2 []string
	if g.p(5) || (size == 2 && g.p(2)) {
		lalr2 = g.lalr2(def)
	}

	// lookahead nonterminals
	nla := 0
	if g.p(3) || size == 2 {
		nla = 1 + r.Intn([]int{1, 2, 4}[size])
	}
	for i := 0; i < nla; i++ {
		name := g.n.ident(0)
		// a lookahead nonterminal: bracketed, starts with '(' like terminal chosen below
		g.la = append(g.la, &nonterm{name: name})
	}

	// items
	item := g.n.ident(0)
	itemCat := ""
	itemDef := ""
	if len(g.cats) > 0 && g.p(2) {
		itemCat = g.cats[0]
		g.catUsed[itemCat] = true
		g.itemCat = itemCat
	} else if g.p(3) {
		itemDef = g.newType()
	}
	nitems := []int{3, 6, 20}[size] + r.Intn([]int{3, 6, 20}[size])
	var alts []string
	itemFirst := map[string]bool{}
	var blockNT string
	if g.p(2) {
		blockNT = g.n.ident(0)
	}
	usedLA := false
	itemDefUsed := map[string]bool{}
	precUsed := map[string]bool{}
	for i := 0; i < nitems; i++ {
		kw := g.termNotIn(itemFirst)
		itemFirst[kw] = true
		arrow := itemCat != "" || g.p(3)
		c := &ctx{depth: 0, inNode: arrow || itemDef != "", fields: map[string]bool{}, used: map[string]bool{}, rule: &ruleState{}}
		if !arrow && itemDef != "" {
			c.used = itemDefUsed // alternatives sharing the default node type share its fields
		}
		var alt string
		switch k := r.Intn(14); {
		case k == 0 && expr != nil:
			d := g.termNotIn(expr.forbid)
			e := g.decorate(c, frag{text: expr.name, first: expr.first, nodes: expr.nodes, fresh: expr.typ == "cat"}, false)
			alt = fmt.Sprintf("%s %s %s", kw, e.text, d)
			g.usedNT[expr.name] = true
		case k == 1 && len(g.la) > 0 && !usedLA:
			// alternatives distinguished by runtime lookaheads
			usedLA = true
			alts = append(alts, g.lookaheadAlts(def, kw)...)
			continue
		case k == 2 && blockNT != "":
			alt = fmt.Sprintf("%s %s", kw, blockNT)
			g.usedNT[blockNT] = true
		case k == 3 && len(lalr2) > 0:
			alt = kw + " " + lalr2[0]
			alts = append(alts, alt+" -> "+g.newType())
			alts = append(alts, kw+" "+lalr2[1]+" -> "+g.newType())
			lalr2 = nil
			g.f("lalr2")
			continue
		case k == 4 && code && len(g.typed) > 0:
			// semantic action reading a typed terminal
			var tt []string
			for _, t := range g.classes {
				if g.typed[t] != "" {
					tt = append(tt, t)
				}
			}
			t := tt[r.Intn(len(tt))]
			if kw == t {
				// keep the reference $t unambiguous
				delete(itemFirst, kw)
				kw = g.termNotIn(itemFirst, set1(t))
				itemFirst[kw] = true
			}
			d := g.termNotIn(set1(t))
			if g.p(2) {
				alt = fmt.Sprintf("%s %s[val] %s { useValue($val) }", kw, t, d)
				g.f("rhs-alias")
			} else {
				alt = fmt.Sprintf("%s %s %s { useValue($%s) }", kw, t, d, t)
			}
			g.tmplOnce("onAfterParser", "func useValue(v interface{}) {}")
			g.f("action-reads-typed-terminal")
		case k == 5 && code:
			s := g.seq(c, nil, 1+r.Intn(2))
			if g.p(2) {
				// a qualified name: the generator turns "strconv".Itoa into an import
				alt = fmt.Sprintf("%s %s { usePos(len(\"strconv\".Itoa(${first().offset})), ${last().endoffset}) }", kw, s.text)
				g.f("action-with-qualified-import")
			} else {
				alt = fmt.Sprintf("%s %s { usePos(${first().offset}, ${last().endoffset}, ${left().offset}) }", kw, s.text)
			}
			g.tmplOnce("onAfterParser", "func usePos(a ...int) {}")
			g.f("action-offsets")
		default:
			s := g.seq(c, nil, r.Intn(4))
			alt = strings.TrimSpace(kw + " " + s.text)
		}
		// rule level arrow
		if arrow {
			alt += " -> " + g.newType() + g.nodeFlags()
			g.f("rule-arrow")
		}
		alts = append(alts, alt)
	}
	// one state marker at several positions whose continuations partly coincide: the marker
	// covers several LR states, some of which minimizeDFA can merge while others stay apart
	if g.p(2) {
		kw := g.termNotIn(itemFirst)
		itemFirst[kw] = true
		name := g.n.ident(0)
		g.markers++
		mk := fmt.Sprintf("mk%d", g.markers)
		conts := []string{g.termNotIn(nil)}
		conts = append(conts, g.termNotIn(set1(conts[0])))
		if g.p(2) {
			conts = append(conts, g.termNotIn(set1(conts[0]), set1(conts[1])))
		}
		n := 3 + r.Intn(4)
		first := map[string]bool{}
		var ma []string
		for i := 0; i < n; i++ {
			t := g.termNotIn(first)
			first[t] = true
			ma = append(ma, fmt.Sprintf("%s .%s %s", t, mk, conts[r.Intn(len(conts))]))
		}
		def("%s :\n    %s\n;", name, strings.Join(ma, "\n  | "))
		alt := kw + " " + name
		if itemCat != "" || g.p(3) {
			alt += " -> " + g.newType()
		}
		alts = append(alts, alt)
		g.f("state-marker-at-several-positions")
	}

	// a rule that refers to both X and Xopt before an action that uses $X
	if code && g.p(2) {
		var cand []*nonterm
		for _, h := range g.helpers {
			if h.params == "" && !h.open && !strings.Contains(h.name, "-") {
				cand = append(cand, h)
			}
		}
		if len(cand) > 0 {
			h := cand[r.Intn(len(cand))]
			kw := g.termNotIn(itemFirst)
			itemFirst[kw] = true
			d1 := g.termNotIn(nil)
			d2 := g.termNotIn(h.first)
			g.usedNT[h.name] = true
			use := fmt.Sprintf("usePos(${%s.offset})", h.name)
			g.tmplOnce("onAfterParser", "func usePos(a ...int) {}")
			if h.typ != "" || g.p(3) {
				use = fmt.Sprintf("useValue($%s)", h.name)
				g.tmplOnce("onAfterParser", "func useValue(v interface{}) {}")
			}
			alt := fmt.Sprintf("%s %s %s %s%s %s { %s }", kw, h.name, d1, h.name, g.optSuffix, d2, use)
			if itemCat != "" || g.p(3) {
				alt += " -> " + g.newType()
			}
			alts = append(alts, alt)
			g.f("symbol-and-its-opt-before-action")
		}
	}

	// empty productions that carry a rule precedence: written directly (%empty %prec T)
	// and as the expansion of a rule whose parts are all optional
	for k := 0; k < 2; k++ {
		if !g.p(2) {
			continue
		}
		kw := g.termNotIn(itemFirst)
		itemFirst[kw] = true
		var avoid map[string]bool
		if expr != nil {
			avoid = expr.forbid
		}
		pt := g.termNotIn(avoid, precUsed)
		precUsed[pt] = true
		precDecl = append(precDecl, fmt.Sprintf("%%%s %s;", []string{"left", "right", "nonassoc"}[r.Intn(3)], pt))
		name := g.n.ident(0)
		t1 := g.termNotIn(nil)
		t2 := g.termNotIn(set1(t1))
		d := g.termNotIn(set1(t1), set1(t2))
		if k == 0 {
			def("%s :\n    %%empty %%prec %s\n  | %s %s\n;", name, pt, t1, t2)
			g.f("empty-rule-with-prec")
		} else {
			def("%s :\n    %s? %s? %%prec %s\n;", name, t1, t2, pt)
			g.f("all-optional-rule-with-prec")
		}
		alt := fmt.Sprintf("%s %s %s", kw, name, d)
		if itemCat != "" || g.p(3) {
			alt += " -> " + g.newType()
		}
		alts = append(alts, alt)
	}
	if g.errorTok {
		d := g.termNotIn(itemFirst)
		alts = append(alts, fmt.Sprintf("error %s -> %s", d, g.newType()))
		g.f("error-recovery")
	}

	// root
	root := g.n.ident(0)
	rootType := "File"
	if !g.on("fileNode") && g.p(2) {
		rootType = g.newType()
	}
	inputs := []string{root}

	head := item
	if itemCat != "" {
		head += " -> " + itemCat
		g.f("nonterminal-arrow-category")
	} else if itemDef != "" {
		head += " -> " + itemDef
		g.f("nonterminal-arrow-default")
	}
	def("%s :\n    %s\n;", head, strings.Join(alts, "\n  | "))

	rk := r.Intn(4)
	if rk == 2 && itemCat == "" && g.on("eventFields") {
		rk = 0
	}
	switch rk {
	case 0:
		def("%s -> %s :\n    %s+ ;", root, rootType, item)
	case 1:
		def("%s -> %s :\n    %s* ;", root, rootType, item)
	case 2:
		f := g.n.ident(2)
		def("%s -> %s :\n    %s+=%s+ ;", root, rootType, f, item)
	default:
		def("%s -> %s :\n    %s %s%s ;", root, rootType, item, root, g.optSuffix)
		g.f("opt-suffix")
	}
	if blockNT != "" {
		o, cl := g.termNotIn(nil), ""
		cl = g.termNotIn(union(itemFirst, set1("error")))
		def("%s -> %s :\n    %s %s* %s ;", blockNT, g.newType(), o, item, cl)
		g.f("recursive-block")
		if g.p(2) {
			inputs = append(inputs, blockNT+" no-eoi")
			g.f("input-no-eoi")
		}
	}
	// lookahead targets that are user inputs at the same time
	for _, n := range g.laInputs {
		inputs = append(inputs, n+" no-eoi")
		g.f("lookahead-target-is-no-eoi-input")
	}
	// further inputs
	for _, h := range g.helpers {
		if h.params == "" && !h.open && g.p(6) && len(inputs) < 4 {
			if g.p(2) {
				inputs = append(inputs, h.name+" no-eoi")
				g.f("input-no-eoi")
			} else {
				inputs = append(inputs, h.name)
			}
			g.usedNT[h.name] = true
			g.f("multiple-inputs")
		}
	}
	if expr != nil && g.p(3) {
		inputs = append(inputs, expr.name)
		g.usedNT[expr.name] = true
		g.f("multiple-inputs")
	}

	// directives
	add("%%input %s;", strings.Join(inputs, ", "))
	add("")
	for _, s := range g.spaceInj {
		if g.p(2) {
			add("%%inject %s -> %s;", s, g.newType())
			g.f("inject-space-token")
		}
	}
	if g.p(4) {
		add("%%inject invalid_token -> %s;", g.newType())
		g.f("inject-invalid-token")
	}
	if g.p(4) {
		add("%%inject %s -> %s%s;", g.classes[0], g.newType(), g.nodeFlags())
		g.f("inject-regular-token")
	}
	if uc := g.usedCats(); len(uc) > 0 {
		add("%%interface %s;", strings.Join(uc, ", "))
		g.f("interface-categories")
	}
	for _, l := range flagDecl {
		add("%s", l)
	}
	for _, l := range precDecl {
		add("%s", l)
	}
	// named sets
	nsets := r.Intn([]int{2, 3, 12}[size] + 1)
	for i := 0; i < nsets; i++ {
		name := g.n.ident(2)
		var e string
		switch r.Intn(6) {
		case 0:
			e = "follow " + g.term()
		case 1:
			e = "precede " + g.term()
		case 2:
			e = "first " + item
		case 3:
			e = "~(" + g.term() + " | " + g.term() + ")"
		case 4:
			e = "last " + item + " & ~" + g.term()
		default:
			e = g.term() + " | follow " + item
		}
		add("%%generate %s = set(%s);", name, e)
		g.sets = append(g.sets, name)
		g.f("named-set")
	}
	if g.p(6) {
		add("%%assert nonempty set(first %s);", item)
		g.f("assert")
	}
	add("")
	// unused helpers are errors? keep them reachable through an extra item alternative list
	var extra []string
	for _, h := range g.helpers {
		if !g.usedNT[h.name] {
			extra = append(extra, h.name)
		}
	}
	_ = extra
	g.parser = append(g.parser, body...)
}

// helper defines one helper nonterminal: guarded by a first terminal and ending
// with a closed unit.
func (g *gen) helper(def func(string, ...interface{})) {
	r := g.r
	name := g.n.ident(0)
	h := &nonterm{name: name, first: map[string]bool{}}
	nalt := 1 + r.Intn(3)
	code := !g.cfg.NoUserCode
	typed := code && g.p(7)
	flag := ""
	if len(g.flagsTpl) > 0 && g.p(3) {
		flag = g.flagsTpl[r.Intn(len(g.flagsTpl))]
		h.params = flag
		g.f("template-flag")
	}
	cat := ""
	if len(g.cats) > 0 && g.p(3) {
		cat = g.cats[r.Intn(len(g.cats))]
		g.catUsed[cat] = true
	}
	defType := ""
	if cat == "" && g.p(2) {
		defType = g.newType()
		h.nodes = append(h.nodes, defType)
	}
	defUsed := map[string]bool{}
	var alts []string
	for i := 0; i < nalt; i++ {
		own := cat != "" || (defType != "" && g.p(3))
		c := &ctx{depth: 1, inNode: cat != "" || defType != "", fields: map[string]bool{}, used: map[string]bool{}, typedLHS: typed, rule: &ruleState{}}
		if !own {
			c.used = defUsed
		}
		var alt string
		if cat != "" && i > 0 && g.p(4) {
			// a category member by reference: the referenced nonterminal yields the node
			var cand []*nonterm
			for _, o := range g.helpers {
				if o.nodes != nil && !o.open && o.params == "" && disjoint(o.first, h.first) {
					cand = append(cand, o)
				}
			}
			if len(cand) > 0 {
				o := cand[r.Intn(len(cand))]
				g.usedNT[o.name] = true
				h.first = union(h.first, o.first)
				h.nodes = append(h.nodes, o.nodes...)
				alts = append(alts, o.name)
				g.f("category-member-by-reference")
				continue
			}
		}
		s := g.seq(c, h.first, 1+r.Intn(3))
		h.first = union(h.first, s.first)
		alt = s.text
		if flag != "" && nalt > 1 && i > 0 && g.p(2) {
			if g.p(2) {
				alt = "[" + flag + "] " + alt
			} else {
				alt = "[!" + flag + "] " + alt
			}
			g.f("rule-predicate")
		}
		if typed {
			alt += " { $$ = " + fmt.Sprint(i) + " }"
			g.f("typed-nonterminal-action")
			g.hasValue = true
		} else if code && g.p(12) {
			// the value of a nonterminal without a declared type is an interface{}
			alt += " { $$ = " + fmt.Sprint(i) + " }"
			g.f("untyped-nonterminal-value-action")
		}
		if own {
			t := g.newType()
			alt += " -> " + t + g.nodeFlags()
			h.nodes = append(h.nodes, t)
		}
		alts = append(alts, alt)
	}
	head := name
	if flag != "" {
		head += "<" + flag + ">"
	}
	if typed {
		head += " {int}"
		h.typ = "int"
	}
	if cat != "" {
		head += " -> " + cat
	} else if defType != "" {
		head += " -> " + defType
	}
	def("%s :\n    %s\n;", head, strings.Join(alts, "\n  | "))
	g.helpers = append(g.helpers, h)
}

// exprNT defines the classic ambiguous expression grammar resolved by precedence.
func (g *gen) exprNT(def func(string, ...interface{}), prec *[]string) *nonterm {
	r := g.r
	name := g.n.ident(0)
	e := &nonterm{name: name, open: true, first: map[string]bool{}, forbid: map[string]bool{}}
	nlev := 1 + r.Intn(3)
	used := map[string]bool{}
	var alts []string
	cat := ""
	if len(g.cats) > 0 && g.p(2) {
		cat = g.cats[len(g.cats)-1]
		g.catUsed[cat] = true
	}
	if cat != "" {
		e.typ = "cat"
	}
	arrows := cat != "" || g.p(2) // every rule reports its own node, or none does
	arrow := func() string {
		if arrows {
			t := g.newType()
			e.nodes = append(e.nodes, t)
			return " -> " + t
		}
		return ""
	}
	// primary
	lp := g.termNotIn(used)
	used[lp] = true
	rp := g.termNotIn(used)
	used[rp] = true
	prim := g.termNotIn(used)
	used[prim] = true
	e.first[lp], e.first[prim] = true, true
	alts = append(alts, prim+arrow(), fmt.Sprintf("%s %s %s%s", lp, name, rp, arrow()))
	e.forbid[rp] = true
	for l := 0; l < nlev; l++ {
		assoc := []string{"left", "right", "nonassoc"}[r.Intn(3)]
		var ops []string
		for k := 1 + r.Intn(3); k > 0; k-- {
			op := g.termNotIn(used)
			used[op] = true
			e.forbid[op] = true
			ops = append(ops, op)
			if (cat != "" || !g.on("eventFields")) && g.p(2) {
				alts = append(alts, fmt.Sprintf("left=%s %s right=%s%s", name, op, name, arrow()))
				g.f("field-assign")
			} else {
				alts = append(alts, fmt.Sprintf("%s %s %s%s", name, op, name, arrow()))
			}
		}
		*prec = append(*prec, fmt.Sprintf("%%%s %s;", assoc, strings.Join(ops, " ")))
	}
	if g.p(2) {
		// unary operator with %prec
		unary := g.termNotIn(used)
		used[unary] = true
		e.first[unary] = true
		hi := g.termNotIn(used)
		used[hi] = true
		*prec = append(*prec, fmt.Sprintf("%%right %s;", hi))
		alts = append(alts, fmt.Sprintf("%s %s %%prec %s%s", unary, name, hi, arrow()))
		g.f("rule-prec")
	}
	for t := range used {
		e.forbid[t] = true
	}
	g.f("precedence")
	head := name
	if cat != "" {
		head += " -> " + cat
	}
	def("%s :\n    %s\n;", head, strings.Join(alts, "\n  | "))
	return e
}

// lalr2 defines two nonterminals deriving the same terminal; returns the two rule
// tails that need two tokens of lookahead to be told apart.
func (g *gen) lalr2(def func(string, ...interface{})) []string {
	z := g.term()
	x := g.termNotIn(set1(z))
	y := g.termNotIn(set1(z), set1(x))
	a, b := g.n.ident(0), g.n.ident(0)
	def("%s :\n    %s ;", a, z)
	def("%s :\n    %s ;", b, z)
	return []string{fmt.Sprintf("%s %s %s", a, z, x), fmt.Sprintf("%s %s %s", b, z, y)}
}

// lookaheadAlts creates alternatives with the same prefix that are told apart by
// (?= ...) predicates, like parsers/test/test.tm does.
func (g *gen) lookaheadAlts(def func(string, ...interface{}), kw string) []string {
	open := g.term()
	cl := g.termNotIn(set1(open))
	var alts []string
	// lookahead nonterminals: open t_i ...
	used := map[string]bool{open: true, cl: true}
	var marks []string
	for _, la := range g.la {
		t := g.termNotIn(used)
		used[t] = true
		marks = append(marks, t)
		def("%s :\n    %s %s ;", la.name, open, t)
		if g.p(3) {
			g.laInputs = append(g.laInputs, la.name)
		}
	}
	// alternative i is taken when la_i matches and la_j (j<i) do not
	for i, la := range g.la {
		var preds []string
		for j := 0; j < i; j++ {
			preds = append(preds, "!"+g.la[j].name)
		}
		preds = append(preds, la.name)
		c := &ctx{depth: 1, inNode: true, fields: map[string]bool{}, used: map[string]bool{}, rule: &ruleState{}}
		s := g.seq(c, nil, g.r.Intn(2))
		alts = append(alts, strings.TrimSpace(fmt.Sprintf("%s (?= %s) %s %s %s %s -> %s", kw, strings.Join(preds, " & "), open, marks[i], s.text, cl, g.newType())))
	}
	var preds []string
	for _, la := range g.la {
		preds = append(preds, "!"+la.name)
	}
	d := g.termNotIn(used)
	alts = append(alts, fmt.Sprintf("%s (?= %s) %s %s %s -> %s", kw, strings.Join(preds, " & "), open, d, cl, g.newType()))
	g.f("lookahead")
	if len(g.la) > 1 {
		g.f("lookahead-conjunction")
	}
	return alts
}
