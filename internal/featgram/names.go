package featgram

import (
	"fmt"
	"math/rand"
	"strings"
)

// Name generation. Names come in the styles textmapper grammars use (camel case,
// snake case, hyphenated, upper case, trailing digits, Go keywords and textmapper
// soft keywords as identifiers). Uniqueness is enforced on a normal form that is
// coarser than ident.Produce (letters and digits only, lower case), so that two
// generated names never get the same ID in generated code (the compiler would
// reject that, legitimately).

var words = []string{
	"alpha", "beta", "gamma", "delta", "item", "knot", "decl", "stmt", "expr", "name", "worth", "list", "block",
	"entry", "pair", "elem", "term", "atom", "unit", "field", "member", "clause", "group", "scope", "label",
	"arg", "param", "body", "head", "tail", "kind", "mode", "ref", "route", "key", "attr", "prop", "spec", "part",
	"q", "w", "zz", "ab", "io", "package",
}

// goish are identifiers that are keywords or predeclared in Go or that textmapper
// treats as soft keywords; all of them are legal textmapper identifiers.
var goish = []string{
	"type", "func", "range", "select", "go", "map", "chan", "defer", "var", "const", "struct", "switch", "case",
	"default", "import", "package", "return", "fallthrough", "goto", "error_", "left", "right", "class",
	"space", "input", "flag", "lexer", "parser", "layout", "inline", "extend", "empty", "global", "brackets",
}

type namer struct {
	r       *rand.Rand
	used    map[string]bool
	hostile int
	all     []string // every name handed out (for diagnostic normalisation)
}

func newNamer(r *rand.Rand, hostile int) *namer {
	n := &namer{r: r, used: map[string]bool{}, hostile: hostile}
	// identifiers with a meaning in grammars or in every generated package
	for _, s := range []string{"eoi", "error", "invalidtoken", "true", "false", "set", "as", "separator", "import",
		"file", "afterr", "aftererr", "notype", "nodetypemax", "numtokens", "unavailable", "token", "selector", "ast",
		"x", "s", "lalr", "language", "nonempty", "explicit", "lookahead", "param", "prec", "shift", "assert",
		"generate", "expect", "inject", "interface", "nonassoc", "noeoi", "expectrr"} {
		n.used[s] = true
	}
	return n
}

func norm(s string) string {
	var b strings.Builder
	for _, c := range strings.ToLower(s) {
		if c >= 'a' && c <= 'z' || c >= '0' && c <= '9' {
			b.WriteRune(c)
		}
	}
	return b.String()
}

func (n *namer) reserve(s string) bool {
	k := norm(s)
	if k == "" || n.used[k] {
		return false
	}
	n.used[k] = true
	n.all = append(n.all, s)
	return true
}

func title(s string) string {
	if s == "" {
		return s
	}
	return strings.ToUpper(s[:1]) + s[1:]
}

// ident returns a fresh identifier. style: 0 any nonterminal/token style,
// 1 CamelCase (node types, categories), 2 lower camel (fields, flags are free style).
func (n *namer) ident(style int) string {
	for try := 0; ; try++ {
		a := words[n.r.Intn(len(words))]
		b := words[n.r.Intn(len(words))]
		var s string
		if style == 1 {
			switch n.r.Intn(4) {
			case 0:
				s = title(a)
			case 1:
				s = title(a) + title(b)
			case 2:
				s = title(a) + fmt.Sprint(n.r.Intn(10))
			default:
				s = strings.ToUpper(a[:1]) + title(b)
			}
		} else {
			k := n.r.Intn(12)
			if n.hostile == 0 && k >= 8 {
				k = n.r.Intn(8)
			}
			switch k {
			case 0:
				s = a
			case 1:
				s = a + title(b)
			case 2:
				s = a + "_" + b
			case 3:
				s = title(a) + title(b)
			case 4:
				s = a + fmt.Sprint(n.r.Intn(100))
			case 5:
				s = strings.ToUpper(a)
			case 6:
				s = title(a)
			case 7:
				s = a + "_" + fmt.Sprint(n.r.Intn(10)) + b
			case 8:
				s = a + "-" + b // hyphenated identifiers are legal in textmapper
			case 9:
				s = goish[n.r.Intn(len(goish))]
			case 10:
				s = "_" + a
			default:
				s = a + "-" + b + "-" + fmt.Sprint(n.r.Intn(10))
			}
			if style == 2 {
				s = strings.ReplaceAll(s, "-", "_")
				s = strings.ToLower(s[:1]) + s[1:]
			}
		}
		if try > 50 {
			s = fmt.Sprintf("%s%d", s, n.r.Intn(100000))
		}
		if n.reserve(s) {
			return s
		}
	}
}

// keyword returns a fresh lower-case word usable as a keyword literal ('word').
func (n *namer) keyword() string {
	for try := 0; ; try++ {
		var s string
		switch n.r.Intn(6) {
		case 0:
			s = goish[n.r.Intn(len(goish))]
			s = strings.TrimSuffix(s, "_")
		case 1:
			s = words[n.r.Intn(len(words))] + words[n.r.Intn(len(words))]
		case 2:
			s = words[n.r.Intn(len(words))] + "_" + words[n.r.Intn(len(words))]
		default:
			s = words[n.r.Intn(len(words))]
		}
		if try > 30 {
			s = fmt.Sprintf("%s%d", s, n.r.Intn(100000))
		}
		if n.reserve(s) {
			return s
		}
	}
}
