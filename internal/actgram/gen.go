package actgram

import (
	"fmt"
	"math/rand"
)

type gen struct {
	r       *rand.Rand
	g       *Grammar
	aliases int
	tags    int
	markers int
}

func (x *gen) alias() string {
	x.aliases++
	return fmt.Sprintf("x%d", x.aliases)
}

func (x *gen) term() *Expr { return &Expr{Kind: KTerm, Sym: x.r.Intn(len(x.g.Terms))} }

func (x *gen) maybeAlias(e *Expr, p int) *Expr {
	if x.r.Intn(100) < p {
		e.Alias = x.alias()
	}
	return e
}

// seq generates a sequence; guard makes it start with a terminal so that
// alternatives are mostly distinguishable with one token of lookahead.
func (x *gen) seq(nt, depth int, guard bool, maxLen int) *Expr {
	s := &Expr{Kind: KSeq}
	if guard {
		s.Sub = append(s.Sub, x.maybeAlias(x.term(), 40))
	}
	n := x.r.Intn(maxLen + 1)
	if !guard && n == 0 {
		n = 1
	}
	for i := 0; i < n; i++ {
		s.Sub = append(s.Sub, x.element(nt, depth))
	}
	return s
}

func (x *gen) symbol(nt int) *Expr {
	nN := len(x.g.Nonterms)
	if x.r.Intn(3) == 0 {
		t := nt + 1 + x.r.Intn(nN)
		if t >= nN || x.r.Intn(6) == 0 {
			t = x.r.Intn(nN)
		}
		return &Expr{Kind: KNonterm, Sym: t, Flag: x.r.Intn(2) == 0}
	}
	return x.term()
}

func (x *gen) group(nt, depth, nalt int) *Expr {
	gr := &Expr{Kind: KGroup}
	single := x.r.Intn(2) == 0 // alternatives of exactly one symbol: the alias has a value
	used := map[int]bool{}
	for i := 0; i < nalt; i++ {
		var a *Expr
		if single {
			a = &Expr{Kind: KSeq, Sub: []*Expr{x.maybeAlias(x.term(), 30)}}
		} else {
			a = x.seq(nt, depth+1, true, 2)
		}
		gt := a.Sub[0].Sym
		if used[gt] {
			continue
		}
		used[gt] = true
		gr.Sub = append(gr.Sub, a)
	}
	return gr
}

func (x *gen) element(nt, depth int) *Expr {
	k := x.r.Intn(20)
	if depth >= 2 && k >= 9 {
		k = x.r.Intn(9)
	}
	switch {
	case k < 9:
		return x.maybeAlias(x.symbol(nt), 45)

	case (k == 9 || k == 10) && depth < 2: // optional list, mostly without alias: a position that only $N can name
		l := &Expr{Kind: KList, Sep: -1, Plus: true}
		if x.r.Intn(2) == 0 {
			l.Sub = []*Expr{{Kind: KSeq, Sub: []*Expr{x.term()}}}
		} else {
			l.Sub = []*Expr{x.seq(nt, depth+2, true, 1)}
		}
		if x.r.Intn(4) == 0 {
			l.Sep = x.r.Intn(len(x.g.Terms))
		}
		return &Expr{Kind: KOpt, Sub: []*Expr{x.maybeAlias(l, 20)}}
	case k < 12: // optional symbol
		return &Expr{Kind: KOpt, Sub: []*Expr{x.maybeAlias(x.symbol(nt), 60)}}
	case k < 14: // optional group
		return &Expr{Kind: KOpt, Sub: []*Expr{x.maybeAlias(x.group(nt, depth, 1+x.r.Intn(2)), 50)}}
	case k < 17: // nested choice or plain parenthesised sequence
		return x.maybeAlias(x.group(nt, depth, 1+x.r.Intn(3)), 50)
	default:
		l := &Expr{Kind: KList, Sep: -1, Plus: x.r.Intn(2) == 0}
		switch x.r.Intn(3) {
		case 0:
			l.Sub = []*Expr{{Kind: KSeq, Sub: []*Expr{x.term()}}}
		default:
			l.Sub = []*Expr{x.seq(nt, depth+2, true, 2)}
		}
		if x.r.Intn(3) == 0 {
			l.Sep = x.r.Intn(len(x.g.Terms))
		}
		return x.maybeAlias(l, 60)
	}
}

// insertCmds places mid-rule actions into the sequences of a body. Actions that
// could become adjacent in some expansion are removed afterwards (separate): the
// compiler merges adjacent actions into "{..}{..}", which is not valid Go.
func (x *gen) insertCmds(s *Expr, top bool, inList bool, startOK bool) {
	var out []*Expr
	for i, e := range s.Sub {
		p := 18
		if i == 0 {
			p = 6 // action before the guard: often conflicts
		} else if prev := s.Sub[i-1]; prev.Kind == KOpt && prev.Sub[0].Kind == KList {
			p = 70 // mid-rule action directly after an optional list
		}
		inserted := false
		if (i > 0 || startOK) && x.r.Intn(100) < p {
			out = append(out, &Expr{Kind: KCmd, Cmd: &Cmd{InList: inList}})
			inserted = true
		}
		out = append(out, e)
		x.insertInto(e, inList, true)
		_ = inserted
	}
	if !top && x.r.Intn(100) < 25 {
		out = append(out, &Expr{Kind: KCmd, Cmd: &Cmd{InList: inList}})
	}
	s.Sub = out
}

func (x *gen) insertInto(e *Expr, inList bool, startOK bool) {
	switch e.Kind {
	case KOpt:
		x.insertInto(e.Sub[0], inList, startOK)
	case KGroup:
		for _, a := range e.Sub {
			if len(a.Sub) == 1 && x.r.Intn(2) == 0 {
				continue // keep single-symbol alternatives plain most of the time
			}
			x.insertCmds(a, false, inList, startOK)
		}
	case KList:
		body := e.Sub[0]
		x.insertCmds(body, true, true, true)
		if x.r.Intn(2) == 0 {
			body.Sub = append(body.Sub, &Expr{Kind: KCmd, Cmd: &Cmd{InList: true}})
		}
	}
}

// Options tunes Rand.
type Options struct {
	MaxNT int
}

// Rand generates a random grammar with logging actions.
func Rand(r *rand.Rand, opt Options) *Grammar {
	g := &Grammar{Forms: map[string]int{}}
	x := &gen{r: r, g: g}
	nT := 3 + r.Intn(4)
	texts := []string{"a", "bb", "c", "dd", "e", "ff", "g"}
	for i := 0; i < nT; i++ {
		t := Term{Name: "t" + texts[i][:1], Text: texts[i], StrVal: r.Intn(3) == 0}
		if r.Intn(6) == 0 {
			t.Name, t.Quoted = "'"+texts[i]+"'", true
		}
		g.Terms = append(g.Terms, t)
	}
	maxNT := opt.MaxNT
	if maxNT == 0 {
		maxNT = 5
	}
	nN := 2 + r.Intn(maxNT-1)
	for i := 0; i < nN; i++ {
		g.Nonterms = append(g.Nonterms, &Nonterm{Name: fmt.Sprintf("N%d", i), StrVal: r.Intn(3) == 0})
	}
	if r.Intn(100) < 35 {
		// template parameter: some nonterminals are declared N<F> with [F] / [!F] alternatives
		for _, n := range g.Nonterms[1:] {
			n.Templ = r.Intn(2) == 0
		}
	}
	for i, n := range g.Nonterms {
		if i > 0 && r.Intn(6) == 0 {
			// empty rule (the action is the whole body)
			n.Rules = append(n.Rules, &Rule{Body: &Expr{Kind: KSeq}})
		}
		nr := 1 + r.Intn(3)
		used := map[int]int{} // guard -> 1 taken for [F], 2 taken for [!F], 3 both
		for k := 0; k < nr; k++ {
			body := x.seq(i, 0, true, 4)
			gt := body.Sub[0].Sym
			cond, mask := 0, 3
			if n.Templ && r.Intn(2) == 0 {
				cond, mask = 1, 1
				if r.Intn(2) == 0 {
					cond, mask = -1, 2
				}
			}
			if used[gt]&mask != 0 {
				continue
			}
			used[gt] |= mask
			if r.Intn(8) == 0 {
				// the rule starts with an optional symbol instead of being led by the guard
				body.Sub = append([]*Expr{{Kind: KOpt, Sub: []*Expr{x.maybeAlias(x.term(), 70)}}}, body.Sub...)
			}
			n.Rules = append(n.Rules, &Rule{Body: body, Cond: cond})
		}
		for ri, ru := range n.Rules {
			x.insertCmds(ru.Body, true, false, true)
			x.tags++
			ru.Body.Sub = append(ru.Body.Sub, &Expr{Kind: KCmd, Cmd: &Cmd{End: true, Tag: x.tags, StrVal: n.StrVal}})
			separate(ru.Body)
			x.addMarkers(ru.Body)
			ru.Scope = &Scope{Root: ru.Body, NT: i, Rule: ri}
		}
	}
	var twins []*Cmd
	if r.Intn(100) < 60 {
		twins = x.twinRules()
	}
	g.Inputs = []int{0}
	for {
		reach := g.reachable()
		added := false
		for i := range g.Nonterms {
			if !reach[i] {
				g.Inputs = append(g.Inputs, i)
				added = true
				break
			}
		}
		if !added {
			break
		}
	}
	for _, in := range g.Inputs {
		// an input cannot take template arguments
		if n := g.Nonterms[in]; n.Templ {
			n.Templ = false
			for _, ru := range n.Rules {
				ru.Cond = 0
			}
		}
	}
	for _, n := range g.Nonterms {
		if n.Templ {
			g.HasFlag = true
		}
		for _, ru := range n.Rules {
			x.finishScope(ru.Scope)
		}
	}
	for _, c := range twins {
		c.ID = c.Twin.ID
	}
	return g
}

func (g *Grammar) reachable() []bool {
	seen := make([]bool, len(g.Nonterms))
	var visit func(e *Expr)
	var visitNT func(i int)
	visit = func(e *Expr) {
		if e.Kind == KNonterm {
			visitNT(e.Sym)
		}
		for _, s := range e.Sub {
			visit(s)
		}
	}
	visitNT = func(i int) {
		if seen[i] {
			return
		}
		seen[i] = true
		for _, r := range g.Nonterms[i].Rules {
			visit(r.Body)
		}
	}
	for _, in := range g.Inputs {
		visitNT(in)
	}
	return seen
}

// ---------------------------------------------------------------------------
// numbering, names, reference items

// finishScope numbers the positions of a scope the way the rule is written,
// records name occurrences and fills the actions with references.
func (x *gen) finishScope(sc *Scope) {
	sc.frames = []int{-1}
	var cmds []*Cmd
	var lists []*Expr
	stamp := 0
	solid := false // a symbol that is present in every expansion has been seen at the top level
	push := func(name string, pos []int, frame int, isSym bool) {
		stamp++
		sc.occs = append(sc.occs, &nameOcc{name: name, pos: pos, frame: frame, seq: stamp, isSym: isSym})
	}
	var positionsOf func(e *Expr) []int
	positionsOf = func(e *Expr) []int {
		switch e.Kind {
		case KTerm, KNonterm, KList:
			return []int{e.Pos}
		}
		var out []int
		for _, s := range e.Sub {
			out = append(out, positionsOf(s)...)
		}
		return out
	}
	var walk func(e *Expr, frame int, topSeq bool)
	walk = func(e *Expr, frame int, topSeq bool) {
		e.Scope, e.Frame = sc, frame
		switch e.Kind {
		case KSeq:
			for i, s := range e.Sub {
				if s.Kind == KCmd {
					c := s.Cmd
					c.anch = i+1 < len(e.Sub) && (e.Sub[i+1].Kind == KTerm || e.Sub[i+1].Kind == KNonterm || e.Sub[i+1].Kind == KList)
				}
				walk(s, frame, topSeq)
				if topSeq && (s.Kind == KTerm || s.Kind == KNonterm || s.Kind == KList) {
					solid = true
				}
			}
		case KTerm, KNonterm:
			sc.Elems = append(sc.Elems, e)
			e.Pos = len(sc.Elems)
			name := x.g.Terms[0].Name
			if e.Kind == KTerm {
				name = x.g.Terms[e.Sym].Name
			} else {
				name = x.g.Nonterms[e.Sym].Name
			}
			push(name, []int{e.Pos}, frame, true)
		case KList:
			// the body is converted first (in its own scope), then the list gets its position
			lists = append(lists, e)
			sc.Elems = append(sc.Elems, e)
			e.Pos = len(sc.Elems)
		case KOpt:
			walk(e.Sub[0], frame, false)
		case KGroup:
			for _, a := range e.Sub {
				sc.frames = append(sc.frames, frame)
				walk(a, len(sc.frames)-1, false)
			}
		case KCmd:
			c := e.Cmd
			x.g.NCmds++
			c.ID = x.g.NCmds
			c.Scope, c.Frame = sc, frame
			stamp++
			c.seq = stamp
			c.maxPos = len(sc.Elems) + 1
			if !solid {
				c.early = true
			}
			cmds = append(cmds, c)
		}
		if e.Alias != "" && e.Kind != KSeq && e.Kind != KCmd {
			if p := positionsOf(e); len(p) > 0 {
				push(e.Alias, p, frame, false)
			}
		}
	}
	walk(sc.Root, 0, true)

	// occurrence numbers per name
	byName := map[string][]*nameOcc{}
	for _, o := range sc.occs {
		byName[o.name] = append(byName[o.name], o)
	}
	for _, os := range byName {
		for i, o := range os {
			o.index, o.total = i, len(os)
		}
	}
	seenEarly := false
	for _, c := range cmds {
		x.fillCmd(sc, c, seenEarly)
		if c.early && !c.End {
			seenEarly = true
		}
	}
	for _, l := range lists {
		l.Body = &Scope{Root: l.Sub[0], IsList: true, NT: sc.NT, Rule: sc.Rule}
		x.finishScope(l.Body)
	}
}

func (sc *Scope) inFrame(f, anc int) bool {
	for f >= 0 {
		if f == anc {
			return true
		}
		f = sc.frames[f]
	}
	return false
}

// singleValued reports whether at most one of the positions can be present in
// one expansion, i.e. whether the alias has a value.
func singleValued(e *Expr) bool {
	switch e.Kind {
	case KTerm, KNonterm:
		return true
	case KOpt:
		return singleValued(e.Sub[0])
	case KGroup:
		for _, a := range e.Sub {
			n := 0
			for _, s := range a.Sub {
				if s.Kind == KCmd {
					continue
				}
				n++
				if s.Kind != KTerm && s.Kind != KNonterm {
					return false
				}
			}
			if n != 1 {
				return false
			}
		}
		return true
	}
	return false
}

func (x *gen) fillCmd(sc *Scope, c *Cmd, afterEarly bool) {
	r := x.r
	if c.Fixed {
		for _, it := range c.Items {
			x.g.Forms[it.Form]++
		}
		return
	}
	type cand struct {
		it Item
		w  int
	}
	var cands []cand
	add := func(it Item, w int) { cands = append(cands, cand{it, w}) }

	aliasExpr := map[string]*Expr{}
	var collect func(e *Expr)
	collect = func(e *Expr) {
		if e.Alias != "" {
			aliasExpr[e.Alias] = e
		}
		if e.Kind == KList {
			return
		}
		for _, s := range e.Sub {
			collect(s)
		}
	}
	collect(sc.Root)

	isList := func(p int) bool { return sc.Elems[p-1].Kind == KList }

	// counts of each name pushed before the action
	before := map[string]int{}
	for _, o := range sc.occs {
		if o.seq < c.seq {
			before[o.name]++
		}
	}
	for _, o := range sc.occs {
		if o.seq > c.seq || !sc.inFrame(o.frame, c.Frame) {
			continue
		}
		quoted := len(o.name) > 0 && o.name[0] == '\''
		var ref string
		form := "alias"
		if o.isSym {
			if quoted {
				continue
			}
			form = "sym"
			if before[o.name] == 1 {
				ref = o.name
			} else {
				ref = fmt.Sprintf("%s#%d", o.name, o.index)
				form = "sym#N"
			}
		} else {
			ref = o.name
		}
		valueOK := len(o.pos) == 1 && !isList(o.pos[0])
		if !o.isSym && len(o.pos) > 1 {
			valueOK = singleValued(aliasExpr[o.name])
			form = "group-alias"
		} else if !o.isSym && isList(o.pos[0]) {
			form = "list-alias"
		}
		if valueOK {
			txt := "$" + ref
			if form == "sym#N" || r.Intn(4) == 0 {
				txt = "${" + ref + "}"
			}
			vw := 3
			if len(o.pos) > 1 {
				vw = 10 // alias over alternatives of possibly different types
			}
			add(Item{Kind: IValue, Text: txt, Form: "$" + form, Pos: o.pos}, vw)
		}
		w := 2
		if len(o.pos) > 1 {
			w = 5 // aliases spanning several symbols: first present .. last present
		}
		add(Item{Kind: IOffset, Text: "${" + ref + ".offset}", Form: "${" + form + ".offset}", Pos: o.pos}, w)
		add(Item{Kind: IEndoffset, Text: "${" + ref + ".endoffset}", Form: "${" + form + ".endoffset}", Pos: o.pos}, w)
	}
	for p := 1; p < c.maxPos; p++ {
		if isList(p) {
			continue
		}
		add(Item{Kind: IValue, Text: fmt.Sprintf("$%d", p-1), Form: "$N", Pos: []int{p}}, 2)
	}
	for p := 1; p < c.maxPos; p++ {
		form, w := "N", 1
		if isList(p) {
			form, w = "N(list)", 3
		}
		add(Item{Kind: IOffset, Text: fmt.Sprintf("${%d.offset}", p-1), Form: "${" + form + ".offset}", Pos: []int{p}}, w)
		add(Item{Kind: IEndoffset, Text: fmt.Sprintf("${%d.endoffset}", p-1), Form: "${" + form + ".endoffset}", Pos: []int{p}}, w)
	}
	if !sc.IsList {
		if !afterEarly {
			add(Item{Kind: IFirstOffset, Text: "${first().offset}", Form: "${first().offset}"}, 3)
		}
		add(Item{Kind: ILastEnd, Text: "${last().endoffset}", Form: "${last().endoffset}"}, 3)
	} else if !c.early {
		// in the recursive list rule the list itself (and a separator) precede the body
		add(Item{Kind: ILastEnd, Text: "${last().endoffset}", Form: "${last().endoffset}"}, 2)
	}
	if c.End {
		add(Item{Kind: ILeftOffset, Text: "${left().offset}", Form: "${left().offset}"}, 3)
		add(Item{Kind: ILeftEnd, Text: "${left().endoffset}", Form: "${left().endoffset}"}, 3)
	}
	pick := func() Item {
		tot := 0
		for _, cd := range cands {
			tot += cd.w
		}
		k := r.Intn(tot)
		for _, cd := range cands {
			if k < cd.w {
				return cd.it
			}
			k -= cd.w
		}
		return cands[0].it
	}
	n := 2 + r.Intn(5)
	for i := 0; i < n && len(cands) > 0; i++ {
		it := pick()
		c.Items = append(c.Items, it)
		x.g.Forms[it.Form]++
	}
	if c.End {
		// the value is built from children values; always include the first symbol when there is one
		var vals []Item
		for _, cd := range cands {
			if cd.it.Kind == IValue {
				vals = append(vals, cd.it)
			}
		}
		m := r.Intn(4)
		if len(vals) > 0 && m == 0 {
			m = 1
		}
		for i := 0; i < m && len(vals) > 0; i++ {
			it := vals[r.Intn(len(vals))]
			c.Args = append(c.Args, it)
			x.g.Forms[it.Form]++
		}
		c.Items = append([]Item{{Kind: ILHS, Text: "$$", Form: "$$"}}, c.Items...)
		x.g.Forms["$$"]++
	}
}

// ---------------------------------------------------------------------------
// keeping actions apart

type cmdSet map[*Expr]bool

type flat struct {
	starts, ends cmdSet // actions that can be the first / last item of an expansion
	empty        bool   // some expansion has no item at all
}

// adjacent computes, for the flattened expansions of e, which pairs of actions
// can be neighbours; list bodies are rules of their own and handled separately.
func adjacent(e *Expr, pairs *[][2]*Expr) flat {
	switch e.Kind {
	case KCmd:
		return flat{starts: cmdSet{e: true}, ends: cmdSet{e: true}}
	case KTerm, KNonterm, KList:
		return flat{}
	case KMarker:
		return flat{empty: true}
	case KOpt:
		f := adjacent(e.Sub[0], pairs)
		f.empty = true
		return f
	case KGroup:
		out := flat{starts: cmdSet{}, ends: cmdSet{}}
		for _, a := range e.Sub {
			f := adjacent(a, pairs)
			for c := range f.starts {
				out.starts[c] = true
			}
			for c := range f.ends {
				out.ends[c] = true
			}
			out.empty = out.empty || f.empty
		}
		return out
	}
	// sequence
	out := flat{starts: cmdSet{}, ends: cmdSet{}, empty: true}
	tail := cmdSet{}
	for _, s := range e.Sub {
		f := adjacent(s, pairs)
		for a := range tail {
			for b := range f.starts {
				*pairs = append(*pairs, [2]*Expr{a, b})
			}
		}
		if out.empty {
			for c := range f.starts {
				out.starts[c] = true
			}
		}
		if !f.empty {
			tail = cmdSet{}
		}
		for c := range f.ends {
			tail[c] = true
		}
		out.empty = out.empty && f.empty
	}
	out.ends = tail
	return out
}

func removeCmd(e *Expr, victim *Expr) bool {
	for i, s := range e.Sub {
		if s == victim {
			e.Sub = append(e.Sub[:i:i], e.Sub[i+1:]...)
			return true
		}
		if s.Kind != KList && removeCmd(s, victim) {
			return true
		}
	}
	return false
}

// separate removes actions until no two of them can be adjacent in an
// expansion of the rule body (and of every list body inside).
func separate(body *Expr) {
	for {
		var pairs [][2]*Expr
		adjacent(body, &pairs)
		if len(pairs) == 0 {
			break
		}
		// deterministic choice: the pair whose first action has the smallest textual index
		order := map[*Expr]int{}
		var number func(e *Expr)
		number = func(e *Expr) {
			if e.Kind == KCmd {
				order[e] = len(order)
			}
			if e.Kind == KList {
				return
			}
			for _, s := range e.Sub {
				number(s)
			}
		}
		number(body)
		best := pairs[0]
		for _, p := range pairs[1:] {
			if order[p[0]] < order[best[0]] || order[p[0]] == order[best[0]] && order[p[1]] < order[best[1]] {
				best = p
			}
		}
		victim := best[0]
		if victim.Cmd.End {
			victim = best[1]
		}
		removeCmd(body, victim)
	}
	var lists func(e *Expr)
	lists = func(e *Expr) {
		if e.Kind == KList {
			separate(e.Sub[0])
			return
		}
		for _, s := range e.Sub {
			lists(s)
		}
	}
	lists(body)
}

// addMarkers puts state markers into a rule body. A marker occupies no stack
// slot and no position. The compiler refuses a mid-rule action that is
// extracted after a marker of the same rule, so markers only go behind the
// symbol that follows the last mid-rule action (anywhere when there is none).
func (x *gen) addMarkers(body *Expr) {
	if x.r.Intn(100) >= 35 {
		return
	}
	hasCmd := func(e *Expr) bool {
		found := false
		var v func(e *Expr)
		v = func(e *Expr) {
			if e.Kind == KCmd && !e.Cmd.End {
				found = true
			}
			if e.Kind == KList {
				return
			}
			for _, s := range e.Sub {
				v(s)
			}
		}
		v(e)
		return found
	}
	last := -1
	for i, e := range body.Sub {
		if hasCmd(e) {
			last = i
		}
	}
	from := 0
	if last >= 0 {
		// the symbol following the last action must be a plain symbol, markers come after it
		if last+1 >= len(body.Sub) {
			return
		}
		if k := body.Sub[last+1].Kind; body.Sub[last].Kind != KCmd || k != KTerm && k != KNonterm && k != KList {
			return
		}
		from = last + 2
	}
	end := len(body.Sub) - 1 // before the end-of-rule action
	if from > end {
		return
	}
	n := 1 + x.r.Intn(2)
	for i := 0; i < n; i++ {
		at := from + x.r.Intn(end-from+1)
		x.markers++
		m := &Expr{Kind: KMarker, Sym: x.markers}
		body.Sub = append(body.Sub[:at:at], append([]*Expr{m}, body.Sub[at:]...)...)
		end++
	}
	var mark func(e *Expr)
	mark = func(e *Expr) {
		if e.Kind == KCmd {
			e.Cmd.Marked = true
		}
		if e.Kind == KList {
			return
		}
		for _, s := range e.Sub {
			mark(s)
		}
	}
	mark(body)
}

// twinRules adds two rules (to two nonterminals) whose mid-rule actions have
// byte-identical text, the same stack layout and the same types per position,
// while the aliases used by the action are attached to swapped positions:
//
//	A: g u[p] v[q] { vlog("cK|..", $p, ${q.offset}, ..) } w ...
//	B: g v[q] u[p] { vlog("cK|..", $p, ${q.offset}, ..) } w ...
//
// Returns the actions of the second rules (they take over the label of the first).
func (x *gen) twinRules() []*Cmd {
	g, r := x.g, x.r
	if len(g.Nonterms) < 2 {
		return nil
	}
	a := r.Intn(len(g.Nonterms))
	b := r.Intn(len(g.Nonterms) - 1)
	if b >= a {
		b++
	}
	guardUsed := func(nt, t int) bool {
		for _, ru := range g.Nonterms[nt].Rules {
			for _, e := range ru.Body.Sub {
				if e.Kind == KCmd || e.Kind == KMarker {
					continue
				}
				if e.Kind == KTerm && e.Sym == t || e.Kind != KTerm {
					return true // unguarded rules count as using everything
				}
				break
			}
		}
		return false
	}
	gd := -1
	for _, t := range r.Perm(len(g.Terms)) {
		if !guardUsed(a, t) && !guardUsed(b, t) {
			gd = t
			break
		}
	}
	if gd < 0 {
		return nil
	}
	// two symbols of one value type (possibly the same terminal)
	u := r.Intn(len(g.Terms))
	v := u
	for _, t := range r.Perm(len(g.Terms)) {
		if t != u && g.Terms[t].StrVal == g.Terms[u].StrVal {
			v = t
			break
		}
	}
	tail := r.Intn(len(g.Terms))
	p, q := x.alias(), x.alias()
	var first *Cmd
	var out []*Cmd
	for k, nt := range []int{a, b} {
		s1 := &Expr{Kind: KTerm, Sym: u, Alias: p}
		s2 := &Expr{Kind: KTerm, Sym: v, Alias: q}
		pp, qp := 2, 3
		if k == 1 {
			s1, s2 = &Expr{Kind: KTerm, Sym: v, Alias: q}, &Expr{Kind: KTerm, Sym: u, Alias: p}
			pp, qp = 3, 2
		}
		c := &Cmd{Fixed: true, Items: []Item{
			{Kind: IValue, Text: "$" + p, Form: "$alias", Pos: []int{pp}},
			{Kind: IOffset, Text: "${" + q + ".offset}", Form: "${alias.offset}", Pos: []int{qp}},
			{Kind: IValue, Text: "$" + q, Form: "$alias", Pos: []int{qp}},
			{Kind: IEndoffset, Text: "${" + p + ".endoffset}", Form: "${alias.endoffset}", Pos: []int{pp}},
		}}
		if k == 0 {
			first = c
		} else {
			c.Twin = first
			first.Twin = c
			out = append(out, c)
		}
		n := g.Nonterms[nt]
		x.tags++
		body := &Expr{Kind: KSeq, Sub: []*Expr{
			{Kind: KTerm, Sym: gd}, s1, s2, {Kind: KCmd, Cmd: c}, {Kind: KTerm, Sym: tail},
			{Kind: KCmd, Cmd: &Cmd{End: true, Tag: x.tags, StrVal: n.StrVal}},
		}}
		ru := &Rule{Body: body}
		ru.Scope = &Scope{Root: body, NT: nt, Rule: len(n.Rules)}
		n.Rules = append(n.Rules, ru)
	}
	return out
}
