// Package actgram generates grammars whose semantic actions log the values and
// positions of $-references, together with a top-down sampler that knows the
// derivation and therefore what every reference has to evaluate to (C16).
//
// Reference forms covered (meaning taken from grammar.ActionVars.Resolve's
// documentation, compiler TestArgRef, gen TestParserAction and the shipped
// json.tm/test.tm grammars):
//
//	$alias, ${alias}     value of the aliased symbol; nil when absent
//	$sym, ${sym#N}       symbol name; duplicates of a name inside one rule get #0,#1.. in textual order
//	$N                   zero-based position in the rule as written (all alternatives of nested
//	                     choices and optional parts are numbered, a list is one position)
//	$$                   value of the left-hand side (read back after the assignment)
//	${N.offset}, ${N.endoffset}   range of the symbol at zero-based position N (lists included), -1 when absent
//	${alias.offset}      start of the first present symbol under the alias, -1 if none
//	${alias.endoffset}   end of the last present symbol under the alias, -1 if none
//	${first().offset}    start of the first symbol of this expansion (-1 if nothing precedes the action)
//	${last().endoffset}  end of the last symbol preceding the action in this expansion (-1 if none)
//	${left().offset}, ${left().endoffset}   range of the left-hand side (end-of-rule actions only)
package actgram

import (
	"fmt"
	"strings"
)

type Kind int

const (
	KSeq Kind = iota
	KTerm
	KNonterm
	KOpt   // Sub[0]: a KTerm, KNonterm or KGroup
	KGroup // parenthesised alternatives: Sub = KSeq alternatives (>=1)
	KList  // Sub[0]: body KSeq
	KCmd
	KMarker // state marker .name: occupies no stack slot and no position
)

// Expr is a node of a rule body.
type Expr struct {
	Kind  Kind
	Sub   []*Expr
	Sym   int
	Flag  bool // KNonterm referring to a templated nonterminal: the argument passed for F
	Alias string
	Sep   int  // KList: separator terminal or -1
	Plus  bool // KList
	Cmd   *Cmd

	// filled by number()
	Pos   int    // KTerm/KNonterm/KList: 1-based position in its scope
	Scope *Scope // scope the element belongs to (for KList: the outer scope; Body is the inner one)
	Body  *Scope // KList: scope of the element body
	Frame int    // id of the nested-rule frame the element lives in (0 = scope top)
}

// Scope is a numbering scope: one rule of a nonterminal, or a list body.
type Scope struct {
	Root     *Expr // KSeq
	Elems    []*Expr
	IsList   bool
	NT, Rule int
	frames   []int // parent frame per frame id
	occs     []*nameOcc
}

type nameOcc struct {
	name  string
	pos   []int
	frame int
	seq   int // textual order stamp
	index int // occurrence number of that name within the scope
	total int // total occurrences in the scope
	isSym bool
}

// ItemKind is what a logged reference denotes.
type ItemKind int

const (
	IValue ItemKind = iota
	IOffset
	IEndoffset
	IFirstOffset
	ILastEnd
	ILeftOffset
	ILeftEnd
	ILHS
)

// Item is one logged reference.
type Item struct {
	Kind ItemKind
	Text string // as written in the action
	Form string // class used in counters and signatures
	Pos  []int  // candidate positions in the scope
}

// Cmd is a semantic action.
type Cmd struct {
	ID     int
	Items  []Item
	End    bool   // end-of-rule action of a nonterminal rule (assigns $$)
	Tag    int    // End: tag of the value
	Args   []Item // End: value references passed to mk
	StrVal bool   // End: the nonterminal has a string value
	Scope  *Scope
	Frame  int
	seq    int  // textual order stamp
	maxPos int  // positions < maxPos are visible
	anch   bool // directly followed by a symbol: never merged into a later action
	early  bool
	InList bool
	Marked bool // the rule contains state markers
	Fixed  bool // items were set by the generator of the construct, not chosen at random
	Twin   *Cmd // mid-rule action with byte-identical text in another rule (shares the label)
}

type Rule struct {
	Body  *Expr // KSeq, ends with the end-of-rule Cmd
	Scope *Scope
	Cond  int // templated nonterminal: 0 always, 1 only for [F], -1 only for [!F]
}

type Nonterm struct {
	Name   string
	StrVal bool // value type string instead of *Val
	Templ  bool // declared as Name<F>
	Rules  []*Rule
}

type Term struct {
	Name   string // identifier or quoted name
	Text   string // token text
	StrVal bool
	Quoted bool
}

// Grammar is a grammar with logging actions.
type Grammar struct {
	Terms    []Term
	Nonterms []*Nonterm
	Inputs   []int
	HasFlag  bool // %flag F; declared
	NCmds    int
	Forms    map[string]int // reference forms generated
}

// ---------------------------------------------------------------------------
// printing

func (g *Grammar) termRef(i int) string {
	return g.Terms[i].Name
}

func (g *Grammar) cmdText(c *Cmd) string {
	var b strings.Builder
	b.WriteString("{ ")
	if c.End {
		fn := "mk"
		if c.StrVal {
			fn = "mks"
		}
		fmt.Fprintf(&b, "$$ = %s(%d", fn, c.Tag)
		for _, a := range c.Args {
			b.WriteString(", ")
			b.WriteString(a.Text)
		}
		b.WriteString("); ")
	}
	fmt.Fprintf(&b, "vlog(\"c%d", c.ID)
	for range c.Items {
		b.WriteString("|%v")
	}
	b.WriteString("\"")
	for _, it := range c.Items {
		b.WriteString(", ")
		b.WriteString(it.Text)
	}
	b.WriteString(") }")
	return b.String()
}

func (g *Grammar) exprText(e *Expr, b *strings.Builder) {
	switch e.Kind {
	case KTerm:
		b.WriteString(g.termRef(e.Sym))
	case KNonterm:
		b.WriteString(g.Nonterms[e.Sym].Name)
		if g.Nonterms[e.Sym].Templ {
			if e.Flag {
				b.WriteString("<+F>")
			} else {
				b.WriteString("<~F>")
			}
		}
	case KSeq:
		for i, s := range e.Sub {
			if i > 0 {
				b.WriteByte(' ')
			}
			g.exprText(s, b)
		}
		return
	case KOpt:
		g.exprText(e.Sub[0], b)
		b.WriteByte('?')
		return
	case KGroup:
		b.WriteByte('(')
		for i, a := range e.Sub {
			if i > 0 {
				b.WriteString(" | ")
			}
			g.exprText(a, b)
		}
		b.WriteByte(')')
	case KList:
		body := e.Sub[0]
		if e.Sep >= 0 {
			b.WriteByte('(')
			g.exprText(body, b)
			fmt.Fprintf(b, " separator %s)", g.termRef(e.Sep))
		} else if len(body.Sub) == 1 && (body.Sub[0].Kind == KTerm || body.Sub[0].Kind == KNonterm) && body.Sub[0].Alias == "" {
			g.exprText(body.Sub[0], b)
		} else {
			b.WriteByte('(')
			g.exprText(body, b)
			b.WriteByte(')')
		}
		if e.Plus {
			b.WriteByte('+')
		} else {
			b.WriteByte('*')
		}
	case KCmd:
		b.WriteString(g.cmdText(e.Cmd))
		return
	case KMarker:
		fmt.Fprintf(b, ".m%d", e.Sym)
		return
	}
	if e.Alias != "" {
		fmt.Fprintf(b, "[%s]", e.Alias)
	}
}

// Text renders the grammar as textmapper source for package w/<pkg>.
func (g *Grammar) Text(pkg string) string {
	var b strings.Builder
	fmt.Fprintf(&b, "language %s(go);\n\nlang = \"%s\"\npackage = \"w/%s\"\neventBased = true\n", pkg, pkg, pkg)
	b.WriteString("\n:: lexer\n\nspace: /[ \\t\\r\\n]+/ (space)\n")
	for _, t := range g.Terms {
		if t.StrVal {
			fmt.Fprintf(&b, "%s {string}: /%s/ { $$ = tv(l.tokenOffset) }\n", t.Name, t.Text)
		} else {
			fmt.Fprintf(&b, "%s {int}: /%s/ { $$ = l.tokenOffset }\n", t.Name, t.Text)
		}
	}
	b.WriteString("\n:: parser\n\n%input ")
	for i, in := range g.Inputs {
		if i > 0 {
			b.WriteString(", ")
		}
		b.WriteString(g.Nonterms[in].Name)
	}
	b.WriteString(";\n\n")
	if g.HasFlag {
		b.WriteString("%flag F;\n\n")
	}
	for _, n := range g.Nonterms {
		typ := "*Val"
		if n.StrVal {
			typ = "string"
		}
		name := n.Name
		if n.Templ {
			name += "<F>"
		}
		fmt.Fprintf(&b, "%s {%s} :\n", name, typ)
		for k, ru := range n.Rules {
			if k == 0 {
				b.WriteString("    ")
			} else {
				b.WriteString("  | ")
			}
			switch {
			case n.Templ && ru.Cond > 0:
				b.WriteString("[F] ")
			case n.Templ && ru.Cond < 0:
				b.WriteString("[!F] ")
			}
			onlyCmd := true
			for _, s := range ru.Body.Sub {
				if s.Kind != KCmd && s.Kind != KMarker {
					onlyCmd = false
				}
			}
			if onlyCmd {
				b.WriteString("%empty ")
			}
			g.exprText(ru.Body, &b)
			b.WriteString("\n")
		}
		b.WriteString(";\n\n")
	}
	return b.String()
}

// ExtraSource is the hand-written companion file of every generated package:
// value constructors used by the actions.
func ExtraSource(pkg string) string {
	return "package " + pkg + `

import (
	"fmt"
	"strings"
)

// Val is the value of a nonterminal.
type Val struct{ S string }

func (v *Val) String() string {
	if v == nil {
		return "<nilval>"
	}
	return v.S
}

func join(tag int, kids []interface{}) string {
	var b strings.Builder
	fmt.Fprintf(&b, "%d(", tag)
	for i, k := range kids {
		if i > 0 {
			b.WriteByte(',')
		}
		fmt.Fprintf(&b, "%v", k)
	}
	b.WriteByte(')')
	return b.String()
}

func mk(tag int, kids ...interface{}) *Val { return &Val{S: "N" + join(tag, kids)} }

func mks(tag int, kids ...interface{}) string { return "S" + join(tag, kids) }

func tv(off int) string { return fmt.Sprintf("t%d", off) }
`
}
