package actgram

import (
	"fmt"
	"math/rand"
	"strings"
)

// Node is the derivation of one Expr.
type Node struct {
	E    *Expr
	Kids []*Node // KSeq: one per element; KOpt: 0 or 1; KGroup: the chosen alternative; KList: the elements
	Inst *Inst   // KNonterm
	Tok  int     // KTerm: token index
	S, T int     // token span [S,T)
}

// Inst is one application of a rule.
type Inst struct {
	NT, Rule int
	Body     *Node
	S, T     int
}

const inf = 1 << 30

func (g *Grammar) exprHeight(h []int, e *Expr) int {
	switch e.Kind {
	case KTerm, KCmd, KOpt:
		return 0
	case KNonterm:
		return h[e.Sym]
	case KList:
		if !e.Plus {
			return 0
		}
		return g.exprHeight(h, e.Sub[0])
	case KGroup:
		m := inf
		for _, a := range e.Sub {
			if v := g.exprHeight(h, a); v < m {
				m = v
			}
		}
		return m
	default:
		m := 0
		for _, s := range e.Sub {
			if v := g.exprHeight(h, s); v > m {
				m = v
			}
		}
		return m
	}
}

func (g *Grammar) minRuleHeights() ([]int, []int) {
	n := len(g.Nonterms)
	h := make([]int, n)
	best := make([]int, n)
	for i := range h {
		h[i], best[i] = inf, -1
	}
	for changed := true; changed; {
		changed = false
		for i, nt := range g.Nonterms {
			for k, r := range nt.Rules {
				v := g.exprHeight(h, r.Body)
				if v < inf && v+1 < h[i] {
					h[i], best[i] = v+1, k
					changed = true
				}
			}
		}
	}
	return best, h
}

// Productive reports whether every nonterminal derives a terminal string.
func (g *Grammar) Productive() bool {
	best, _ := g.minRuleHeights()
	for _, b := range best {
		if b < 0 {
			return false
		}
	}
	return true
}

type sampler struct {
	g      *Grammar
	r      *rand.Rand
	budget int
	depth  int
	toks   []int
	best   []int
	h      []int
}

// Sample derives a sentence of input nonterminal nt; returns the tokens and the derivation.
func (g *Grammar) Sample(r *rand.Rand, nt, budget int) ([]int, *Inst) {
	best, h := g.minRuleHeights()
	s := &sampler{g: g, r: r, budget: budget, best: best, h: h}
	inst := s.nonterm(nt)
	return s.toks, inst
}

func (s *sampler) nonterm(nt int) *Inst {
	n := s.g.Nonterms[nt]
	s.depth++
	defer func() { s.depth-- }()
	ri := s.r.Intn(len(n.Rules))
	if s.budget <= 0 || s.depth > 50 {
		ri = s.best[nt]
	}
	s.budget -= 2
	inst := &Inst{NT: nt, Rule: ri, S: len(s.toks)}
	inst.Body = s.expr(n.Rules[ri].Body)
	inst.T = len(s.toks)
	return inst
}

func (s *sampler) expr(e *Expr) *Node {
	n := &Node{E: e, S: len(s.toks)}
	switch e.Kind {
	case KTerm:
		n.Tok = len(s.toks)
		s.toks = append(s.toks, e.Sym)
		s.budget--
	case KNonterm:
		n.Inst = s.nonterm(e.Sym)
	case KSeq:
		for _, sub := range e.Sub {
			n.Kids = append(n.Kids, s.expr(sub))
		}
	case KOpt:
		if s.budget > 0 && s.r.Intn(2) == 0 {
			n.Kids = []*Node{s.expr(e.Sub[0])}
		}
	case KGroup:
		alt := e.Sub[s.r.Intn(len(e.Sub))]
		if s.budget <= 0 {
			alt = e.Sub[0]
			for _, a := range e.Sub[1:] {
				if s.g.exprHeight(s.h, a) < s.g.exprHeight(s.h, alt) {
					alt = a
				}
			}
		}
		n.Kids = []*Node{s.expr(alt)}
	case KList:
		k := 0
		if e.Plus {
			k = 1
		}
		if s.budget > 0 {
			k += s.r.Intn(4)
			if s.r.Intn(12) == 0 {
				k += s.r.Intn(10)
			}
		}
		for i := 0; i < k; i++ {
			if i > 0 && e.Sep >= 0 {
				s.toks = append(s.toks, e.Sep)
			}
			n.Kids = append(n.Kids, s.expr(e.Sub[0]))
		}
	}
	n.T = len(s.toks)
	return n
}

// ---------------------------------------------------------------------------
// expectations

// Line is one expected log line.
type Line struct {
	Cmd    *Cmd
	Values []string // one per item
	// per item: whether the referenced symbol is present in this expansion
	Present []bool
	MidRule bool // the action is followed by a symbol of its rule in this expansion
}

func (l *Line) String() string {
	var b strings.Builder
	fmt.Fprintf(&b, "c%d", l.Cmd.ID)
	for _, v := range l.Values {
		b.WriteByte('|')
		b.WriteString(v)
	}
	return b.String()
}

type symInfo struct {
	present  bool
	val      string
	off, end int
}

type env struct {
	syms    []symInfo
	nsyms   int // symbols of this expansion seen so far
	lastEnd int
	start   int // byte offset where the left-hand side starts
	next    int // byte offset of the token following the rule's yield (when the rule is empty)
	lhs     string
}

type evaluator struct {
	g       *Grammar
	pos     [][2]int
	textLen int
	lines   []*Line
}

func (ev *evaluator) start(tok int) int {
	if tok < len(ev.pos) {
		return ev.pos[tok][0]
	}
	return ev.textLen
}

// Expect computes the ordered list of log lines and the value of the input
// nonterminal for a derivation rendered at the given token byte ranges.
func (g *Grammar) Expect(inst *Inst, pos [][2]int, textLen int) ([]*Line, string) {
	ev := &evaluator{g: g, pos: pos, textLen: textLen}
	v, _, _ := ev.inst(inst)
	return ev.lines, v
}

func (ev *evaluator) termVal(sym, off int) string {
	if ev.g.Terms[sym].StrVal {
		return fmt.Sprintf("t%d", off)
	}
	return fmt.Sprint(off)
}

func (e *env) set(pos int, si symInfo) {
	e.syms[pos-1] = si
	e.nsyms++
	e.lastEnd = si.end
}

func (ev *evaluator) inst(in *Inst) (val string, off, end int) {
	sc := ev.g.Nonterms[in.NT].Rules[in.Rule].Scope
	e := &env{syms: make([]symInfo, len(sc.Elems)), start: ev.start(in.S), next: ev.start(in.T)}
	ev.walk(in.Body, e)
	off = e.start
	end = e.next
	if e.nsyms > 0 {
		end = e.lastEnd
	}
	return e.lhs, off, end
}

func (ev *evaluator) walk(n *Node, e *env) {
	switch n.E.Kind {
	case KTerm:
		p := ev.pos[n.Tok]
		e.set(n.E.Pos, symInfo{present: true, val: ev.termVal(n.E.Sym, p[0]), off: p[0], end: p[1]})
	case KNonterm:
		v, off, end := ev.inst(n.Inst)
		e.set(n.E.Pos, symInfo{present: true, val: v, off: off, end: end})
	case KSeq:
		for i, k := range n.Kids {
			if k.E.Kind == KCmd {
				ev.cmd(k.E.Cmd, e, n, i)
				continue
			}
			ev.walk(k, e)
		}
	case KOpt, KGroup:
		for _, k := range n.Kids {
			ev.walk(k, e)
		}
	case KList:
		off := ev.start(n.S)
		end := ev.start(n.T)
		for _, k := range n.Kids {
			e2 := &env{syms: make([]symInfo, len(n.E.Body.Elems)), start: ev.start(k.S), next: ev.start(k.T)}
			ev.walk(k, e2)
			if e2.nsyms > 0 {
				end = e2.lastEnd
			}
		}
		e.set(n.E.Pos, symInfo{present: true, val: "?", off: off, end: end})
	}
}

func (ev *evaluator) cmd(c *Cmd, e *env, seq *Node, idx int) {
	l := &Line{Cmd: c}
	if c.End {
		var kids []string
		for _, a := range c.Args {
			v, _ := ev.item(a, e)
			kids = append(kids, v)
		}
		tag := fmt.Sprintf("%d(%s)", c.Tag, strings.Join(kids, ","))
		if c.StrVal {
			e.lhs = "S" + tag
		} else {
			e.lhs = "N" + tag
		}
	}
	for _, it := range c.Items {
		v, p := ev.item(it, e)
		l.Values = append(l.Values, v)
		l.Present = append(l.Present, p)
	}
	ev.lines = append(ev.lines, l)
}

func (ev *evaluator) item(it Item, e *env) (string, bool) {
	var active []int
	for _, p := range it.Pos {
		if e.syms[p-1].present {
			active = append(active, p)
		}
	}
	switch it.Kind {
	case IValue:
		if len(active) == 0 {
			return "<nil>", false
		}
		return e.syms[active[0]-1].val, true
	case IOffset:
		if len(active) == 0 {
			return "-1", false
		}
		return fmt.Sprint(e.syms[active[0]-1].off), true
	case IEndoffset:
		if len(active) == 0 {
			return "-1", false
		}
		return fmt.Sprint(e.syms[active[len(active)-1]-1].end), true
	case IFirstOffset:
		if e.nsyms == 0 {
			return "-1", false
		}
		return fmt.Sprint(e.start), true
	case ILastEnd:
		if e.nsyms == 0 {
			return "-1", false
		}
		return fmt.Sprint(e.lastEnd), true
	case ILeftOffset:
		return fmt.Sprint(e.start), true
	case ILeftEnd:
		if e.nsyms == 0 {
			return fmt.Sprint(e.next), true
		}
		return fmt.Sprint(e.lastEnd), true
	case ILHS:
		return e.lhs, true
	}
	return "?", false
}
