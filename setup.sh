#!/bin/bash
cd "$(dirname "$0")" || exit 2
export GOFLAGS=-mod=mod GOPROXY=off GOTOOLCHAIN=auto
mkdir -p bin evidence
go build -tags verif -o bin/vcheck ./cmd/vcheck || exit 1
# warm the build cache (std with and without -race) so that the first check is not penalised
go build -race -tags verif -o /dev/null ./cmd/vcheck 2>/dev/null
(cd /repo && go build -tags verif ./... && go build -race -tags verif -o /dev/null ./cmd/textmapper) || exit 1
echo setup ok
