package checks

import (
	"fmt"
	"math/rand"

	"github.com/inspirer/textmapper/util/container"
	"github.com/inspirer/textmapper/util/graph"
	"verif/internal/fw"
)

// C26 – Tarjan SCCs, Warshall closure, transposition, longest path.

func naiveReach(g [][]int) [][]bool {
	n := len(g)
	r := make([][]bool, n)
	for i := range r {
		r[i] = make([]bool, n)
		st := append([]int(nil), g[i]...)
		for len(st) > 0 {
			v := st[len(st)-1]
			st = st[:len(st)-1]
			if r[i][v] {
				continue
			}
			r[i][v] = true
			st = append(st, g[v]...)
		}
	}
	return r
}

func cloneGraph(g [][]int) [][]int {
	r := make([][]int, len(g))
	for i, e := range g {
		r[i] = append([]int{}, e...)
	}
	return r
}

// c26DeepCyclic tells c26Graph that the deep graph it is given was generated with a cycle.
var c26DeepCyclic bool

func c26Graph(c *fw.Ctx, g [][]int, deep bool) {
	n := len(g)
	desc := func() string { return fmt.Sprint(g) }
	c.Eval(1)
	var reach [][]bool
	if !deep {
		reach = naiveReach(g)
	}

	// --- Tarjan
	if n >= 2 {
		orig := cloneGraph(g)
		seen := make([]int, n) // component id+1
		var comps [][]int
		bad := false
		graph.Tarjan(g, func(vs []int, onStack container.BitSet) {
			cp := append([]int(nil), vs...)
			for _, v := range cp {
				if v < 0 || v >= n || seen[v] != 0 {
					bad = true
					return
				}
				if !onStack.Get(v) {
					c.Violate("tarjan/onstack-missing-component", fmt.Sprintf("graph %s: vertex %d of the reported component is not marked on stack", desc(), v), nil)
				}
				seen[v] = len(comps) + 1
			}
			comps = append(comps, cp)
		})
		if bad {
			c.Violate("tarjan/vertex-reported-twice", fmt.Sprintf("graph %s: components %v", desc(), comps), nil)
			return
		}
		for v := range seen {
			if seen[v] == 0 {
				c.Violate("tarjan/vertex-not-reported", fmt.Sprintf("graph %s: vertex %d never reported; components %v", desc(), v, comps), nil)
				return
			}
		}
		if !deep {
			for i := 0; i < n; i++ {
				for j := 0; j < n; j++ {
					same := i == j || reach[i][j] && reach[j][i]
					if same != (seen[i] == seen[j]) {
						c.Violate("tarjan/not-scc-partition", fmt.Sprintf("graph %s: vertices %d,%d strongly connected=%v but components %v", desc(), i, j, same, comps), nil)
						return
					}
				}
			}
		}
		// reverse topological order: an edge u->v between different components
		// requires comp(v) reported before comp(u).
		for u, es := range g {
			for _, v := range es {
				if seen[u] != seen[v] && seen[v] > seen[u] {
					c.Violate("tarjan/not-reverse-topological", fmt.Sprintf("graph %s: edge %d->%d but component of %d reported first; components %v", desc(), u, v, u, comps), nil)
					return
				}
			}
		}
		for i := range g {
			if !container.SliceEqual(g[i], orig[i]) {
				c.Violate("tarjan/mutates-input", desc(), nil)
			}
		}
		if len(comps) > 1 && len(comps) < n {
			c.Count("graphs_with_nontrivial_sccs", 1)
		}
	}

	// --- Matrix closure
	if !deep {
		m := graph.NewMatrix(n)
		for u, es := range g {
			for _, v := range es {
				m.AddEdge(u, v)
			}
		}
		m.Closure()
		for i := 0; i < n; i++ {
			for j := 0; j < n; j++ {
				if m.HasEdge(i, j) != reach[i][j] {
					c.Violate(fmt.Sprintf("closure/wrong-pair/got=%v", m.HasEdge(i, j)), fmt.Sprintf("graph %s: Closure has (%d,%d)=%v, reachability says %v", desc(), i, j, m.HasEdge(i, j), reach[i][j]), nil)
					i = n
					break
				}
			}
		}
		if n > 0 {
			gg := m.Graph(nil)
			for i := 0; i < n && i < len(gg); i++ {
				k := 0
				for j := 0; j < n; j++ {
					if reach[i][j] {
						if k >= len(gg[i]) || gg[i][k] != j {
							c.Violate("closure/graph-export-wrong", fmt.Sprintf("graph %s: Matrix.Graph()[%d]=%v", desc(), i, gg[i]), nil)
							i = n
							break
						}
						k++
					}
				}
				if i < n && k != len(gg[i]) {
					c.Violate("closure/graph-export-wrong", fmt.Sprintf("graph %s: Matrix.Graph()[%d]=%v has extra entries", desc(), i, gg[i]), nil)
					break
				}
			}
		}
		c.Count("closure_cells_compared", int64(n*n))
	}

	// --- Transpose
	{
		t := graph.Transpose(g)
		if len(t) != n {
			c.Violate("transpose/size", desc(), nil)
		} else {
			cnt := map[[2]int]int{}
			for u, es := range g {
				for _, v := range es {
					cnt[[2]int{v, u}]++
				}
			}
			for u, es := range t {
				for _, v := range es {
					cnt[[2]int{u, v}]--
				}
			}
			for k, v := range cnt {
				if v != 0 {
					c.Violate("transpose/edge-multiset-differs", fmt.Sprintf("graph %s: transpose %v, edge %v count off by %d", desc(), t, k, v), nil)
					break
				}
			}
		}
	}

	// --- LongestPath
	{
		cyclic := false
		if deep {
			cyclic = c26DeepCyclic // deep graphs are generated as DAG chains, or as one big cycle
		} else {
			for i := 0; i < n; i++ {
				if reach[i][i] {
					cyclic = true
				}
			}
		}
		p := graph.LongestPath(g)
		switch {
		case n == 0:
			if len(p) != 0 {
				c.Violate("path/empty-graph", fmt.Sprint(p), nil)
			}
		case cyclic:
			if p != nil {
				c.Violate("path/cycle-not-detected", fmt.Sprintf("graph %s is cyclic, LongestPath = %v", desc(), p), nil)
			}
			c.Count("cyclic_graphs", 1)
		default:
			if p == nil {
				c.Violate("path/nil-for-dag", fmt.Sprintf("graph %s is acyclic, LongestPath = nil", desc()), nil)
				break
			}
			// valid path
			ok := len(p) > 0
			for i := 0; ok && i < len(p); i++ {
				if p[i] < 0 || p[i] >= n {
					ok = false
				}
				if ok && i > 0 {
					has := false
					for _, v := range g[p[i-1]] {
						if v == p[i] {
							has = true
						}
					}
					ok = has
				}
			}
			if !ok {
				c.Violate("path/not-a-path", fmt.Sprintf("graph %s: LongestPath = %v", desc(), p), nil)
				break
			}
			// brute-force maximum by DP over a topological order (memoised DFS, iterative safe for DAG)
			h := make([]int, n)
			var order []int
			state := make([]int, n)
			for s := 0; s < n; s++ {
				if state[s] != 0 {
					continue
				}
				type fr struct{ v, i int }
				st := []fr{{s, 0}}
				state[s] = 1
				for len(st) > 0 {
					f := &st[len(st)-1]
					if f.i < len(g[f.v]) {
						w := g[f.v][f.i]
						f.i++
						if state[w] == 0 {
							state[w] = 1
							st = append(st, fr{w, 0})
						}
					} else {
						order = append(order, f.v)
						st = st[:len(st)-1]
					}
				}
			}
			best := 0
			for _, v := range order {
				h[v] = 1
				for _, w := range g[v] {
					if h[w]+1 > h[v] {
						h[v] = h[w] + 1
					}
				}
				if h[v] > best {
					best = h[v]
				}
			}
			if len(p) != best {
				c.Violate("path/not-longest", fmt.Sprintf("graph %s: LongestPath = %v (len %d), maximum is %d", desc(), p, len(p), best), nil)
			}
			c.Count("dags", 1)
		}
	}
}

func graphFromMask(n int, mask uint64) [][]int {
	g := make([][]int, n)
	for i := 0; i < n; i++ {
		g[i] = []int{}
		for j := 0; j < n; j++ {
			if mask&(1<<uint(i*n+j)) != 0 {
				g[i] = append(g[i], j)
			}
		}
	}
	return g
}

func randGraph(r *rand.Rand) [][]int {
	n := 2 + r.Intn(39)
	if r.Intn(3) == 0 {
		n = 2 + r.Intn(8)
	}
	g := make([][]int, n)
	kind := r.Intn(4)
	dens := []float64{0.02, 0.05, 0.1, 0.2, 0.5}[r.Intn(5)]
	if n < 10 {
		dens *= 3
	}
	for i := range g {
		g[i] = []int{}
		for j := 0; j < n; j++ {
			if r.Float64() < dens {
				switch kind {
				case 0: // DAG (forward edges)
					if j > i {
						g[i] = append(g[i], j)
					}
				case 1: // DAG with shuffled edge order & multi-edges
					if j < i {
						g[i] = append(g[i], j)
						if r.Intn(5) == 0 {
							g[i] = append(g[i], j)
						}
					}
				default:
					g[i] = append(g[i], j)
				}
			}
		}
		r.Shuffle(len(g[i]), func(a, b int) { g[i][a], g[i][b] = g[i][b], g[i][a] })
	}
	return g
}

func init() {
	fw.Register(&fw.Check{
		ID:          "C26",
		Rule:        "cases 0..15: all 65536 directed graphs on 4 vertices (self-loops included) in 16 slices, plus all graphs on 0..3 vertices in case 0; further cases: batches of random graphs (2-40 vertices, densities 0.02-0.5, DAGs in both orientations with multi-edges, general digraphs) and long chains of 2*10^3 to 3*10^4 vertices (numbered along the path, against it, or randomly; some closed into one cycle); every graph is judged against naive reachability (SCC partition, reverse-topological callback order, closure cells, transposed edge multiset, longest path by DP). A graph is non-trivial when it has at least one edge; distinctness by adjacency text",
		Assumptions: []string{"naive DFS reachability and DP longest path are correct"},
		Cases: func(tier string) int {
			if tier == "thorough" {
				return 16 + 600
			}
			return 16 + 40
		},
		Exhaustive: func(string) bool { return true },
		Run: func(c *fw.Ctx) {
			if c.Case < 16 {
				if c.Case == 0 {
					for n := 0; n <= 3; n++ {
						for m := uint64(0); m < 1<<uint(n*n); m++ {
							g := graphFromMask(n, m)
							c26Graph(c, g, false)
							if m != 0 {
								c.Distinct(fmt.Sprint(n, m))
							}
						}
					}
				}
				for m := uint64(c.Case) << 12; m < uint64(c.Case+1)<<12; m++ {
					g := graphFromMask(4, m)
					c26Graph(c, g, false)
					if m != 0 {
						c.Distinct(fmt.Sprint(4, m))
					}
				}
				c.Count("exhaustive_graphs_n_le_4", 4096)
				return
			}
			for i := 0; i < 200; i++ {
				g := randGraph(c.R)
				if i == 0 {
					c.Sample(fmt.Sprint(g))
				}
				c26Graph(c, g, false)
				c.Distinct(fmt.Sprint(g))
				c.Count("random_graphs", 1)
			}
			// deep chain / comb: recursion depth. Sizes go beyond 10^4 and every third chain is numbered
			// along the path, so that one depth-first descent runs through the whole chain.
			for rep := 0; rep < 2; rep++ {
				n := 2000 + c.R.Intn(8000)
				if rep == 1 {
					n = 9990 + c.R.Intn(20000)
				}
				g := make([][]int, n)
				perm := c.R.Perm(n)
				switch c.R.Intn(3) {
				case 0:
					for i := range perm {
						perm[i] = i
					}
				case 1:
					for i := range perm {
						perm[i] = n - 1 - i
					}
				}
				for i := 0; i < n; i++ {
					g[perm[i]] = []int{}
					if i+1 < n {
						g[perm[i]] = append(g[perm[i]], perm[i+1])
						if c.R.Intn(10) == 0 && i+2 < n {
							g[perm[i]] = append(g[perm[i]], perm[i+2+c.R.Intn(n-i-2)])
						}
					}
				}
				c26DeepCyclic = false
				if rep == 1 && c.R.Intn(3) == 0 {
					// close the chain: one cycle through all vertices
					g[perm[n-1]] = append(g[perm[n-1]], perm[0])
					c26DeepCyclic = true
					c.Count("deep_cycles", 1)
				}
				c26Graph(c, g, true)
				c26DeepCyclic = false
				if n > 10000 {
					c.Count("deep_chain_graphs_over_10000", 1)
				}
			}
			c.Count("deep_chain_graphs", 1)
		},
		MinNontrivial:    func(string) int { return 60000 },
		RequiredCounters: []string{"graphs_with_nontrivial_sccs", "cyclic_graphs", "dags", "closure_cells_compared", "deep_chain_graphs", "deep_chain_graphs_over_10000"},
	})
}
