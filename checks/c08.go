package checks

import (
	"fmt"
	"math/rand"
	"strings"

	"github.com/inspirer/textmapper/lalr"
	"verif/internal/fw"
	"verif/internal/reflalr"
)

// C08 – runtime lookahead decisions pick the alternative whose predicates hold.
//
// Alternative sets are enumerated exhaustively and driven through lalr.Compile on
// a carrier grammar
//
//	S: L1 t x1 | L2 t x2 | ...        L_i: (empty, lookahead nonterminal)
//
// so that the real ruleAction / planner.addRule / planner.compile path builds
// Tables.Lookaheads. The oracle evaluates every truth assignment.

type c08Lit struct {
	pred int
	neg  bool
}
type c08Alt []c08Lit

func (a c08Alt) String() string {
	var parts []string
	for _, l := range a {
		s := fmt.Sprintf("P%d", l.pred)
		if l.neg {
			s = "!" + s
		}
		parts = append(parts, s)
	}
	return "(?= " + strings.Join(parts, " & ") + ")"
}

// c08FormsA: every ordered sequence of literals over distinct predicates out of nPred.
func c08FormsA(nPred int) []c08Alt {
	var out []c08Alt
	var rec func(cur c08Alt, used int)
	rec = func(cur c08Alt, used int) {
		out = append(out, append(c08Alt{}, cur...))
		for p := 0; p < nPred; p++ {
			if used&(1<<p) != 0 {
				continue
			}
			for _, neg := range []bool{false, true} {
				rec(append(cur, c08Lit{p, neg}), used|1<<p)
			}
		}
	}
	rec(nil, 0)
	return out
}

// c08FormsB: literals in {absent, positive, negated} for each of nPred predicates, in index order.
func c08FormsB(nPred int) []c08Alt {
	var out []c08Alt
	n := 1
	for i := 0; i < nPred; i++ {
		n *= 3
	}
	for code := 0; code < n; code++ {
		var a c08Alt
		c := code
		for p := 0; p < nPred; p++ {
			switch c % 3 {
			case 1:
				a = append(a, c08Lit{p, false})
			case 2:
				a = append(a, c08Lit{p, true})
			}
			c /= 3
		}
		out = append(out, a)
	}
	return out
}

const c08Preds = 4

// c08Carrier builds the carrier grammar. uses[j] lists the alternatives that
// compete on terminal t_j. ruleOrder/laOrder are permutations of the alternatives
// giving the positions of the empty rules and of the Lookaheads entries.
func c08Carrier(alts []c08Alt, uses [][]int, ruleOrder, laOrder []int) (*lalr.Grammar, []lalr.Sym) {
	g := &lalr.Grammar{Origin: reflalr.Node(0)}
	g.Symbols = []string{"eoi"}
	term := func(n string) lalr.Sym {
		g.Symbols = append(g.Symbols, n)
		return lalr.Sym(len(g.Symbols) - 1)
	}
	var ts, xs, ps []lalr.Sym
	for j := range uses {
		ts = append(ts, term(fmt.Sprintf("t%d", j)))
	}
	for i := range alts {
		xs = append(xs, term(fmt.Sprintf("x%d", i)))
	}
	for k := 0; k < c08Preds; k++ {
		ps = append(ps, term(fmt.Sprintf("p%d", k)))
	}
	g.Terminals = len(g.Symbols)
	nt := func(n string) lalr.Sym {
		g.Symbols = append(g.Symbols, n)
		return lalr.Sym(len(g.Symbols) - 1)
	}
	S := nt("S")
	g.Inputs = []lalr.Input{{Nonterminal: S, Eoi: true}}
	var P []lalr.Sym
	for k := 0; k < c08Preds; k++ {
		P = append(P, nt(fmt.Sprintf("P%d", k)))
		g.Inputs = append(g.Inputs, lalr.Input{Nonterminal: P[k], Eoi: false})
	}
	L := make([]lalr.Sym, len(alts))
	for i := range alts {
		L[i] = nt(fmt.Sprintf("L%d", i))
	}
	add := func(lhs lalr.Sym, rhs ...lalr.Sym) {
		g.Rules = append(g.Rules, lalr.Rule{LHS: lhs, RHS: rhs, Type: -1, Origin: reflalr.Node(len(g.Rules) + 1)})
	}
	for _, i := range ruleOrder {
		add(L[i])
	}
	for k := 0; k < c08Preds; k++ {
		add(P[k], ps[k])
	}
	for j, u := range uses {
		for _, i := range u {
			add(S, L[i], ts[j], xs[i])
		}
	}
	for _, i := range laOrder {
		la := lalr.Lookahead{Nonterminal: L[i], Origin: reflalr.Node(1000 + i)}
		for _, l := range alts[i] {
			la.Predicates = append(la.Predicates, lalr.Predicate{Input: int32(1 + l.pred), Negated: l.neg})
		}
		g.Lookaheads = append(g.Lookaheads, la)
	}
	return g, L
}

// oracle ------------------------------------------------------------------

func c08Sat(a c08Alt, assign int) bool {
	for _, l := range a {
		if (assign&(1<<l.pred) != 0) == l.neg {
			return false
		}
	}
	return true
}

// c08Exclusive: no truth assignment satisfies two alternatives of the subset.
func c08Exclusive(alts []c08Alt, subset []int) bool {
	for assign := 0; assign < 1<<c08Preds; assign++ {
		n := 0
		for _, i := range subset {
			if c08Sat(alts[i], assign) {
				n++
			}
		}
		if n > 1 {
			return false
		}
	}
	return true
}

var c08Perms = func() [][]int {
	var out [][]int
	var rec func(cur []int, used int)
	rec = func(cur []int, used int) {
		if len(cur) == c08Preds {
			out = append(out, append([]int{}, cur...))
			return
		}
		for p := 0; p < c08Preds; p++ {
			if used&(1<<p) == 0 {
				rec(append(cur, p), used|1<<p)
			}
		}
	}
	rec(nil, 0)
	return out
}()

// c08Consistent: some total order of the predicates agrees with the order in
// which every alternative lists its predicates.
func c08Consistent(alts []c08Alt, subset []int) bool {
	for _, perm := range c08Perms {
		rank := make([]int, c08Preds)
		for i, p := range perm {
			rank[p] = i
		}
		ok := true
		for _, i := range subset {
			for k := 1; k < len(alts[i]); k++ {
				if rank[alts[i][k-1].pred] > rank[alts[i][k].pred] {
					ok = false
				}
			}
		}
		if ok {
			return true
		}
	}
	return false
}

func c08Decide(lr lalr.LookaheadRule, assign int) lalr.Sym {
	for _, cs := range lr.Cases {
		v := assign&(1<<(int(cs.Input)-1)) != 0
		if v != cs.Negated {
			return cs.Target
		}
	}
	return lr.DefaultTarget
}

// c08Check compiles one carrier and judges every competing subset.
func c08Check(c *fw.Ctx, alts []c08Alt, uses [][]int, ruleOrder, laOrder []int) {
	g, L := c08Carrier(alts, uses, ruleOrder, laOrder)
	var t *lalr.Tables
	var err error
	desc := func() string {
		var b strings.Builder
		for i, a := range alts {
			fmt.Fprintf(&b, "L%d = %s\n", i, a)
		}
		fmt.Fprintf(&b, "competing on terminals: %v; empty-rule order %v; Lookaheads order %v\n", uses, ruleOrder, laOrder)
		if t != nil {
			for i, lr := range t.Lookaheads {
				fmt.Fprintf(&b, "Lookaheads[%d]: ", i)
				for _, cs := range lr.Cases {
					n := ""
					if cs.Negated {
						n = "!"
					}
					fmt.Fprintf(&b, "%sP%d -> %s, ", n, cs.Input-1, g.Symbols[cs.Target])
				}
				fmt.Fprintf(&b, "default -> %s\n", g.Symbols[lr.DefaultTarget])
			}
		}
		fmt.Fprintf(&b, "error: %v\n", err)
		return b.String()
	}
	if !c.Guard("compile", nil, func() { t, err = lalr.Compile(g, lalr.Options{}) }) {
		return
	}
	c.Eval(1)
	if err == nil && t != nil && len(t.Lookaheads) > 0 {
		c.Sample(desc())
	}
	ei := reflalr.ClassifyErr(err)
	if ei.Summary || ei.ConflictMsgs > 0 || len(ei.Other) > 0 {
		c.Violate("carrier/unexpected-error-kind", desc(), reflalr.Files(g))
		return
	}
	nRules := len(g.Rules)
	anyMustReject := false
	anyFallback := false
	for j, subset := range uses {
		if len(subset) < 2 {
			continue
		}
		c.Count("alternative_sets_judged", 1)
		tj := 1 + j
		act := reflalr.CellDefault(t, 0, tj)
		if act.Kind != reflalr.ActReduce || act.Arg < nRules || act.Arg-nRules >= len(t.Lookaheads) {
			c.Violate("carrier/cell-is-not-a-lookahead-rule", fmt.Sprintf("terminal t%d: %v\n%s", j, act, desc()), reflalr.Files(g))
			continue
		}
		lr := t.Lookaheads[act.Arg-nRules]
		if t.RuleLen[act.Arg] != 0 || lalr.Sym(t.RuleSymbol[act.Arg]) != lr.DefaultTarget {
			c.Violate("tables/lookahead-rule-len-or-symbol", desc(), reflalr.Files(g))
		}
		excl := c08Exclusive(alts, subset)
		cons := c08Consistent(alts, subset)
		// accepted? a rejected set gets the fallback rule {default: first alternative} and an error
		fallback := len(lr.Cases) == 0
		if fallback {
			anyFallback = true
		}
		switch {
		case !excl:
			c.Count("sets_not_mutually_exclusive", 1)
		case !cons:
			c.Count("sets_inconsistently_ordered", 1)
		}
		if !excl || !cons {
			anyMustReject = true
			if !fallback {
				sig := "accepted/not-mutually-exclusive"
				if excl {
					sig = "accepted/inconsistent-predicate-order"
				}
				c.Violate(sig, fmt.Sprintf("subset %v on t%d\n%s", subset, j, desc()), reflalr.Files(g))
			} else if ei.Lookahead == 0 {
				c.Violate("rejected-without-error", fmt.Sprintf("subset %v on t%d\n%s", subset, j, desc()), reflalr.Files(g))
			} else {
				c.Count("sets_rejected_as_required", 1)
			}
			continue
		}
		if fallback {
			// exclusive and consistently ordered, but the compiler cannot build a decision list
			// (e.g. no total order, or no single distinguishing predicate): rejection is allowed
			c.Count("sets_rejected_although_exclusive_and_ordered", 1)
			if ei.Lookahead == 0 {
				c.Violate("rejected-without-error", fmt.Sprintf("subset %v on t%d\n%s", subset, j, desc()), reflalr.Files(g))
			}
			continue
		}
		c.Count("sets_accepted", 1)
		c.Count(fmt.Sprintf("sets_accepted_with_%d_alternatives", len(subset)), 1)
		// targets = subset
		tg := map[lalr.Sym]bool{lr.DefaultTarget: true}
		for _, cs := range lr.Cases {
			tg[cs.Target] = true
		}
		okT := len(tg) == len(subset)
		for _, i := range subset {
			if !tg[L[i]] {
				okT = false
			}
		}
		if !okT {
			c.Violate("accepted/targets-differ-from-alternatives", fmt.Sprintf("subset %v on t%d\n%s", subset, j, desc()), reflalr.Files(g))
			continue
		}
		for assign := 0; assign < 1<<c08Preds; assign++ {
			sat := -1
			n := 0
			for _, i := range subset {
				if c08Sat(alts[i], assign) {
					sat = i
					n++
				}
			}
			c.Count("assignments_evaluated", 1)
			if n != 1 {
				continue
			}
			c.Count("assignments_with_exactly_one_alternative", 1)
			if got := c08Decide(lr, assign); got != L[sat] {
				c.Violate("decision/wrong-alternative-selected", fmt.Sprintf("subset %v on t%d, assignment (bit k = P%d..) %04b: only L%d holds, decision list selects %s\n%s", subset, j, 0, assign, sat, g.Symbols[got], desc()), reflalr.Files(g))
				break
			}
		}
		if len(subset) >= 2 {
			c.Distinct(fmt.Sprint(alts, subset))
		}
	}
	if ei.Lookahead > 0 && !anyFallback {
		c.Violate("error-without-rejected-set", desc(), reflalr.Files(g))
	}
	_ = anyMustReject
}

func c08Tuple(c *fw.Ctx, forms []c08Alt, idx []int, variant int) {
	alts := make([]c08Alt, len(idx))
	all := make([]int, len(idx))
	for i, f := range idx {
		alts[i] = forms[f]
		all[i] = i
	}
	ruleOrder := all
	laOrder := all
	if variant%2 == 1 {
		// Lookaheads declared in another order than the empty rules (rotation)
		laOrder = append(append([]int{}, all[1:]...), all[0])
	}
	c08Check(c, alts, [][]int{all}, ruleOrder, laOrder)
}

// c08Random: several terminals with different competing subsets, random orders.
func c08Random(c *fw.Ctx, r *rand.Rand, forms []c08Alt) {
	n := 3 + r.Intn(3)
	alts := make([]c08Alt, n)
	// bias towards valid decision chains: split on a predicate order
	order := r.Perm(c08Preds)
	if r.Intn(3) != 0 {
		// chain: L0 = a; L1 = !a & b; L2 = !a & !b & c ...
		depth := n - 1
		if depth > c08Preds {
			depth = c08Preds
		}
		for i := 0; i < n; i++ {
			var a c08Alt
			for k := 0; k < i && k < depth; k++ {
				a = append(a, c08Lit{order[k], r.Intn(8) != 0})
			}
			if i < depth {
				a = append(a, c08Lit{order[i], false})
			}
			alts[i] = a
		}
		if r.Intn(2) == 0 {
			r.Shuffle(n, func(i, j int) { alts[i], alts[j] = alts[j], alts[i] })
		}
	} else {
		for i := range alts {
			alts[i] = forms[r.Intn(len(forms))]
		}
	}
	nt := 1 + r.Intn(3)
	uses := make([][]int, nt)
	for j := range uses {
		k := 2 + r.Intn(n-1)
		uses[j] = r.Perm(n)[:k]
	}
	c.Count("random_multi_terminal_carriers", 1)
	c08Check(c, alts, uses, r.Perm(n), r.Perm(n))
}

func init() {
	formsA := c08FormsA(3)
	formsB := c08FormsB(4)
	nA, nB := len(formsA), len(formsB)
	fw.Register(&fw.Check{
		ID: "C08",
		Rule: "EXHAUSTIVE table-level enumeration of lookahead alternative sets, each compiled by lalr.Compile on the carrier grammar S: L_i t x_i (empty rules L_i in tuple order; Lookaheads declared in tuple order or rotated by one - pairs both ways; triples both ways in thorough, alternating by index parity in quick): " +
			"space A = every ORDERED tuple of 2 and of 3 alternatives, an alternative being any ordered sequence of literals (positive/negated) over distinct predicates out of 3 (79 alternatives incl. the empty one; 6 241 pairs, 493 039 triples); " +
			"space B = alternatives over 4 predicates listed in index order with each literal in {absent, positive, negated} (81 alternatives): every ordered pair (6 561) and ordered triple (531 441); thorough adds every multiset of 4 such alternatives (1 929 501) with one seeded random order. " +
			"For every accepted set all 16 truth assignments are evaluated: whenever exactly one alternative's conjunction holds, the decision list (Cases in order, then DefaultTarget - as applyRule evaluates it) must select it; every set with two jointly satisfiable alternatives, or whose predicate orders admit no common total order, must be rejected with the lookahead error. " +
			"End to end: decision trees over 1-3 predicates (each predicate accepts the tokens whose index has its bit set, so the next token selects the truth assignment) are written as textmapper grammars with (?= ...) alternatives, both directly in the input rule and nested inside another lookahead predicate, under cancellable x recursiveLookaheads x optimizeTables, generated, built and run; the alternative reported by the generated parser must be the leaf the assignment selects. " +
			"Additional random carriers with 3-5 alternatives competing in different subsets on 1-3 terminals (merges arriving in different orders, shared rules). Non-trivial = an accepted set (decision list checked on all assignments); distinctness by the set",
		Assumptions: []string{
			"a predicate's outcome is an independent boolean (the oracle quantifies over all assignments)",
			"'not consistently ordered' = the orders in which the alternatives list their predicates have no common linear extension",
			"the compiler may reject more sets than the statement requires (e.g. partially ordered predicates); that is counted, not judged",
		},
		Cases: func(tier string) int {
			n := 1 + nA + nB + 16
			if tier == "thorough" {
				n += nB + 64
			}
			return n + c08E2ECases(tier)
		},
		Exhaustive: func(string) bool { return true },
		CPUBudget:  900,
		Run: func(c *fw.Ctx) {
			lalrTune()
			i := c.Case
			base := 1 + nA + nB + 16
			if c.Tier == "thorough" {
				base += nB + 64
			}
			if i >= base {
				c08E2E(c) // generated parsers: the decision code itself (applyRule / lookaheadRule)
				return
			}
			switch {
			case i == 0: // all ordered pairs of both spaces
				for a := 0; a < nA; a++ {
					for b := 0; b < nA; b++ {
						c08Tuple(c, formsA, []int{a, b}, 0)
						c08Tuple(c, formsA, []int{a, b}, 1)
						c.Count("space_A_pairs", 1)
					}
				}
				for a := 0; a < nB; a++ {
					for b := 0; b < nB; b++ {
						c08Tuple(c, formsB, []int{a, b}, 0)
						c08Tuple(c, formsB, []int{a, b}, 1)
						c.Count("space_B_pairs", 1)
					}
				}
			case i < 1+nA: // ordered triples of space A with first alternative i-1
				a := i - 1
				for b := 0; b < nA; b++ {
					for d := 0; d < nA; d++ {
						if c.Tier == "thorough" {
							c08Tuple(c, formsA, []int{a, b, d}, 0)
							c08Tuple(c, formsA, []int{a, b, d}, 1)
						} else {
							c08Tuple(c, formsA, []int{a, b, d}, (a+b+d)%2)
						}
						c.Count("space_A_triples", 1)
					}
				}
			case i < 1+nA+nB:
				a := i - 1 - nA
				for b := 0; b < nB; b++ {
					for d := 0; d < nB; d++ {
						if c.Tier == "thorough" {
							c08Tuple(c, formsB, []int{a, b, d}, 0)
							c08Tuple(c, formsB, []int{a, b, d}, 1)
						} else {
							c08Tuple(c, formsB, []int{a, b, d}, (a+b+d)%2)
						}
						c.Count("space_B_triples", 1)
					}
				}
			case i < 1+nA+nB+16:
				for k := 0; k < 600; k++ {
					c08Random(c, c.SubRand(k), formsB)
				}
			case i < 1+nA+nB+16+nB: // thorough: multisets of 4 with smallest member a
				a := i - (1 + nA + nB + 16)
				r := c.SubRand(0)
				for b := a; b < nB; b++ {
					for d := b; d < nB; d++ {
						for e := d; e < nB; e++ {
							idx := []int{a, b, d, e}
							r.Shuffle(4, func(x, y int) { idx[x], idx[y] = idx[y], idx[x] })
							c08Tuple(c, formsB, idx, r.Intn(2))
							c.Count("space_B_quadruples", 1)
						}
					}
				}
			default:
				for k := 0; k < 3000; k++ {
					c08Random(c, c.SubRand(k), formsB)
				}
			}
		},
		MinNontrivial: func(tier string) int { return 5000 },
		RequiredCounters: []string{"space_A_pairs", "space_A_triples", "space_B_pairs", "space_B_triples", "sets_accepted", "sets_accepted_with_2_alternatives", "sets_accepted_with_3_alternatives",
			"sets_accepted_with_4_alternatives", "sets_rejected_as_required", "sets_not_mutually_exclusive", "sets_inconsistently_ordered", "assignments_with_exactly_one_alternative", "random_multi_terminal_carriers",
			"e2e_decisions_checked", "e2e_nested_decisions_checked", "e2e_grammars_recursive_cancellable"},
	})
}
