package checks

import (
	"encoding/json"
	"fmt"
	"os"
	"path/filepath"
	"regexp"
	"sort"
	"strings"
	"time"

	"verif/internal/astgram"
	"verif/internal/fw"
	"verif/internal/genrun"
)

// C21 – typed AST accessors match the trees the parser builds.

type c21Grammar struct {
	ag       *astgram.Grammar
	pkg      *genrun.Pkg
	types    map[string]bool            // node type names of listener.go
	cats     map[string]map[string]bool // category tables of listener.go
	injected map[string]bool
	base     string
	docs     map[string]map[string]*c21FieldDoc // node type -> accessor name -> documented field
	legit    map[string]map[string]bool         // node type -> child types the annotations can put directly below it
}

// c21FieldDoc is one field of a node type as documented in the comments of listener.go.
type c21FieldDoc struct {
	Types    []string
	List     bool
	Nullable bool
}

type c21RetNode struct {
	ID    int    `json:"id"`
	Type  string `json:"t"`
	Go    string `json:"go"`
	NilIf bool   `json:"nilif"`
}

type c21Accessor struct {
	Name  string       `json:"n"`
	Ret   string       `json:"ret"`
	Kind  string       `json:"k"`
	OK    bool         `json:"ok"`
	Nodes []c21RetNode `json:"nodes"`
	Panic string       `json:"panic"`
}

type c21Node struct {
	ID       int           `json:"id"`
	Type     string        `json:"t"`
	S        int           `json:"s"`
	E        int           `json:"e"`
	Parent   int           `json:"p"`
	Children []int         `json:"ch"`
	Wrapper  string        `json:"w"`
	Factory  string        `json:"fpanic"`
	Acc      []c21Accessor `json:"acc"`
}

var (
	c21CatRE   = regexp.MustCompile(`(?s)var (\w+) = \[\]NodeType\{(.*?)\n\}`)
	c21NamesRE = regexp.MustCompile(`(?s)var nodeTypeStr = \[\.\.\.\]string\{(.*?)\n\}`)
	c21IdentRE = regexp.MustCompile(`\w+`)
	c21StrRE   = regexp.MustCompile(`"(\w+)"`)
)

var c21DocRE = regexp.MustCompile(`(?m)^\t(\w+)\s+// (.+)$`)

// c21ReadDocs parses the field descriptors ("a=(X | Y)* B c=D?") that the
// generated listener.go attaches to the node type constants.
func c21ReadDocs(src string) map[string]map[string]*c21FieldDoc {
	out := map[string]map[string]*c21FieldDoc{}
	i := strings.Index(src, "const (")
	j := strings.Index(src, "NodeTypeMax")
	if i < 0 || j < i {
		return out
	}
	for _, m := range c21DocRE.FindAllStringSubmatch(src[i:j], -1) {
		fields := map[string]*c21FieldDoc{}
		// split at spaces outside parentheses
		var parts []string
		depth, start := 0, 0
		d := m[2]
		for k := 0; k <= len(d); k++ {
			if k == len(d) || d[k] == ' ' && depth == 0 {
				if k > start {
					parts = append(parts, d[start:k])
				}
				start = k + 1
				continue
			}
			switch d[k] {
			case '(':
				depth++
			case ')':
				depth--
			}
		}
		for _, p := range parts {
			f := &c21FieldDoc{}
			name := ""
			if eq := strings.IndexByte(p, '='); eq >= 0 {
				name, p = p[:eq], p[eq+1:]
			}
			switch {
			case strings.HasSuffix(p, "*"):
				f.List, f.Nullable, p = true, true, p[:len(p)-1]
			case strings.HasSuffix(p, "+"):
				f.List, p = true, p[:len(p)-1]
			case strings.HasSuffix(p, "?"):
				f.Nullable, p = true, p[:len(p)-1]
			}
			p = strings.TrimSuffix(strings.TrimPrefix(p, "("), ")")
			for _, t := range strings.Split(p, " | ") {
				f.Types = append(f.Types, strings.TrimSpace(t))
			}
			if name == "" {
				name = f.Types[0]
			}
			fields[strings.ToUpper(name[:1])+name[1:]] = f
		}
		out[m[1]] = fields
	}
	return out
}

// c21ReadListener extracts the node type names and the category tables from the generated listener.go.
func c21ReadListener(src string) (map[string]bool, map[string]map[string]bool) {
	types := map[string]bool{}
	if m := c21NamesRE.FindStringSubmatch(src); m != nil {
		for _, s := range c21StrRE.FindAllStringSubmatch(m[1], -1) {
			if s[1] != "NONE" {
				types[s[1]] = true
			}
		}
	}
	cats := map[string]map[string]bool{}
	for _, m := range c21CatRE.FindAllStringSubmatch(src, -1) {
		set := map[string]bool{}
		for _, id := range c21IdentRE.FindAllString(m[2], -1) {
			set[id] = true
		}
		cats[m[1]] = set
	}
	return types, cats
}

func c21Compile(c *fw.Ctx, n, maxTries int) []*c21Grammar {
	var out []*c21Grammar
	for i := 0; len(out) < n && i < maxTries; i++ {
		ag := astgram.Rand(c.R, astgram.Options{EmptyNodes: i%4 == 3})
		if !ag.Productive() {
			c.Count("grammars_unproductive", 1)
			continue
		}
		name := fmt.Sprintf("g%04d", len(out))
		text := ag.Text(name)
		c.Note(map[string]string{"grammar.tm": text})
		c.Count("grammars_generated", 1)
		pkg, cerr, gerr := genrun.Generate(name, text)
		if cerr != nil {
			msg := cerr.Error()
			if strings.Contains(msg, "conflict") {
				c.Count("grammars_rejected_conflicts", 1)
			} else {
				c.Count("grammars_rejected_other", 1)
				c.Count("reject:"+fw.Skeleton(lastColon(msg)), 1)
			}
			continue
		}
		if gerr != nil {
			c.Violate("generate-failed/"+fw.Skeleton(gerr.Error()), "gen.Generate failed for a grammar that compiles:\n"+gerr.Error()+"\n"+text, map[string]string{"grammar.tm": text})
			continue
		}
		pkg.Extra = map[string]string{"zzwalk/walk.go": astgram.WalkerSource(name)}
		g := &c21Grammar{ag: ag, pkg: pkg, injected: map[string]bool{}, base: astgram.BaseNodeName(name)}
		g.types, g.cats = c21ReadListener(pkg.Files["listener.go"])
		g.docs = c21ReadDocs(pkg.Files["listener.go"])
		g.legit = ag.ChildTypes()
		for _, t := range ag.Injected {
			g.injected[t] = true
		}
		out = append(out, g)
	}
	return out
}

// c21Build writes the module, links the walkers into the runner and builds it.
func c21Build(c *fw.Ctx, gs []*c21Grammar) string {
	dir := filepath.Join(c.WorkDir, fmt.Sprintf("mod%d", c.Case))
	os.RemoveAll(dir)
	var pkgs []*genrun.Pkg
	var names []string
	for _, g := range gs {
		pkgs = append(pkgs, g.pkg)
		names = append(names, g.pkg.Name)
	}
	if err := genrun.WriteModule(dir, pkgs); err != nil {
		c.Violate("harness/write-module/"+fw.Skeleton(err.Error()), err.Error(), nil)
		return ""
	}
	if err := os.WriteFile(filepath.Join(dir, "zz_ast_imports.go"), []byte(astgram.ImportsSource(names)), 0o644); err != nil {
		c.Violate("harness/write-module/"+fw.Skeleton(err.Error()), err.Error(), nil)
		return ""
	}
	bin, out, err := genrun.Build(dir, false, "")
	if err != nil {
		files := map[string]string{"build_output.txt": out}
		for _, p := range pkgs {
			if strings.Contains(out, "w/"+p.Name) || strings.Contains(out, p.Name+"/") {
				files["grammar.tm"] = p.Text
				for n, content := range p.Files {
					files[strings.ReplaceAll(n, "/", "_")] = content
				}
				break
			}
		}
		c.Violate("generated-code-does-not-build/"+buildSkeleton(out), "go build of generated packages (incl. ast) failed:\n"+out, files)
		return ""
	}
	return bin
}

type c21Meta struct {
	g     *c21Grammar
	text  string
	ntoks int
	pos   [][2]int
	xn    []astgram.XNode // nodes the annotations create for the sampled derivation
}

// c21Match relates the nodes of the built tree to the nodes the sampled
// derivation creates (same type, same start, both empty or both non-empty;
// only unique candidates are matched), so that a disagreement can be attributed
// to the tree builder having attached a node to another parent than the
// annotations say.
type c21Match struct {
	a2x, x2a []int
	nodes    []*c21Node
	xn       []astgram.XNode
	injected map[string]bool
}

func c21NewMatch(m *c21Meta, nodes []*c21Node) *c21Match {
	type key struct {
		t     string
		s     int
		empty bool
	}
	start := func(tok int) int {
		if tok < len(m.pos) {
			return m.pos[tok][0]
		}
		return len(m.text)
	}
	mt := &c21Match{a2x: make([]int, len(nodes)), x2a: make([]int, len(m.xn)), nodes: nodes, xn: m.xn, injected: m.g.injected}
	ex, ac := map[key][]int{}, map[key][]int{}
	for i, x := range m.xn {
		k := key{x.Type, start(x.S), x.S == x.T}
		if x.Parent < 0 {
			k = key{x.Type, -1, false}
		}
		ex[k] = append(ex[k], i)
		mt.x2a[i] = -1
	}
	for j, a := range nodes {
		k := key{a.Type, a.S, a.S == a.E}
		if a.Parent < 0 {
			k = key{a.Type, -1, false}
		}
		ac[k] = append(ac[k], j)
		mt.a2x[j] = -1
	}
	for k, is := range ex {
		if js := ac[k]; len(is) == 1 && len(js) == 1 {
			mt.a2x[js[0]], mt.x2a[is[0]] = is[0], js[0]
		}
	}
	return mt
}

// placed: 1 the node hangs below the parent the annotations give it, 2 it hangs elsewhere, 0 cannot tell.
func (mt *c21Match) placed(j int) int {
	i := mt.a2x[j]
	if i < 0 {
		return 0
	}
	pj, pi := mt.nodes[j].Parent, mt.xn[i].Parent
	if pj < 0 || pi < 0 {
		if pj < 0 && pi < 0 {
			return 1
		}
		return 2
	}
	if mt.injected[mt.nodes[pj].Type] {
		return 2
	}
	if mt.a2x[pj] < 0 {
		return 0
	}
	if mt.a2x[pj] == pi {
		return 1
	}
	return 2
}

// lostEmptyChild: the annotations give node j an empty child of a type admitted by ret that the built tree attaches elsewhere.
func (mt *c21Match) lostEmptyChild(g *c21Grammar, j int, ret string) bool {
	i := mt.a2x[j]
	if i < 0 {
		return false
	}
	for c, x := range mt.xn {
		if x.Parent != i || x.S != x.T || !g.admits(ret, x.Type) {
			continue
		}
		if k := mt.x2a[c]; k < 0 || mt.nodes[k].Parent != j {
			return true
		}
	}
	return false
}

// declared splits the declared result type of an accessor.
func (g *c21Grammar) declared(ret string) (name, class string) {
	name = strings.TrimPrefix(strings.TrimPrefix(ret, "[]"), "ast.")
	switch {
	case name == g.base:
		return name, "base"
	case g.cats[name] != nil && !g.types[name]:
		return name, "category"
	case g.types[name]:
		return name, "node"
	}
	return name, "unknown"
}

func (g *c21Grammar) admits(ret, typ string) bool {
	name, class := g.declared(ret)
	switch class {
	case "base":
		return true
	case "category":
		return g.cats[name][typ]
	case "node":
		return name == typ
	}
	return false
}

func c21Run(c *fw.Ctx) {
	thorough := c.Tier == "thorough"
	n, nSent := 8, 100
	if thorough {
		n, nSent = 14, 300
	}
	r := c.R
	st := time.Now()
	gs := c21Compile(c, n, n*80)
	stage(&st, "compile")
	if len(gs) == 0 {
		return
	}
	bin := c21Build(c, gs)
	if bin == "" {
		return
	}
	stage(&st, "build")
	var jobs []genrun.Job
	var meta []c21Meta
	for _, g := range gs {
		if g.ag.FileNode {
			c.Count("grammars_fileNode", 1)
		}
		if g.ag.Comment {
			c.Count("grammars_with_injected_comments", 1)
		}
		if len(g.ag.Extra) > 0 {
			c.Count("grammars_with_extraTypes", 1)
		}
		if g.ag.TwinLists {
			c.Count("grammars_with_twin_lists", 1)
		}
		if g.ag.Chains > 0 {
			c.Count("grammars_with_two_field_chains", 1)
		}
		seen := map[string]bool{}
		for k := 0; k < nSent; k++ {
			budget := 2 + r.Intn(30)
			if k%10 == 9 {
				budget = 150
			}
			toks, xn := g.ag.SampleTree(r, budget)
			var kb strings.Builder
			for _, t := range toks {
				kb.WriteString(t.Text)
				kb.WriteByte(' ')
			}
			if seen[kb.String()] || len(toks) > 2000 {
				continue
			}
			seen[kb.String()] = true
			text, pos := g.ag.RenderPos(r, toks)
			meta = append(meta, c21Meta{g: g, text: text, ntoks: len(toks), pos: pos, xn: xn})
			jobs = append(jobs, genrun.Job{ID: len(jobs), Pkg: g.pkg.Name + "#ast", Mode: "parse", Text: text})
		}
	}
	if c.Case == 0 && len(meta) > 0 {
		c.Sample(map[string]any{"grammar": gs[0].pkg.Text, "sentence": meta[0].text})
	}
	res, err := genrun.Run(bin, c.WorkDir, jobs, 900)
	if err != nil {
		c.Violate("harness/runner/"+fw.Skeleton(err.Error()), err.Error(), nil)
		return
	}
	stage(&st, "run")
	for _, id := range append(append([]int(nil), res.Crashed...), res.CPUExceeded...) {
		m := meta[id]
		c.Violate("generated-ast/crash", fmt.Sprintf("runner died while parsing %q\n%s", m.text, res.Stderr), map[string]string{"grammar.tm": m.g.pkg.Text, "input.txt": m.text})
	}
	type gstat struct {
		calls int
		kinds map[string]bool
	}
	stats := map[*c21Grammar]*gstat{}
	for id, m := range meta {
		t := res.Traces[id]
		if t == nil {
			continue
		}
		c.Eval(1)
		g := m.g
		files := map[string]string{"grammar.tm": g.pkg.Text, "input.txt": m.text, "ast.go": g.pkg.Files["ast/ast.go"], "listener.go": g.pkg.Files["listener.go"]}
		if t.Panic != "" {
			c.Violate("ast-parse/panic/"+fw.Skeleton(firstLine(t.Panic)), fmt.Sprintf("text %q\n%s", m.text, t.Panic), files)
			continue
		}
		if !t.OK {
			sig := "ast-parse/sentence-rejected/" + fw.Skeleton(t.Err)
			for _, x := range m.xn {
				if x.S == x.T && x.S == m.ntoks && strings.Contains(t.Err, "exactly one root") {
					// an empty node after the last token lies outside the root's range
					sig = "empty-node-misplaced/second-root-at-end-of-input"
				}
			}
			c.Violate(sig, fmt.Sprintf("ast.Parse failed for a sentence of the grammar\ntext %q\nerr: %s", m.text, t.Err), files)
			continue
		}
		nodes := make([]*c21Node, 0, len(t.Log))
		bad := false
		for _, l := range t.Log {
			var nd c21Node
			if err := json.Unmarshal([]byte(l), &nd); err != nil {
				c.Violate("harness/report-line", err.Error()+"\n"+l, files)
				bad = true
				break
			}
			nodes = append(nodes, &nd)
		}
		if bad || len(nodes) == 0 {
			continue
		}
		c.Count("trees_walked", 1)
		gs := stats[g]
		if gs == nil {
			gs = &gstat{kinds: map[string]bool{}}
			stats[g] = gs
		}
		mt := c21NewMatch(&m, nodes)
		for j := range nodes {
			if !g.injected[nodes[j].Type] {
				switch mt.placed(j) {
				case 1:
					c.Count("nodes_under_the_annotated_parent", 1)
				case 2:
					c.Count("nodes_under_another_parent", 1)
					if nodes[j].S != nodes[j].E {
						c.Count("nonempty_nodes_under_another_parent", 1)
					}
				default:
					c.Count("nodes_not_matched_to_derivation", 1)
				}
			}
		}
		dump := func() string {
			var b strings.Builder
			fmt.Fprintf(&b, "text: %q\ntree:\n", m.text)
			for _, nd := range nodes {
				fmt.Fprintf(&b, "  #%d %s [%d,%d) parent=#%d children=%v\n", nd.ID, nd.Type, nd.S, nd.E, nd.Parent, nd.Children)
				for _, a := range nd.Acc {
					fmt.Fprintf(&b, "      %s() %s %s ok=%v ->", a.Name, a.Ret, a.Kind, a.OK)
					for _, rn := range a.Nodes {
						fmt.Fprintf(&b, " #%d:%s", rn.ID, rn.Type)
					}
					if a.Panic != "" {
						fmt.Fprintf(&b, " PANIC %s", firstLine(a.Panic))
					}
					b.WriteByte('\n')
				}
			}
			return b.String()
		}
		for _, nd := range nodes {
			c.Count("nodes_walked", 1)
			if nd.S == nd.E {
				c.Count("empty_nodes_walked", 1)
			}
			if nd.Parent >= 0 && !g.injected[nd.Type] {
				if g.legit[nodes[nd.Parent].Type][nd.Type] {
					c.Count("children_placed_as_annotated", 1)
				} else {
					c.Count("children_under_foreign_parent", 1)
				}
			}
			if nd.Factory != "" {
				c.Violate("factory/panic/"+fw.Skeleton(nd.Factory), fmt.Sprintf("To%s panicked for node #%d %s: %s\n%s", g.base, nd.ID, nd.Type, nd.Factory, dump()), files)
				continue
			}
			if nd.Wrapper != "*ast."+nd.Type {
				c.Violate("factory/wrapper-type-differs", fmt.Sprintf("node #%d of type %s wrapped as %s\n%s", nd.ID, nd.Type, nd.Wrapper, dump()), files)
			}
			returned := map[int]bool{}
			byRet := map[string][]int{}
			for _, a := range nd.Acc {
				c.Count("accessor_calls", 1)
				gs.calls++
				gs.kinds[a.Kind] = true
				where := fmt.Sprintf("%s.%s() %s on node #%d", nd.Type, a.Name, a.Ret, nd.ID)
				if a.Panic != "" {
					c.Violate("accessor/panic/"+a.Kind+"/"+fw.Skeleton(firstLine(a.Panic)), where+" panicked: "+a.Panic+"\n"+dump(), files)
					continue
				}
				dname, class := g.declared(a.Ret)
				if a.Kind == "other" || class == "unknown" {
					c.Violate("accessor/unrecognised-signature", where+"\n"+dump(), files)
					continue
				}
				c.Count("accessors_"+a.Kind, 1)
				c.Count("accessors_declared_"+class, 1)
				if doc := g.docs[nd.Type][a.Name]; doc != nil {
					want := "req"
					if doc.List {
						want = "list"
					} else if doc.Nullable {
						want = "opt"
					}
					if want == a.Kind {
						c.Count("signature_agrees_with_documented_cardinality", 1)
					} else {
						c.Count("signature_differs_from_documented_cardinality", 1)
					}
				} else {
					c.Count("accessor_without_doc", 1)
				}
				valid := 0
				for _, rn := range a.Nodes {
					if rn.ID == -2 {
						continue
					}
					valid++
					if rn.ID >= 0 {
						returned[rn.ID] = true
					}
					ok := true
					switch class {
					case "node":
						ok = rn.Type == dname
					case "category":
						ok = g.cats[dname][rn.Type]
					case "base":
						// several types: the documented field type set of listener.go is the declaration
						if doc := g.docs[nd.Type][a.Name]; doc != nil {
							ok = false
							for _, dt := range doc.Types {
								if dt == rn.Type || g.cats[dt][rn.Type] {
									ok = true
								}
							}
							c.Count("returned_nodes_checked_against_documented_type_set", 1)
						} else {
							c.Count("base_typed_accessor_without_doc", 1)
						}
					}
					if !ok {
						c.Violate("accessor-type/declared-"+class+"/"+a.Kind+"/returned-node-of-foreign-type", fmt.Sprintf("%s returned node #%d of type %s\n%s", where, rn.ID, rn.Type, dump()), files)
					} else {
						c.Count("returned_nodes_type_checked", 1)
					}
					if rn.ID >= 0 && nodes[rn.ID].Parent != nd.ID {
						c.Count("returned_node_is_not_a_child", 1)
					}
				}
				switch a.Kind {
				case "req":
					if valid == 0 {
						exists := "no-such-child"
						for _, ch := range nd.Children {
							if g.admits(a.Ret, nodes[ch].Type) {
								exists = "admissible-child-exists"
							}
						}
						sig := "required-accessor/invalid-node/" + exists
						if mt.lostEmptyChild(g, nd.ID, a.Ret) {
							sig = "empty-node-misplaced/required-accessor-finds-nothing"
						}
						c.Violate(sig, fmt.Sprintf("%s is declared as required (single result) but returned an invalid node\n%s", where, dump()), files)
					} else {
						c.Count("required_present", 1)
						if a.Nodes[0].ID >= 0 {
							byRet[a.Ret] = append(byRet[a.Ret], a.Nodes[0].ID)
						}
					}
				case "opt":
					if valid > 0 {
						c.Count("optional_present", 1)
					} else {
						c.Count("optional_absent", 1)
					}
					if a.OK != (valid > 0) {
						c.Count("optional_flag_inconsistent", 1)
					}
				case "list":
					switch {
					case len(a.Nodes) == 0:
						c.Count("list_empty", 1)
					case len(a.Nodes) == 1:
						c.Count("list_single", 1)
					default:
						c.Count("list_many", 1)
					}
				}
			}
			for _, ids := range byRet {
				if len(ids) >= 2 && ids[0] != ids[1] {
					c.Count("nodes_with_same_type_in_two_fields", 1)
				}
			}
			for p := nd.Parent; p >= 0; p = nodes[p].Parent {
				if nodes[p].Type == nd.Type {
					c.Count("recursive_nodes", 1)
					break
				}
			}
			for _, ch := range nd.Children {
				cn := nodes[ch]
				if g.injected[cn.Type] {
					c.Count("injected_children_skipped", 1)
					continue
				}
				c.Count("children_checked", 1)
				if returned[ch] {
					continue
				}
				why := "no-accessor-admits-type"
				for _, a := range nd.Acc {
					if g.admits(a.Ret, cn.Type) {
						why = "admitting-" + a.Kind + "-accessor-skips-node"
					}
				}
				sig := "coverage/" + why
				switch mt.placed(cn.ID) {
				case 2:
					// by the sampled derivation this node belongs to another parent: the tree builder put it here
					if cn.S == cn.E {
						sig = "empty-node-misplaced/child-under-wrong-parent"
					} else {
						sig = "tree/child-under-wrong-parent"
					}
				case 1:
					// rightly here, but an accessor that admits it returned an empty node that the builder attached here wrongly
					for _, sib := range nd.Children {
						sn := nodes[sib]
						if sn.S != sn.E || mt.placed(sib) != 2 {
							continue
						}
						for _, a := range nd.Acc {
							if g.admits(a.Ret, cn.Type) && g.admits(a.Ret, sn.Type) {
								sig = "empty-node-misplaced/accessor-returns-foreign-empty-node"
							}
						}
					}
				}
				c.Violate(sig, fmt.Sprintf("child #%d %s of node #%d %s is returned by no accessor of its parent\n%s", cn.ID, cn.Type, nd.ID, nd.Type, dump()), files)
			}
		}
	}
	var keys []*c21Grammar
	for g := range stats {
		keys = append(keys, g)
	}
	sort.Slice(keys, func(i, j int) bool { return keys[i].pkg.Name < keys[j].pkg.Name })
	for _, g := range keys {
		s := stats[g]
		if s.calls >= 50 && len(s.kinds) >= 2 {
			c.Distinct(g.pkg.Text)
		}
	}
}

func init() {
	fw.Register(&fw.Check{
		ID:          "C21",
		Rule:        "each case: random grammars with eventBased/eventFields/eventAST (node types through nonterminal-, rule- and inline arrows; 1-2 categories declared with %interface whose alternatives report distinct node types or are bare references; named fields a=X, list fields a+=X, unnamed fields; X?, (a=X)?, a=X?, X*, X+, separator lists, nested choices; the same nonterminal in several fields; recursive nodes; two lists whose elements differ only in the node name after '->'; node bodies with two separate chains of same-typed fields, the first ending in an optional field; helper nonterminals without arrows (left-recursive lists, optional helpers, groups) whose fields surface in their users; injected value tokens id/num and, in half of the grammars, injected comments; fileNode in half; extraTypes in half; every fourth candidate may contain empty nodes). Grammars the compiler rejects (conflicts, overlapping fields, category errors) are counted. The generated packages incl. ast/ and selector/ are built together with a reflective walker (sibling package) that runs the generated ast.Parse on sentences sampled from the grammar (irregular whitespace, comments between tokens), wraps every node with the generated factory and calls every exported accessor by reflection. Oracle: no accessor/factory panic; the wrapper type equals the node type; accessors with a single non-slice result (how the generated code marks required fields; optional ones return (T, bool), lists []T) return a valid node; every returned node's type equals the declared struct type or is in the declared category's table in listener.go; every child whose type is not an injected token type is returned by at least one accessor of its parent. The sampler also records the nodes (type, token span, parent) the annotations create for the derivation; built and annotated nodes are matched by type/start/emptiness so that a disagreement caused by the tree builder attaching an (empty) node to another parent than annotated gets its own signature family 'empty-node-misplaced/*' (resp. 'tree/*' for non-empty nodes) instead of the generic 'required-accessor/*', 'coverage/*' ones. Grammar non-trivial/distinct: >=50 accessor calls of >=2 kinds",
		Assumptions: []string{"sentences sampled from the written grammar are sentences of the compiled grammar (C01/C13)", "node identity through Node pointers of the generated tree"},
		Cases: func(tier string) int {
			if tier == "thorough" {
				return 36
			}
			return 5
		},
		Par:           8,
		Run:           c21Run,
		CPUBudget:     900,
		MinNontrivial: func(tier string) int { return 12 },
		RequiredCounters: []string{"accessor_calls", "required_present", "optional_present", "optional_absent", "list_empty", "list_many", "accessors_declared_category", "accessors_declared_node",
			"children_checked", "injected_children_skipped", "recursive_nodes", "nodes_with_same_type_in_two_fields", "grammars_fileNode", "grammars_with_extraTypes", "returned_nodes_type_checked", "grammars_with_twin_lists", "grammars_with_two_field_chains"},
	})
}
