package checks

import (
	"crypto/sha256"
	"fmt"
	"os"
	"path/filepath"
	"strings"

	"verif/internal/featgram"
	"verif/internal/fw"
	"verif/internal/genrun"
)

// C18 – generation is deterministic.
//
// Observation point: the sequence of Writer.Write(filename, content) calls. The
// reference for every grammar is its first in-process generation; it is compared
// (names, order, bytes) with 7 further in-process generations that are interleaved
// round robin with the generations of the other grammars of the batch (Go
// randomises every map range, so each repetition is another "schedule"; the
// interleaving exposes state shared between generations), and (by SHA-256 per
// write) with the transcripts of 4 helper processes running the same compiler under
// GOMAXPROCS 1/2/16 and GOGC=1. Case 0 regenerates the five shipped grammars and
// compares every written file byte for byte with the committed one.

var c18Shipped = []string{
	"parsers/json/json.tm",
	"parsers/simple/simple.tm",
	"parsers/test/test.tm",
	"parsers/tm/textmapper.tm",
	"parsers/js/js.tm",
}

var c18HelperEnvs = [][]string{
	{"GOMAXPROCS=1", "GOGC=1"},
	{"GOMAXPROCS=2"},
	{"GOMAXPROCS=16", "GOGC=1"},
	{"GOMAXPROCS=16", "GOGC=400"},
}

const c18Reps = 8

type c18Grammar struct {
	alone []string // transcript of the canary process that generated only this grammar
	name  string   // file base name, e.g. d0003.tm
	path  string
	text  string
	desc  string
	ref   *genrun.SeqWriter
	lines []string // expected transcript lines of one generation
}

func c18Lines(name string, w *genrun.SeqWriter) []string {
	ls := []string{name + "\tcompiled"}
	for i, n := range w.Names {
		ls = append(ls, fmt.Sprintf("%s\t%d\t%s\t%x", name, i, n, sha256.Sum256([]byte(w.Contents[i]))))
	}
	return ls
}

// c18Batch checks a batch of grammars that are known to compile and generate
// without dying. reps in-process generations each, interleaved; then helpers.
func c18Batch(c *fw.Ctx, gs []*c18Grammar, reps, helperRep int) {
	// in-process, interleaved
	for r := 0; r < reps; r++ {
		for _, g := range gs {
			if g.ref == nil && r > 0 {
				continue
			}
			c.Note(map[string]string{"grammar.tm": g.text})
			w, cerr, gerr := genrun.GenerateSeq(g.name, g.text)
			if cerr != nil || gerr != nil {
				if r == 0 {
					c.Count("grammars_skipped_not_generating", 1)
				} else {
					c.Violate("verdict-differs-between-generations", fmt.Sprintf("generation #%d of %s failed (compile: %v, generate: %v) although generation #0 succeeded\n%s", r, g.name, cerr, gerr, g.desc),
						map[string]string{"grammar.tm": g.text})
					g.ref = nil
				}
				continue
			}
			c.Eval(1)
			if r == 0 {
				g.ref = w
				g.lines = c18Lines(g.name, w)
				c.Count("files_in_reference_generations", int64(len(w.Names)))
				continue
			}
			c.Count("in_process_repetitions_compared", 1)
			if d := genrun.FirstDiff(g.ref, w); d != "" {
				c18Report(c, g, "in-process", fmt.Sprintf("generation #%d in the same process differs from generation #0", r), d, g.ref, w)
			}
		}
	}
	var live []*c18Grammar
	var paths []string
	for _, g := range gs {
		if g.ref != nil {
			live = append(live, g)
			paths = append(paths, g.path)
		}
	}
	if len(live) == 0 {
		return
	}
	// other processes
	for hi, env := range c18HelperEnvs {
		// every helper sees the grammars in another order, i.e. every grammar is
		// generated after a different history of earlier generations
		order := make([]string, 0, len(paths))
		for k := range paths {
			switch hi % 4 {
			case 0:
				order = append(order, paths[k])
			case 1:
				order = append(order, paths[len(paths)-1-k])
			default:
				order = append(order, paths[(k+hi)%len(paths)])
			}
		}
		so, se, err := genrun.RunHelper(c.WorkDir, order, helperRep, env...)
		if err != nil {
			c.Violate("helper-process-died/"+c17CrashSkeleton(se), fmt.Sprintf("helper process (%v) died: %v\n%s", env, err, tailString(se, 2000)), nil)
			continue
		}
		c.Count("helper_processes", 1)
		got := map[string][][]string{} // grammar -> generations -> lines
		for _, l := range strings.Split(strings.TrimSpace(so), "\n") {
			name, _, _ := strings.Cut(l, "\t")
			if strings.HasSuffix(l, "\tcompiled") {
				got[name] = append(got[name], nil)
			}
			if n := len(got[name]); n > 0 {
				got[name][n-1] = append(got[name][n-1], l)
			} else {
				got[name] = append(got[name], []string{l})
			}
		}
		for _, g := range live {
			gens := got[g.name]
			if len(gens) != helperRep {
				c.Violate("cross-process/generation-count", fmt.Sprintf("%s: helper (%v) reported %d generations, expected %d\n%s", g.name, env, len(gens), helperRep, so), map[string]string{"grammar.tm": g.text})
				continue
			}
			for k, lines := range gens {
				c.Count("cross_process_generations_compared", 1)
				c.Eval(1)
				if sameStrings(lines, g.lines) {
					continue
				}
				d := ""
				for i := 0; i < len(lines) || i < len(g.lines); i++ {
					var a, b string
					if i < len(g.lines) {
						a = g.lines[i]
					}
					if i < len(lines) {
						b = lines[i]
					}
					if a != b {
						d = fmt.Sprintf("first differing write:\n  in-process: %s\n  helper:     %s", a, b)
						break
					}
				}
				sig := "cross-process/" + c18DiffFile(d)
				c.Violate(sig, fmt.Sprintf("%s: generation #%d in a helper process (%s) differs from the in-process generation\n%s\n%s", g.name, k, strings.Join(env, " "), d, g.desc),
					map[string]string{"grammar.tm": g.text})
				break
			}
		}
	}
	for _, g := range live {
		if g.alone != nil {
			c.Count("fresh_process_generations_compared", 1)
			if !sameStrings(g.alone, g.lines) {
				d := ""
				for i := 0; i < len(g.alone) && i < len(g.lines); i++ {
					if g.alone[i] != g.lines[i] {
						d = fmt.Sprintf("first differing write:\n  in-process (after other grammars): %s\n  fresh process:                     %s", g.lines[i], g.alone[i])
						break
					}
				}
				c.Violate("history-dependent/"+c18DiffFile(d), fmt.Sprintf("%s: the generation in a fresh process differs from the generation in a process that generated other grammars before\n%s\n%s", g.name, d, g.desc),
					map[string]string{"grammar.tm": g.text})
			}
		}
		c.Distinct(fmt.Sprintf("%x", fnvString(strings.Join(g.lines, "\n"))))
		c.Sample(map[string]any{"grammar": g.name, "writes": g.ref.Names, "what": firstLine(g.desc)})
	}
}

// c18DiffFile extracts the generated file name from a difference description.
func c18DiffFile(d string) string {
	for _, f := range strings.Fields(strings.NewReplacer("(", " ", ")", " ", "\t", " ").Replace(d)) {
		if strings.HasSuffix(f, ".go") || strings.HasSuffix(f, ".y") {
			base := filepath.Base(f)
			if strings.HasSuffix(base, ".y") {
				return "bison-file"
			}
			return base
		}
	}
	return "write-sequence"
}

func c18Report(c *fw.Ctx, g *c18Grammar, where, what, diff string, a, b *genrun.SeqWriter) {
	files := map[string]string{"grammar.tm": g.text}
	// attach both versions of the first differing file
	for i := 0; i < len(a.Names) && i < len(b.Names); i++ {
		if a.Names[i] != b.Names[i] {
			break
		}
		if a.Contents[i] != b.Contents[i] {
			base := strings.ReplaceAll(a.Names[i], "/", "_")
			files["first_"+base+".txt"] = a.Contents[i]
			files["other_"+base+".txt"] = b.Contents[i]
			break
		}
	}
	c.Violate(where+"/"+c18DiffFile(diff), fmt.Sprintf("%s: %s\n%s\n%s", g.name, what, diff, g.desc), files)
}

func c18PerCase(tier string) int {
	if tier == "thorough" {
		return 10
	}
	return 5
}

func c18Run(c *fw.Ctx) {
	if c.Case == 0 {
		c18ShippedCase(c)
		return
	}
	if c.Case == 1 {
		c18OtherTargetsCase(c)
		return
	}
	per := c18PerCase(c.Tier)
	var gs []*c18Grammar
	for j := 0; j < per; j++ {
		t := (c.Case-2)*per + j
		base := fmt.Sprintf("d%04d", t)
		vec := c17Vector(c.Seed+5, t)
		opt := map[string]bool{}
		for i, o := range c17Options {
			opt[o] = vec[i]
		}
		// the map-backed paths live in the parser and type templates
		opt["genParser"], opt["eventBased"] = true, true
		if j%2 == 0 {
			opt["eventFields"] = true
		}
		for attempt := 0; attempt < 6; attempt++ {
			r := c.SubRand(j*16 + attempt)
			cfg := featgram.Config{Opt: opt, Size: 2, Hostile: r.Intn(2)}
			if r.Intn(4) == 0 {
				cfg.Size = 1
			}
			cfg.NoMidRule = attempt >= 2
			fg := featgram.New(r, base, cfg)
			path := filepath.Join(c.WorkDir, base+".tm")
			if err := os.WriteFile(path, []byte(fg.Text), 0o644); err != nil {
				c.Violate("harness/write-grammar", err.Error(), nil)
				return
			}
			// canary: must compile and generate without dying (crashes are C17's business)
			so, _, herr := genrun.RunHelper(c.WorkDir, []string{path}, 1)
			if herr != nil {
				c.Count("grammars_skipped_generation_dies", 1)
				continue
			}
			if strings.Contains(so, "\tcompile-error\t") || strings.Contains(so, "\tgenerate-error\t") {
				c.Count("grammars_skipped_rejected", 1)
				continue
			}
			for _, f := range fg.Features {
				c.Count("feat:"+f, 1)
			}
			gs = append(gs, &c18Grammar{alone: strings.Split(strings.TrimSpace(so), "\n"), name: base + ".tm", path: path, text: fg.Text,
				desc: "options: " + c17VecString(vec) + "\nfeatures: " + strings.Join(fg.Features, ",")})
			break
		}
	}
	c.Count("grammars", int64(len(gs)))
	c18Batch(c, gs, c18Reps, 2)
	for _, g := range gs {
		os.Remove(g.path)
	}
}

// c18OtherTargets are the C++ and TypeScript grammars of the repository (generation
// only, nothing is built). The C++ pair differs in flexMode, which switches the set
// of generated files.
var c18OtherTargets = []struct{ rel, name string }{
	{"testing/cpp/json/json.tm", "cc_json"},
	{"testing/cpp/json_flex/json.tm", "cc_json_flex"},
	{"testing/ts/json/json.tm", "ts_json"},
}

// c18OptionToggles are option lines that may be flipped or added to derive variants
// of the C++/TypeScript grammars (all valid for the target they are applied to).
var c18OptionToggles = map[string][]string{
	"cc": {"optimizeTables", "debugParser", "tokenColumn", "tokenLineOffset", "defaultReduce", "minimizeDFA", "eventBased"},
	"ts": {"optimizeTables", "debugParser", "tokenColumn", "genSelector", "fixWhitespace", "eventAST", "defaultReduce", "minimizeDFA", "writeBison", "tokenStream"},
}

// c18Variant flips/adds n boolean options in the header of a grammar.
func c18Variant(text, target string, picks []string) string {
	i := strings.Index(text, ":: lexer")
	if i < 0 {
		i = strings.Index(text, "::lexer")
	}
	if i < 0 {
		return text
	}
	head, rest := text[:i], text[i:]
	for _, o := range picks {
		switch {
		case strings.Contains(head, "\n"+o+" = true"):
			head = strings.Replace(head, "\n"+o+" = true", "\n"+o+" = false", 1)
		case strings.Contains(head, "\n"+o+" = false"):
			head = strings.Replace(head, "\n"+o+" = false", "\n"+o+" = true", 1)
		default:
			head = strings.TrimRight(head, "\n") + "\n" + o + " = true\n\n"
		}
	}
	return head + rest
}

// c18OtherTargetsCase puts C++ (flexMode on and off) and TypeScript grammars and
// option variants of them into one interleaved batch: the generated file lists of
// these targets differ from grammar to grammar, so state leaking from one generation
// into the next shows up as a changed write sequence.
func c18OtherTargetsCase(c *fw.Ctx) {
	repo := c30Repo()
	var gs []*c18Grammar
	add := func(name, text, desc string) {
		path := filepath.Join(c.WorkDir, name+".tm")
		if err := os.WriteFile(path, []byte(text), 0o644); err != nil {
			c.Violate("harness/write-grammar", err.Error(), nil)
			return
		}
		so, _, herr := genrun.RunHelper(c.WorkDir, []string{path}, 1)
		if herr != nil {
			c.Count("grammars_skipped_generation_dies", 1)
			return
		}
		if strings.Contains(so, "\tcompile-error\t") || strings.Contains(so, "\tgenerate-error\t") {
			c.Count("other_target_variants_rejected", 1)
			for _, l := range strings.Split(so, "\n") {
				if f := strings.SplitN(l, "\t", 3); len(f) == 3 && strings.HasSuffix(f[1], "-error") {
					c.Count("other_target_reject:"+fw.Skeleton(c17RejectReason(f[2])), 1)
				}
			}
			return
		}
		gs = append(gs, &c18Grammar{alone: strings.Split(strings.TrimSpace(so), "\n"), name: name + ".tm", path: path, text: text, desc: desc})
	}
	nvar := 2
	if c.Tier == "thorough" {
		nvar = 6
	}
	for _, src := range c18OtherTargets {
		b, err := os.ReadFile(filepath.Join(repo, src.rel))
		if err != nil {
			c.Violate("harness/read-shipped-grammar", err.Error(), nil)
			continue
		}
		target := src.name[:2]
		add(src.name, string(b), "repository grammar "+src.rel)
		for v := 0; v < nvar; v++ {
			toggles := c18OptionToggles[target]
			k := 1 + c.R.Intn(3)
			var picks []string
			for _, pi := range c.R.Perm(len(toggles))[:k] {
				picks = append(picks, toggles[pi])
			}
			add(fmt.Sprintf("%s_v%d", src.name, v), c18Variant(string(b), target, picks), fmt.Sprintf("repository grammar %s with options toggled: %v", src.rel, picks))
		}
	}
	// random order: which of flex / non-flex comes first decides which symptom shows
	c.R.Shuffle(len(gs), func(i, j int) { gs[i], gs[j] = gs[j], gs[i] })
	for _, g := range gs {
		switch {
		case strings.HasPrefix(g.name, "cc_json_flex"):
			c.Count("other_targets:cc_flex", 1)
		case strings.HasPrefix(g.name, "cc_"):
			c.Count("other_targets:cc", 1)
		default:
			c.Count("other_targets:ts", 1)
		}
	}
	c18Batch(c, gs, c18Reps, 2)
	for _, g := range gs {
		os.Remove(g.path)
	}
}

func c18ShippedCase(c *fw.Ctx) {
	repo := c30Repo()
	var gs []*c18Grammar
	for _, rel := range c18Shipped {
		path := filepath.Join(repo, rel)
		b, err := os.ReadFile(path)
		if err != nil {
			c.Violate("harness/read-shipped-grammar", err.Error(), nil)
			continue
		}
		// the helper reads the grammar from a copy named like the original (the file
		// name is all the compiler sees of the path)
		dir := filepath.Join(c.WorkDir, "shipped", filepath.Base(filepath.Dir(rel)))
		os.MkdirAll(dir, 0o755)
		cp := filepath.Join(dir, filepath.Base(rel))
		if err := os.WriteFile(cp, b, 0o644); err != nil {
			c.Violate("harness/write-grammar", err.Error(), nil)
			continue
		}
		gs = append(gs, &c18Grammar{name: filepath.Base(rel), path: cp, text: string(b), desc: "shipped grammar " + rel})
	}
	c18Batch(c, gs, 3, 1)
	for i, g := range gs {
		if g.ref == nil {
			c.Violate("shipped/does-not-generate", g.desc, nil)
			continue
		}
		c.Count("shipped_grammars_regenerated", 1)
		dir := filepath.Dir(filepath.Join(repo, c18Shipped[i]))
		for k, n := range g.ref.Names {
			disk, err := os.ReadFile(filepath.Join(dir, n))
			if err != nil {
				c.Violate("shipped/committed-file-missing", fmt.Sprintf("%s: generation writes %s which is not committed: %v", g.name, n, err), nil)
				continue
			}
			c.Count("shipped_files_compared", 1)
			c.Eval(1)
			if string(disk) == g.ref.Contents[k] {
				continue
			}
			la, lb := strings.Split(string(disk), "\n"), strings.Split(g.ref.Contents[k], "\n")
			d := fmt.Sprintf("%d vs %d lines", len(la), len(lb))
			for x := 0; x < len(la) && x < len(lb); x++ {
				if la[x] != lb[x] {
					d = fmt.Sprintf("line %d:\n  committed: %s\n  generated: %s", x+1, la[x], lb[x])
					break
				}
			}
			c.Violate("shipped/differs-from-committed/"+filepath.Base(n), fmt.Sprintf("%s: regenerated %s differs from the committed file\n%s", g.desc, n, d),
				map[string]string{"generated_" + strings.ReplaceAll(n, "/", "_") + ".txt": g.ref.Contents[k]})
		}
	}
	os.RemoveAll(filepath.Join(c.WorkDir, "shipped"))
}

func init() {
	fw.Register(&fw.Check{
		ID:   "C18",
		Rule: "case 0: the five shipped grammars (3 in-process generations, 4 helper processes, byte comparison with the committed files); case 1: the C++ (flexMode on and off) and TypeScript grammars of testing/ plus option-toggled variants of them, generation only, in one interleaved batch in random order; other cases: batches of large featgram grammars chosen for map-backed paths (60-120 keywords under (class) rules, up to 12 named sets, template flags and predicates, several lookahead nonterminals, lalr(2), typed AST with up to 6 categories, C17's option vectors with parser and listener on). Every grammar: 8 in-process generations interleaved round robin with the other grammars of the batch, and 2 generations in each of 4 helper processes (GOMAXPROCS 1/2/16, GOGC 1/400), all compared with the first generation as full Writer.Write sequences. Non-trivial/distinct = distinct reference transcript (grammars that the compiler rejects or that crash generation are skipped and counted)",
		Assumptions: []string{
			"SHA-256 equality of a written file in another process stands for byte equality",
			"the helper process is the vcheck binary itself (same /repo tree, same build flags); the -race run of DESIGN C18 is not performed",
		},
		Cases: func(tier string) int {
			if tier == "thorough" {
				return 42
			}
			return 10
		},
		MinNontrivial: func(tier string) int {
			if tier == "thorough" {
				return 250
			}
			return 25
		},
		RequiredCounters: []string{"shipped_files_compared", "other_targets:cc", "other_targets:cc_flex", "other_targets:ts", "in_process_repetitions_compared", "cross_process_generations_compared",
			"feat:named-set", "feat:lookahead", "feat:template-flag", "feat:interface-categories", "feat:lexer-class-rule", "feat:lalr2"},
		CPUBudget: 1500,
		Run:       c18Run,
	})
}
