package checks

import (
	"fmt"
	"sort"
	"strings"

	"github.com/inspirer/textmapper/syntax"
	"verif/internal/fw"
	"verif/internal/xgram"
)

// C13 – desugaring of the extended notation preserves the language.
//
// Shared with C14: xgCompare runs one abstract grammar through
// compiler.Compile and compares, nonterminal by nonterminal, the words of
// bounded length derived by the observed plain rules with the words derived
// by the reference plain grammar (independent instantiation + desugaring).

var xgKindNames = map[xgram.Kind]string{
	xgram.KTerm: "term", xgram.KRef: "ref", xgram.KOptRef: "optref", xgram.KSeq: "group", xgram.KOpt: "opt",
	xgram.KChoice: "choice", xgram.KStar: "star", xgram.KPlus: "plus", xgram.KList: "seplist", xgram.KSet: "set",
	xgram.KLook: "lookahead", xgram.KMarker: "marker", xgram.KCmd: "command",
}

// xgFeatures lists the extended-notation features used in the alternatives.
func xgFeatures(g *xgram.Grammar, nts ...*xgram.Nonterm) []string {
	seen := map[string]bool{}
	for _, nt := range nts {
		if nt.ExtendAt > 0 {
			seen["extend"] = true
		}
		for _, a := range nt.Alts {
			if a.Pred != nil {
				seen["predicate"] = true
			}
			for _, p := range a.Parts {
				p.Walk(func(e *xgram.Expr) {
					switch e.Kind {
					case xgram.KTerm, xgram.KRef:
						if len(e.Args) > 0 {
							seen["args"] = true
						}
					default:
						seen[xgKindNames[e.Kind]] = true
					}
					if e.Kind == xgram.KChoice {
						for _, na := range e.Alts {
							if na.Pred != nil {
								seen["nested-predicate"] = true
							}
						}
					}
					if (e.Kind == xgram.KStar || e.Kind == xgram.KPlus || e.Kind == xgram.KList) && e.RR {
						seen["rr"] = true
					}
				})
			}
		}
	}
	var out []string
	for k := range seen {
		out = append(out, k)
	}
	sort.Strings(out)
	return out
}

// xgDepth is the nesting depth of extended notation in the grammar.
func xgDepth(g *xgram.Grammar) int {
	var d func(e *xgram.Expr) int
	d = func(e *xgram.Expr) int {
		m := 0
		for _, s := range e.Sub {
			if x := d(s); x > m {
				m = x
			}
		}
		for _, a := range e.Alts {
			for _, p := range a.Parts {
				if x := d(p); x > m {
					m = x
				}
			}
		}
		switch e.Kind {
		case xgram.KOpt, xgram.KChoice, xgram.KStar, xgram.KPlus, xgram.KList, xgram.KSeq:
			return m + 1
		}
		return m
	}
	best := 0
	for _, nt := range g.Nonterms {
		for _, a := range nt.Alts {
			for _, p := range a.Parts {
				if x := d(p); x > best {
					best = x
				}
			}
		}
	}
	return best
}

// xgBound picks the word length bound from the number of terminals that occur.
func xgBound(c *xgram.CFG) int {
	used := map[int]bool{}
	for _, r := range c.Rules {
		for _, s := range r.RHS {
			if s < c.NT {
				used[s] = true
			}
		}
	}
	switch n := len(used); {
	case n <= 2:
		return 8
	case n == 3:
		return 7
	case n == 4:
		return 6
	default:
		return 5
	}
}

func xgWords(ws []xgram.Word, names []string) string {
	var parts []string
	for _, w := range ws {
		parts = append(parts, "["+w.Format(names)+"]")
	}
	return strings.Join(parts, " ")
}

// xgOutcome is the verdict on one grammar.
type xgOutcome struct {
	kind     string // "", "skipped", "unexpected-error", "rule-not-plain", "language-mismatch", "input-missing", "harness"
	class    string // sub-class: message skeleton, expression kind, direction of the mismatch
	detail   string
	files    map[string]string
	compared int
	words    int64 // total words compared
	inputLen int   // number of words of the first input
	conflict bool  // LALR-stage diagnostics were present
	counters map[string]int64
}

func (o *xgOutcome) count(k string, n int64) {
	if o.counters == nil {
		o.counters = map[string]int64{}
	}
	o.counters[k] += n
}

// xgCompareLangs compares the languages of all nonterminals that exist on both sides.
func xgCompareLangs(o *xgOutcome, g *xgram.Grammar, p *xgram.Plain, obsCFG *xgram.CFG, obsByName map[string]int, termNames []string, setVals []uint32, onDemand bool) {
	if onDemand {
		names := make([]string, 0, len(obsByName))
		for n := range obsByName {
			names = append(names, n)
		}
		sort.Strings(names)
		for _, n := range names {
			if t, v, ok := g.ParseInstanceName(n); ok {
				p.Instance(t, v)
			}
		}
		p.Close()
	}
	sv := map[int]uint32{}
	for i, v := range setVals {
		sv[p.RuleSet[i]] = v
	}
	ocfg := p.CFG(sv)
	bound := xgBound(ocfg)
	if b2 := xgBound(obsCFG); b2 < bound {
		bound = b2
	}
	want := ocfg.Enumerate(bound)
	got := obsCFG.Enumerate(bound)

	names := make([]string, 0, len(p.ByName))
	for n := range p.ByName {
		names = append(names, n)
	}
	sort.Strings(names)
	type mm struct {
		name           string
		missing, extra []xgram.Word
	}
	var bad []mm
	for _, n := range names {
		oi, ok := obsByName[n]
		if !ok {
			continue
		}
		w, ob := want[p.ByName[n]], got[oi]
		o.compared++
		o.words += int64(w.Size())
		if !w.Equal(ob) {
			bad = append(bad, mm{n, w.Diff(ob, 6), ob.Diff(w, 6)})
		}
	}
	o.inputLen = want[p.Inputs[0].Nonterm].Size()
	if len(bad) == 0 {
		return
	}
	missing, extra := false, false
	var lines []string
	for _, b := range bad {
		missing = missing || len(b.missing) > 0
		extra = extra || len(b.extra) > 0
		lines = append(lines, fmt.Sprintf("nonterminal %s: words the notation denotes but the generated rules do not derive: %s; words derived by the generated rules only: %s",
			b.name, xgWords(b.missing, termNames), xgWords(b.extra, termNames)))
	}
	o.kind = "language-mismatch"
	switch {
	case missing && extra:
		o.class = "both"
	case missing:
		o.class = "missing-words"
	default:
		o.class = "extra-words"
	}
	o.detail = fmt.Sprintf("length bound %d\n%s", bound, strings.Join(lines, "\n"))
	o.files["observed_rules.txt"] = obsCFG.Format(termNames)
	o.files["reference_rules.txt"] = ocfg.Format(termNames)
}

// xgEvaluate runs one grammar through compiler.Compile (or, with model = true,
// through syntax.Expand on a hand-built model) and compares the languages.
func xgEvaluate(c *fw.Ctx, g *xgram.Grammar, onDemand, model bool) (o xgOutcome) {
	pr := g.Print()
	p := xgram.Build(g)
	o.files = map[string]string{"grammar.tm": pr.Text}
	if model {
		o.files["grammar.tm"] = "# fed to syntax.Expand as a syntax.Model; lists marked RR are right-recursive\n" + c13DescribeRR(g) + pr.Text
		m := xgram.ToModel(g)
		c.Note(o.files)
		err := syntax.Expand(m, syntax.DefaultExpandOptions())
		if err != nil {
			o.kind, o.class, o.detail = "unexpected-error", fw.Skeleton(err.Error()), err.Error()
			return o
		}
		cfg, byName, np := xgram.ModelCFG(m)
		if len(np) > 0 {
			o.kind, o.class = "rule-not-plain", np[0][strings.LastIndex(np[0], " ")+1:]
			o.detail = "after Expand a rule still contains extended notation: " + np[0]
			return o
		}
		xgCompareLangs(&o, g, p, cfg, byName, g.TermNames(), nil, false)
		return o
	}
	if p.Illegal != "" {
		o.kind = "skipped"
		o.count("outside_legal_shapes", 1)
		if strings.HasPrefix(p.Illegal, "input-parametrized") {
			return o // compiling it would be fatal; belongs to the crash property
		}
		// Compile anyway (errors are expected), nothing is demanded.
		c.Note(o.files)
		if obs := xgram.Compile("grammar.tm", pr.Text); !obs.HasRules {
			o.count("outside_legal_shapes_rejected", 1)
		}
		return o
	}
	var setVals []uint32
	if len(g.RuleSets) > 0 {
		sets := p.SolveSets()
		if sets.ComplementCycle {
			// the compiler has to reject it; judged by the token set property
			o.kind = "skipped"
			o.count("complement_cycle_grammars", 1)
			return o
		}
		setVals = sets.RuleSets
	}
	c.Note(o.files)
	obs := xgram.Compile("grammar.tm", pr.Text)
	if !obs.HasRules {
		msg := "no rules and no error"
		if len(obs.Early) > 0 {
			msg = obs.Early[0]
		} else if len(obs.Errors) > 0 {
			msg = obs.Errors[0]
		}
		o.kind, o.class = "unexpected-error", fw.Skeleton(msg)
		o.detail = fmt.Sprintf("the reference considers the grammar legal, the compiler says: %v", obs.Errors)
		return o
	}
	o.conflict = len(obs.Errors) > 0
	if strings.Join(obs.Terms, ",") != strings.Join(g.TermNames(), ",") {
		o.kind, o.class, o.detail = "harness", "terminal-universe", fmt.Sprintf("terminals %v, expected %v", obs.Terms, g.TermNames())
		return o
	}
	if len(obs.NotPlain) > 0 {
		np := obs.NotPlain[0]
		o.kind, o.class = "rule-not-plain", np[strings.LastIndex(np, " ")+1:]
		o.detail = "a generated rule still contains extended notation: " + np
		return o
	}
	for _, in := range g.Inputs {
		if _, ok := obs.ByName[g.Nonterms[in.Nonterm].Name]; !ok {
			o.kind, o.class, o.detail = "input-missing", "", "input nonterminal "+g.Nonterms[in.Nonterm].Name+" has no rules"
			return o
		}
	}
	xgCompareLangs(&o, g, p, obs.CFG, obs.ByName, obs.Terms, setVals, onDemand)
	o.count("all_alternatives_disabled", int64(p.AllDisabled))
	return o
}

// xgShrinksLeft bounds the minimisation work per case.
var xgShrinksLeft = map[*fw.Ctx]int{}

// xgJudge evaluates g, and on a disagreement minimises the grammar (keeping
// the same kind of disagreement) so that the signature is computed from a
// minimal reproducer: kind / class / extended forms left in the minimal grammar.
func xgJudge(c *fw.Ctx, g *xgram.Grammar, onDemand, model bool, sigPrefix string) (ok bool, inputWords int) {
	o := xgEvaluate(c, g, onDemand, model)
	c.Eval(1)
	for k, v := range o.counters {
		c.Count(k, v)
	}
	if o.kind == "skipped" {
		return false, 0
	}
	c.Count("nonterminals_compared", int64(o.compared))
	c.Count("words_compared", o.words)
	if !model && o.kind == "" {
		if o.conflict {
			c.Count("grammars_with_lalr_conflicts", 1)
		} else {
			c.Count("grammars_conflict_free", 1)
		}
	}
	if o.kind == "" {
		return true, o.inputLen
	}
	if o.kind == "harness" {
		c.Violate("harness/"+o.class, o.detail, o.files)
		return false, 0
	}
	files := o.files
	original := files["grammar.tm"]
	sig := sigPrefix + o.kind + "/" + o.class
	if _, seen := xgShrinksLeft[c]; !seen {
		xgShrinksLeft[c] = 3
	}
	if xgShrinksLeft[c] > 0 {
		xgShrinksLeft[c]--
		kind := o.kind
		evals := xgram.Shrink(g, func(h *xgram.Grammar) (failing bool) {
			defer func() {
				if recover() != nil {
					failing = false
				}
			}()
			o2 := xgEvaluate(c, h, onDemand, model)
			return o2.kind == kind
		}, 250)
		m := xgEvaluate(c, g, onDemand, model)
		if m.kind == o.kind {
			feats := strings.Join(xgFeatures(g, g.Nonterms...), "+")
			sig = sigPrefix + m.kind + "/" + m.class + "/minimal:" + feats
			files = m.files
			files["minimal.tm"] = files["grammar.tm"]
			files["grammar.tm"] = original
			o.detail = fmt.Sprintf("minimised in %d steps to:\n%s\n%s\n\non the original grammar: %s", evals, m.files["minimal.tm"], m.detail, o.detail)
		}
	} else {
		sig += "/not-minimised"
	}
	c.Violate(sig, o.detail, files)
	return false, 0
}

func c13Config(tier string, variant int) *xgram.GenConfig {
	cfg := &xgram.GenConfig{
		MaxDepth: 3, MinTerms: 2, MaxTerms: 4, MinNonterms: 1, MaxNonterms: 6, MaxAlts: 3, MaxParts: 4,
		WOpt: 12, WChoice: 10, WStar: 8, WPlus: 8, WList: 10, WSeq: 1,
		WSet: 5, WLook: 3, WMarker: 3, WCmd: 3, WOptRef: 4,
		Arrows: true, Assigns: true, Extend: true, SimpleSets: true, CollidingSets: true, Targets: true, MaxExpand: 64, AllowNoEoi: true,
	}
	if tier == "thorough" {
		cfg.MaxDepth = 5
	}
	switch variant {
	case 1: // dense nesting, few nonterminals
		cfg.MaxNonterms = 3
		cfg.WOpt, cfg.WChoice, cfg.WStar, cfg.WPlus, cfg.WList = 20, 18, 14, 14, 16
	case 2: // list heavy: reuse of list nonterminals across rules
		cfg.MaxTerms = 3
		cfg.WStar, cfg.WPlus, cfg.WList = 20, 20, 24
		cfg.WOpt, cfg.WChoice = 6, 6
	}
	return cfg
}

func c13ModelConfig(tier string) *xgram.GenConfig {
	cfg := &xgram.GenConfig{
		MaxDepth: 3, MinTerms: 2, MaxTerms: 4, MinNonterms: 1, MaxNonterms: 5, MaxAlts: 3, MaxParts: 4,
		WOpt: 10, WChoice: 10, WStar: 12, WPlus: 12, WList: 16, WSeq: 1, WLook: 2, WMarker: 2,
		ModelOnly: true, RRLists: true, MaxExpand: 64,
	}
	if tier == "thorough" {
		cfg.MaxDepth = 5
	}
	return cfg
}

func c13DescribeRR(g *xgram.Grammar) string {
	var b strings.Builder
	g.WalkAll(func(nt *xgram.Nonterm, e *xgram.Expr) {
		if (e.Kind == xgram.KStar || e.Kind == xgram.KPlus || e.Kind == xgram.KList) && e.RR {
			fmt.Fprintf(&b, "# RR list in %s (kind %s)\n", nt.Name, xgKindNames[e.Kind])
		}
	})
	return b.String()
}

func init() {
	const batch = 25
	fw.Register(&fw.Check{
		ID: "C13",
		Rule: "each case is a batch of 25 random template-free grammars over 2-4 terminals and 1-6 nonterminals (three generator profiles: mixed, densely nested, list heavy) using optionals, nested choices, */+ lists, lists with 1-2 separator terminals, parenthesised groups, opt-suffix references, set(...) over terminals (with | & ~; every third compile-path grammar also gets 2-3 in-rule sets that are different bracketings of one operand/operator sequence, i.e. differ in value but not in a spelling without parentheses), lookahead markers, state markers or commands, arrows, assignments, extend clauses, several inputs incl. no-eoi; about half of the compile-path grammars use the cc or ts target header with {type} annotations on some terminals and nonterminals (typed symbols make the compiler add list/optional value actions); " +
			"20 of 25 are printed as .tm text and run through compiler.Compile, 5 of 25 are built as syntax.Model (the only way to mark lists right-recursive) and run through syntax.Expand; for every nonterminal the set of terminal strings up to length 5-8 (by alphabet size) derived from the observed plain rules must equal the set derived from an independent naive desugaring; " +
			"a grammar is non-trivial when it uses at least two different extended forms and its first input derives at least 3 words within the bound; distinctness by grammar text",
		Assumptions: []string{
			"the reference desugaring (private helper nonterminal per compound sub-expression, right-recursive lists) and the shared bounded enumerator are correct",
			"languages are compared up to a length bound only",
			"lookahead markers, state markers and commands denote the empty string; a set denotes the choice of its terminals (sets in this check mention terminals only and are never empty)",
		},
		Cases: func(tier string) int {
			if tier == "thorough" {
				return 400
			}
			return 32
		},
		Run: func(c *fw.Ctx) {
			for i := 0; i < batch; i++ {
				r := c.SubRand(i)
				modelPath := i%5 == 4
				var g *xgram.Grammar
				if modelPath {
					g = xgram.Generate(r, c13ModelConfig(c.Tier))
				} else {
					g = xgram.Generate(r, c13Config(c.Tier, (c.Case+i)%3))
				}
				if !modelPath {
					t := g.Target
					if t == "" {
						t = "go"
					}
					c.Count("target_"+t, 1)
				}
				if g.Colliding > 0 {
					c.Count("grammars_with_same_spelling_sets", 1)
				}
				feats := xgFeatures(g, g.Nonterms...)
				ext := 0
				for _, f := range feats {
					c.Count("feature_"+f, 1)
					switch f {
					case "opt", "choice", "star", "plus", "seplist", "set", "lookahead", "optref", "group":
						ext++
					}
				}
				c.Count(fmt.Sprintf("nesting_depth_%d", xgDepth(g)), 1)
				var ok bool
				words := 0
				if modelPath {
					c.Count("model_path_grammars", 1)
					ok, words = xgJudge(c, g, false, true, "model/")
				} else {
					c.Count("compile_path_grammars", 1)
					ok, words = xgJudge(c, g, false, false, "")
				}
				if i == 0 {
					c.Sample(g.Print().Text)
				}
				if ok && ext >= 2 && words >= 3 {
					c.Distinct(g.Print().Text)
				}
			}
		},
		MinNontrivial:    func(tier string) int { return map[string]int{"thorough": 3500}[tier] + 250 },
		RequiredCounters: []string{"compile_path_grammars", "model_path_grammars", "feature_rr", "feature_seplist", "feature_set", "feature_lookahead", "feature_optref", "feature_choice", "feature_opt", "grammars_with_lalr_conflicts", "grammars_conflict_free", "words_compared", "grammars_with_same_spelling_sets", "target_go", "target_cc", "target_ts"},
	})
}
