package checks

import (
	"fmt"
	"math/rand"

	"github.com/inspirer/textmapper/lalr"
	"verif/internal/fw"
	"verif/internal/reflalr"
)

// C06 – parser state minimisation preserves behaviour from every entry point.
//
// The hook hands out the tables before ("conflicts") and after ("minimized")
// minimize() of the SAME compile; they are related by a bisimulation grown from
// every entry (i, FinalStates[i]) and additionally run side by side as parsers.

func c06One(c *fw.Ctx, g *lalr.Grammar, r *rand.Rand, kind string, nInputs int) {
	files := reflalr.Files(g)
	opts := lalr.Options{MinimizeDFA: true, Optimize: r.Intn(3) == 0}
	var cp *reflalr.Compiled
	if !c.Guard("compile", files, func() { cp = reflalr.CompileHooked(g, opts) }) {
		return
	}
	c.Eval(1)
	t0, t1 := cp.Stages["conflicts"], cp.Stages["minimized"]
	if t0 == nil || t1 == nil {
		c.Violate("hook/stage-not-reached", fmt.Sprintf("conflicts=%v minimized=%v", t0 != nil, t1 != nil), files)
		return
	}
	c.Count("hook_pairs", 1)
	c.Count("compiles_"+kind, 1)
	c.Count("states_before", int64(len(t0.Action)))
	c.Count("states_after", int64(len(t1.Action)))
	merged := len(t0.Action) - len(t1.Action)
	if merged > 0 {
		c.Count("compiles_where_states_were_merged", 1)
		c.Count("states_merged_away", int64(merged))
	}
	if t1.NumStates != len(t1.Action) {
		c.Violate("tables/numstates-mismatch", fmt.Sprintf("NumStates=%d len(Action)=%d", t1.NumStates, len(t1.Action)), files)
	}
	var st reflalr.BisimStats
	fs := reflalr.Bisimulate(g, t0, t1, &st)
	for _, f := range fs {
		c.Violate(f.Sig, fmt.Sprintf("%s\nFinalStates before %v after %v, states %d -> %d\n\n%s", f.Detail, t0.FinalStates, t1.FinalStates, len(t0.Action), len(t1.Action), reflalr.Format(g)), files)
	}
	c.Count("entries_checked", int64(st.Entries))
	c.Count("related_pairs", int64(st.Pairs))
	c.Count("cells_compared", int64(st.Cells))
	c.Count("shift_successors_related", int64(st.ShiftEdges))
	c.Count("reductions_checked", int64(st.ReduceChecks))
	c.Count("lookback_pairs_checked", int64(st.LookbackPairs))
	c.Count("runtime_lookahead_reductions_checked", int64(st.LookaheadRed))
	c.Count("accepting_pairs", int64(st.Accepting))
	c.Count("markers_compared", int64(st.MarkersMapped))
	noEoi, multi := 0, 0
	for _, in := range g.Inputs {
		if !in.Eoi {
			noEoi++
		}
	}
	if len(g.Inputs) > 1 {
		multi = 1
	}
	c.Count("compiles_with_several_inputs", int64(multi))
	if noEoi > 0 {
		c.Count("compiles_with_no_eoi_inputs", 1)
	}
	if len(g.Lookaheads) > 0 {
		c.Count("compiles_with_lookahead_nonterminals", 1)
	}
	// the final result must be the minimised tables
	if len(cp.T.Action) != len(t1.Action) {
		c.Violate("tables/changed-after-minimized-stage", fmt.Sprintf("%d states at the hook, %d returned", len(t1.Action), len(cp.T.Action)), files)
	}

	// side-by-side parsing from every entry
	sm := reflalr.NewSampler(g)
	rec := r.Intn(2) == 0
	p0 := &reflalr.Parser{T: t0, Terms: g.Terminals, NRules: len(g.Rules), KeepSteps: true, Recursive: rec}
	p1 := &reflalr.Parser{T: t1, Terms: g.Terminals, NRules: len(g.Rules), KeepSteps: true, Recursive: rec}
	rk := func(rule int) string {
		if rule < len(g.Rules) {
			ru := g.Rules[rule]
			return fmt.Sprintf("%d/%d/%d/%d", ru.LHS, t0.RuleLen[rule], ru.Action, ru.Type)
		}
		return fmt.Sprintf("L%v", t0.Lookaheads[rule-len(g.Rules)])
	}
	for i := 0; i < nInputs; i++ {
		inp := i % len(g.Inputs)
		nt := int(g.Inputs[inp].Nonterminal)
		var toks []int
		if sm.Productive(nt) && r.Intn(8) != 0 {
			toks, _ = sm.Sentence(r, nt, 3+r.Intn(6), 40)
			switch r.Intn(4) {
			case 0:
				toks = reflalr.Mutate(r, toks, g.Terminals)
			case 1:
				// no-eoi inputs stop early: append junk
				toks = append(toks, reflalr.RandomTokens(r, g.Terminals, 1+r.Intn(3))...)
			}
		} else {
			toks = reflalr.RandomTokens(r, g.Terminals, r.Intn(8))
		}
		o0, o1 := p0.Parse(inp, toks), p1.Parse(inp, toks)
		c.Count("traces_compared", 1)
		if o0.Accept {
			c.Count("traces_accepted", 1)
			if o0.Consumed < len(toks) {
				c.Count("traces_accepted_before_end_of_input", 1)
			}
		} else {
			c.Count("traces_rejected", 1)
		}
		k0, k1 := o0.Key(rk), o1.Key(rk)
		if k0 != k1 {
			c.Violate(fmt.Sprintf("trace/outcome-differs/unminimised-accepts=%v/minimised-accepts=%v", o0.Accept, o1.Accept),
				fmt.Sprintf("input %d: %s\nunminimised: %s\nminimised:   %s\nFinalStates before %v after %v\n\n%s", inp, reflalr.TokString(g, toks), k0, k1, t0.FinalStates, t1.FinalStates, reflalr.Format(g)), files)
			if len(fs) == 0 {
				c.Violate("oracle/bisimulation-passed-but-traces-differ", "the bisimulation found nothing for this grammar", files)
			}
			break
		}
	}
	c.Count("predicate_evaluations", int64(p0.PredEvals))
	if merged > 0 && len(t0.Action) >= 6 {
		c.Distinct(reflalr.ToJSON(g))
	}
}

func c06Small(r *rand.Rand) *lalr.Grammar {
	cfg := reflalr.SmallConfig()
	cfg.Prec = r.Intn(3) == 0
	cfg.Lookaheads = r.Intn(3) == 0
	cfg.Markers = r.Intn(2) == 0
	cfg.Classes = r.Intn(3) == 0 // few classes => many mergeable states
	cfg.MaxT, cfg.MaxN = 6, 7
	cfg.MaxInputs = 4
	if r.Intn(30) == 0 {
		cfg.DupInput = 1
	}
	if r.Intn(3) == 0 {
		cfg.MaxRules, cfg.MaxRHS = 6, 5
	}
	g, _ := reflalr.RandomGrammar(r, cfg)
	return g
}

func init() {
	fw.Register(&fw.Check{
		ID: "C06",
		Rule: "each case: a batch of grammars - random small lalr.Grammar values (1-4 inputs with eoi and no-eoi, the same nonterminal as two inputs, left-recursive input nonterminals, lookahead nonterminals with predicates (synthetic no-eoi inputs) in a third, markers in half, few rule classes so that many states are mergeable, precedence in a third), operator grammars and large statement/expression skeletons - compiled with MinimizeDFA; the hook supplies the tables before and after minimize() of the same compile. " +
			"They are related by a bisimulation grown from (i, i) for every input i with final states (FinalStates[i] before, after): same kind of action for every terminal, equivalent rules (LHS, length, action, node type; same decision list for runtime-lookahead rules), related shift targets, related gotos from every state pair that a reduction can uncover, exactly matching finality; marker state sets must be the image of the old ones. Both tables are also run side by side as parsers (generated-parser decoding, runtime lookahead predicates evaluated by sub-parses) on sentences, mutated sentences, sentences with trailing junk and random strings from EVERY entry. " +
			"A compile is non-trivial when minimisation merged at least one state and the automaton had >= 6 states; distinctness by grammar text",
		Assumptions: []string{
			"interpreters mirror the generated parser (see C05)",
			"rule equivalence is exactly (LHS, length, action, type) as in the statement; flags are not required to match",
			"marker remapping is checked although the statement does not mention markers (generated code indexes marker state lists)",
		},
		Cases: func(tier string) int {
			if tier == "thorough" {
				return 600
			}
			return 64
		},
		CPUBudget: 900,
		Run: func(c *fw.Ctx) {
			lalrTune()
			nSmall, nExpr, nLarge := 100, 8, 2
			if c.Tier == "thorough" {
				nSmall, nExpr, nLarge = 160, 12, 3
			}
			for i := 0; i < nSmall; i++ {
				r := c.SubRand(i)
				g := c06Small(r)
				if i == 0 {
					c.Sample(reflalr.Format(g))
				}
				c06One(c, g, r, "small", 16)
			}
			for i := 0; i < nExpr; i++ {
				r := c.SubRand(1000 + i)
				c06One(c, reflalr.RandomExprGrammar(r).G, r, "operator", 16)
			}
			for i := 0; i < nLarge; i++ {
				r := c.SubRand(2000 + i)
				c06One(c, reflalr.LargeGrammar(r), r, "large", 24)
			}
		},
		MinNontrivial: func(tier string) int {
			if tier == "thorough" {
				return 40000
			}
			return 3000
		},
		RequiredCounters: []string{"hook_pairs", "compiles_where_states_were_merged", "compiles_large", "compiles_with_several_inputs", "compiles_with_no_eoi_inputs", "compiles_with_lookahead_nonterminals",
			"runtime_lookahead_reductions_checked", "lookback_pairs_checked", "accepting_pairs", "markers_compared", "traces_accepted", "traces_rejected", "traces_accepted_before_end_of_input", "predicate_evaluations"},
	})
}
