package checks

import (
	"fmt"
	"sort"
	"strings"

	"verif/internal/fw"
	"verif/internal/xgram"
)

// C14 – template instantiation preserves meaning.
//
// The reference semantics instantiates (template, valuation) pairs directly:
// explicit arguments, same-named parameters of the context, defaults,
// predicates evaluated on the valuation, lookahead flags inherited along entry
// positions. Every nonterminal the compiler produced whose name reads as
// Template_Param... is compared with the reference language of that
// valuation; inputs are compared at the empty valuation.

func c14Config(tier string, variant int) *xgram.GenConfig {
	cfg := &xgram.GenConfig{
		MaxDepth: 2, MinTerms: 2, MaxTerms: 4, MinNonterms: 3, MaxNonterms: 7, MaxAlts: 3, MaxParts: 4,
		WOpt: 8, WChoice: 12, WStar: 4, WPlus: 5, WList: 5, WSeq: 1,
		WSet: 0, WLook: 3, WMarker: 2, WCmd: 0, WOptRef: 4,
		Templates: true, MaxExpand: 48,
	}
	if tier == "thorough" {
		cfg.MaxDepth = 3
	}
	switch variant {
	case 0: // lookahead flags
		cfg.LAFlags = true
		cfg.WOptRef = 0
	case 1: // plain templates with sets naming instantiated nonterminals
		cfg.FullSets = true
		cfg.WSet = 4
	case 2: // lookahead flags, reference heavy
		cfg.LAFlags = true
		cfg.WOptRef = 0
		cfg.WOpt, cfg.WStar, cfg.WList = 4, 2, 2
		cfg.MinNonterms = 4
	}
	return cfg
}

func c14Stats(c *fw.Ctx, g *xgram.Grammar) (predOps map[string]bool) {
	predOps = map[string]bool{}
	var walkPred func(p *xgram.Pred)
	walkPred = func(p *xgram.Pred) {
		if p == nil {
			return
		}
		name := map[xgram.PredOp]string{xgram.PParam: "param", xgram.PNot: "not", xgram.PEq: "eq", xgram.PNe: "ne", xgram.PAnd: "and", xgram.POr: "or"}[p.Op]
		predOps[name] = true
		if p.Op != xgram.PAnd && p.Op != xgram.POr && g.Params[p.Param].LA {
			predOps["on_lookahead_flag"] = true
		}
		for _, s := range p.Sub {
			walkPred(s)
		}
	}
	for _, nt := range g.Nonterms {
		for _, a := range nt.Alts {
			walkPred(a.Pred)
			for _, part := range a.Parts {
				part.Walk(func(e *xgram.Expr) {
					for _, na := range e.Alts {
						if na.Pred != nil {
							predOps["nested"] = true
						}
						walkPred(na.Pred)
					}
				})
			}
		}
	}
	keys := make([]string, 0, len(predOps))
	for k := range predOps {
		keys = append(keys, k)
	}
	sort.Strings(keys)
	for _, k := range keys {
		c.Count("predicate_"+k, 1)
	}
	for _, p := range g.Params {
		switch {
		case p.LA:
			c.Count("params_lookahead", 1)
		case p.Inline:
			c.Count("params_inline", 1)
		default:
			c.Count("params_global", 1)
		}
		if p.Default != "" {
			c.Count("params_with_default", 1)
		}
	}
	return predOps
}

func c14SetNamesNonterm(s *xgram.SetExpr) bool {
	if s.Op <= xgram.SFollow && !s.IsTerm {
		return true
	}
	for _, sub := range s.Sub {
		if c14SetNamesNonterm(sub) {
			return true
		}
	}
	return false
}

func init() {
	const batch = 25
	argModeNames := []string{"plus", "minus", "val_true", "val_false", "from_param", "same_name"}
	fw.Register(&fw.Check{
		ID: "C14",
		Rule: "each case is a batch of 25 random templated grammars (2-4 terminals, 3-7 nonterminals, 1-3 global %flag/%param parameters with and without defaults, 0-2 inline parameters per nonterminal drawn from a small name pool so that same-named inline parameters meet, optional %lookahead flags) whose references carry explicit arguments in all six spellings (+P, ~P, P: true, P: false, P: Q, P) or rely on same-name pass-through and defaults, with predicates (P, !P, ==, !=, &&, ||) on top-level and nested alternatives; " +
			"profiles: lookahead flags with legal leading shapes (two thirds), sets naming instantiated nonterminals (one third); every grammar goes through compiler.Compile; every produced nonterminal named Template_Param... and every input is compared (words up to length 5-8) with the reference instantiation of that valuation; " +
			"a grammar is non-trivial when at least one template has two or more instances, a predicate is present and the first input derives at least 3 words; distinctness by grammar text",
		Assumptions: []string{
			"the reference instantiation/desugaring and the bounded enumerator are correct",
			"instances are identified by the documented Name_Param naming (generated names contain no underscores)",
			"a choice whose alternatives are all switched off derives the empty string and an empty set leaves one empty rule (both pinned by the repository's own tests)",
			"lookahead flags: a reference inherits a flag only in entry position (first part of an alternative after markers/lookaheads) and only if the target accepts it; otherwise false; grammars where a nonterminal on such a chain has an optional/nullable start, where a flag is given to a nonterminal that does not use it or is used but never provided are outside the legal shapes and are not judged",
			"declared defaults of %lookahead flags are not exercised (only '= false' or none)",
		},
		Cases: func(tier string) int {
			if tier == "thorough" {
				return 400
			}
			return 32
		},
		Run: func(c *fw.Ctx) {
			for i := 0; i < batch; i++ {
				r := c.SubRand(i)
				g := xgram.Generate(r, c14Config(c.Tier, (c.Case+i)%3))
				text := g.Print().Text
				if i == 0 {
					c.Sample(text)
				}
				predOps := c14Stats(c, g)
				hasLA := false
				for _, p := range g.Params {
					hasLA = hasLA || p.LA
				}
				if hasLA {
					c.Count("grammars_with_lookahead_flags", 1)
				}
				for _, rs := range g.RuleSets {
					if c14SetNamesNonterm(rs.Set) {
						c.Count("sets_naming_nonterminals", 1)
					}
				}
				p := xgram.Build(g)
				if p.Illegal == "" {
					keys := make([]string, 0, len(p.Stats))
					for k := range p.Stats {
						keys = append(keys, k)
					}
					sort.Strings(keys)
					for _, k := range keys {
						name := k
						if strings.HasPrefix(k, "arg_mode_") {
							var m int
							fmt.Sscanf(k, "arg_mode_%d", &m)
							name = "args_" + argModeNames[m]
						}
						c.Count(name, int64(p.Stats[k]))
					}
					inst := map[int]int{}
					for _, nt := range p.Nonterms {
						if nt.User {
							inst[nt.Templ]++
						}
					}
					multi := false
					for _, n := range inst {
						if n >= 2 {
							multi = true
							c.Count("templates_with_several_instances", 1)
						}
					}
					ok, words := xgJudge(c, g, true, false, "")
					if ok && multi && len(predOps) > 0 && words >= 3 {
						c.Distinct(text)
					}
					continue
				}
				c.Count("illegal_reason/"+fw.Skeleton(strings.Fields(p.Illegal)[0]+" "+strings.Fields(p.Illegal)[1]), 1)
				xgJudge(c, g, true, false, "")
			}
		},
		MinNontrivial: func(tier string) int { return map[string]int{"thorough": 2500}[tier] + 150 },
		RequiredCounters: []string{"nonterminals_compared", "words_compared", "templates_with_several_instances",
			"args_plus", "args_minus", "args_val_true", "args_val_false", "args_from_param", "args_same_name",
			"implicit_by_name", "implicit_by_name_inline", "default_used",
			"la_explicit", "la_inherited_true", "la_reset_to_false", "grammars_with_lookahead_flags",
			"predicate_eq", "predicate_ne", "predicate_and", "predicate_or", "predicate_not", "predicate_nested", "predicate_on_lookahead_flag",
			"params_inline", "params_with_default", "sets_naming_nonterminals"},
	})
}
