package checks

import (
	"encoding/json"
	"fmt"
	"math/rand"
	"os"
	"os/exec"
	"path/filepath"
	"runtime/debug"
	"sort"
	"strconv"
	"strings"

	"verif/internal/fw"
	"verif/internal/xgram"
)

// C15 – token sets equal their fixpoint definitions.
//
// Every %generate set, every in-rule set(...) nonterminal and the afterErr
// recovery set produced by compiler.Compile is compared with the reference
// value (internal/xgram/sets.go); a complement that depends on itself must be
// rejected and only then; %assert directives must be enforced.

const c15HiddenBase = 1000000 // case indices used for grandchild processes

func c15Config(tier string, variant int) *xgram.GenConfig {
	cfg := &xgram.GenConfig{
		MaxDepth: 2, MinTerms: 3, MaxTerms: 5, MinNonterms: 3, MaxNonterms: 7, MaxAlts: 3, MaxParts: 4,
		WOpt: 12, WChoice: 6, WStar: 7, WPlus: 5, WList: 6, WSeq: 1,
		WSet: 6, WLook: 3, WMarker: 2, WOptRef: 3, WErrorTerm: 10,
		FullSets: true, MaxNamed: 4, MaxAsserts: 2, TopSets: true, CollidingSets: true,
		HasError: true, MaxExpand: 48, AllowNoEoi: true,
	}
	if tier == "thorough" {
		cfg.MaxDepth = 3
	}
	switch variant {
	case 1: // nullable chains: many optionals and stars; no in-rule sets (see the probe check)
		cfg.WOpt, cfg.WStar = 24, 14
		cfg.WSet = 0
		cfg.TopSets = false
	case 2: // no error terminal, more sets
		cfg.HasError = false
		cfg.WErrorTerm = 0
		cfg.WSet = 10
	}
	return cfg
}

var c15OpNames = map[xgram.SetOp]string{
	xgram.SAny: "any", xgram.SFirst: "first", xgram.SLast: "last", xgram.SPrecede: "precede", xgram.SFollow: "follow",
	xgram.SUnion: "union", xgram.SInter: "inter", xgram.SCompl: "compl", xgram.SNamed: "named",
}

// c15Class describes a set expression by the operators it uses (through named sets).
func c15Class(g *xgram.Grammar, e *xgram.SetExpr) string {
	seen := map[string]bool{}
	visited := map[int]bool{}
	var walk func(s *xgram.SetExpr)
	walk = func(s *xgram.SetExpr) {
		name := c15OpNames[s.Op]
		if s.Op <= xgram.SFollow && !s.IsTerm {
			name += "-nonterm"
		}
		seen[name] = true
		if s.Op == xgram.SNamed && !visited[s.Named] {
			visited[s.Named] = true
			walk(g.Named[s.Named].Expr)
		}
		for _, c := range s.Sub {
			walk(c)
		}
	}
	walk(e)
	if xgram.ReachesCyclicNamed(e, xgram.NamedCyclic(g)) {
		seen["recursive"] = true
	}
	var out []string
	for k := range seen {
		out = append(out, k)
	}
	sort.Strings(out)
	return strings.Join(out, "+")
}

// c15SharedTaint marks the named sets that name a nonterminal in their own
// expression and are reachable from another top-level set expression (another
// %generate, an %assert, or a compound in-rule set).
func c15SharedTaint(g *xgram.Grammar) []bool {
	n := len(g.Named)
	direct := make([]bool, n)
	for i, s := range g.Named {
		var walk func(e *xgram.SetExpr)
		walk = func(e *xgram.SetExpr) {
			if e.Op <= xgram.SFollow && !e.IsTerm {
				direct[i] = true
			}
			for _, c := range e.Sub {
				walk(c)
			}
		}
		walk(s.Expr)
	}
	reached := make([]bool, n)
	from := func(root *xgram.SetExpr, self int) {
		seen := map[int]bool{}
		var walk func(e *xgram.SetExpr)
		walk = func(e *xgram.SetExpr) {
			if e.Op == xgram.SNamed {
				if seen[e.Named] {
					return
				}
				seen[e.Named] = true
				if e.Named != self {
					reached[e.Named] = true
				}
				walk(g.Named[e.Named].Expr)
				return
			}
			for _, c := range e.Sub {
				walk(c)
			}
		}
		walk(root)
	}
	for i, s := range g.Named {
		from(s.Expr, i)
	}
	for _, a := range g.Asserts {
		from(a.Expr, -1)
	}
	for _, e := range g.RuleSets {
		if e.Set.Op != xgram.SNamed {
			from(e.Set, -1)
		}
	}
	out := make([]bool, n)
	for i := range out {
		out[i] = direct[i] && reached[i]
	}
	return out
}

// c15DependsOn reports whether e, through named references, includes a marked named set
// (self is the index of the named set e defines, or -1).
func c15DependsOn(g *xgram.Grammar, e *xgram.SetExpr, self int, mark []bool) bool {
	if self >= 0 && mark[self] {
		return true
	}
	seen := map[int]bool{}
	found := false
	var walk func(e *xgram.SetExpr)
	walk = func(e *xgram.SetExpr) {
		if e.Op == xgram.SNamed {
			if seen[e.Named] {
				return
			}
			seen[e.Named] = true
			if mark[e.Named] {
				found = true
			}
			walk(g.Named[e.Named].Expr)
			return
		}
		for _, c := range e.Sub {
			walk(c)
		}
	}
	walk(e)
	return found
}

func c15Mask(terms []int) uint32 {
	var m uint32
	for _, t := range terms {
		m |= 1 << uint(t)
	}
	return m
}

func c15Fmt(m uint32, names []string) string {
	var out []string
	for i, n := range names {
		if m&(1<<uint(i)) != 0 {
			out = append(out, n)
		}
	}
	return "{" + strings.Join(out, " ") + "}"
}

// c15Sanitize removes the two shapes that have dedicated sub-workloads.
func c15Sanitize(g *xgram.Grammar) {
	// a %generate whose whole expression is a reference to itself or to a later set
	for i, s := range g.Named {
		if s.Expr.Op == xgram.SNamed && s.Expr.Named >= i {
			s.Expr = &xgram.SetExpr{Op: xgram.SUnion, Sub: []*xgram.SetExpr{s.Expr, {Op: xgram.SAny, IsTerm: true, Sym: 0}}}
		}
	}
	// in-rule sets (other than whole-body ones) that reach recursive named sets
	cyc := xgram.NamedCyclic(g)
	for _, nt := range g.Nonterms {
		if xgram.IsTopSet(nt) {
			continue
		}
		for _, a := range nt.Alts {
			for _, p := range a.Parts {
				p.Walk(func(e *xgram.Expr) {
					if e.Kind == xgram.KSet {
						xgram.ReplaceNamed(e.Set, func(n int) bool { return cyc[n] }, 0)
					}
				})
			}
		}
	}
}

// c15Unshare rewrites named sets that name a nonterminal and are reachable
// from another set expression so that they mention terminals only (that shape
// is kept in every third grammar).
func c15Unshare(g *xgram.Grammar) {
	for round := 0; round < 4; round++ {
		taint := c15SharedTaint(g)
		any := false
		for i, t := range taint {
			if !t {
				continue
			}
			any = true
			var walk func(e *xgram.SetExpr)
			walk = func(e *xgram.SetExpr) {
				if e.Op <= xgram.SFollow && !e.IsTerm {
					e.IsTerm = true
					e.Sym = (e.Sym + i) % len(g.Terms)
				}
				for _, c := range e.Sub {
					walk(c)
				}
			}
			walk(g.Named[i].Expr)
		}
		if !any {
			return
		}
	}
}

// c15Probes adds named sets whose values can also be bounded from below by
// looking at the words of the language: follow/precede of terminals,
// first/last of the input.
func c15Probes(r *rand.Rand, g *xgram.Grammar) (probeStart int) {
	probeStart = len(g.Named)
	in := -1
	for _, inp := range g.Inputs {
		if !inp.NoEoi {
			in = inp.Nonterm
			break
		}
	}
	for k := 0; k < 2; k++ {
		t := r.Intn(len(g.Terms))
		g.Named = append(g.Named, &xgram.NamedSet{Name: fmt.Sprintf("zf%d", k), Expr: &xgram.SetExpr{Op: xgram.SFollow, IsTerm: true, Sym: t}})
		g.Named = append(g.Named, &xgram.NamedSet{Name: fmt.Sprintf("zp%d", k), Expr: &xgram.SetExpr{Op: xgram.SPrecede, IsTerm: true, Sym: t}})
	}
	if in >= 0 {
		g.Named = append(g.Named, &xgram.NamedSet{Name: "zi", Expr: &xgram.SetExpr{Op: xgram.SFirst, Sym: in}})
		g.Named = append(g.Named, &xgram.NamedSet{Name: "zl", Expr: &xgram.SetExpr{Op: xgram.SLast, Sym: in}})
	}
	return probeStart
}

type c15Result struct {
	compared   int
	nontrivial bool
}

// c15One compiles one grammar and judges all its sets.
func c15One(c *fw.Ctx, g *xgram.Grammar, probeStart int) (res c15Result) {
	pr := g.Print()
	files := map[string]string{"grammar.tm": pr.Text}
	p := xgram.Build(g)
	if p.Illegal != "" {
		c.Violate("harness/illegal-grammar", p.Illegal, files)
		return
	}
	sets := p.SolveSets()
	names := g.TermNames()
	full := uint32(1)<<uint(len(names)) - 1
	taint := c15SharedTaint(g)
	anyTaint := false
	for _, t := range taint {
		anyTaint = anyTaint || t
	}
	if anyTaint {
		c.Count("grammars_with_shared_named_sets_naming_nonterminals", 1)
	}
	// mismatchSig narrows the class when the set involves a named set that names
	// a nonterminal and is also reachable from another set expression.
	mismatchSig := func(where, class string, e *xgram.SetExpr, self int) string {
		switch {
		case class == "bare-forward-or-self-reference":
			return "set-mismatch/named/" + class
		case where == "complement-cycle" && !anyTaint:
			return "complement-cycle/" + class
		case e != nil && c15DependsOn(g, e, self, taint):
			return "set-mismatch/shared-named-set-with-nonterminal/direct/" + where
		case anyTaint:
			return "set-mismatch/shared-named-set-with-nonterminal/indirect/" + where + "/" + class
		}
		return "set-mismatch/" + where + "/" + class
	}

	c.Note(files)
	obs := xgram.Compile("grammar.tm", pr.Text)
	c.Eval(1)

	const cycMsg = "set complement cannot transitively depend on itself"
	gotCyc := false
	for _, m := range obs.Errors {
		gotCyc = gotCyc || m == cycMsg
	}
	if sets.ComplementCycle {
		c.Count("grammars_with_complement_on_cycle", 1)
		if !gotCyc {
			c.Violate(mismatchSig("complement-cycle", "not-rejected", nil, -1), fmt.Sprintf("a complement depends on itself but the compiler reports %v", obs.Errors), files)
			return
		}
		c.Distinct("cyc/" + pr.Text)
		return
	}
	if gotCyc {
		c.Violate(mismatchSig("complement-cycle", "spurious-error", nil, -1), "no complement depends on itself, yet the compiler rejects the grammar", files)
		return
	}
	// assertions
	failing := ""
	for i, a := range g.Asserts {
		v := sets.Asserts[i]
		if a.Empty && v != 0 {
			failing = "empty"
			c.Count("asserts_failing", 1)
		} else if !a.Empty && v == 0 {
			failing = "nonempty"
			c.Count("asserts_failing", 1)
		} else {
			c.Count("asserts_holding", 1)
		}
	}
	if failing != "" {
		if len(obs.Early) == 0 {
			c.Violate("assert/not-enforced/"+failing, fmt.Sprintf("an %%assert %s directive is false (reference values of the asserted sets: %v) but the compiler reports no error", failing, c15FmtAll(sets.Asserts, names)), files)
		} else {
			c.Count("assert_failures_reported", 1)
			return
		}
	}
	if !obs.HasRules {
		msg := "no rules and no error"
		if len(obs.Early) > 0 {
			msg = obs.Early[0]
		} else if len(obs.Errors) > 0 {
			msg = obs.Errors[0]
		}
		c.Violate("unexpected-error/"+fw.Skeleton(msg), fmt.Sprintf("the compiler says: %v", obs.Errors), files)
		return
	}
	if strings.Join(obs.Terms, ",") != strings.Join(names, ",") {
		c.Violate("harness/terminal-universe", fmt.Sprintf("terminals %v, expected %v", obs.Terms, names), files)
		return
	}
	interesting := func(v uint32) {
		if v != 0 && v != full {
			res.nontrivial = true
			c.Count("sets_neither_empty_nor_full", 1)
		}
		if v == 0 {
			c.Count("sets_empty", 1)
		}
	}
	// named sets
	byName := map[string][]int{}
	present := map[string]bool{}
	for _, s := range obs.G.Sets {
		byName[s.Name] = s.Terminals
		present[s.Name] = true
	}
	cyc := xgram.NamedCyclic(g)
	for i, s := range g.Named {
		want := sets.Named[i]
		if !present[s.Name] {
			c.Violate("set-missing/named", "named set "+s.Name+" is not in Grammar.Sets", files)
			return
		}
		got := c15Mask(byName[s.Name])
		res.compared++
		c.Count("named_sets_compared", 1)
		if cyc[i] {
			c.Count("recursive_named_sets_compared", 1)
		}
		interesting(want)
		if got != want {
			class := c15Class(g, s.Expr)
			if s.Expr.Op == xgram.SNamed && s.Expr.Named >= i {
				class = "bare-forward-or-self-reference"
			}
			where := "named"
			if i >= probeStart {
				where = "probe"
			}
			c.Violate(mismatchSig(where, class, s.Expr, i), fmt.Sprintf("%%generate %s: Grammar.Sets gives %s, reference %s", s.Name, c15Fmt(got, names), c15Fmt(want, names)), files)
			return
		}
	}
	// afterErr
	if g.HasError {
		want := sets.FollowError
		if !present["afterErr"] {
			c.Violate("set-missing/afterErr", "no afterErr set although 'error' is declared", files)
			return
		}
		got := c15Mask(byName["afterErr"])
		res.compared++
		c.Count("afterErr_compared", 1)
		if want != 0 {
			c.Count("afterErr_nonempty", 1)
		}
		interesting(want)
		if got != want {
			c.Violate(mismatchSig("afterErr", "follow-error", nil, -1), fmt.Sprintf("afterErr is %s, terminals that can follow 'error': %s", c15Fmt(got, names), c15Fmt(want, names)), files)
			return
		}
		if obs.G.Parser.IsRecovering != (want != 0) {
			c.Violate("afterErr/is-recovering-flag", fmt.Sprintf("IsRecovering = %v with follow(error) = %s", obs.G.Parser.IsRecovering, c15Fmt(want, names)), files)
			return
		}
		if obs.G.Parser.ErrorSymbol != g.TermID(g.ErrorSym()) {
			c.Violate("afterErr/error-symbol", fmt.Sprintf("ErrorSymbol = %d", obs.G.Parser.ErrorSymbol), files)
			return
		}
	}
	// in-rule sets
	spanOf := map[[2]int]int{} // span -> nonterminal index in CFG
	for i := range obs.CFG.Names {
		if s, e, ok := obs.NontermSpan(i); ok {
			if _, dup := spanOf[[2]int{s, e}]; !dup {
				spanOf[[2]int{s, e}] = i
			}
		}
	}
	topSetOf := map[*xgram.Expr]string{}
	for _, nt := range g.Nonterms {
		if xgram.IsTopSet(nt) {
			topSetOf[nt.Alts[0].Parts[0]] = nt.Name
		}
	}
	// With template parameters only the nonterminals reachable from the inputs and
	// from the sets are instantiated; an in-rule set inside a template without any
	// instance is still resolved but has no nonterminal.
	owner := map[*xgram.Expr]int{}
	for ti, nt := range g.Nonterms {
		for _, a := range nt.Alts {
			for _, part := range a.Parts {
				part.Walk(func(e *xgram.Expr) {
					if e.Kind == xgram.KSet {
						owner[e] = ti
					}
				})
			}
		}
	}
	instantiated := map[int]bool{}
	for _, nt := range p.Nonterms {
		if nt.User {
			instantiated[nt.Templ] = true
		}
	}
	for i, e := range g.RuleSets {
		want := sets.RuleSets[i]
		idx := -1
		if name, ok := topSetOf[e]; ok {
			if j, ok := obs.ByName[name]; ok {
				idx = j
			}
		} else if j, ok := spanOf[pr.SetSpan[i]]; ok {
			idx = j
		}
		if idx < 0 {
			if len(g.Params) > 0 && !instantiated[owner[e]] {
				c.Count("rule_sets_in_templates_without_instances", 1)
				continue
			}
			if e.Set.Op == xgram.SNamed {
				c.Count("rule_sets_sharing_a_nonterminal", 1) // set(name) twice: one nonterminal is reused
				continue
			}
			c.Violate("set-nonterminal/not-extracted", fmt.Sprintf("no nonterminal carries the source span %v of this in-rule set: %s", pr.SetSpan[i], pr.Text[pr.SetSpan[i][0]:pr.SetSpan[i][1]]), files)
			return
		}
		var got uint32
		bad := ""
		nrules := 0
		for _, r := range obs.CFG.Rules {
			if r.LHS != idx {
				continue
			}
			nrules++
			switch {
			case len(r.RHS) == 1 && r.RHS[0] < obs.CFG.NT:
				got |= 1 << uint(r.RHS[0])
			case len(r.RHS) == 0:
				// an empty set leaves a single empty rule
			default:
				bad = "a rule of a set nonterminal is not a single terminal"
			}
		}
		if bad == "" && got == 0 && nrules != 1 {
			bad = "an empty set nonterminal should have exactly one empty rule"
		}
		if bad != "" {
			c.Violate("set-nonterminal/shape", fmt.Sprintf("set nonterminal %s: %s (%d rules)", obs.CFG.Names[idx], bad, nrules), files)
			return
		}
		res.compared++
		c.Count("rule_sets_compared", 1)
		interesting(want)
		if got != want {
			c.Violate(mismatchSig("rule", c15Class(g, e.Set), e.Set, -1), fmt.Sprintf("in-rule set nonterminal %s derives %s, reference %s", obs.CFG.Names[idx], c15Fmt(got, names), c15Fmt(want, names)), files)
			return
		}
	}
	// lower bounds from the words of the language (validates the reference itself
	// and the compiler from a different angle): adjacency in words of the first
	// eoi input is inside follow/precede, their first/last symbols inside first/last.
	if probeStart < len(g.Named) && sets.HasEoiInput {
		setVals := map[int]uint32{}
		for i, v := range sets.RuleSets {
			setVals[p.RuleSet[i]] = v
		}
		ocfg := p.CFG(setVals)
		bound := xgBound(ocfg)
		if bound > 6 {
			bound = 6
		}
		start := -1
		for _, in := range p.Inputs {
			if !in.NoEoi {
				start = in.Nonterm
				break
			}
		}
		// Terminals that occur only through a set(...) nonterminal are not
		// occurrences for follow/precede (neither in the implementation nor in the
		// reference), while the words of the language show them: the lower bound
		// is applied to grammars without in-rule sets only.
		if start >= 0 && len(g.RuleSets) == 0 {
			lang := ocfg.Enumerate(bound)[start]
			var firstM, lastM uint32
			follow := map[int]uint32{}
			precede := map[int]uint32{}
			example := map[[2]int]string{}
			for _, w := range lang.Words() {
				s := w.Syms()
				if len(s) == 0 {
					continue
				}
				firstM |= 1 << uint(s[0])
				lastM |= 1 << uint(s[len(s)-1])
				for k := 0; k+1 < len(s); k++ {
					follow[s[k]] |= 1 << uint(s[k+1])
					precede[s[k+1]] |= 1 << uint(s[k])
					if _, ok := example[[2]int{s[k], s[k+1]}]; !ok {
						example[[2]int{s[k], s[k+1]}] = w.Format(names)
					}
				}
			}
			for i := probeStart; i < len(g.Named); i++ {
				e := g.Named[i].Expr
				var lower uint32
				switch e.Op {
				case xgram.SFollow:
					lower = follow[g.TermID(e.Sym)]
				case xgram.SPrecede:
					lower = precede[g.TermID(e.Sym)]
				case xgram.SFirst:
					lower = firstM
				case xgram.SLast:
					lower = lastM
				}
				c.Count("probe_sets_checked_against_words", 1)
				if lower&^sets.Named[i] != 0 {
					ex := ""
					for t := 0; t < len(names); t++ {
						if (lower&^sets.Named[i])&(1<<uint(t)) != 0 {
							switch e.Op {
							case xgram.SFollow:
								ex += " [" + example[[2]int{g.TermID(e.Sym), t}] + "]"
							case xgram.SPrecede:
								ex += " [" + example[[2]int{t, g.TermID(e.Sym)}] + "]"
							}
						}
					}
					f2 := map[string]string{"reference_rules.txt": ocfg.Format(names)}
					for k, v := range files {
						f2[k] = v
					}
					c.Violate("reference-self-check/"+c15OpNames[e.Op], fmt.Sprintf("words of the language show %s for %s, reference value %s; example words:%s", c15Fmt(lower, names), g.Named[i].Name, c15Fmt(sets.Named[i], names), ex), f2)
					return
				}
			}
		}
	}
	return res
}

func c15FmtAll(vs []uint32, names []string) []string {
	var out []string
	for _, v := range vs {
		out = append(out, c15Fmt(v, names))
	}
	return out
}

// c15RecursiveInRule builds the shape "mutually recursive named sets used
// through set(...) inside a rule".
func c15RecursiveInRule(r *rand.Rand, tier string) *xgram.Grammar {
	cfg := c15Config(tier, 0)
	cfg.MaxNamed = 0
	cfg.MaxAsserts = 0
	g := xgram.Generate(r, cfg)
	t := func() *xgram.SetExpr {
		return &xgram.SetExpr{Op: xgram.SAny, IsTerm: true, Sym: r.Intn(len(g.Terms))}
	}
	n := 1 + r.Intn(3)
	for i := 0; i < n; i++ {
		g.Named = append(g.Named, &xgram.NamedSet{Name: "s" + string(rune('p'+i))})
	}
	for i := 0; i < n; i++ {
		next := (i + 1) % n
		g.Named[i].Expr = &xgram.SetExpr{Op: xgram.SUnion, Sub: []*xgram.SetExpr{{Op: xgram.SNamed, Named: next}, t()}}
		if r.Intn(3) == 0 {
			g.Named[i].Expr = &xgram.SetExpr{Op: xgram.SInter, Sub: []*xgram.SetExpr{g.Named[i].Expr, {Op: xgram.SCompl, Sub: []*xgram.SetExpr{t()}}}}
		}
	}
	// use one of them inside a rule (not as a whole nonterminal body)
	var use *xgram.SetExpr = &xgram.SetExpr{Op: xgram.SNamed, Named: r.Intn(n)}
	if r.Intn(2) == 0 {
		use = &xgram.SetExpr{Op: xgram.SUnion, Sub: []*xgram.SetExpr{use, t()}}
	}
	host := g.Nonterms[g.Inputs[0].Nonterm]
	host.Alts = append(host.Alts, &xgram.Alt{Parts: []*xgram.Expr{
		{Kind: xgram.KTerm, Sym: r.Intn(len(g.Terms))},
		{Kind: xgram.KSet, Set: use},
	}})
	g.Finish()
	return g
}

// c15RecursiveWithTemplates builds the shape "named sets that refer to each
// other in a grammar that has template parameters" (the sets are not used in rules).
func c15RecursiveWithTemplates(r *rand.Rand, tier string) *xgram.Grammar {
	cfg := c15Config(tier, 1)
	cfg.MaxNamed = 0
	cfg.MaxAsserts = 0
	cfg.MinNonterms = 4
	g := xgram.Generate(r, cfg)
	// one global flag with a default, declared by one nonterminal that is not an input
	g.Params = []xgram.Param{{Name: "Fa", Keyword: "flag", Default: []string{"true", "false"}[r.Intn(2)]}}
	for i, nt := range g.Nonterms {
		isInput := false
		for _, in := range g.Inputs {
			isInput = isInput || in.Nonterm == i
		}
		if !isInput {
			nt.Params = []int{0}
			nt.Alts = append(nt.Alts, &xgram.Alt{Pred: &xgram.Pred{Op: xgram.PParam, Param: 0}, Parts: []*xgram.Expr{{Kind: xgram.KTerm, Sym: 0}, {Kind: xgram.KTerm, Sym: 1}}})
			break
		}
	}
	t := func() *xgram.SetExpr {
		return &xgram.SetExpr{Op: xgram.SAny, IsTerm: true, Sym: r.Intn(len(g.Terms))}
	}
	n := 1 + r.Intn(3)
	for i := 0; i < n; i++ {
		g.Named = append(g.Named, &xgram.NamedSet{Name: "s" + string(rune('p'+i))})
	}
	for i := 0; i < n; i++ {
		g.Named[i].Expr = &xgram.SetExpr{Op: xgram.SUnion, Sub: []*xgram.SetExpr{{Op: xgram.SNamed, Named: (i + 1) % n}, t()}}
	}
	g.Finish()
	return g
}

// c15BareForward builds %generate sets that are nothing but a reference to a
// set defined later, or to themselves. Nothing else refers to them.
func c15BareForward(r *rand.Rand, tier string) (*xgram.Grammar, int) {
	cfg := c15Config(tier, r.Intn(3))
	g := xgram.Generate(r, cfg)
	c15Sanitize(g)
	base := len(g.Named)
	kind := r.Intn(3)
	term := func() *xgram.SetExpr {
		return &xgram.SetExpr{Op: xgram.SAny, IsTerm: true, Sym: r.Intn(len(g.Terms))}
	}
	switch kind {
	case 0: // forward
		g.Named = append(g.Named, &xgram.NamedSet{Name: "yf", Expr: &xgram.SetExpr{Op: xgram.SNamed, Named: base + 1}})
		g.Named = append(g.Named, &xgram.NamedSet{Name: "yg", Expr: &xgram.SetExpr{Op: xgram.SUnion, Sub: []*xgram.SetExpr{term(), term()}}})
	case 1: // self
		g.Named = append(g.Named, &xgram.NamedSet{Name: "ys", Expr: &xgram.SetExpr{Op: xgram.SNamed, Named: base}})
	default: // forward chain
		g.Named = append(g.Named, &xgram.NamedSet{Name: "yf", Expr: &xgram.SetExpr{Op: xgram.SNamed, Named: base + 1}})
		g.Named = append(g.Named, &xgram.NamedSet{Name: "yg", Expr: &xgram.SetExpr{Op: xgram.SNamed, Named: base + 2}})
		g.Named = append(g.Named, &xgram.NamedSet{Name: "yh", Expr: &xgram.SetExpr{Op: xgram.SFollow, IsTerm: true, Sym: r.Intn(len(g.Terms))}})
	}
	g.Finish()
	return g, len(g.Named)
}

type c15ChildResult struct {
	Counters   map[string]int64 `json:"c"`
	Violations []fw.Violation   `json:"v"`
}

// c15Grandchild runs one hidden case in a separate process so that a fatal
// stack overflow can be observed and classified by this check.
func c15Grandchild(c *fw.Ctx, k int) {
	self, err := os.Executable()
	if err != nil {
		c.Violate("harness/no-executable", err.Error(), nil)
		return
	}
	dir := filepath.Join(c.WorkDir, fmt.Sprintf("gc%d", k))
	os.RemoveAll(dir)
	os.MkdirAll(dir, 0o755)
	out, jr := filepath.Join(dir, "out.jsonl"), filepath.Join(dir, "journal")
	cmd := exec.Command(self, "child", "C15", c.Tier, strconv.FormatInt(c.Seed, 10), strconv.Itoa(c15HiddenBase+k), out, jr, dir)
	var stderr strings.Builder
	cmd.Stderr = &stderr
	cmd.Stdout = &stderr
	cmd.Env = append(os.Environ(), "VERIF_CHILD=1")
	runErr := cmd.Run()
	c.Count("recursive_in_rule_processes", 1)
	grammar := ""
	if b, e := os.ReadFile(filepath.Join(dir, "note", "grammar.tm")); e == nil {
		grammar = string(b)
	}
	if b, e := os.ReadFile(out); e == nil {
		for _, line := range strings.Split(strings.TrimSpace(string(b)), "\n") {
			var r c15ChildResult
			if json.Unmarshal([]byte(line), &r) != nil {
				continue
			}
			for name, n := range r.Counters {
				c.Count(name, n)
			}
			for _, v := range r.Violations {
				c.Violate(v.Sig, v.Detail, v.Files)
			}
		}
	}
	if runErr == nil {
		c.Count("recursive_in_rule_survived", 1)
		return
	}
	text := stderr.String()
	if len(text) > 60000 {
		text = text[:30000] + "\n...\n" + text[len(text)-30000:]
	}
	files := map[string]string{"grammar.tm": grammar, "child_stderr.txt": text}
	switch {
	case strings.Contains(text, "stack overflow") && strings.Contains(text, "syntax.(*instantiator).doSet"):
		c.Violate("crash/stack-overflow/instantiator.doSet", "the compiler process died with a stack overflow in syntax.(*instantiator).doSet (named sets that refer to each other in a grammar with template parameters)", files)
	case strings.Contains(text, "stack overflow") && strings.Contains(text, "syntax.appendSetName"):
		c.Violate("crash/stack-overflow/appendSetName", "the compiler process died with a stack overflow in syntax.appendSetName (named sets that refer to each other, used through set(...) inside a rule)", files)
	default:
		first := ""
		for _, l := range strings.Split(text, "\n") {
			l = strings.TrimSpace(l)
			if strings.HasPrefix(l, "panic:") || strings.HasPrefix(l, "fatal error:") {
				first = l
				break
			}
		}
		if first == "" {
			ls := strings.Split(strings.TrimSpace(text), "\n")
			first = ls[len(ls)-1]
		}
		c.Violate("crash/"+fw.Skeleton(first), fmt.Sprintf("grandchild died: %v", runErr), files)
	}
}

func init() {
	const batch = 25
	const recursiveRuns = 6
	const templateRuns = 4
	fw.Register(&fw.Check{
		ID: "C15",
		Rule: "case 0: 6 grammars with mutually recursive %generate sets used through set(...) inside a rule and 4 grammars with such sets next to a template parameter, each compiled in its own process (a stack overflow there is classified, survivors are judged normally); case 1: 25 grammars with a %generate that is a bare reference to a later set or to itself; other cases: batches of 25 random grammars (3-5 terminals plus 'error', 3-7 nonterminals with optionals/lists/nested choices for nullable chains, lookahead markers, opt-suffix references, several inputs incl. no-eoi) with 0-4 %generate sets referring to each other (recursion included), 0-2 %assert directives, in-rule set(...) parts (every third grammar also gets 2-3 in-rule sets that are different bracketings of one operand/operator sequence) and nonterminals whose body is a set, set expressions of depth <= 4 over any/first/last/follow/precede of terminals and nonterminals with | & ~, plus six probe sets (follow/precede of terminals, first/last of the input); " +
			"every Grammar.Sets entry, every set nonterminal (located by the byte span of its set(...) text) and afterErr/IsRecovering are compared with the reference fixpoint; complement-on-cycle must be an error and only then; probe sets are additionally bounded from below by adjacencies in the words of the input language; " +
			"a grammar is non-trivial when at least one compared set is neither empty nor full, or a complement cycle was correctly rejected; distinctness by grammar text",
		Assumptions: []string{
			"the reference equations (internal/xgram/sets.go) are the intended meaning: rules reachable from the first input with eoi, lookahead markers and reachable in-rule sets pull in the nonterminals they name, set nonterminals are not nullable, eoi is never added to follow sets, the complement is taken over all terminals including eoi, invalid_token and error",
			"nonterminals named only in %generate/%assert sets do not become reachable (their sets are empty), as the repository's own tests pin",
			"the reference desugaring yields the same first/last/follow/precede/any as any other language-preserving desugaring",
		},
		Cases: func(tier string) int {
			if tier == "thorough" {
				return 2 + 400
			}
			return 2 + 30
		},
		Run: func(c *fw.Ctx) {
			if c.Case >= c15HiddenBase {
				// grandchild: one risky compile with a small stack limit so that an
				// unbounded recursion ends quickly
				debug.SetMaxStack(4 << 20)
				var g *xgram.Grammar
				if c.Case-c15HiddenBase < recursiveRuns {
					g = c15RecursiveInRule(c.R, c.Tier)
				} else {
					g = c15RecursiveWithTemplates(c.R, c.Tier)
				}
				probe := c15Probes(c.R, g)
				res := c15One(c, g, probe)
				if res.compared > 0 {
					c.Count("recursive_in_rule_sets_compared", int64(res.compared))
				}
				return
			}
			switch c.Case {
			case 0:
				for k := 0; k < recursiveRuns+templateRuns; k++ {
					c15Grandchild(c, k)
				}
				c.Distinct("recursive-in-rule")
				return
			case 1:
				for i := 0; i < batch; i++ {
					r := c.SubRand(i)
					g, probe := c15BareForward(r, c.Tier)
					c.Count("bare_forward_reference_grammars", 1)
					c15One(c, g, probe)
				}
				return
			}
			for i := 0; i < batch; i++ {
				r := c.SubRand(i)
				g := xgram.Generate(r, c15Config(c.Tier, (c.Case+i)%3))
				c15Sanitize(g)
				if (c.Case+i/3)%3 != 0 {
					c15Unshare(g)
				}
				probe := c15Probes(r, g)
				g.Finish()
				// most assertions are made to hold (by the reference), so that an enforcing
				// compiler still lets most grammars through
				if s0 := xgram.Build(g).SolveSets(); !s0.ComplementCycle {
					for k := range g.Asserts {
						fails := g.Asserts[k].Empty != (s0.Asserts[k] == 0)
						if fails && r.Intn(4) != 0 {
							g.Asserts[k].Empty = !g.Asserts[k].Empty
						}
					}
				}
				if i == 0 {
					c.Sample(g.Print().Text)
				}
				if g.Colliding > 0 {
					c.Count("grammars_with_same_spelling_sets", 1)
				}
				for _, s := range g.Named[:probe] {
					for _, op := range strings.Split(c15Class(g, s.Expr), "+") {
						c.Count("op_"+op, 1)
					}
				}
				res := c15One(c, g, probe)
				c.Count("sets_compared", int64(res.compared))
				if res.nontrivial {
					c.Distinct(g.Print().Text)
				}
			}
		},
		MinNontrivial: func(tier string) int { return map[string]int{"thorough": 4000}[tier] + 300 },
		RequiredCounters: []string{"named_sets_compared", "rule_sets_compared", "afterErr_compared", "afterErr_nonempty", "recursive_named_sets_compared",
			"grammars_with_complement_on_cycle", "sets_neither_empty_nor_full", "sets_empty", "probe_sets_checked_against_words",
			"op_follow", "op_precede", "op_first-nonterm", "op_last-nonterm", "op_follow-nonterm", "op_precede-nonterm", "op_any-nonterm", "op_inter", "op_compl", "op_named", "op_recursive",
			"recursive_in_rule_processes", "bare_forward_reference_grammars", "asserts_holding", "asserts_failing", "grammars_with_same_spelling_sets"},
	})
}
