package checks

import (
	"fmt"
	"math/rand"
	"runtime/debug"

	"github.com/inspirer/textmapper/lalr"
	"verif/internal/fw"
	"verif/internal/reflalr"
)

// C03 – lookahead sets and conflict reports are exactly LALR(1).
//
// lalr.Compile is driven directly with generated *lalr.Grammar values. The oracle
// is a canonical LR(1) item-set construction merged by core (internal/reflalr),
// matched to the implementation's states by a simultaneous BFS from the entry
// states.

// lalrTune relaxes the garbage collector of the child process: the workloads of
// C03-C08 allocate many short-lived small objects and run 16 children in parallel.
func lalrTune() { debug.SetGCPercent(400) }

const c03Exhaustive = 16 // number of cases that enumerate the tiny-grammar space

func c03Opts(r *rand.Rand) lalr.Options {
	o := lalr.Options{}
	switch r.Intn(6) {
	case 0:
		o.Verbose = true
	case 1:
		o.DebugConflicts = true
	case 2:
		o.Debug = true
		o.CollectStats = true
	case 3:
		o.Lookahead = 1
	}
	return o
}

// c03One judges one grammar; expectMode: 0 = Expect* set to the reference counts,
// 1 = perturbed, 2 = leave as generated.
func c03One(c *fw.Ctx, g *lalr.Grammar, opts lalr.Options, expectMode int, r *rand.Rand, maxLR1 int, info *reflalr.Info) {
	ref := reflalr.BuildRef(g, maxLR1)
	if ref == nil {
		c.Count("reference_too_large_skipped", 1)
		return
	}
	// reference conflict counts (cells of the reference automaton)
	refSR, refRR := 0, 0
	isLA := map[lalr.Sym]bool{}
	for _, l := range g.Lookaheads {
		isLA[l.Nonterminal] = true
	}
	for s := range ref.States {
		for term := 0; term < g.Terminals; term++ {
			cd := ref.Cell([]int{s}, term)
			n := len(cd.Reduces)
			switch {
			case cd.Shift && n >= 1:
				refSR++
			case n >= 2:
				all := true
				for _, ru := range cd.Reduces {
					if !isLA[g.Rules[ru].LHS] {
						all = false
					}
				}
				if !all {
					refRR++
				}
			}
		}
	}
	switch expectMode {
	case 0:
		g.ExpectSR, g.ExpectRR = refSR, refRR
	case 1:
		g.ExpectSR, g.ExpectRR = refSR, refRR
		switch r.Intn(4) {
		case 0:
			g.ExpectSR++
		case 1:
			g.ExpectRR++
		case 2:
			if g.ExpectSR > 0 {
				g.ExpectSR--
			} else {
				g.ExpectSR = 1 + r.Intn(3)
			}
		default:
			if g.ExpectRR > 0 {
				g.ExpectRR--
			} else {
				g.ExpectRR = 1 + r.Intn(3)
			}
		}
	}
	files := reflalr.Files(g)
	var cp *reflalr.Compiled
	if !c.Guard("compile", files, func() { cp = reflalr.CompileHooked(g, opts) }) {
		return
	}
	c.Eval(1)
	c.Count("hook_calls", int64(cp.Calls))
	t := cp.Stages["conflicts"]
	if t == nil {
		c.Violate("hook/conflicts-stage-not-reached", "lalr.Compile returned without calling the hook at stage conflicts", files)
		return
	}
	viol := func(f reflalr.Finding) {
		c.Violate(f.Sig, f.Detail+"\n\n"+reflalr.Format(g), files)
	}
	m := reflalr.MatchStates(ref, t)
	for _, f := range m.Findings {
		viol(f)
	}
	if m.SharedAug > 0 {
		viol(reflalr.Finding{Sig: "automaton/pre-final-state-shared-with-nested-context", Detail: fmt.Sprintf("%d impl state(s) stand for reference states that differ only in the augmented item S' -> N . [eoi]", m.SharedAug)})
	}
	if len(m.Findings) > 0 {
		return
	}
	if len(t.Action) != len(ref.States) && m.SharedAug == 0 {
		viol(reflalr.Finding{Sig: "automaton/state-count-differs", Detail: fmt.Sprintf("%d states, LALR(1) has %d", len(t.Action), len(ref.States))})
	}
	ei := reflalr.ClassifyErr(cp.Err)
	var st reflalr.CellStats
	cellFindings := reflalr.CompareCells(g, ref, m, t, ei.Lookahead > 0, &st)
	for _, f := range cellFindings {
		viol(f)
	}
	c.Count("single_reduction_states_with_lookahead_row", int64(st.Lr0WithLookahead))
	c.Count("states_matched", int64(st.States))
	c.Count("cells_compared", int64(st.Cells))
	c.Count("lr0_reduce_states", int64(st.Lr0Reduce))
	c.Count("cells_error", int64(st.ErrorCells))
	c.Count("cells_shift", int64(st.ShiftCells))
	c.Count("cells_reduce", int64(st.ReduceCells))
	c.Count("cells_sr_conflict", int64(st.SRUndecided))
	c.Count("cells_rr_conflict", int64(st.RRUnresolved))
	c.Count("cells_runtime_lookahead", int64(st.LookaheadCells))
	c.Count("cells_lookahead_partial_conflict", int64(st.LookaheadPartial))
	c.Count("canonical_lr1_states", int64(ref.LR1))
	c.Count("lalr_states", int64(len(ref.States)))
	if ref.LR1 > len(ref.States) {
		c.Count("grammars_where_merging_by_core_matters", 1)
	}

	if len(cellFindings) > 0 {
		return // counts and the error clause would only repeat the cell disagreement
	}
	// counts
	if t.SR != refSR {
		dir := "impl-higher"
		if t.SR < refSR {
			dir = "impl-lower"
		}
		viol(reflalr.Finding{Sig: "counts/shift-reduce/" + dir, Detail: fmt.Sprintf("Tables.SR=%d, LALR(1) cells with a shift and a reduction: %d", t.SR, refSR)})
	}
	if t.RR != refRR {
		dir := "impl-higher"
		if t.RR < refRR {
			dir = "impl-lower"
		}
		viol(reflalr.Finding{Sig: "counts/reduce-reduce/" + dir, Detail: fmt.Sprintf("Tables.RR=%d, LALR(1) cells with several reductions and no shift: %d", t.RR, refRR)})
	}
	if cp.T.SR != t.SR || cp.T.RR != t.RR {
		viol(reflalr.Finding{Sig: "counts/changed-after-conflicts-stage", Detail: fmt.Sprintf("SR/RR at the hook %d/%d, returned %d/%d", t.SR, t.RR, cp.T.SR, cp.T.RR)})
	}
	// error iff counts differ from the expectations
	differ := refSR != g.ExpectSR || refRR != g.ExpectRR
	if differ {
		c.Count("compiles_expecting_conflict_error", 1)
	} else {
		c.Count("compiles_expecting_no_conflict_error", 1)
		if refSR+refRR > 0 {
			c.Count("compiles_with_conflicts_matching_expect", 1)
		}
	}
	if ei.Summary != differ {
		viol(reflalr.Finding{Sig: fmt.Sprintf("error-iff/conflict-error=%v/counts-differ=%v", ei.Summary, differ), Detail: fmt.Sprintf("conflicts %d/%d, expected %d/%d, error: %v", refSR, refRR, g.ExpectSR, g.ExpectRR, cp.Err)})
	}
	if !differ && ei.ConflictMsgs > 0 {
		viol(reflalr.Finding{Sig: "error-iff/conflict-messages-although-counts-match", Detail: fmt.Sprint(cp.Err)})
	}
	if differ && ei.Summary && refSR+refRR > 0 && ei.ConflictMsgs == 0 {
		viol(reflalr.Finding{Sig: "error-iff/no-individual-conflict-reported", Detail: fmt.Sprint(cp.Err)})
	}
	for _, o := range ei.Other {
		viol(reflalr.Finding{Sig: "error/unexpected-message/" + fw.Skeleton(o), Detail: o})
	}
	if (cp.Err != nil) != (ei.Summary || ei.ConflictMsgs > 0 || ei.Lookahead > 0 || len(ei.Other) > 0) {
		viol(reflalr.Finding{Sig: "error/nil-mismatch", Detail: fmt.Sprint(cp.Err)})
	}
	if ei.Lookahead > 0 {
		c.Count("lookahead_sets_rejected", 1)
	}

	// non-triviality: >= 6 LALR states and at least one state that needs lookahead
	needsLA := st.States-st.Lr0Reduce > 0 && st.Cells > 0
	hasLalrRow := false
	for _, a := range t.Action {
		if a < -2 {
			hasLalrRow = true
		}
	}
	if len(ref.States) >= 6 && needsLA && hasLalrRow {
		c.Distinct(reflalr.ToJSON(g))
	}
	if info != nil {
		if info.NoEoi > 0 {
			c.Count("grammars_with_no_eoi_input", 1)
		}
		if info.Inputs > 1 {
			c.Count("grammars_with_several_inputs", 1)
		}
		if info.SameNTInputs > 0 {
			c.Count("grammars_with_one_nonterminal_as_two_inputs", 1)
		}
		if info.Empty > 0 {
			c.Count("grammars_with_empty_rules", 1)
		}
		if info.LeftRec > 0 {
			c.Count("grammars_with_left_recursion", 1)
		}
		if info.Lookaheads > 0 {
			c.Count("grammars_with_lookahead_nonterminals", 1)
		}
		if info.Markers > 0 {
			c.Count("grammars_with_markers", 1)
		}
		if info.Useless {
			c.Count("grammars_with_useless_nonterminals_allowed", 1)
		}
	}
	nullableMutual(c, g)
}

// nullableMutual counts grammars with mutually recursive nullable nonterminals.
func nullableMutual(c *fw.Ctx, g *lalr.Grammar) {
	// A -> ... B ..., B -> ... A ... with both nullable
	null := map[lalr.Sym]bool{}
	for changed := true; changed; {
		changed = false
		for _, r := range g.Rules {
			if null[r.LHS] {
				continue
			}
			ok := true
			for _, s := range r.RHS {
				if !s.IsStateMarker() && !null[s] {
					ok = false
				}
			}
			if ok {
				null[r.LHS] = true
				changed = true
			}
		}
	}
	uses := map[[2]lalr.Sym]bool{}
	for _, r := range g.Rules {
		for _, s := range r.RHS {
			if !s.IsStateMarker() && null[s] && null[r.LHS] {
				uses[[2]lalr.Sym{r.LHS, s}] = true
			}
		}
	}
	for k := range uses {
		if k[0] != k[1] && uses[[2]lalr.Sym{k[1], k[0]}] {
			c.Count("grammars_with_mutually_recursive_nullables", 1)
			return
		}
	}
}

func c03RandomBatch(c *fw.Ctx, n int) {
	for i := 0; i < n; i++ {
		r := c.SubRand(i)
		cfg := reflalr.SmallConfig()
		cfg.Markers = true
		cfg.Lookaheads = r.Intn(4) == 0
		cfg.Classes = r.Intn(2) == 0
		if r.Intn(10) == 0 {
			cfg.UselessChance = 1
		}
		if r.Intn(5) == 0 {
			cfg.MaxN, cfg.MaxRules = 7, 5
		}
		g, info := reflalr.RandomGrammar(r, cfg)
		if i == 0 {
			c.Sample(reflalr.Format(g))
		}
		mode := r.Intn(2)
		c03One(c, g, c03Opts(r), mode, r, 4000, &info)
	}
}

// c03Tiny enumerates the slice of the tiny-grammar space owned by this case.
func c03Tiny(c *fw.Ctx, maxRHS int) {
	ts := reflalr.NewTinySpace(maxRHS)
	F := len(ts.Forms)
	r := c.SubRand(0)
	n := 0
	run := func(forms []int) {
		for mode := 0; mode < 4; mode++ {
			g := ts.Grammar(forms, mode)
			n++
			c03One(c, g, lalr.Options{}, n%2, r, 4000, nil)
		}
	}
	for i := c.Case; i < F; i += c03Exhaustive {
		run([]int{i})
		for j := i; j < F; j++ {
			run([]int{i, j})
			for k := j; k < F; k++ {
				run([]int{i, j, k})
			}
		}
	}
	c.Count("exhaustive_tiny_grammars", int64(n))
}

func init() {
	fw.Register(&fw.Check{
		ID: "C03",
		Rule: "cases 0..15: EXHAUSTIVE enumeration of every grammar with 1-3 rules (multisets, duplicates included) over terminals {a,b} and nonterminals {A,B} with right-hand sides of at most 2 (quick) / 3 (thorough) symbols, each under 4 input configurations (A eoi; A no-eoi; A eoi + B no-eoi; A eoi + B eoi); " +
			"further cases: batches of random precedence-free lalr.Grammar values (2-5 terminals, 1-7 nonterminals; empty rules, left/right recursion, nullable chains, 1-3 inputs with eoi and no-eoi, the same nonterminal as eoi and no-eoi input, markers, lookahead nonterminals with predicates in a quarter of them, 10% with unproductive/unreachable nonterminals left in), random Expect* (half equal to the exact counts, half off by one) and random Verbose/DebugConflicts/Debug options. " +
			"Every grammar is compiled by lalr.Compile; the tables captured by the hook at stage 'conflicts' are compared state by state (BFS correspondence from the entry states) and cell by cell with canonical LR(1) merged by core; SR/RR and the conflict error are compared with the exact cell counts. " +
			"A grammar is non-trivial when its LALR(1) automaton has >= 6 states and at least one state with a lookahead row; distinctness by grammar text",
		Assumptions: []string{
			"the canonical LR(1)/merge-by-core construction in internal/reflalr is correct (it is written from the textbook definition with explicit lookahead sets; augmented rule S'_i -> N_i [eoi] per input, no-eoi inputs followed by every terminal)",
			"a cell whose candidates are only empty rules of lookahead nonterminals is not a conflict (it is resolved at run time); any other cell with more than one candidate is one conflict, shift/reduce when a shift is among them",
			"grammars with more than 4000 canonical LR(1) states are skipped (counted)",
		},
		Cases: func(tier string) int {
			if tier == "thorough" {
				return c03Exhaustive + 400
			}
			return c03Exhaustive + 64
		},
		Exhaustive: func(string) bool { return true },
		CPUBudget:  900,
		Run: func(c *fw.Ctx) {
			lalrTune()
			if c.Case < c03Exhaustive {
				if c.Tier == "thorough" {
					c03Tiny(c, 3)
				} else {
					c03Tiny(c, 2)
				}
				return
			}
			if c.Tier == "thorough" {
				c03RandomBatch(c, 1500)
			} else {
				c03RandomBatch(c, 600)
			}
		},
		MinNontrivial: func(tier string) int {
			if tier == "thorough" {
				return 150000
			}
			return 10000
		},
		RequiredCounters: []string{"hook_calls", "cells_sr_conflict", "cells_rr_conflict", "cells_runtime_lookahead", "compiles_expecting_conflict_error", "compiles_expecting_no_conflict_error",
			"compiles_with_conflicts_matching_expect", "grammars_with_no_eoi_input", "grammars_with_several_inputs", "grammars_with_mutually_recursive_nullables", "grammars_where_merging_by_core_matters",
			"grammars_with_lookahead_nonterminals", "exhaustive_tiny_grammars", "lr0_reduce_states"},
	})
}
