package checks

import (
	"fmt"
	"math/rand"
	"os"
	"path/filepath"
	"strings"

	"verif/internal/cfg"
	"verif/internal/fw"
	"verif/internal/genrun"
	"verif/internal/gram"
	"verif/internal/reflalr"
)

// pinput is one token-level input with its rendering.
type pinput struct {
	toks []int
	text string
	pos  [][2]int
}

// expectation of the reference recognizer for one (input nonterminal, token string).
type pexpect struct {
	accept   bool
	errTok   int // index of the offending token (len(toks) = end of input) when !accept
	sentence bool
}

func expectParse(g *cfg.Grammar, in gram.Input, toks []int) pexpect {
	rec := g.Recognize(in.NT, toks)
	if in.NoEoi {
		if rec.FirstComplete >= 0 {
			return pexpect{accept: true, sentence: rec.Sentence}
		}
		return pexpect{errTok: rec.Dead}
	}
	if rec.Sentence {
		return pexpect{accept: true, sentence: true}
	}
	return pexpect{errTok: rec.Dead}
}

// genInputs builds the input set for one grammar/input: exhaustive short
// strings (when affordable), sampled sentences and their mutations.
func genInputs(r *rand.Rand, g *cfg.Grammar, nt int, exhaustiveBudget, nSentences, nMutants, maxSize int) [][]int {
	var out [][]int
	seen := map[string]bool{}
	add := func(s []int) {
		k := fmt.Sprint(s)
		if !seen[k] {
			seen[k] = true
			out = append(out, append([]int(nil), s...))
		}
	}
	nT := len(g.Terms)
	// largest L with sum_{i<=L} nT^i <= budget
	L, total, pw := 0, 1, 1
	for {
		pw *= nT
		if total+pw > exhaustiveBudget || L >= 8 {
			break
		}
		total += pw
		L++
	}
	cfg.AllStrings(nT, L, add)
	var sentences [][]int
	for i := 0; i < nSentences; i++ {
		budget := 1 + r.Intn(maxSize)
		if i%7 == 6 {
			budget = maxSize * 4
		}
		t := g.Sample(r, nt, budget)
		if t == nil {
			break
		}
		s := t.Yield(nil)
		if len(s) > 4000 {
			continue
		}
		sentences = append(sentences, s)
		add(s)
	}
	for i := 0; i < nMutants && len(sentences) > 0; i++ {
		s := sentences[r.Intn(len(sentences))]
		m := cfg.Mutate(r, s, nT)
		if r.Intn(3) == 0 {
			m = cfg.Mutate(r, m, nT)
		}
		add(m)
	}
	return out
}

// buildModule writes and builds a scratch module for pkgs under c.WorkDir.
// Returns the runner path; on build failure reports a violation and returns "".
func buildModule(c *fw.Ctx, pkgs []*genrun.Pkg, race bool) (dir, bin string) {
	dir = filepath.Join(c.WorkDir, fmt.Sprintf("mod%d", c.Case))
	os.RemoveAll(dir)
	if err := genrun.WriteModule(dir, pkgs); err != nil {
		c.Violate("harness/write-module/"+fw.Skeleton(err.Error()), err.Error(), nil)
		return dir, ""
	}
	bin, out, err := genrun.Build(dir, race, "")
	if err != nil {
		files := map[string]string{"build_output.txt": out}
		// attach the grammar of the first package named in the output
		for _, p := range pkgs {
			if strings.Contains(out, "w/"+p.Name) || strings.Contains(out, p.Name+"/") {
				files["grammar.tm"] = p.Text
				for n, content := range p.Files {
					files[strings.ReplaceAll(n, "/", "_")] = content
				}
				break
			}
		}
		c.Violate("generated-code-does-not-build/"+buildSkeleton(out), "go build of generated packages failed:\n"+out, files)
		return dir, ""
	}
	return dir, bin
}

// buildSkeleton extracts the first compiler diagnostic without positions.
func buildSkeleton(out string) string {
	for _, l := range strings.Split(out, "\n") {
		if strings.HasPrefix(l, "#") || strings.TrimSpace(l) == "" {
			continue
		}
		// file.go:12:3: message
		parts := strings.SplitN(l, ": ", 2)
		if len(parts) == 2 {
			file := parts[0]
			if i := strings.IndexByte(file, ':'); i >= 0 {
				file = file[:i]
			}
			return filepath.Base(file) + ": " + fw.Skeleton(parts[1])
		}
		return fw.Skeleton(l)
	}
	return "unknown"
}

func toksString(g *cfg.Grammar, toks []int) string {
	var b strings.Builder
	for i, t := range toks {
		if i > 0 {
			b.WriteByte(' ')
		}
		b.WriteString(g.Terms[t])
	}
	return b.String()
}

// tableOptVectors are the 8 combinations of the table options.
func tableOpts(v int) []string {
	var o []string
	if v&1 != 0 {
		o = append(o, "optimizeTables = true")
	}
	if v&2 != 0 {
		o = append(o, "defaultReduce = true")
	}
	if v&4 != 0 {
		o = append(o, "minimizeDFA = true")
	}
	return o
}

// withHookMonitor runs f with the process-wide LALR invariant monitor installed: every
// lalr.Compile performed inside (through compiler.Compile) is judged by the C03-C06
// table-level monitors as well (reference LALR(1) cells for small grammars, bisimulation
// across minimize, encoding comparison across Optimize). Findings become violations of
// the running check under hook/<property>/<signature>.
func withHookMonitor(c *fw.Ctx, f func()) {
	m := reflalr.InstallMonitor(300)
	defer func() {
		m.Uninstall()
		c.Count("hook_compiles_monitored", int64(m.Compiles))
		c.Count("hook_reference_lalr1_compared", int64(m.RefChecked))
		c.Count("hook_minimize_bisimulations", int64(m.Minimized))
		c.Count("hook_optimize_encodings_compared", int64(m.Optimized))
		for _, fd := range m.Findings {
			c.Violate("hook/"+fd.Property+"/"+fd.Sig, "LALR invariant monitor ("+fd.Property+") on a grammar compiled by this check:\n"+fd.Detail, map[string]string{"lalr_grammar.json": fd.Grammar})
		}
	}()
	f()
}
