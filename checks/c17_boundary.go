package checks

import (
	"context"
	"fmt"
	"strings"

	"github.com/inspirer/textmapper/compiler"

	"verif/internal/featgram"
	"verif/internal/fw"
	"verif/internal/genrun"
)

// Boundary-size family of C17. The generated code picks integer widths from table
// sizes (state type int8/int16/int32, rune classes, rule lengths), and several
// templates compute the same width independently. Random grammars hit the exact
// boundaries (128 or 256 LR states) only by luck, so every case adds packages whose
// keyword-list grammar is tuned, by compiling candidates and reading
// Parser.Tables.NumStates, to have exactly 127, 128, 129, 255, 256 or 257 states,
// under option vectors of the pairwise array with tokenStream forced on or off.

var c17BoundaryTargets = []int{127, 129, 255, 256, 257, 128}

// c17BoundaryText renders the grammar: n keyword statements 'kI' 'x' plus e extra
// alternatives of growing length (to fix the remainder).
func c17BoundaryText(name string, optLines []string, fileNode bool, n, e int) string {
	var b strings.Builder
	fmt.Fprintf(&b, "language %s(go);\n\nlang = \"%s\"\npackage = \"w/%s\"\n%s\n\n:: lexer\n\nspace: /[ \\t\\r\\n]+/ (space)\n'x': /x/\n'y': /y/\n",
		name, name, name, strings.Join(optLines, "\n"))
	for i := 0; i < n; i++ {
		fmt.Fprintf(&b, "'k%d': /k%d/\n", i, i)
	}
	for i := 0; i < e; i++ {
		fmt.Fprintf(&b, "'e%d': /e%d/\n", i, i)
	}
	b.WriteString("\n:: parser\n\n%input input;\n\n")
	if fileNode {
		b.WriteString("input -> File :\n    stmt+ ;\n\nstmt -> Stmt :\n")
	} else {
		b.WriteString("input :\n    stmt+ ;\n\nstmt :\n")
	}
	sep := "    "
	for i := 0; i < n; i++ {
		fmt.Fprintf(&b, "%s'k%d' 'x'\n", sep, i)
		sep = "  | "
	}
	for i := 0; i < e; i++ {
		// alternative i has i+1 symbols: adds i+1 states (before minimisation)
		fmt.Fprintf(&b, "%s'e%d'%s\n", sep, i, strings.Repeat(" 'y'", i))
		sep = "  | "
	}
	b.WriteString(";\n")
	return b.String()
}

func c17NumStates(name, text string) int {
	g, err := compiler.Compile(context.Background(), name+".tm", text, compiler.Params{})
	if err != nil || g.Parser == nil || g.Parser.Tables == nil {
		return -1
	}
	return g.Parser.Tables.NumStates
}

// c17Boundary builds one package with exactly `target` LR states (nil if the
// search does not hit the target under these options).
func c17Boundary(c *fw.Ctx, name string, t, target int, tokenStream bool) *c17Pkg {
	vec := c17Vector(c.Seed+11, t)
	var optLines []string
	fileNode := false
	for i, o := range c17Options {
		switch o {
		case "genParser":
			vec[i] = true
		case "tokenStream":
			vec[i] = tokenStream
		case "nodePrefix", "extraTypes", "minimizeDFA":
			// minimizeDFA merges the per-keyword states, so the size would not grow with n
			vec[i] = false
		case "fileNode":
			fileNode = vec[i]
		}
		switch o {
		case "fileNode":
			if vec[i] {
				optLines = append(optLines, `fileNode = "File"`)
			}
		case "nodePrefix", "extraTypes":
		default:
			if vec[i] != featgram.Defaults[o] {
				optLines = append(optLines, fmt.Sprintf("%s = %v", o, vec[i]))
			}
		}
	}
	states := func(n, e int) int { return c17NumStates(name, c17BoundaryText(name, optLines, fileNode, n, e)) }
	// grow n until the target is reached, then adjust with the extra alternatives
	n := 1
	for step := 64; step >= 1; step /= 2 {
		for {
			s := states(n+step, 0)
			c.Count("boundary_size_probe_compilations", 1)
			if s < 0 || s > target || n+step > 400 {
				break
			}
			n += step
		}
	}
	for dn := 0; dn <= 3 && n-dn >= 1; dn++ {
		for e := 0; e <= 4; e++ {
			c.Count("boundary_size_probe_compilations", 1)
			if states(n-dn, e) != target {
				continue
			}
			text := c17BoundaryText(name, optLines, fileNode, n-dn, e)
			c.Note(map[string]string{"grammar.tm": text})
			pkg, cerr, gerr := genrun.GenerateNamed(name, name+".tm", text)
			if cerr != nil {
				return nil
			}
			if gerr != nil {
				c.Violate("generate-error/"+fw.Skeleton(gerr.Error()), "boundary-size grammar: gen.Generate failed: "+gerr.Error()+"\noptions: "+c17VecString(vec),
					map[string]string{"grammar.tm": text})
				return nil
			}
			c17AddUserStubs(c, pkg)
			c.Count("boundary_size_packages", 1)
			c.Count(fmt.Sprintf("boundary_size_packages_%d_states", target), 1)
			if tokenStream {
				c.Count(fmt.Sprintf("boundary_size_packages_%d_states_tokenstream", target), 1)
			}
			return &c17Pkg{pkg: pkg, vec: vec, g: &featgram.Grammar{Name: name, Text: text,
				Features: []string{fmt.Sprintf("boundary-size-%d-states", target)}}}
		}
	}
	c.Count("boundary_size_target_missed", 1)
	return nil
}

// c17BoundaryPackages returns the boundary packages of a case: one with exactly
// 128 states and tokenStream = true, and one with the next target of the list
// (tokenStream alternating).
func c17BoundaryPackages(c *fw.Ctx) []*c17Pkg {
	var ret []*c17Pkg
	if p := c17Boundary(c, fmt.Sprintf("z%04da", c.Case), 2*c.Case, 128, true); p != nil {
		ret = append(ret, p)
	}
	target := c17BoundaryTargets[c.Case%len(c17BoundaryTargets)]
	if p := c17Boundary(c, fmt.Sprintf("z%04db", c.Case), 2*c.Case+1, target, (c.Case/len(c17BoundaryTargets))%2 == 0 && target != 128); p != nil {
		ret = append(ret, p)
	}
	return ret
}
