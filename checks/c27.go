package checks

import (
	"fmt"
	"math/rand"
	"regexp"
	"strconv"
	"strings"

	"github.com/inspirer/textmapper/util/diff"
	"verif/internal/fw"
)

// C27 – line diffs: hunks apply, empty iff equal, minimal edit count.

var hunkRE = regexp.MustCompile(`^@@ -(\d+),(\d+) \+(\d+),(\d+) @@$`)
var skipRE = regexp.MustCompile(`^  \.\.\. (\d+) lines skipped \.\.\.$`)

func lcsLen(a, b []string) int {
	prev := make([]int, len(b)+1)
	cur := make([]int, len(b)+1)
	for i := 1; i <= len(a); i++ {
		for j := 1; j <= len(b); j++ {
			if a[i-1] == b[j-1] {
				cur[j] = prev[j-1] + 1
			} else if prev[j] >= cur[j-1] {
				cur[j] = prev[j]
			} else {
				cur[j] = cur[j-1]
			}
		}
		prev, cur = cur, prev
	}
	return prev[len(b)]
}

// applyDiff applies a rendered diff to a; elided lines ("... N lines skipped ...")
// are re-read from a (context/deleted) or b (inserted). Returns the result, the
// number of inserted and deleted lines and an error description.
func applyDiff(out string, a, b []string) (res []string, ins, del int, markerCounted bool, problem string) {
	lines := strings.Split(out, "\n")
	if lines[len(lines)-1] != "" {
		return nil, 0, 0, false, "output does not end with a newline"
	}
	lines = lines[:len(lines)-1]
	ai := 0 // next unconsumed line of a (0-based)
	i := 0
	for i < len(lines) {
		m := hunkRE.FindStringSubmatch(lines[i])
		if m == nil {
			return nil, 0, 0, false, fmt.Sprintf("expected hunk header at output line %d: %q", i+1, lines[i])
		}
		i++
		ls, _ := strconv.Atoi(m[1])
		ln, _ := strconv.Atoi(m[2])
		rs, _ := strconv.Atoi(m[3])
		rn, _ := strconv.Atoi(m[4])
		start := ls - 1
		if ln == 0 {
			start = ls // unified format: for empty ranges the line before
		}
		_ = start
		if ls-1 < ai {
			return nil, 0, 0, false, fmt.Sprintf("hunk at -%d overlaps the previous hunk (already consumed %d lines)", ls, ai)
		}
		// copy unchanged lines before the hunk
		for ai < ls-1 {
			if ai >= len(a) {
				return nil, 0, 0, false, fmt.Sprintf("hunk start -%d beyond the end of the left text", ls)
			}
			res = append(res, a[ai])
			ai++
		}
		if len(res) != rs-1 {
			return nil, 0, 0, false, fmt.Sprintf("hunk header says right line %d but %d lines precede it in the patched text", rs, len(res))
		}
		lc, rc := 0, 0
		ml, mr := 0, 0 // elision markers affecting the left / right side
		for i < len(lines) && !strings.HasPrefix(lines[i], "@") {
			l := lines[i]
			if l == "" {
				return nil, 0, 0, false, fmt.Sprintf("empty line inside hunk at output line %d", i+1)
			}
			kind, text := l[0], l[1:]
			n := 1
			skipped := false
			if sm := skipRE.FindStringSubmatch(text); sm != nil {
				n, _ = strconv.Atoi(sm[1])
				skipped = true
				if kind != '+' {
					ml++
				}
				if kind != '-' {
					mr++
				}
			}
			for k := 0; k < n; k++ {
				switch kind {
				case ' ', '-':
					if ai >= len(a) {
						return nil, 0, 0, false, fmt.Sprintf("hunk consumes left line %d beyond the end", ai+1)
					}
					if !skipped && a[ai] != text {
						return nil, 0, 0, false, fmt.Sprintf("hunk line %q does not match left line %d %q", l, ai+1, a[ai])
					}
					if kind == ' ' {
						res = append(res, a[ai])
						rc++
					} else {
						del++
					}
					ai++
					lc++
				case '+':
					if skipped {
						if len(res) >= len(b) {
							return nil, 0, 0, false, "skipped inserted lines beyond the end of the right text"
						}
						res = append(res, b[len(res)])
					} else {
						res = append(res, text)
					}
					ins++
					rc++
				default:
					return nil, 0, 0, false, fmt.Sprintf("bad hunk line %q", l)
				}
			}
			i++
		}
		if lc != ln || rc != rn {
			if ml+mr > 0 && lc+ml == ln && rc+mr == rn {
				// header counts each "... N lines skipped ..." marker as a line
				markerCounted = true
			} else {
				return nil, 0, 0, false, fmt.Sprintf("hunk @@ -%d,%d +%d,%d @@ has %d left / %d right lines", ls, ln, rs, rn, lc, rc)
			}
		}
	}
	res = append(res, a[ai:]...)
	return res, ins, del, markerCounted, ""
}

func c27Pair(c *fw.Ctx, a, b []string) {
	left, right := strings.Join(a, "\n"), strings.Join(b, "\n")
	c.Eval(1)
	out := diff.LineDiff(left, right)
	if (out == "") != (left == right) {
		c.Violate(fmt.Sprintf("empty-iff-equal/equal=%v", left == right), fmt.Sprintf("a=%q b=%q diff=%q", left, right, out), map[string]string{"a.txt": left, "b.txt": right})
		return
	}
	if left == right {
		c.Count("equal_pairs", 1)
		return
	}
	// Split semantics of LineDiff: strings.Split(s, "\n").
	res, ins, del, markerCounted, problem := applyDiff(out, a, b)
	files := map[string]string{"a.txt": left, "b.txt": right, "diff.txt": out}
	if problem != "" {
		c.Violate("hunks-malformed/"+fw.Skeleton(problem), fmt.Sprintf("%s\na=%q\nb=%q\ndiff:\n%s", problem, left, right, out), files)
		return
	}
	if markerCounted {
		c.Violate("hunk-header/elision-marker-counted-as-line", fmt.Sprintf("a hunk header counts its '... N lines skipped ...' marker as one more line than the hunk has (%d left, %d right lines)", len(a), len(b)), files)
	}
	if strings.Join(res, "\n") != right {
		c.Violate("hunks-do-not-produce-right-text", fmt.Sprintf("a=%q\nb=%q\npatched=%q\ndiff:\n%s", left, right, strings.Join(res, "\n"), out), files)
		return
	}
	l := lcsLen(a, b)
	if want := len(a) + len(b) - 2*l; ins+del != want {
		c.Violate("not-minimal", fmt.Sprintf("edit script has %d insertions + %d deletions, minimum is %d\na=%q\nb=%q\ndiff:\n%s", ins, del, want, left, right, out), files)
		return
	}
	c.Count("hunks_applied", int64(strings.Count(out, "@@ -")))
	if l > 0 {
		c.Distinct(left + "\x00" + right)
	}
	if strings.Contains(out, "lines skipped") {
		c.Count("pairs_with_elision", 1)
	}
}

func randText(r *rand.Rand, alpha []string, n int) []string {
	t := make([]string, n)
	for i := range t {
		t[i] = alpha[r.Intn(len(alpha))]
	}
	return t
}

func mutateText(r *rand.Rand, a []string, alpha []string) []string {
	b := append([]string(nil), a...)
	edits := 1 + r.Intn(6)
	for e := 0; e < edits; e++ {
		switch r.Intn(4) {
		case 0: // delete run
			if len(b) > 0 {
				p := r.Intn(len(b))
				n := 1 + r.Intn(1+min(len(b)-p-1, []int{1, 3, 20}[r.Intn(3)]))
				b = append(b[:p:p], b[p+n:]...)
			}
		case 1: // insert run
			p := r.Intn(len(b) + 1)
			n := 1 + r.Intn([]int{1, 3, 20}[r.Intn(3)])
			b = append(b[:p:p], append(randText(r, alpha, n), b[p:]...)...)
		case 2: // replace
			if len(b) > 0 {
				b[r.Intn(len(b))] = alpha[r.Intn(len(alpha))]
			}
		case 3: // move block
			if len(b) > 3 {
				p := r.Intn(len(b) - 1)
				n := 1 + r.Intn(min(len(b)-p, 8))
				blk := append([]string(nil), b[p:p+n]...)
				b = append(b[:p:p], b[p+n:]...)
				q := r.Intn(len(b) + 1)
				b = append(b[:q:q], append(blk, b[q:]...)...)
			}
		}
	}
	return b
}

func init() {
	fw.Register(&fw.Check{
		ID:          "C27",
		Rule:        "case 0: all pairs of line sequences of length 0..5 over a 3-line alphabet (364x364 pairs, exhaustive); other cases: batches of random pairs - independent random texts over small alphabets (many repeated lines) and mutated copies (run deletions/insertions up to 20 lines, replacements, block moves) of texts up to 400 lines, with long common runs (>6, >14 lines) and trailing-newline variations; alphabets whose lines differ only in a trailing carriage return, blank or letter case, and CRLF/LF conversions of one side. Oracle: unified-diff applier (hunk headers, context lines must match, elided '... N lines skipped ...' runs re-read from the texts) must reproduce b; '+'/'-' count must equal len(a)+len(b)-2*LCS (quadratic DP). Pair non-trivial when texts differ and share at least one line",
		Assumptions: []string{"texts contain no line of the form '  ... N lines skipped ...' (the renderer's own elision marker is ambiguous with such content)"},
		Cases: func(tier string) int {
			if tier == "thorough" {
				return 14 + 1500
			}
			return 14 + 50
		},
		Exhaustive: func(string) bool { return true },
		Run: func(c *fw.Ctx) {
			alpha3 := []string{"a", "b", ""}
			if c.Case < 14 {
				// enumerate all sequences up to length 5, split into 14 slices by index of a
				var seqs [][]string
				var rec func(cur []string)
				rec = func(cur []string) {
					seqs = append(seqs, append([]string(nil), cur...))
					if len(cur) == 5 {
						return
					}
					for _, s := range alpha3 {
						rec(append(cur, s))
					}
				}
				rec(nil)
				for i := c.Case; i < len(seqs); i += 14 {
					for _, b := range seqs {
						a := seqs[i]
						if len(a) == 0 {
							a = []string{""} // strings.Split of "" is one empty line
						}
						bb := b
						if len(bb) == 0 {
							bb = []string{""}
						}
						c27Pair(c, a, bb)
					}
				}
				c.Count("exhaustive_pairs", int64((len(seqs)+13-c.Case)/14*len(seqs)))
				return
			}
			alphas := [][]string{{"x", "y"}, {"a", "b", "c", ""}, {"{", "}", "  foo();", "  bar();", "", "// c"}}
			big := make([]string, 60)
			for i := range big {
				big[i] = fmt.Sprintf("line %d", i)
			}
			alphas = append(alphas, big)
			// lines that differ only in a trailing carriage return, blank or letter case are different lines
			alphas = append(alphas, []string{"x", "x\r", "y", "y\r", ""}, []string{"a", "a ", "a\t", "A", "a\r", " a", "", "\r"})
			for i := 0; i < 150; i++ {
				al := alphas[c.R.Intn(len(alphas))]
				n := c.R.Intn([]int{8, 40, 400}[c.R.Intn(3)] + 1)
				a := randText(c.R, al, n+1)
				var b []string
				if c.R.Intn(4) == 0 {
					b = randText(c.R, al, c.R.Intn(n+2)+1)
				} else {
					b = mutateText(c.R, a, al)
					if len(b) == 0 {
						b = []string{""}
					}
				}
				if c.R.Intn(5) == 0 && a[len(a)-1] != "" {
					a = append(a, "") // trailing newline on one side only
				}
				if c.R.Intn(8) == 0 {
					// line-ending conversion: some or all lines of b gain or lose a carriage return
					b = append([]string(nil), b...)
					all := c.R.Intn(2) == 0
					for k := range b {
						if all || c.R.Intn(3) == 0 {
							if strings.HasSuffix(b[k], "\r") {
								b[k] = strings.TrimSuffix(b[k], "\r")
							} else if k < len(b)-1 || b[k] != "" {
								b[k] += "\r"
							}
						}
					}
				}
				if strings.Contains(strings.Join(a, "\n")+strings.Join(b, "\n"), "\r") {
					c.Count("pairs_with_carriage_returns", 1)
				}
				if i == 0 {
					c.Sample(map[string]any{"a": strings.Join(a, "\n"), "b": strings.Join(b, "\n")})
				}
				c27Pair(c, a, b)
				c.Count("random_pairs", 1)
			}
		},
		MinNontrivial:    func(string) int { return 50000 },
		RequiredCounters: []string{"hunks_applied", "pairs_with_elision", "equal_pairs", "exhaustive_pairs", "pairs_with_carriage_returns"},
	})
}
