package checks

import (
	"fmt"
	"math/rand"
	"strings"

	"github.com/inspirer/textmapper/lex"
	"github.com/inspirer/textmapper/shiftdfa"
	"verif/internal/fw"
	"verif/internal/rx"
)

// C24 – shift-DFA scanners agree with the lexer tables they pack.
//
// Both sides are repository code: shiftdfa.Pack(tables).Scan and tables.Scan(0, ·)
// must return the same size and token for every byte string whenever Pack accepts.

// c24GenSet draws a small byte-mode rule set (few states, one start condition).
func c24GenSet(r *rand.Rand) *lxSet {
	s := &lxSet{Tags: map[string]bool{}, Defs: rx.Defs{}, NumSC: 1}
	s.Mode = rx.Mode{Bytes: true}
	var alpha []rune
	asciiOnly := r.Intn(5) < 2 // rule texts without any byte >= 0x80 (inputs still contain them)
	for len(alpha) < 2+r.Intn(3) {
		var c rune
		k := r.Intn(8)
		if asciiOnly {
			k = 0
		}
		switch k {
		case 0, 1, 2, 3:
			const ascii = "abxyAB01_-+ .\n\t\"/*"
			c = rune(ascii[r.Intn(len(ascii))])
		case 4:
			c = []rune{0xe9, 0xc9, 0xff, 0x80, 0xa0, 0xb5}[r.Intn(6)] // two UTF-8 bytes
		case 5:
			c = []rune{0x3b1, 0x3b2, 0x7ff, 0x100}[r.Intn(4)]
		case 6:
			c = []rune{0x20ac, 0x800, 0xffff, 0x2028}[r.Intn(4)]
		default:
			c = []rune{0x1f600, 0x10000, 0x10ffff}[r.Intn(3)]
		}
		alpha = append(alpha, c)
	}
	g := &rx.Gen{R: r, Mode: s.Mode, Alpha: alpha, Defs: s.Defs, FoldGroup: r.Intn(4) == 0, EmptyBits: r.Intn(8) == 0, MaxRep: 3, ExactOnly: true, ASCIIClasses: asciiOnly}
	if r.Intn(5) == 0 {
		s.Defs["frag"] = g.Rule(1 + r.Intn(2))
		s.DefNames = []string{"frag"}
		g.Names = s.DefNames
	}
	nRules := 1 + r.Intn(4)
	for i := 0; i < nRules; i++ {
		var re *rx.Node
		for try := 0; ; try++ {
			switch k := r.Intn(10); {
			case k < 3:
				re = g.Rule(1 + r.Intn(3))
			case k < 5: // class+
				g.Reset()
				re = rx.Rep(rx.Cls(g.Class()), 1, -1)
			case k < 7: // short literal
				var sb []*rx.Node
				for j := 1 + r.Intn(2); j > 0; j-- {
					sb = append(sb, rx.Ch(alpha[r.Intn(len(alpha))]))
				}
				re = rx.Cat(sb...)
			case k < 8 && !asciiOnly: // a byte class over the high half
				lo := rune(0x80 + r.Intn(0x80))
				hi := lo + rune(r.Intn(int(0x100-lo)))
				re = rx.Cls(&rx.Class{Items: []rx.Item{{Kind: rx.IRange, Lo: lo, Hi: hi}}})
				if r.Intn(2) == 0 {
					re = rx.Rep(re, 1, -1)
				}
			case k < 9: // ident-like
				g.Reset()
				re = rx.Cat(rx.Cls(g.Class()), rx.Rep(rx.Cls(g.Class()), 0, -1))
			case r.Intn(6) == 0:
				re = rx.Cat(rx.Ch(alpha[r.Intn(len(alpha))]), &rx.Node{Kind: rx.KEOI})
				s.Tags["eoi"] = true
			default:
				re = rx.Ch(alpha[r.Intn(len(alpha))])
			}
			if rx.Nullable(re, s.Defs) && try < 10 {
				continue
			}
			break
		}
		tok := 1 + r.Intn(31)
		if r.Intn(40) == 0 {
			tok = 32 + r.Intn(8)
		}
		prec := 0
		switch r.Intn(3) {
		case 0:
			prec = nRules - i
		case 1:
			prec = r.Intn(3) - 1
		}
		s.Rules = append(s.Rules, rx.Rule{RE: re, Prec: prec, Action: tok, SCs: []int{0}})
	}
	lxSpell(r, s)
	return s
}

func c24Inputs(r *rand.Rand, s *lxSet, nRandom int) []string {
	sm := &rx.Sampler{R: r, Mode: s.Mode, Defs: s.Defs}
	pts := map[rune]bool{}
	for _, rule := range s.Rules {
		sm.Points(rule.RE, false, pts, 0)
	}
	all := rx.SortedPoints(pts)
	r.Shuffle(len(all), func(i, j int) { all[i], all[j] = all[j], all[i] })
	var alpha []byte
	seen := map[byte]bool{}
	add := func(b byte) {
		if !seen[b] && len(alpha) < 12 {
			seen[b] = true
			alpha = append(alpha, b)
		}
	}
	// at most 8 from the rules, with both halves represented, then fixed filler
	for _, c := range all {
		if len(alpha) >= 8 {
			break
		}
		add(byte(c))
	}
	for _, b := range []byte{0xc3, 'a', 0x80, 0xff, 0xa9, '0', ' ', 0xbf, 0xe2, 'Z', '\n', 0x7f, 0xf0, 0x9f, 0x98} {
		add(b)
	}
	var out []string
	var rec func(cur []byte)
	rec = func(cur []byte) {
		out = append(out, string(cur))
		if len(cur) == 3 {
			return
		}
		for _, b := range alpha {
			rec(append(cur[:len(cur):len(cur)], b))
		}
	}
	rec(nil)
	var sents []string
	for k := 0; k < 3; k++ {
		for _, rule := range s.Rules {
			var b strings.Builder
			if sm.Sentence(&b, rule.RE, false, 0) && b.Len() > 0 && b.Len() < 100 {
				sents = append(sents, b.String())
			}
		}
	}
	for _, t := range sents {
		out = append(out, t, t+string(alpha[r.Intn(len(alpha))]), t+t)
	}
	for i := 0; i < nRandom; i++ {
		n := 4 + r.Intn(37)
		var b []byte
		for len(b) < n {
			switch {
			case len(sents) > 0 && r.Intn(5) == 0:
				b = append(b, sents[r.Intn(len(sents))]...)
			case r.Intn(10) == 0:
				b = append(b, byte(r.Intn(256)))
			default:
				b = append(b, alpha[r.Intn(len(alpha))])
			}
		}
		out = append(out, string(b))
	}
	return out
}

func c24RuleSet(c *fw.Ctx, r *rand.Rand, nRandom int) {
	s := c24GenSet(r)
	desc := s.describe()
	files := map[string]string{"rules.txt": desc}
	c.Note(files)
	c.Count("rulesets", 1)
	rules, perr := lxBuild(s)
	if perr != nil {
		c.Violate("parse/valid-pattern-rejected/"+fw.Skeleton(perr.Error()), perr.Error()+"\n"+desc, files)
		return
	}
	var tables *lex.Tables
	var cerr error
	// shiftdfa.Compile builds its tables without backtracking; Pack itself takes any
	// tables, so a quarter of the sets is handed to it with backtracking allowed.
	allowBT := r.Intn(4) == 0
	if !c.Guard("compile", files, func() { tables, cerr = lex.Compile(rules, true, allowBT) }) {
		return
	}
	// the public entry point, given the same rules
	var srules []shiftdfa.Rule
	for i, rule := range s.Rules {
		srules = append(srules, shiftdfa.Rule{Pattern: s.Pats[i], Token: rule.Action, Precedence: rule.Prec})
	}
	opts := shiftdfa.Options{Patterns: map[string]string{}}
	for _, n := range s.DefNames {
		opts.Patterns[n] = s.DefPats[n]
	}
	var viaCompile *shiftdfa.Scanner
	var err2 error
	if !c.Guard("shiftdfa-compile", files, func() { viaCompile, err2 = shiftdfa.Compile(srules, opts) }) {
		return
	}
	if cerr != nil {
		c.Count("lex_compile_rejected", 1)
		if err2 == nil {
			c.Violate("compile-disagreement/lex-rejects-shiftdfa-accepts", fmt.Sprintf("lex.Compile: %v\nshiftdfa.Compile: ok\n%s", cerr, desc), files)
		}
		return
	}
	highSplit := false
	for _, e := range tables.SymbolMap {
		if e.Start > 0x80 {
			highSplit = true
		}
	}
	if highSplit {
		c.Count("rulesets_distinguishing_bytes_above_0x80", 1)
	} else {
		c.Count("rulesets_not_distinguishing_bytes_above_0x80", 1)
	}
	var packed *shiftdfa.Scanner
	var err1 error
	if !c.Guard("pack", files, func() { packed, err1 = shiftdfa.Pack(tables) }) {
		return
	}
	withBT := len(tables.Backtrack) > 0
	if withBT {
		c.Count("tables_with_backtracking_offered_to_pack", 1)
	}
	if (err1 == nil) != (err2 == nil) && !withBT {
		c.Violate("compile-disagreement/pack-vs-compile", fmt.Sprintf("shiftdfa.Pack(tables): %v\nshiftdfa.Compile(rules): %v\n%s", err1, err2, desc), files)
		return
	}
	if err1 != nil {
		c.Count("pack_rejected", 1)
		c.Count("pack_rejected/"+fw.Skeleton(err1.Error()), 1)
		return
	}
	c.Count("packed_ok", 1)
	if highSplit {
		c.Count("packed_rulesets_distinguishing_bytes_above_0x80", 1)
	} else {
		c.Count("packed_rulesets_ascii_only_distinctions", 1)
	}
	model := rx.NewLexer(s.Mode, s.Rules, s.Defs)
	inputs := c24Inputs(r, s, nRandom)
	outcomes := map[int]bool{}
	reported := map[string]bool{}
	for _, in := range inputs {
		wsize, waction := tables.Scan(0, in)
		c.Eval(1)
		hasHigh := false
		for i := 0; i < len(in); i++ {
			if in[i] >= 0x80 {
				hasHigh = true
			}
		}
		if hasHigh {
			c.Count("inputs_with_bytes_above_0x7f", 1)
		}
		outcomes[waction] = true
		for which, sc := range []*shiftdfa.Scanner{packed, viaCompile} {
			if sc == nil {
				continue
			}
			gsize, gtok := sc.Scan(in)
			if gsize == wsize && int(gtok) == waction {
				continue
			}
			// classify from the observation
			upto := wsize
			if gsize > upto {
				upto = gsize
			}
			if upto < len(in) {
				upto++
			}
			sawHigh := false
			for i := 0; i < upto; i++ {
				if in[i] >= 0x80 {
					sawHigh = true
				}
			}
			var sig string
			switch {
			case highSplit && sawHigh:
				sig = "scan-mismatch/byte-above-0x7f-consumed/tables-distinguish-bytes-above-0x80"
			case sawHigh:
				sig = "scan-mismatch/byte-above-0x7f-consumed/tables-do-not-distinguish-high-bytes"
			default:
				sig = "scan-mismatch/ascii-input"
			}
			if gsize == wsize {
				sig += "/token-differs"
			} else {
				sig += "/size-differs"
			}
			if reported[sig] {
				c.Count("further_mismatches_same_ruleset", 1)
				continue
			}
			reported[sig] = true
			m := model.Scan(0, in)
			mAction := 0
			if m.Rule >= 0 {
				mAction = s.Rules[m.Rule].Action
			}
			c.Violate(sig, fmt.Sprintf("input %q:\n  shiftdfa scanner (%s) = (size %d, token %d)\n  lex.Tables.Scan        = (size %d, action %d)\n  reference model        = (size %d, action %d)\n  symbol map: %v\n%s",
				in, []string{"Pack(tables)", "Compile(rules)"}[which], gsize, gtok, wsize, waction, m.Size, mAction, tables.SymbolMap, desc),
				map[string]string{"rules.txt": desc, "input.bin": in})
		}
	}
	if len(outcomes) >= 2 {
		c.Distinct(desc)
	}
	if r.Intn(50) == 0 {
		c.Sample(map[string]any{"rules": desc, "inputs": len(inputs)})
	}
}

func init() {
	fw.Register(&fw.Check{
		ID: "C24",
		Rule: "a case is a batch of small byte-mode rule sets (1-4 rules: short literals incl. characters of 2-4 UTF-8 bytes, byte classes incl. ranges inside 0x80-0xff, class+, identifier shapes, (?i) groups, a named fragment, " +
			"now and then {eoi} or a token above 31), compiled by lex.Compile(scanBytes, no backtracking) and packed by shiftdfa.Pack; shiftdfa.Compile on the same rule texts must agree about acceptance. " +
			"For accepted sets both scanners are compared with Tables.Scan(0, s) on all byte strings up to length 3 over a 12-byte alphabet (class boundary bytes of the rules + fixed ASCII/high filler), " +
			"sentences of the rules and random byte strings to length 40. A rule set is non-trivial when it was packed and its inputs produced at least two different tokens",
		Assumptions: []string{"both sides are repository code: the property is their agreement; the lexer-table side is judged independently by C09 (the reference model's opinion is only printed in reports)"},
		Cases: func(tier string) int {
			if tier == "thorough" {
				return 1600
			}
			return 96
		},
		Run: func(c *fw.Ctx) {
			n, nr := 32, 120
			if c.Tier == "thorough" {
				n, nr = 50, 300
			}
			for i := 0; i < n; i++ {
				c24RuleSet(c, c.SubRand(i), nr)
			}
		},
		MinNontrivial: func(tier string) int {
			if tier == "thorough" {
				return 8000
			}
			return 300
		},
		RequiredCounters: []string{"packed_ok", "pack_rejected", "rulesets_distinguishing_bytes_above_0x80", "packed_rulesets_ascii_only_distinctions", "inputs_with_bytes_above_0x7f"},
	})
}
