package checks

import (
	"fmt"
	"os"
	"path/filepath"
	"strings"

	"github.com/inspirer/textmapper/grammar"

	"verif/internal/fw"
	"verif/internal/genrun"
)

// C30 – the Bison export describes the grammar the generated parser was built from.
//
// Oracle: the grammar model handed to the LALR generator (grammar.Parser.Rules as
// lalr.Rule{LHS, RHS, Precedence} and grammar.Parser.Prec) is rendered into the
// list of productions / precedence declarations a Bison file has to contain, and
// compared with what a small independent reader finds in the written <name>.y. The
// template itself prints rules from a different source (the syntax expressions
// Rule.Value), so the two sides share nothing but the symbol table.

// ---------------------------------------------------------------------------
// reader

type yRule struct {
	lhs  string
	rhs  []string // symbol names; state markers as ".name"
	prec string
	line int
}

type yPrec struct {
	assoc string
	syms  []string
}

type yFile struct {
	starts []string // "name" or "name no-eoi"
	prec   []yPrec
	tokens []string
	rules  []yRule
}

type yTok struct {
	text string
	line int
}

// yTokenize splits the rules section into tokens: words (anything between white
// space, ':' '|' ';' being tokens of their own when they stand alone), markers
// "/*.name*/" (returned as ".name"); other comments and brace-delimited action code
// are skipped. Inside braces Go string, rune and raw string literals and comments
// are honoured so that a brace in a literal does not end the action.
func yTokenize(s string, firstLine int) ([]yTok, error) {
	var toks []yTok
	line := firstLine
	i := 0
	for i < len(s) {
		c := s[i]
		switch {
		case c == '\n':
			line++
			i++
		case c == ' ' || c == '\t' || c == '\r':
			i++
		case strings.HasPrefix(s[i:], "//"):
			for i < len(s) && s[i] != '\n' {
				i++
			}
		case strings.HasPrefix(s[i:], "/*"):
			e := strings.Index(s[i+2:], "*/")
			if e < 0 {
				return nil, fmt.Errorf("line %d: unterminated comment", line)
			}
			body := s[i+2 : i+2+e]
			if strings.HasPrefix(body, ".") && !strings.ContainsAny(body, " \t\n") {
				toks = append(toks, yTok{body, line})
			}
			line += strings.Count(body, "\n")
			i += e + 4
		case c == '{':
			depth := 0
			start := line
			for i < len(s) {
				switch {
				case s[i] == '\n':
					line++
					i++
				case s[i] == '{':
					depth++
					i++
				case s[i] == '}':
					depth--
					i++
				case s[i] == '"' || s[i] == '\'':
					q := s[i]
					i++
					for i < len(s) && s[i] != q && s[i] != '\n' {
						if s[i] == '\\' {
							i++
						}
						i++
					}
					i++
				case s[i] == '`':
					i++
					for i < len(s) && s[i] != '`' {
						if s[i] == '\n' {
							line++
						}
						i++
					}
					i++
				case strings.HasPrefix(s[i:], "//"):
					for i < len(s) && s[i] != '\n' {
						i++
					}
				case strings.HasPrefix(s[i:], "/*"):
					e := strings.Index(s[i+2:], "*/")
					if e < 0 {
						return nil, fmt.Errorf("line %d: unterminated comment in action", line)
					}
					line += strings.Count(s[i:i+e+4], "\n")
					i += e + 4
				default:
					i++
				}
				if depth == 0 {
					break
				}
			}
			if depth != 0 {
				return nil, fmt.Errorf("line %d: unbalanced braces in action", start)
			}
		default:
			j := i
			for j < len(s) && !strings.ContainsRune(" \t\r\n", rune(s[j])) && s[j] != '{' && !strings.HasPrefix(s[j:], "/*") {
				j++
			}
			toks = append(toks, yTok{s[i:j], line})
			i = j
		}
	}
	return toks, nil
}

// readBison parses the exported file.
func readBison(text string) (*yFile, error) {
	parts := strings.Split(text, "\n%%\n")
	if len(parts) < 2 {
		return nil, fmt.Errorf("no %%%% section separator")
	}
	y := &yFile{}
	for ln, l := range strings.Split(parts[0], "\n") {
		f := strings.Fields(l)
		if len(f) == 0 {
			continue
		}
		switch f[0] {
		case "%{", "%}":
		case "%start":
			if len(f) < 2 {
				return nil, fmt.Errorf("line %d: %%start without a symbol", ln+1)
			}
			s := f[1]
			if strings.Contains(l, "// no-eoi") {
				s += " no-eoi"
			}
			y.starts = append(y.starts, s)
		case "%left", "%right", "%nonassoc":
			y.prec = append(y.prec, yPrec{assoc: f[0][1:], syms: f[1:]})
		case "%token":
			y.tokens = append(y.tokens, f[1:]...)
		default:
			return nil, fmt.Errorf("line %d: unexpected declaration %q", ln+1, l)
		}
	}
	firstLine := strings.Count(parts[0], "\n") + 3
	body := parts[1]
	if len(parts) > 2 {
		// a trailing "%%" line ends the rules section; anything after it is epilogue
	} else if i := strings.LastIndex(body, "\n%%"); i >= 0 && strings.TrimSpace(body[i+3:]) == "" {
		body = body[:i]
	}
	toks, err := yTokenize(body, firstLine)
	if err != nil {
		return nil, err
	}
	i := 0
	for i < len(toks) {
		lhs := toks[i]
		if i+1 >= len(toks) || toks[i+1].text != ":" {
			return nil, fmt.Errorf("line %d: expected '<nonterminal> :' (found %q)", lhs.line, lhs.text)
		}
		i += 2
		cur := yRule{lhs: lhs.text, line: lhs.line}
		sawEmpty := false
		flush := func() error {
			if sawEmpty && len(cur.rhs) > 0 {
				return fmt.Errorf("line %d: %%empty in a non-empty alternative", cur.line)
			}
			y.rules = append(y.rules, cur)
			return nil
		}
		done := false
		for i < len(toks) && !done {
			t := toks[i]
			i++
			switch t.text {
			case "|":
				if err := flush(); err != nil {
					return nil, err
				}
				cur = yRule{lhs: lhs.text, line: t.line}
				sawEmpty = false
			case ";":
				if err := flush(); err != nil {
					return nil, err
				}
				done = true
			case "%empty":
				sawEmpty = true
			case "%prec":
				if i >= len(toks) {
					return nil, fmt.Errorf("line %d: %%prec without a symbol", t.line)
				}
				if cur.prec != "" {
					return nil, fmt.Errorf("line %d: second %%prec", t.line)
				}
				cur.prec = toks[i].text
				i++
			case ":":
				return nil, fmt.Errorf("line %d: unexpected ':' (missing ';' before %q?)", t.line, cur.rhs)
			default:
				if cur.prec != "" {
					return nil, fmt.Errorf("line %d: symbol %q after %%prec", t.line, t.text)
				}
				cur.rhs = append(cur.rhs, t.text)
			}
		}
		if !done {
			return nil, fmt.Errorf("line %d: rules of %s are not terminated by ';'", lhs.line, lhs.text)
		}
	}
	return y, nil
}

// ---------------------------------------------------------------------------
// expectation from the grammar model

func c30SymName(g *grammar.Grammar, s int) string {
	if s < g.NumTokens {
		return g.Syms[s].ID
	}
	return g.Syms[s].Name
}

func c30Expected(g *grammar.Grammar) *yFile {
	y := &yFile{}
	p := g.Parser
	for _, in := range p.Inputs {
		s := p.Nonterms[in.Nonterm].Name
		if in.NoEoi {
			s += " no-eoi"
		}
		y.starts = append(y.starts, s)
	}
	inPrec := map[int]bool{}
	for _, pr := range p.Prec {
		yp := yPrec{}
		switch int(pr.Associativity) {
		case 0:
			yp.assoc = "left"
		case 1:
			yp.assoc = "right"
		case 2:
			yp.assoc = "nonassoc"
		default:
			yp.assoc = fmt.Sprintf("assoc(%d)", pr.Associativity)
		}
		for _, t := range pr.Terminals {
			yp.syms = append(yp.syms, c30SymName(g, int(t)))
			inPrec[int(t)] = true
		}
		y.prec = append(y.prec, yp)
	}
	for i := 1; i < g.NumTokens; i++ { // 0 is the end-of-input token, implicit in Bison
		if !inPrec[i] {
			y.tokens = append(y.tokens, g.Syms[i].ID)
		}
	}
	for _, r := range p.Rules {
		yr := yRule{lhs: c30SymName(g, int(r.LHS))}
		for _, s := range r.RHS {
			if s.IsStateMarker() {
				yr.rhs = append(yr.rhs, "."+p.Tables.Markers[s.AsMarker()].Name)
			} else {
				yr.rhs = append(yr.rhs, c30SymName(g, int(s)))
			}
		}
		if r.Precedence > 0 {
			yr.prec = c30SymName(g, int(r.Precedence))
		}
		y.rules = append(y.rules, yr)
	}
	return y
}

func ruleString(r yRule) string {
	s := r.lhs + " :"
	if len(r.rhs) == 0 {
		s += " %empty"
	}
	for _, x := range r.rhs {
		s += " " + x
	}
	if r.prec != "" {
		s += " %prec " + r.prec
	}
	return s
}

func sameStrings(a, b []string) bool {
	if len(a) != len(b) {
		return false
	}
	for i := range a {
		if a[i] != b[i] {
			return false
		}
	}
	return true
}

// c30Compare reports the differences between the exported file and the model.
func c30Compare(c *fw.Ctx, g *grammar.Grammar, want, got *yFile, desc string, files map[string]string) (clean bool) {
	clean = true
	viol := func(sig, detail string) {
		clean = false
		c.Violate(sig, detail+"\n"+desc, files)
	}
	// rules
	midrule := func(name string) bool { return strings.Contains(name, "$") }
	n := len(want.rules)
	if len(got.rules) < n {
		n = len(got.rules)
	}
	reported := false
	for i := 0; i < n && !reported; i++ {
		w, gt := want.rules[i], got.rules[i]
		if ruleString(w) == ruleString(gt) {
			c.Count("rules_compared_equal", 1)
			continue
		}
		reported = true
		switch {
		case w.lhs != gt.lhs:
			viol("rules/lhs-differs", fmt.Sprintf("rule #%d: the parser was built from\n    %s\nbut the Bison file (line %d) lists\n    %s", i, ruleString(w), gt.line, ruleString(gt)))
		case !sameStrings(w.rhs, gt.rhs):
			kind := "rhs-differs"
			// classify the common shapes
			var wNoMid []string
			for _, s := range w.rhs {
				if !midrule(s) {
					wNoMid = append(wNoMid, s)
				}
			}
			var wNoMarker []string
			for _, s := range w.rhs {
				if !strings.HasPrefix(s, ".") {
					wNoMarker = append(wNoMarker, s)
				}
			}
			switch {
			case sameStrings(wNoMid, gt.rhs):
				kind = "rhs-lacks-extracted-nonterminal"
			case sameStrings(wNoMarker, gt.rhs):
				kind = "rhs-lacks-state-marker"
			case len(w.rhs) != len(gt.rhs):
				kind = "rhs-length-differs"
			}
			viol("rules/"+kind, fmt.Sprintf("rule #%d: the parser was built from\n    %s\nbut the Bison file (line %d) lists\n    %s", i, ruleString(w), gt.line, ruleString(gt)))
		default:
			kind := "prec-differs"
			if w.prec == "" {
				kind = "prec-unexpected"
			} else if gt.prec == "" {
				kind = "prec-missing"
			}
			viol("rules/"+kind, fmt.Sprintf("rule #%d: the parser was built from\n    %s\nbut the Bison file (line %d) lists\n    %s", i, ruleString(w), gt.line, ruleString(gt)))
		}
	}
	if !reported && len(want.rules) != len(got.rules) {
		if len(got.rules) < len(want.rules) {
			viol("rules/missing-at-end", fmt.Sprintf("the Bison file lists %d rules, the parser has %d; first missing: %s", len(got.rules), len(want.rules), ruleString(want.rules[n])))
		} else {
			viol("rules/extra-at-end", fmt.Sprintf("the Bison file lists %d rules, the parser has %d; first extra (line %d): %s", len(got.rules), len(want.rules), got.rules[n].line, ruleString(got.rules[n])))
		}
	}
	// precedence declarations, in order (later = higher)
	np := len(want.prec)
	if len(got.prec) != np {
		viol("prec/group-count-differs", fmt.Sprintf("%d precedence declarations in the Bison file, %d in the grammar", len(got.prec), np))
	} else {
		for i := 0; i < np; i++ {
			w, gt := want.prec[i], got.prec[i]
			c.Count("prec_groups_compared", 1)
			if w.assoc != gt.assoc {
				viol("prec/associativity-differs", fmt.Sprintf("precedence level %d: want %%%s %v, file has %%%s %v", i, w.assoc, w.syms, gt.assoc, gt.syms))
				break
			}
			if !sameStrings(w.syms, gt.syms) {
				viol("prec/terminals-differ", fmt.Sprintf("precedence level %d: want %%%s %v, file has %%%s %v", i, w.assoc, w.syms, gt.assoc, gt.syms))
				break
			}
		}
	}
	// tokens without precedence: each once
	if !sameStrings(want.tokens, got.tokens) {
		seen := map[string]int{}
		for _, t := range got.tokens {
			seen[t]++
		}
		kind := "tokens/order-differs"
		for _, t := range want.tokens {
			if seen[t] == 0 {
				kind = "tokens/missing"
			}
		}
		for _, t := range got.tokens {
			if seen[t] > 1 {
				kind = "tokens/duplicate"
			}
		}
		if len(got.tokens) > len(want.tokens) && kind == "tokens/order-differs" {
			kind = "tokens/unexpected"
		}
		viol(kind, fmt.Sprintf("%%token declarations: want %v\nfile has %v", want.tokens, got.tokens))
	} else {
		c.Count("token_declarations_compared", int64(len(want.tokens)))
	}
	// start symbols
	if !sameStrings(want.starts, got.starts) {
		viol("start/differs", fmt.Sprintf("%%start declarations: want %v, file has %v", want.starts, got.starts))
	}
	return clean
}

// c30Judge checks one generated package that has a .y file.
func c30Judge(c *fw.Ctx, p *genrun.Pkg, optDesc string) {
	g := p.G
	name := g.Name + ".y"
	text, ok := p.Files[name]
	files := map[string]string{"grammar.tm": p.Text, name: text}
	if !ok {
		var written []string
		written = append(written, p.Order...)
		c.Violate("no-y-file", fmt.Sprintf("writeBison = true but %s was not written; files: %v\n%s", name, written, optDesc), files)
		return
	}
	c.Eval(1)
	got, err := readBison(text)
	if err != nil {
		what := stripLinePrefix(err.Error())
		if i := strings.Index(what, " (found "); i >= 0 {
			what = what[:i] // the offending text goes into the detail only
		}
		c.Violate("unreadable/"+fw.Skeleton(what), "the exported Bison file cannot be read: "+err.Error()+"\n"+optDesc, files)
		return
	}
	if g.Parser == nil || g.Parser.Tables == nil {
		// lexer-only grammar: no rules, no precedence
		c.Count("lexer_only_exports", 1)
		if len(got.rules) != 0 || len(got.prec) != 0 {
			c.Violate("lexer-only/has-rules", fmt.Sprintf("no parser was generated but the Bison file lists %d rules\n%s", len(got.rules), optDesc), files)
		}
		return
	}
	want := c30Expected(g)
	c.Count("rules_expected", int64(len(want.rules)))
	for _, r := range want.rules {
		if r.prec != "" {
			c.Count("rules_with_prec", 1)
		}
		for _, s := range r.rhs {
			if strings.HasPrefix(s, ".") {
				c.Count("rhs_state_markers", 1)
			}
			if strings.Contains(s, "$") {
				c.Count("rhs_extracted_nonterminals", 1)
			}
			if strings.HasPrefix(s, "lookahead_") {
				c.Count("rhs_lookahead_nonterminals", 1)
			}
		}
		if len(r.rhs) == 0 {
			c.Count("empty_rules", 1)
			if r.prec != "" {
				c.Count("empty_rules_with_prec", 1)
			}
		}
	}
	if len(want.prec) > 0 {
		c.Count("grammars_with_precedence", 1)
	}
	if c30Compare(c, g, want, got, optDesc, files) {
		c.Count("exports_matching", 1)
	}
	last := ""
	if n := len(want.rules); n > 0 {
		last = ruleString(want.rules[n-1])
	}
	c.Sample(map[string]any{"grammar": g.Name, "rules": len(want.rules), "precedence_groups": len(want.prec), "last_rule": last, "what": firstLine(optDesc)})
	c.Distinct(fmt.Sprintf("%x/%d/%d", fnvString(text), len(want.rules), len(want.prec)))
}

func stripLinePrefix(s string) string {
	if strings.HasPrefix(s, "line ") {
		if i := strings.Index(s, ": "); i >= 0 {
			return s[i+2:]
		}
	}
	return s
}

func c30Repo() string {
	if v := os.Getenv("VERIF_REPO"); v != "" {
		return v
	}
	return "/repo"
}

func c30PerCase(tier string) int {
	if tier == "thorough" {
		return 25
	}
	return 15
}

func c30Run(c *fw.Ctx) {
	if c.Case == 0 {
		// the shipped grammars with writeBison, regenerated in-process
		for _, rel := range []string{"parsers/test/test.tm", "parsers/tm/textmapper.tm", "parsers/js/js.tm"} {
			path := filepath.Join(c30Repo(), rel)
			b, err := os.ReadFile(path)
			if err != nil {
				c.Violate("harness/read-shipped-grammar", err.Error(), nil)
				continue
			}
			c.Note(map[string]string{"grammar.tm": string(b)})
			pkg, cerr, gerr := genrun.GenerateNamed(filepath.Base(rel), filepath.Base(rel), string(b))
			if cerr != nil || gerr != nil {
				c.Violate("shipped-grammar-does-not-generate", fmt.Sprintf("%s: compile: %v generate: %v", rel, cerr, gerr), nil)
				continue
			}
			c.Count("shipped_grammars", 1)
			c30Judge(c, pkg, "shipped grammar "+rel)
		}
		return
	}
	per := c30PerCase(c.Tier)
	for j := 0; j < per; j++ {
		t := (c.Case-1)*per + j
		name := fmt.Sprintf("b%04d", t)
		force := map[string]bool{"writeBison": true}
		if j%5 != 4 {
			force["genParser"] = true // lexer-only exports are boring: one in five vectors may have them
		}
		p := c17Generate(c, j, t, name, "nocompile:", force)
		if p == nil {
			continue
		}
		for _, f := range p.g.Features {
			c.Count("feat:"+f, 1)
		}
		c30Judge(c, p.pkg, "options: "+c17VecString(p.vec)+"\nfeatures: "+strings.Join(p.g.Features, ","))
	}
}

func init() {
	fw.Register(&fw.Check{
		ID:   "C30",
		Rule: "case 0: the three shipped grammars with writeBison (test, tm, js) regenerated in-process; other cases: batches of featgram grammars (mid-rule actions, lookahead nonterminals, sets, lists, templates, %prec, state markers, several inputs) under C17's option vectors with writeBison forced on. For each, the written <name>.y is read by an independent reader and compared with the productions (LHS, RHS symbols, %prec) in order and the precedence groups in order of the grammar model the LALR tables were built from, plus %token/%start declarations. Non-trivial = an export with at least one rule compared; distinct = distinct (export text hash, rule count, precedence group count)",
		Assumptions: []string{
			"grammar.Parser.Rules / Parser.Prec are what lalr.Compile received (they are copied verbatim into lalr.Grammar in compiler.generateTables)",
			"terminals are written by their generated IDs and nonterminals by their (instantiated) names, as the shipped .y files do",
		},
		Cases: func(tier string) int {
			if tier == "thorough" {
				return 101
			}
			return 11
		},
		MinNontrivial: func(tier string) int {
			if tier == "thorough" {
				return 1000
			}
			return 60
		},
		RequiredCounters: []string{"shipped_grammars", "rules_compared_equal", "prec_groups_compared", "rules_with_prec", "rhs_state_markers",
			"rhs_lookahead_nonterminals", "empty_rules", "empty_rules_with_prec", "exports_matching", "token_declarations_compared"},
		CPUBudget: 900,
		Run:       c30Run,
	})
}
