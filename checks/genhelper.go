package checks

import (
	"fmt"
	"os"
	"strconv"
	"strings"

	"verif/internal/genrun"
)

// Generation helper mode. C17 and C18 need compile+generate runs in *other*
// processes (crash isolation per grammar; different GOMAXPROCS / GOGC). The vcheck
// binary doubles as that helper: when VERIF_GENHELPER_LIST is set, the process
// prints the write transcript of the listed grammar files and exits before main
// runs. This keeps the helper built against exactly the same /repo tree as the
// check itself (also under tools/mutrun.sh). cmd/vgen is the same thing as a
// standalone tool.
func init() {
	list := os.Getenv(genrun.HelperEnv)
	if list == "" {
		return
	}
	b, err := os.ReadFile(list)
	if err != nil {
		fmt.Fprintln(os.Stderr, "genhelper:", err)
		os.Exit(3)
	}
	rep, _ := strconv.Atoi(os.Getenv("VERIF_GENHELPER_REP"))
	if rep < 1 {
		rep = 1
	}
	var paths []string
	for _, l := range strings.Split(string(b), "\n") {
		if l != "" {
			paths = append(paths, l)
		}
	}
	if err := genrun.Transcript(os.Stdout, paths, rep, ""); err != nil {
		fmt.Fprintln(os.Stderr, "genhelper:", err)
		os.Exit(3)
	}
	os.Exit(0)
}
