language i_tokenstream_no_tokenline(go);

lang = "i_tokenstream_no_tokenline"
package = "w/i_tokenstream_no_tokenline"
eventBased = true
tokenStream = true
tokenLine = false

:: lexer

space: /[ \t\r\n]+/ (space)
'x': /x/
'y': /y/

:: parser

input -> File : 'x' 'y' ;
