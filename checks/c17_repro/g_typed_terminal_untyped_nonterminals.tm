language g_typed_terminal_untyped_nonterminals(go);

lang = "g_typed_terminal_untyped_nonterminals"
package = "w/g_typed_terminal_untyped_nonterminals"
eventBased = true

:: lexer

space: /[ \t\r\n]+/ (space)
'x': /x/
num {int}: /[0-9]+/ { $$ = 1 }

:: parser

input -> File : 'x' num { _ = $num } ;
