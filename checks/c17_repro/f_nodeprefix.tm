language f_nodeprefix(go);

lang = "f_nodeprefix"
package = "w/f_nodeprefix"
eventBased = true
nodePrefix = "Nd"

:: lexer

space: /[ \t\r\n]+/ (space)
'x': /x/
'y': /y/

:: parser

input -> File : 'x' 'y' ;
