language p_tokenstream_cancellablefetch_lookahead(go);

lang = "p_tokenstream_cancellablefetch_lookahead"
package = "w/p_tokenstream_cancellablefetch_lookahead"
eventBased = true
tokenStream = true
cancellable = true
cancellableFetch = true

:: lexer

space: /[ \t\r\n]+/ (space)
'x': /x/
'y': /y/

:: parser

input -> File : 'x' (?= la) 'y' | 'x' (?= !la) 'y' 'y' ;
la : 'y' 'y' ;
