language m_hyphen_lookahead(go);

lang = "m_hyphen_lookahead"
package = "w/m_hyphen_lookahead"
eventBased = true

:: lexer

space: /[ \t\r\n]+/ (space)
'x': /x/
'y': /y/

:: parser

input -> File : 'x' (?= la-x) 'y' | 'x' (?= !la-x) 'y' 'y' ;
la-x : 'y' 'y' ;
