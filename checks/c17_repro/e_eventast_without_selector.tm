language e_eventast_without_selector(go);

lang = "e_eventast_without_selector"
package = "w/e_eventast_without_selector"
eventBased = true
eventAST = true

:: lexer

space: /[ \t\r\n]+/ (space)
'x': /x/
'y': /y/

:: parser

input -> File : 'x' 'y' ;
