language q_unused_templates_and_action(go);

lang = "q_unused_templates_and_action"
package = "w/q_unused_templates_and_action"
eventBased = true

:: lexer

space: /[ \t\r\n]+/ (space)
'x': /x/
'y': /y/

:: parser

%input b;
%flag M = false;
d<M>: ;
k<M>: ;
la: ;
b: la { } ;
