language j_not_eventbased(go);

lang = "j_not_eventbased"
package = "w/j_not_eventbased"


:: lexer

space: /[ \t\r\n]+/ (space)
'x': /x/
'y': /y/

:: parser

input : 'x' 'y' ;
