language j2_not_eventbased_tokenstream(go);

lang = "j2_not_eventbased_tokenstream"
package = "w/j2_not_eventbased_tokenstream"
tokenStream = true

:: lexer

space: /[ \t\r\n]+/ (space)
'x': /x/
'y': /y/

:: parser

input : 'x' 'y' ;
