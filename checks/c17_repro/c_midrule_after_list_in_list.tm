language c_midrule_after_list_in_list(go);

lang = "c_midrule_after_list_in_list"
package = "w/c_midrule_after_list_in_list"
eventBased = true

:: lexer

space: /[ \t\r\n]+/ (space)
'x': /x/
'y': /y/

:: parser

input : ('x'+ { } 'y')+ ;
