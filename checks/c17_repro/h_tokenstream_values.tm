language h_tokenstream_values(go);

lang = "h_tokenstream_values"
package = "w/h_tokenstream_values"
eventBased = true
tokenStream = true

:: lexer

space: /[ \t\r\n]+/ (space)
'x': /x/
'y': /y/

:: parser

input {int} -> File : 'x' 'y' { $$ = 1 } ;
