language a_midrule_bison(go);

lang = "a_midrule_bison"
package = "w/a_midrule_bison"
eventBased = true
writeBison = true

:: lexer

space: /[ \t\r\n]+/ (space)
'x': /x/
'y': /y/

:: parser

input : 'x' { } 'y' ;
