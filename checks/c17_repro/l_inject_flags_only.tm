language l_inject_flags_only(go);

lang = "l_inject_flags_only"
package = "w/l_inject_flags_only"
eventBased = true

:: lexer

space: /[ \t\r\n]+/ (space)
'x': /x/
'y': /y/
comment: /#.*/ (space)

:: parser

%inject comment -> Comment/Fl;
input -> File : 'x' 'y' ;
