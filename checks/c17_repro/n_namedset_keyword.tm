language n_namedset_keyword(go);

lang = "n_namedset_keyword"
package = "w/n_namedset_keyword"
eventBased = true

:: lexer

space: /[ \t\r\n]+/ (space)
'x': /x/
'y': /y/

:: parser

%generate type = set(first input);
input -> File : 'x' 'y' ;
