language k_eventast_nodeflags(go);

lang = "k_eventast_nodeflags"
package = "w/k_eventast_nodeflags"
eventBased = true
eventAST = true
genSelector = true

:: lexer

space: /[ \t\r\n]+/ (space)
'x': /x/
'y': /y/

:: parser

input -> File : 'x' ('y' -> Y/Fl) ;
