language o_underscore_injected_token(go);

lang = "o_underscore_injected_token"
package = "w/o_underscore_injected_token"
eventBased = true

:: lexer

space: /[ \t\r\n]+/ (space)
'x': /x/
'y': /y/
_c: /#.*/ (space)

:: parser

%inject _c -> Comment;
input -> File : 'x' 'y' ;
