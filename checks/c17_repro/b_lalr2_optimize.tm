language b_lalr2_optimize(go);

lang = "b_lalr2_optimize"
package = "w/b_lalr2_optimize"
eventBased = true
optimizeTables = true

:: lexer

'x': /x/
'y': /y/
'z': /z/

:: parser lalr(2)

input : 'x' A 'z' 'y' | 'x' B 'z' ;
A : 'z' ;
B : 'z' ;
