package checks

import (
	"fmt"
	"math/rand"
	"strings"
	"unicode/utf8"

	"verif/internal/fw"
	"verif/internal/genrun"
	"verif/internal/rx"
)

// C11 – generated Go lexers tokenize exactly as the lexer rules specify.
//
// Random lexer sections (internal/rx ASTs) go through the whole chain
// compiler.Compile -> gen.Generate -> go build -> run; the observed
// Next()/Pos()/Line()/Column() stream is compared with the token stream predicted
// by the lexer model of internal/rx.

var c11Words = []string{"if", "else", "for", "a", "ab", "x1", "_", "_1", "42", "0", "été", "für", "для", "λ", "naïve", "Ω", "i", "K", "ok", "z9"}

func c11Fits(cl *rx.Node, word string, m rx.Mode, defs rx.Defs) bool {
	lx := rx.NewLexer(m, []rx.Rule{{RE: cl, Action: 2, SCs: []int{0}}}, defs)
	for _, l := range lx.MatchLens(0, word) {
		if l == len(word) {
			return true
		}
	}
	return false
}

// c11Letters returns the items for a-z (or A-Z). In a case-insensitive grammar that has to
// stay below a code point bound, k and s are left out: their case orbits contain U+212A and
// U+017F, which would move the end of the symbol map.
func c11Letters(g *rx.Gen, upper bool) []rx.Item {
	rng := func(lo, hi rune) rx.Item { return rx.Item{Kind: rx.IRange, Lo: lo, Hi: hi} }
	var d rune
	if upper {
		d = 'A' - 'a'
	}
	if g.MaxChar > 0 && g.Mode.Fold && !g.Mode.Bytes {
		return []rx.Item{rng('a'+d, 'j'+d), rng('l'+d, 'r'+d), rng('t'+d, 'z'+d)}
	}
	return []rx.Item{rng('a'+d, 'z'+d)}
}

// c11ClassRE draws the pattern of a (class) rule.
func c11ClassRE(r *rand.Rand, g *rx.Gen, m rx.Mode) *rx.Node {
	rng := func(lo, hi rune) rx.Item { return rx.Item{Kind: rx.IRange, Lo: lo, Hi: hi} }
	ch := func(c rune) rx.Item { return rx.Item{Kind: rx.IChar, Lo: c} }
	items := func(parts ...[]rx.Item) []rx.Item {
		var out []rx.Item
		for _, p := range parts {
			out = append(out, p...)
		}
		return out
	}
	az, AZ := c11Letters(g, false), c11Letters(g, true)
	k := r.Intn(10)
	if g.MaxChar > 0 && k < 8 {
		k = 3 // a bounded grammar reaches its band through the letters of the class rule
	}
	switch {
	case k < 3: // ASCII identifier
		first := &rx.Class{Items: items(az, []rx.Item{ch('_')})}
		rest := &rx.Class{Items: items(az, []rx.Item{rng('0', '9'), ch('_')})}
		if r.Intn(2) == 0 {
			first.Items = append(first.Items, AZ...)
			rest.Items = append(rest.Items, AZ...)
		}
		return rx.Cat(rx.Cls(first), rx.Rep(rx.Cls(rest), 0, -1))
	case k < 7: // letters beyond ASCII
		var c *rx.Class
		if m.Bytes {
			c = &rx.Class{Items: []rx.Item{rng('a', 'z'), rng(0x80, 0xff)}}
			if r.Intn(2) == 0 {
				c.Items = append(c.Items, rng('0', '9'), ch('_'))
			}
		} else if g.MaxChar > 0 {
			// the letters reach into the band of this grammar and not beyond
			c = &rx.Class{Items: items(az)}
			for _, br := range c11BandLetters(g.MaxChar) {
				c.Items = append(c.Items, rng(br[0], br[1]))
			}
			if r.Intn(2) == 0 {
				c.Items = append(c.Items, rng('0', '9'), ch('_'))
			}
		} else {
			c = &rx.Class{Items: []rx.Item{rng('a', 'z'), rng(0xc0, 0xff), rng(0x391, 0x3c9), rng(0x410, 0x44f)}}
			switch r.Intn(3) {
			case 0:
				c.Items = append(c.Items, rng('0', '9'), ch('_'))
			case 1:
				c = &rx.Class{Items: []rx.Item{{Kind: rx.IProp, Name: "L"}, rng('0', '9'), ch('_')}}
			}
		}
		return rx.Rep(rx.Cls(c), 1, -1)
	case k < 8: // digits and underscores as well
		c := &rx.Class{Items: items(az, []rx.Item{rng('0', '9'), ch('_')})}
		return rx.Rep(rx.Cls(c), 1, -1)
	default:
		g.Reset()
		return rx.Cat(rx.Cls(g.Class()), rx.Rep(rx.Cls(g.Class()), 0, -1))
	}
}

// c11Bands are the upper bounds on the code points a grammar may mention, one per
// representation regime of the rune-to-symbol map in generated lexers (flat array below
// 2048 entries, 256-entry array plus compressed ranges above); 0 = no bound.
var c11Bands = []rune{0xff, 0x7ff, 0xfff, 0xffff, 0x10fffe, 0, 0}

func c11BandLetters(max rune) [][2]rune {
	switch {
	case max <= 0xff:
		return [][2]rune{{0xc0, 0xd6}, {0xd8, 0xf6}}
	case max <= 0x7ff:
		return [][2]rune{{0x391, 0x3c9}, {0x410, 0x44f}}
	case max <= 0xfff:
		return [][2]rune{{0xe01, 0xe5b}, {0x905, 0x939}}
	case max <= 0xffff:
		return [][2]rune{{0x3041, 0x3096}, {0x4e00, 0x4e80}}
	}
	return [][2]rune{{0x1f600, 0x1f64f}, {0x10400, 0x1044f}}
}

func c11BandName(lastStart rune) string {
	switch {
	case lastStart < 256:
		return "below-256"
	case lastStart <= 2048:
		return "256-2048"
	case lastStart <= 4096:
		return "2049-4096"
	case lastStart <= 0x10000:
		return "4097-65536"
	}
	return "astral"
}

type c11Gen struct {
	r      *rand.Rand
	g      *rx.LexGrammar
	gen    *rx.Gen
	alpha  []rune
	nTok   int
	prio   int
	simple bool
	plain  bool
}

func (b *c11Gen) tok(prefix string) string {
	b.nTok++
	return fmt.Sprintf("%s%d", prefix, b.nTok)
}

func (b *c11Gen) add(rule rx.LexRule) {
	r := b.r
	if !b.plain && !rule.Class && !rule.Space && rule.Switch < 0 && r.Intn(8) == 0 {
		rule.Code = true
	}
	b.g.Rules = append(b.g.Rules, rule)
}

// c11Grammar draws a lexer section for the given option vector.
func c11Grammar(r *rand.Rand, name string, opts rx.LexOpts, simple bool, band int) *rx.LexGrammar {
	g := &rx.LexGrammar{Name: name, Opts: opts, Defs: rx.Defs{}, States: []rx.LexState{{Name: "initial"}}}
	m := g.Mode()
	alpha := rx.PickAlphabet(r, m)
	keep := alpha[:0]
	for _, c := range alpha {
		// '\n' and ' ' belong to the space rule; the byte-fold trap characters are C10's business
		// U+FEFF: a constant rule with it puts a raw BOM into a comment of token.go, which then
		// does not compile (C17's business)
		if c != '\n' && c != ' ' && c != '\t' && c != 0xfeff && !(m.Bytes && rx.ByteFoldTrap(c)) {
			keep = append(keep, c)
		}
	}
	alpha = append(keep, rune("abxyz"[r.Intn(5)]))
	// rune mode: keep everything the grammar mentions below a bound, so that the symbol map
	// ends in a chosen band (no Unicode categories then)
	var maxChar rune
	if !m.Bytes {
		maxChar = c11Bands[band%len(c11Bands)]
	}
	g.Bound = maxChar
	if maxChar > 0 {
		keep = alpha[:0]
		for _, c := range alpha {
			if c < maxChar && !(m.Fold && strings.ContainsRune("kKsS", c)) {
				keep = append(keep, c)
			}
		}
		alpha = keep
		for _, br := range c11BandLetters(maxChar) {
			alpha = append(alpha, br[0]+rune(r.Intn(int(br[1]-br[0])+1)))
		}
	}
	gen := &rx.Gen{R: r, Mode: m, Alpha: alpha, Defs: g.Defs, Props: !m.Bytes && maxChar == 0 && r.Intn(2) == 0, FoldGroup: r.Intn(6) == 0, MaxRep: 4, ExactOnly: true, PropNames: lxPropNames(), MaxChar: maxChar}
	// tokens without a pattern in front of the rules: token ids then differ from rule numbers
	if r.Intn(2) == 0 {
		names := []string{"error", "invalid_token", "reserved1", "reserved2"}
		r.Shuffle(len(names), func(i, j int) { names[i], names[j] = names[j], names[i] })
		g.Decls = names[:1+r.Intn(2)]
	}
	// plain: no code, no start conditions, one rule per token, so that rule ids are inlined as token ids
	plain := simple || r.Intn(3) == 0
	b := &c11Gen{r: r, g: g, gen: gen, alpha: alpha, simple: simple, plain: plain}
	if !plain {
		switch k := r.Intn(10); {
		case k < 3:
			g.States = append(g.States, rx.LexState{Name: "s1", Exclusive: r.Intn(2) == 0})
		case k < 5:
			g.States = append(g.States, rx.LexState{Name: "s1", Exclusive: r.Intn(2) == 0}, rx.LexState{Name: "s2", Exclusive: r.Intn(2) == 0})
		}
		if r.Intn(3) == 0 {
			for i := 0; i < 1+r.Intn(2); i++ {
				n := fmt.Sprintf("frag%d", i)
				g.Defs[n] = gen.Rule(1 + r.Intn(3))
				if rx.Nullable(g.Defs[n], g.Defs) {
					g.Defs[n] = rx.Ch(alpha[r.Intn(len(alpha))])
				}
				g.DefNames = append(g.DefNames, n)
				gen.Names = append(gen.Names, n)
			}
		}
	}
	var all []int
	for i := range g.States {
		all = append(all, i)
	}
	// white space
	ws := &rx.Class{Items: []rx.Item{{Kind: rx.IChar, Lo: ' '}, {Kind: rx.IChar, Lo: '\n'}}}
	if r.Intn(2) == 0 {
		ws.Items = append(ws.Items, rx.Item{Kind: rx.IChar, Lo: '\t'})
	}
	wsRule := rx.LexRule{Token: b.tok("ws"), RE: rx.Rep(rx.Cls(ws), 1, -1), Space: true, Switch: -1}
	if len(g.States) > 1 && r.Intn(3) != 0 {
		wsRule.SCs = all
	}
	b.add(wsRule)

	// (class) rules with their keywords
	nClass := 1
	if !simple && r.Intn(5) == 0 {
		nClass = 2
	}
	if !simple && r.Intn(10) == 0 {
		nClass = 0
	}
	for ci := 0; ci < nClass; ci++ {
		cre := c11ClassRE(r, gen, m)
		if simple {
			sc := &rx.Class{Items: append(c11Letters(gen, false), rx.Item{Kind: rx.IRange, Lo: '0', Hi: '9'}, rx.Item{Kind: rx.IChar, Lo: '_'})}
			if maxChar > 0 {
				for _, br := range c11BandLetters(maxChar) {
					sc.Items = append(sc.Items, rx.Item{Kind: rx.IRange, Lo: br[0], Hi: br[1]})
				}
			}
			cre = rx.Rep(rx.Cls(sc), 1, -1)
			if m.Bytes {
				cre = rx.Rep(rx.Cls(&rx.Class{Items: []rx.Item{{Kind: rx.IRange, Lo: 'a', Hi: 'z'}, {Kind: rx.IRange, Lo: '0', Hi: '9'}, {Kind: rx.IChar, Lo: '_'}, {Kind: rx.IRange, Lo: 0x80, Hi: 0xff}}}), 1, -1)
			}
		}
		class := rx.LexRule{Token: b.tok("id"), RE: cre, Class: true, Switch: -1}
		if ci == 1 && len(g.States) > 1 {
			class.SCs = []int{1 + r.Intn(len(g.States)-1)}
		}
		if !simple && r.Intn(6) == 0 {
			class.HasPrio, class.Prio = true, -1
		}
		// candidate keywords: fixed words and sentences of the class itself
		cands := append([]string(nil), c11Words...)
		sm := &rx.Sampler{R: r, Mode: m, Defs: g.Defs}
		for k := 0; k < 6; k++ {
			var sb strings.Builder
			if sm.Sentence(&sb, cre, m.Fold, 0) && sb.Len() > 0 && sb.Len() < 12 && utf8.ValidString(sb.String()) {
				cands = append(cands, sb.String())
			}
		}
		r.Shuffle(len(cands), func(i, j int) { cands[i], cands[j] = cands[j], cands[i] })
		var kws []rx.LexRule
		seen := map[string]bool{}
		want := 2 + r.Intn(4)
		// under case folding two keywords that differ in case only would be identical rules
		canon := func(w string) string {
			if !m.Fold {
				return w
			}
			var sb strings.Builder
			for _, c := range w {
				o := rx.Orbit(c, m.Bytes)
				lo := o[0]
				for _, x := range o {
					if x < lo {
						lo = x
					}
				}
				sb.WriteRune(lo)
			}
			return sb.String()
		}
		constants := 0
		for _, w := range cands {
			if len(kws) >= want || seen[canon(w)] || strings.ContainsAny(w, "\n\r/\\ ") {
				continue
			}
			ok := true
			for _, c := range w {
				if c < 0x20 || c == 0x7f || m.Bytes && rx.ByteFoldTrap(c) {
					ok = false
				}
			}
			if !ok || !c11Fits(cre, w, m, g.Defs) {
				continue
			}
			seen[canon(w)] = true
			kw := rx.LexRule{Token: b.tok("kw"), RE: rx.Lit(w), Switch: -1, SCs: class.SCs}
			if _, constant, _ := rx.ConstantValue(kw.RE, m, m.Fold, g.Defs); !constant {
				// case-insensitive letters: not a specialisation, needs to outrank the class
				kw.HasPrio, kw.Prio = true, class.Prio+1
			} else {
				constants++
			}
			kws = append(kws, kw)
		}
		if constants == 0 {
			// a class rule needs at least one specialisation: words without letters stay constant under folding
			for _, w := range []string{"_", "_1", "42", "0", "7_"} {
				if !seen[w] && c11Fits(cre, w, m, g.Defs) {
					kws = append(kws, rx.LexRule{Token: b.tok("kw"), RE: rx.Lit(w), Switch: -1, SCs: class.SCs})
					break
				}
			}
		}
		classFirst := r.Intn(2) == 0
		if classFirst {
			b.add(class)
		}
		for _, kw := range kws {
			b.add(kw)
		}
		if !classFirst {
			b.add(class)
		}
	}

	// other rules
	digits := &rx.Class{Items: []rx.Item{{Kind: rx.IRange, Lo: '0', Hi: '9'}}}
	num := rx.LexRule{Token: b.tok("num"), RE: rx.Rep(rx.Cls(digits), 1, -1), Switch: -1}
	if nClass > 0 {
		// classes usually contain digits as well: numbers win
		num.HasPrio, num.Prio = true, 1
	}
	b.add(num)
	ops := [][]string{{"+", "++", "+="}, {"-", "->", "--"}, {"<", "<=", "<<="}, {".", "...", ".."}, {"(", ")"}, {"=", "==", "=>"}, {"*", "**"}, {":", "::"}}
	fam := ops[r.Intn(len(ops))]
	for _, op := range fam {
		if simple && opts.NonBacktracking && len(op) > 2 {
			continue
		}
		if r.Intn(4) != 0 {
			b.add(rx.LexRule{Token: b.tok("op"), RE: rx.Lit(op), Switch: -1})
		}
	}
	if !opts.NonBacktracking && r.Intn(2) == 0 {
		// a short token and a longer one that starts with it: partial inputs fall back to the short one
		punct := []rune("~^!|")
		p0 := punct[r.Intn(len(punct))]
		long := []rune{p0}
		for k := 2 + r.Intn(2); k > 0; k-- {
			long = append(long, []rune("~^!|=>")[r.Intn(6)])
		}
		b.add(rx.LexRule{Token: b.tok("short"), RE: rx.Ch(p0), Switch: -1})
		b.add(rx.LexRule{Token: b.tok("long"), RE: rx.Lit(string(long)), Switch: -1})
	}
	for _, dn := range g.DefNames {
		// every named pattern is used at least once
		b.prio--
		ref := &rx.Node{Kind: rx.KNamed, Name: dn}
		re := rx.Cat(rx.Ch('&'), ref)
		if r.Intn(2) == 0 {
			re = rx.Cat(rx.Ch('&'), rx.Rep(ref, 1, 2), rx.Ch(alpha[r.Intn(len(alpha))]))
		}
		b.add(rx.LexRule{Token: b.tok("named"), RE: re, Switch: -1, HasPrio: true, Prio: b.prio})
	}
	if !simple {
		n := 1 + r.Intn(6)
		for i := 0; i < n; i++ {
			var rule rx.LexRule
			switch k := r.Intn(12); {
			case k < 4:
				var re *rx.Node
				for {
					re = gen.Rule(1 + r.Intn(6))
					if !rx.Nullable(re, g.Defs) && rx.Count(re, g.Defs) < 120 {
						break
					}
				}
				b.prio--
				rule = rx.LexRule{Token: b.tok("t"), RE: re, Switch: -1, HasPrio: r.Intn(3) != 0, Prio: b.prio}
			case k < 5: // string literal
				q := rx.Ch('"')
				body := &rx.Class{Neg: true, Items: []rx.Item{{Kind: rx.IChar, Lo: '"'}, {Kind: rx.IChar, Lo: '\\'}, {Kind: rx.IChar, Lo: '\n'}}}
				esc := rx.Cat(rx.Ch('\\'), &rx.Node{Kind: rx.KAny})
				rule = rx.LexRule{Token: b.tok("str"), RE: rx.Cat(q, rx.Rep(rx.Alt(rx.Cls(body), esc), 0, -1), q), Switch: -1}
			case k < 6: // line comment
				body := &rx.Class{Neg: true, Items: []rx.Item{{Kind: rx.IChar, Lo: '\n'}}}
				rule = rx.LexRule{Token: b.tok("comment"), RE: rx.Cat(rx.Ch('#'), rx.Rep(rx.Cls(body), 0, -1)), Space: r.Intn(2) == 0, Switch: -1}
			case k < 7 && !m.Bytes && maxChar == 0: // a large Unicode class: pushes the symbol map beyond 2048
				names := []string{"L", "Lu", "Ll", "N", "S", "P", "Han", "Cyrillic", "Latin"}
				c := &rx.Class{Items: []rx.Item{{Kind: rx.IProp, Name: names[r.Intn(len(names))]}}}
				if r.Intn(2) == 0 {
					c.Items = append(c.Items, rx.Item{Kind: rx.IRange, Lo: 0x1f600, Hi: 0x1f64f})
				}
				b.prio--
				rule = rx.LexRule{Token: b.tok("uni"), RE: rx.Rep(rx.Cls(c), 1, -1), Switch: -1, HasPrio: true, Prio: b.prio}
			case k < 8: // hex number
				hx := &rx.Class{Items: []rx.Item{{Kind: rx.IRange, Lo: '0', Hi: '9'}, {Kind: rx.IRange, Lo: 'a', Hi: 'f'}}}
				rule = rx.LexRule{Token: b.tok("hex"), RE: rx.Cat(rx.Lit("0x"), rx.Rep(rx.Cls(hx), 1, -1)), Switch: -1, HasPrio: true, Prio: 2}
			case k < 9: // ends at a newline or at the end of input
				rule = rx.LexRule{Token: b.tok("line"), RE: rx.Cat(rx.Ch('@'), rx.Rep(rx.Cls(digits), 1, -1), rx.Alt(rx.Ch('\n'), &rx.Node{Kind: rx.KEOI})), Switch: -1}
			case k < 10 && len(g.Rules) > 2 && !plain: // a second rule for an existing token
				src := g.Rules[1+r.Intn(len(g.Rules)-1)]
				if src.Class || src.Space {
					continue
				}
				c := alpha[r.Intn(len(alpha))]
				rule = rx.LexRule{Token: src.Token, RE: rx.Cat(rx.Ch('$'), rx.Ch(c), rx.Rep(rx.Ch(c), 0, 3)), Switch: -1}
			default: // literal word over the alphabet
				var sb []*rx.Node
				for j := 1 + r.Intn(4); j > 0; j-- {
					sb = append(sb, rx.Ch(alpha[r.Intn(len(alpha))]))
				}
				rule = rx.LexRule{Token: b.tok("w"), RE: rx.Cat(sb...), Switch: -1, HasPrio: true, Prio: 3}
			}
			if rule.RE == nil {
				continue
			}
			b.add(rule)
		}
	}
	// start conditions: an entering token in the default states, a leaving token and own rules inside
	for s := 1; s < len(g.States); s++ {
		open := []string{"{", "[", "<<", "%"}[(s-1)%4]
		closeLit := []string{"}", "]", ">>", "%"}[(s-1)%4]
		b.add(rx.LexRule{Token: b.tok("enter"), RE: rx.Lit(open + string(rune('0'+s))), Switch: s})
		b.add(rx.LexRule{Token: b.tok("leave"), RE: rx.Lit(closeLit), Switch: 0, SCs: []int{s}})
		for k := 0; k < 1+r.Intn(3); k++ {
			var re *rx.Node
			for {
				re = gen.Rule(1 + r.Intn(4))
				if !rx.Nullable(re, g.Defs) && rx.Count(re, g.Defs) < 80 {
					break
				}
			}
			scs := []int{s}
			if r.Intn(3) == 0 {
				scs = []int{0, s}
			}
			b.prio--
			sw := -1
			if s+1 < len(g.States) && r.Intn(3) == 0 {
				sw = s + 1
			}
			b.add(rx.LexRule{Token: b.tok("in"), RE: re, SCs: scs, HasPrio: true, Prio: b.prio, Switch: sw})
		}
	}
	// the compiler reports unused named patterns: drop them
	for changed := true; changed; {
		changed = false
		for i, n := range g.DefNames {
			used := false
			uses := func(re *rx.Node) bool {
				found := false
				rx.Walk(re, func(x *rx.Node) {
					if x.Kind == rx.KNamed && x.Name == n {
						found = true
					}
				})
				return found
			}
			for k := range g.Rules {
				if uses(g.Rules[k].RE) {
					used = true
				}
			}
			for _, o := range g.DefNames {
				if o != n && uses(g.Defs[o]) {
					used = true
				}
			}
			if !used {
				g.DefNames = append(g.DefNames[:i:i], g.DefNames[i+1:]...)
				delete(g.Defs, n)
				changed = true
				break
			}
		}
	}
	g.Spell(r)
	return g
}

// c11Texts builds inputs for one grammar.
func c11Texts(r *rand.Rand, g *rx.LexGrammar, n int) []string {
	m := g.Mode()
	sents := g.Sentences(r, 3)
	var pieces []string
	pieces = append(pieces, sents...)
	// keywords and near misses
	for i := range g.Rules {
		if v, ok, _ := rx.ConstantValue(g.Rules[i].RE, m, false, g.Defs); ok && v != "" {
			pieces = append(pieces, v, v, v+"x", v+v, strings.ToUpper(v), strings.ToLower(v))
			if len(v) > 1 {
				_, w := utf8.DecodeLastRuneInString(v)
				pieces = append(pieces, v[:len(v)-w])
			}
		}
	}
	sm := &rx.Sampler{R: r, Mode: m, Defs: g.Defs}
	pts := map[rune]bool{}
	for i := range g.Rules {
		sm.Points(g.Rules[i].RE, m.Fold, pts, 0)
	}
	var syms []string
	for _, c := range rx.SortedPoints(pts) {
		if !m.Bytes && c >= 0xd800 && c <= 0xdfff {
			continue
		}
		syms = append(syms, rx.Encode(c, m.Bytes))
	}
	r.Shuffle(len(syms), func(i, j int) { syms[i], syms[j] = syms[j], syms[i] })
	if len(syms) > 16 {
		syms = syms[:16]
	}
	pieces = append(pieces, syms...)
	pieces = append(pieces, "{1", "[2", "}", "]", "0", "7", "_")
	seps := []string{" ", " ", "\n", "", "", "\n\n", "\t", " \n "}
	seen := map[string]bool{}
	var out []string
	add := func(t string) {
		if !seen[t] && len(t) < 3000 {
			seen[t] = true
			out = append(out, t)
		}
	}
	add("")
	for _, p := range sents {
		add(p)
	}
	for tries := 0; len(out) < n && tries < 4*n; tries++ {
		var b strings.Builder
		if r.Intn(5) == 0 {
			b.WriteString(bom)
		}
		k := 1 + r.Intn(20)
		if r.Intn(10) == 0 {
			k = 1 + r.Intn(3)
		}
		for i := 0; i < k; i++ {
			switch {
			case !m.Bytes && r.Intn(40) == 0:
				b.WriteString(lxBadUTF8[r.Intn(len(lxBadUTF8))])
			case m.Bytes && r.Intn(40) == 0:
				b.WriteByte(byte(0x80 + r.Intn(0x80)))
			default:
				b.WriteString(pieces[r.Intn(len(pieces))])
			}
			b.WriteString(seps[r.Intn(len(seps))])
		}
		add(b.String())
	}
	return out
}

type c11Unit struct {
	g     *rx.LexGrammar
	model *rx.LexModel
	pkg   *genrun.Pkg
	text  string
}

func c11Describe(m *rx.LexModel, t rx.LexTok) string {
	names := m.SortedTokenNames()
	n := "?"
	if t.ID >= 0 && t.ID < len(names) {
		n = names[t.ID]
	}
	return fmt.Sprintf("%s(%d)[%d,%d]@%d:%d", n, t.ID, t.S, t.E, t.Line, t.Col)
}

// c11Compare judges one observed token stream. Returns true when it agreed.
func c11Compare(c *fw.Ctx, u *c11Unit, text string, want []rx.LexTok, tr *genrun.Trace) bool {
	o := u.g.Opts
	names := u.model.SortedTokenNames()
	mode := "runes"
	if o.ScanBytes {
		mode = "bytes"
	}
	files := map[string]string{"grammar.tm": u.text, "input.txt": text}
	dump := func() string {
		var b strings.Builder
		b.WriteString("  observed:")
		for i, t := range tr.Toks {
			if i > 30 {
				b.WriteString(" ...")
				break
			}
			fmt.Fprintf(&b, " %s(%d)[%d,%d]@%d:%d", t.Name, t.T, t.S, t.E, t.Line, t.Col)
		}
		b.WriteString("\n  expected:")
		for i, t := range want {
			if i > 30 {
				b.WriteString(" ...")
				break
			}
			b.WriteString(" " + c11Describe(u.model, t))
		}
		return b.String()
	}
	report := func(sig, what string) bool {
		c.Violate(sig, fmt.Sprintf("%s\ninput %q\n%s\noptions %+v\n%s", what, clip(text, 300), dump(), o, u.text), files)
		return false
	}
	if tr.Overflow {
		return report("no-eoi-within-len+4-calls", "Next() did not return EOI")
	}
	for i := 0; i < len(want) || i < len(tr.Toks); i++ {
		if i >= len(want) || i >= len(tr.Toks) {
			return report("token-count-differs", fmt.Sprintf("%d tokens observed, %d expected", len(tr.Toks), len(want)))
		}
		w, g := want[i], tr.Toks[i]
		ctx := "initial-state"
		if w.State != 0 {
			ctx = "other-state"
		}
		if g.S != w.S || g.E != w.E {
			kind := "valid-token"
			switch {
			case w.ID == 1:
				kind = "invalid-token"
			case w.ID == 0:
				kind = "eoi"
			case w.Fallback:
				kind = "token-after-fallback"
			}
			return report(fmt.Sprintf("span-differs/%s/%s/%s", kind, ctx, mode), fmt.Sprintf("token %d: observed %s[%d,%d], expected %s", i, g.Name, g.S, g.E, c11Describe(u.model, w)))
		}
		if g.T != w.ID {
			if w.ViaClass >= 0 && g.T == u.model.TokenID[u.g.Rules[w.ViaClass].Token] {
				asc := "ascii-keyword"
				if w.NonASCII {
					asc = "non-ascii-keyword"
				}
				return report(fmt.Sprintf("keyword-returned-as-its-class-token/%s/%s", asc, mode),
					fmt.Sprintf("token %d %q: the class token %s was returned, expected the keyword token %s", i, text[w.S:w.E], g.Name, names[w.ID]))
			}
			kind := "valid-token"
			switch {
			case w.ID == 1:
				kind = "want-invalid"
			case w.ID == 0:
				kind = "want-eoi"
			case g.T == 1:
				kind = "got-invalid"
			case g.T == 0:
				kind = "got-eoi"
			case w.Fallback:
				kind = "after-fallback"
			}
			return report(fmt.Sprintf("token-differs/%s/%s/%s", kind, ctx, mode), fmt.Sprintf("token %d %q: observed %s(%d), expected %s", i, text[w.S:w.E], g.Name, g.T, c11Describe(u.model, w)))
		}
		if o.TokenLine && g.Line != w.Line {
			return report(fmt.Sprintf("line/delta=%+d", g.Line-w.Line), fmt.Sprintf("token %d: Line()=%d, expected %d", i, g.Line, w.Line))
		}
		if o.TokenColumn && g.Col != w.Col {
			later := "first-line"
			if w.Line > 1 {
				later = "later-line"
			}
			if !o.TokenLine {
				return report("column/not-tracked-across-newlines-when-tokenLine=false/"+later, fmt.Sprintf("token %d: Column()=%d, expected %d (tokenColumn = true, tokenLine = false)", i, g.Col, w.Col))
			}
			return report(fmt.Sprintf("column/delta=%+d/%s", g.Col-w.Col, later), fmt.Sprintf("token %d: Column()=%d, expected %d", i, g.Col, w.Col))
		}
	}
	return true
}

// c11SimpleFallback is used when no random grammar for an option vector compiled.
func c11Build(c *fw.Ctx, r *rand.Rand, name string, opts rx.LexOpts, band int) *c11Unit {
	for try := 0; try < 24; try++ {
		simple := try >= 8
		g := c11Grammar(r, name, opts, simple, band)
		model := rx.NewLexModel(g)
		bomConst := false
		for i := range g.Rules {
			if v, ok, _ := rx.ConstantValue(g.Rules[i].RE, g.Mode(), g.Opts.CaseInsensitive, g.Defs); ok && strings.ContainsRune(v, 0xfeff) {
				bomConst = true // would put a raw BOM into token.go (does not compile; C17's business)
			}
		}
		if bomConst || len(model.Problems) > 0 || model.Murky || model.Nullable() || model.NFAStates() > 2500 {
			c.Count("grammars_discarded_by_generator", 1)
			continue
		}
		text := g.Text(r.Intn(2) == 0)
		c.Note(map[string]string{"grammar.tm": text})
		pkg, cerr, gerr := genrun.Generate(name, text)
		if cerr != nil {
			c.Count("grammars_rejected_by_compiler", 1)
			msg := firstLine(cerr.Error())
			switch {
			case strings.Contains(cerr.Error(), "two rules are identical"):
				c.Count("rejected/two rules are identical", 1)
			case strings.Contains(cerr.Error(), "Needs backtracking"):
				c.Count("rejected/needs backtracking", 1)
			default:
				c.Count("rejected/other", 1)
				c.Sample(map[string]any{"rejected": msg, "grammar": text})
				// anything else is not expected from this generator
				c.Violate("compile/unexpected-diagnostic/"+fw.Skeleton(c11StripPos(msg)), cerr.Error()+"\n"+text, map[string]string{"grammar.tm": text})
			}
			continue
		}
		if gerr != nil {
			c.Violate("generate-failed/"+fw.Skeleton(gerr.Error()), gerr.Error()+"\n"+text, map[string]string{"grammar.tm": text})
			continue
		}
		if simple {
			c.Count("grammars_simple_fallback", 1)
		}
		return &c11Unit{g: g, model: model, pkg: pkg, text: text}
	}
	return nil
}

func c11StripPos(msg string) string {
	// "g0.tm:12:3: message" -> "message"
	parts := strings.SplitN(msg, ": ", 2)
	if len(parts) == 2 && strings.Contains(parts[0], ".tm:") {
		return parts[1]
	}
	return msg
}

func c11Case(c *fw.Ctx, vectors []int, nTexts int) {
	var units []*c11Unit
	for k, v := range vectors {
		opts := rx.OptsFromVector(v)
		name := fmt.Sprintf("x%02d", k)
		// the bound on mentioned code points cycles independently of the option vector
		u := c11Build(c, c.SubRand(k), name, opts, c.Case*len(vectors)+k+c.Case/13)
		if u == nil {
			c.Count("option_vectors_without_grammar", 1)
			continue
		}
		units = append(units, u)
	}
	if len(units) == 0 {
		return
	}
	var pkgs []*genrun.Pkg
	for _, u := range units {
		pkgs = append(pkgs, u.pkg)
	}
	_, bin := buildModule(c, pkgs, false)
	if bin == "" {
		return
	}
	type meta struct {
		u    *c11Unit
		text string
		want []rx.LexTok
	}
	var jobs []genrun.Job
	var metas []meta
	for k, u := range units {
		r := c.SubRand(1000 + k)
		for _, text := range c11Texts(r, u.g, nTexts) {
			want, tie := u.model.Tokens(text)
			if tie != "" {
				sig := "compile/ambiguous-rules-accepted"
				if a, b := u.model.TieRules[0], u.model.TieRules[1]; u.g.Rules[a].Class && u.g.Rules[b].Class {
					// both are (class) rules: the compiler compiles those separately first
					sig = "compile/ambiguous-class-rules-accepted"
					if len(u.pkg.G.Lexer.ClassActions) == 0 {
						sig += "/class-rules-dropped"
					}
				}
				c.Violate(sig, fmt.Sprintf("%s have the same priority and match the same prefix of %q but the grammar compiled\n%s", tie, clip(text, 200), u.text), map[string]string{"grammar.tm": u.text, "input.txt": text})
				break
			}
			metas = append(metas, meta{u, text, want})
			jobs = append(jobs, genrun.Job{ID: len(jobs), Pkg: u.pkg.Name, Mode: "lex", Text: text})
		}
	}
	res, err := genrun.Run(bin, c.WorkDir, jobs, 900)
	if err != nil {
		c.Violate("harness/runner/"+fw.Skeleton(err.Error()), err.Error(), nil)
		return
	}
	for _, id := range append(append([]int(nil), res.Crashed...), res.CPUExceeded...) {
		m := metas[id]
		c.Violate("generated-lexer/crash-or-hang", fmt.Sprintf("runner died while lexing %q\n%s", clip(m.text, 300), res.Stderr), map[string]string{"grammar.tm": m.u.text, "input.txt": m.text})
	}
	bad := map[*c11Unit]int{}
	for id, m := range metas {
		tr := res.Traces[id]
		if tr == nil {
			continue
		}
		if tr.Panic != "" {
			c.Violate("generated-lexer/panic/"+fw.Skeleton(firstLine(tr.Panic)), tr.Panic+"\n"+m.u.text, map[string]string{"grammar.tm": m.u.text, "input.txt": m.text})
			continue
		}
		c.Eval(1)
		if bad[m.u] >= 3 {
			continue // enough reports for this grammar
		}
		if !c11Compare(c, m.u, m.text, m.want, tr) {
			bad[m.u]++
			continue
		}
		var kw, cls, inv, fb, other, nonASCIIkw int64
		for _, t := range m.want {
			switch {
			case t.ViaClass >= 0:
				kw++
				if t.NonASCII {
					nonASCIIkw++
				}
			case t.Rule >= 0 && m.u.g.Rules[t.Rule].Class:
				cls++
			case t.ID == 1:
				inv++
			}
			if t.Fallback {
				fb++
			}
			if t.State != 0 {
				other++
			}
		}
		lxg := m.u.pkg.G.Lexer
		if len(m.u.g.Decls) > 0 && lxg.RuleToken == nil {
			c.Count("tokens_after_fallback_inlined_patternless", fb)
		}
		if !m.u.g.Opts.ScanBytes {
			var hi int64
			for _, ch := range m.text {
				if ch >= 0x100 {
					hi++
				}
			}
			c.Count("tokens_above_latin1_by_band/"+c11BandName(lxg.Tables.LastMapEntry().Start), hi)
		}
		c.Count("tokens_compared", int64(len(m.want)))
		c.Count("tokens_keyword", kw)
		c.Count("tokens_keyword_non_ascii", nonASCIIkw)
		c.Count("tokens_class", cls)
		c.Count("tokens_invalid", inv)
		c.Count("tokens_after_fallback", fb)
		c.Count("tokens_in_non_initial_state", other)
		if strings.HasPrefix(m.text, bom) {
			c.Count("texts_with_bom", 1)
		}
		if !m.u.g.Opts.ScanBytes && !utf8.ValidString(m.text) {
			c.Count("texts_invalid_utf8", 1)
		}
		if len(m.want) > 5 {
			c.Distinct(m.u.text + "\x00" + m.text)
		}
	}
	for _, u := range units {
		c.Count(fmt.Sprintf("optvec/%02d", u.g.Opts.Vector()), 1)
		c.Count("grammars", 1)
		lx := u.pkg.G.Lexer
		if lx.RuleToken != nil {
			c.Count("grammars_with_rule_ids_not_inlined", 1)
		} else {
			c.Count("grammars_with_token_ids_inlined", 1)
		}
		if lx.Tables.LastMapEntry().Start > 2048 {
			c.Count("grammars_using_mapRune", 1)
		}
		if !u.g.Opts.ScanBytes {
			c.Count("symbol_map_ends/"+c11BandName(lx.Tables.LastMapEntry().Start), 1)
		}
		if len(u.g.Decls) > 0 {
			c.Count("grammars_with_patternless_tokens", 1)
			if lx.RuleToken == nil && len(lx.Tables.Backtrack) > 0 {
				c.Count("grammars_inlined_with_backtracking_and_patternless_tokens", 1)
			}
		}
		if len(lx.Tables.Backtrack) > 0 {
			c.Count("grammars_with_backtracking", 1)
		}
		if len(lx.StartConditions) > 1 {
			c.Count("grammars_with_start_conditions", 1)
		}
		if len(lx.ClassActions) > 0 {
			c.Count("grammars_with_class_rules", 1)
		}
		if u.model.NonASCIIKeywords > 0 {
			c.Count("grammars_with_non_ascii_keywords", 1)
		}
		if len(u.g.DefNames) > 0 {
			c.Count("grammars_with_named_patterns", 1)
		}
	}
	if len(units) > 0 {
		c.Sample(map[string]any{"grammar": units[0].text})
	}
}

func c11Plan(tier string) (cases, perCase, texts int) {
	if tier == "thorough" {
		return 160, 5, 1500
	}
	return 16, 5, 400
}

func init() {
	fw.Register(&fw.Check{
		ID: "C11",
		Rule: "a case generates 5 lexer grammars (4 option vectors assigned round-robin so that all 64 vectors tokenLine x tokenColumn x scanBytes x nonBacktracking x caseInsensitive x skipByteOrderMark occur in every run, plus one random vector): " +
			"a (space) rule, (class) rules (ASCII identifiers, letters beyond ASCII incl. \\p{L}, bytes 0x80-0xff in byte mode, random classes) with 2-5 keywords each (fixed ASCII and non-ASCII words and sentences of the class), numbers with priority, an operator family with shared prefixes, " +
			"random rules with priorities, strings, comments, large Unicode classes (mapRune path), {eoi}-terminated rules, several rules for one token, rules with code, named patterns, up to two %s/%x start conditions entered and left by actions on designated tokens with own rules inside; every pattern spelled at random. " +
			"The grammar is compiled, generated, built with go build and run on 400 (thorough 1500) texts: rule sentences, keywords and near misses (prefix, extension, case variants), class boundary symbols, separators, BOM prefixes, invalid UTF-8 / high bytes. " +
			"Oracle: internal/rx lexer model (longest match, priority, keyword = constant rule fully matched by a class rule in its start condition, space skipped, invalid token = longest live prefix or one forced character, EOI three times, state switching, line/column of the first byte). " +
			"A (grammar, text) pair is non-trivial with more than 5 tokens",
		Assumptions: []string{
			"the reference model of internal/rx (see C09/C10)",
			"grammars the compiler rejects for 'two rules are identical' / 'Needs backtracking' are replaced (counted), any other diagnostic on a generated grammar is reported",
			"token ids follow declaration order (EOI = 0, invalid_token = 1)",
		},
		Cases: func(tier string) int { n, _, _ := c11Plan(tier); return n },
		Run: func(c *fw.Ctx) {
			_, per, texts := c11Plan(c.Tier)
			var vs []int
			for k := 0; k < per-1; k++ {
				vs = append(vs, (c.Case*(per-1)+k)%64)
			}
			vs = append(vs, c.R.Intn(64))
			c11Case(c, vs, texts)
		},
		Post: func(p *fw.Parent) {
			n := 0
			for k, v := range p.Counters {
				if strings.HasPrefix(k, "optvec/") && v > 0 {
					n++
				}
			}
			p.Counters["distinct_option_vectors"] = int64(n)
			if n < 64 && len(p.Counters) > 0 && p.Counters["grammars"] >= 64 {
				p.Inconclusive(fmt.Sprintf("only %d of the 64 option vectors were exercised", n))
			}
		},
		MinNontrivial: func(tier string) int {
			if tier == "thorough" {
				return 200000
			}
			return 8000
		},
		RequiredCounters: []string{"tokens_compared", "tokens_keyword", "tokens_keyword_non_ascii", "tokens_class", "tokens_invalid", "tokens_after_fallback", "tokens_in_non_initial_state",
			"texts_with_bom", "texts_invalid_utf8", "grammars_with_rule_ids_not_inlined", "grammars_with_token_ids_inlined", "grammars_using_mapRune", "grammars_with_backtracking",
			"grammars_with_start_conditions", "grammars_with_class_rules", "grammars_with_non_ascii_keywords", "grammars_with_named_patterns",
			"grammars_inlined_with_backtracking_and_patternless_tokens", "tokens_after_fallback_inlined_patternless",
			"symbol_map_ends/below-256", "symbol_map_ends/256-2048", "symbol_map_ends/2049-4096", "symbol_map_ends/4097-65536", "symbol_map_ends/astral", "tokens_above_latin1_by_band/2049-4096"},
		CPUBudget: 900,
	})
}
