package checks

import (
	"fmt"
	"time"

	"verif/internal/fw"
	"verif/internal/genrun"
	"verif/internal/gram"
)

// C07 – LALR(k) resolution never changes the accepted language.

func c07Run(c *fw.Ctx) {
	thorough := c.Tier == "thorough"
	n := 20
	if thorough {
		n = 40
	}
	r := c.R
	st := time.Now()
	gs := compileCandidates(c, n, n*25, func(i, accepted int) (*gram.PGrammar, int, bool) {
		var pg *gram.PGrammar
		if i%3 == 2 {
			pg = gram.RandCFG(r)
			pg.Lalr = 2 + r.Intn(3)
		} else {
			pg = gram.LalrK(r)
		}
		optv := 0
		if r.Intn(3) == 0 {
			optv = 4 // minimizeDFA (optimizeTables is not combined here: deep lookahead uses the default encoding)
		}
		if i%5 == 0 {
			// two states with look-alike first-level rows and different lookahead automata, minimized
			pg = gram.LalrKTwin(r)
			optv = 4
		}
		pg.Opts = tableOpts(optv)
		return pg, optv, false
	})
	if len(gs) == 0 {
		return
	}
	stage(&st, "compile")
	var pkgs []*genrun.Pkg
	for _, g := range gs {
		pkgs = append(pkgs, g.pkg)
	}
	_, bin := buildModule(c, pkgs, false)
	if bin == "" {
		return
	}
	stage(&st, "build")
	var jobs []genrun.Job
	var meta []c01Job
	for _, g := range gs {
		depth := 0
		if g.pkg.G != nil && g.pkg.G.Parser != nil && g.pkg.G.Parser.Tables != nil {
			depth = g.pkg.G.Parser.Tables.UsedLADepth
		}
		c.Count(fmt.Sprintf("grammars_lalr_k%d", g.pg.Lalr), 1)
		if depth > 0 {
			c.Count("grammars_using_deep_lookahead", 1)
			c.Count(fmt.Sprintf("used_depth_%d", depth), 1)
		}
		acc, rej := 0, 0
		for e, in := range g.pg.Inputs {
			budget, ns, nm, sz := 400, 30, 80, 20
			if thorough {
				budget, ns, nm, sz = 3000, 60, 200, 30
			}
			inputs := genInputs(r, g.pg.CFG, in.NT, budget, ns, nm, sz)
			for _, toks := range inputs {
				text, pos := gram.RenderTokens(r, g.pg.CFG.Terms, toks)
				exp := expectParse(g.pg.CFG, in, toks)
				if exp.accept {
					acc++
				} else {
					rej++
				}
				meta = append(meta, c01Job{g: g, entry: e, in: pinput{toks, text, pos}, exp: exp})
				jobs = append(jobs, genrun.Job{ID: len(jobs), Pkg: g.pkg.Name, Mode: "parse", Entry: e, Text: text, MaxEvents: 1 << 22})
			}
		}
		if depth > 0 && acc > 0 && rej > 0 {
			c.Distinct(g.pg.CFG.String() + fmt.Sprint(g.pg.Lalr))
		}
	}
	stage(&st, "inputs+earley")
	if c.Case == 0 {
		c.Sample(map[string]any{"grammar": gs[0].pkg.Text})
	}
	// Error positions are not compared: with k>1 the parser legitimately reports the token at which
	// it started to look ahead; the property only speaks about the accepted language.
	runAndJudgeLanguage(c, gs, bin, jobs, meta, false)
	stage(&st, "run+judge")
}

func init() {
	fw.Register(&fw.Check{
		ID:          "C07",
		Rule:        "each case (every fifth candidate is the twin-conflict member of the family - a second conflict with the same middle behind another prefix - compiled with minimizeDFA): grammars from a family that needs k>1 tokens to resolve reduce/reduce conflicts (2-3 alternatives 'S: A_i mid tail_i' where all A_i derive the same string, mid is a shared sequence of 0..k-1 terminals / unit nonterminals / nullable nonterminals / two-token nonterminals / nonterminals 't Opt' with a nullable suffix, tails differ, sometimes only after a further reduction; optionally wrapped in a list or a no-eoi input) declared lalr(k), k in 2..8, plus random CFGs with lalr(2..4); grammars the compiler rejects are discarded; all token strings up to a length bound + sampled sentences + mutations are run through the generated parser and judged by an Earley recognizer (accept iff sentence, error token = first non-viable token). Grammar counts as non-trivial/distinct when the compiled tables report UsedLADepth>0 and both accepted and rejected inputs were observed",
		Assumptions: []string{"Earley recognizer is correct", "compile errors of the lalr(k) compiler are taken as 'does not claim to resolve'"},
		Cases: func(tier string) int {
			if tier == "thorough" {
				return 40
			}
			return 6
		},
		Par:              8,
		Run:              c07Run,
		CPUBudget:        900,
		MinNontrivial:    func(tier string) int { return 15 },
		RequiredCounters: []string{"accepted", "rejected", "grammars_using_deep_lookahead"},
	})
}
