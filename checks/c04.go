package checks

import (
	"fmt"
	"math/rand"

	"github.com/inspirer/textmapper/lalr"
	"verif/internal/fw"
	"verif/internal/reflalr"
)

// C04 – precedence and associativity resolve conflicts as documented.
//
// Part 1 (table level): random grammars with precedence groups and %prec; every
// cell is compared with the reference LALR(1) candidates resolved by the documented
// rule (reflalr.PrecTable).
// Part 2 (table interpreter, end to end): operator grammars; the tables are run as
// a parser (the decoding of the generated parser) over token strings and the
// parse tree / rejection point is compared with an operator-precedence reference.

func c04TableOne(c *fw.Ctx, g *lalr.Grammar, r *rand.Rand, kind string) {
	ref := reflalr.BuildRef(g, 3000)
	if ref == nil {
		c.Count("reference_too_large_skipped", 1)
		return
	}
	g.ExpectSR, g.ExpectRR = r.Intn(3), r.Intn(2)
	files := reflalr.Files(g)
	var cp *reflalr.Compiled
	opts := lalr.Options{}
	if r.Intn(4) == 0 {
		opts.DebugConflicts = true
	}
	if !c.Guard("compile", files, func() { cp = reflalr.CompileHooked(g, opts) }) {
		return
	}
	c.Eval(1)
	t := cp.Stages["conflicts"]
	if t == nil {
		c.Violate("hook/conflicts-stage-not-reached", "no hook call", files)
		return
	}
	viol := func(f reflalr.Finding) { c.Violate(f.Sig, f.Detail+"\n\n"+reflalr.Format(g), files) }
	m := reflalr.MatchStates(ref, t)
	if len(m.Findings) > 0 || m.SharedAug > 0 {
		// the automaton itself is C03's subject; without a correspondence nothing can be said here
		c.Count("automaton_mismatch_left_to_C03", 1)
		return
	}
	ei := reflalr.ClassifyErr(cp.Err)
	var st reflalr.CellStats
	fs := reflalr.CompareCells(g, ref, m, t, ei.Lookahead > 0, &st)
	for _, f := range fs {
		viol(f)
	}
	c.Count("table_grammars_"+kind, 1)
	c.Count("cells_compared", int64(st.Cells))
	c.Count("cells_resolved_as_shift", int64(st.ResolvedShift))
	c.Count("cells_resolved_as_reduce", int64(st.ResolvedReduce))
	c.Count("cells_resolved_as_nonassoc_error", int64(st.ResolvedErr))
	c.Count("cells_undecidable_default_shift", int64(st.SRUndecided))
	c.Count("cells_reduce_reduce_default_earlier_rule", int64(st.RRUnresolved))
	c.Count("cells_shift_and_several_reductions_mixed", int64(st.Murky))
	c.Count("cells_shift_and_several_reductions_all_shift", int64(st.MultiAllShift))
	if len(fs) > 0 {
		return
	}
	// resolved cells must not be counted; undecidable ones must
	loSR, hiSR := st.RefSR, st.RefSR+st.Murky
	loRR, hiRR := st.RefRR, st.RefRR+st.Murky
	if t.SR < loSR || t.SR > hiSR {
		dir := "too-many"
		if t.SR < loSR {
			dir = "too-few"
		}
		viol(reflalr.Finding{Sig: "counts/shift-reduce/" + dir, Detail: fmt.Sprintf("Tables.SR=%d, undecidable shift/reduce cells: %d (+%d cells with a shift and several reductions whose count the statement leaves open)", t.SR, st.RefSR, st.Murky)})
	}
	if t.RR < loRR || t.RR > hiRR {
		dir := "too-many"
		if t.RR < loRR {
			dir = "too-few"
		}
		viol(reflalr.Finding{Sig: "counts/reduce-reduce/" + dir, Detail: fmt.Sprintf("Tables.RR=%d, unresolved reduce/reduce cells: %d (+%d open)", t.RR, st.RefRR, st.Murky)})
	}
	if t.SR+t.RR > st.RefSR+st.RefRR+st.Murky {
		viol(reflalr.Finding{Sig: "counts/total/too-many", Detail: fmt.Sprintf("SR+RR=%d, at most %d cells can be conflicts", t.SR+t.RR, st.RefSR+st.RefRR+st.Murky)})
	}
	differ := t.SR != g.ExpectSR || t.RR != g.ExpectRR
	if ei.Summary != differ {
		viol(reflalr.Finding{Sig: fmt.Sprintf("error-iff/conflict-error=%v/counts-differ=%v", ei.Summary, differ), Detail: fmt.Sprintf("counts %d/%d expected %d/%d: %v", t.SR, t.RR, g.ExpectSR, g.ExpectRR, cp.Err)})
	}
	precRules := 0
	for _, rule := range g.Rules {
		if rule.Precedence != 0 {
			precRules++
		}
	}
	if precRules > 0 {
		c.Count("table_grammars_with_prec_marker", 1)
	}
	if st.ResolvedShift+st.ResolvedReduce+st.ResolvedErr > 0 && len(ref.States) >= 6 {
		c.Distinct("T" + reflalr.ToJSON(g))
	}
}

func c04Tree(x *reflalr.ExprGrammar, t *lalr.Tables, o *reflalr.Outcome) string {
	steps := o.Steps
	if n := len(steps); n > 0 && steps[n-1].Shift && steps[n-1].Tok == int(lalr.EOI) {
		steps = steps[:n-1]
	}
	return reflalr.Tree(t, steps, func(rule int) string { return fmt.Sprintf("r%d", rule) }, func(tok int) string { return fmt.Sprintf("t%d", tok) })
}

func c04EndToEnd(c *fw.Ctx, r *rand.Rand, nInputs int) {
	x := reflalr.RandomExprGrammar(r)
	g := x.G
	g.ExpectSR, g.ExpectRR = 0, 0
	files := reflalr.Files(g)
	optimized := r.Intn(3) == 0
	defaultReduce := optimized && r.Intn(2) == 0
	var t *lalr.Tables
	if !c.Guard("compile", files, func() { t, _ = lalr.Compile(g, lalr.Options{Optimize: optimized, DefaultReduce: defaultReduce}) }) {
		return
	}
	c.Count("e2e_grammars", 1)
	if optimized {
		c.Count("e2e_grammars_run_on_optimized_encoding", 1)
	}
	if defaultReduce {
		// default reductions may only delay an error, never move it to another token
		c.Count("e2e_grammars_run_with_default_reduce", 1)
	}
	if x.Undecl > 0 {
		c.Count("e2e_grammars_with_undeclared_operators", 1)
	}
	if len(x.Pre) > 0 {
		c.Count("e2e_grammars_with_prefix_operators", 1)
	}
	if len(x.Post) > 0 {
		c.Count("e2e_grammars_with_postfix_operators", 1)
	}
	for _, rule := range g.Rules {
		if rule.Precedence != 0 {
			c.Count("e2e_grammars_with_unary_prec", 1)
			break
		}
	}
	p := &reflalr.Parser{T: t, Terms: g.Terminals, NRules: len(g.Rules), Optimized: optimized, KeepSteps: true}
	var atoms, nonassoc []int
	for tk := 1; tk < g.Terminals; tk++ {
		if _, ok := x.Atom[tk]; ok {
			atoms = append(atoms, tk)
		}
		if _, ok := x.Bin[tk]; ok {
			if gi, ok := x.Group[tk]; ok && x.Assoc[gi] == lalr.NonAssoc {
				nonassoc = append(nonassoc, tk)
			}
		}
	}
	accepted, rejected := 0, 0
	for i := 0; i < nInputs; i++ {
		var toks []int
		chain := false
		switch k := r.Intn(10); {
		case k == 0 && len(nonassoc) > 0:
			// a < b < c with operators of one nonassoc group
			op := nonassoc[r.Intn(len(nonassoc))]
			op2 := op
			for _, o := range nonassoc {
				if x.Group[o] == x.Group[op] && r.Intn(2) == 0 {
					op2 = o
				}
			}
			a := atoms[r.Intn(len(atoms))]
			toks = []int{a, op, a, op2, a}
			chain = true
		case k < 7:
			toks = x.RandomExpr(r, 6)
		default:
			toks = x.RandomExpr(r, 4)
			for n := 1 + r.Intn(2); n > 0; n-- {
				toks = reflalr.Mutate(r, toks, g.Terminals)
			}
		}
		c.Eval(1)
		o := p.Parse(0, toks)
		wantTree, wantOK, wantErr := x.RefParse(toks)
		desc := func() string {
			return fmt.Sprintf("input: %s\ntable parser: %s\nreference: ok=%v errTok=%d tree=%s\n\n%s", reflalr.TokString(g, toks), o.Key(func(r int) string { return fmt.Sprint(r) }), wantOK, wantErr, wantTree, reflalr.Format(g))
		}
		if o.Diverged || o.Broken != "" {
			c.Violate("e2e/parser-did-not-terminate-or-broke", desc(), files)
			continue
		}
		if chain {
			c.Count("e2e_nonassoc_chains", 1)
			if o.Accept || o.ErrTok != 3 {
				c.Violate("e2e/nonassoc-chain-not-rejected-at-second-operator", desc(), files)
				continue
			}
		}
		if o.Accept != wantOK {
			c.Violate(fmt.Sprintf("e2e/accept-differs/table-parser=%v", o.Accept), desc(), files)
			continue
		}
		if !wantOK {
			rejected++
			if o.ErrTok != wantErr {
				c.Violate("e2e/error-token-differs", desc(), files)
			}
			continue
		}
		accepted++
		if got := c04Tree(x, t, o); got != wantTree {
			c.Violate("e2e/parse-tree-differs", desc()+"\n\ntable tree: "+got, files)
		}
	}
	c.Count("e2e_inputs_accepted", int64(accepted))
	c.Count("e2e_inputs_rejected", int64(rejected))
	if accepted > 0 && rejected > 0 {
		c.Distinct("E" + reflalr.ToJSON(g))
	}
}

func init() {
	fw.Register(&fw.Check{
		ID: "C04",
		Rule: "each case: (a) a batch of random small lalr.Grammar values with 1-3 precedence groups (random associativity, some terminals left undeclared, ~1/6 of the rules with a %prec terminal) plus operator grammars and a family with exactly one cell holding a shift and 2-4 reductions that all lose against the shift by precedence (lower group or same %right group, some through %prec; the exact counts 0/0 are demanded), compiled by lalr.Compile and compared cell by cell with reference LALR(1) candidates resolved by the documented rule (higher wins; equal: left=reduce, right=shift, nonassoc=error; undecidable=conflict, shift; reduce/reduce=earlier rule), conflict counts within the bounds the statement fixes; " +
			"(b) operator grammars E: E b E | p E [%prec] | E q | ( E ) | atom [; S: E | S ';' E] with 1-8 binary, 0-3 prefix (some shared with binary operators), 0-2 postfix operators in 1-5 groups of mixed associativity, occasionally undeclared operators: the tables are interpreted as the generated parser does (default encoding, one third through the displacement encoding, half of those with DefaultReduce) on random expressions, single-operator chains, nonassoc chains a<b<c and mutated inputs; accept/reject, the error token index and the full parse tree are compared with an operator-precedence (precedence climbing) reference. " +
			"A table-level grammar is non-trivial when >= 1 cell is decided by precedence and it has >= 6 states; an operator grammar when both accepted and rejected inputs were observed; distinctness by grammar text",
		Assumptions: []string{
			"reference LALR(1) construction (as in C03) and the documented resolution rule implemented in reflalr.PrecTable",
			"for cells with a shift and several reductions whose pairwise decisions are mixed only membership of the action in the candidates is demanded and the conflict counts are checked as bounds",
			"the precedence-climbing reference decides every operator by comparing it with the innermost pending rule only (this is what the LR automaton of an operator grammar does)",
			"terminals appear in at most one precedence group; eoi is in none",
		},
		Cases: func(tier string) int {
			if tier == "thorough" {
				return 640
			}
			return 64
		},
		CPUBudget: 900,
		Run: func(c *fw.Ctx) {
			lalrTune()
			nTable, nE2E, nIn := 120, 12, 100
			if c.Tier == "thorough" {
				nTable, nE2E, nIn = 250, 25, 150
			}
			for i := 0; i < nE2E; i++ {
				c04EndToEnd(c, c.SubRand(100000+i), nIn)
			}
			for i := 0; i < nTable; i++ {
				r := c.SubRand(i)
				if i%5 == 4 {
					x := reflalr.RandomExprGrammar(r)
					c04TableOne(c, x.G, r, "operator")
					continue
				}
				if i%10 == 3 {
					// one cell with a shift and several reductions that all lose by precedence:
					// no conflict may be counted (exact counts, no other ambiguity in the grammar)
					c04TableOne(c, reflalr.AllShiftGrammar(r), r, "all_shift_family")
					continue
				}
				cfg := reflalr.SmallConfig()
				cfg.Prec = true
				cfg.Markers = r.Intn(3) == 0
				cfg.MaxT = 6
				g, _ := reflalr.RandomGrammar(r, cfg)
				if i == 0 {
					c.Sample(reflalr.Format(g))
				}
				c04TableOne(c, g, r, "random")
			}
		},
		MinNontrivial: func(tier string) int {
			if tier == "thorough" {
				return 40000
			}
			return 3000
		},
		RequiredCounters: []string{"cells_resolved_as_shift", "cells_resolved_as_reduce", "cells_resolved_as_nonassoc_error", "cells_undecidable_default_shift",
			"cells_reduce_reduce_default_earlier_rule", "cells_shift_and_several_reductions_mixed", "table_grammars_with_prec_marker", "e2e_inputs_accepted", "e2e_inputs_rejected",
			"e2e_nonassoc_chains", "e2e_grammars_with_unary_prec", "e2e_grammars_with_prefix_operators", "e2e_grammars_with_postfix_operators", "e2e_grammars_with_undeclared_operators", "e2e_grammars_run_on_optimized_encoding", "e2e_grammars_run_with_default_reduce", "table_grammars_all_shift_family", "cells_shift_and_several_reductions_all_shift"},
	})
}
