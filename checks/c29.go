package checks

import (
	"fmt"
	"math/rand"
	"sort"
	"strings"
	"time"

	"verif/internal/cfg"
	"verif/internal/fw"
	"verif/internal/genrun"
	"verif/internal/recgram"
)

// C29 – cancellation never yields a wrong parse.

// obs is what the monitor needs from one run (uncancelled or cancelled), from
// either the runner (generated parsers) or an in-process run (shipped parsers).
type c29Obs struct {
	OK      bool
	ErrKind string
	Err     string
	S, E    int
	Val     string
	N       int
	H       uint64
	Last    genrun.Event
	EH      []genrun.ErrCall
	Panic   string
	Polls   int
	SawPoll int // number of the first poll answered with a closed channel (0: none)
	SawEv   int // events reported before that poll
}

// ignoredPoll reports whether the trace shows a ctx.Done() poll that was answered with a
// closed channel (the parser saw the cancellation) and that was not followed by an
// immediate return of the context error. Used only to classify violations, never as a
// violation by itself.
func (o *c29Obs) ignoredPoll() bool {
	return o.SawPoll > 0 && (o.Polls > o.SawPoll || o.N > o.SawEv || o.ErrKind != "ctx")
}

// base is the uncancelled run of one input.
type c29Base struct {
	obs    c29Obs
	events []genrun.Event
	prefix []uint64 // prefix[i]: rolling hash after i events
	toks   [][2]int // byte ranges of the tokens the parser shifts
	text   string
	clean  bool // accepted without handler calls: every token is shifted exactly once
	// problemNode: name of the node every error alternative of the grammar reports ("" unknown). If the
	// uncancelled run recovered to acceptance, every token outside the ranges of these nodes was shifted
	// (skipped tokens are covered by the error symbol), which still gives a lower bound on shifts.
	problemNode string
	shifted     []int // shifted[i]: number of certainly shifted tokens among toks[:i]
}

func (b *c29Base) init() {
	b.prefix = make([]uint64, len(b.events)+1)
	h := genrun.XHashInit
	b.prefix[0] = h
	for i, e := range b.events {
		h = genrun.XHash(h, e.T, e.F, e.S, e.E)
		b.prefix[i+1] = h
	}
	b.clean = b.obs.OK && len(b.obs.EH) == 0
	b.shifted = nil
	if b.clean || (b.obs.OK && b.problemNode != "") {
		skipped := make([]bool, len(b.toks))
		for _, e := range b.events {
			if e.T == b.problemNode && !b.clean {
				for i := b.tokenAt(e.S); i < len(b.toks) && b.toks[i][0] < e.E; i++ {
					skipped[i] = true
				}
			}
		}
		b.shifted = make([]int, len(b.toks)+1)
		for i := range b.toks {
			b.shifted[i+1] = b.shifted[i]
			if !skipped[i] {
				b.shifted[i+1]++
			}
		}
	}
}

// tokenAt returns the index of the first token starting at or after offset.
func (b *c29Base) tokenAt(off int) int {
	return sort.Search(len(b.toks), func(i int) bool { return b.toks[i][0] >= off })
}

// c29Judge applies the offline monitor to one cancelled run. cancelOff is the
// input offset the parser had reached when the cancellation was issued (-1 =
// unknown, e.g. asynchronous). what describes the schedule for signatures
// ("poll", "event", "before-start", "async").
func c29Judge(c *fw.Ctx, who, what string, k int, b *c29Base, o *c29Obs, cancelOff int, desc func() string, files map[string]string) bool {
	if o.ignoredPoll() {
		// mechanism first, so that all manifestations share a signature prefix
		who += "continued-after-a-poll-that-saw-the-cancellation/"
	}
	if o.Panic != "" {
		c.Violate(who+"panic/"+fw.Skeleton(firstLine(o.Panic)), desc()+"\n"+o.Panic, files)
		return false
	}
	ok := true
	isCtx := o.ErrKind == "ctx"
	same := o.OK == b.obs.OK && o.ErrKind == b.obs.ErrKind && o.S == b.obs.S && o.E == b.obs.E && o.Val == b.obs.Val && o.N == b.obs.N && o.H == b.obs.H
	if !isCtx && !same {
		kind := "different-result"
		switch {
		case o.OK && b.obs.OK:
			kind = "accepted-with-different-events"
		case o.OK:
			kind = "accepted-although-uncancelled-run-fails"
		case o.ErrKind == "syntax" && b.obs.OK:
			kind = "syntax-error-on-input-the-uncancelled-run-accepts"
		case o.ErrKind == "syntax":
			kind = "different-syntax-error"
		}
		c.Violate(who+"result/neither-ctx-error-nor-uncancelled-result/"+kind+"/"+what, desc(), files)
		ok = false
	}
	// events (and handler calls) of a cancelled run are a prefix of the uncancelled ones
	if o.N > len(b.events) || o.H != b.prefix[o.N] {
		c.Violate(who+"events/not-a-prefix-of-the-uncancelled-run/"+what, desc(), files)
		ok = false
	}
	if len(o.EH) > len(b.obs.EH) {
		c.Violate(who+"handler-calls/not-a-prefix-of-the-uncancelled-run/"+what, desc(), files)
		ok = false
	} else {
		for i := range o.EH {
			if o.EH[i] != b.obs.EH[i] {
				c.Violate(who+"handler-calls/not-a-prefix-of-the-uncancelled-run/"+what, desc(), files)
				ok = false
				break
			}
		}
	}
	if isCtx {
		c.Count("returned_ctx_error", 1)
	} else if same {
		c.Count("completed_like_uncancelled", 1)
	}
	// bounded stopping, in shifted tokens: needs a lower bound on the tokens shifted after the cancel point
	if cancelOff >= 0 && b.shifted != nil {
		idx := b.tokenAt(cancelOff)
		remaining := b.shifted[len(b.toks)] - b.shifted[idx]
		if remaining >= 514 {
			c.Count("bounded_stop_checks", 1)
			if !b.clean {
				c.Count("bounded_stop_checks_on_recovered_inputs", 1)
			}
			if !isCtx {
				c.Violate(who+"bounded-stop/finished-without-noticing-cancellation/"+what, desc()+fmt.Sprintf("\n%d certainly shifted tokens remained after the cancel point (offset %d, token #%d of %d)", remaining, cancelOff, idx, len(b.toks)), files)
				ok = false
			} else if o.N > 0 {
				// the token after which 513 certainly shifted tokens have passed
				lim := sort.Search(len(b.toks), func(i int) bool { return b.shifted[i+1]-b.shifted[idx] >= 513 })
				limit := b.toks[min(lim, len(b.toks)-1)][1]
				if o.Last.E > limit {
					c.Violate(who+"bounded-stop/events-reported-beyond-512-tokens/"+what, desc()+fmt.Sprintf("\ncancel point: offset %d = token #%d; last event %s[%d,%d) ends after token #%d (offset %d)", cancelOff, idx, o.Last.T, o.Last.S, o.Last.E, lim, limit), files)
					ok = false
				}
			}
		}
	}
	return ok
}

// eventSample returns the listener event numbers at which to cancel: 1, 2, every 97th, last (capped).
func eventSample(n, maxN int) []int {
	if n == 0 {
		return nil
	}
	var out []int
	seen := map[int]bool{}
	add := func(j int) {
		if j >= 1 && j <= n && !seen[j] {
			seen[j] = true
			out = append(out, j)
		}
	}
	add(1)
	add(2)
	stride := 97
	for n/stride > maxN {
		stride += 97
	}
	for j := stride; j < n; j += stride {
		add(j)
	}
	add(n)
	return out
}

// ---------------------------------------------------------------------------
// generated parsers

type c29Grammar struct {
	g    *recgram.Grammar
	c    *recgram.Compiled
	optv string
}

func c29Grammars(c *fw.Ctx, n int) []*c29Grammar {
	r := c.R
	var out []*c29Grammar
	for i := 0; len(out) < n && i < n*12; i++ {
		v := len(out) + c.Case
		la := v%2 == 1
		nested := la && v%4 == 1 // lookahead predicates evaluated while another lookahead is running
		// two in three lookahead grammars: every decision has three alternatives, i.e. the lookahead rule is a chain of two lookaheads
		multi := la && r.Intn(3) > 0
		g := recgram.RandSkeleton(r, recgram.SkelOptions{Lookahead: la, NestedLookahead: nested, MultiCase: multi})
		var o recgram.TextOpts
		o.Opts = append(o.Opts, "cancellable = true")
		key := "cancellable"
		stream := v%4 >= 2
		if stream {
			o.Opts = append(o.Opts, "tokenStream = true")
			key += "+stream"
		}
		// (tokenStream + cancellableFetch + lookaheads does not build: a C17 matter, avoided)
		if r.Intn(2) == 0 && !(stream && la) {
			o.Opts = append(o.Opts, "cancellableFetch = true")
			key += "+fetch"
		}
		if la {
			key += "+lookahead(session)"
			if nested {
				key += "+nested"
			}
			if multi {
				key += "+multicase"
			}
			if nested || r.Intn(2) == 0 {
				o.Opts = append(o.Opts, "recursiveLookaheads = true")
				key += "+recursive"
			}
		}
		o.Opts = append(o.Opts, tableOpts(r.Intn(8))...)
		if r.Intn(2) == 0 {
			o.Opts = append(o.Opts, "fixWhitespace = true")
		}
		o.WithErr = r.Intn(3) > 0
		if o.WithErr {
			key += "+recovery"
		}
		o.Pkg = fmt.Sprintf("g%04d", len(out))
		cg := recgram.Compile(c, g, o)
		if cg == nil {
			continue
		}
		out = append(out, &c29Grammar{g: g, c: cg, optv: key})
	}
	return out
}

type c29Input struct {
	g     *c29Grammar
	text  string
	pos   [][2]int
	valid bool
	base  *c29Base
}

// c29Sentences builds sentences in three size classes (10-100, 300-1500, 2000-5000 tokens).
func c29Sentences(r *rand.Rand, g *recgram.Grammar, nt int, nSmall, nMid, nBig int) [][]int {
	var out [][]int
	want := [3]int{nSmall, nMid, nBig}
	lo := [3]int{10, 300, 2000}
	hi := [3]int{100, 1500, 5000}
	for cl := 0; cl < 3; cl++ {
		got := 0
		for tries := 0; got < want[cl] && tries < want[cl]*10; tries++ {
			s := g.LongSentence(r, nt, lo[cl]+r.Intn(hi[cl]-lo[cl])/2)
			if len(s) < lo[cl] || len(s) > hi[cl] {
				continue
			}
			out = append(out, s)
			got++
		}
	}
	return out
}

func obsFromTrace(t *genrun.Trace) (c29Obs, *genrun.XSum) {
	o := c29Obs{OK: t.OK, ErrKind: t.ErrKind, Err: t.Err, S: t.S, E: t.E, Val: t.Val, EH: t.EH, Panic: t.Panic, Polls: t.Polls}
	x := genrun.XSummary(t)
	if x != nil {
		o.N = x.N
		o.SawPoll, o.SawEv = x.SawPoll, x.SawEv
		fmt.Sscan(x.H, &o.H)
		if x.Last != nil {
			o.Last = *x.Last
		}
	}
	if len(t.Events) > 0 {
		o.Last = t.Events[len(t.Events)-1]
	}
	return o, x
}

func c29Generated(c *fw.Ctx, race bool) {
	thorough := c.Tier == "thorough"
	nG, nSmall, nMid, nBig, nBad := 4, 14, 10, 6, 8
	if thorough {
		nG, nSmall, nMid, nBig, nBad = 6, 30, 14, 8, 16
	}
	if race {
		nG, nSmall, nMid, nBig, nBad = 3, 4, 6, 4, 4
	}
	r := c.R
	gs := c29Grammars(c, nG)
	if len(gs) == 0 {
		return
	}
	var pkgs []*genrun.Pkg
	for _, g := range gs {
		pkgs = append(pkgs, g.c.Pkg)
	}
	tag := ""
	if race {
		tag = "race"
	}
	bin := recgram.BuildModule(c, tag, pkgs, race)
	if bin == "" {
		return
	}
	// pass 1: uncancelled runs
	var inputs []*c29Input
	var jobs []genrun.Job
	for _, g := range gs {
		c.Count("optvec:"+g.optv, 1)
		nt := g.g.Inputs[0].NT
		sents := c29Sentences(r, g.g, nt, nSmall, nMid, nBig)
		for _, s := range sents {
			st := recgram.RenderStyle{Tight: len(s) > 200}
			text, pos := recgram.Render(r, g.g.Terms, s, st)
			inputs = append(inputs, &c29Input{g: g, text: text, pos: pos, valid: true})
		}
		for i := 0; i < nBad && len(sents) > 0; i++ {
			s := sents[r.Intn(len(sents))]
			m := recgram.MutateMany(r, s, len(g.g.Terms), 1+r.Intn(4))
			if r.Intn(3) == 0 {
				m = cfg.Mutate(r, m, len(g.g.Terms))
			}
			text, pos := recgram.Render(r, g.g.Terms, m, recgram.RenderStyle{Tight: len(m) > 200})
			inputs = append(inputs, &c29Input{g: g, text: text, pos: pos})
		}
	}
	for i, in := range inputs {
		jobs = append(jobs, genrun.Job{ID: i, Pkg: in.g.c.Pkg.Name + ".x", Mode: "parse", Text: in.text, EH: -1, MaxEvents: 400*(len(in.text)+2) + 1000})
	}
	if c.Case == 0 && len(inputs) > 0 {
		c.Sample(map[string]any{"grammar": gs[0].c.Pkg.Text, "input_tokens": len(inputs[0].pos), "input": clipText(inputs[0].text, 300)})
	}
	res, err := genrun.Run(bin, c.WorkDir, jobs, 600)
	if err != nil {
		c.Violate("harness/runner/"+fw.Skeleton(err.Error()), err.Error(), nil)
		return
	}
	if race && strings.Contains(res.Output, "WARNING: DATA RACE") {
		c.Violate("race/data-race-reported/uncancelled", res.Output, map[string]string{"grammar.tm": gs[0].c.Pkg.Text})
	}
	for i, in := range inputs {
		t := res.Traces[i]
		if t == nil || t.Panic != "" {
			if t != nil {
				c.Violate("generated/panic-in-uncancelled-run/"+fw.Skeleton(firstLine(t.Panic)), fmt.Sprintf("text %q\n%s", clipText(in.text, 2000), t.Panic), map[string]string{"grammar.tm": in.g.c.Pkg.Text, "input.txt": in.text})
			}
			continue
		}
		o, _ := obsFromTrace(t)
		in.base = &c29Base{obs: o, events: t.Events, toks: in.pos, text: in.text}
		in.base.init()
		if in.valid && !in.base.clean {
			// a sampled sentence must be accepted (C01's property); do not use it for bounded-stop reasoning
			c.Count("sentences_not_accepted", 1)
		}
		c.Count("uncancelled_runs", 1)
		c.Count("uncancelled_polls_total", int64(o.Polls))
		if len(in.pos) >= 2000 {
			c.Count("inputs_2000plus_tokens", 1)
		}
		if len(in.pos) < 100 {
			c.Count("inputs_under_100_tokens", 1)
		}
	}
	// pass 2: cancellations
	type sched struct {
		in   *c29Input
		what string
		k    int
	}
	var scheds []sched
	jobs = nil
	add := func(in *c29Input, what string, j genrun.Job, k int) {
		j.ID = len(jobs)
		j.Pkg = in.g.c.Pkg.Name + ".x"
		j.Mode = "parse,hash"
		j.Text = in.text
		j.EH = -1
		j.MaxEvents = 400*(len(in.text)+2) + 1000
		jobs = append(jobs, j)
		scheds = append(scheds, sched{in, what, k})
	}
	for _, in := range inputs {
		if in.base == nil {
			continue
		}
		if race {
			for k := 0; k < 8; k++ {
				add(in, "async", genrun.Job{AsyncCancel: 1 + r.Intn(4000)}, 0)
			}
			add(in, "event", genrun.Job{CancelAtEvent: 1 + r.Intn(max(in.base.obs.N, 1))}, 0)
			continue
		}
		for k := 1; k <= in.base.obs.Polls; k++ {
			add(in, "poll", genrun.Job{CancelAtPoll: k}, k)
		}
		for _, j := range eventSample(in.base.obs.N, 40) {
			add(in, "event", genrun.Job{CancelAtEvent: j}, j)
		}
		add(in, "before-start", genrun.Job{CancelAtEvent: -1}, 0)
		add(in, "async", genrun.Job{AsyncCancel: 1 + r.Intn(1500)}, 0)
	}
	res2, err := genrun.Run(bin, c.WorkDir, jobs, 600)
	if err != nil {
		c.Violate("harness/runner/"+fw.Skeleton(err.Error()), err.Error(), nil)
		return
	}
	if race {
		c.Count("race_detector_runs", int64(len(res2.Traces)))
		if strings.Contains(res2.Output, "WARNING: DATA RACE") {
			c.Violate("race/data-race-reported", res2.Output, map[string]string{"grammar.tm": gs[0].c.Pkg.Text, "race_report.txt": res2.Output})
		}
	}
	for _, id := range append(append([]int(nil), res2.Crashed...), res2.CPUExceeded...) {
		s := scheds[id]
		c.Violate("generated/crash-or-cpu-limit/"+s.what, fmt.Sprintf("runner died (cancel %s %d) on %q\n%s", s.what, s.k, clipText(s.in.text, 2000), res2.Stderr),
			map[string]string{"grammar.tm": s.in.g.c.Pkg.Text, "input.txt": s.in.text, "stderr.txt": res2.Stderr})
	}
	perGrammar := map[*c29Grammar]int{}
	for id, s := range scheds {
		t := res2.Traces[id]
		if t == nil {
			continue
		}
		c.Eval(1)
		o, x := obsFromTrace(t)
		if x == nil && t.Panic == "" {
			c.Violate("harness/no-summary", fmt.Sprintf("%+v", t), nil)
			continue
		}
		cancelOff := -1
		switch s.what {
		case "before-start":
			cancelOff = 0
		case "poll", "event":
			if x != nil {
				cancelOff = x.CancelOff
			}
		}
		b := s.in.base
		files := map[string]string{"grammar.tm": s.in.g.c.Pkg.Text, "input.txt": s.in.text}
		desc := func() string {
			return fmt.Sprintf("options %s; input of %d tokens (%d bytes); cancellation: %s %d\nuncancelled: ok=%v errkind=%s [%d,%d) events=%d handler calls=%d polls=%d\ncancelled:   ok=%v errkind=%s err=%q [%d,%d) events=%d handler calls=%d polls=%d last event %s[%d,%d)\ntext: %q",
				s.in.g.optv, len(s.in.pos), len(s.in.text), s.what, s.k,
				b.obs.OK, b.obs.ErrKind, b.obs.S, b.obs.E, b.obs.N, len(b.obs.EH), b.obs.Polls,
				o.OK, o.ErrKind, o.Err, o.S, o.E, o.N, len(o.EH), o.Polls, o.Last.T, o.Last.S, o.Last.E, clipText(s.in.text, 1500))
		}
		if c29Judge(c, "generated/", s.what, s.k, b, &o, cancelOff, desc, files) {
			c.Count("cancelled_parses_"+s.what, 1)
			perGrammar[s.in.g]++
		}
	}
	var keys []string
	for g, k := range perGrammar {
		if k >= 50 {
			keys = append(keys, g.c.Pkg.Text)
		}
	}
	sort.Strings(keys)
	for _, k := range keys {
		c.Distinct(k)
	}
}

// ---------------------------------------------------------------------------
// shipped parsers (in-process)

// c29ShippedInputs assembles inputs of 10-5000+ tokens for a shipped parser.
func c29ShippedInputs(r *rand.Rand, parser string, n int) []string {
	corpus := recgram.Corpus(parser)
	var out []string
	switch parser {
	case "tm":
		// grammar files of the repository, whole (the parser section may be extended with extra rules)
		var files []string
		for _, s := range corpus {
			if strings.Contains(s, ":: parser") && len(s) < 400000 {
				files = append(files, s)
			}
		}
		for i := 0; i < n && len(files) > 0; i++ {
			s := files[r.Intn(len(files))]
			if k := strings.Index(s, "\n%%"); k >= 0 {
				s = s[:k+1]
			}
			if r.Intn(2) == 0 {
				var b strings.Builder
				b.WriteString(s)
				for k := r.Intn(600); k > 0; k-- {
					fmt.Fprintf(&b, "\nextra%d -> Extra%d : a=extra%d? 'x' (b c | d)+ %%prec x ;", k, k%7, k+1)
				}
				b.WriteString("\n")
				s = b.String()
			}
			if r.Intn(6) == 0 {
				s = recgram.MutateText(r, s, files[r.Intn(len(files))], 1+r.Intn(2))
			}
			out = append(out, s)
		}
		// small ones
		for i := 0; i < n/3 && len(corpus) > 0; i++ {
			out = append(out, corpus[r.Intn(len(corpus))])
		}
	default:
		// concatenations of test-suite snippets / repository files up to a token target
		// (only snippets that parse cleanly on their own, so that most concatenations are valid programs)
		sep := "\n"
		dialects := 1
		if parser == "js" {
			dialects = 3
		}
		pools := make([][]string, dialects)
		for _, s := range corpus {
			if len(s) >= 20000 {
				continue
			}
			for d := 0; d < dialects; d++ {
				run := recgram.RunShipped(s, recgram.SOpts{Parser: parser, Dialect: d, EH: 0})
				if run.OK && len(run.EH) == 0 && run.Panic == "" {
					pools[d] = append(pools[d], s)
				}
			}
		}
		for i := 0; i < n; i++ {
			pool := pools[i%dialects]
			if len(pool) == 0 {
				continue
			}
			target := []int{30, 200, 2000, 6000, 20000}[r.Intn(5)]
			var b strings.Builder
			for b.Len() < target {
				b.WriteString(pool[r.Intn(len(pool))])
				b.WriteString(sep)
			}
			s := b.String()
			if r.Intn(8) == 0 {
				s = recgram.MutateText(r, s, pool[r.Intn(len(pool))], 1+r.Intn(2))
			}
			out = append(out, s)
		}
		if parser == "js" {
			// long inputs with a recoverable syntax error every few dozen tokens (several poll periods)
			broken := []string{"a = ;\n", "x = (1 + ;\n", "foo(1, , 2;\n", "var = 5;\n", "b = 1 +* 2;\n", "if (x {} ;\n"}
			valid := []string{"foo(1, 2, 3);\n", "a = b + c * d;\n", "var q = [1, 2, 3];\n", "if (a) { b(); } else { c(); }\n", "function f(x, y) { return x + y; }\n"}
			for i := 0; i < n/10+3; i++ {
				var b strings.Builder
				for k := 150 + r.Intn(700); k > 0; k-- {
					b.WriteString(broken[r.Intn(len(broken))])
					for j := 1 + r.Intn(4); j > 0; j-- {
						b.WriteString(valid[r.Intn(len(valid))])
					}
				}
				out = append(out, "/*dialect0*/"+b.String())
			}
		}
	}
	return out
}

func obsFromRun(run *recgram.SRun) c29Obs {
	return c29Obs{OK: run.OK, ErrKind: run.ErrKind, Err: run.Err, S: run.S, E: run.E, Val: run.Val, N: run.N, H: run.H, Last: run.Last, EH: run.EH, Panic: run.Panic, Polls: run.Polls, SawPoll: run.SawPoll, SawEv: run.SawEv}
}

func c29ShippedCase(c *fw.Ctx, parser string) {
	thorough := c.Tier == "thorough"
	n := 200
	if thorough {
		n = 700
	}
	r := c.R
	inputs := c29ShippedInputs(r, parser, n)
	if len(inputs) == 0 {
		c.Count("corpus_missing_"+parser, 1)
		return
	}
	distinct := 0
	for i, text := range inputs {
		o := recgram.SOpts{Parser: parser, EH: -1, KeepEvents: true, MaxEvents: 400*(len(text)+2) + 1000}
		if parser == "js" {
			o.Dialect = i % 3 // inputs are assembled per dialect
			if strings.HasPrefix(text, "/*dialect0*/") {
				o.Dialect = 0
			}
		}
		if i < 30 {
			c.Note(map[string]string{"input.txt": text, "parser.txt": fmt.Sprintf("%s dialect %d", parser, o.Dialect)})
		}
		run := recgram.RunShipped(text, o)
		files := map[string]string{"input.txt": text}
		if run.Panic != "" {
			c.Violate("shipped-"+parser+"/panic-in-uncancelled-run/"+fw.Skeleton(firstLine(run.Panic)), fmt.Sprintf("text %q\n%s", clipText(text, 2000), run.Panic), files)
			continue
		}
		b := &c29Base{obs: obsFromRun(run), events: run.Events, toks: recgram.ShippedTokens(parser, o.Dialect, text), text: text}
		if parser == "js" || parser == "tm" {
			b.problemNode = "SyntaxProblem" // the node of every error alternative in js.tm and textmapper.tm
		}
		b.init()
		if !b.clean && b.obs.OK && len(b.obs.EH) >= 5 {
			c.Count("shipped_"+parser+"_inputs_with_5plus_recovered_errors", 1)
		}
		c.Count("uncancelled_runs", 1)
		c.Count("shipped_"+parser+"_uncancelled_polls_total", int64(run.Polls))
		if b.clean {
			c.Count("shipped_"+parser+"_clean_inputs", 1)
		}
		if len(b.toks) >= 2000 {
			c.Count("inputs_2000plus_tokens", 1)
		}
		if len(b.toks) < 100 {
			c.Count("inputs_under_100_tokens", 1)
		}
		judge := func(what string, k int, co recgram.SOpts, cancelOffOf func(cr *recgram.SRun) int) {
			co.Parser, co.Dialect, co.EH, co.MaxEvents = parser, o.Dialect, -1, o.MaxEvents
			cr := recgram.RunShipped(text, co)
			c.Eval(1)
			ob := obsFromRun(cr)
			desc := func() string {
				return fmt.Sprintf("shipped parser %s (dialect %d); input of %d tokens (%d bytes); cancellation: %s %d (events reported before: %d)\nuncancelled: ok=%v errkind=%s [%d,%d) events=%d handler calls=%d polls=%d\ncancelled:   ok=%v errkind=%s err=%q [%d,%d) events=%d handler calls=%d polls=%d last event %s[%d,%d)\ntext: %q",
					parser, o.Dialect, len(b.toks), len(text), what, k, cr.CancelEv,
					b.obs.OK, b.obs.ErrKind, b.obs.S, b.obs.E, b.obs.N, len(b.obs.EH), b.obs.Polls,
					ob.OK, ob.ErrKind, ob.Err, ob.S, ob.E, ob.N, len(ob.EH), ob.Polls, ob.Last.T, ob.Last.S, ob.Last.E, clipText(text, 1500))
			}
			if c29Judge(c, "shipped-"+parser+"/", what, k, b, &ob, cancelOffOf(cr), desc, files) {
				c.Count("cancelled_parses_"+what, 1)
				c.Count("shipped_"+parser+"_cancelled_parses", 1)
			}
		}
		for k := 1; k <= run.Polls; k++ {
			judge("poll", k, recgram.SOpts{CancelAtPoll: k}, func(cr *recgram.SRun) int { return cr.CancelOff })
		}
		for _, j := range eventSample(run.N, 40) {
			judge("event", j, recgram.SOpts{CancelAtEvent: j}, func(cr *recgram.SRun) int { return cr.CancelOff })
		}
		judge("before-start", 0, recgram.SOpts{CancelAtEvent: -1}, func(cr *recgram.SRun) int { return 0 })
		for k := 0; k < 2; k++ {
			judge("async", 0, recgram.SOpts{Async: time.Duration(1+r.Intn(800)) * time.Microsecond}, func(cr *recgram.SRun) int { return -1 })
		}
		if run.Polls >= 1 && distinct < 200 {
			c.Distinct(parser + "\x00" + text)
			distinct++
		}
	}
}

func c29Layout(tier string) (nGen, nRace, nShipped int) {
	if tier == "thorough" {
		return 24, 3, 12
	}
	return 4, 1, 3
}

func c29Run(c *fw.Ctx) {
	nGen, nRace, _ := c29Layout(c.Tier)
	switch {
	case c.Case < nGen:
		c29Generated(c, false)
	case c.Case < nGen+nRace:
		c29Generated(c, true)
	default:
		c29ShippedCase(c, recgram.ShippedCancellable[(c.Case-nGen-nRace)%len(recgram.ShippedCancellable)])
	}
}

func init() {
	fw.Register(&fw.Check{
		ID:          "C29",
		Rule:        "generated cases: statement/expression skeleton grammars printed with cancellable = true and varying cancellableFetch, tokenStream, (?= ...) lookaheads over whole parenthesised lists (shift counter in the session, advanced by lookahead shifts), nested lookaheads (a predicate inside the list another predicate scans) with recursiveLookaheads, lookahead decisions with three alternatives ((?= A), (?= !A & B), (?= !A & !B): chains of two lookahead calls), error recovery, table options; sentences of 10-100, 300-1500 and 2000-5000 tokens plus mutated ones. Shipped cases: js (3 dialects), tm, test parsers in-process on concatenated test-suite snippets / repository grammars (extended with extra rules) of up to several thousand tokens. Every input is first parsed uncancelled (reference), then once per schedule: cancellation at every ctx.Done() poll number k up to the uncancelled poll count (a counting context closes its channel inside the k-th poll), from inside the listener at events 1, 2, every 97th and the last, before the start, and asynchronously from a second goroutine (one generated case is built with -race; a race report is a violation). Offline monitor per cancelled parse: result is the context error or (result, value, event count+hash) equals the uncancelled run; events and handler calls are a prefix of the uncancelled ones (rolling hash); if a lower bound on the shifted tokens is known (accepted without handler call: every token; shipped js/tm inputs that recovered to acceptance, among them long js inputs with a recoverable error every few statements: every token outside SyntaxProblem nodes) and >= 514 such tokens remained after the cancel point (lexer offset recorded at the poll/event; for shipped token-stream parsers read from the stream's lexer by reflection), the result must be the context error and the last event must end within 513 tokens of the cancel point. Non-trivial/distinct: grammar with >=50 judged cancelled parses; shipped input with >=1 poll",
		Assumptions: []string{"the uncancelled run of the same parser is the reference (its correctness is C01/C02)", "token positions of generated inputs come from the renderer; for shipped parsers from a fresh run of the shipped lexer"},
		Cases: func(tier string) int {
			a, b, s := c29Layout(tier)
			return a + b + s
		},
		Par:           8,
		Run:           c29Run,
		CPUBudget:     1500,
		MinNontrivial: func(tier string) int { return 40 },
		RequiredCounters: []string{"cancelled_parses_poll", "cancelled_parses_event", "cancelled_parses_before-start", "cancelled_parses_async", "race_detector_runs",
			"returned_ctx_error", "completed_like_uncancelled", "bounded_stop_checks", "inputs_2000plus_tokens", "inputs_under_100_tokens",
			"shipped_js_cancelled_parses", "bounded_stop_checks_on_recovered_inputs", "shipped_js_inputs_with_5plus_recovered_errors", "shipped_tm_cancelled_parses", "shipped_test_cancelled_parses"},
	})
}
